module verifharness

go 1.23

require (
	github.com/golang/protobuf v1.4.3
	github.com/syndtr/goleveldb v1.0.1-0.20200815110645-5c35d600f0ca
	github.com/xuperchain/crypto v0.0.0-20201028025054-4d560674bcd6
	github.com/xuperchain/xupercore v0.0.0
	google.golang.org/protobuf v1.25.0
	pgregory.net/rapid v1.3.0
)

require (
	github.com/beorn7/perks v1.0.1 // indirect
	github.com/btcsuite/btcd v0.20.1-beta // indirect
	github.com/cloudflare/bn256 v0.0.0-20200818021822-8aba7cd1ae4c // indirect
	github.com/consensys/gnark v0.2.1-alpha // indirect
	github.com/consensys/gurvy v0.1.2-0.20200512111154-1662e289e29b // indirect
	github.com/coreos/go-semver v0.3.0 // indirect
	github.com/davecgh/go-spew v1.1.1 // indirect
	github.com/davidlazar/go-crypto v0.0.0-20170701192655-dcfb0a7ac018 // indirect
	github.com/emirpasic/gods v1.12.1-0.20201118132343-79df803e554c // indirect
	github.com/flynn/noise v0.0.0-20180327030543-2492fe189ae6 // indirect
	github.com/fsnotify/fsnotify v1.4.9 // indirect
	github.com/go-stack/stack v1.8.0 // indirect
	github.com/gogo/protobuf v1.3.1 // indirect
	github.com/golang/snappy v0.0.2-0.20200707131729-196ae77b8a26 // indirect
	github.com/google/gopacket v1.1.17 // indirect
	github.com/google/uuid v1.1.2 // indirect
	github.com/gorilla/websocket v1.4.2 // indirect
	github.com/hashicorp/errwrap v1.0.0 // indirect
	github.com/hashicorp/go-multierror v1.1.0 // indirect
	github.com/hashicorp/golang-lru v0.5.4 // indirect
	github.com/hashicorp/hcl v1.0.0 // indirect
	github.com/huin/goupnp v1.0.0 // indirect
	github.com/ipfs/go-cid v0.0.7 // indirect
	github.com/ipfs/go-datastore v0.4.4 // indirect
	github.com/ipfs/go-ipfs-addr v0.0.1 // indirect
	github.com/ipfs/go-ipfs-util v0.0.2 // indirect
	github.com/ipfs/go-ipns v0.0.2 // indirect
	github.com/ipfs/go-log v1.0.4 // indirect
	github.com/ipfs/go-log/v2 v2.1.1 // indirect
	github.com/jackpal/go-nat-pmp v1.0.2 // indirect
	github.com/jbenet/go-temp-err-catcher v0.1.0 // indirect
	github.com/jbenet/goprocess v0.1.4 // indirect
	github.com/koron/go-ssdp v0.0.0-20191105050749-2e1c40ed0b5d // indirect
	github.com/libp2p/go-addr-util v0.0.2 // indirect
	github.com/libp2p/go-buffer-pool v0.0.2 // indirect
	github.com/libp2p/go-conn-security-multistream v0.2.0 // indirect
	github.com/libp2p/go-eventbus v0.2.1 // indirect
	github.com/libp2p/go-flow-metrics v0.0.3 // indirect
	github.com/libp2p/go-libp2p v0.11.0 // indirect
	github.com/libp2p/go-libp2p-autonat v0.3.2 // indirect
	github.com/libp2p/go-libp2p-blankhost v0.2.0 // indirect
	github.com/libp2p/go-libp2p-circuit v0.3.1 // indirect
	github.com/libp2p/go-libp2p-core v0.6.1 // indirect
	github.com/libp2p/go-libp2p-crypto v0.1.0 // indirect
	github.com/libp2p/go-libp2p-discovery v0.5.0 // indirect
	github.com/libp2p/go-libp2p-kad-dht v0.8.2 // indirect
	github.com/libp2p/go-libp2p-kbucket v0.4.2 // indirect
	github.com/libp2p/go-libp2p-loggables v0.1.0 // indirect
	github.com/libp2p/go-libp2p-mplex v0.2.4 // indirect
	github.com/libp2p/go-libp2p-nat v0.0.6 // indirect
	github.com/libp2p/go-libp2p-noise v0.1.1 // indirect
	github.com/libp2p/go-libp2p-peer v0.2.0 // indirect
	github.com/libp2p/go-libp2p-peerstore v0.2.6 // indirect
	github.com/libp2p/go-libp2p-pnet v0.2.0 // indirect
	github.com/libp2p/go-libp2p-record v0.1.2 // indirect
	github.com/libp2p/go-libp2p-secio v0.2.2 // indirect
	github.com/libp2p/go-libp2p-swarm v0.2.8 // indirect
	github.com/libp2p/go-libp2p-tls v0.1.3 // indirect
	github.com/libp2p/go-libp2p-transport-upgrader v0.3.0 // indirect
	github.com/libp2p/go-libp2p-yamux v0.2.8 // indirect
	github.com/libp2p/go-mplex v0.1.2 // indirect
	github.com/libp2p/go-msgio v0.0.6 // indirect
	github.com/libp2p/go-nat v0.0.5 // indirect
	github.com/libp2p/go-netroute v0.1.3 // indirect
	github.com/libp2p/go-reuseport v0.0.2 // indirect
	github.com/libp2p/go-reuseport-transport v0.0.4 // indirect
	github.com/libp2p/go-stream-muxer-multistream v0.3.0 // indirect
	github.com/libp2p/go-tcp-transport v0.2.1 // indirect
	github.com/libp2p/go-ws-transport v0.3.1 // indirect
	github.com/libp2p/go-yamux v1.3.7 // indirect
	github.com/magiconair/properties v1.8.1 // indirect
	github.com/matttproud/golang_protobuf_extensions v1.0.1 // indirect
	github.com/minio/blake2b-simd v0.0.0-20160723061019-3f5f724cb5b1 // indirect
	github.com/minio/sha256-simd v0.1.1 // indirect
	github.com/mitchellh/mapstructure v1.1.2 // indirect
	github.com/mr-tron/base58 v1.2.0 // indirect
	github.com/multiformats/go-base32 v0.0.3 // indirect
	github.com/multiformats/go-base36 v0.1.0 // indirect
	github.com/multiformats/go-multiaddr v0.3.1 // indirect
	github.com/multiformats/go-multiaddr-dns v0.2.0 // indirect
	github.com/multiformats/go-multiaddr-fmt v0.1.0 // indirect
	github.com/multiformats/go-multiaddr-net v0.2.0 // indirect
	github.com/multiformats/go-multibase v0.0.3 // indirect
	github.com/multiformats/go-multihash v0.0.14 // indirect
	github.com/multiformats/go-multistream v0.1.2 // indirect
	github.com/multiformats/go-varint v0.0.6 // indirect
	github.com/opentracing/opentracing-go v1.2.0 // indirect
	github.com/patrickmn/go-cache v2.1.0+incompatible // indirect
	github.com/pelletier/go-toml v1.2.0 // indirect
	github.com/pkg/errors v0.9.1 // indirect
	github.com/pmezard/go-difflib v1.0.0 // indirect
	github.com/prometheus/client_golang v1.1.0 // indirect
	github.com/prometheus/client_model v0.0.0-20190812154241-14fe0d1b01d4 // indirect
	github.com/prometheus/common v0.6.0 // indirect
	github.com/prometheus/procfs v0.0.5 // indirect
	github.com/spaolacci/murmur3 v1.1.0 // indirect
	github.com/spf13/afero v1.1.2 // indirect
	github.com/spf13/cast v1.3.0 // indirect
	github.com/spf13/jwalterweatherman v1.0.0 // indirect
	github.com/spf13/pflag v1.0.5 // indirect
	github.com/spf13/viper v1.6.2 // indirect
	github.com/stretchr/testify v1.6.1 // indirect
	github.com/subosito/gotenv v1.2.0 // indirect
	github.com/whyrusleeping/go-keyspace v0.0.0-20160322163242-5b898ac5add1 // indirect
	github.com/whyrusleeping/multiaddr-filter v0.0.0-20160516205228-e903e4adabd7 // indirect
	github.com/xuperchain/log15 v0.0.0-20190620081506-bc88a9198230 // indirect
	go.opencensus.io v0.22.4 // indirect
	go.uber.org/atomic v1.6.0 // indirect
	go.uber.org/multierr v1.5.0 // indirect
	go.uber.org/zap v1.15.0 // indirect
	golang.org/x/crypto v0.0.0-20200728195943-123391ffb6de // indirect
	golang.org/x/net v0.0.0-20200822124328-c89045814202 // indirect
	golang.org/x/sys v0.0.0-20200824131525-c12d262b63d8 // indirect
	golang.org/x/text v0.3.3 // indirect
	google.golang.org/genproto v0.0.0-20200526211855-cb27e3aa2013 // indirect
	google.golang.org/grpc v1.35.0 // indirect
	gopkg.in/ini.v1 v1.51.0 // indirect
	gopkg.in/yaml.v2 v2.3.0 // indirect
	gopkg.in/yaml.v3 v3.0.0-20200313102051-9f266ea9e77c // indirect
)

replace github.com/xuperchain/xupercore => /repo

replace github.com/hyperledger/burrow => github.com/xuperchain/burrow v0.30.6-0.20210317023017-369050d94f4a
