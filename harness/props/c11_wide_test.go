package props

// C11, sub-check "acl-wide-lists" (round-7 change C11-k: a name index that is only built once a node of the permission
// tree has 8 children and is never refreshed). The exhaustive evaluator box has at most 4 signers per list, so no node
// of the permission tree ever has more than a handful of children. Here rapid draws LONG signer lists (up to 40 URIs,
// up to 24 distinct names below one node: members, outsiders, nested-account paths, foreign-account paths, bare keys,
// repeats at any distance) against rules with up to 12 members; the oracle is the same reference evaluator and the same
// two metamorphic relations as in the box (same URI set -> same verdict, superset -> no acceptance lost). Weights are
// quarters (exact binary fractions): no summation order can round.

import (
	"encoding/json"
	"fmt"
	"testing"

	"pgregory.net/rapid"

	"verifharness/hx"
)

const c11WideCheck = "acl-wide-lists"

func init() {
	replayers["C11/"+c11WideCheck] = func(raw json.RawMessage, fs *hx.FindingSet) error {
		var tr []c11Case
		if err := json.Unmarshal(raw, &tr); err != nil {
			return err
		}
		for _, k := range tr {
			if err := c11WideEval(k); err != nil {
				return err
			}
		}
		return nil
	}
}

func c11WideKeys(prefix string, n int) []string {
	out := make([]string, n)
	for i := range out {
		out[i] = fmt.Sprintf("%s%02d", prefix, i)
	}
	return out
}

func c11WideRule(rt *rapid.T, label string, pool []string, allowX2 bool) c11Rule {
	n := rapid.IntRange(1, 12).Draw(rt, label+"-members")
	if n > len(pool) {
		n = len(pool)
	}
	perm := rapid.Permutation(pool).Draw(rt, label+"-perm")
	names := append([]string{}, perm[:n]...)
	if allowX2 && rapid.IntRange(0, 1).Draw(rt, label+"-x2member") == 0 {
		names[rapid.IntRange(0, n-1).Draw(rt, label+"-x2pos")] = "X2"
	}
	if rapid.IntRange(0, 2).Draw(rt, label+"-kind") == 0 {
		r := c11Rule{Kind: "aksets"}
		k := rapid.IntRange(1, 3).Draw(rt, label+"-sets")
		for i := 0; i < k; i++ {
			sz := rapid.IntRange(1, 4).Draw(rt, label+"-setsize")
			var set []string
			for j := 0; j < sz; j++ {
				set = append(set, names[rapid.IntRange(0, len(names)-1).Draw(rt, label+"-setmember")])
			}
			// a set lists a key once
			seen := map[string]bool{}
			var ded []string
			for _, s := range set {
				if !seen[s] {
					seen[s] = true
					ded = append(ded, s)
				}
			}
			r.Sets = append(r.Sets, ded)
		}
		return r
	}
	r := c11Rule{Kind: "threshold", Den: 4}
	sum := 0
	for _, nm := range names {
		w := rapid.IntRange(1, 8).Draw(rt, label+"-w")
		r.M = append(r.M, c11Member{Name: nm, W: w})
		sum += w
	}
	r.Accept = rapid.IntRange(1, sum+1).Draw(rt, label+"-accept")
	return r
}

func c11WideCase(rt *rapid.T) (c11Case, int) {
	keys := c11WideKeys("k", 16)      // candidate members (access keys)
	outsiders := c11WideKeys("o", 16) // never members
	root := rapid.SampledFrom([]string{"acc", "acc", "method"}).Draw(rt, "root")
	rules := map[string]c11Rule{}
	rules[root] = c11WideRule(rt, "root", keys, true)
	if rapid.IntRange(0, 3).Draw(rt, "x2rule") > 0 {
		rules["X2"] = c11WideRule(rt, "x2", keys, false)
	}
	pre := root + "/"
	if root == "method" {
		pre = ""
	}
	var members []string
	for _, m := range rules[root].M {
		members = append(members, m.Name)
	}
	for _, s := range rules[root].Sets {
		members = append(members, s...)
	}
	n := rapid.IntRange(0, 40).Draw(rt, "len")
	var uris []string
	for i := 0; i < n; i++ {
		var u string
		switch rapid.IntRange(0, 9).Draw(rt, "shape") {
		case 0, 1, 2: // a member presented directly (an account member: through one of its keys)
			m := members[rapid.IntRange(0, len(members)-1).Draw(rt, "member")]
			if m == "X2" {
				u = pre + "X2/" + rapid.SampledFrom(keys).Draw(rt, "x2key")
			} else {
				u = pre + m
			}
		case 3, 4, 5: // an outsider below the same node (widens the node without helping)
			u = pre + rapid.SampledFrom(outsiders).Draw(rt, "outsider")
		case 6: // through the nested account
			u = pre + "X2/" + rapid.SampledFrom(append(append([]string{}, keys...), outsiders[:4]...)).Draw(rt, "nested")
		case 7: // another account's signer / a bare key
			if rapid.Bool().Draw(rt, "bare") {
				u = rapid.SampledFrom(keys).Draw(rt, "barekey")
				if root == "method" {
					u = "other/" + u
				}
			} else {
				u = "other/" + rapid.SampledFrom(keys).Draw(rt, "foreign")
			}
		default: // a repeat of an earlier entry, at any distance
			if len(uris) == 0 {
				u = pre + rapid.SampledFrom(keys).Draw(rt, "anykey")
			} else {
				u = uris[rapid.IntRange(0, len(uris)-1).Draw(rt, "repeat")]
			}
		}
		uris = append(uris, u)
	}
	// widest node: distinct first components below the root (and below X2)
	below := map[string]bool{}
	belowX2 := map[string]bool{}
	for _, t := range c11Tails(root, uris) {
		if len(t) > 0 {
			below[t[0]] = true
		}
		if len(t) > 1 && t[0] == "X2" {
			belowX2[t[1]] = true
		}
	}
	width := len(below)
	if len(belowX2) > width {
		width = len(belowX2)
	}
	cs := c11Case{Root: root, Rules: rules, Signers: uris}
	switch rapid.IntRange(0, 3).Draw(rt, "relation") {
	case 0:
		cs.Rel = "same-set"
		cs.Other = rapid.Permutation(uris).Draw(rt, "permuted")
		if len(uris) > 0 && rapid.Bool().Draw(rt, "dup") {
			k := rapid.IntRange(0, len(uris)-1).Draw(rt, "dupidx")
			cs.Other = append(cs.Other, uris[k])
		}
	case 1:
		cs.Rel = "superset"
		extra := rapid.IntRange(1, 12).Draw(rt, "extra")
		var front []string
		for i := 0; i < extra; i++ {
			front = append(front, pre+rapid.SampledFrom(outsiders).Draw(rt, "front"))
		}
		if rapid.Bool().Draw(rt, "atfront") {
			cs.Other = append(front, uris...)
		} else {
			cs.Other = append(append([]string{}, uris...), front...)
		}
	}
	return cs, width
}

func c11RunWide(t *testing.T, c *hx.Collector) {
	c.Check(t, c11WideCheck, hx.N(30000, 300000), func(cs *hx.Case) {
		rt := cs.RT()
		k, width := c11WideCase(rt)
		cs.Op(k)
		switch {
		case width >= 16:
			cs.Label("wide:>=16-names-below-one-node")
		case width >= 8:
			cs.Label("wide:8-15-names-below-one-node")
		default:
			cs.Label("wide:<8-names-below-one-node")
		}
		if k.Rel != "" {
			cs.Label("wide:rel-" + k.Rel)
		}
		if width >= 8 {
			cs.NontrivialKey(k)
		}
		if err := c11WideEval(k); err != nil {
			cs.Failf("%v", err)
		}
	})
}

// c11WideEval: the list (and the related list) judged by the reference evaluator, then the relation on the code alone
func c11WideEval(k c11Case) error {
	plain := k
	plain.Rel, plain.Other = "", nil
	if err := evalC11(plain); err != nil {
		return err
	}
	if k.Rel != "" {
		if err := evalC11(k); err != nil {
			return err
		}
		other := k
		other.Signers, other.Rel, other.Other = k.Other, "", nil
		if err := evalC11(other); err != nil {
			return err
		}
	}
	return nil
}
