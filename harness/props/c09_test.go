package props

import (
	"bytes"
	"encoding/json"
	"fmt"
	"math"
	"math/big"
	"os"
	"strings"
	"testing"

	"github.com/golang/protobuf/proto"
	"pgregory.net/rapid"

	"github.com/xuperchain/xupercore/bcs/ledger/xledger/state/utxo/txhash"
	"github.com/xuperchain/xupercore/bcs/ledger/xledger/state/xmodel"
	pb "github.com/xuperchain/xupercore/bcs/ledger/xledger/xldgpb"
	"github.com/xuperchain/xupercore/protos"

	"verifharness/hx"
)

// c09Mutant is one re-signed single mutation of an assembled, pre-executed transaction.
type c09Mutant struct {
	Kind string
	Tx   *pb.Transaction
}

func c09Clone(tx *pb.Transaction) *pb.Transaction { return proto.Clone(tx).(*pb.Transaction) }

// c09Mutants derives the mutants whose rejection the statement demands unambiguously.
func c09Mutants(tx *pb.Transaction, spec *hx.TxSpec, resp *protos.InvokeResponse, victim *hx.UTXO) []c09Mutant {
	var out []c09Mutant
	baseDigest, _ := txhash.MakeTxDigestHash(tx)
	add := func(kind string, m *pb.Transaction) {
		if d, _ := txhash.MakeTxDigestHash(m); bytes.Equal(d, baseDigest) {
			return // the mutation did not change the transaction
		}
		hx.SignTx(m, hx.Ring[spec.From])
		out = append(out, c09Mutant{kind, m})
	}
	// a declared read that is not current
	if len(tx.TxInputsExt) > 0 {
		m := c09Clone(tx)
		in := m.TxInputsExt[0]
		if in.RefTxid != nil {
			in.RefOffset += 7
		} else {
			in.RefTxid = []byte("0123456789abcdef0123456789abcdef")
		}
		add("read-version-not-current", m)
	}
	firstWrite := -1
	for i, o := range tx.TxOutputsExt {
		if o.Bucket != hx.TransientBucket {
			firstWrite = i
			break
		}
	}
	if firstWrite >= 0 {
		m := c09Clone(tx)
		m.TxOutputsExt[firstWrite].Value = append(append([]byte{}, m.TxOutputsExt[firstWrite].Value...), 'X')
		add("written-value-changed", m)
		m = c09Clone(tx)
		m.TxOutputsExt = append(m.TxOutputsExt[:firstWrite], m.TxOutputsExt[firstWrite+1:]...)
		add("write-dropped", m)
	}
	// one declared write replaced by a copy of another (same length: the dropped write is hidden)
	var persistent []int
	for i, o := range tx.TxOutputsExt {
		if o.Bucket != hx.TransientBucket {
			persistent = append(persistent, i)
		}
	}
	if len(persistent) >= 2 {
		m := c09Clone(tx)
		m.TxOutputsExt[persistent[0]] = proto.Clone(m.TxOutputsExt[persistent[1]]).(*protos.TxOutputExt)
		add("write-replaced-by-duplicate", m)
		m = c09Clone(tx)
		m.TxOutputsExt[persistent[len(persistent)-1]] = proto.Clone(m.TxOutputsExt[persistent[0]]).(*protos.TxOutputExt)
		add("write-replaced-by-duplicate", m)
	}
	// the read entry of a written key moved across the bucket / key boundary: bucket+key spells the same string, but
	// it is another key (never written, so its empty version is "current"); the written key is no longer read
	for i, in := range tx.TxInputsExt {
		written := false
		for _, o := range tx.TxOutputsExt {
			written = written || (o.Bucket == in.Bucket && bytes.Equal(o.Key, in.Key))
		}
		if !written || len(in.Bucket) < 2 || in.Bucket == hx.TransientBucket {
			continue
		}
		m := c09Clone(tx)
		cut := len(in.Bucket) - 1
		m.TxInputsExt[i] = &protos.TxInputExt{Bucket: in.Bucket[:cut], Key: append([]byte(in.Bucket[cut:]), in.Key...)}
		add("read-entry-moved-across-the-bucket-boundary", m)
		break
	}
	{
		m := c09Clone(tx)
		m.TxInputsExt = append(m.TxInputsExt, &protos.TxInputExt{Bucket: hx.VerifContract, Key: []byte("zz")})
		m.TxOutputsExt = append(m.TxOutputsExt, &protos.TxOutputExt{Bucket: hx.VerifContract, Key: []byte("zz"), Value: []byte("x")})
		add("write-added", m)
	}
	if len(spec.Prog) > 0 {
		m := c09Clone(tx)
		prog := append(append([]hx.Ins{}, spec.Prog...), hx.Ins{Op: "put", K: "zy", V: "injected"})
		m.ContractRequests[0].Args = hx.EncodeProg(prog)
		add("program-changed", m)
	}
	for i, rl := range tx.ContractRequests[0].ResourceLimits {
		if rl.Limit > 0 {
			m := c09Clone(tx)
			m.ContractRequests[0].ResourceLimits[i].Limit--
			add("resource-limit-lowered", m)
			break
		}
	}
	// declared limits at the far end of the integer range (a limit check written as a subtraction wraps there)
	for i, rl := range tx.ContractRequests[0].ResourceLimits {
		if rl.Limit > 0 {
			for _, v := range []int64{math.MinInt64, math.MinInt64 + 1, -1} {
				m := c09Clone(tx)
				m.ContractRequests[0].ResourceLimits[i].Limit = v
				add("resource-limit-negative", m)
			}
		}
	}
	// somebody else's output smuggled in FRONT of the contract's own inputs, declared contract-spent, and collected
	if victim != nil && len(resp.UtxoInputs) > 0 {
		vin := &protos.TxInput{RefTxid: victim.Txid, RefOffset: victim.Off, FromAddr: []byte(victim.Addr), Amount: victim.Amount.Bytes(), FrozenHeight: victim.Frozen}
		for _, front := range []bool{true, false} {
			m := c09Clone(tx)
			claimed, err := xmodel.ParseContractUtxoInputs(m)
			if err != nil || len(claimed) == 0 {
				break
			}
			if front {
				claimed = append([]*protos.TxInput{vin}, claimed...)
				m.TxInputs = append([]*protos.TxInput{vin}, m.TxInputs...)
			} else {
				claimed = append(claimed, vin)
				m.TxInputs = append(m.TxInputs, vin)
			}
			val, _ := xmodel.MarshalMessages(claimed)
			for _, oe := range m.TxOutputsExt {
				if oe.Bucket == hx.TransientBucket && string(oe.Key) == "ContractUtxo.Inputs" {
					oe.Value = val
				}
			}
			m.TxOutputs = append(m.TxOutputs, &protos.TxOutput{ToAddr: []byte(hx.Ring[spec.From].Address), Amount: victim.Amount.Bytes()})
			add("foreign-output-declared-contract-spent", m)
		}
	}
	feeIdx, payIdx := -1, -1
	for i, o := range tx.TxOutputs {
		if string(o.ToAddr) == hx.FeeAddr {
			feeIdx = i
		} else if string(o.ToAddr) == hx.Ring[spec.From].Address && payIdx < 0 {
			payIdx = i
		}
	}
	if feeIdx >= 0 && payIdx >= 0 {
		// nothing is paid at all and the declared limit sits at the far negative end (no overflow in "fee - gas")
		for i, rl := range tx.ContractRequests[0].ResourceLimits {
			if rl.Limit > 0 {
				for _, v := range []int64{math.MinInt64 + 1, math.MinInt64 + 2} {
					m := c09Clone(tx)
					m.ContractRequests[0].ResourceLimits[i].Limit = v
					f := new(big.Int).SetBytes(m.TxOutputs[feeIdx].Amount)
					p := new(big.Int).SetBytes(m.TxOutputs[payIdx].Amount)
					m.TxOutputs[payIdx].Amount = p.Add(p, f).Bytes()
					m.TxOutputs = append(m.TxOutputs[:feeIdx:feeIdx], m.TxOutputs[feeIdx+1:]...)
					add("resource-limit-negative-no-fee", m)
				}
			}
		}
	}
	if feeIdx >= 0 && payIdx >= 0 {
		m := c09Clone(tx)
		f := new(big.Int).SetBytes(m.TxOutputs[feeIdx].Amount)
		p := new(big.Int).SetBytes(m.TxOutputs[payIdx].Amount)
		m.TxOutputs[feeIdx].Amount = f.Sub(f, big.NewInt(1)).Bytes()
		m.TxOutputs[payIdx].Amount = p.Add(p, big.NewInt(1)).Bytes()
		add("fee-below-gas-used", m)
	}
	// stillCarries: do the mutant's outputs still contain every contract-originated output (as a
	// multiset)? Then the mutant is an equally valid transaction (the payer merely re-routed own
	// funds) and is not required to be rejected.
	stillCarries := func(m *pb.Transaction) bool {
		have := map[string]int{}
		for _, o := range m.TxOutputs {
			have[fmt.Sprintf("%s_%x_%d", o.ToAddr, o.Amount, o.FrozenHeight)]++
		}
		for _, o := range resp.UtxoOutputs {
			k := fmt.Sprintf("%s_%x_%d", o.ToAddr, o.Amount, o.FrozenHeight)
			if have[k] < 1 {
				return false
			}
			have[k]--
		}
		return true
	}
	if n := len(resp.UtxoOutputs); n > 0 {
		// contract-originated outputs are the last n outputs of the assembled transaction
		first := len(tx.TxOutputs) - n
		m := c09Clone(tx)
		thief := hx.Ring[spec.From].Address
		if string(m.TxOutputs[first].ToAddr) == thief {
			thief = hx.Ring[(spec.From+1)%6].Address
		}
		m.TxOutputs[first].ToAddr = []byte(thief)
		if !stillCarries(m) {
			add("contract-transfer-redirected", m)
		}
		if a := new(big.Int).SetBytes(tx.TxOutputs[first].Amount); a.Cmp(big.NewInt(1)) > 0 && payIdx >= 0 {
			m = c09Clone(tx)
			p := new(big.Int).SetBytes(m.TxOutputs[payIdx].Amount)
			m.TxOutputs[first].Amount = a.Sub(a, big.NewInt(1)).Bytes()
			m.TxOutputs[payIdx].Amount = p.Add(p, big.NewInt(1)).Bytes()
			if !stillCarries(m) {
				add("contract-transfer-amount-lowered", m)
			}
		}
	}
	if spec.ConAmt > 0 {
		m := c09Clone(tx)
		m.ContractRequests[0].Amount = fmt.Sprint(spec.ConAmt + 1)
		add("contract-call-amount-changed", m)
	}
	return out
}

// runPtx: real PreExec -> assembly -> every mutant refused without trace -> SubmitTx of the original.
func runPtx(nm *hx.NodeMachine, spec *hx.TxSpec, c *hx.Collector, fs *hx.FindingSet) error {
	resp, err := nm.RealPreExec(spec)
	if err != nil {
		nm.Stat["preexec-failed"]++
		nm.LastOutcome = "preexec-failed"
		return nil // the next CheckState proves that nothing changed
	}
	// the gas figure of the execution, recomputed from the per-request resource use the response reports and the
	// chain's gas price, resource by resource (what the execution uses = what the transaction has to pay for)
	if len(resp.Requests) == len(resp.Responses) {
		gp := nm.N.Opts.GasPrice
		up := func(n, rate int64) int64 {
			if rate == 0 {
				return 0
			}
			return (n + rate - 1) / rate
		}
		var want int64
		for _, rq := range resp.Requests {
			for _, rl := range rq.ResourceLimits {
				switch rl.Type {
				case protos.ResourceType_CPU:
					want += up(rl.Limit, gp[0])
				case protos.ResourceType_MEMORY:
					want += up(rl.Limit, gp[1])
				case protos.ResourceType_DISK:
					want += up(rl.Limit, gp[2])
				case protos.ResourceType_XFEE:
					want += up(rl.Limit, gp[3])
				}
			}
		}
		if !nm.N.Opts.NoFee && resp.GasUsed != want {
			return fmt.Errorf("pre-execution reports %d gas used; the resources it reports (%v) cost %d at the chain's gas price cpu/mem/disk/xfee = %v",
				resp.GasUsed, resp.Requests[0].ResourceLimits, want, gp)
		}
		if gp[2] != gp[3] {
			nm.Stat["ptx-under-disk-rate-unlike-xfee-rate"]++
		}
	}
	tx := hx.AssembleFromResponse(spec, resp)
	if tx == nil {
		nm.LastOutcome = "skipped"
		return nil
	}
	if err := nm.PoolState().Check(tx, nm.LM.M.Blocks[nm.LM.M.Tip].Height); err != nil {
		// the token inputs come from the generator (they may be stale for reasons of its own); the READ SET comes from
		// the real pre-execution on the live state: a read that is not at the model's current version is a wrong
		// answer of the node (e.g. a stale or mis-filled version cache after a restart)
		if strings.Contains(err.Error(), "key ") {
			return fmt.Errorf("the read set returned by the real pre-execution is not current: %v; transaction %s", err, hx.DescribeTx(tx))
		}
		nm.LastOutcome = "skipped"
		nm.Stat["generator-produced-inadmissible-spec"]++
		return nil
	}
	// an unspent, unfrozen output of somebody who signs nothing here
	var victim *hx.UTXO
	ps := nm.PoolState()
	for k := 1; k < 5 && victim == nil; k++ {
		for _, u := range ps.UtxosOf(hx.Ring[(spec.From+k)%5].Address) {
			if u.Frozen == 0 && u.Amount.Sign() > 0 {
				victim = u
				break
			}
		}
	}
	for _, m := range c09Mutants(tx, spec, resp, victim) {
		if fs.Active("C09-contract-utxo-outputs-unchecked") && (m.Kind == "contract-transfer-redirected" || m.Kind == "contract-transfer-amount-lowered") {
			nm.Stat["excluded:C09-contract-utxo-outputs-unchecked"]++
			continue
		}
		admitted, why := nm.TryMutant(m.Tx)
		if c != nil {
			c.Count(nil, false, "mutant:"+m.Kind)
		}
		if admitted {
			return fmt.Errorf("mutant %q of the pre-executed transaction was admitted: base %s; mutant %s", m.Kind, hx.DescribeTx(tx), hx.DescribeTx(m.Tx))
		}
		if os.Getenv("C09_DEBUG") != "" && m.Kind == "resource-limit-negative" {
			fmt.Printf("C09_DEBUG %s refused: %v limits=%v\n", m.Kind, why, m.Tx.ContractRequests[0].ResourceLimits)
		}
	}
	if err := nm.CheckState(); err != nil {
		return fmt.Errorf("refused mutants left a trace: %v", err)
	}
	if err := nm.SubmitReal(tx); err != nil {
		return err
	}
	nm.LastOutcome = "admitted"
	nm.Stat["ptx-admitted"]++
	if len(resp.UtxoOutputs) > 0 {
		nm.Stat["ptx-with-contract-transfer"]++
	}
	if resp.GasUsed > 0 {
		nm.Stat["ptx-with-gas"]++
	}
	return nil
}

func c09Apply(nm *hx.NodeMachine, op hx.NOp, c *hx.Collector, fs *hx.FindingSet) error {
	if op.Op == "ptx" {
		return runPtx(nm, op.Tx, c, fs)
	}
	return nm.Apply(op)
}

func init() {
	replayers["C09/preexec-pipeline"] = func(raw json.RawMessage, fs *hx.FindingSet) error {
		ops, opts, err := decodeNodeTrace(raw)
		if err != nil {
			return err
		}
		nm, err := hx.NewNodeMachine(opts, fs)
		if err != nil {
			return err
		}
		defer nm.Close()
		for i, op := range ops {
			if err := c09Apply(nm, op, nil, fs); err != nil {
				return stepErr(i, op, err)
			}
			if err := nm.CheckState(); err != nil {
				return stepErr(i, op, err)
			}
		}
		return nm.CheckFreshReplay()
	}
}

// genC09Prog draws programs with reads feeding writes, scans, nested calls, contract transfers.
func genC09Prog(rt *rapid.T, keys []string, canTransfer bool, maxTransfer int64) []hx.Ins {
	prog := drawProg(rt, keys, 0)
	if rapid.IntRange(0, 2).Draw(rt, "more") == 0 {
		prog = append(prog, drawProg(rt, keys, 0)...)
	}
	if canTransfer && maxTransfer > 0 && rapid.IntRange(0, 1).Draw(rt, "xfer") == 0 {
		amt := int64(rapid.IntRange(1, int(minI64(maxTransfer, 50))).Draw(rt, "xferamt"))
		prog = append(prog, hx.Ins{Op: "transfer", To: hx.Ring[rapid.IntRange(0, 5).Draw(rt, "xferto")].Address, Amt: amt})
	}
	switch rapid.IntRange(0, 19).Draw(rt, "tail") {
	case 0:
		prog = append(prog, hx.Ins{Op: "fail"})
	case 1, 2, 3:
		prog = append(prog, hx.Ins{Op: "fee", N: rapid.IntRange(1, 30).Draw(rt, "xfee")})
	}
	return prog
}

func minI64(a, b int64) int64 {
	if a < b {
		return a
	}
	return b
}

func genC09Op(rt *rapid.T, nm *hx.NodeMachine, cfg genCfg) hx.NOp {
	m := nm.LM.M
	r := rapid.IntRange(0, 99).Draw(rt, "c09kind")
	switch {
	case r < 58:
		s := nm.PoolState()
		c2 := cfg
		c2.ContractPct = 0
		spec, ok := genTxSpec(rt, nm, s, c2, m.Blocks[m.Tip].Height, false)
		if !ok {
			return hx.NOp{Op: "sync"}
		}
		// keep a plain change output last so that the gas can be taken from it
		spec.Outs = nil
		total := big.NewInt(0)
		for _, in := range spec.Ins {
			a, _ := new(big.Int).SetString(in.Amount, 10)
			total.Add(total, a)
		}
		cu := s.UtxosOf(hx.VerifContract)
		canTransfer := len(cu) == 1 && cu[0].Frozen == 0
		var maxT int64
		if canTransfer {
			maxT = cu[0].Amount.Int64()
		}
		spec.Prog = genC09Prog(rt, cfg.Keys, canTransfer, maxT)
		// several contract transfers in ONE transaction (round-7 change C09-k: the replay's cursor over the declared
		// contract inputs goes wrong from the third selection on): when the contract owns k >= 3 EQUAL unfrozen outputs,
		// k transfers of exactly that amount consume all of them whichever output each selection takes first
		if len(cu) >= 3 && rapid.IntRange(0, 1).Draw(rt, "multixfer") == 0 {
			equal := true
			for _, u := range cu {
				equal = equal && u.Frozen == 0 && u.Amount.Cmp(cu[0].Amount) == 0
			}
			if equal {
				spec.Prog = drawProg(rt, cfg.Keys, 0)
				for range cu {
					spec.Prog = append(spec.Prog, hx.Ins{Op: "transfer", To: hx.Ring[rapid.IntRange(0, 5).Draw(rt, "mxferto")].Address, Amt: cu[0].Amount.Int64()})
				}
			}
		}
		if len(cu) == 0 && total.Cmp(big.NewInt(1000)) > 0 && rapid.IntRange(0, 3).Draw(rt, "fundmany") == 0 {
			// a plain payment of 3-5 equal outputs to the contract's address
			k := rapid.IntRange(3, 5).Draw(rt, "fundk")
			a := int64(rapid.IntRange(5, 40).Draw(rt, "funda"))
			spec.Prog = nil
			for i := 0; i < k; i++ {
				spec.Outs = append(spec.Outs, hx.OutSpec{To: -2, ToS: hx.VerifContract, Amount: fmt.Sprint(a)})
				total.Sub(total, big.NewInt(a))
			}
			spec.Outs = append(spec.Outs, hx.OutSpec{To: spec.From, Amount: total.String()})
			return hx.NOp{Op: "tx", Tx: &spec}
		}
		if len(cu) == 0 && total.Cmp(big.NewInt(1000)) > 0 && rapid.IntRange(0, 2).Draw(rt, "fund") == 0 {
			spec.ConAmt = int64(rapid.IntRange(1, 300).Draw(rt, "conamt"))
			spec.Outs = append(spec.Outs, hx.OutSpec{To: -2, ToS: hx.VerifContract, Amount: fmt.Sprint(spec.ConAmt)})
			total.Sub(total, big.NewInt(spec.ConAmt))
		}
		spec.Outs = append(spec.Outs, hx.OutSpec{To: spec.From, Amount: total.String()})
		return hx.NOp{Op: "ptx", Tx: &spec}
	case r < 72:
		if nm.Ptr != m.Tip {
			return hx.NOp{Op: "sync"}
		}
		return hx.NOp{Op: "mine", Label: fmt.Sprintf("b%d", len(m.Blocks)), Proposer: rapid.IntRange(0, 2).Draw(rt, "proposer")}
	default:
		return genNodeOp(rt, nm, cfg)
	}
}

func TestC09(t *testing.T) {
	c := hx.NewCollector("C09", "exploration",
		"gas price with drawn disk / xfee rates in {1,3,7,100}; the gas a pre-execution reports must equal the cost of the resources it reports, resource by resource; generated $verif programs (get / put / putfrom / del / range scans with bounds and early stop feeding a write / nested call / contract-originated transfer / emit / xfee use / fail) over all prior states produced by the node machine are sent through the real pipeline: Chain.PreExec on live state -> transaction assembled exactly as a client does from the InvokeResponse (read/write set, requests with returned limits, contract utxo inputs/outputs, '$' output = gas used) -> re-signed single mutations (declared read not current, written value changed, write added / dropped, program changed, resource limit lowered, fee below gas, contract transfer redirected / lowered, call amount changed) must ALL be refused by VerifyTx/DoTx without trace -> the original is submitted through the real Chain.SubmitTx and must be admitted; after every step the node equals the model, which applies exactly the declared write set and outputs; a failing program makes PreExec fail and changes nothing. Non-trivial = admitted pre-executed transaction whose program has a write depending on a read or scan, a nested call, or a contract transfer; distinct = hash of the trace",
		"goleveldb on in-memory storage behaves like LevelDB", "a contract-originated transfer is generated only when the contract owns exactly one output (SelectUtxos' choice among several is map-order dependent)")
	defer c.Flush(t)
	fs := hx.LoadFindings()
	resolveSharedFindings(fs, c)
	regressFixed(t, c, fs, "C09")
	cfg := defaultGenCfg()
	cfg.ForkPrefix = false
	cfg.MaxSteps = 22
	cfg.MinSteps = 6
	c.Check(t, "preexec-pipeline", hx.N(250, 2000), func(cs *hx.Case) {
		rt := cs.RT()
		opts := hx.DefaultOpts()
		// gas price: disk and xfee rates other than the 1 / 1 of every shipped genesis file, and unlike each other
		opts.GasPrice[2] = rapid.SampledFrom([]int64{1, 1, 3, 7, 100}).Draw(rt, "diskrate")
		opts.GasPrice[3] = rapid.SampledFrom([]int64{1, 1, 3, 7, 100}).Draw(rt, "xfeerate")
		cs.Op(map[string]interface{}{"opts": opts})
		nm, err := hx.NewNodeMachine(opts, fs)
		if err != nil {
			rt.Fatalf("setup: %v", err)
		}
		defer nm.Close()
		n := rapid.IntRange(cfg.MinSteps, cfg.MaxSteps).Draw(rt, "steps")
		deep := false
		for i := 0; i < n; i++ {
			op := genC09Op(rt, nm, cfg)
			cs.Op(op)
			if err := c09Apply(nm, op, c, fs); err != nil {
				cs.Failf("step %d %s: %v", i, opJSON(op), err)
			}
			if err := nm.CheckState(); err != nil {
				cs.Failf("after step %d %s: %v", i, opJSON(op), err)
			}
			if op.Op == "ptx" && nm.LastOutcome == "admitted" {
				for _, in := range op.Tx.Prog {
					if in.Op == "putfrom" || in.Op == "scan" || in.Op == "call" || in.Op == "transfer" {
						deep = true
					}
				}
			}
		}
		if err := nm.CheckFreshReplay(); err != nil {
			cs.Failf("final fresh replay: %v", err)
		}
		for k, v := range nm.Stat {
			if v > 0 {
				cs.Label(k)
				if len(k) > 9 && k[:9] == "excluded:" {
					for j := 0; j < v; j++ {
						cs.Exclude(k[9:])
					}
				}
			}
		}
		if deep {
			cs.Nontrivial()
		}
	})
}
