package props

import (
	"encoding/hex"
	"encoding/json"
	"fmt"
	"testing"

	"pgregory.net/rapid"

	"verifharness/hx"
)

// nodeReplayer builds a replayer for node-machine traces with an optional extra per-step check.
func nodeReplayer(extra func(nm *hx.NodeMachine) error) func(raw json.RawMessage, fs *hx.FindingSet) error {
	return func(raw json.RawMessage, fs *hx.FindingSet) error {
		ops, opts, err := decodeNodeTrace(raw)
		if err != nil {
			return err
		}
		nm, err := hx.NewNodeMachine(opts, fs)
		if err != nil {
			return err
		}
		defer nm.Close()
		for i, op := range ops {
			if err := nm.Apply(op); err != nil {
				return stepErr(i, op, err)
			}
			if err := nm.CheckState(); err != nil {
				return stepErr(i, op, err)
			}
			if err := nm.LM.CheckInvariant(); err != nil {
				return stepErr(i, op, err)
			}
			if extra != nil {
				if err := extra(nm); err != nil {
					return stepErr(i, op, err)
				}
			}
		}
		return nm.CheckFreshReplay()
	}
}

func init() {
	replayers["C02/node-machine-adversarial"] = nodeReplayer(nil)
	replayers["C03/node-machine-conflicts"] = nodeReplayer(nil)
	replayers["C17/node-machine-window"] = nodeReplayer(nil)
	replayers["C18/node-machine-snapshots"] = nodeReplayer(func(nm *hx.NodeMachine) error { _, err := nm.CheckSnapshots(); return err })
	replayers["C18/long-version-chain"] = replayers["C18/node-machine-snapshots"]
}

// mixedOp draws an ordinary operation, or with probability advPct an adversarial one.
func mixedOp(rt *rapid.T, nm *hx.NodeMachine, cfg genCfg, advTxPct, advPeerPct int) hx.NOp {
	r := rapid.IntRange(0, 99).Draw(rt, "mix")
	switch {
	case r < advTxPct:
		return genAdvOp(rt, nm, cfg)
	case r < advTxPct+advPeerPct:
		return genAdvPeer(rt, nm, cfg)
	}
	return genNodeOp(rt, nm, cfg)
}

// runMixedCase is runNodeCase with adversarial candidates mixed in.
func runMixedCase(cs *hx.Case, fs *hx.FindingSet, cfg genCfg, advTxPct, advPeerPct int, after func(nm *hx.NodeMachine, op hx.NOp) error, final func(nm *hx.NodeMachine)) {
	cfg.Mix = func(rt *rapid.T, nm *hx.NodeMachine) hx.NOp { return mixedOp(rt, nm, cfg, advTxPct, advPeerPct) }
	runNodeCase(cs, fs, cfg, func(nm *hx.NodeMachine, op hx.NOp, i int) error {
		if op.Expect != "" {
			cs.Label("candidate:" + op.Expect + ":" + nm.LastOutcome)
		}
		if after != nil {
			return after(nm, op)
		}
		return nil
	}, final)
}

func TestC02(t *testing.T) {
	c := hx.NewCollector("C02", "exploration",
		"node state machine (as C01) with big (>64 bit) genesis amounts and adversarial candidates mixed in: unbalanced outputs, duplicate input, wrong cited amount, frozen input, coinbase flag, leading-zero encodings, double spends, blocks with wrong award / two coinbases; after every step sum(UTXO table)+pending fees == GetTotal == sum of coinbase outputs of the applied chain (model) and every balance == sum of its outputs; every candidate the model refuses must be refused. Non-trivial = case with >= 1 refused adversarial candidate and >= 1 fee-paying or coinbase-undoing step; distinct = hash of the trace",
		"goleveldb on in-memory storage behaves like LevelDB", "addresses are real base58 addresses (no '_' inside)")
	defer c.Flush(t)
	fs := hx.LoadFindings()
	resolveSharedFindings(fs, c)
	regressFixed(t, c, fs, "C02")
	cfg := defaultGenCfg()
	cfg.BigAmounts = true
	cfg.ContractPct = 20
	c.Check(t, "node-machine-adversarial", hx.N(500, 3500), func(cs *hx.Case) {
		runMixedCase(cs, fs, cfg, 28, 8, nil, func(nm *hx.NodeMachine) {
			if err := nm.CheckFreshReplay(); err != nil {
				cs.Failf("final fresh replay: %v", err)
			}
			if nm.Stat["tx-refused"] > 0 && (nm.Stat["mine-with-pool"] > 0 || nm.Stat["walk-undo"] > 0) {
				cs.Nontrivial()
			}
		})
	})
}

func TestC03(t *testing.T) {
	c := hx.NewCollector("C03", "exploration",
		"node state machine (as C01) with conflict families: candidates assembled against the chain state ignoring pending transactions, against older blocks (spent outputs, superseded key versions), re-submissions, double spends, peer blocks re-including confirmed transactions or built on an older state; soundness: a candidate with a non-current input (model) must be refused by VerifyTx/DoTx and a block containing one must fail to play; completeness: a candidate all of whose inputs are current is never refused; after every step the admitted set equals the model (conflict-free by construction). Non-trivial = case where a stale candidate was refused after at least one block was played or undone; distinct = hash of the trace",
		"goleveldb on in-memory storage behaves like LevelDB")
	defer c.Flush(t)
	fs := hx.LoadFindings()
	resolveSharedFindings(fs, c)
	regressFixed(t, c, fs, "C03")
	cfg := defaultGenCfg()
	cfg.ContractPct = 60
	c.Check(t, "node-machine-conflicts", hx.N(500, 3500), func(cs *hx.Case) {
		runMixedCase(cs, fs, cfg, 30, 10, nil, func(nm *hx.NodeMachine) {
			if err := nm.CheckFreshReplay(); err != nil {
				cs.Failf("final fresh replay: %v", err)
			}
			if nm.Stat["tx-refused-stale"] > 0 && (nm.Stat["walk"] > 0 || nm.Stat["mine"] > 0 || nm.Stat["play"] > 0) {
				cs.Nontrivial()
			}
		})
	})
}

func TestC17(t *testing.T) {
	c := hx.NewCollector("C17", "exploration",
		"node state machine (as C01) with slide window w in {0,1,2,3,5}, forks on both sides of the irreversible height, walks that try to cross it, prune walks, reopen; after every step IrreversibleBlockHeight == model (max over applied blocks of height-w, floored at 0; recomputed by prune walks) and IrreversibleSlideWindow == w; a walk that must undo a block at or below the height fails and leaves the state on the chain containing that block; values survive reopen. Non-trivial = case with a walk refused because of the irreversible height; distinct = hash of the trace",
		"goleveldb on in-memory storage behaves like LevelDB")
	defer c.Flush(t)
	fs := hx.LoadFindings()
	resolveSharedFindings(fs, c)
	regressFixed(t, c, fs, "C17")
	cfg := defaultGenCfg()
	cfg.Windows = []int64{0, 1, 1, 2, 2, 3, 5}
	cfg.AllowPrune = true
	cfg.WWalk = 22
	cfg.WTx = 20
	// consensus rollbacks of the tip (the miner's real truncateForMiner: legal only above the irreversible height)
	// followed by restarts: neither may lower the irreversible height
	cfg.AllowTruncate = true
	cfg.WTruncate = 6
	cfg.WReopen = 8
	c.Check(t, "node-machine-window", hx.N(500, 3500), func(cs *hx.Case) {
		// a few adversarial peer blocks (state-invalid ones make multi-block walks abort part-way)
		last := ""
		cfg2 := cfg
		// directed sequence (round-7 change C17-k: the error path of a multi-block walk restores a meta snapshot taken at
		// the walk's entry): a valid block V on the tip, a state-invalid block I on V (forged award: stored by the ledger,
		// refused by the state machine), Walk(I) - applies V, which may raise the irreversible height, and aborts at I -,
		// then a walk back to the pointer's parent (an undoing walk: refused exactly when it crosses the height)
		var queue []func(rt *rapid.T, nm *hx.NodeMachine) hx.NOp
		cfg2.Mix = func(rt *rapid.T, nm *hx.NodeMachine) hx.NOp {
			if len(queue) > 0 {
				f := queue[0]
				queue = queue[1:]
				return f(rt, nm)
			}
			if m := nm.LM.M; nm.Window > 0 && nm.Ptr == m.Tip && nm.Valid[m.Tip] && nm.States[m.Tip] != nil && rapid.IntRange(0, 11).Draw(rt, "abortedwalk") == 0 {
				queue = append(queue,
					func(rt *rapid.T, nm *hx.NodeMachine) hx.NOp {
						v := len(nm.LM.M.Blocks) - 1
						if !nm.LM.M.Blocks[v].Stored || !nm.Valid[v] || nm.States[v] == nil {
							queue = nil
							return hx.NOp{Op: "sync"}
						}
						op := genPeerOn(rt, nm, cfg, v)
						op.CBIn = 1
						op.Expect = "coinbase-with-input-or-write"
						return op
					},
					func(rt *rapid.T, nm *hx.NodeMachine) hx.NOp {
						return hx.NOp{Op: "walk", Target: len(nm.LM.M.Blocks) - 1, Expect: "walk-aborted-behind-a-valid-block"}
					},
					func(rt *rapid.T, nm *hx.NodeMachine) hx.NOp {
						p := nm.LM.M.Blocks[nm.Ptr].Parent
						if p < 0 {
							p = 0
						}
						return hx.NOp{Op: "walk", Target: p, Expect: "undoing-walk-after-aborted-walk"}
					})
				return genPeerOn(rt, nm, cfg, m.Tip)
			}
			if last == "truncate" && rapid.Bool().Draw(rt, "restartaftertruncate") {
				return hx.NOp{Op: "reopen", Expect: "restart-right-after-truncation"} // start-up code sees a ledger below the persisted height
			}
			return mixedOp(rt, nm, cfg, 0, 9)
		}
		runNodeCase(cs, fs, cfg2, func(nm *hx.NodeMachine, op hx.NOp, i int) error {
			last = op.Op
			if nm.LastOutcome == "skipped" {
				last = ""
			}
			if op.Expect != "" {
				cs.Label("candidate:" + op.Expect + ":" + nm.LastOutcome)
			}
			return nil
		}, func(nm *hx.NodeMachine) {
			if nm.Stat["walk-refused-irreversible"] > 0 {
				cs.Nontrivial()
			}
			if nm.Window > 0 {
				cs.Label("window>0")
			}
		})
	})
}

func TestC18(t *testing.T) {
	c := hx.NewCollector("C18", "exploration",
		"node state machine (as C01) biased to key histories (create, overwrite, delete, re-create, several writes per block, pending writes on top, reorganisations); after every step, with the state pointer on the main chain, for EVERY ancestor block B of the pointer and every key CreateSnapshot(B).Get / CreateXMSnapshotReader(B).Get equal the model state at B (value and version), and GetTipXMSnapshotReader equals the model at the pointer without pending writes. Non-trivial = case in which some key has >= 3 versions including a delete and a snapshot strictly inside its history was read; distinct = hash of the trace",
		"goleveldb on in-memory storage behaves like LevelDB")
	defer c.Flush(t)
	fs := hx.LoadFindings()
	resolveSharedFindings(fs, c)
	regressFixed(t, c, fs, "C18")
	cfg := defaultGenCfg()
	cfg.ContractPct = 85
	cfg.Keys = []string{"a", "b", "c"}
	reads := 0
	// pending transactions that a losing (never played) side block also carries must stay invisible
	cfg.Mix = func(rt *rapid.T, nm *hx.NodeMachine) hx.NOp {
		m := nm.LM.M
		if len(nm.Pool) > 0 && m.Blocks[nm.Ptr].Parent >= 0 && rapid.IntRange(0, 9).Draw(rt, "sidecarrier") == 0 {
			parent := m.Blocks[nm.Ptr].Parent
			if rapid.Bool().Draw(rt, "deeper") && m.Blocks[parent].Parent >= 0 {
				parent = m.Blocks[parent].Parent
			}
			op := hx.NOp{Op: "peer", Label: fmt.Sprintf("b%d", len(m.Blocks)), Parent: parent, Proposer: 1, Expect: "side-block-carrying-pending"}
			for _, ptx := range nm.Pool {
				op.Pool = append(op.Pool, fmt.Sprintf("%x", ptx.Txid))
			}
			return op
		}
		return genNodeOp(rt, nm, cfg)
	}
	c.Check(t, "node-machine-snapshots", hx.N(400, 2500), func(cs *hx.Case) {
		runNodeCase(cs, fs, cfg, func(nm *hx.NodeMachine, op hx.NOp, i int) error {
			n, err := nm.CheckSnapshots()
			reads += n
			return err
		}, func(nm *hx.NodeMachine) {
			if nm.DeepKeyHistory() {
				cs.Nontrivial()
				cs.Label("key-with-3-versions-incl-delete")
			}
		})
	})
	if !t.Failed() {
		// long version chains (round-7 change C18-k: the snapshot's walk along a key's version chain gives up after 256
		// steps): a key written once, a snapshot block, then ONE peer block with 258-300 transactions that each rewrite
		// the key; the snapshot at every ancestor must still answer what the model says
		c.Check(t, "long-version-chain", hx.N(3, 6), func(cs *hx.Case) {
			rt := cs.RT()
			opts := hx.DefaultOpts()
			cs.Op(map[string]interface{}{"opts": opts})
			nm, err := hx.NewNodeMachine(opts, fs)
			if err != nil {
				rt.Fatalf("setup: %v", err)
			}
			defer nm.Close()
			exec := func(op hx.NOp) {
				cs.Op(op)
				if err := nm.Apply(op); err != nil {
					cs.Failf("%s: %v", opJSON(op), err)
				}
				if err := nm.CheckState(); err != nil {
					cs.Failf("after %s: %v", opJSON(op), err)
				}
				n, err := nm.CheckSnapshots()
				reads += n
				if err != nil {
					cs.Failf("after %s: %v", opJSON(op), err)
				}
			}
			long := false
			block := func(n int, expect string) {
				m := nm.LM.M
				parent := nm.Ptr
				op := hx.NOp{Op: "peer", Label: fmt.Sprintf("b%d", len(m.Blocks)), Parent: parent, Proposer: 1, Expect: expect}
				s := nm.States[parent].Clone()
				h := m.Blocks[parent].Height + 1
				for i := 0; len(op.Txs) < n && i < 4*n; i++ {
					// a self-payment of one whole unfrozen output of ring key 0 that rewrites the key
					us := spendable(s, hx.Ring[0].Address, h, false)
					if len(us) == 0 {
						break
					}
					u := us[0]
					nm.Seq++
					spec := hx.TxSpec{From: 0, Seq: nm.Seq, Version: 3,
						Ins:  []hx.InRef{{Addr: 0, Txid: hex.EncodeToString(u.Txid), Off: u.Off, Amount: u.Amount.String(), Frozen: u.Frozen}},
						Outs: []hx.OutSpec{{To: 0, Amount: u.Amount.String()}},
						Prog: []hx.Ins{{Op: "put", K: "a", V: fmt.Sprintf("v%d", i%10)}}}
					if i%50 == 49 {
						spec.Prog = append(spec.Prog, hx.Ins{Op: "put", K: "b", V: "w"})
					}
					if tx, _ := buildForGen(nm, &spec, s); tx != nil {
						s.Apply(tx, "")
						op.Txs = append(op.Txs, spec)
					}
				}
				if n > 200 && len(op.Txs) > 256 {
					long = true
				}
				exec(op)
				exec(hx.NOp{Op: "sync"})
			}
			block(rapid.IntRange(1, 3).Draw(rt, "first"), "first-writes")
			block(1, "snapshot-block")
			n := rapid.IntRange(258, 300).Draw(rt, "rewrites")
			block(n, "long-chain")
			if nm.Stat["peer-stored"] >= 3 && long {
				cs.NontrivialKey(n)
				cs.Label("version-chain>256-behind-a-snapshot")
			}
		})
	}
	c.Extra("snapshot_reads_compared", reads)
}
