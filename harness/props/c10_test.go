package props

// C10 — Sandbox: read-your-writes, exact range scans, sound replayable read/write set.
//
// Generator: sequences of Get / Put / Del / Select(bounds, early stop) / Transfer on a
// sandbox.XMCache over a backing ledger.XMReader. Oracle: an overlay-map model written from the
// statement, the read/write-set rules (a)(b)(c), and a replay of the same calls over
// sandbox.XMReaderFromRWSet(rwset) (what state.verifyTxRWSets does).
// Two bucket universes: kv / kvx / transient (check sandbox-sequence), and a generated bucket family
// whose names extend one another with bytes below / above the raw-key separator (c10GenFamily, check
// sandbox-sequence-bucket-family; "several buckets" of the quantifier, scans from the bucket start).
//
// The backing state (i) is c10Mimic, a small ledger.XMReader with the observable behaviour of the
// ledger's xmodel.XModel (bcs/ledger/xledger/state/xmodel/xmodel.go):
//   Get(never written) -> empty VersionedData{PureData{Bucket,Key}}, nil error   (xmodel.go Get)
//   Get(deleted)       -> the VersionedData whose value is the delete marker, with its version
//   Get(live)          -> the VersionedData
//   Select             -> only LIVE keys of the raw range [bucket/start, bucket/end), never an error
//   the transient bucket is never stored (updateExtUtxo skips it)
// A bare *sandbox.MemXModel is NOT a faithful backing: its Get answers ErrNotFound for keys it does
// not hold, it is only used as backing at verification time (XMReaderFromRWSet), where every key
// the execution accesses is present.
//
// Domain restrictions (not findings):
//   - a Select with a nil end key is only generated / evaluated when the backing holds no live key
//     >= start in that bucket: there XModel (raw range [bucket/start, bucket/) = empty) and MemXModel
//     (scan to the end of the bucket) agree; elsewhere the result depends on the ledger's
//     XModel.Select, which this backing only imitates (needs backing (ii), see c10RealBacking).
//   - values never equal the delete marker "\x00" (in-band marker, a Put of it IS a delete).
//   - Transfer is always from the initiator, amount >= 0, non-empty receiver (bridge.SyscallService.Transfer).
//   - one scan is consumed and closed before the next call.
// Deliberately not asserted (the statement does not claim it): which of ErrNotFound / ErrHasDel a
// read of an absent key answers (only "no value"; the replay must answer the same one), the outcome
// of a Transfer (only that the replay reproduces it), absence of keys inside a scanned range
// (no phantom protection), that look-ahead keys are NOT in the read set.

import (
	"bytes"
	"encoding/json"
	"fmt"
	"math/big"
	"os"
	"sort"
	"testing"

	"pgregory.net/rapid"

	"github.com/xuperchain/xupercore/bcs/ledger/xledger/state/xmodel"
	lpb "github.com/xuperchain/xupercore/bcs/ledger/xledger/xldgpb"
	"github.com/xuperchain/xupercore/kernel/contract"
	"github.com/xuperchain/xupercore/kernel/contract/sandbox"
	"github.com/xuperchain/xupercore/kernel/ledger"
	"github.com/xuperchain/xupercore/protos"

	"verifharness/hx"
)

// ---------------------------------------------------------------------------------------------
// trace = backing descriptor + operations (plain JSON-able data)

const (
	c10B1 = "kv"
	c10B2 = "kvx"
	c10BT = sandbox.TransientBucket
)

var (
	c10Keys   = []string{"a", "aa", "ab", "b", "ba", "c"}
	c10Bounds = []string{"", "a", "aa", "aaa", "ab", "b", "b0", "ba", "c", "d"}
)

// Bucket families (check "sandbox-sequence-bucket-family"): several stored buckets whose names extend one
// another. A raw key is bucket + "/" + key, so the keys of a bucket whose name is <b> + <byte below '/'> + ...
// sort between the bare name "<b>" and the first possible key "<b>/" of bucket <b>, the keys of a bucket
// <b> + <byte above '/'> + ... sort behind all keys of <b>; a scan of <b> (from the bucket start in particular)
// must stay inside <b> in both cases. The separator itself never occurs in a bucket name (raw keys of two
// buckets would alias), bucket names are plain ASCII (JSON-able traces).
const c10FamBase = "kv"

var (
	c10ExtBelow = []string{" ", "#", "$", "-", "."} // bytes sorting below the separator '/' ('.' = '/' - 1)
	c10ExtAbove = []string{"0", "2", "_", "x", "~"} // bytes sorting above the separator ('0' = '/' + 1)
	c10ExtTails = []string{"", "2", "m"}
)

const c10FamilyCheck = "sandbox-sequence-bucket-family"

// c10Ent is one key of the backing state: live (value V) or deleted (Del), with its version.
// Keys not listed are never-written.
type c10Ent struct {
	B   string `json:"b"`
	K   string `json:"k"`
	Del bool   `json:"del,omitempty"`
	V   string `json:"v,omitempty"`
	Tx  string `json:"tx"`
	Off int32  `json:"off"`
}

type c10Backing struct {
	Kind      string   `json:"backing"` // "xmodel-mimic"
	Ents      []c10Ent `json:"ents"`
	Initiator string   `json:"initiator"`
	Utxos     []int64  `json:"utxos"` // spendable outputs of the initiator, in selection order
}

type c10Op struct {
	// get | put | del | select | transfer | bg (a concurrent commit overwrites the LIVE backing key B/K with V: pre-execution
	// reads the live state while other transactions commit; a key this execution has already read stays at the
	// version it saw, a key it has not read yet is read at the new version)
	Op    string  `json:"op"`
	B     string  `json:"b,omitempty"`
	K     string  `json:"k,omitempty"`
	V     string  `json:"v,omitempty"`
	Start *string `json:"start,omitempty"` // nil = nil start key
	End   *string `json:"end,omitempty"`   // nil = nil end key
	Stop  int     `json:"stop,omitempty"`  // 0 = exhaust; n = caller stops after n items (NewIterator cap)
	To    string  `json:"to,omitempty"`
	Amt   int64   `json:"amt,omitempty"`
}

type c10Trace struct {
	Backing c10Backing
	Ops     []c10Op
}

func c10ParseTrace(raw json.RawMessage) (c10Trace, error) {
	var tr c10Trace
	var parts []json.RawMessage
	if err := json.Unmarshal(raw, &parts); err != nil {
		return tr, err
	}
	if len(parts) == 0 {
		return tr, fmt.Errorf("empty C10 trace")
	}
	if err := json.Unmarshal(parts[0], &tr.Backing); err != nil {
		return tr, err
	}
	for _, p := range parts[1:] {
		var op c10Op
		if err := json.Unmarshal(p, &op); err != nil {
			return tr, err
		}
		tr.Ops = append(tr.Ops, op)
	}
	return tr, nil
}

func init() {
	replayers["C10/sandbox-sequence"] = func(raw json.RawMessage, fs *hx.FindingSet) error {
		tr, err := c10ParseTrace(raw)
		if err != nil {
			return err
		}
		return runC10Trace(tr, nil)
	}
	replayers["C10/"+c10FamilyCheck] = replayers["C10/sandbox-sequence"]
}

// ---------------------------------------------------------------------------------------------
// findings protocol: ids, exclusions, witnesses

// c10Exclude[id] = true: the generator does not emit (and the interpreter skips) the trigger
// shape of that root cause. Set at the top of TestC10 for every id whose witness still violates.
var c10Exclude = map[string]bool{}

const (
	c10FOwnDel   = "C10-select-yields-own-delete"
	c10FReadMiss = "C10-select-yields-read-miss"
	c10FInverted = "C10-select-inverted-range-panics"
)

func c10s(s string) *string { return &s }

type c10Witness struct {
	id string
	tr c10Trace
}

func c10Witnesses() []c10Witness {
	bk := func(ents ...c10Ent) c10Backing {
		return c10Backing{Kind: "xmodel-mimic", Ents: ents, Initiator: "alice"}
	}
	liveA := c10Ent{B: c10B1, K: "a", V: "v0", Tx: "t1", Off: 0}
	return []c10Witness{
		// Del k; Select over k: k is yielded with the delete marker as its value
		{c10FOwnDel, c10Trace{bk(liveA), []c10Op{
			{Op: "del", B: c10B1, K: "a"},
			{Op: "select", B: c10B1, Start: c10s("a"), End: c10s("b")}}}},
		// Get of a never-written key; Select over it: the key is yielded with an empty value
		{c10FReadMiss, c10Trace{bk(), []c10Op{
			{Op: "get", B: c10B1, K: "a"},
			{Op: "select", B: c10B1, Start: c10s("a"), End: c10s("b")}}}},
		// Select; then Get of a never-written key of the range: the replay's Select yields the key
		{c10FReadMiss, c10Trace{bk(), []c10Op{
			{Op: "select", B: c10B1, Start: c10s("a"), End: c10s("b")},
			{Op: "get", B: c10B1, K: "a"}}}},
		// start > end: nil iterators of the two caches are dereferenced
		{c10FInverted, c10Trace{bk(liveA), []c10Op{
			{Op: "select", B: c10B1, Start: c10s("b"), End: c10s("a")}}}},
	}
}

// ---------------------------------------------------------------------------------------------
// backing (i): XModel-like reader

type c10BK struct{ B, K string }

type c10LiveEnt struct {
	raw string
	vd  *ledger.VersionedData
}

type c10Mimic struct {
	all  map[c10BK]*ledger.VersionedData // live and deleted keys
	live []c10LiveEnt                    // live keys only, sorted by raw key
}

func c10NewMimic(b c10Backing) *c10Mimic {
	m := &c10Mimic{all: map[c10BK]*ledger.VersionedData{}}
	for _, e := range b.Ents {
		val := []byte(e.V)
		if e.Del {
			val = []byte(sandbox.DelFlag)
		}
		vd := &ledger.VersionedData{RefTxid: []byte(e.Tx), RefOffset: e.Off,
			PureData: &ledger.PureData{Bucket: e.B, Key: []byte(e.K), Value: val}}
		m.all[c10BK{e.B, e.K}] = vd
		if !e.Del {
			m.live = append(m.live, c10LiveEnt{e.B + "/" + e.K, vd})
		}
	}
	sort.Slice(m.live, func(i, j int) bool { return m.live[i].raw < m.live[j].raw })
	return m
}

// overwrite replaces the value and version of a live key (a commit of another transaction); false = not live.
func (m *c10Mimic) overwrite(bucket, key, val, tx string) bool {
	old, ok := m.all[c10BK{bucket, key}]
	if !ok || string(old.PureData.Value) == sandbox.DelFlag {
		return false
	}
	vd := &ledger.VersionedData{RefTxid: []byte(tx), RefOffset: 0,
		PureData: &ledger.PureData{Bucket: bucket, Key: []byte(key), Value: []byte(val)}}
	m.all[c10BK{bucket, key}] = vd
	for i := range m.live {
		if m.live[i].raw == bucket+"/"+key {
			m.live[i].vd = vd
		}
	}
	return true
}

func (m *c10Mimic) Get(bucket string, key []byte) (*ledger.VersionedData, error) {
	if vd, ok := m.all[c10BK{bucket, string(key)}]; ok {
		return vd, nil
	}
	return &ledger.VersionedData{PureData: &ledger.PureData{Bucket: bucket, Key: key}}, nil
}

func (m *c10Mimic) Select(bucket string, startKey, endKey []byte) (ledger.XMIterator, error) {
	rawStart := bucket + "/" + string(startKey)
	rawEnd := bucket + "/" + string(endKey)
	i := sort.Search(len(m.live), func(i int) bool { return m.live[i].raw >= rawStart })
	return &c10MimicIter{m: m, next: i, end: rawEnd}, nil
}

type c10MimicIter struct {
	m    *c10Mimic
	next int
	end  string
	cur  *ledger.VersionedData
}

func (it *c10MimicIter) Next() bool {
	if it.next >= len(it.m.live) || it.m.live[it.next].raw >= it.end {
		it.next = len(it.m.live)
		it.cur = nil
		return false
	}
	it.cur = it.m.live[it.next].vd
	it.next++
	return true
}
func (it *c10MimicIter) Key() []byte {
	if it.cur == nil {
		return nil
	}
	return it.cur.PureData.Key
}
func (it *c10MimicIter) Value() *ledger.VersionedData { return it.cur }
func (it *c10MimicIter) Error() error                 { return nil }
func (it *c10MimicIter) Close()                       { it.cur = nil; it.next = len(it.m.live) }

// c10RealBacking: backing (ii), the ledger-backed XModel of a node, for the thorough tier.
// TODO(C10-ii): needs the node-level machinery (hx.NewNode(hx.DefaultOpts()); prepare the keys of
// the descriptor by invoking the harness kernel contract, including a delete; then
// n.State.CreateXMReader()). Returns nil until that exists; everything below only needs a
// ledger.XMReader, so plugging it in is `c10Reader = func(b c10Backing) ledger.XMReader {...}`.
// With it the nil-end domain restriction can be lifted (hypothesis: XModel.Select(nil end) scans
// the empty raw range [bucket/start, bucket/) while the replay's MemXModel scans to the bucket end).
func c10RealBacking() func(b c10Backing) (ledger.XMReader, func()) { return nil }

// c10Reader builds the backing reader of a descriptor.
var c10Reader = func(b c10Backing) (ledger.XMReader, func()) { return c10NewMimic(b), func() {} }

// c10Utxo: the initiator's spendable outputs, selected in order, never twice (SelectUtxo locks).
type c10Utxo struct {
	addr    string
	amounts []int64
	next    int
}

func (u *c10Utxo) SelectUtxo(from string, need *big.Int, lock, excludeUnconfirmed bool) ([]*protos.TxInput, [][]byte, *big.Int, error) {
	if need.Sign() == 0 {
		return nil, nil, big.NewInt(0), nil
	}
	sum := new(big.Int)
	var ins []*protos.TxInput
	i := u.next
	for from == u.addr && i < len(u.amounts) && sum.Cmp(need) < 0 {
		a := big.NewInt(u.amounts[i])
		ins = append(ins, &protos.TxInput{RefTxid: []byte(fmt.Sprintf("utx%d", i)), RefOffset: int32(i),
			FromAddr: []byte(from), Amount: a.Bytes()})
		sum.Add(sum, a)
		i++
	}
	if sum.Cmp(need) < 0 {
		return nil, nil, nil, fmt.Errorf("no enough money(UTXO) to start this transaction")
	}
	u.next = i
	return ins, nil, sum, nil
}

// ---------------------------------------------------------------------------------------------
// executing one operation the way real callers do

type c10Item struct {
	K string
	V []byte
}

type c10Res struct {
	Class  string // ok | notfound | hasdel | err | panic
	Val    []byte
	Items  []c10Item
	Detail string
}

func (r c10Res) String() string {
	s := r.Class
	if r.Detail != "" {
		s += "(" + r.Detail + ")"
	}
	if r.Val != nil {
		s += fmt.Sprintf(" val=%q", r.Val)
	}
	if r.Items != nil {
		s += " items=["
		for i, it := range r.Items {
			if i > 0 {
				s += " "
			}
			s += fmt.Sprintf("%s=%q", it.K, it.V)
		}
		s += "]"
	}
	return s
}

func c10Bound(p *string) []byte {
	if p == nil {
		return nil
	}
	return []byte(*p)
}

func c10Exec(sb contract.StateSandbox, op c10Op, initiator string) (res c10Res) {
	defer func() {
		if r := recover(); r != nil {
			res = c10Res{Class: "panic", Detail: fmt.Sprint(r)}
		}
	}()
	errRes := func(err error) c10Res {
		switch err {
		case nil:
			return c10Res{Class: "ok"}
		case sandbox.ErrNotFound:
			return c10Res{Class: "notfound"}
		case sandbox.ErrHasDel:
			return c10Res{Class: "hasdel"}
		}
		return c10Res{Class: "err", Detail: err.Error()}
	}
	switch op.Op {
	case "get": // bridge.SyscallService.GetObject
		v, err := sb.Get(op.B, []byte(op.K))
		res = errRes(err)
		if err == nil {
			res.Val = append([]byte{}, v...)
		}
	case "put": // PutObject (value never nil)
		res = errRes(sb.Put(op.B, []byte(op.K), []byte(op.V)))
	case "del": // DeleteObject
		res = errRes(sb.Del(op.B, []byte(op.K)))
	case "select": // NewIterator: `for iter.Next() && limit > 0`; kernel contracts: `for iter.Next()`
		it, err := sb.Select(op.B, c10Bound(op.Start), c10Bound(op.End))
		if err != nil {
			return errRes(err)
		}
		res = c10Res{Class: "ok", Items: []c10Item{}}
		if op.Stop <= 0 {
			for it.Next() {
				res.Items = append(res.Items, c10Item{string(it.Key()), append([]byte{}, it.Value()...)})
			}
		} else {
			limit := op.Stop
			for it.Next() && limit > 0 {
				res.Items = append(res.Items, c10Item{string(it.Key()), append([]byte{}, it.Value()...)})
				limit--
			}
		}
		if e := it.Error(); e != nil {
			res = c10Res{Class: "err", Detail: "iterator: " + e.Error()}
		}
		it.Close()
	case "transfer": // bridge.SyscallService.Transfer
		res = errRes(sb.Transfer(initiator, op.To, big.NewInt(op.Amt)))
	default:
		res = c10Res{Class: "err", Detail: "unknown op " + op.Op}
	}
	return res
}

var c10DevNull *os.File

// c10Flush = StateSandbox.Flush; flushUTXORWSet prints debug lines to stdout, keep them out of the log.
func c10Flush(sb contract.StateSandbox) (err error) {
	defer func() {
		if r := recover(); r != nil {
			err = fmt.Errorf("panic in Flush: %v", r)
		}
	}()
	if c10DevNull == nil {
		c10DevNull, _ = os.OpenFile(os.DevNull, os.O_WRONLY, 0)
	}
	if c10DevNull != nil {
		saved := os.Stdout
		os.Stdout = c10DevNull
		defer func() { os.Stdout = saved }()
	}
	return sb.Flush()
}

// ---------------------------------------------------------------------------------------------
// the model (from the statement)

type c10Cell struct {
	st  int // 0 never written, 1 live, 2 deleted
	val string
	tx  string
	off int32
}

type c10Ovl struct {
	del bool
	val string
}

type c10PastSel struct {
	b      string
	start  []byte
	end    []byte // effective end: nil = unbounded
	hasOvl map[string]bool
}

type c10Model struct {
	back     map[c10BK]c10Cell
	ovl      map[c10BK]c10Ovl
	read     map[c10BK]bool // keys read explicitly (Get, forced read of a non-transient Put/Del)
	mustRead map[c10BK]bool // keys the read set has to hold
	past     []c10PastSel
}

func c10NewModel(b c10Backing) *c10Model {
	m := &c10Model{back: map[c10BK]c10Cell{}, ovl: map[c10BK]c10Ovl{}, read: map[c10BK]bool{},
		mustRead: map[c10BK]bool{}}
	for _, e := range b.Ents {
		c := c10Cell{st: 1, val: e.V, tx: e.Tx, off: e.Off}
		if e.Del {
			c = c10Cell{st: 2, tx: e.Tx, off: e.Off}
		}
		m.back[c10BK{e.B, e.K}] = c
	}
	return m
}

// bucketKeys: every key of the bucket the model knows anything about, ascending.
func (m *c10Model) bucketKeys(b string) []string {
	set := map[string]bool{}
	for k := range m.back {
		if k.B == b {
			set[k.K] = true
		}
	}
	for k := range m.ovl {
		if k.B == b {
			set[k.K] = true
		}
	}
	for k := range m.read {
		if k.B == b {
			set[k.K] = true
		}
	}
	out := make([]string, 0, len(set))
	for k := range set {
		out = append(out, k)
	}
	sort.Strings(out)
	return out
}

// extTouched: the execution has written, read or been yielded a key of ANOTHER bucket whose name is b followed
// by a byte below (lo) / above (hi) the bucket separator - the keys that sit next to b's raw key range in the
// sandbox's caches and in the read set.
func (m *c10Model) extTouched(b string) (lo, hi bool) {
	note := func(other string) {
		if len(other) > len(b) && other[:len(b)] == b {
			if other[len(b)] < '/' {
				lo = true
			} else if other[len(b)] > '/' {
				hi = true
			}
		}
	}
	for k := range m.ovl {
		note(k.B)
	}
	for k := range m.mustRead {
		note(k.B)
	}
	return lo, hi
}

func c10InRange(k string, start, end []byte, endUnbounded bool) bool {
	if bytes.Compare([]byte(k), start) < 0 {
		return false
	}
	return endUnbounded || bytes.Compare([]byte(k), end) < 0
}

type c10SelPlan struct {
	inverted    bool
	nilEnd      bool
	outOfDomain bool      // nil end over a range where XModel and MemXModel differ
	items       []c10Item // expected result
	fromBack    []string  // yielded keys whose value comes from the backing state
	truncated   bool      // the caller stopped before the end
	ownDelHit   bool      // an own-deleted key lies where the scan would have to skip it
	ownDelIn    bool      // an own-deleted key lies in the range
	ownPutIn    bool      // an own-written key is yielded
	readMissHit bool      // a never-written, unwritten, explicitly read key lies where the scan passes
	backDelIn   bool
	effEnd      []byte // end of the region the result depends on (nil = unbounded)
	effUnbound  bool
}

// planSelect: expected result of a scan and the facts the classifiers need.
func (m *c10Model) planSelect(op c10Op) c10SelPlan {
	p := c10SelPlan{}
	start, end := c10Bound(op.Start), c10Bound(op.End)
	p.nilEnd = end == nil
	if start != nil && end != nil && bytes.Compare(start, end) > 0 {
		p.inverted = true
		p.items = []c10Item{}
		return p
	}
	if p.nilEnd {
		for k, c := range m.back {
			if k.B == op.B && c.st == 1 && bytes.Compare([]byte(k.K), start) >= 0 {
				p.outOfDomain = true
			}
		}
	}
	p.items = []c10Item{}
	p.effEnd, p.effUnbound = end, p.nilEnd
	for _, k := range m.bucketKeys(op.B) {
		if !c10InRange(k, start, end, p.nilEnd) {
			continue
		}
		bk := c10BK{op.B, k}
		o, hasO := m.ovl[bk]
		c := m.back[bk]
		if hasO && o.del {
			p.ownDelIn = true
		}
		if c.st == 2 {
			p.backDelIn = true
		}
		if op.Stop > 0 && len(p.items) >= op.Stop {
			// the caller has what it wanted; k is only looked at
			p.truncated = p.truncated || (hasO && !o.del) || (!hasO && c.st == 1)
			continue
		}
		switch {
		case hasO && o.del:
			p.ownDelHit = true
		case hasO:
			p.items = append(p.items, c10Item{k, []byte(o.val)})
			p.ownPutIn = true
		case c.st == 1:
			p.items = append(p.items, c10Item{k, []byte(c.val)})
			p.fromBack = append(p.fromBack, k)
		case c.st == 0 && m.read[bk]:
			p.readMissHit = true
		}
		if op.Stop > 0 && len(p.items) == op.Stop {
			p.effEnd, p.effUnbound = []byte(k), false
		}
	}
	return p
}

// readsMissOfPastScan: op reads a never-written key that an earlier scan of this execution passed
// over (the key then sits in the read set and the replay's scan meets it).
func (m *c10Model) readsMissOfPastScan(op c10Op) bool {
	if !(op.Op == "get" || ((op.Op == "put" || op.Op == "del") && op.B != c10BT)) {
		return false
	}
	bk := c10BK{op.B, op.K}
	if m.back[bk].st != 0 {
		return false
	}
	if _, own := m.ovl[bk]; own && op.Op == "get" {
		return false // answered from this execution's write, nothing is read
	}
	for _, ps := range m.past {
		if ps.b == op.B && !ps.hasOvl[op.K] && c10InRange(op.K, ps.start, ps.end, ps.end == nil) {
			return true
		}
	}
	return false
}

// triggers: ids of the root causes whose trigger shape op completes in the current state.
func (m *c10Model) triggers(op c10Op) []string {
	var ids []string
	if op.Op == "select" {
		p := m.planSelect(op)
		if p.inverted {
			return []string{c10FInverted}
		}
		if p.ownDelHit {
			ids = append(ids, c10FOwnDel)
		}
		if p.readMissHit {
			ids = append(ids, c10FReadMiss)
		}
		return ids
	}
	if m.readsMissOfPastScan(op) {
		ids = append(ids, c10FReadMiss)
	}
	return ids
}

// outOfDomain: operations outside the asserted domain (see the header).
func (m *c10Model) outOfDomain(op c10Op) bool {
	return op.Op == "select" && m.planSelect(op).outOfDomain
}

// expect: the result the statement demands; updates the model.
func (m *c10Model) expect(op c10Op) (want c10Res, plan c10SelPlan) {
	bk := c10BK{op.B, op.K}
	switch op.Op {
	case "get":
		if o, ok := m.ovl[bk]; ok {
			if o.del {
				return c10Res{Class: "hasdel"}, plan
			}
			return c10Res{Class: "ok", Val: []byte(o.val)}, plan
		}
		m.read[bk] = true
		m.mustRead[bk] = true
		switch c := m.back[bk]; c.st {
		case 1:
			return c10Res{Class: "ok", Val: []byte(c.val)}, plan
		case 2:
			return c10Res{Class: "hasdel"}, plan
		}
		return c10Res{Class: "notfound"}, plan
	case "put", "del":
		m.ovl[bk] = c10Ovl{del: op.Op == "del", val: op.V}
		if op.B != c10BT {
			m.read[bk] = true
			m.mustRead[bk] = true
		}
		return c10Res{Class: "ok"}, plan
	case "select":
		plan = m.planSelect(op)
		for _, k := range plan.fromBack {
			m.mustRead[c10BK{op.B, k}] = true
		}
		if !plan.inverted {
			ps := c10PastSel{b: op.B, start: c10Bound(op.Start), end: plan.effEnd, hasOvl: map[string]bool{}}
			if plan.effUnbound {
				ps.end = nil
			} else if ps.end == nil {
				ps.end = []byte{}
			}
			for k := range m.ovl {
				if k.B == op.B {
					ps.hasOvl[k.K] = true
				}
			}
			m.past = append(m.past, ps)
		}
		return c10Res{Class: "ok", Items: plan.items}, plan
	case "transfer":
		// the statement says nothing about the outcome of a transfer: only the replay is compared
		return c10Res{Class: "any"}, plan
	}
	return c10Res{Class: "err"}, plan
}

func c10SameItems(a, b []c10Item) bool {
	if len(a) != len(b) {
		return false
	}
	for i := range a {
		if a[i].K != b[i].K || !bytes.Equal(a[i].V, b[i].V) {
			return false
		}
	}
	return true
}

// c10Matches: res is what the model demands. The statement does not tell a deleted key from a
// never-written one in the answer of a read: ErrNotFound and ErrHasDel both mean "no value".
func c10Matches(want, res c10Res) bool {
	absent := func(c string) bool { return c == "notfound" || c == "hasdel" }
	if absent(want.Class) && absent(res.Class) {
		return true
	}
	return c10SameRes(want, res)
}

// c10SameRes: equal results as a contract can observe them (error texts are not compared).
func c10SameRes(a, b c10Res) bool {
	if a.Class != b.Class {
		return false
	}
	if a.Class != "ok" {
		return true
	}
	return bytes.Equal(a.Val, b.Val) && c10SameItems(a.Items, b.Items)
}

// ---------------------------------------------------------------------------------------------
// interpreter + oracle

type c10Stats struct {
	labels     map[string]bool
	nontrivial bool
	executed   int
}

func (s *c10Stats) l(x string) { s.labels[x] = true }

func runC10Trace(tr c10Trace, excl map[string]bool) error {
	_, err := c10Run(tr, excl)
	return err
}

var c10UtxoKeys = map[string]bool{"ContractUtxo.Inputs": true, "ContractUtxo.Outputs": true}

func c10Run(tr c10Trace, excl map[string]bool) (*c10Stats, error) {
	st := &c10Stats{labels: map[string]bool{}}
	reader, done := c10Reader(tr.Backing)
	defer done()
	m := c10NewModel(tr.Backing)
	var sb contract.StateSandbox = sandbox.NewXModelCache(&contract.SandboxConfig{XMReader: reader,
		UTXOReader: &c10Utxo{addr: tr.Backing.Initiator, amounts: tr.Backing.Utxos}})

	var ops []c10Op // the operations really executed
	var got []c10Res
	scans, stoppedScans := 0, 0
	for i, op := range tr.Ops {
		if m.outOfDomain(op) {
			st.l("skipped-out-of-domain")
			continue
		}
		skip := false
		for _, id := range m.triggers(op) {
			if excl[id] {
				skip = true
			}
		}
		if skip {
			st.l("skipped-excluded")
			continue
		}
		// classification (before the model moves on)
		bk := c10BK{op.B, op.K}
		if op.B == c10BT {
			st.l("transient")
		}
		if op.Op != "select" && op.Op != "transfer" {
			if m.back[bk].st == 2 {
				st.l("backing-deleted-key")
			}
			o, own := m.ovl[bk]
			switch {
			case op.Op == "get" && own && o.del:
				st.l("get-own-delete")
			case op.Op == "get" && own:
				st.l("get-own-write")
			case op.Op == "get" && m.back[bk].st == 0:
				st.l("get-never-written")
			case op.Op == "get" && m.back[bk].st == 2:
				st.l("get-backing-deleted")
			case op.Op == "put" && ((own && o.del) || (!own && m.back[bk].st == 2)):
				st.l("put-over-deleted")
			case op.Op == "del" && !own && m.back[bk].st == 0:
				st.l("del-never-written")
			}
		}
		if op.Op == "bg" {
			mim, isMimic := reader.(*c10Mimic)
			if !isMimic || op.B == c10BT || op.V == "" {
				continue
			}
			tx := fmt.Sprintf("bg%02d", i)
			if !mim.overwrite(op.B, op.K, op.V, tx) {
				continue
			}
			pinned := false
			for _, vd := range sb.RWSet().RSet {
				if vd.PureData.Bucket == op.B && string(vd.PureData.Key) == op.K {
					pinned = true
				}
			}
			if pinned {
				st.l("bg-overwrite-of-read-key")
				st.nontrivial = true
			} else {
				// not read yet: the execution will see the new version
				m.back[bk] = c10Cell{st: 1, val: op.V, tx: tx, off: 0}
				st.l("bg-overwrite-of-unread-key")
			}
			continue
		}
		want, plan := m.expect(op)
		res := c10Exec(sb, op, tr.Backing.Initiator)
		ops = append(ops, op)
		got = append(got, res)
		st.executed++
		if res.Class == "panic" {
			return st, fmt.Errorf("op %d %s: panic: %s", i, c10OpStr(op), res.Detail)
		}
		switch op.Op {
		case "select":
			scans++
			if plan.inverted {
				st.l("select-inverted")
				// the range is empty: an error or an empty scan are both fine
				if !(res.Class == "err" || (res.Class == "ok" && len(res.Items) == 0)) {
					return st, fmt.Errorf("op %d %s: empty (inverted) range, want error or no item, got %s", i, c10OpStr(op), res)
				}
				continue
			}
			if !c10Matches(want, res) {
				return st, fmt.Errorf("op %d %s: want %s, got %s", i, c10OpStr(op), want, res)
			}
			if plan.nilEnd {
				st.l("select-nil-end")
			}
			if op.Start == nil || *op.Start == "" {
				lo, hi := m.extTouched(op.B)
				kind := "empty"
				if op.Start == nil {
					kind = "nil"
				}
				if lo {
					st.l("select-" + kind + "-start-beside-touched-bucket-extended-below-separator")
					st.nontrivial = true
				}
				if hi {
					st.l("select-" + kind + "-start-beside-touched-bucket-extended-above-separator")
				}
			}
			if len(plan.items) == 0 {
				st.l("select-empty")
			}
			if plan.backDelIn {
				st.l("backing-deleted-key")
				st.l("select-over-backing-deleted")
			}
			if plan.ownPutIn {
				st.l("select-after-put-in-range")
				st.nontrivial = true
			}
			if plan.ownDelIn {
				st.l("select-after-del-in-range")
				st.nontrivial = true
			}
			if plan.ownDelHit {
				st.l("select-skips-own-delete")
			}
			if plan.readMissHit {
				st.l("select-skips-read-miss")
			}
			if op.Stop > 0 {
				stoppedScans++
				if plan.truncated {
					st.l("early-stop")
				} else {
					st.l("stop-not-reached")
				}
			}
		case "transfer":
			if res.Class == "ok" {
				st.l("transfer-ok")
			} else {
				st.l("transfer-refused")
			}
		default:
			if !c10Matches(want, res) {
				return st, fmt.Errorf("op %d %s: want %s, got %s", i, c10OpStr(op), want, res)
			}
			if op.Op == "get" && want.Class != res.Class {
				st.l("get-absent-other-error-class")
			}
		}
	}

	// ---- read / write set
	if err := c10Flush(sb); err != nil {
		return st, fmt.Errorf("Flush: %v", err)
	}
	rw := sb.RWSet()
	rset := map[c10BK]*ledger.VersionedData{}
	for _, r := range rw.RSet {
		if r == nil || r.PureData == nil {
			return st, fmt.Errorf("read set holds a nil entry")
		}
		bk := c10BK{r.PureData.Bucket, string(r.PureData.Key)}
		if _, dup := rset[bk]; dup {
			return st, fmt.Errorf("read set holds %v twice", bk)
		}
		rset[bk] = r
		// (a) every entry carries the version (and value) the backing state has for the key
		c := m.back[bk]
		wantTx, wantVal := []byte(nil), []byte(nil)
		switch c.st {
		case 1:
			wantTx, wantVal = []byte(c.tx), []byte(c.val)
		case 2:
			wantTx, wantVal = []byte(c.tx), []byte(sandbox.DelFlag)
		}
		if !bytes.Equal(r.RefTxid, wantTx) || (c.st == 0) != (r.RefTxid == nil) || r.RefOffset != c.off {
			return st, fmt.Errorf("read set entry %v has version (%q,%d), the state has (%q,%d)", bk, r.RefTxid, r.RefOffset, wantTx, c.off)
		}
		if !bytes.Equal(r.PureData.Value, wantVal) {
			return st, fmt.Errorf("read set entry %v has value %q, the state has %q", bk, r.PureData.Value, wantVal)
		}
		if !m.mustRead[bk] {
			st.l("rset-lookahead-entry")
		}
	}
	// (a)+(c) every key that influenced a result, and every non-transient written key, is there
	for _, bk := range c10SortedBK(m.mustRead) {
		if _, ok := rset[bk]; !ok {
			return st, fmt.Errorf("key %v was read (or written) but is not in the read set", bk)
		}
	}
	// (b) the write set holds exactly the final value of every written key (+ utxo transients)
	wset := map[c10BK][]byte{}
	for _, w := range rw.WSet {
		if w == nil {
			return st, fmt.Errorf("write set holds a nil entry")
		}
		bk := c10BK{w.Bucket, string(w.Key)}
		if _, dup := wset[bk]; dup {
			return st, fmt.Errorf("write set holds %v twice", bk)
		}
		wset[bk] = w.Value
		if w.Bucket == c10BT && c10UtxoKeys[string(w.Key)] {
			continue // transient outputs of Flush (utxo inputs / outputs of the transfers)
		}
		o, ok := m.ovl[bk]
		if !ok {
			return st, fmt.Errorf("write set holds %v, which was never written", bk)
		}
		wantVal := []byte(o.val)
		if o.del {
			wantVal = []byte(sandbox.DelFlag)
		}
		if !bytes.Equal(w.Value, wantVal) {
			return st, fmt.Errorf("write set holds %v = %q, final value written is %q", bk, w.Value, wantVal)
		}
	}
	ovlKeys := map[c10BK]bool{}
	for bk := range m.ovl {
		ovlKeys[bk] = true
	}
	for _, bk := range c10SortedBK(ovlKeys) {
		if _, ok := wset[bk]; !ok {
			return st, fmt.Errorf("written key %v is not in the write set", bk)
		}
		if bk.B != c10BT { // (c)
			if _, ok := rset[bk]; !ok {
				return st, fmt.Errorf("written key %v is not in the read set", bk)
			}
		}
	}

	// ---- replay over the read set alone (state.verifyTxRWSets)
	utxoIn, err := xmodel.ParseContractUtxoInputs(&lpb.Transaction{TxOutputsExt: xmodel.GetTxOutputs(rw.WSet)})
	if err != nil {
		return st, fmt.Errorf("replay: utxo inputs of the write set do not parse: %v", err)
	}
	var sb2 contract.StateSandbox = sandbox.NewXModelCache(&contract.SandboxConfig{
		XMReader: sandbox.XMReaderFromRWSet(rw), UTXOReader: sandbox.NewUTXOReaderFromInput(utxoIn)})
	for i, op := range ops {
		res := c10Exec(sb2, op, tr.Backing.Initiator)
		if res.Class == "panic" {
			return st, fmt.Errorf("replay: op %d %s: panic: %s", i, c10OpStr(op), res.Detail)
		}
		if !c10SameRes(got[i], res) {
			return st, fmt.Errorf("replay over the read set: op %d %s returned %s, the execution had returned %s", i, c10OpStr(op), res, got[i])
		}
	}
	if err := c10Flush(sb2); err != nil {
		return st, fmt.Errorf("replay: Flush: %v", err)
	}
	rw2 := sb2.RWSet()
	if !xmodel.Equal(rw.WSet, rw2.WSet) {
		return st, fmt.Errorf("replay over the read set: write set %s differs from the execution's %s", c10WSetStr(rw2.WSet), c10WSetStr(rw.WSet))
	}
	if scans > 0 {
		st.l("replay-with-scan")
	}
	if stoppedScans > 0 {
		st.l("replay-with-stopped-scan")
		st.nontrivial = true
	}
	if len(rw.RSet) > 0 {
		st.l("replay-nonempty-rset")
	}
	return st, nil
}

func c10SortedBK(set map[c10BK]bool) []c10BK {
	out := make([]c10BK, 0, len(set))
	for k := range set {
		out = append(out, k)
	}
	sort.Slice(out, func(i, j int) bool {
		if out[i].B != out[j].B {
			return out[i].B < out[j].B
		}
		return out[i].K < out[j].K
	})
	return out
}

func c10WSetStr(ws []*ledger.PureData) string {
	s := "["
	for i, w := range ws {
		if i > 0 {
			s += " "
		}
		s += fmt.Sprintf("%s/%s=%q", w.Bucket, w.Key, w.Value)
	}
	return s + "]"
}

func c10OpStr(op c10Op) string {
	b := func(p *string) string {
		if p == nil {
			return "nil"
		}
		return fmt.Sprintf("%q", *p)
	}
	switch op.Op {
	case "get", "del":
		return fmt.Sprintf("%s(%s,%q)", op.Op, op.B, op.K)
	case "put":
		return fmt.Sprintf("put(%s,%q,%q)", op.B, op.K, op.V)
	case "select":
		return fmt.Sprintf("select(%s,%s,%s,stop=%d)", op.B, b(op.Start), b(op.End), op.Stop)
	case "transfer":
		return fmt.Sprintf("transfer(%q,%d)", op.To, op.Amt)
	}
	return op.Op
}

// ---------------------------------------------------------------------------------------------
// generators

// c10GenFamily: the stored buckets of a bucket-family case: the base bucket and 1-3 buckets whose names extend
// the base (or an earlier member: nested extension) with a byte below / above the separator and a short tail,
// e.g. [kv kv.2 kv.2-m kvx]. fam[0] is the base.
func c10GenFamily(rt *rapid.T) []string {
	fam := []string{c10FamBase}
	for i := 0; i < 3; i++ {
		parent := c10FamBase
		if i > 0 && rapid.IntRange(0, 3).Draw(rt, "nested") == 0 {
			parent = fam[rapid.IntRange(1, len(fam)-1).Draw(rt, "parent")]
		}
		exts := c10ExtBelow
		if rapid.IntRange(0, 9).Draw(rt, "above") >= 6 {
			exts = c10ExtAbove
		}
		name := parent + exts[rapid.IntRange(0, len(exts)-1).Draw(rt, "ext")] +
			c10ExtTails[rapid.IntRange(0, len(c10ExtTails)-1).Draw(rt, "tail")]
		dup := false
		for _, f := range fam {
			dup = dup || f == name
		}
		if !dup {
			fam = append(fam, name)
		}
	}
	return fam
}

// c10GenBacking: fam == nil: the two fixed buckets kv / kvx; else the buckets of the family.
func c10GenBacking(rt *rapid.T, fam []string) c10Backing {
	b := c10Backing{Kind: "xmodel-mimic", Ents: []c10Ent{}, Initiator: "alice", Utxos: []int64{}}
	vals := []string{"v0", "v1", "v2", "v3", ""}
	buckets := []string{c10B1, c10B2}
	if fam != nil {
		buckets = fam
	}
	for _, bucket := range buckets {
		for _, k := range c10Keys {
			s := rapid.IntRange(0, 9).Draw(rt, "state")
			switch {
			case s < 3: // never written
			case s < 7:
				v := vals[rapid.IntRange(0, 16).Draw(rt, "bv")/4]
				b.Ents = append(b.Ents, c10Ent{B: bucket, K: k, V: v,
					Tx: fmt.Sprintf("t%d", rapid.IntRange(1, 3).Draw(rt, "btx")), Off: int32(rapid.IntRange(0, 2).Draw(rt, "boff"))})
			default:
				b.Ents = append(b.Ents, c10Ent{B: bucket, K: k, Del: true,
					Tx: fmt.Sprintf("t%d", rapid.IntRange(1, 3).Draw(rt, "btx")), Off: int32(rapid.IntRange(0, 2).Draw(rt, "boff"))})
			}
		}
	}
	n := rapid.IntRange(0, 3).Draw(rt, "nutxo")
	for i := 0; i < n; i++ {
		b.Utxos = append(b.Utxos, int64(rapid.IntRange(1, 5).Draw(rt, "utxo")))
	}
	return b
}

func c10GenBound(rt *rapid.T, name string) *string {
	i := rapid.IntRange(-1, len(c10Bounds)-1).Draw(rt, name)
	if i < 0 {
		return nil
	}
	return c10s(c10Bounds[i])
}

// c10GenOp: fam == nil: buckets kv (60%) / kvx (20%) / transient (20%); else the base bucket of the family (40%),
// the extended ones (50%), transient (10%), and half of the scans start at the bucket start (nil / empty start).
func c10GenOp(rt *rapid.T, seq int, fam []string) c10Op {
	bucket := c10B1
	switch b := rapid.IntRange(0, 9).Draw(rt, "bucket"); {
	case fam != nil && b >= 9:
		bucket = c10BT
	case fam != nil && b >= 4:
		bucket = fam[1+(b-4)%(len(fam)-1)]
	case fam != nil:
		bucket = fam[0]
	case b >= 8:
		bucket = c10BT
	case b >= 6:
		bucket = c10B2
	}
	key := func() string { return c10Keys[rapid.IntRange(0, len(c10Keys)-1).Draw(rt, "key")] }
	kind := rapid.IntRange(0, 99).Draw(rt, "kind")
	switch {
	case kind < 22:
		return c10Op{Op: "get", B: bucket, K: key()}
	case kind < 46:
		v := fmt.Sprintf("w%d", seq)
		if rapid.IntRange(0, 19).Draw(rt, "emptyval") == 0 {
			v = ""
		}
		return c10Op{Op: "put", B: bucket, K: key(), V: v}
	case kind < 62:
		return c10Op{Op: "del", B: bucket, K: key()}
	case kind < 65 && bucket != c10BT:
		return c10Op{Op: "bg", B: bucket, K: key(), V: fmt.Sprintf("g%d", seq)}
	case kind < 94:
		op := c10Op{Op: "select", B: bucket}
		switch shape := rapid.IntRange(0, 19).Draw(rt, "shape"); {
		case shape < 13: // ordered pair (possibly equal, possibly nil/empty start)
			s, e := c10GenBound(rt, "start"), c10GenBound(rt, "end")
			if e == nil {
				e = c10s("d")
			}
			if s != nil && *s > *e {
				s, e = e, s
			}
			op.Start, op.End = s, e
		case shape < 15: // whole bucket the way prefix scans are written
			op.Start, op.End = c10s(""), c10s("~")
		case shape < 17: // nil end
			op.Start = c10GenBound(rt, "start")
		default: // anything, including start > end and empty end
			op.Start, op.End = c10GenBound(rt, "start"), c10GenBound(rt, "end")
		}
		if fam != nil {
			switch f := rapid.IntRange(0, 5).Draw(rt, "fromstart"); {
			case f < 2:
				op.Start = nil
			case f < 3:
				op.Start = c10s("")
			}
		}
		if rapid.IntRange(0, 1).Draw(rt, "stopped") == 1 {
			op.Stop = rapid.IntRange(1, 3).Draw(rt, "stop")
		}
		return op
	default:
		return c10Op{Op: "transfer", To: []string{"bob", "carol"}[rapid.IntRange(0, 1).Draw(rt, "to")],
			Amt: int64(rapid.IntRange(0, 7).Draw(rt, "amt"))}
	}
}

// ---------------------------------------------------------------------------------------------

// c10Prop: one generated case; family = the buckets are a bucket family (c10GenFamily) instead of kv / kvx.
func c10Prop(cs *hx.Case, family bool) {
	rt := cs.RT()
	var fam []string
	if family {
		fam = c10GenFamily(rt)
	}
	tr := c10Trace{Backing: c10GenBacking(rt, fam)}
	cs.Op(tr.Backing)
	m := c10NewModel(tr.Backing) // generator-side copy of the model, for the classifiers only
	n := rapid.IntRange(1, 25).Draw(rt, "nops")
	for i := 0; i < n; i++ {
		op := c10GenOp(rt, i, fam)
		if m.outOfDomain(op) {
			cs.Label("gen-dropped-nil-end-out-of-domain")
			continue
		}
		dropped := false
		for _, id := range m.triggers(op) {
			if c10Exclude[id] {
				cs.Exclude(id)
				dropped = true
			}
		}
		if dropped {
			continue
		}
		m.expect(op)
		tr.Ops = append(tr.Ops, op)
		cs.Op(op)
	}
	st, err := c10Run(tr, nil)
	if err != nil {
		cs.Failf("%v", err)
	}
	for _, l := range c10SortedLabels(st.labels) {
		cs.Label(l)
	}
	if st.nontrivial {
		cs.Nontrivial()
	}
}

func TestC10(t *testing.T) {
	c := hx.NewCollector("C10", "exploration",
		"rapid sequences (1-25 ops) of Get / Put / Del / concurrent commits overwriting a live backing key (keys already read stay at the version seen) / Select (nil, empty, prefix, exact, inverted and out-of-universe bounds; exhausted or stopped after 1-3 items with the NewIterator loop) / Transfer on a sandbox.XMCache over a generated XModel-like backing state (6 prefix-related keys x 2 buckets live / deleted-with-version / never-written, transient bucket never stored); a second generator (check sandbox-sequence-bucket-family) runs the same sequences over a bucket family: the base bucket kv and 1-3 further stored buckets whose names extend kv or one another (nested) with a byte sorting below the raw-key separator '/' (space # $ - .) or above it (0 2 _ x ~) plus a short tail (e.g. kv, kv.2, kv.2-m, kvx), half of the operations on the extended buckets, half of the scans starting at the bucket start (nil or empty start key): a scan must yield keys of its own bucket only, whatever sorts next to the bucket's raw key range in the caches and the read set; every result is compared with an overlay-map model, the flushed read/write set with rules (a) read keys present with the backing version, (b) write set = final values, (c) written non-transient keys are read, and the same calls are replayed on a fresh XMCache over XMReaderFromRWSet(rwset) + NewUTXOReaderFromInput (verifyTxRWSets) demanding identical results and write set. Non-trivial = a Select executed after a Put/Del inside its range, or a replay of a sequence containing a scan with early stop, or a scan from the bucket start executed after the execution wrote / read / was yielded a key of another bucket whose name extends the scanned one with a byte below the separator; distinct = hash of the op trace incl. backing descriptor",
		"the backing reader imitates xmodel.XModel (Get of a never-written key = empty VersionedData, deleted = marker with version, Select = live keys only, no error); the ledger-backed XModel itself is not driven (c10RealBacking TODO)",
		"a nil end key is only evaluated where XModel and MemXModel agree (no live backing key >= start)",
		"values never equal the delete marker; Transfer only from the initiator with amount >= 0",
		"one scan is consumed and closed before the next call (no writes while an iterator is open)")
	defer c.Flush(t)

	// witnesses of the known root causes on the tree under test (findings protocol)
	fs := hx.LoadFindings()
	noExclude := os.Getenv("C10_NO_EXCLUDE") == "1"
	for _, id := range []string{c10FOwnDel, c10FReadMiss, c10FInverted} {
		c10Exclude[id] = false
	}
	for _, w := range c10Witnesses() {
		err := runC10Trace(w.tr, nil)
		if witnessVerdict(t, c, fs, w.id, err, w.tr) {
			c10Exclude[w.id] = true
		}
	}
	if noExclude {
		for id := range c10Exclude {
			c10Exclude[id] = false
		}
	}
	resolveSharedFindings(fs, c)
	regressFixed(t, c, fs, "C10")

	prop := func(cs *hx.Case) { c10Prop(cs, false) }
	c.Check(t, "sandbox-sequence", hx.N(100000, 400000), prop)
	// several stored buckets whose names extend one another around the separator, scans from the bucket start
	c.Check(t, c10FamilyCheck, hx.N(25000, 100000), func(cs *hx.Case) { c10Prop(cs, true) })

	if hx.Tier() == "thorough" {
		if rb := c10RealBacking(); rb != nil {
			saved := c10Reader
			c10Reader = rb
			c.Check(t, "sandbox-sequence-real", hx.N(0, 2000), prop)
			c10Reader = saved
		} else {
			c.Label("real-backing-not-available")
		}
	}
}

func c10SortedLabels(m map[string]bool) []string {
	out := make([]string, 0, len(m))
	for k := range m {
		out = append(out, k)
	}
	sort.Strings(out)
	return out
}
