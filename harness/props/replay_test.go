package props

import (
	"encoding/json"
	"fmt"
	"os"
	"path/filepath"
	"testing"

	"verifharness/hx"
)

// replayDoc is the common shape of every replay file written by hx.Collector.Violate.
type replayDoc struct {
	Property string          `json:"property"`
	Test     string          `json:"test"`
	Message  string          `json:"message"`
	Trace    json.RawMessage `json:"trace"`
}

// replayers: property/test -> plain interpreter that re-executes a trace without rapid.
var replayers = map[string]func(trace json.RawMessage, fs *hx.FindingSet) error{}

func loadReplay(path string) (*replayDoc, error) {
	if !filepath.IsAbs(path) {
		path = filepath.Join(hx.VerifRoot(), path)
	}
	b, err := os.ReadFile(path)
	if err != nil {
		return nil, err
	}
	d := &replayDoc{}
	if err := json.Unmarshal(b, d); err != nil {
		return nil, err
	}
	return d, nil
}

// runReplayFile re-executes a replay file; returns the oracle failure (nil = property held).
func runReplayFile(path string, fs *hx.FindingSet) error {
	d, err := loadReplay(path)
	if err != nil {
		return fmt.Errorf("cannot load replay %s: %v", path, err)
	}
	f, ok := replayers[d.Property+"/"+d.Test]
	if !ok {
		return fmt.Errorf("no replayer registered for %s/%s", d.Property, d.Test)
	}
	return f(d.Trace, fs)
}

// witnessVerdict implements the findings protocol for checks that carry built-in (Go-coded)
// witnesses: err is the result of running the witness of finding id on the tree under test.
//   - witness passes                         -> nothing to do, no exclusion
//   - fails and id is listed status=known    -> KNOWN-FINDING line, exclude the trigger shape
//   - fails and id is fixed or not listed    -> VIOLATION (recurrence / unlisted defect); the
//     trigger shape is still excluded so that the search continues behind it
//
// It returns whether the trigger shape must be excluded from the generators.
func witnessVerdict(t *testing.T, c *hx.Collector, fs *hx.FindingSet, id string, err error, trace interface{}) bool {
	c.Count("witness:"+id, false, "witness")
	if err == nil {
		return false
	}
	if f, ok := fs.Listed(id); ok && f.Status == "known" {
		c.Known(f.What)
		return true
	}
	c.Violate("witness-"+id, fmt.Sprintf("witness of finding %s violates on this tree (finding is not listed as known): %v", id, err), trace)
	t.Errorf("witness of finding %s violates: %v", id, err)
	return true
}

// witnessStillFails is the probe used for known findings: true iff the witness still violates.
func witnessStillFails(path string) bool {
	return runReplayFile(path, nil) != nil
}

// regressFixed re-executes, as plain regression cases, the witnesses of every finding of prop that
// is recorded as fixed: a recurrence is a violation. Known (unrepaired) findings are not run here.
func regressFixed(t *testing.T, c *hx.Collector, fs *hx.FindingSet, prop string) {
	for _, f := range fs.All() {
		if f.Property != prop || f.Status != "fixed" || f.Witness == "" {
			continue
		}
		err := runReplayFile(f.Witness, fs)
		c.Count("regress:"+f.ID, false, "regression-witness")
		if err != nil {
			d, _ := loadReplay(f.Witness)
			var tr interface{}
			if d != nil {
				json.Unmarshal(d.Trace, &tr)
			}
			c.Violate("regress-"+f.ID, fmt.Sprintf("fixed finding %s (%s) has returned: %v", f.ID, f.Commit, err), tr)
			t.Errorf("fixed finding %s has returned: %v", f.ID, err)
		}
	}
}

// TestReplay re-executes the file named by VERIF_REPLAY (./check Cxx --replay file).
func TestReplay(t *testing.T) {
	p := os.Getenv("VERIF_REPLAY")
	if p == "" {
		t.Skip("VERIF_REPLAY not set")
	}
	if err := runReplayFile(p, nil); err != nil {
		t.Fatalf("replay violates: %v", err)
	}
	t.Logf("replay passes on this tree")
}

func init() {
	replayers["C04/ledger-machine"] = func(raw json.RawMessage, fs *hx.FindingSet) error {
		var ops []hx.LOp
		if err := json.Unmarshal(raw, &ops); err != nil {
			return err
		}
		return hx.RunLedgerTrace(ops, fs)
	}
	replayers["C04/ledger-machine-long"] = replayers["C04/ledger-machine"]
}
