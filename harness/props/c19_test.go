package props

// C19: governance tokens are conserved; locks bind and only lock/unlock changes them.
//
// The real kernel contracts $govern_token / $proposal / $timer_task are driven through the real
// contract manager of an hx.Node; the state every call reads and (when it succeeds) commits to is one
// in-memory MemXModel per sequence. After every step all stored balance records are read back and
// compared with what the statement allows for that step.
//
// What the oracle deliberately does NOT assert (the statement is silent about it):
//   - that an unlock happens at all: CheckVoteResult / Trigger scan ["lock_<id>_", "lock_<id>_`") and so
//     never release lockers whose address starts with a lower-case letter (a0 here); a released proposal
//     may unlock any subset of what its lockers locked for it (label tick-release-skipped-a-locker);
//   - how much Propose locks (any increase is accepted and remembered), that malformed / negative
//     amounts are refused (only canonical decimal amounts are judged by the transfer rule), per-account
//     debit / credit amounts (only the sum), or that a lock cannot exceed the balance.
//
// Account universe: a0..a3 (genesis-funded ring addresses) and "fresh"; one sequence in five adds
// accounts whose name contains the key separator '_' and has another account's name as its prefix up
// to a separator (genC19Universe). The oracle is the same for them: it reads back EVERY stored
// record, so an unlock that lands on the account named by a truncated key shows up as a change of
// locked amounts the step executed no lock / unlock for (or as a negative locked amount).
//
// Scope left out: the real tdpos kernel methods (they keep their nominate / vote tables in ledger
// snapshots of confirmed blocks and check the tip height, so they cannot run over the in-memory
// state); the tdpos lock type is reached through a forwarder registered under "$tdpos" instead.

import (
	"bytes"
	"encoding/json"
	"errors"
	"fmt"
	"math/big"
	"os"
	"regexp"
	"sort"
	"strconv"
	"strings"
	"sync"
	"testing"

	"pgregory.net/rapid"

	"github.com/xuperchain/xupercore/kernel/contract"
	putils "github.com/xuperchain/xupercore/kernel/contract/proposal/utils"
	"github.com/xuperchain/xupercore/kernel/contract/sandbox"
	"github.com/xuperchain/xupercore/kernel/ledger"
	"github.com/xuperchain/xupercore/protos"

	"verifharness/hx"
)

const (
	c19Sub = "govern-sequence"

	c19SelfMint   = "C19-self-transfer-mints"
	c19ResetLocks = "C19-incoming-transfer-resets-locks"

	c19GovContract   = "$govern_token"
	c19PropContract  = "$proposal"
	c19TimerContract = "$timer_task"
	c19TdposContract = "$tdpos"
	c19GovBucket     = "governToken"
	c19BalPrefix     = "balanceOf_"
	c19Ordinary      = "ordinary"
	c19Tdpos         = "tdpos"

	c19Quota   = 5000 // genesis predistribution per funded account
	c19Funded  = 4    // a0..a3 are in the genesis predistribution
	c19MaxStep = 30
)

// c19Exclude: ids of HEAD findings whose trigger shape the generator must not emit (set by the
// witnesses at the top of TestC19 when the witness still violates on the tree under test).
var c19Exclude = map[string]bool{}

// c19Names are the accounts of a sequence's base universe: four funded at Init and one never seen
// before. Further names resolve through c19Addr: "ca" (a contract account) and "<name>_<rest>".
var c19Names = []string{"a0", "a1", "a2", "a3", "fresh"}

func c19Addr(name string) string {
	switch name {
	case "a0":
		return hx.Ring[0].Address
	case "a1":
		return hx.Ring[1].Address
	case "a2":
		return hx.Ring[2].Address
	case "a3":
		return hx.Ring[3].Address
	case "fresh":
		return hx.Ring[6].Address
	case "ca":
		return c19ContractAcct
	}
	// a name with the key separator: "<known name>_<rest>" is the account "<address of the known name>_<rest>"
	// (a1_team -> <address of a1>_team, ca_chain -> XC1111111111111111@my_chain)
	if i := strings.IndexByte(name, '_'); i > 0 {
		if a := c19Addr(name[:i]); a != name[:i] {
			return a + name[i:]
		}
	}
	return name
}

// c19ContractAcct is a contract account name; with a chain name that contains the key separator
// (ca_chain = XC1111111111111111@my_chain) it is a well-formed account name with '_' in it.
const c19ContractAcct = "XC1111111111111111@my"

// c19HasSep: the account name contains the separator the contracts build their keys with
// (balanceOf_<account>, lock_<proposal>_<account>).
func c19HasSep(addr string) bool { return strings.Contains(addr, "_") }

// c19SepPrefixes lists the proper prefixes of an account name that end just before a separator:
// the accounts a key built from this name could be confused with.
func c19SepPrefixes(addr string) []string {
	var out []string
	for i := 0; i < len(addr); i++ {
		if addr[i] == '_' && i > 0 {
			out = append(out, addr[:i])
		}
	}
	return out
}

// c19Op is one step of a sequence (plain data, so replay files stay readable).
//
//	init      by                       $govern_token.Init
//	transfer  by,to,amount             $govern_token.Transfer
//	propose   by,stop,trig,pct,target  $proposal.Propose (locks the proposer's tokens)
//	vote      by,prop,amount           $proposal.Vote (locks the voter's tokens)
//	thaw      by,prop                  $proposal.Thaw (unlocks the proposer's tokens)
//	tick                               $timer_task.Do(height+1) exactly as State.GetTimerTx invokes it
//	                                   (runs the due CheckVoteResult / Trigger, which unlock)
//	lock / unlock by,from,amount,lock_type   direct external call of $govern_token.Lock / UnLock
//	nominate / revoke by,amount        tdpos-type lock / unlock through the $tdpos forwarder
type c19Op struct {
	Op       string `json:"op"`
	By       string `json:"by,omitempty"`
	To       string `json:"to,omitempty"`
	From     string `json:"from,omitempty"`
	Amount   string `json:"amount,omitempty"`
	Prop     string `json:"prop,omitempty"`
	Stop     int64  `json:"stop,omitempty"`
	Trig     int64  `json:"trig,omitempty"`
	Pct      string `json:"pct,omitempty"`
	Target   string `json:"target,omitempty"`
	LockType string `json:"lock_type,omitempty"`
	Note     string `json:"note,omitempty"`
}

// ---------------------------------------------------------------------------------------------
// node (shared by all sequences of the process: the contracts keep no state outside the sandbox)

var (
	c19NodeMu sync.Mutex
	c19Node   *hx.Node
)

func c19GetNode() (*hx.Node, error) {
	c19NodeMu.Lock()
	defer c19NodeMu.Unlock()
	if c19Node != nil {
		return c19Node, nil
	}
	opts := hx.DefaultOpts()
	opts.Quota = c19Quota
	opts.PredistN = c19Funded
	n, err := hx.NewNode(opts)
	if err != nil {
		return nil, err
	}
	// $tdpos forwarder: bcs/consensus/tdpos/kernel_contract.go keeps its nominate / vote tables in
	// ledger snapshots of confirmed blocks, so the real methods cannot run on the in-memory backing.
	// The forwarder issues exactly the $govern_token calls runNominateCandidate / runVote (Lock) and
	// runRevokeCandidate / runRevokeVote (UnLock) issue: from = initiator, a positive int64 amount,
	// lock_type tdpos, arriving with Caller == "$tdpos".
	fw := func(method string) contract.KernMethod {
		return func(ctx contract.KContext) (*contract.Response, error) {
			amount, err := strconv.ParseInt(string(ctx.Args()["amount"]), 10, 64)
			if amount <= 0 || err != nil {
				return nil, errors.New("amount in contract can not be empty")
			}
			_, err = ctx.Call("xkernel", c19GovContract, method, map[string][]byte{
				"from":      []byte(ctx.Initiator()),
				"amount":    []byte(fmt.Sprintf("%d", amount)),
				"lock_type": []byte(c19Tdpos),
			})
			if err != nil {
				return nil, err
			}
			return &contract.Response{Status: 200, Message: "success"}, nil
		}
	}
	reg := n.Contract.GetKernRegistry()
	reg.RegisterKernMethod(c19TdposContract, "verifLock", fw("Lock"))
	reg.RegisterKernMethod(c19TdposContract, "verifUnLock", fw("UnLock"))
	c19Node = n
	return n, nil
}

func c19DropNode() {
	c19NodeMu.Lock()
	defer c19NodeMu.Unlock()
	if c19Node != nil {
		c19Node.Destroy()
		c19Node = nil
	}
}

type c19NoUtxo struct{}

func (c19NoUtxo) SelectUtxo(string, *big.Int, bool, bool) ([]*protos.TxInput, [][]byte, *big.Int, error) {
	return nil, nil, nil, errors.New("C19: no utxo behind this sandbox")
}

// ---------------------------------------------------------------------------------------------
// machine

type c19Bal struct {
	Total  *big.Int            `json:"total_balance"`
	Locked map[string]*big.Int `json:"locked_balances"`
}

func (b *c19Bal) locked(t string) *big.Int {
	if b == nil || b.Locked == nil || b.Locked[t] == nil {
		return new(big.Int)
	}
	return b.Locked[t]
}

func (b *c19Bal) total() *big.Int {
	if b == nil || b.Total == nil {
		return new(big.Int)
	}
	return b.Total
}

// avail = total - max(locked): what the statement lets the account transfer.
func (b *c19Bal) avail() *big.Int {
	a := new(big.Int).Set(b.total())
	mx := new(big.Int)
	if b != nil {
		for _, t := range c19SortedKeys(b.Locked) {
			if b.Locked[t] != nil && b.Locked[t].Cmp(mx) > 0 {
				mx = b.Locked[t]
			}
		}
	}
	return a.Sub(a, mx)
}

func (b *c19Bal) hasLock() bool {
	if b == nil {
		return false
	}
	for _, v := range b.Locked {
		if v != nil && v.Sign() != 0 {
			return true
		}
	}
	return false
}

func c19SortedKeys(m map[string]*big.Int) []string {
	ks := make([]string, 0, len(m))
	for k := range m {
		ks = append(ks, k)
	}
	sort.Strings(ks)
	return ks
}

// c19Prop is the model's record of one proposal: who has how much locked on its behalf.
type c19Prop struct {
	ID       string
	Proposer string // address
	Stop     int64
	Trig     int64
	Pct      string
	Status   string              // as last reported by $proposal.Query
	Votes    *big.Int            // sum of successful vote amounts (generator bias only)
	Lockers  []string            // addresses in first-lock order
	Locks    map[string]*big.Int // address -> amount still locked for this proposal
	Done     bool                // its locks were released (or can never be released any more)
}

// c19Viol is an oracle failure; kind names the clause of the statement that failed:
// "negative", "supply", "locks", "external-lock", "transfer-binds".
type c19Viol struct{ kind, msg string }

func (v *c19Viol) Error() string { return v.msg }

func c19Violf(kind, format string, args ...interface{}) error {
	return &c19Viol{kind, fmt.Sprintf(format, args...)}
}

type c19Machine struct {
	node    *hx.Node
	backing *sandbox.MemXModel
	step    int
	height  int64
	inited  bool
	supply  *big.Int
	accts   []string           // addresses with a stored record, in key order
	bal     map[string]*c19Bal // address -> last observed record
	raw     map[string][]byte  // address -> stored bytes of that record
	props   []*c19Prop
	tdpos   map[string]*big.Int // address -> amount locked through the $tdpos forwarder

	// account universe of the sequence (generator only; the oracle reads back every stored record)
	names    []string // pick list for initiators / receivers (an account listed twice is picked twice as often)
	funded   []string // the genesis-funded accounts of the universe
	unfunded []string // the others: they get their first tokens by a transfer
	wide     bool     // the universe has accounts with the key separator in their name
	related  []string // wide only: those accounts and the accounts their names are in prefix relation with

	// facts for labels / the non-trivial rule
	labels       map[string]bool
	lockedEver   map[string]bool // address had a successful lock of a positive amount
	lockThenXfer bool
}

func newC19Machine() (*c19Machine, error) {
	n, err := c19GetNode()
	if err != nil {
		return nil, err
	}
	return &c19Machine{node: n, backing: sandbox.NewMemXModel(), bal: map[string]*c19Bal{},
		names: c19Names, funded: c19Names[:c19Funded], unfunded: c19Names[c19Funded:],
		tdpos: map[string]*big.Int{}, labels: map[string]bool{}, lockedEver: map[string]bool{}}, nil
}

func (m *c19Machine) label(l string) { m.labels[l] = true }

// call runs one kernel-contract invocation on a fresh sandbox over the backing state. It commits the
// write set iff the call succeeded (err == nil and status < 400) and commit is set.
func (m *c19Machine) call(contractName, method, initiator string, auth []string, args map[string][]byte, commit bool) (*contract.Response, bool, string, error) {
	sb, err := m.node.Contract.NewStateSandbox(&contract.SandboxConfig{XMReader: m.backing, UTXOReader: c19NoUtxo{}})
	if err != nil {
		return nil, false, "", fmt.Errorf("harness: sandbox: %v", err)
	}
	ctx, err := m.node.Contract.NewContext(&contract.ContextConfig{State: sb, Initiator: initiator, AuthRequire: auth,
		Module: "xkernel", ContractName: contractName, ResourceLimits: contract.MaxLimits})
	if err != nil {
		return nil, false, "", fmt.Errorf("harness: context: %v", err)
	}
	resp, ierr := ctx.Invoke(method, args)
	ctx.Release()
	if ierr != nil {
		return nil, false, ierr.Error(), nil
	}
	if resp.Status >= 400 {
		return resp, false, fmt.Sprintf("status %d: %s", resp.Status, resp.Message), nil
	}
	if commit {
		if err := sb.Flush(); err != nil {
			return nil, false, "", fmt.Errorf("harness: flush: %v", err)
		}
		for i, w := range sb.RWSet().WSet {
			if w.Bucket == sandbox.TransientBucket {
				continue
			}
			m.backing.Put(w.Bucket, w.Key, &ledger.VersionedData{RefTxid: []byte(fmt.Sprintf("tx%d", m.step)),
				RefOffset: int32(i), PureData: &ledger.PureData{Bucket: w.Bucket, Key: w.Key, Value: w.Value}})
		}
	}
	return resp, true, "", nil
}

// observe reads back every stored balance record (through the contract's own Query method on the
// same backing; a record whose stored bytes did not change is not queried again) and the contract's
// TotalSupply.
func (m *c19Machine) observe() (accts []string, bal map[string]*c19Bal, supply *big.Int, err error) {
	it, err := m.backing.Select(c19GovBucket, []byte(c19BalPrefix), []byte("balanceOf`"))
	if err != nil {
		return nil, nil, nil, fmt.Errorf("harness: scan: %v", err)
	}
	raws := map[string][]byte{}
	for it.Next() {
		a := string(it.Key()[len(c19BalPrefix):])
		accts = append(accts, a)
		raws[a] = it.Value().GetPureData().GetValue()
	}
	it.Close()
	bal = map[string]*c19Bal{}
	for _, a := range accts {
		if old, seen := m.raw[a]; seen && bytes.Equal(old, raws[a]) && m.bal[a] != nil {
			bal[a] = m.bal[a]
			continue
		}
		resp, ok, why, err := m.call(c19GovContract, "Query", a, nil, map[string][]byte{"account": []byte(a)}, false)
		if err != nil {
			return nil, nil, nil, err
		}
		if !ok {
			return nil, nil, nil, fmt.Errorf("harness: Query(%s) failed: %s", a, why)
		}
		b := &c19Bal{}
		if err := json.Unmarshal(resp.Body, b); err != nil {
			return nil, nil, nil, fmt.Errorf("harness: Query(%s) body %q: %v", a, resp.Body, err)
		}
		bal[a] = b
	}
	m.raw = raws
	resp, ok, _, err := m.call(c19GovContract, "TotalSupply", c19Addr("a0"), nil, nil, false)
	if err != nil {
		return nil, nil, nil, err
	}
	if ok {
		s, good := new(big.Int).SetString(string(resp.Body), 10)
		if !good {
			return nil, nil, nil, fmt.Errorf("harness: TotalSupply body %q", resp.Body)
		}
		supply = s
	}
	return accts, bal, supply, nil
}

func (m *c19Machine) propStatus(id string) (string, error) {
	resp, ok, why, err := m.call(c19PropContract, "Query", c19Addr("a0"), nil, map[string][]byte{"proposal_id": []byte(id)}, false)
	if err != nil {
		return "", err
	}
	if !ok {
		return "", fmt.Errorf("harness: $proposal.Query(%s) failed: %s", id, why)
	}
	var p struct {
		Status string `json:"status"`
	}
	if err := json.Unmarshal(resp.Body, &p); err != nil {
		return "", fmt.Errorf("harness: $proposal.Query(%s) body: %v", id, err)
	}
	return p.Status, nil
}

func (m *c19Machine) findProp(id string) *c19Prop {
	for _, p := range m.props {
		if p.ID == id {
			return p
		}
	}
	return nil
}

var c19Canonical = regexp.MustCompile(`^(0|[1-9][0-9]*)$`)

// c19Amount parses a canonical non-negative decimal; anything else is "not a documented amount".
func c19Amount(s string) (*big.Int, bool) {
	if !c19Canonical.MatchString(s) {
		return nil, false
	}
	v, ok := new(big.Int).SetString(s, 10)
	return v, ok
}

func c19ProposalJSON(op c19Op) []byte {
	trig := map[string]interface{}{"height": op.Trig, "module": "xkernel", "args": map[string]interface{}{}}
	switch op.Target {
	case "lock": // a passed proposal whose trigger points at $govern_token.Lock (Caller == $proposal)
		trig["contract"], trig["method"] = c19GovContract, "Lock"
	case "init":
		trig["contract"], trig["method"] = c19GovContract, "Init"
	case "verif": // fails inside ("bad program"): proposal ends as completed_failure
		trig["contract"], trig["method"] = hx.VerifContract, "Run"
	default: // "supply": harmless read, proposal ends as completed_success
		trig["contract"], trig["method"] = c19GovContract, "TotalSupply"
	}
	b, _ := json.Marshal(map[string]interface{}{
		"args":    map[string]interface{}{"min_vote_percent": op.Pct, "stop_vote_height": strconv.FormatInt(op.Stop, 10)},
		"trigger": trig,
	})
	return b
}

// c19Shapes classifies an operation (against the current observed state) into the trigger shapes of
// the HEAD findings.
func (m *c19Machine) c19Shapes(op c19Op) []string {
	if op.Op != "transfer" {
		return nil
	}
	var ids []string
	if c19Addr(op.By) == c19Addr(op.To) {
		ids = append(ids, c19SelfMint)
	}
	if m.bal[c19Addr(op.To)].hasLock() {
		ids = append(ids, c19ResetLocks)
	}
	return ids
}

func (m *c19Machine) excludedBy(op c19Op, excl map[string]bool) string {
	for _, id := range m.c19Shapes(op) {
		if excl[id] {
			return id
		}
	}
	return ""
}

// precondition: operations every real caller keeps away from the contracts.
func (m *c19Machine) precondition(op c19Op) error {
	switch op.Op {
	case "revoke":
		// tdpos only unlocks ballots it recorded for that account (runRevokeCandidate / runRevokeVote)
		x, ok := c19Amount(op.Amount)
		out := m.tdpos[c19Addr(op.By)]
		if !ok || x.Sign() <= 0 || out == nil || out.Cmp(x) < 0 {
			return fmt.Errorf("revoke %s exceeds what $tdpos locked for %s", op.Amount, op.By)
		}
	case "propose":
		if _, err := strconv.Atoi(op.Pct); err != nil {
			return fmt.Errorf("propose: pct %q", op.Pct)
		}
	case "init", "transfer", "vote", "thaw", "tick", "lock", "unlock", "nominate":
	default:
		return fmt.Errorf("unknown op %q", op.Op)
	}
	return nil
}

// apply executes one operation and checks the statement on the state change it caused.
func (m *c19Machine) apply(op c19Op) error {
	if err := m.precondition(op); err != nil {
		return fmt.Errorf("harness: precondition: %v", err)
	}
	m.step++
	by := c19Addr(op.By)
	pre := m.bal
	preAccts := m.accts

	// statuses of the proposals a tick can touch
	var due []*c19Prop
	preStatus := map[string]string{}
	if op.Op == "tick" {
		for _, p := range m.props {
			if p.Done {
				continue
			}
			if p.Stop == m.height+1 || p.Trig == m.height+1 {
				st, err := m.propStatus(p.ID)
				if err != nil {
					return err
				}
				preStatus[p.ID] = st
				due = append(due, p)
			}
		}
	}

	var (
		resp *contract.Response
		ok   bool
		why  string
		err  error
	)
	auth := []string{by}
	switch op.Op {
	case "init":
		resp, ok, why, err = m.call(c19GovContract, "Init", by, auth, map[string][]byte{}, true)
	case "transfer":
		resp, ok, why, err = m.call(c19GovContract, "Transfer", by, auth,
			map[string][]byte{"to": []byte(c19Addr(op.To)), "amount": []byte(op.Amount)}, true)
	case "propose":
		resp, ok, why, err = m.call(c19PropContract, "Propose", by, auth, map[string][]byte{"proposal": c19ProposalJSON(op)}, true)
	case "vote":
		resp, ok, why, err = m.call(c19PropContract, "Vote", by, auth,
			map[string][]byte{"proposal_id": []byte(op.Prop), "amount": []byte(op.Amount)}, true)
	case "thaw":
		resp, ok, why, err = m.call(c19PropContract, "Thaw", by, auth, map[string][]byte{"proposal_id": []byte(op.Prop)}, true)
	case "tick":
		// State.GetTimerTx: Initiator "", AuthRequire nil, $timer_task.Do(block_height)
		resp, ok, why, err = m.call(c19TimerContract, "Do", "", nil,
			map[string][]byte{"block_height": []byte(strconv.FormatInt(m.height+1, 10))}, true)
		m.height++
	case "lock", "unlock":
		method := "Lock"
		if op.Op == "unlock" {
			method = "UnLock"
		}
		resp, ok, why, err = m.call(c19GovContract, method, by, auth, map[string][]byte{
			"from": []byte(c19Addr(op.From)), "amount": []byte(op.Amount), "lock_type": []byte(op.LockType)}, true)
	case "nominate":
		resp, ok, why, err = m.call(c19TdposContract, "verifLock", by, auth, map[string][]byte{"amount": []byte(op.Amount)}, true)
	case "revoke":
		resp, ok, why, err = m.call(c19TdposContract, "verifUnLock", by, auth, map[string][]byte{"amount": []byte(op.Amount)}, true)
	}
	if err != nil {
		return err
	}
	_ = why

	accts, post, supply, err := m.observe()
	if err != nil {
		return err
	}
	m.accts, m.bal = accts, post

	desc := fmt.Sprintf("step %d %s", m.step, c19Describe(op, ok))

	// ---- (4) nothing negative
	for _, a := range accts {
		if post[a].total().Sign() < 0 {
			return c19Violf("negative", "%s: balance of %s is negative: %s", desc, c19Name(a), post[a].total())
		}
		for _, t := range c19SortedKeys(post[a].Locked) {
			if post[a].locked(t).Sign() < 0 {
				return c19Violf("negative", "%s: locked[%s] of %s is negative: %s", desc, t, c19Name(a), post[a].locked(t))
			}
		}
	}

	// ---- (1) conservation
	if op.Op == "init" && ok && !m.inited {
		if supply == nil {
			return c19Violf("supply", "%s: Init succeeded but TotalSupply cannot be queried", desc)
		}
		m.inited = true
		m.supply = supply
		m.label("init-ok")
	}
	if m.inited {
		if supply == nil || supply.Cmp(m.supply) != 0 {
			return c19Violf("supply", "%s: TotalSupply changed from %s (fixed at Init) to %v", desc, m.supply, supply)
		}
		sum := new(big.Int)
		for _, a := range accts {
			sum.Add(sum, post[a].total())
		}
		if sum.Cmp(m.supply) != 0 {
			return c19Violf("supply", "%s: sum of all balances is %s, total supply fixed at Init is %s (%s)", desc, sum, m.supply, c19Dump(accts, post))
		}
	}

	// ---- direct external Lock / UnLock must be refused
	if (op.Op == "lock" || op.Op == "unlock") && ok {
		return c19Violf("external-lock", "%s: external call of $govern_token.%s was accepted", desc, op.Op)
	}

	// ---- (2) locked amounts change only through the lock / unlock this step executed
	// allowed[addr][type] = set of permitted deltas (nil = must not change)
	type key struct{ a, t string }
	allowed := map[key][]*big.Int{}
	anyNonNeg := map[key]bool{}
	upTo := map[key]*big.Int{} // unlock of anything in [0, upTo]
	switch {
	case !ok:
	case op.Op == "propose":
		anyNonNeg[key{by, c19Ordinary}] = true
	case op.Op == "vote":
		if x, good := c19Amount(op.Amount); good {
			allowed[key{by, c19Ordinary}] = []*big.Int{x}
		} else {
			anyNonNeg[key{by, c19Ordinary}] = true
		}
	case op.Op == "thaw":
		if p := m.findProp(op.Prop); p != nil && !p.Done && p.Locks[by] != nil {
			allowed[key{by, c19Ordinary}] = []*big.Int{new(big.Int), new(big.Int).Neg(p.Locks[by])}
		}
	case op.Op == "nominate":
		if x, good := c19Amount(op.Amount); good {
			allowed[key{by, c19Tdpos}] = []*big.Int{x}
		}
	case op.Op == "revoke":
		if x, good := c19Amount(op.Amount); good {
			allowed[key{by, c19Tdpos}] = []*big.Int{new(big.Int).Neg(x)}
		}
	}
	var released []*c19Prop
	if op.Op == "tick" && ok {
		for _, p := range due {
			st, err := m.propStatus(p.ID)
			if err != nil {
				return err
			}
			was := preStatus[p.ID]
			p.Status = st
			// CheckVoteResult on a voting proposal that ends rejected, and Trigger on a passed one,
			// unlock what was locked for the proposal.
			if (was == putils.ProposalStatusVoting && st == putils.ProposalStatusRejected) || (was == putils.ProposalStatusPassed && (st == putils.ProposalStatusCompletedAndSuccess || st == putils.ProposalStatusCompletedAndFailure)) {
				released = append(released, p)
			}
			if was == putils.ProposalStatusVoting && st == putils.ProposalStatusPassed {
				m.label("proposal-passed")
			}
		}
		// per account: any subset of its locks on the released proposals may have been unlocked
		cands := map[string][]*big.Int{}
		for _, p := range released {
			for _, a := range p.Lockers {
				if p.Locks[a] != nil {
					cands[a] = append(cands[a], p.Locks[a])
				}
			}
		}
		for _, a := range accts {
			if len(cands[a]) == 0 {
				continue
			}
			if len(cands[a]) > 10 {
				// too many to enumerate: accept anything between "all released" and "none released"
				tot := new(big.Int)
				for _, c := range cands[a] {
					tot.Add(tot, c)
				}
				upTo[key{a, c19Ordinary}] = tot
				continue
			}
			sums := []*big.Int{new(big.Int)}
			for _, c := range cands[a] {
				n := len(sums)
				for i := 0; i < n; i++ {
					sums = append(sums, new(big.Int).Sub(sums[i], c))
				}
			}
			allowed[key{a, c19Ordinary}] = sums
		}
	}
	lockDelta := map[key]*big.Int{}
	all := c19Union(preAccts, accts)
	for _, a := range all {
		for _, t := range c19Union(c19SortedKeys(pre[a].lockedMap()), c19SortedKeys(post[a].lockedMap())) {
			d := new(big.Int).Sub(post[a].locked(t), pre[a].locked(t))
			k := key{a, t}
			lockDelta[k] = d
			switch {
			case anyNonNeg[k]:
				if d.Sign() < 0 {
					return c19Violf("locks", "%s: lock operation lowered locked[%s] of %s by %s", desc, t, c19Name(a), new(big.Int).Neg(d))
				}
			case upTo[k] != nil:
				if d.Sign() > 0 || new(big.Int).Neg(d).Cmp(upTo[k]) > 0 {
					return c19Violf("locks", "%s: locked[%s] of %s changed %s -> %s; the unlocks executed by this step release at most %s",
						desc, t, c19Name(a), pre[a].locked(t), post[a].locked(t), upTo[k])
				}
			case allowed[k] != nil:
				if op.Op == "tick" && d.Sign() == 0 && allowed[k][len(allowed[k])-1].Sign() != 0 {
					// a released proposal left this locker locked: not an unlock the statement demands
					m.label("tick-release-skipped-a-locker")
				}
				good := false
				for _, x := range allowed[k] {
					if x.Cmp(d) == 0 {
						good = true
					}
				}
				if !good {
					return c19Violf("locks", "%s: locked[%s] of %s changed %s -> %s; the lock/unlock executed by this step allows a change of %v only",
						desc, t, c19Name(a), pre[a].locked(t), post[a].locked(t), allowed[k])
				}
			default:
				if d.Sign() != 0 {
					return c19Violf("locks", "%s: locked[%s] of %s changed %s -> %s although this step executed no lock/unlock for that account",
						desc, t, c19Name(a), pre[a].locked(t), post[a].locked(t))
				}
			}
		}
	}

	// ---- (3) a transfer succeeds only if it leaves the sender at or above each of its locked amounts
	if op.Op == "transfer" {
		x, canonical := c19Amount(op.Amount)
		to := c19Addr(op.To)
		if ok {
			for _, t := range c19SortedKeys(pre[by].lockedMap()) {
				if post[by].total().Cmp(pre[by].locked(t)) < 0 {
					return c19Violf("transfer-binds", "%s: transfer accepted although it leaves %s with balance %s below its locked[%s] = %s",
						desc, op.By, post[by].total(), t, pre[by].locked(t))
				}
				if canonical && by != to {
					if new(big.Int).Sub(pre[by].total(), pre[by].locked(t)).Cmp(x) < 0 {
						return c19Violf("transfer-binds", "%s: transfer of %s accepted although sender %s has balance %s and locked[%s] = %s",
							desc, x, op.By, pre[by].total(), t, pre[by].locked(t))
					}
				}
			}
			if canonical && by != to && pre[by].total().Cmp(x) < 0 {
				return c19Violf("transfer-binds", "%s: transfer of %s accepted although sender %s has balance %s", desc, x, op.By, pre[by].total())
			}
		}
		// classification
		switch {
		case ok && by == to:
			m.label("transfer-to-self-ok")
		case ok && op.To == "fresh":
			m.label("transfer-to-fresh-ok")
		case ok && op.By == "fresh":
			m.label("transfer-from-fresh-ok")
		case ok:
			m.label("transfer-ok")
		}
		if ok && canonical && x.Sign() == 0 {
			m.label("transfer-zero-ok")
		}
		if ok && c19HasSep(to) && by != to {
			m.label("transfer-to-separator-name-ok")
		}
		if ok && c19HasSep(by) && by != to && canonical && x.Sign() > 0 {
			m.label("transfer-from-separator-name-ok")
		}
		if !ok {
			switch {
			case !canonical:
				m.label("transfer-malformed-amount-rejected")
			case pre[by] == nil:
				m.label("transfer-unknown-sender-rejected")
			case pre[by].total().Cmp(x) < 0:
				m.label("transfer-over-balance-rejected")
			case pre[by].avail().Cmp(x) < 0:
				m.label("transfer-rejected-because-locked")
			default:
				m.label("transfer-rejected-other")
			}
		}
		if ok && canonical && pre[by].hasLock() && pre[by].avail().Cmp(x) == 0 {
			m.label("transfer-exactly-available-ok")
		}
		if (m.lockedEver[by] && pre[by].hasLock()) || (m.lockedEver[to] && pre[to].hasLock()) {
			m.lockThenXfer = true
			if ok {
				m.label("lock-then-transfer-ok")
			} else {
				m.label("lock-then-transfer-rejected")
			}
		}
	}

	// ---- model bookkeeping (who has how much locked on behalf of what)
	if ok {
		switch op.Op {
		case "propose":
			id := string(resp.Body)
			d := lockDelta[key{by, c19Ordinary}]
			if d == nil {
				d = new(big.Int)
			}
			p := &c19Prop{ID: id, Proposer: by, Stop: op.Stop, Trig: op.Trig, Pct: op.Pct, Status: putils.ProposalStatusVoting,
				Votes: new(big.Int), Lockers: []string{by}, Locks: map[string]*big.Int{by: new(big.Int).Set(d)}}
			if m.findProp(id) == nil {
				m.props = append(m.props, p)
			}
			if d.Sign() > 0 {
				m.lockedEver[by] = true
				if c19HasSep(by) {
					m.label("lock-by-separator-name-ok")
				}
			}
			m.label("propose-ok")
		case "vote":
			d := lockDelta[key{by, c19Ordinary}]
			if d == nil {
				d = new(big.Int)
			}
			if p := m.findProp(op.Prop); p != nil {
				if p.Locks[by] == nil {
					p.Locks[by] = new(big.Int)
					p.Lockers = append(p.Lockers, by)
				}
				p.Locks[by].Add(p.Locks[by], d)
				p.Votes.Add(p.Votes, d)
			}
			if d.Sign() > 0 {
				m.lockedEver[by] = true
				m.label("vote-ok")
				if c19HasSep(by) {
					m.label("lock-by-separator-name-ok")
				}
			} else {
				m.label("vote-zero-ok")
			}
		case "thaw":
			if p := m.findProp(op.Prop); p != nil {
				p.Status = putils.ProposalStatusCancelled
				delete(p.Locks, by)
				// the other lockers of a cancelled proposal can never be released any more
				p.Done = true
			}
			m.label("thaw-ok")
		case "tick":
			for _, p := range released {
				// the input class in which a key lock_<id>_<account> could be taken for another account's:
				// a locker whose name contains the separator, released while an account named by a prefix
				// of that name (up to a separator) holds an ordinary lock of its own
				for _, a := range p.Lockers {
					if p.Locks[a] == nil || p.Locks[a].Sign() <= 0 || !c19HasSep(a) {
						continue
					}
					m.label("release-with-separator-name-locker")
					for _, pa := range c19SepPrefixes(a) {
						if pre[pa].locked(c19Ordinary).Sign() > 0 {
							m.label("release-with-separator-name-locker-while-prefix-account-locked")
						}
					}
				}
				p.Done = true
				p.Locks = map[string]*big.Int{}
				if p.Status == putils.ProposalStatusRejected {
					m.label("tick-rejected-unlocks")
				} else {
					m.label("tick-trigger-unlocks")
				}
			}
		case "nominate":
			x, _ := c19Amount(op.Amount)
			if m.tdpos[by] == nil {
				m.tdpos[by] = new(big.Int)
			}
			m.tdpos[by].Add(m.tdpos[by], x)
			m.lockedEver[by] = true
			m.label("tdpos-lock-ok")
		case "revoke":
			x, _ := c19Amount(op.Amount)
			m.tdpos[by].Sub(m.tdpos[by], x)
			m.label("tdpos-unlock-ok")
		}
	} else {
		switch op.Op {
		case "init":
			if m.inited {
				m.label("init-repeat-rejected")
			}
		case "propose":
			m.label("propose-rejected")
		case "vote":
			m.label("vote-rejected")
		case "thaw":
			m.label("thaw-rejected")
		case "lock", "unlock":
			m.label("external-lock-rejected")
		case "nominate":
			m.label("tdpos-lock-rejected")
		}
	}
	return nil
}

func (b *c19Bal) lockedMap() map[string]*big.Int {
	if b == nil {
		return nil
	}
	return b.Locked
}

func c19Union(a, b []string) []string {
	out := append([]string{}, a...)
	for _, x := range b {
		dup := false
		for _, y := range out {
			if x == y {
				dup = true
				break
			}
		}
		if !dup {
			out = append(out, x)
		}
	}
	return out
}

func c19Name(addr string) string {
	for _, n := range c19Names {
		if c19Addr(n) == addr {
			return n
		}
	}
	if addr == c19ContractAcct {
		return "ca"
	}
	if i := strings.IndexByte(addr, '_'); i > 0 {
		if h := c19Name(addr[:i]); h != addr[:i] {
			return h + addr[i:]
		}
	}
	return addr
}

func c19Describe(op c19Op, ok bool) string {
	b, _ := json.Marshal(op)
	res := "refused"
	if ok {
		res = "accepted"
	}
	return fmt.Sprintf("%s (%s)", b, res)
}

func c19Dump(accts []string, bal map[string]*c19Bal) string {
	s := ""
	for _, a := range accts {
		s += fmt.Sprintf("%s=%s/ord %s/tdpos %s ", c19Name(a), bal[a].total(), bal[a].locked(c19Ordinary), bal[a].locked(c19Tdpos))
	}
	return s
}

// runC19Trace re-executes a trace through the interpreter and the oracle (no rapid). Operations that
// match an excluded trigger shape are skipped. A *c19Viol error is an oracle failure.
func runC19Trace(ops []c19Op, excl map[string]bool) error {
	m, err := newC19Machine()
	if err != nil {
		return err
	}
	for _, op := range ops {
		if m.excludedBy(op, excl) != "" {
			continue
		}
		if m.precondition(op) != nil {
			continue
		}
		if err := m.apply(op); err != nil {
			return err
		}
	}
	return nil
}

func init() {
	rp := func(raw json.RawMessage, fs *hx.FindingSet) error {
		var ops []c19Op
		if err := json.Unmarshal(raw, &ops); err != nil {
			return err
		}
		return runC19Trace(ops, nil)
	}
	replayers["C19/"+c19Sub] = rp
	replayers["C19/witness-"+c19SelfMint] = rp
	replayers["C19/witness-"+c19ResetLocks] = rp
}

// ---------------------------------------------------------------------------------------------
// generator

func c19Pick(rt *rapid.T, label string, xs []string) string {
	return xs[rapid.IntRange(0, len(xs)-1).Draw(rt, label)]
}

func c19AddStr(v *big.Int, d int64) string {
	return new(big.Int).Add(v, big.NewInt(d)).String()
}

const (
	c19Two64  = "18446744073709551616"
	c19Two128 = "340282366920938463463374607431768211456"
)

// c19NamesWhere lists (in the fixed order of the sequence's pick list) the accounts whose observed record satisfies pred.
func (m *c19Machine) c19NamesWhere(pred func(b *c19Bal) bool) []string {
	var out []string
	for _, n := range m.names {
		if pred(m.bal[c19Addr(n)]) {
			out = append(out, n)
		}
	}
	return out
}

// c19PickBy picks the initiator: mostly one for which the operation is interesting, sometimes anybody.
func c19PickBy(rt *rapid.T, m *c19Machine, pred func(b *c19Bal) bool, bias int) string {
	if m.wide {
		// widened universe: half of the time one of the accounts in prefix relation, so that both the
		// account with the separator in its name and the account named by its prefix lock, vote, transfer
		var pref []string
		for _, n := range m.related {
			if pred(m.bal[c19Addr(n)]) {
				pref = append(pref, n)
			}
		}
		if len(pref) > 0 && rapid.IntRange(0, 9).Draw(rt, "byrelated") < 5 {
			return c19Pick(rt, "byrelatedpref", pref)
		}
	}
	if pref := m.c19NamesWhere(pred); len(pref) > 0 && rapid.IntRange(0, 9).Draw(rt, "bybias") < bias {
		return c19Pick(rt, "bypref", pref)
	}
	return c19Pick(rt, "by", m.names)
}

// c19Need: votes still missing for the proposal to pass (generator bias only; the oracle never uses it).
func c19Need(supply *big.Int, p *c19Prop) *big.Int {
	pct, err := strconv.Atoi(p.Pct)
	if err != nil {
		return nil
	}
	need := new(big.Int).Mul(supply, big.NewInt(int64(pct)))
	return need.Div(need, big.NewInt(100)).Sub(need, p.Votes)
}

func c19AvailOrd(b *c19Bal) *big.Int {
	return new(big.Int).Sub(b.total(), b.locked(c19Ordinary))
}

// genC19Universe draws the account universe of a sequence. Four in five sequences keep the base
// universe (c19Names). One in five is widened with accounts whose NAME contains the separator '_' the
// contracts build their keys with (balanceOf_<account>, lock_<proposal>_<account>) and that stand in
// prefix relation with another account of the universe: <base>_<suffix> next to <base> (the contract
// account XC1111111111111111@my_chain next to XC1111111111111111@my; <address>_team next to
// <address>; an empty suffix), optionally a second one: nested (<base>_<suffix>_<suffix2>, whose
// prefixes <base> and <base>_<suffix> are both accounts), a sibling (<base>_<other suffix>) or the
// same suffix on another base. Account names are opaque strings to $govern_token / $proposal: the
// initiator and the receiver of a transfer are used as given. The related accounts are listed first
// and twice in the pick list, so that they meet each other within 30 steps.
func genC19Universe(rt *rapid.T, m *c19Machine) {
	if rapid.IntRange(0, 4).Draw(rt, "universe") != 4 {
		return
	}
	bases := []string{"a1", "ca", "a2", "fresh", "a3", "a0"}
	suffixes := []string{"team", "chain", "x", ""}
	base := c19Pick(rt, "sepbase", bases)
	sfx := c19Pick(rt, "sepsuffix", suffixes)
	related := []string{base, base + "_" + sfx}
	switch rapid.IntRange(0, 3).Draw(rt, "sepsecond") {
	case 1: // nested
		related = append(related, base+"_"+sfx+"_"+c19Pick(rt, "sepsuffix2", []string{"2", "team", ""}))
	case 2: // sibling
		if s2 := c19Pick(rt, "sepsuffix2", suffixes); s2 != sfx {
			related = append(related, base+"_"+s2)
		}
	case 3: // the same suffix on another base
		if b2 := c19Pick(rt, "sepbase2", bases); b2 != base {
			related = append(related, b2, b2+"_"+sfx)
		}
	}
	var names []string
	add := func(n string) {
		for _, x := range names {
			if x == n {
				return
			}
		}
		names = append(names, n)
	}
	for _, n := range related {
		add(n)
	}
	nrel := len(names)
	for _, n := range c19Names {
		add(n)
	}
	m.funded, m.unfunded = nil, nil
	for _, n := range names {
		isFunded := false
		for _, f := range c19Names[:c19Funded] {
			isFunded = isFunded || f == n
		}
		if isFunded {
			m.funded = append(m.funded, n)
		} else {
			m.unfunded = append(m.unfunded, n)
		}
	}
	m.names = append(names, names[:nrel]...)
	m.related = names[:nrel]
	m.wide = true
	m.label("universe-with-separator-names")
}

// genC19WideBias (widened universe only) steers a share of the steps so that the accounts with a
// separator in their name take part in the whole life of a lock within 30 steps: they start without
// tokens, so (a) fund one that has none from the richest genesis account; (b) while such an account
// has tokens locked for a proposal that can still be released, advance the height towards the
// proposal's CheckVoteResult / Trigger. Everything else (who proposes, votes, transfers, with what
// amounts) stays with the common generator.
func genC19WideBias(rt *rapid.T, m *c19Machine) (c19Op, bool) {
	switch rapid.IntRange(0, 9).Draw(rt, "widebias") {
	case 0, 1: // (a)
		var poor []string
		for _, n := range m.related {
			if c19HasSep(c19Addr(n)) && m.bal[c19Addr(n)].total().Sign() == 0 {
				poor = append(poor, n)
			}
		}
		if len(poor) == 0 {
			return c19Op{}, false
		}
		from, fromAv := "", new(big.Int)
		for _, n := range m.funded {
			if av := m.bal[c19Addr(n)].avail(); av.Cmp(fromAv) > 0 {
				from, fromAv = n, av
			}
		}
		if from == "" {
			return c19Op{}, false
		}
		amt := big.NewInt(int64(rapid.IntRange(1, 3000).Draw(rt, "fundamount")))
		if amt.Cmp(fromAv) > 0 {
			amt = fromAv
		}
		return c19Op{Op: "transfer", By: from, To: c19Pick(rt, "fundto", poor), Amount: amt.String(), Note: "fund"}, true
	case 2, 3, 4: // (b)
		for _, p := range m.props {
			if p.Done || (p.Stop <= m.height && p.Trig <= m.height) {
				continue
			}
			for _, a := range p.Lockers {
				if c19HasSep(a) && p.Locks[a] != nil && p.Locks[a].Sign() > 0 {
					return c19Op{Op: "tick", Note: "towards-release"}, true
				}
			}
		}
	}
	return c19Op{}, false
}

// genC19Op draws the next operation from the machine's observed state. (rapid favours small draws,
// so the frequent alternatives come first everywhere.)
func genC19Op(rt *rapid.T, m *c19Machine) c19Op {
	if !m.inited && rapid.IntRange(0, 9).Draw(rt, "preinit") < 8 {
		return c19Op{Op: "init", By: c19Pick(rt, "by", m.names)}
	}
	supply := m.supply
	if supply == nil {
		supply = big.NewInt(c19Quota * c19Funded)
	}
	hasRecord := func(b *c19Bal) bool { return b != nil }
	// a proposal somebody has started voting on: keep voting with whoever can add most, so that
	// proposals also pass (and are triggered) instead of always being rejected
	for _, p := range m.props {
		if p.Status != putils.ProposalStatusVoting || p.Done || p.Votes.Sign() == 0 || p.Stop <= m.height {
			continue
		}
		need := c19Need(supply, p)
		if need == nil || need.Sign() <= 0 {
			continue
		}
		if rapid.IntRange(0, 9).Draw(rt, "campaign") >= 4 {
			break
		}
		best, bestAv := "", new(big.Int)
		for _, n := range m.names {
			if av := c19AvailOrd(m.bal[c19Addr(n)]); av.Cmp(bestAv) > 0 {
				best, bestAv = n, av
			}
		}
		if best == "" {
			break
		}
		if bestAv.Cmp(need) > 0 {
			bestAv = need
		}
		return c19Op{Op: "vote", By: best, Prop: p.ID, Amount: bestAv.String(), Note: "campaign"}
	}
	if m.wide && m.inited {
		if op, ok := genC19WideBias(rt, m); ok {
			return op
		}
	}
	kind := rapid.IntRange(0, 99).Draw(rt, "kind")
	if kind >= 36 && kind < 50 && len(m.props) == 0 && rapid.IntRange(0, 5).Draw(rt, "needprop") > 0 {
		kind = 50 // nothing to vote on yet: propose instead
	}
	switch {
	case kind < 36: // transfer
		by := c19PickBy(rt, m, func(b *c19Bal) bool { return b.hasLock() }, 5)
		if !m.bal[c19Addr(by)].hasLock() {
			by = c19PickBy(rt, m, hasRecord, 8)
		}
		b := m.bal[c19Addr(by)]
		var to string
		toFunded := 5 // of 10: a genesis-funded account; up to 7: an account that starts without tokens
		if m.wide {
			toFunded = 4 // the accounts with a separator in their name start without tokens
		}
		switch r := rapid.IntRange(0, 9).Draw(rt, "to"); {
		case r < toFunded:
			to = c19Pick(rt, "other", m.funded)
		case r < 7:
			to = c19Pick(rt, "unfunded", m.unfunded)
		case r < 9:
			to = by
		default:
			to = c19Pick(rt, "any", m.names)
		}
		type cand struct{ amt, note string }
		cands := []cand{
			{b.avail().String(), "available"}, {c19AddStr(b.avail(), 1), "available+1"},
			{strconv.Itoa(rapid.IntRange(2, 1500).Draw(rt, "small")), "small"}, {"1", "one"}, {"0", "zero"},
			{b.avail().String(), "available"}, {c19AddStr(b.avail(), 1), "available+1"},
			{b.total().String(), "balance"}, {c19AddStr(b.total(), 1), "balance+1"},
			{supply.String(), "supply"}, {c19Two64, "2^64"}, {c19Two128, "2^128"},
			{"-1", "negative"}, {"-300", "negative"}, {"abc", "malformed"}, {"", "empty"}, {"1.5", "malformed"},
			{" " + b.avail().String(), "decorated"}, {"+" + c19AddStr(b.avail(), 1), "decorated"}, {"007", "decorated"}, {"5\n", "decorated"},
		}
		c := cands[rapid.IntRange(0, len(cands)-1).Draw(rt, "amount")]
		return c19Op{Op: "transfer", By: by, To: to, Amount: c.amt, Note: c.note}
	case kind < 50: // vote
		by := c19PickBy(rt, m, func(b *c19Bal) bool { return c19AvailOrd(b).Sign() > 0 }, 8)
		b := m.bal[c19Addr(by)]
		prop, p := c19PickProp(rt, m, func(p *c19Prop) bool { return p.Status == putils.ProposalStatusVoting && !p.Done })
		av := c19AvailOrd(b)
		var cands []string
		if p != nil {
			if need := c19Need(supply, p); need != nil && need.Sign() > 0 {
				mn := need
				if av.Cmp(mn) < 0 {
					mn = av
				}
				cands = append(cands, mn.String(), mn.String(), need.String(), c19AddStr(need, -1))
			}
		}
		cands = append(cands, av.String(), strconv.Itoa(rapid.IntRange(2, 1500).Draw(rt, "small")), "1", "0",
			c19AddStr(av, 1), c19Two64, "-1", "abc")
		// decorated decimals (round-7 change C19-k: one site of a call chain trims blanks, the next parses the raw
		// argument): whatever the contracts make of such an amount, what a vote locks is what its release unlocks
		if rapid.IntRange(0, 5).Draw(rt, "decorated") == 0 {
			base := cands[rapid.IntRange(0, len(cands)-3).Draw(rt, "decobase")]
			cands = []string{" " + base, "\t" + base, base + "\n", base + " ", "+" + base, "00" + base, "\n" + base}
		}
		return c19Op{Op: "vote", By: by, Prop: prop, Amount: c19Pick(rt, "amount", cands)}
	case kind < 64: // propose
		by := c19PickBy(rt, m, func(b *c19Bal) bool { return c19AvailOrd(b).Cmp(big.NewInt(1000)) >= 0 }, 8)
		stop := m.height + int64(rapid.IntRange(1, 4).Draw(rt, "stop"))
		if rapid.IntRange(0, 19).Draw(rt, "past") == 19 {
			stop = m.height // already passed: never checked
		}
		trig := stop + int64(rapid.IntRange(1, 2).Draw(rt, "trig"))
		pct := c19Pick(rt, "pct", []string{"51", "51", "51", "60", "100", "51", "60", "51", "50", "101"})
		target := c19Pick(rt, "target", []string{"supply", "supply", "lock", "init", "verif"})
		return c19Op{Op: "propose", By: by, Stop: stop, Trig: trig, Pct: pct, Target: target}
	case kind < 70: // thaw
		prop, p := c19PickProp(rt, m, func(p *c19Prop) bool {
			return p.Status == putils.ProposalStatusVoting && !p.Done && p.Votes.Sign() == 0
		})
		by := c19Pick(rt, "by", m.names)
		if p != nil && rapid.IntRange(0, 3).Draw(rt, "asproposer") < 3 {
			by = c19Name(p.Proposer)
		}
		return c19Op{Op: "thaw", By: by, Prop: prop}
	case kind < 76: // tdpos-type lock
		by := c19PickBy(rt, m, hasRecord, 8)
		b := m.bal[c19Addr(by)]
		free := new(big.Int).Sub(b.total(), b.locked(c19Tdpos))
		return c19Op{Op: "nominate", By: by, Amount: c19Pick(rt, "amount",
			[]string{strconv.Itoa(rapid.IntRange(2, 1500).Draw(rt, "small")), free.String(), "1", c19AddStr(free, 1)})}
	case kind < 79: // tdpos-type unlock of something $tdpos locked before
		var holders []string
		for _, n := range m.names {
			if out := m.tdpos[c19Addr(n)]; out != nil && out.Sign() > 0 {
				holders = append(holders, n)
			}
		}
		if len(holders) == 0 {
			return c19Op{Op: "tick"}
		}
		by := c19Pick(rt, "by", holders)
		out := m.tdpos[c19Addr(by)]
		amt := out.String()
		if out.Cmp(big.NewInt(1)) > 0 && rapid.IntRange(0, 1).Draw(rt, "part") == 1 {
			amt = strconv.FormatInt(rapid.Int64Range(1, out.Int64()).Draw(rt, "partial"), 10)
		}
		return c19Op{Op: "revoke", By: by, Amount: amt}
	case kind < 83: // external Lock / UnLock
		by := c19Pick(rt, "by", m.names)
		b := m.bal[c19Addr(by)]
		return c19Op{Op: c19Pick(rt, "direct", []string{"lock", "unlock"}), By: by, From: c19Pick(rt, "from", m.names),
			Amount:   c19Pick(rt, "amount", []string{"1000", "1", "0", b.total().String()}),
			LockType: c19Pick(rt, "lock_type", []string{c19Ordinary, c19Tdpos})}
	case kind < 85:
		return c19Op{Op: "init", By: c19Pick(rt, "by", m.names)}
	default:
		return c19Op{Op: "tick"}
	}
}

// c19PickProp picks a proposal id: mostly an existing one for which the operation is interesting,
// sometimes any existing one, sometimes one that does not exist.
func c19PickProp(rt *rapid.T, m *c19Machine, pred func(p *c19Prop) bool) (string, *c19Prop) {
	if len(m.props) == 0 {
		return "99", nil
	}
	r := rapid.IntRange(0, 11).Draw(rt, "propsel")
	if r == 11 {
		return "99", nil
	}
	var pref []*c19Prop
	for _, p := range m.props {
		if pred(p) {
			pref = append(pref, p)
		}
	}
	if len(pref) > 0 && r < 9 {
		p := pref[rapid.IntRange(0, len(pref)-1).Draw(rt, "prefprop")]
		return p.ID, p
	}
	p := m.props[rapid.IntRange(0, len(m.props)-1).Draw(rt, "prop")]
	return p.ID, p
}

// ---------------------------------------------------------------------------------------------
// witnesses of the HEAD findings

var c19Witness = map[string][]c19Op{
	c19SelfMint: {
		{Op: "init", By: "a0"},
		{Op: "transfer", By: "a0", To: "a0", Amount: "300"},
	},
	c19ResetLocks: {
		{Op: "init", By: "a0"},
		{Op: "propose", By: "a1", Stop: 5, Trig: 6, Pct: "51", Target: "supply"},
		{Op: "transfer", By: "a0", To: "a1", Amount: "1"},
	},
}

// c19ForcedOff: C19_NO_EXCLUDE=1 switches every exclusion off, C19_NO_EXCLUDE=<id>[,<id>] the named ones
// (used to show on a scratch tree that the search finds the defect by itself / that a repair holds).
func c19ForcedOff(id string) bool {
	v := os.Getenv("C19_NO_EXCLUDE")
	if v == "1" || v == "all" {
		return true
	}
	for _, x := range strings.Split(v, ",") {
		if x == id {
			return true
		}
	}
	return false
}

// c19WitnessKind: the clause each finding's witness fails on.
var c19WitnessKind = map[string]string{c19SelfMint: "supply", c19ResetLocks: "locks"}

func TestC19(t *testing.T) {
	c := hx.NewCollector("C19", "exploration",
		"rapid sequences (<= 30 steps) over four genesis-funded accounts and one fresh account (one sequence in five: widened with two to four accounts whose NAME contains the key separator '_' of balanceOf_<account> / lock_<proposal>_<account> and that stand in prefix relation with another account of the universe - the contract account XC1111111111111111@my_chain next to XC1111111111111111@my, <address>_<suffix> next to <address>, empty suffix, nested <base>_<s>_<s2>, siblings; they start without tokens, are funded by transfers and then propose / vote / are released like any other account; labels universe-with-separator-names, lock-by-separator-name-ok, release-with-separator-name-locker[-while-prefix-account-locked]) of $govern_token Init / Transfer (to another, to self, to the fresh account; amount 0, 1, small, exactly available, available+1, balance, balance+1, supply, > 64 bit, negative, malformed), $proposal Propose / Vote / Thaw, $timer_task Do at consecutive heights as State.GetTimerTx invokes it (runs CheckVoteResult / Trigger), direct external Lock / UnLock (must be refused) and tdpos-type Lock / UnLock through a $tdpos forwarder; executed by the real kernel contracts through the real contract manager over one in-memory state per sequence, a call commits its write set iff it succeeds. After every step all stored balance records are read back: sum of balances == TotalSupply == value fixed at Init; locked amounts change only for the account and by the amount of the lock/unlock the step executed (a transfer changes nobody's locks); an accepted transfer leaves the sender at or above each of its locked amounts; nothing negative. Non-trivial = a successful lock of a positive amount followed by a transfer from or to the still-locked account; distinct = hash of the operation trace",
		"a failed contract call leaves no trace (no transaction is formed from it)",
		"tdpos lock type: the $tdpos forwarder issues the same $govern_token Lock/UnLock calls as bcs/consensus/tdpos/kernel_contract.go and never unlocks more than it locked for the account (the real tdpos methods read their tables from ledger snapshots of confirmed blocks and cannot run over the in-memory state)",
		"$timer_task.Do is invoked once per height, in increasing order, like the miner / verifier do")
	defer c.Flush(t)
	defer c19DropNode()

	// witnesses of the HEAD findings: decide the exclusions for this tree. A witness counts as its
	// finding only if it fails on the clause the finding is about; any other failure is a violation.
	fs := hx.LoadFindings()
	regressFixed(t, c, fs, "C19")
	for _, id := range []string{c19SelfMint, c19ResetLocks} {
		err := runC19Trace(c19Witness[id], nil)
		c19Exclude[id] = false
		var v *c19Viol
		switch {
		case err == nil:
			c.Count("witness:"+id, false, "witness")
		case errors.As(err, &v) && v.kind == c19WitnessKind[id]:
			if witnessVerdict(t, c, fs, id, err, c19Witness[id]) {
				c19Exclude[id] = !c19ForcedOff(id)
			}
		case errors.As(err, &v):
			c.Violate("witness-"+id, v.msg, c19Witness[id])
			t.Errorf("witness sequence of %s violates another clause: %s", id, v.msg)
		default:
			t.Fatalf("witness %s could not run: %v", id, err)
		}
	}

	c.Check(t, c19Sub, hx.N(24000, 360000), func(cs *hx.Case) { // one sequence in five has the widened universe
		rt := cs.RT()
		m, err := newC19Machine()
		if err != nil {
			rt.Fatalf("setup: %v", err)
		}
		genC19Universe(rt, m)
		n := rapid.IntRange(1, c19MaxStep).Draw(rt, "steps")
		for i := 0; i < n; i++ {
			op := genC19Op(rt, m)
			if id := m.excludedBy(op, c19Exclude); id != "" {
				cs.Exclude(id)
				continue
			}
			if m.precondition(op) != nil {
				continue
			}
			cs.Op(op)
			if err := m.apply(op); err != nil {
				var v *c19Viol
				if errors.As(err, &v) {
					cs.Failf("%s", v.msg)
				}
				rt.Fatalf("harness error at %+v: %v", op, err)
			}
		}
		for _, l := range c19SortedLabels(m.labels) {
			cs.Label(l)
		}
		if m.lockThenXfer {
			cs.Nontrivial()
		}
	})
}

func c19SortedLabels(m map[string]bool) []string {
	ks := make([]string, 0, len(m))
	for k := range m {
		ks = append(ks, k)
	}
	sort.Strings(ks)
	return ks
}
