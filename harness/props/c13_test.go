package props

import (
	"encoding/json"
	"fmt"
	"sort"
	"testing"

	"pgregory.net/rapid"

	txn "github.com/xuperchain/xupercore/bcs/ledger/xledger/tx"

	"verifharness/hx"
)

func init() {
	replayers["C13/producer-replica"] = nodeReplayer(nil)
	replayers["C13/topsort"] = func(raw json.RawMessage, fs *hx.FindingSet) error {
		var items []map[string][]string
		if err := json.Unmarshal(raw, &items); err != nil || len(items) == 0 {
			return fmt.Errorf("bad trace: %v", err)
		}
		return checkTopSort(items[0])
	}
}

// checkTopSort: TopSortDFS returns a permutation that respects every edge, and reports a cycle
// exactly when there is one.
func checkTopSort(g map[string][]string) error {
	graph := txn.TxGraph{}
	nodes := map[string]bool{}
	for k, vs := range g {
		graph[k] = append([]string{}, vs...)
		nodes[k] = true
		for _, v := range vs {
			nodes[v] = true
		}
	}
	// independent cycle detection (Kahn)
	indeg := map[string]int{}
	for n := range nodes {
		indeg[n] = 0
	}
	for _, vs := range g {
		for _, v := range vs {
			indeg[v]++
		}
	}
	var queue []string
	for n, d := range indeg {
		if d == 0 {
			queue = append(queue, n)
		}
	}
	sort.Strings(queue)
	done := 0
	for len(queue) > 0 {
		n := queue[0]
		queue = queue[1:]
		done++
		for _, v := range g[n] {
			indeg[v]--
			if indeg[v] == 0 {
				queue = append(queue, v)
			}
		}
	}
	hasCycle := done != len(nodes)
	order, cyclic, _ := txn.TopSortDFS(graph)
	if cyclic != hasCycle {
		return fmt.Errorf("TopSortDFS reports cyclic=%v, graph has cycle=%v", cyclic, hasCycle)
	}
	if hasCycle {
		return nil
	}
	pos := map[string]int{}
	for i, n := range order {
		if _, dup := pos[n]; dup {
			return fmt.Errorf("TopSortDFS emits %s twice", n)
		}
		pos[n] = i
	}
	if len(pos) != len(nodes) {
		return fmt.Errorf("TopSortDFS emits %d of %d nodes", len(pos), len(nodes))
	}
	for k, vs := range g {
		for _, v := range vs {
			if pos[k] >= pos[v] {
				return fmt.Errorf("TopSortDFS puts %s (pos %d) after its dependant %s (pos %d)", k, pos[k], v, pos[v])
			}
		}
	}
	return nil
}

// genC13Op: pools rich in dependency chains, diamonds, read-only sharers followed by a writer and
// timer tasks; blocks are produced by the real Miner.packBlock.
func genC13Op(rt *rapid.T, nm *hx.NodeMachine, cfg genCfg) hx.NOp {
	m := nm.LM.M
	r := rapid.IntRange(0, 99).Draw(rt, "c13kind")
	label := fmt.Sprintf("b%d", len(m.Blocks))
	switch {
	case r < 62:
		s := nm.PoolState()
		spec, ok := genTxSpec(rt, nm, s, cfg, m.Blocks[m.Tip].Height, false)
		if !ok {
			return hx.NOp{Op: "sync"}
		}
		if nm.N.Opts.MaxBlockSize == 1 && rapid.IntRange(0, 2).Draw(rt, "bulky") == 0 {
			// a bulky transfer: two or three of them overflow the 0.8 MiB packing limit
			spec.Prog = nil
			spec.DescLen = rapid.IntRange(250000, 420000).Draw(rt, "desclen")
			return hx.NOp{Op: "tx", Tx: &spec}
		}
		switch rapid.IntRange(0, 9).Draw(rt, "shape") {
		case 0, 1, 2: // read-only sharer
			spec.Prog = []hx.Ins{{Op: "get", K: rapid.SampledFrom(cfg.Keys).Draw(rt, "rk")}}
		case 3, 4: // reader of one key, writer of another
			spec.Prog = []hx.Ins{{Op: "putfrom", K: rapid.SampledFrom(cfg.Keys).Draw(rt, "wk"), K2: rapid.SampledFrom(cfg.Keys).Draw(rt, "rk2"), V: "p"}}
		case 5: // timer task for one of the next heights
			h := m.Blocks[m.Tip].Height + int64(rapid.IntRange(1, 3).Draw(rt, "th"))
			spec.Prog = nil
			spec.Contract = "$timer_task"
			spec.Method = "Add"
			spec.Args = map[string]string{"block_height": fmt.Sprint(h),
				"trigger": fmt.Sprintf(`{"height":%d,"module":"xkernel","contract":"$verif","method":"Tick","args":{"n":"%d"}}`, h, nm.Seq%10)}
		}
		return hx.NOp{Op: "tx", Tx: &spec}
	case r < 82:
		if nm.Ptr != m.Tip {
			return hx.NOp{Op: "sync"}
		}
		if nm.FS.Active("C13-timer-tx-sees-pending-task") && (nm.PendingTimerFor(m.Blocks[m.Tip].Height+1) || nm.TimerConflictsWithPool(m.Blocks[m.Tip].Height+1)) {
			nm.Stat["excluded:C13-timer-tx-sees-pending-task"]++
			// a peer block confirms the pending transactions instead
			op := genPeerOn(rt, nm, cfg, m.Tip)
			op.Pool = nil
			for _, ptx := range nm.Pool {
				op.Pool = append(op.Pool, fmt.Sprintf("%x", ptx.Txid))
			}
			return op
		}
		return hx.NOp{Op: "minereal", Label: label}
	case r < 88:
		return genPeerOn(rt, nm, cfg, m.Tip)
	case r < 93:
		return hx.NOp{Op: "sync"}
	case r < 97:
		return hx.NOp{Op: "reopen"}
	default:
		return genNodeOp(rt, nm, cfg)
	}
}

func TestC13(t *testing.T) {
	c := hx.NewCollector("C13", "exploration",
		"node state machine whose own blocks are produced by the real Miner.packBlock from pools rich in dependency chains, diamonds, read-only sharers of a key followed by a writer, fee payers and timer tasks. For every produced block: VerifyBlock, IsValidTx (award = CalcAward), coinbase first / timer transaction second, body = permutation of the pool that is executable in exactly that order on the parent state (model), ConfirmBlock + PlayForMiner succeed, and a replica that never saw the transactions replays genesis..block to the producer's state. For ALL map-iteration orders: the pool's dependency graph must contain a path a->b for every pair the model orders (producer->consumer, reader->overwriter); TopSortDFS is checked separately on generated graphs (permutation respecting all edges, cycle reported iff present). Non-trivial = produced block whose pool had an anti-dependency (read-only reader + overwriter) or >= 3 ordered pairs; distinct = hash of the trace",
		"goleveldb on in-memory storage behaves like LevelDB", "the award of a produced block is never spent by generated transactions (GenerateAwardTx uses the wall clock, its txid is not reproducible)")
	defer c.Flush(t)
	fs := hx.LoadFindings()
	resolveSharedFindings(fs, c)
	regressFixed(t, c, fs, "C13")
	c.Check(t, "topsort", hx.N(3000, 40000), func(cs *hx.Case) {
		rt := cs.RT()
		n := rapid.IntRange(1, 8).Draw(rt, "nodes")
		g := map[string][]string{}
		names := []string{"a", "b", "c", "d", "e", "f", "g", "h"}[:n]
		acyclic := rapid.Bool().Draw(rt, "acyclic")
		ne := rapid.IntRange(0, 12).Draw(rt, "edges")
		for i := 0; i < ne; i++ {
			x := rapid.IntRange(0, n-1).Draw(rt, "x")
			y := rapid.IntRange(0, n-1).Draw(rt, "y")
			if x == y {
				continue
			}
			if acyclic && x > y {
				x, y = y, x
			}
			dup := false
			for _, e := range g[names[x]] {
				if e == names[y] {
					dup = true
				}
			}
			if !dup {
				g[names[x]] = append(g[names[x]], names[y])
			}
		}
		for _, nme := range names {
			if _, ok := g[nme]; !ok && rapid.Bool().Draw(rt, "isolated") {
				g[nme] = []string{}
			}
		}
		cs.Op(g)
		if err := checkTopSort(g); err != nil {
			cs.Failf("%v", err)
		}
		if ne >= 4 {
			cs.Nontrivial()
		}
	})
	cfg := defaultGenCfg()
	cfg.ContractPct = 80
	cfg.Keys = []string{"a", "b"}
	cfg.ForkPrefix = false
	cfg.MaxSteps = 30
	cfg.MinSteps = 8
	// half of the histories run with a slide window: the producer's own view of the irreversible height after blocks
	// it produced itself is part of "the producer's state" a replaying node has to reach (CheckState compares it)
	cfg.Windows = []int64{0, 0, 1, 2}
	cfg.Mix = func(rt *rapid.T, nm *hx.NodeMachine) hx.NOp { return genC13Op(rt, nm, cfg) }
	cfg.Opts = func(rt *rapid.T, o *hx.NodeOpts) {
		switch rapid.IntRange(0, 5).Draw(rt, "genesis") {
		case 0, 1: // decaying award where rounding matters early
			o.Award = int64(rapid.SampledFrom([]int{5, 7, 13, 1000}).Draw(rt, "award"))
			o.DecayGap = int64(rapid.IntRange(1, 2).Draw(rt, "decaygap"))
			o.DecayRatio = rapid.SampledFrom([]float64{0.5, 0.9, 0.75}).Draw(rt, "decayratio")
		case 2: // smallest block size: bulky transactions overflow the packing limit
			o.MaxBlockSize = 1
		}
	}
	c.Check(t, "producer-replica", hx.N(350, 2500), func(cs *hx.Case) {
		runNodeCase(cs, fs, cfg, func(nm *hx.NodeMachine, op hx.NOp, i int) error {
			if op.Op == "minereal" && nm.LastOutcome != "skipped" {
				return nm.CheckFreshReplay()
			}
			return nil
		}, func(nm *hx.NodeMachine) {
			if nm.Stat["minereal"] > 0 && (nm.Stat["pool-with-anti-dependency"] > 0 || nm.Stat["pool-with>=3-ordered-pairs"] > 0) {
				cs.Nontrivial()
			}
		})
	})
}
