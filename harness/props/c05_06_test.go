package props

import (
	"encoding/json"
	"fmt"
	"os"
	"testing"

	"pgregory.net/rapid"

	"verifharness/hx"
)

// faultOp is the trace record of an operation executed with an armed write fault.
type faultOp struct {
	Fault int    `json:"failwrite"`
	Read  bool   `json:"read,omitempty"` // the Fault-th point read fails instead of the Fault-th write
	Op    hx.NOp `json:"inop"`
}

func init() {
	replayers["C05/node-machine-faults"] = func(raw json.RawMessage, fs *hx.FindingSet) error {
		var items []json.RawMessage
		if err := json.Unmarshal(raw, &items); err != nil {
			return err
		}
		opts := hx.DefaultOpts()
		var nm *hx.NodeMachine
		defer func() {
			if nm != nil {
				nm.Close()
			}
		}()
		for i, it := range items {
			var h nodeTraceHdr
			if json.Unmarshal(it, &h) == nil && h.Opts != nil {
				opts = *h.Opts
				continue
			}
			if nm == nil {
				var err error
				if nm, err = hx.NewNodeMachine(opts, fs); err != nil {
					return err
				}
				if opts.GenesisFault > 0 {
					if err := nm.CheckState(); err != nil {
						return fmt.Errorf("after the repeated play of the root block (write %d of the first attempt failed): %v", opts.GenesisFault, err)
					}
				}
			}
			var fo faultOp
			var op hx.NOp
			if json.Unmarshal(it, &fo) == nil && fo.Fault > 0 {
				op = fo.Op
				var err error
				if fo.Read {
					_, err = nm.ApplyWithReadFault(fo.Op, fo.Fault)
				} else {
					_, err = nm.ApplyWithFault(fo.Op, fo.Fault)
				}
				if err != nil {
					return stepErr(i, op, err)
				}
			} else {
				if err := json.Unmarshal(it, &op); err != nil {
					return err
				}
				if err := nm.Apply(op); err != nil {
					return stepErr(i, op, err)
				}
			}
			if err := nm.CheckState(); err != nil {
				return stepErr(i, op, err)
			}
			if err := nm.LM.CheckInvariant(); err != nil {
				return stepErr(i, op, err)
			}
			if err := nm.CheckImage(); err != nil {
				return stepErr(i, op, err)
			}
		}
		if nm == nil && opts.GenesisFault > 0 {
			// the history failed before its first operation
			var err error
			if nm, err = hx.NewNodeMachine(opts, fs); err != nil {
				return err
			}
			if err := nm.CheckState(); err != nil {
				return fmt.Errorf("after the repeated play of the root block (write %d of the first attempt failed): %v", opts.GenesisFault, err)
			}
		}
		return nil
	}
	replayers["C06/crash-prefixes"] = func(raw json.RawMessage, fs *hx.FindingSet) error {
		ops, opts, err := decodeNodeTrace(raw)
		if err != nil {
			return err
		}
		nm, err := hx.NewNodeMachine(opts, fs)
		if err != nil {
			return err
		}
		defer nm.Close()
		snaps := []hx.Snap{nm.TakeSnap("genesis")}
		for i, op := range ops {
			if err := nm.Apply(op); err != nil {
				return stepErr(i, op, err)
			}
			name := op.Op
			if op.Prune {
				name += "-prune"
			}
			snaps = append(snaps, nm.TakeSnap(name))
		}
		_, _, err = crashSweep(nm, snaps, 0, nil)
		return err
	}
}

// crashSweep checks crash images. every: 0 = all prefixes, else a sampling stride for prefixes
// that do not fall strictly inside a multi-write operation (those are always taken).
func crashSweep(nm *hx.NodeMachine, snaps []hx.Snap, every int, count func(inside bool, key string)) (n int, inside int, err error) {
	total := nm.N.World.LogLen()
	j := 0 // snaps[j].LogLen <= k < ... : operation j+1 is in flight when snaps[j].LogLen < k < snaps[j+1].LogLen
	for k := snaps[0].LogLen; k <= total; k++ {
		for j+1 < len(snaps) && snaps[j+1].LogLen <= k {
			j++
		}
		before := snaps[j]
		after := before
		isInside := false
		if j+1 < len(snaps) && k > before.LogLen {
			after = snaps[j+1]
			isInside = true
		}
		if every > 1 && !isInside && k%every != 0 && k != total {
			continue
		}
		if e := nm.CheckCrashImage(k, before, after); e != nil {
			what := "after operation " + before.Op
			if isInside {
				what = fmt.Sprintf("%d storage writes into operation %q (which issues %d)", k-before.LogLen, after.Op, after.LogLen-before.LogLen)
			}
			return n, inside, fmt.Errorf("crash after %d of %d storage writes (%s): %v", k, total, what, e)
		}
		n++
		if isInside {
			inside++
		}
		if count != nil {
			count(isInside, fmt.Sprintf("%s/%d/%d", after.Op, k-before.LogLen, after.LogLen-before.LogLen))
		}
	}
	return n, inside, nil
}

// lastInvalidStored returns the newest stored block that is not valid on its parent's state (-1: none).
func lastInvalidStored(nm *hx.NodeMachine) int {
	for i := len(nm.LM.M.Blocks) - 1; i > 0; i-- {
		if b := nm.LM.M.Blocks[i]; b.Stored && !nm.Valid[i] {
			return i
		}
	}
	return -1
}

func TestC05(t *testing.T) {
	c := hx.NewCollector("C05", "fault_enumeration",
		"node state machine (as C01) with failing operations at every internal stage mixed in - blocks with unknown / rejected parent, two coinbases, duplicated transaction, transactions built on an older state (the k-th transaction of a block fails after earlier ones were applied), refused pool transactions - plus injected storage write errors (the n-th write from now fails, n drawn 1..6) and read errors (the n-th point read from now returns an I/O error, n drawn 1..32; 1 fault in 3) and follow-up operations that depend on the failed one. After every step: the model (unchanged by failed operations) equals every state and ledger observable of the running node, AND a second node opened on the reconstructed disk image answers every ledger and state query identically, holds the same pool, and SelectUtxos returns only existing unfrozen outputs once. Non-trivial = case with a failed operation or a fired write fault followed by >= 1 successful operation; distinct = hash of the trace",
		"goleveldb on in-memory storage behaves like LevelDB (a failed write is not applied at all)", "an operation hit by an injected write error may itself report anything; memory must equal disk afterwards and the model is reconciled from the persisted pointer / pool")
	defer c.Flush(t)
	fs := hx.LoadFindings()
	resolveSharedFindings(fs, c)
	regressFixed(t, c, fs, "C05")
	cfg := defaultGenCfg()
	cfg.MaxSteps = 20
	cfg.AllowTruncate = true // a truncation right after a rejected block must not bring the rejected block back
	cfg.WTruncate = 4
	c.Check(t, "node-machine-faults", hx.N(300, 2000), func(cs *hx.Case) {
		rt := cs.RT()
		opts := hx.DefaultOpts()
		// one history in six starts with a failed operation: the first play of the root block hits a write error at a
		// drawn write and is repeated (no trace of the failed attempt may survive in the running node)
		if rapid.IntRange(0, 5).Draw(rt, "genesisfault") == 0 {
			opts.GenesisFault = rapid.IntRange(1, 3).Draw(rt, "genesisfaultat")
		}
		// one history in four runs with a slide window: the irreversible height is part of what a failed operation
		// (a walk that applies some blocks and then fails) must leave identical in the running and the reopened node
		opts.Window = rapid.SampledFrom([]int64{0, 0, 0, 1, 2}).Draw(rt, "window")
		cs.Op(map[string]interface{}{"opts": opts})
		nm, err := hx.NewNodeMachine(opts, fs)
		if err != nil {
			rt.Fatalf("setup: %v", err)
		}
		defer nm.Close()
		if opts.GenesisFault > 0 {
			if nm.N.GenesisFaultFired {
				cs.Label("root-block-play-failed-then-repeated")
			}
			if err := nm.CheckState(); err != nil {
				cs.Failf("after the repeated play of the root block (write %d of the first attempt failed): %v", opts.GenesisFault, err)
			}
		}
		n := rapid.IntRange(3, cfg.MaxSteps).Draw(rt, "steps")
		failedThenOK := false
		sawFailure := false
		prevFailed := false
		for i := 0; i < n; i++ {
			op := mixedOp(rt, nm, cfg, 14, 22)
			// a truncation DIRECTLY after a failed operation (whatever the failed operation left queued must not be
			// written by the next writer)
			if prevFailed && rapid.IntRange(0, 2).Draw(rt, "truncafterfail") == 0 {
				main := nm.LM.M.MainChain()
				op = hx.NOp{Op: "truncate", Target: main[len(main)-1-rapid.IntRange(0, minInt(2, len(main)-1)).Draw(rt, "truncback")], Expect: "truncate-right-after-failure"}
			}
			// follow-ups that depend on a stored but state-invalid block: walk into it, build on it
			if inv := lastInvalidStored(nm); inv >= 0 && rapid.IntRange(0, 9).Draw(rt, "followup") < 4 {
				switch rapid.IntRange(0, 2).Draw(rt, "fukind") {
				case 0:
					op = hx.NOp{Op: "walk", Target: inv, Expect: "walk-into-invalid-block"}
				case 1:
					op = hx.NOp{Op: "sync", Expect: "sync-over-invalid-block"}
				default:
					op = hx.NOp{Op: "peer", Label: fmt.Sprintf("b%d", len(nm.LM.M.Blocks)), Parent: inv, Expect: "child-of-invalid-block"}
				}
			}
			var aerr error
			fired := false
			if rapid.IntRange(0, 99).Draw(rt, "withfault") < 22 {
				// operations that issue several writes get deeper fault positions
				maxN := 3
				if op.Op == "walk" || op.Op == "sync" || op.Op == "truncate" {
					maxN = 8
				}
				nth := rapid.IntRange(1, maxN).Draw(rt, "nth")
				// 1 fault in 3 is a READ fault (round-7 angle "error paths"): the n-th point read (Get / Has) of the operation
				// returns an I/O error - not "not found"; an operation that swallows it or takes it for absence would leave
				// a state that differs from the model at the pointer or from the reopened image. Not during a reopen: a
				// node that cannot read its disk at start-up simply does not start
				wantRead := os.Getenv("C05_NO_READ_FAULTS") != "1" && op.Op != "reopen" && rapid.IntRange(0, 2).Draw(rt, "readfault") == 0
				if wantRead && c05ReadFaultsExcluded(cs, fs) {
					// listed finding C05-read-error-in-play-cleanup-keeps-total still reproduces: a write fault instead
					wantRead = false
				}
				if wantRead {
					nth = rapid.IntRange(1, 4*maxN).Draw(rt, "nthread")
					cs.Op(faultOp{Fault: nth, Read: true, Op: op})
					fired, aerr = nm.ApplyWithReadFault(op, nth)
				} else {
					cs.Op(faultOp{Fault: nth, Op: op})
					fired, aerr = nm.ApplyWithFault(op, nth)
				}
			} else {
				cs.Op(op)
				aerr = nm.Apply(op)
			}
			if aerr != nil {
				cs.Failf("step %d %s: %v", i, opJSON(op), aerr)
			}
			if err := nm.CheckState(); err != nil {
				cs.Failf("after step %d %s (fault fired=%v): %v", i, opJSON(op), fired, err)
			}
			if err := nm.LM.CheckInvariant(); err != nil {
				cs.Failf("after step %d %s (fault fired=%v): ledger: %v", i, opJSON(op), fired, err)
			}
			if err := nm.CheckImage(); err != nil {
				cs.Failf("after step %d %s (fault fired=%v): %v", i, opJSON(op), fired, err)
			}
			failedNow := fired || nm.LastOutcome == "failed" || nm.LastOutcome == "refused" || nm.LastOutcome == "forbidden"
			if sawFailure && !failedNow && nm.LastOutcome != "skipped" {
				failedThenOK = true
			}
			if failedNow {
				sawFailure = true
			}
			prevFailed = failedNow
			if op.Expect != "" {
				cs.Label("candidate:" + op.Expect + ":" + nm.LastOutcome)
			}
		}
		for k, v := range nm.Stat {
			if v > 0 {
				cs.Label(k)
			}
		}
		if failedThenOK {
			cs.Nontrivial()
		}
	})
}

// c05ReadFaultsExcluded: READ faults are excluded by construction while the listed finding about the roll-back's own
// disk read (C05-read-error-in-play-cleanup-keeps-total) is active; every exclusion is counted.
func c05ReadFaultsExcluded(cs *hx.Case, fs *hx.FindingSet) bool {
	const id = "C05-read-error-in-play-cleanup-keeps-total"
	if os.Getenv("C05_FORCE_READ_FAULTS") == "1" || !fs.Active(id) {
		return false
	}
	cs.Exclude(id)
	return true
}

func TestC06(t *testing.T) {
	c := hx.NewCollector("C06", "fault_enumeration",
		"a generated node history (as C01: pool admissions, own blocks = ledger batch + state batch, peer blocks, multi-block walks, truncation = walk + ledger batch) is run once recording the ordered write log of both databases; then EVERY prefix of the log (quick: every prefix strictly inside a multi-write operation, the others sampled) is a crash point: ledger and state must open on the image, the ledger must equal the model before or after the in-flight operation (C04 oracle), the state pointer must name a stored block, the state must equal the model at that block plus the persisted pool (C01/C02 oracles), and Walk(ledger tip) must have the outcome of the uninterrupted run and then equal the model at the tip. Non-trivial = crash point strictly inside an operation that issues more than one write; distinct = (operation kind, write index, writes of the operation) per scenario hash",
		"LevelDB applies a batch atomically and a crash loses a suffix of the write sequence, never a middle", "goleveldb on in-memory storage behaves like LevelDB")
	defer c.Flush(t)
	fs := hx.LoadFindings()
	resolveSharedFindings(fs, c)
	regressFixed(t, c, fs, "C06")
	cfg := defaultGenCfg()
	cfg.MaxSteps = 16
	cfg.MinSteps = 4
	cfg.AllowTruncate = true
	cfg.WTruncate = 5
	cfg.WReopen = 0
	prefixes, insideN := 0, 0
	c.Check(t, "crash-prefixes", hx.N(150, 500), func(cs *hx.Case) {
		rt := cs.RT()
		opts := hx.DefaultOpts()
		// one scenario in three runs with a slide window: the persisted irreversible height is part of every image
		opts.Window = rapid.SampledFrom([]int64{0, 0, 1, 2, 0, 0}).Draw(rt, "window")
		cs.Op(map[string]interface{}{"opts": opts})
		nm, err := hx.NewNodeMachine(opts, fs)
		if err != nil {
			rt.Fatalf("setup: %v", err)
		}
		defer nm.Close()
		snaps := []hx.Snap{nm.TakeSnap("genesis")}
		run := func(op hx.NOp) {
			cs.Op(op)
			if err := nm.Apply(op); err != nil {
				cs.Failf("uninterrupted run: %s: %v", opJSON(op), err)
			}
			name := op.Op
			if op.Prune {
				name += "-prune"
			}
			snaps = append(snaps, nm.TakeSnap(name))
		}
		// fork skeleton so that multi-block walks are frequent
		if rapid.IntRange(0, 9).Draw(rt, "skeleton") < 6 {
			parent := 0
			la := rapid.IntRange(1, 3).Draw(rt, "la")
			for i := 0; i < la; i++ {
				run(genPeerOn(rt, nm, cfg, parent))
				parent = len(nm.LM.M.Blocks) - 1
			}
			run(hx.NOp{Op: "sync"})
			parent = 0
			for i := 0; i < la+1; i++ {
				if !nm.Valid[parent] {
					break
				}
				run(genPeerOn(rt, nm, cfg, parent))
				parent = len(nm.LM.M.Blocks) - 1
			}
			run(hx.NOp{Op: "sync"})
		}
		n := rapid.IntRange(cfg.MinSteps, cfg.MaxSteps).Draw(rt, "steps")
		for i := 0; i < n; i++ {
			op := genNodeOp(rt, nm, cfg)
			// 1 operation in 7 is an adversarial peer block (two award transactions, wrong award, unknown parent, forged
			// award, unsigned transaction, carried tree with other leaves ...): whatever a REFUSED confirmation or play had
			// queued must not reach the disk with the writes of a later operation (round-7 change C06-k: the shared
			// confirm batch is only reset after a successful write)
			if rapid.IntRange(0, 6).Draw(rt, "advpeer") == 0 {
				op = genAdvPeer(rt, nm, cfg)
				if op.Expect != "" {
					cs.Label("adversarial-block:" + op.Expect)
				}
			}
			if op.Op == "mine" && rapid.Bool().Draw(rt, "ownaddress") {
				// the node's own block under its own address, through the real packBlock (restart code may treat
				// blocks it proposed itself differently)
				op = hx.NOp{Op: "minereal", Label: op.Label}
			}
			run(op)
		}
		// now and then a block of several MiB (three bulky transfers): large blocks must be as atomic as small ones
		if rapid.IntRange(0, 11).Draw(rt, "hugeblock") == 0 {
			m := nm.LM.M
			parent := nm.Ptr
			if !nm.Valid[parent] || nm.States[parent] == nil {
				parent = 0
			}
			op := hx.NOp{Op: "peer", Label: fmt.Sprintf("b%d", len(m.Blocks)), Parent: parent, Proposer: 1, Expect: "huge-block"}
			s := nm.States[parent].Clone()
			plain := genCfg{Keys: cfg.Keys, ContractPct: 0}
			for i := 0; i < 3; i++ {
				spec, ok := genTxSpec(rt, nm, s, plain, m.Blocks[parent].Height+1, false)
				if !ok {
					break
				}
				spec.DescLen = 1600000
				if tx, _ := buildForGen(nm, &spec, s); tx != nil {
					s.Apply(tx, "")
					op.Txs = append(op.Txs, spec)
				}
			}
			if len(op.Txs) > 0 {
				run(op)
				run(hx.NOp{Op: "sync"})
				cs.Label("huge-block")
			}
		}
		if err := nm.CheckState(); err != nil {
			cs.Failf("uninterrupted run: %v", err)
		}
		every := 3
		if hx.Tier() == "thorough" {
			every = 0
		}
		scen := fmt.Sprint(len(cs.Trace), nm.N.World.LogLen())
		np, ni, err := crashSweep(nm, snaps, every, func(inside bool, key string) {
			if inside {
				c.NontrivialKey(scen + "/" + key + "/" + fmt.Sprint(nm.Seq))
			}
		})
		if err != nil {
			cs.Failf("%v", err)
		}
		prefixes += np
		insideN += ni
		if ni > 0 {
			cs.Nontrivial()
		}
		for k, v := range nm.Stat {
			if v > 0 {
				cs.Label(k)
			}
		}
	})
	c.Extra("crash_images_checked", prefixes)
	c.Extra("crash_images_inside_multi_write_operations", insideN)
}
