package props

// C20, sub-check "dispatch-traffic" (round-7 change C20-k: the table of handled messages is flushed when it reaches
// 4096 entries). The dispatcher programs of "dispatch-model" have at most 40 operations, so the table of handled
// messages never holds more than a few dozen entries. Here ONE dispatcher handles thousands of distinct messages within
// the de-duplication window and every message comes a second time (a second wire copy) a drawn number of messages
// later: each message must reach every matching subscriber exactly once, however many other messages were handled in
// between. The window is wall clock (3 s): a repeat is only judged when it was dispatched less than 1 s after the first
// copy (measured), otherwise it may or may not be delivered again - the check can therefore not fail on a tree where the
// statement holds, however slow the machine is; it then merely judges fewer repeats (reported in the evidence).

import (
	"encoding/json"
	"fmt"
	"sync"
	"testing"
	"time"

	"github.com/golang/protobuf/proto"
	"pgregory.net/rapid"

	lpb "github.com/xuperchain/xupercore/bcs/ledger/xledger/xldgpb"
	xctx "github.com/xuperchain/xupercore/kernel/common/xcontext"
	"github.com/xuperchain/xupercore/kernel/network/p2p"
	pb "github.com/xuperchain/xupercore/protos"

	"verifharness/hx"
)

const c20TrafficCheck = "dispatch-traffic"

type c20Traffic struct {
	N    int   `json:"n"`    // distinct messages
	Subs int   `json:"subs"` // handler subscribers of the message type (all match)
	Lags []int `json:"lags"` // message i comes again Lags[i % len(Lags)] messages after its first copy
}

type c20TrafficOut struct {
	Viol               string
	Judged, Unjudged   int
	MaxHandledInWindow int
	Dispatches         int
}

func c20RunTraffic(p *c20Traffic) *c20TrafficOut {
	o := &c20TrafficOut{}
	d := c20NewDispatcher()
	typ := pb.XuperMessage_POSTTX
	var mu sync.Mutex
	counts := make([]map[string]int, p.Subs)
	for i := 0; i < p.Subs; i++ {
		i := i
		counts[i] = map[string]int{}
		sub := p2p.NewSubscriber(c20Ctx(), typ, p2p.HandleFunc(func(_ xctx.XContext, m *pb.XuperMessage) (*pb.XuperMessage, error) {
			mu.Lock()
			counts[i][m.GetHeader().GetLogid()]++
			mu.Unlock()
			return nil, nil
		}))
		if err := d.Register(sub); err != nil {
			o.Viol = fmt.Sprintf("Register: %v", err)
			return o
		}
	}
	stream := &c20Stream{}
	type sent struct {
		wire  []byte
		at    time.Time
		logid string
	}
	first := make([]sent, p.N)
	due := map[int][]int{} // index of the message after which a repeat is due -> originals
	judged := map[string]bool{}
	dispatch := func(m *pb.XuperMessage) error {
		o.Dispatches++
		return d.Dispatch(m, stream)
	}
	for i := 0; i < p.N; i++ {
		logid := fmt.Sprintf("traffic-%d", i)
		m := p2p.NewMessage(typ, &lpb.Transaction{Desc: []byte("traffic"), Nonce: fmt.Sprint(i % 7)}, p2p.WithBCName("xuper"), p2p.WithLogId(logid))
		m.Header.From = "peer-a"
		wire, err := proto.Marshal(m)
		if err != nil {
			o.Viol = fmt.Sprintf("harness: marshal: %v", err)
			return o
		}
		recv := &pb.XuperMessage{}
		if err := proto.Unmarshal(wire, recv); err != nil {
			o.Viol = fmt.Sprintf("harness: unmarshal: %v", err)
			return o
		}
		first[i] = sent{wire: wire, at: time.Now(), logid: logid}
		if err := dispatch(recv); err != nil {
			o.Viol = fmt.Sprintf("Dispatch of message %d returned %v", i, err)
			return o
		}
		lag := p.Lags[i%len(p.Lags)]
		due[i+lag] = append(due[i+lag], i)
		for _, j := range due[i] {
			again := &pb.XuperMessage{}
			if err := proto.Unmarshal(first[j].wire, again); err != nil {
				o.Viol = fmt.Sprintf("harness: unmarshal: %v", err)
				return o
			}
			err := dispatch(again)
			if c20Elapsed(first[j].at, time.Now()) < time.Second {
				judged[first[j].logid] = true
				o.Judged++
				if i-j > o.MaxHandledInWindow {
					o.MaxHandledInWindow = i - j
				}
			} else {
				o.Unjudged++
			}
			if err != nil {
				o.Viol = fmt.Sprintf("Dispatch of the second copy of message %d returned %v", j, err)
				return o
			}
		}
		delete(due, i)
	}
	mu.Lock()
	defer mu.Unlock()
	for i := 0; i < p.N; i++ {
		for s := 0; s < p.Subs; s++ {
			got := counts[s][first[i].logid]
			switch {
			case got == 0:
				o.Viol = fmt.Sprintf("message %d of %d was never delivered to subscriber %d", i, p.N, s)
				return o
			case got > 2 || (got == 2 && judged[first[i].logid]):
				o.Viol = fmt.Sprintf("message %d of %d (second copy dispatched %d messages and less than 1 s after the first) was delivered %d times to subscriber %d: a repeat inside the de-duplication window must be dropped",
					i, p.N, p.Lags[i%len(p.Lags)], got, s)
				return o
			}
		}
	}
	return o
}

func c20GenTraffic(rt *rapid.T) *c20Traffic {
	p := &c20Traffic{N: rapid.SampledFrom([]int{4500, 6000, 9000}).Draw(rt, "n"), Subs: rapid.IntRange(1, 3).Draw(rt, "subs")}
	k := rapid.IntRange(1, 6).Draw(rt, "lagpattern")
	for i := 0; i < k; i++ {
		p.Lags = append(p.Lags, rapid.SampledFrom([]int{0, 1, 2, 5, 17, 100, 400}).Draw(rt, "lag"))
	}
	return p
}

func c20CheckTraffic(t *testing.T, c *hx.Collector) {
	judged, unjudged, dispatches := 0, 0, 0
	c.Check(t, c20TrafficCheck, hx.N(3, 8), func(cs *hx.Case) {
		p := c20GenTraffic(cs.RT())
		cs.Op(p)
		o := c20RunTraffic(p)
		dispatches += o.Dispatches
		judged += o.Judged
		unjudged += o.Unjudged
		if o.Viol != "" {
			cs.Failf("%s", o.Viol)
		}
		cs.Label("traffic-program")
		if o.Judged >= 4096 {
			cs.Label("traffic:>=4096-repeats-judged-on-one-dispatcher")
			cs.NontrivialKey(p)
		}
	})
	c.Extra("traffic_dispatches", dispatches)
	c.Extra("traffic_repeats_judged", judged)
	c.Extra("traffic_repeats_dispatched_later_than_1s_unjudged", unjudged)
}

func init() {
	replayers["C20/"+c20TrafficCheck] = func(raw json.RawMessage, fs *hx.FindingSet) error {
		var progs []c20Traffic
		if err := json.Unmarshal(raw, &progs); err != nil {
			return err
		}
		for i := range progs {
			if o := c20RunTraffic(&progs[i]); o.Viol != "" {
				return fmt.Errorf("%s", o.Viol)
			}
		}
		return nil
	}
}
