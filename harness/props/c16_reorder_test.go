package props

// C16, sub-check "validator-reorder": histories of validator-LIST changes (the list is ordered: position i owns slot i
// of every term) with the PRODUCER side observed after every change. Input classes: pure permutations of the list in
// force (rotations, swaps of two members, arbitrary re-orderings), mixed with changes that add / remove / replace a
// member; xpoa: several edits in a row, also a second edit recorded before the first one is effective, nodes that lived
// through the whole history and nodes restarted in the middle of it; tdpos: an election whose result is the initial set
// in another rank order.
//
// Oracle (statement: at most one entitled producer per instant, and it is the member at the position the schedule gives
// in the list in force): a node asked CompeteMaster in a real-time bracket [t0,t1] that lies inside ONE slot of the
// schedule answers "producer" iff it is the member at that slot's position of the list in force for the next block; and
// CheckMinerMatch accepts a candidate for the next block stamped t1 iff it comes from that same member.

import (
	"encoding/json"
	"fmt"
	"testing"
	"time"

	"pgregory.net/rapid"

	"github.com/xuperchain/xupercore/bcs/consensus/tdpos"
	"github.com/xuperchain/xupercore/bcs/consensus/xpoa"
	"github.com/xuperchain/xupercore/kernel/consensus/base"
	"github.com/xuperchain/xupercore/kernel/ledger"

	"verifharness/hx"
)

type c16ReorderCase struct {
	Plugin   string `json:"plugin"` // xpoa | tdpos
	Period   int64  `json:"period_ms"`
	BlockNum int64  `json:"block_num"`
	// Hist[0] = the configured initial list, Hist[j] = the list recorded by the j-th change (indices into hx.Ring).
	// tdpos: exactly one change, an election won by Hist[1] in this rank order (len(Hist[1]) == len(Hist[0])).
	Hist [][]int `json:"hist"`
	// xpoa: Gaps[j-1] = distance in blocks between change j-1 and change j (the first change sits in block Gaps[0])
	Gaps []int `json:"gaps,omitempty"`
	// xpoa: besides the nodes that live through the history, a node is restarted at every tip height
	Restart bool `json:"restart,omitempty"`
}

// c16HistLedger: stub chain whose contract state depends on the height: the snapshot of block h answers the validator
// list of the latest change recorded at a height <= h.
type c16HistLedger struct {
	*c16Ledger
	editAt []int64  // ascending heights
	editTo [][]byte // value under the xpoa validator key from that height on
}

func (l *c16HistLedger) valueAt(h int64) []byte {
	var v []byte
	for i, e := range l.editAt {
		if e <= h {
			v = l.editTo[i]
		}
	}
	return v
}

func (l *c16HistLedger) CreateSnapshot(id []byte) (ledger.XMReader, error) {
	b, ok := l.byID[string(id)]
	if !ok {
		return nil, errC16NoBlock
	}
	if v := l.valueAt(b.height); v != nil {
		return c16XMReader{map[string][]byte{"_validates": v}}, nil
	}
	return c16XMReader{}, nil
}

type c16TipReader struct{ v []byte }

func (r c16TipReader) Get(bucket string, key []byte) ([]byte, error) { return r.v, nil }

// a restarting node reads the state of the tip
func (l *c16HistLedger) GetTipXMSnapshotReader() (ledger.XMSnapshotReader, error) {
	return c16TipReader{l.valueAt(l.chain[len(l.chain)-1].height)}, nil
}

func c16AddrsOf(idx []int) []string {
	out := make([]string, len(idx))
	for i, x := range idx {
		out[i] = hx.Ring[x].Address
	}
	return out
}

// c16PurePermutation: same members, another order.
func c16PurePermutation(a, b []string) bool {
	if len(a) != len(b) {
		return false
	}
	cnt := map[string]int{}
	same := true
	for i := range a {
		cnt[a[i]]++
		cnt[b[i]]--
		same = same && a[i] == b[i]
	}
	for _, v := range cnt {
		if v != 0 {
			return false
		}
	}
	return !same
}

type c16ReorderNode struct {
	key  *hx.Key
	inst base.ConsensusImplInterface
	kind string // live | restarted
}

// c16Slot answers (term, pos, entitled) of the plugin's schedule at t.
type c16SlotFn func(t int64, n int) (term, pos int64, entitled bool)

// c16AskProducer asks one node whether it is the producer of the next block and compares with the list in force.
// seen[pos] is set when the answer was judged (bracket inside one slot).
func c16AskProducer(label string, nd c16ReorderNode, tip int64, inForce, before []string, slot c16SlotFn, seen map[int64]bool, o *c16Obs, descr string) *c16Fail {
	t0 := time.Now().UnixNano()
	master, _, err := nd.inst.CompeteMaster(tip + 1)
	t1 := time.Now().UnixNano()
	if err != nil {
		return c16Failf("producer-path", "%s: CompeteMaster of %s node %q failed: %v", descr, nd.kind, nd.key.Address, err)
	}
	term0, pos0, _ := slot(t0, len(inForce))
	term1, pos1, _ := slot(t1, len(inForce))
	if term0 != term1 || pos0 != pos1 || pos1 < 0 || pos1 >= int64(len(inForce)) {
		o.eval(label + "-compete:not-judged-call-straddles-two-slots")
		return nil
	}
	owner := inForce[pos1]
	if master {
		o.eval(label + "-compete:producer")
	} else {
		o.eval(label + "-compete:not-producer")
	}
	if master && owner != nd.key.Address {
		return c16Failf("producer-not-entitled", "%s: %s node %q was told by CompeteMaster (tip height %d) that it is the producer of the next block, in a slot (term %d, position %d) that belongs to %q: list in force for the next block %v (list in force before the last change %v)",
			descr, nd.kind, nd.key.Address, tip, term1, pos1, owner, inForce, before)
	}
	if !master && owner == nd.key.Address {
		return c16Failf("entitled-producer-silent", "%s: %s node %q was told by CompeteMaster (tip height %d) that it is NOT the producer, in its own slot (term %d, position %d): list in force for the next block %v (list in force before the last change %v)",
			descr, nd.kind, nd.key.Address, tip, term1, pos1, inForce, before)
	}
	seen[pos1] = true
	if c16PurePermutation(before, inForce) {
		o.tag(label + ":producer-asked-after-pure-permutation")
		if master && (pos1 >= int64(len(before)) || before[pos1] != owner) {
			o.tag(label + ":producer-confirmed-in-a-position-it-got-by-permutation")
		}
	}
	return nil
}

func c16RunReorder(k c16ReorderCase, o *c16Obs) *c16Fail {
	if len(k.Hist) < 2 || len(k.Hist[0]) == 0 || k.Period < 1 || k.BlockNum < 1 {
		return c16Failf("setup", "bad case")
	}
	// nodes: every key that is ever a member, and a stranger
	var keys []*hx.Key
	known := map[int]bool{}
	for _, l := range k.Hist {
		if len(l) == 0 {
			return c16Failf("setup", "empty list")
		}
		for _, x := range l {
			if x < 0 || x >= hx.RingSize-1 {
				return c16Failf("setup", "bad ring index")
			}
			if !known[x] {
				known[x] = true
				keys = append(keys, hx.Ring[x])
			}
		}
	}
	keys = append(keys, c16Stranger())
	xc := c16XCtx()
	descr := fmt.Sprintf("%s (period %dms, block_num %d), lists by ring index %v", k.Plugin, k.Period, k.BlockNum, k.Hist)
	switch k.Plugin {
	case "xpoa":
		if len(k.Gaps) != len(k.Hist)-1 {
			return c16Failf("setup", "gaps")
		}
		leg := &c16HistLedger{c16Ledger: c16NewLedger(0)}
		at := int64(0)
		for j := 1; j < len(k.Hist); j++ {
			if k.Gaps[j-1] < 1 {
				return c16Failf("setup", "gap < 1")
			}
			at += int64(k.Gaps[j-1])
			vb, _ := json.Marshal(map[string][]string{"address": c16AddrsOf(k.Hist[j])})
			leg.editAt = append(leg.editAt, at)
			leg.editTo = append(leg.editTo, vb)
		}
		descr += fmt.Sprintf(", recorded in blocks %v", leg.editAt)
		ib, _ := json.Marshal(c16AddrsOf(k.Hist[0]))
		conf := fmt.Sprintf(`{"period":%d,"block_num":%d,"init_proposer":{"address":%s}}`, k.Period, k.BlockNum, ib)
		mk := func(key *hx.Key, kind string) (c16ReorderNode, *c16Fail) {
			inst, err := c16NewPlugin("xpoa", conf, leg, key)
			if err != nil {
				return c16ReorderNode{}, c16Failf("setup", "%v", err)
			}
			return c16ReorderNode{key: key, inst: inst, kind: kind}, nil
		}
		var live []c16ReorderNode
		for _, key := range keys {
			nd, f := mk(key, "long-running")
			if f != nil {
				return f
			}
			live = append(live, nd)
		}
		vs := xpoa.VerifScheduleOf(live[0].inst)
		slot := func(t int64, n int) (int64, int64, bool) {
			term, pos, bp := vs.MinerScheduling(t, n)
			return term, pos, bp >= 1 && bp <= k.BlockNum && pos < int64(n)
		}
		// the list in force for the block after tip H: a change recorded in block e is in force from block e+4 on
		inForce := func(tip int64) (cur, before []string) {
			cur, before = c16AddrsOf(k.Hist[0]), c16AddrsOf(k.Hist[0])
			for j, e := range leg.editAt {
				if e+3 <= tip {
					before, cur = cur, c16AddrsOf(k.Hist[j+1])
				}
			}
			return
		}
		last := leg.editAt[len(leg.editAt)-1] + 4
		for tip := int64(0); tip <= last; tip++ {
			if tip > 0 {
				leg.add(&c16Block{proposer: hx.Ring[k.Hist[0][0]].Address, height: tip, id: c16Hash(fmt.Sprintf("c16-reorder-%d", tip)), pre: leg.chain[tip-1].id, ts: tip * c16Ms, storage: []byte{}})
			}
			cur, before := inForce(tip)
			rounds := 1
			if tip == last {
				rounds = 3*len(cur)*int(k.BlockNum) + 8 // until every position was seen
			}
			seen := map[int64]bool{}
			for r := 0; r < rounds && len(seen) < len(cur); r++ {
				nodes := live
				if k.Restart {
					nd, f := mk(keys[(int(tip)+r)%len(keys)], "restarted")
					if f != nil {
						return f
					}
					nodes = append(append([]c16ReorderNode{}, live...), nd)
				}
				for _, nd := range nodes {
					if f := c16AskProducer("xpoa-reorder", nd, tip, cur, before, slot, seen, o, descr); f != nil {
						return f
					}
				}
				// the checking side, for the same instant
				t := time.Now().UnixNano()
				_, pos, ent := slot(t, len(cur))
				for _, key := range keys {
					blk := &c16Block{proposer: key.Address, height: tip + 1, id: c16Hash(fmt.Sprintf("c16-reorder-cand-%d-%d-%s", tip, r, key.Address)), pre: leg.chain[tip].id, ts: t, storage: []byte{}}
					ok, _ := live[r%len(live)].inst.CheckMinerMatch(xc, blk)
					want := ent && cur[pos] == key.Address
					if ok {
						o.eval("xpoa-reorder-accept:accepted")
					} else {
						o.eval("xpoa-reorder-accept:rejected")
					}
					if ok != want {
						return c16Failf("accept-reordered", "%s: block of %q at height %d stamped in the slot of position %d: accepted=%v, the list in force for that height is %v",
							descr, key.Address, tip+1, pos, ok, cur)
					}
				}
			}
			if tip == last && len(seen) == len(cur) {
				o.tag("xpoa-reorder:every-position-of-the-final-list-observed")
			}
		}
	case "tdpos":
		if len(k.Hist) != 2 || len(k.Hist[1]) != len(k.Hist[0]) {
			return c16Failf("setup", "tdpos: one election of the same size")
		}
		initSet, elected := c16AddrsOf(k.Hist[0]), c16AddrsOf(k.Hist[1])
		n := int64(len(initSet))
		init := int64(1559021720000) * c16Ms
		kc := c16TdposCase{Period: k.Period, BlockNum: k.BlockNum, ProposerNum: n, Alternate: k.Period, Term: k.Period, InitNs: init}
		leg := c16NewLedger(init)
		leg.snap = map[string][]byte{}
		nominate := map[string]map[string]int64{}
		for i, a := range elected {
			nominate[a] = map[string]int64{a: 1}
			vb, _ := json.Marshal(map[string]int64{"voter": int64(1000 - i)}) // rank = position in Hist[1]
			leg.snap["_vote_"+a] = vb
		}
		nb, _ := json.Marshal(nominate)
		leg.snap["_nominate"] = nb
		var live []c16ReorderNode
		for _, key := range keys {
			inst, err := c16NewPlugin("tdpos", c16TdposConf(kc, initSet), leg, key)
			if err != nil {
				return c16Failf("setup", "%v", err)
			}
			live = append(live, c16ReorderNode{key: key, inst: inst, kind: "long-running"})
		}
		vs := tdpos.VerifScheduleOf(live[0].inst)
		slot := func(t int64, _ int) (int64, int64, bool) {
			term, pos, bp := vs.MinerScheduling(t)
			return term, pos, bp >= 0 && bp < k.BlockNum && pos < n
		}
		// trunk blocks 1..4 in term 1 (produced by the initial list); the election is part of every snapshot, so every
		// later term - the wall clock is in one of them - is run by the elected list
		ts := init
		for h := int64(1); h <= 4; {
			ts += c16Ms / 2 // two stub blocks per entitled millisecond: block_num 1 x 2 validators leaves only 3 of them
			term, pos, ent := slot(ts, 0)
			if !ent {
				continue
			}
			if term != 1 {
				return c16Failf("setup", "term 1 has fewer than 4 entitled milliseconds")
			}
			_, _, bp := vs.MinerScheduling(ts)
			st, _ := json.Marshal(map[string]int64{"curTerm": 1, "curBlockNum": bp})
			leg.add(&c16Block{proposer: initSet[pos], height: h, id: c16Hash(fmt.Sprintf("c16-reorder-t-%d", h)), pre: leg.chain[h-1].id, ts: ts, storage: st})
			h++
		}
		seen := map[int64]bool{}
		rounds := 3*len(elected)*int(k.BlockNum+1) + 8
		for r := 0; r < rounds && len(seen) < len(elected); r++ {
			for _, nd := range live {
				if f := c16AskProducer("tdpos-reorder", nd, 4, elected, initSet, slot, seen, o, descr); f != nil {
					return f
				}
			}
			t := time.Now().UnixNano()
			term, pos, ent := slot(t, 0)
			_, _, bp := vs.MinerScheduling(t)
			for _, key := range keys {
				st, _ := json.Marshal(map[string]int64{"curTerm": term, "curBlockNum": bp})
				blk := &c16Block{proposer: key.Address, height: 5, id: c16Hash(fmt.Sprintf("c16-reorder-tcand-%d-%s", r, key.Address)), pre: leg.chain[4].id, ts: t, storage: st}
				ok, _ := live[r%len(live)].inst.CheckMinerMatch(xc, blk)
				want := ent && elected[pos] == key.Address
				if ok {
					o.eval("tdpos-reorder-accept:accepted")
				} else {
					o.eval("tdpos-reorder-accept:rejected")
				}
				if ok != want {
					return c16Failf("accept-reordered", "%s: block of %q at height 5 stamped at (term %d, position %d, slot %d): accepted=%v, the list elected for every term after the first is %v",
						descr, key.Address, term, pos, bp, ok, elected)
				}
			}
		}
		if len(seen) == len(elected) {
			o.tag("tdpos-reorder:every-position-of-the-elected-list-observed")
		}
	default:
		return c16Failf("setup", "unknown plugin %q", k.Plugin)
	}
	return nil
}

// c16Perms: all orderings of 0..n-1 in lexicographic order (the first one is the identity).
func c16Perms(n int) [][]int {
	var out [][]int
	var rec func(cur []int, used []bool)
	rec = func(cur []int, used []bool) {
		if len(cur) == n {
			out = append(out, append([]int{}, cur...))
			return
		}
		for i := 0; i < n; i++ {
			if !used[i] {
				used[i] = true
				rec(append(cur, i), used)
				used[i] = false
			}
		}
	}
	rec(nil, make([]bool, n))
	return out
}

// c16GenList: a change of the list cur, drawn by kind.
func c16GenList(rt *rapid.T, cur []int, sameSize bool) []int {
	kinds := []string{"rotate", "swap", "shuffle", "replace", "same"}
	if !sameSize {
		kinds = append(kinds, "add", "remove")
	}
	next := append([]int{}, cur...)
	fresh := func() int { // a ring index that is not a member
		var free []int
		for x := 0; x < 7; x++ {
			in := false
			for _, y := range next {
				in = in || x == y
			}
			if !in {
				free = append(free, x)
			}
		}
		return rapid.SampledFrom(free).Draw(rt, "fresh")
	}
	switch rapid.SampledFrom(kinds).Draw(rt, "kind") {
	case "rotate":
		if len(cur) > 1 {
			by := rapid.IntRange(1, len(cur)-1).Draw(rt, "by")
			for i := range cur {
				next[i] = cur[(i+by)%len(cur)]
			}
		}
	case "swap":
		if len(cur) > 1 {
			i := rapid.IntRange(0, len(cur)-1).Draw(rt, "i")
			j := rapid.IntRange(0, len(cur)-2).Draw(rt, "j")
			if j >= i {
				j++
			}
			next[i], next[j] = next[j], next[i]
		}
	case "shuffle":
		next = rapid.Permutation(cur).Draw(rt, "shuffle")
	case "replace":
		x := fresh()
		next[rapid.IntRange(0, len(cur)-1).Draw(rt, "at")] = x
	case "add":
		if len(cur) < 5 {
			x := fresh()
			at := rapid.IntRange(0, len(cur)).Draw(rt, "at")
			next = append(append(append([]int{}, cur[:at]...), x), cur[at:]...)
		}
	case "remove":
		if len(cur) > 1 {
			at := rapid.IntRange(0, len(cur)-1).Draw(rt, "at")
			next = append(append([]int{}, cur[:at]...), cur[at+1:]...)
		}
	}
	return next
}

func c16GenReorder(rt *rapid.T) c16ReorderCase {
	k := c16ReorderCase{Plugin: rapid.SampledFrom([]string{"xpoa", "xpoa", "tdpos"}).Draw(rt, "plugin"),
		Period: 2, BlockNum: int64(rapid.IntRange(1, 3).Draw(rt, "block_num"))}
	lo := 1
	if k.Plugin == "tdpos" {
		lo = 2
	}
	n := rapid.IntRange(lo, 4).Draw(rt, "n")
	first := rapid.Permutation([]int{0, 1, 2, 3, 4, 5, 6}).Draw(rt, "init")[:n]
	k.Hist = [][]int{first}
	if k.Plugin == "tdpos" {
		k.Hist = append(k.Hist, c16GenList(rt, first, true))
		return k
	}
	edits := rapid.IntRange(1, 3).Draw(rt, "edits")
	for j := 0; j < edits; j++ {
		k.Hist = append(k.Hist, c16GenList(rt, k.Hist[j], false))
		k.Gaps = append(k.Gaps, rapid.IntRange(1, 5).Draw(rt, "gap"))
	}
	k.Restart = rapid.Bool().Draw(rt, "restart")
	return k
}

func c16ReorderNontrivial(o *c16Obs) bool {
	return o.tags["xpoa-reorder:producer-confirmed-in-a-position-it-got-by-permutation"] > 0 ||
		o.tags["tdpos-reorder:producer-confirmed-in-a-position-it-got-by-permutation"] > 0
}

func c16Reorders(t *testing.T, c *hx.Collector) {
	// (1) enumerated: one change that is a pure permutation of the initial list - every ordering for n = 2, 3, every
	// rotation and every swap of two members for n = 4 - and the identity as a control
	agg := c16NewAgg()
	logged := 0
	var cases []c16ReorderCase
	for n := 2; n <= 4; n++ {
		id := c16Perms(n)[0]
		for pi, p := range c16Perms(n) {
			moved := 0
			rot := true
			for i := range p {
				if p[i] != i {
					moved++
				}
				rot = rot && p[i] == (p[0]+i)%n
			}
			if n == 4 && pi != 0 && !rot && moved != 2 {
				continue
			}
			cases = append(cases, c16ReorderCase{Plugin: "xpoa", Period: 2, BlockNum: 2, Hist: [][]int{id, p}, Gaps: []int{3}, Restart: pi%2 == 1})
			if n <= 3 || rot {
				cases = append(cases, c16ReorderCase{Plugin: "tdpos", Period: 2, BlockNum: 2, Hist: [][]int{id, p}})
			}
		}
	}
	ran, confirmed := 0, 0 // reported only
	for i, k := range cases {
		if !c16Mine(i) {
			continue
		}
		o := c16NewObs(1)
		f := c16RunReorder(k, o)
		ran++
		if c16ReorderNontrivial(o) {
			o.nontrivial(k)
			confirmed++
		}
		agg.add(c, o)
		if f != nil {
			c16Report(t, c, "validator-reorder", f, k, "", &logged)
			agg.flush(c)
			return
		}
	}
	agg.flush(c)
	t.Logf("C16 validator-reorder: %d enumerated cases, %d with a producer confirmed in a position it got by a pure permutation", ran, confirmed)
	c.SetExhaustive("validator-list re-ordering: one change that keeps the members of the initial list (n=2,3: every ordering; n=4: every rotation and every swap of two members; identity as control), xpoa edit in block 3 and tdpos election; every node asked CompeteMaster at every tip height and, once the change is in force, until every position of the list was observed")
	// (2) generated histories
	c.Check(t, "validator-reorder", hx.N(40, 1500), func(cs *hx.Case) {
		k := c16GenReorder(cs.RT())
		cs.Op(k)
		o := c16NewObs(0)
		if f := c16RunReorder(k, o); f != nil {
			cs.Failf("%s", f.Error())
		}
		for _, l := range c16SortedKeys(o.tags) {
			cs.Label(l)
		}
		for _, l := range c16SortedKeys(o.evals) {
			cs.Label(l)
		}
		if c16ReorderNontrivial(o) {
			cs.Nontrivial()
		}
	})
}

func init() {
	replayers["C16/validator-reorder"] = func(raw json.RawMessage, fs *hx.FindingSet) error {
		var items []c16ReorderCase
		if err := json.Unmarshal(raw, &items); err != nil {
			return err
		}
		for _, k := range items {
			if f := c16RunReorder(k, c16NewObs(0)); f != nil {
				return f
			}
		}
		return nil
	}
}
