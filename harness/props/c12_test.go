package props

// c12_test.go - C12: concurrent submissions are serialisable (conflict-free admission, no deadlock).
//
// Part A drives utxo.SpinLock alone, Part B the real state machine (DoTx / SelectUtxos /
// PlayAndRepost on one node) under the cooperative scheduler hx.Sched: every request is a thread,
// the yield points are the verifhook points of the real lock protocol, every scheduling choice is
// a rapid draw and the executed schedule is part of the replayable trace. Part C (TestRaceC12) runs
// the Part B scenarios as real goroutines for a -race binary.
//
// Oracle of Part B: the model comparison (admitted set applies in some one-at-a-time order; every
// observable equals model + admitted set; a play evicts only what it may; selectors get disjoint
// existing outputs; a refused transaction that is still valid is admitted after quiescence; memory
// == disk). If the model comparison fails, the statement itself is evaluated: every one-at-a-time
// order of the same requests is executed on a replica node, and only a result that no serial order
// reproduces is a violation (a defect of the sequential code is C01/C03's business, not C12's).
//
// Environment (development aids): C12_NO_EXCLUDE=1 switches the exclusions of active findings off;
// C12_PART=A|B runs one part; C12_NO_SERIAL_CHECK=1 reports model mismatches without the replica check.

import (
	"bytes"
	"encoding/hex"
	"encoding/json"
	"fmt"
	"math/big"
	"os"
	"runtime/debug"
	"sort"
	"strings"
	"sync"
	"testing"
	"time"

	"pgregory.net/rapid"

	"github.com/xuperchain/xupercore/bcs/ledger/xledger/state/utxo"
	pb "github.com/xuperchain/xupercore/bcs/ledger/xledger/xldgpb"
	"github.com/xuperchain/xupercore/lib/verifhook"
	"github.com/xuperchain/xupercore/protos"

	"verifharness/hx"
)

// ---------------------------------------------------------------------------------------------
// findings of C12 (root causes) and their trigger-shape exclusions
// ---------------------------------------------------------------------------------------------

const c12FindingWindow = "C12-spinlock-release-delete-window"

// c12Exclude: finding id -> its trigger shape is not emitted by the generators.
var c12Exclude = map[string]bool{}

const c12MaxSteps = 400

// ---------------------------------------------------------------------------------------------
// schedule pickers (shared by parts A and B)
// ---------------------------------------------------------------------------------------------

// c12Picker chooses the thread that runs next among the runnable ones.
type c12Picker func(s *hx.Sched, runnable []int) int

// c12ReplayPicker follows a recorded schedule; when it is exhausted or names a thread that is not
// runnable the lowest runnable thread runs.
func c12ReplayPicker(sched []int) c12Picker {
	i := 0
	return func(s *hx.Sched, runnable []int) int {
		c := runnable[0]
		if i < len(sched) {
			for _, r := range runnable {
				if r == sched[i] {
					c = r
				}
			}
		}
		i++
		return c
	}
}

// c12RapidPicker draws the schedule: uniform choice per step, or PCT style (threads have drawn
// priorities, the highest runnable one runs; at a few drawn steps the running thread drops to the
// lowest priority), i.e. few pre-emptions at drawn places.
func c12RapidPicker(rt *rapid.T, nthreads int, horizon int) (c12Picker, string) {
	mode := rapid.IntRange(0, 4).Draw(rt, "schedmode")
	if mode == 4 {
		// coarse: run a drawn thread until it reports a drawn protocol point (or finishes), repeat
		cur, target, ran := -1, "", false
		return func(s *hx.Sched, runnable []int) int {
			ok := false
			for _, r := range runnable {
				if r == cur {
					ok = true
				}
			}
			if !ok || (ran && s.Last(cur) == target) {
				cur = runnable[0]
				if len(runnable) > 1 {
					cur = runnable[rapid.IntRange(0, len(runnable)-1).Draw(rt, "cthread")]
				}
				target = rapid.SampledFrom(c12CoarseTargets).Draw(rt, "ctarget")
				ran = false
			}
			ran = true
			return cur
		}, "sched-coarse"
	}
	if mode <= 1 {
		return func(s *hx.Sched, runnable []int) int {
			if len(runnable) == 1 {
				return runnable[0]
			}
			return runnable[rapid.IntRange(0, len(runnable)-1).Draw(rt, "pick")]
		}, "sched-uniform"
	}
	// PCT
	prio := make([]int, nthreads) // prio[t]: larger runs first
	perm := rapid.Permutation(c12Iota(nthreads)).Draw(rt, "prio")
	for i, t := range perm {
		prio[t] = nthreads - i
	}
	nchg := rapid.IntRange(1, 1+mode).Draw(rt, "nchange")
	chg := map[int]bool{}
	for i := 0; i < nchg; i++ {
		chg[rapid.IntRange(1, horizon).Draw(rt, "changeat")] = true
	}
	step := 0
	low := 0
	return func(s *hx.Sched, runnable []int) int {
		step++
		best := runnable[0]
		for _, r := range runnable {
			if prio[r] > prio[best] {
				best = r
			}
		}
		if chg[step] {
			low--
			prio[best] = low
			best = runnable[0]
			for _, r := range runnable {
				if prio[r] > prio[best] {
					best = r
				}
			}
		}
		return best
	}, "sched-pct"
}

// c12WindowPoints: the yield points that lie between the map operation and the count operation of
// a shared lock / unlock. A pre-emption there is the trigger of finding C12-spinlock-release-delete-window.
var c12WindowPoints = map[string]bool{"y:unlock.shared.beforeDelete": true, "y:trylock.shared.beforeAdd": true, "y:trylock.first.beforeAdd": true}

// c12NoWindowPreempt wraps a picker so that a thread parked at a window point is always continued
// (the map operation and the count operation become one atomic step); the inner picker is not
// consulted for such forced steps.
func c12NoWindowPreempt(inner c12Picker) c12Picker {
	prev := -1
	return func(s *hx.Sched, runnable []int) int {
		if prev >= 0 && !s.Done(prev) && c12WindowPoints[s.Last(prev)] {
			for _, r := range runnable {
				if r == prev {
					return prev
				}
			}
		}
		prev = inner(s, runnable)
		return prev
	}
}

// c12CoarseTargets: the protocol points at which the coarse mode pre-empts.
var c12CoarseTargets = []string{"y:unlock.shared.beforeDelete", "y:dotx.locked", "y:dotx.beforeWrite", "y:critical",
	"y:dotx.beforePublish", "y:trylock.shared.beforeAdd", "y:trylock.first.beforeAdd", "y:unlock.key", "done"}

func c12Iota(n int) []int {
	out := make([]int, n)
	for i := range out {
		out[i] = i
	}
	return out
}

// c12Dir is one directive of a hand-written schedule: run thread T until it reports Until
// ("y:<point>", "done").
type c12Dir struct {
	T     int
	Until string
}

// c12DirPicker turns directives into a picker (witnesses); afterwards the lowest thread runs.
func c12DirPicker(dirs []c12Dir) c12Picker {
	i := 0
	ran := false
	return func(s *hx.Sched, runnable []int) int {
		for i < len(dirs) {
			d := dirs[i]
			if s.Done(d.T) || (ran && s.Last(d.T) == d.Until) {
				i++
				ran = false
				continue
			}
			ran = true
			return d.T
		}
		return runnable[0]
	}
}

// c12RegionsOverlap implements the non-triviality rule: two threads that share a lock key were
// inside their lock-protocol regions (first "trylock.key" .. last "unlock.key") at the same time,
// i.e. at least one context switch happened inside a region.
func c12RegionsOverlap(steps []hx.SchedStep, nthreads int, share func(a, b int) bool) bool {
	first := make([]int, nthreads)
	last := make([]int, nthreads)
	for i := range first {
		first[i], last[i] = -1, -1
	}
	pendingUnlock := make([]bool, nthreads)
	for i, st := range steps {
		if st.T >= nthreads {
			continue
		}
		if pendingUnlock[st.T] {
			last[st.T] = i // this step executed the release announced by the previous report
			pendingUnlock[st.T] = false
		}
		if st.P == "y:trylock.key" && first[st.T] < 0 {
			first[st.T] = i
		}
		if st.P == "y:unlock.key" || st.P == "y:unlock.shared.beforeDelete" {
			pendingUnlock[st.T] = true
		}
	}
	for a := 0; a < nthreads; a++ {
		for b := a + 1; b < nthreads; b++ {
			if first[a] < 0 || first[b] < 0 || last[a] < 0 || last[b] < 0 || !share(a, b) {
				continue
			}
			if first[a] < last[b] && first[b] < last[a] {
				return true
			}
		}
	}
	return false
}

// c12Outcome is the result of one interpreted schedule.
type c12Outcome struct {
	Steps      []hx.SchedStep
	Err        error // oracle violation
	Wedged     bool  // harness problem: inconclusive
	OverBudget bool  // step budget exceeded (case is discarded)
	NT         bool
	Labels     []string
	SerialNote string // Part B: the model comparison failed but a serial order reproduces the result
}

func (o *c12Outcome) label(l string) { o.Labels = append(o.Labels, l) }

// ---------------------------------------------------------------------------------------------
// Part A: SpinLock alone
// ---------------------------------------------------------------------------------------------

// c12LK is one lock request of a thread: key + mode (X = exclusive, else shared).
type c12LK struct {
	K string `json:"k"`
	X bool   `json:"x,omitempty"`
}

// c12LockThread locks its keys all-or-fail, holds them over one scheduling point, unlocks; Rounds times.
type c12LockThread struct {
	Keys   []c12LK `json:"keys"`
	Rounds int     `json:"rounds"`
}

// c12LockTrace: scenario + schedule (thread index per step).
type c12LockTrace struct {
	Threads []c12LockThread `json:"threads"`
	Sched   []int           `json:"sched"`
}

const c12Bucket = "b"

// c12LockTx is the synthetic transaction whose lock keys are exactly the thread's keys: read keys
// are shared unless also written; a distinct txid and no outputs, so no other keys.
func c12LockTx(tid int, keys []c12LK) *pb.Transaction {
	tx := &pb.Transaction{Txid: []byte(fmt.Sprintf("c12-thread-%d", tid))}
	for _, k := range keys {
		tx.TxInputsExt = append(tx.TxInputsExt, &protos.TxInputExt{Bucket: c12Bucket, Key: []byte(k.K)})
		if k.X {
			tx.TxOutputsExt = append(tx.TxOutputsExt, &protos.TxOutputExt{Bucket: c12Bucket, Key: []byte(k.K), Value: []byte("v")})
		}
	}
	return tx
}

// c12LockShape: the scenario half of the trigger of finding C12-spinlock-release-delete-window - some
// key is locked in shared mode by >= 2 threads while another thread locks it exclusively. The other
// half is a schedule that pre-empts a thread at one of c12WindowPoints. While the finding is active
// such scenarios are still generated, but their schedules go through c12NoWindowPreempt.
func c12LockShape(threads []c12LockThread) (string, bool) {
	sh := map[string]map[int]bool{}
	ex := map[string]map[int]bool{}
	for i, th := range threads {
		for _, k := range th.Keys {
			m := sh
			if k.X {
				m = ex
			}
			if m[k.K] == nil {
				m[k.K] = map[int]bool{}
			}
			m[k.K][i] = true
		}
	}
	var keys []string
	for k := range sh {
		keys = append(keys, k)
	}
	sort.Strings(keys)
	for _, k := range keys {
		// a thread naming the key in both modes locks it exclusively (ExtractLockKeys)
		n := 0
		for t := range sh[k] {
			if !ex[k][t] {
				n++
			}
		}
		if n >= 2 && len(ex[k]) >= 1 {
			return k, true
		}
	}
	return "", false
}

// c12NormKeys: one entry per key, exclusive wins (what ExtractLockKeys makes of the transaction).
func c12NormKeys(keys []c12LK) []c12LK {
	m := map[string]bool{}
	for _, k := range keys {
		m[k.K] = m[k.K] || k.X
	}
	var out []c12LK
	for k, x := range m {
		out = append(out, c12LK{k, x})
	}
	sort.Slice(out, func(i, j int) bool { return out[i].K < out[j].K })
	return out
}

// c12LockExec interprets one Part A schedule with the oracle of the lock table's contract.
func c12LockExec(threads []c12LockThread, pick c12Picker) c12Outcome {
	var out c12Outcome
	sp := utxo.NewSpinLock()
	sch := hx.NewSched()
	type hold struct {
		tid  int
		excl bool
	}
	holders := map[string][]hold{}
	violation := ""
	norm := make([][]c12LK, len(threads))
	named := map[string]int{} // key -> number of threads naming it
	for i, th := range threads {
		norm[i] = c12NormKeys(th.Keys)
		for _, k := range norm[i] {
			named[k.K]++
		}
	}
	okCount := make([]int, len(threads))
	failCount := make([]int, len(threads))
	for i := range threads {
		tid := i
		th := threads[i]
		tx := c12LockTx(tid, th.Keys)
		sch.Spawn(func() {
			for r := 0; r < th.Rounds; r++ {
				func() {
					keys := sp.ExtractLockKeys(tx)
					got, ok := sp.TryLock(keys)
					defer sp.Unlock(got) // exactly as doTxSync: unlock what was locked even when !ok
					if !ok {
						failCount[tid]++
						return
					}
					okCount[tid]++
					for _, k := range norm[tid] {
						for _, h := range holders[k.K] {
							if (h.excl || k.X) && violation == "" {
								violation = fmt.Sprintf("key %s/%s is held by T%d (%s) and T%d (%s) at the same time", c12Bucket, k.K, h.tid, c12Mode(h.excl), tid, c12Mode(k.X))
							}
						}
						holders[k.K] = append(holders[k.K], hold{tid, k.X})
					}
					sch.Yield("critical")
					for _, k := range norm[tid] {
						hs := holders[k.K]
						for j, h := range hs {
							if h.tid == tid {
								holders[k.K] = append(hs[:j:j], hs[j+1:]...)
								break
							}
						}
					}
				}()
			}
		})
	}
	verifhook.SetYield(sch.Yield)
	res := sch.Run(func(r []int) int { return pick(sch, r) }, c12MaxSteps)
	verifhook.SetYield(nil)
	out.Steps = sch.Steps
	out.Wedged = res.Wedged
	out.OverBudget = res.OverBudget
	if res.Wedged {
		return out
	}
	desc := func() string { return "schedule: " + hx.FormatSteps(sch.Steps) }
	for i, p := range res.Panics {
		if p != "" {
			out.Err = fmt.Errorf("T%d panicked: %s; %s", i, p, desc())
			return out
		}
	}
	if res.Deadlock || res.NoTermination {
		out.Err = fmt.Errorf("lock table requests do not terminate (deadlock=%v %v); %s", res.Deadlock, res.Waiting, desc())
		return out
	}
	if violation != "" {
		out.Err = fmt.Errorf("mutual exclusion violated: %s; %s", violation, desc())
		return out
	}
	var ks []string
	for k := range named {
		ks = append(ks, k)
	}
	sort.Strings(ks)
	for _, k := range ks {
		if sp.IsLocked(c12Bucket + "/" + k) {
			out.Err = fmt.Errorf("key %s/%s is still locked after every thread has unlocked; %s", c12Bucket, k, desc())
			return out
		}
	}
	contended := false
	for i := range threads {
		alone := true
		for _, k := range norm[i] {
			if named[k.K] > 1 {
				alone = false
			}
		}
		if alone && failCount[i] > 0 {
			out.Err = fmt.Errorf("T%d failed to lock although no other thread names any of its keys; %s", i, desc())
			return out
		}
		if failCount[i] > 0 {
			contended = true
		}
	}
	if contended {
		out.label("trylock-refused")
	}
	share := func(a, b int) bool {
		for _, x := range norm[a] {
			for _, y := range norm[b] {
				if x.K == y.K {
					return true
				}
			}
		}
		return false
	}
	out.NT = c12RegionsOverlap(sch.Steps, len(threads), share)
	return out
}

func c12Mode(x bool) string {
	if x {
		return "exclusive"
	}
	return "shared"
}

// runC12Lock: plain interpreter of a Part A trace (replays, witnesses).
func runC12Lock(tr c12LockTrace) error {
	if len(tr.Threads) == 0 {
		return fmt.Errorf("empty scenario")
	}
	for _, th := range tr.Threads {
		if th.Rounds < 1 || th.Rounds > 4 || len(th.Keys) == 0 {
			return fmt.Errorf("bad scenario")
		}
	}
	out := c12LockExec(tr.Threads, c12ReplayPicker(tr.Sched))
	if out.Wedged {
		return fmt.Errorf("harness wedged (inconclusive)")
	}
	return out.Err
}

// c12GenLockScenario draws 2-4 threads over a 1-3 key universe; single-key reader/writer mixes of
// 3-4 threads are frequent.
func c12GenLockScenario(cs *hx.Case) []c12LockThread {
	rt := cs.RT()
	n := rapid.IntRange(2, 4).Draw(rt, "threads")
	univ := rapid.IntRange(1, 3).Draw(rt, "universe")
	var ths []c12LockThread
	for i := 0; i < n; i++ {
		th := c12LockThread{Rounds: rapid.SampledFrom([]int{1, 1, 2}).Draw(rt, "rounds")}
		for k := 0; k < univ; k++ {
			// key 0 is named by nearly everybody
			if k == 0 && rapid.IntRange(0, 9).Draw(rt, "use0") < 9 || k > 0 && rapid.Bool().Draw(rt, "use") {
				th.Keys = append(th.Keys, c12LK{K: fmt.Sprintf("k%d", k), X: rapid.IntRange(0, 9).Draw(rt, "excl") < 4})
			}
		}
		if len(th.Keys) == 0 {
			th.Keys = []c12LK{{K: "k0", X: rapid.Bool().Draw(rt, "excl0")}}
		}
		ths = append(ths, th)
	}
	return ths
}

func c12LockLabels(ths []c12LockThread) []string {
	var ls []string
	ls = append(ls, fmt.Sprintf("lock-threads-%d", len(ths)))
	sh, ex := map[string]int{}, map[string]int{}
	for _, th := range ths {
		for _, k := range c12NormKeys(th.Keys) {
			if k.X {
				ex[k.K]++
			} else {
				sh[k.K]++
			}
		}
	}
	has := map[string]bool{}
	for k := range sh {
		if sh[k] >= 2 {
			has["lock-read-read"] = true
		}
		if sh[k] >= 1 && ex[k] >= 1 {
			has["lock-read-write"] = true
		}
		if sh[k] >= 2 && ex[k] >= 1 {
			has["lock-2readers+writer"] = true
		}
	}
	for k := range ex {
		if ex[k] >= 2 {
			has["lock-write-write"] = true
		}
	}
	for l := range has {
		ls = append(ls, l)
	}
	sort.Strings(ls)
	return ls
}

// c12EnumLock enumerates every schedule of a Part A scenario (stateless depth-first search: re-run
// with the longest unexplored prefix, lowest thread first) and hands each outcome to visit.
func c12EnumLock(ths []c12LockThread, wrap func(c12Picker) c12Picker, visit func(out c12Outcome) bool) int {
	n := 0
	var prefix []int
	for {
		var choices []int
		var runnables [][]int
		inner := func(s *hx.Sched, runnable []int) int {
			c := runnable[0]
			if len(choices) < len(prefix) {
				c = prefix[len(choices)]
			}
			choices = append(choices, c)
			runnables = append(runnables, append([]int{}, runnable...))
			return c
		}
		var pick c12Picker = inner
		if wrap != nil {
			pick = wrap(inner)
		}
		out := c12LockExec(ths, pick)
		n++
		if !visit(out) {
			return n
		}
		i := len(choices) - 1
		for ; i >= 0; i-- {
			next := -1
			for _, r := range runnables[i] {
				if r > choices[i] {
					next = r
					break
				}
			}
			if next >= 0 {
				prefix = append(append([]int{}, choices[:i]...), next)
				break
			}
		}
		if i < 0 {
			return n
		}
	}
}

// c12KeySetVariants: every non-empty key set over the universe with every mode assignment.
func c12KeySetVariants(univ []string) [][]c12LK {
	var out [][]c12LK
	var rec func(i int, acc []c12LK)
	rec = func(i int, acc []c12LK) {
		if i == len(univ) {
			if len(acc) > 0 {
				out = append(out, append([]c12LK{}, acc...))
			}
			return
		}
		rec(i+1, acc)
		rec(i+1, append(acc, c12LK{K: univ[i]}))
		rec(i+1, append(acc, c12LK{K: univ[i], X: true}))
	}
	rec(0, nil)
	return out
}

// c12ExhaustiveLock: every schedule of every 2-thread scenario over the universe (one round each).
func c12ExhaustiveLock(t *testing.T, c *hx.Collector, univ []string, shard, shards int) (scenarios, schedules int) {
	vs := c12KeySetVariants(univ)
	idx := 0
	for _, a := range vs {
		for _, b := range vs {
			idx++
			if idx%shards != shard%shards {
				continue
			}
			ths := []c12LockThread{{Keys: a, Rounds: 1}, {Keys: b, Rounds: 1}}
			labels := c12LockLabels(ths)
			scenarios++
			schedules += c12EnumLock(ths, nil, func(out c12Outcome) bool {
				tr := c12LockTrace{Threads: ths, Sched: c12SchedOf(out.Steps)}
				if out.Wedged {
					t.Fatalf("harness wedged (inconclusive)")
				}
				if out.Err != nil {
					c.Violate("spinlock-schedules", out.Err.Error(), tr)
					t.Errorf("exhaustive enumeration: %v", out.Err)
					return false
				}
				c.Count(tr, out.NT, append([]string{"lock-exhaustive"}, labels...)...)
				return true
			})
		}
	}
	return
}

// c12LockWitness: the shrunk schedule of the release/delete window.
//
//	T1 (reader) locks, leaves its critical section, unlock: Release()==0, parks before m.Delete
//	T2 (reader) locks: finds the shared entry, count 1 - holds the key
//	T1 deletes the map entry
//	T0 (writer) locks: no entry -> succeeds while T2 still holds the key shared
func c12LockWitness() (c12LockTrace, error) {
	tr := c12LockTrace{Threads: []c12LockThread{
		{Keys: []c12LK{{K: "k0", X: true}}, Rounds: 1},
		{Keys: []c12LK{{K: "k0"}}, Rounds: 1},
		{Keys: []c12LK{{K: "k0"}}, Rounds: 1},
	}}
	out := c12LockExec(tr.Threads, c12DirPicker([]c12Dir{
		{1, "y:unlock.shared.beforeDelete"}, {2, "y:critical"}, {1, "done"}, {0, "done"}, {2, "done"}}))
	for _, st := range out.Steps {
		tr.Sched = append(tr.Sched, st.T)
	}
	if out.Wedged {
		return tr, fmt.Errorf("harness wedged (inconclusive)")
	}
	return tr, out.Err
}

// ---------------------------------------------------------------------------------------------
// Part B: the real state machine
// ---------------------------------------------------------------------------------------------

// c12Req is one concurrent request.
type c12Req struct {
	Kind string     `json:"kind"`         // dotx | select | play
	Tx   *hx.TxSpec `json:"tx,omitempty"` // dotx: assembled against the model state before the concurrent phase
	Addr int        `json:"addr,omitempty"`
	Need string     `json:"need,omitempty"`
	// BySize (select): the selection goes through SelectUtxosBySize (as many unlocked outputs as fit into half a block,
	// with locking) instead of SelectUtxos
	BySize bool `json:"bysize,omitempty"`
	// Exclude (select, not by size): only outputs of confirmed transactions may be selected (excludeUnconfirmed)
	Exclude bool `json:"exclude,omitempty"`
	Block   int  `json:"block,omitempty"` // play: model block index (confirmed, child of the pointer, not played)
}

// c12StateTrace: sequential prefix, concurrent requests, schedule.
type c12StateTrace struct {
	Prefix []hx.NOp `json:"prefix,omitempty"`
	Reqs   []c12Req `json:"reqs,omitempty"`
	Sched  []int    `json:"sched,omitempty"`
}

type c12ReqRun struct {
	tx       *pb.Transaction // dotx: pristine transaction
	skip     string          // not submitted: why
	keys     map[string]bool // dotx: lock keys -> exclusive
	err      error           // dotx / play result
	ins      []*protos.TxInput
	lockKeys [][]byte
	total    *big.Int
	finished bool
}

// c12ValidOrder searches an order in which all transactions apply validly on base.
func c12ValidOrder(base *hx.MState, txs []*pb.Transaction, h int64) ([]*pb.Transaction, bool) {
	if len(txs) == 0 {
		return nil, true
	}
	budget := 50000
	var rec func(s *hx.MState, rest, acc []*pb.Transaction) ([]*pb.Transaction, bool)
	rec = func(s *hx.MState, rest, acc []*pb.Transaction) ([]*pb.Transaction, bool) {
		if len(rest) == 0 {
			return acc, true
		}
		for i, t := range rest {
			budget--
			if budget < 0 {
				return nil, false
			}
			if s.Check(t, h) != nil {
				continue
			}
			ns := s.Clone()
			ns.Apply(t, "")
			nr := append(append([]*pb.Transaction{}, rest[:i]...), rest[i+1:]...)
			if r, ok := rec(ns, nr, append(append([]*pb.Transaction{}, acc...), t)); ok {
				return r, true
			}
		}
		return nil, false
	}
	r, ok := rec(base, txs, nil)
	if !ok && budget < 0 {
		return nil, true // search budget exhausted: no verdict (cannot happen for <= 4 + small pools)
	}
	return r, ok
}

// c12BlockApplies: do the block's non-coinbase transactions apply validly, in order, on s?
func c12BlockApplies(s *hx.MState, txs []*pb.Transaction, h int64) bool {
	s = s.Clone()
	for _, tx := range txs {
		if tx.Coinbase {
			continue
		}
		if s.Check(tx, h) != nil {
			return false
		}
		s.Apply(tx, "")
	}
	return true
}

func c12TxIDs(txs []*pb.Transaction) string {
	var ss []string
	for _, t := range txs {
		ss = append(ss, hx.Hex8(t.Txid))
	}
	return "[" + strings.Join(ss, " ") + "]"
}

// c12TxKeys: lock keys of a transaction as the real ExtractLockKeys computes them.
func c12TxKeys(tx *pb.Transaction) map[string]bool {
	out := map[string]bool{}
	for _, lk := range utxo.NewSpinLock().ExtractLockKeys(tx) {
		s := lk.String()
		out[s[:len(s)-2]] = strings.HasSuffix(s, ":X")
	}
	return out
}

// c12StateShape: the scenario half of the finding's trigger at the state level - some key is read
// (shared lock) by >= 2 of the concurrently submitted transactions and written (exclusive lock) by
// >= 2 of them. (Two readers and one writer only let a reader and the writer overlap, which is
// serialisable: the reader goes first; the end-state oracle needs two overlapping writers.) The same
// transaction submitted twice counts twice. Part B keeps such scenarios and routes their schedules
// through c12NoWindowPreempt; Part C (no scheduler) does not emit them while the finding is active.
func c12StateShape(keysets []map[string]bool) (string, bool) {
	sh, ex := map[string]int{}, map[string]int{}
	for _, ks := range keysets {
		for k, x := range ks {
			if x {
				ex[k]++
			} else {
				sh[k]++
			}
		}
	}
	var keys []string
	for k := range sh {
		keys = append(keys, k)
	}
	sort.Strings(keys)
	for _, k := range keys {
		if sh[k] >= 2 && ex[k] >= 2 {
			return k, true
		}
	}
	return "", false
}

// c12Env is the prepared concurrent phase: every request assembled against the same model state.
type c12Env struct {
	nm       *hx.NodeMachine
	reqs     []c12Req
	runs     []*c12ReqRun
	s        *hx.MState // model state before the concurrent phase (pointer state + pending)
	h        int64      // ledger height
	oldPool  []*pb.Transaction
	playReq  int
	A        []*pb.Transaction // admitted (set by modelOracle)
	admitted map[string]bool
}

// c12Prepare assembles the requests on the node machine's current model state and verifies the
// transactions (sequentially: VerifyTx is not part of the lock protocol).
func c12Prepare(nm *hx.NodeMachine, reqs []c12Req) *c12Env {
	m := nm.LM.M
	e := &c12Env{nm: nm, reqs: reqs, s: nm.PoolState(), h: m.Blocks[m.Tip].Height,
		oldPool: append([]*pb.Transaction{}, nm.Pool...), playReq: -1}
	e.runs = make([]*c12ReqRun, len(reqs))
	for i, rq := range reqs {
		r := &c12ReqRun{}
		e.runs[i] = r
		switch rq.Kind {
		case "dotx":
			if rq.Tx == nil {
				r.skip = "no-spec"
				continue
			}
			spec := *rq.Tx
			tx, _ := nm.BuildOnModel(&spec, e.s)
			if tx == nil {
				r.skip = "preexec-failed"
				continue
			}
			if tx.Coinbase {
				r.skip = "coinbase"
				continue
			}
			if ok, verr := nm.N.State.VerifyTx(hx.CloneTx(tx)); !ok || verr != nil {
				r.skip = "verify-refused"
				continue
			}
			r.tx = tx
			r.keys = c12TxKeys(tx)
		case "select":
			if rq.Addr < 0 || rq.Addr >= hx.RingSize {
				r.skip = "bad-addr"
				continue
			}
			if n, ok := new(big.Int).SetString(rq.Need, 10); !ok || n.Sign() <= 0 {
				r.skip = "bad-need"
			}
		case "play":
			b := rq.Block
			if nm.Window != 0 {
				r.skip = "play-needs-window-0" // the play bookkeeping below mirrors the node machine's for window 0 only
				continue
			}
			if e.playReq >= 0 || b <= 0 || b >= len(m.Blocks) || !m.Blocks[b].Stored || m.Blocks[b].Parent != nm.Ptr || !nm.Valid[b] || nm.States[b] == nil {
				r.skip = "bad-block"
				continue
			}
			e.playReq = i
		default:
			r.skip = "unknown-kind"
		}
	}
	return e
}

// body returns the function that performs request i against the real state machine.
func (e *c12Env) body(i int) func() {
	rq, r := e.reqs[i], e.runs[i]
	st := e.nm.N.State
	switch {
	case r.skip != "":
		return func() { r.finished = true }
	case rq.Kind == "dotx":
		sub := hx.CloneTx(r.tx)
		return func() {
			r.err = st.DoTx(sub)
			r.finished = true
		}
	case rq.Kind == "select":
		need, _ := new(big.Int).SetString(rq.Need, 10)
		addr := hx.Ring[rq.Addr].Address
		if rq.BySize {
			return func() {
				r.ins, r.lockKeys, r.total, r.err = st.SelectUtxosBySize(addr, true, false)
				r.finished = true
			}
		}
		return func() {
			r.ins, r.lockKeys, r.total, r.err = st.SelectUtxos(addr, need, true, rq.Exclude)
			r.finished = true
		}
	default:
		id := e.nm.LM.M.Blocks[rq.Block].ID
		return func() {
			r.err = st.PlayAndRepost(id, false, false)
			r.finished = true
		}
	}
}

// c12Result is what the requests left behind, in a form comparable between nodes.
type c12Result struct {
	Admitted string // sorted txids whose DoTx returned nil (with multiplicity)
	Played   string
	Obs      map[string]string
	Pool     string
	Obs2     map[string]string // after reopen
	Pool2    string
}

func (e *c12Env) rawKeys() []string {
	ks := make([]string, 0, len(e.nm.KeyUniv))
	for k := range e.nm.KeyUniv {
		ks = append(ks, k)
	}
	sort.Strings(ks)
	return ks
}

func (e *c12Env) observe() (map[string]string, string) {
	obs := hx.ObserveState(e.nm.N, e.nm.AddrUniv, e.rawKeys())
	cur, err := e.nm.N.State.GetUnconfirmedTx(false)
	var ids []string
	for _, t := range cur {
		ids = append(ids, hx.Hex8(t.Txid))
	}
	sort.Strings(ids)
	pool := strings.Join(ids, ",")
	if err != nil {
		pool = "err:" + err.Error()
	}
	return obs, pool
}

// collect gathers the result (it reopens the node: memory == disk is part of the result).
func (e *c12Env) collect() (*c12Result, error) {
	res := &c12Result{}
	var ids []string
	for i, r := range e.runs {
		if e.reqs[i].Kind == "dotx" && r.skip == "" && r.err == nil {
			ids = append(ids, hx.Hex8(r.tx.Txid))
		}
	}
	sort.Strings(ids)
	res.Admitted = strings.Join(ids, ",")
	res.Played = fmt.Sprint(e.playReq >= 0 && e.runs[e.playReq].err == nil)
	res.Obs, res.Pool = e.observe()
	if err := e.nm.N.Reopen(); err != nil {
		return res, fmt.Errorf("reopen: %v", err)
	}
	res.Obs2, res.Pool2 = e.observe()
	return res, nil
}

// equal: same admissions, same play verdict, same pool, same state. The state pointer is compared through Played, not
// as a block id: a block the prefix mined on the replica may order independent pool transactions differently (the
// pool's topological sort follows map iteration), which changes its id and the id of every block built on it.
func (a *c12Result) equal(b *c12Result) bool {
	strip := func(m map[string]string) map[string]string {
		out := make(map[string]string, len(m))
		for k, v := range m {
			if k != "pointer" {
				out[k] = v
			}
		}
		return out
	}
	return a.Admitted == b.Admitted && a.Played == b.Played && a.Pool == b.Pool && a.Pool2 == b.Pool2 &&
		hx.DiffObs(strip(a.Obs), strip(b.Obs)) == "" && hx.DiffObs(strip(a.Obs2), strip(b.Obs2)) == ""
}

// c12SerialExplains: is there a one-at-a-time order of the same requests that leaves, on a replica
// that went through the same sequential prefix, exactly the result the concurrent run left? This
// is the statement itself; it is consulted when the (cheaper, stronger) model comparison fails, so
// that a defect of the sequential code - which a one-at-a-time order reproduces - is not blamed on
// the interleaving.
func c12SerialExplains(prefix []hx.NOp, reqs []c12Req, resub []int, got *c12Result, fs *hx.FindingSet) (bool, []int) {
	var found []int
	var perm func(acc []int, used uint)
	perm = func(acc []int, used uint) {
		if found != nil {
			return
		}
		if len(acc) == len(reqs) {
			nm, err := hx.NewNodeMachine(hx.DefaultOpts(), fs)
			if err != nil {
				return
			}
			defer nm.Close()
			for _, op := range prefix {
				nm.Apply(op)
			}
			e := c12Prepare(nm, reqs)
			for _, i := range acc {
				e.body(i)()
			}
			hx.WaitAsync()
			for _, i := range resub {
				if e.runs[i].tx != nil {
					nm.N.State.DoTx(hx.CloneTx(e.runs[i].tx))
				}
			}
			res, err := e.collect()
			if err == nil && res.equal(got) {
				found = append([]int{}, acc...)
			} else if os.Getenv("C12_DEBUG") != "" {
				fmt.Fprintf(os.Stderr, "C12_DEBUG serial %v: err=%v admitted %q/%q played %s/%s pool %q/%q pool2 %q/%q obs %s obs2 %s\n", acc, err, res.Admitted, got.Admitted, res.Played, got.Played, res.Pool, got.Pool, res.Pool2, got.Pool2, hx.DiffObs(res.Obs, got.Obs), hx.DiffObs(res.Obs2, got.Obs2))
			}
			return
		}
		for i := range reqs {
			if used&(1<<uint(i)) == 0 {
				perm(append(acc, i), used|1<<uint(i))
			}
		}
	}
	perm(nil, 0)
	return found != nil, found
}

// c12Concurrent runs the concurrent phase on a prepared node machine (state pointer = parent of the
// optional play block, every request assembled against the same model state) and applies the
// end-state oracle. prefix (the operations that built the node) enables the serial-replica check.
func c12Concurrent(nm *hx.NodeMachine, prefix []hx.NOp, reqs []c12Req, pick c12Picker, fs *hx.FindingSet) c12Outcome {
	var out c12Outcome
	fail := func(format string, args ...interface{}) c12Outcome {
		out.Err = fmt.Errorf(format+"; schedule: %s", append(args, hx.FormatSteps(out.Steps))...)
		return out
	}
	e := c12Prepare(nm, reqs)
	runs := e.runs
	for _, r := range runs {
		if r.skip != "" {
			out.label("not-submitted:" + r.skip)
		}
	}
	sch := hx.NewSched()
	for i := range reqs {
		sch.Spawn(e.body(i))
	}
	verifhook.SetYield(sch.Yield)
	verifhook.SetBeforeLock(sch.BeforeLock)
	res := sch.Run(func(r []int) int { return pick(sch, r) }, c12MaxSteps)
	verifhook.SetYield(nil)
	verifhook.SetBeforeLock(nil)
	out.Steps = sch.Steps
	out.Wedged = res.Wedged
	out.OverBudget = res.OverBudget
	if res.Wedged {
		return out
	}
	for i, p := range res.Panics {
		if p != "" {
			return fail("request %d (%s) panicked: %s", i, reqs[i].Kind, p)
		}
	}
	if res.Deadlock {
		return fail("deadlock: %v", res.Waiting)
	}
	if res.NoTermination {
		return fail("a request does not terminate")
	}
	hx.WaitAsync()
	for i, r := range runs {
		if !r.finished {
			return fail("request %d did not finish", i)
		}
	}
	share := func(a, b int) bool {
		for k := range runs[a].keys {
			if _, ok := runs[b].keys[k]; ok {
				return true
			}
		}
		return false
	}
	out.NT = c12RegionsOverlap(sch.Steps, len(reqs), share)

	e.judge(&out, prefix, fs, false)
	if out.Err != nil {
		out.Err = fmt.Errorf("%v; schedule: %s", out.Err, hx.FormatSteps(out.Steps))
	}
	return out
}

// c12RaceRun runs the requests as real goroutines (no scheduler, no hooks) and applies the same
// end-state oracle (Part C, meant for a -race binary).
func c12RaceRun(nm *hx.NodeMachine, prefix []hx.NOp, reqs []c12Req, fs *hx.FindingSet) c12Outcome {
	var out c12Outcome
	e := c12Prepare(nm, reqs)
	start := make(chan struct{})
	var wg sync.WaitGroup
	panics := make([]string, len(reqs))
	for i := range reqs {
		i := i
		body := e.body(i)
		wg.Add(1)
		go func() {
			defer wg.Done()
			defer func() {
				if r := recover(); r != nil {
					panics[i] = fmt.Sprintf("%v\n%s", r, debug.Stack())
				}
			}()
			<-start
			body()
		}()
	}
	close(start)
	done := make(chan struct{})
	go func() { wg.Wait(); close(done) }()
	select {
	case <-done:
	case <-time.After(90 * time.Second):
		out.Wedged = true
		return out
	}
	for i, p := range panics {
		if p != "" {
			out.Err = fmt.Errorf("request %d (%s) panicked: %s", i, reqs[i].Kind, p)
			return out
		}
	}
	hx.WaitAsync()
	e.judge(&out, prefix, fs, true)
	return out
}

// checkState compares the live node with model + pool. While outputs are still locked by a locking
// selection of this phase (60 s), the node machine's own CheckState cannot be used - it probes
// SelectUtxos without locking, which skips locked outputs - so the observables (pointer, total,
// balances, UTXO table, key versions) and the pool set are compared directly; after the reopen that
// ends every case the locks are gone and the full CheckState runs.
func (e *c12Env) checkState() error {
	nm := e.nm
	locked := false
	for i, r := range e.runs {
		if e.reqs[i].Kind == "select" && r.skip == "" && r.err == nil && len(r.lockKeys) > 0 {
			locked = true
		}
	}
	if !locked {
		return nm.CheckState()
	}
	m := nm.LM.M
	want := hx.ExpectedObs(nm.PoolState(), m.Blocks[nm.Ptr].ID, nm.AddrUniv, e.rawKeys(), e.h)
	got := hx.ObserveState(nm.N, nm.AddrUniv, e.rawKeys())
	delete(got, "meta")
	if d := hx.DiffObs(want, got); d != "" {
		return fmt.Errorf("state observables differ from the model at %s with %d pending (model -> node): %s", m.Blocks[nm.Ptr].Label, len(nm.Pool), d)
	}
	cur, err := nm.N.State.GetUnconfirmedTx(false)
	if err != nil {
		return fmt.Errorf("GetUnconfirmedTx: %v", err)
	}
	wantIDs := map[string]bool{}
	for _, t := range nm.Pool {
		wantIDs[string(t.Txid)] = true
	}
	seen := map[string]bool{}
	for _, t := range cur {
		if !wantIDs[string(t.Txid)] || seen[string(t.Txid)] {
			return fmt.Errorf("the pool yields %s which the model does not have pending (or twice); model pool %s", hx.Hex8(t.Txid), c12TxIDs(nm.Pool))
		}
		seen[string(t.Txid)] = true
	}
	if len(seen) != len(wantIDs) {
		return fmt.Errorf("the pool yields %d transactions, the model has %d pending %s", len(seen), len(wantIDs), c12TxIDs(nm.Pool))
	}
	return nil
}

// judge applies the end-state oracle after all requests have finished. race = the requests ran as
// real goroutines (no scheduler): SelectUtxos is then not an atomic step.
func (e *c12Env) judge(outp *c12Outcome, prefix []hx.NOp, fs *hx.FindingSet, race bool) {
	nm, reqs, runs := e.nm, e.reqs, e.runs
	fail := func(format string, args ...interface{}) {
		outp.Err = fmt.Errorf(format, args...)
	}
	out := outp
	var resub []int // refused transactions resubmitted after quiescence
	merr := e.modelOracle(out)
	serr := e.selectorOracle(out, merr == nil, race)
	if merr == nil && serr == nil {
		// quiescence: every lock taken by a finished request has been given back, so a refused
		// transaction that is (still) valid on the resulting state is admitted when submitted alone
		// (a lock that leaked would refuse it for ever: the requests it blocks never proceed)
		for i, r := range runs {
			if reqs[i].Kind != "dotx" || r.skip != "" || r.err == nil {
				continue
			}
			already := false
			for _, t := range nm.Pool {
				if bytes.Equal(t.Txid, r.tx.Txid) {
					already = true
				}
			}
			if already || nm.PoolState().Check(r.tx, e.h) != nil {
				continue
			}
			if err := nm.N.State.DoTx(hx.CloneTx(r.tx)); err != nil {
				fail("after all requests had finished, transaction %s (refused during the concurrent phase with %v) is valid on the resulting state but DoTx refuses it: %v (lock keys %v)", hx.Hex8(r.tx.Txid), r.err, err, c12KeyList(r.keys))
				return
			}
			nm.Pool = append(nm.Pool, r.tx)
			resub = append(resub, i)
			out.label("resubmitted-after-quiescence")
		}
		if err := e.checkState(); err != nil {
			fail("after resubmitting refused transactions: %v", err)
			return
		}
	}
	got, cerr := e.collect() // reopens the node
	if cerr != nil {
		fail("%v", cerr)
		return
	}
	if merr == nil {
		if err := nm.CheckState(); err != nil {
			merr = fmt.Errorf("after reopen (memory != disk): %v", err)
		}
	}
	if merr != nil {
		if ok, order := c12SerialExplains(prefix, reqs, resub, got, fs); ok && os.Getenv("C12_NO_SERIAL_CHECK") != "1" { // (env: development aid)
			// the sequential code itself deviates from the model here; the concurrent run did what
			// a one-at-a-time order does, which is all C12 claims
			out.label("model-mismatch-reproduced-by-serial-order(not-C12)")
			out.SerialNote = fmt.Sprintf("serial order %v of the same requests leaves the same result; model comparison said: %v", order, merr)
		} else {
			fail("%v", merr)
			return
		}
	}
	if serr != nil {
		fail("%v", serr)
		return
	}
}

// modelOracle compares the result with the reference model: the admitted set applies in some
// one-at-a-time order, every observable equals model + admitted set, a play evicts only what it may.
func (e *c12Env) modelOracle(out *c12Outcome) error {
	nm, reqs, runs, s, h, oldPool, playReq := e.nm, e.reqs, e.runs, e.s, e.h, e.oldPool, e.playReq
	m := nm.LM.M
	st := nm.N.State
	var A []*pb.Transaction
	admitted := map[string]bool{}
	refused := 0
	for i, r := range runs {
		if reqs[i].Kind != "dotx" || r.skip != "" {
			continue
		}
		if r.err != nil {
			refused++
			continue
		}
		if admitted[string(r.tx.Txid)] {
			if len(r.keys) == 0 {
				// a transaction without inputs, outputs and keys has no lock keys and no effect: two
				// interleaved submissions both return nil and leave what one submission leaves (such
				// a transaction never passes Chain.SubmitTx on a chain with fees; not generated)
				out.label("keyless-tx-two-nil-returns")
				continue
			}
			if playReq >= 0 && runs[playReq].err == nil {
				// legal one-at-a-time order: DoTx, the play evicts the transaction, DoTx again
				out.label("admitted-evicted-admitted-again")
				continue
			}
			return fmt.Errorf("transaction %s was admitted twice (two DoTx calls of the same transaction returned nil)", hx.Hex8(r.tx.Txid))
		}
		admitted[string(r.tx.Txid)] = true
		A = append(A, r.tx)
	}
	e.A, e.admitted = A, admitted
	if refused > 0 {
		out.label("dotx-refused")
	}
	if len(A) >= 2 {
		out.label("dotx-admitted>=2")
	}
	played := playReq >= 0 && runs[playReq].err == nil
	if !played {
		order, ok := c12ValidOrder(s, A, h)
		if !ok {
			var ds []string
			for _, t := range A {
				ds = append(ds, hx.Hex8(t.Txid)+" "+hx.DescribeTx(t))
			}
			return fmt.Errorf("the admitted transactions %s do not apply in any one-at-a-time order on the state before the concurrent phase (mutually conflicting admission): %s", c12TxIDs(A), strings.Join(ds, " | "))
		}
		if playReq >= 0 {
			// a failed play needs a serial explanation: the block does not apply on top of the
			// pending set at some point of some serial order
			out.label("play-failed")
			btxs := nm.BlockTxs[reqs[playReq].Block]
			explained := false
			for mask := 0; mask < 1<<uint(len(A)) && !explained; mask++ {
				var sub []*pb.Transaction
				for j, t := range A {
					if mask&(1<<uint(j)) != 0 {
						sub = append(sub, t)
					}
				}
				so, ok := c12ValidOrder(s, sub, h)
				if !ok {
					continue
				}
				ps := s.Clone()
				for _, t := range so {
					ps.Apply(t, "")
				}
				if !c12BlockApplies(ps, btxs, h) {
					explained = true
				}
			}
			if !explained {
				return fmt.Errorf("PlayAndRepost(%s) failed (%v) although the block applies on the pending state of every one-at-a-time order", m.Blocks[reqs[playReq].Block].Label, runs[playReq].err)
			}
		}
		nm.Pool = append(append([]*pb.Transaction{}, oldPool...), order...)
	} else {
		out.label("play-succeeded")
		b := reqs[playReq].Block
		blockTxs := nm.BlockTxs[b]
		cur, err := st.GetUnconfirmedTx(false)
		if err != nil {
			return fmt.Errorf("GetUnconfirmedTx after the play: %v", err)
		}
		allowed := map[string]*pb.Transaction{}
		for _, t := range oldPool {
			allowed[string(t.Txid)] = t
		}
		for _, t := range A {
			allowed[string(t.Txid)] = t
		}
		inBlock := map[string]bool{}
		for _, t := range blockTxs {
			inBlock[string(t.Txid)] = true
		}
		keptSet := map[string]bool{}
		for _, t := range cur {
			id := string(t.Txid)
			if allowed[id] == nil {
				return fmt.Errorf("after the play the pool holds %s which was neither pending before nor admitted", hx.Hex8(t.Txid))
			}
			if inBlock[id] {
				return fmt.Errorf("after the play transaction %s of the played block is still pending", hx.Hex8(t.Txid))
			}
			if keptSet[id] {
				return fmt.Errorf("after the play the pool lists %s twice", hx.Hex8(t.Txid))
			}
			keptSet[id] = true
		}
		var kept []*pb.Transaction
		for _, t := range append(append([]*pb.Transaction{}, oldPool...), A...) {
			if keptSet[string(t.Txid)] {
				kept = append(kept, t)
				delete(keptSet, string(t.Txid)) // oldPool and A are disjoint unless a pending tx was resubmitted
			}
		}
		order, ok := c12ValidOrder(nm.States[b], kept, h)
		if !ok {
			return fmt.Errorf("after the play the pending transactions %s do not apply in any order on the block state", c12TxIDs(kept))
		}
		post := nm.States[b].Clone()
		pending := map[string]bool{}
		for _, t := range order {
			post.Apply(t, "")
			pending[string(t.Txid)] = true
		}
		// A transaction of A that is neither pending nor in the block was admitted and then evicted
		// by the play (serial order "DoTx, then play"). The play evicts what conflicts with the block
		// and, transitively, what the pool's dependency graph orders after an evicted transaction
		// (spends its output, consumes or overwrites a key version it wrote / read). Anything else
		// is a lost admission.
		var all []*pb.Transaction
		inAll := map[string]bool{}
		for _, t := range append(append([]*pb.Transaction{}, oldPool...), A...) {
			if !inAll[string(t.Txid)] {
				inAll[string(t.Txid)] = true
				all = append(all, t)
			}
		}
		nm.Pool = all
		pairs, _ := nm.MustPrecede()
		legit := map[string]bool{}
		evicted := func(t *pb.Transaction) bool { return !pending[string(t.Txid)] && !inBlock[string(t.Txid)] }
		// the play's own conflict rule (processUnconfirmTxs) compares EVERY written key of a pending transaction with
		// the block's writes, the bookkeeping keys of the $transient bucket included: two transactions that merely both
		// emit an event "conflict" (harmless in production, where evicted transactions are re-posted; the model does not
		// know transient keys)
		blockWrites := map[string]bool{}
		for _, bt := range blockTxs {
			if inAll[string(bt.Txid)] {
				continue // a block transaction known from the pool is no conflict partner
			}
			for _, oe := range bt.TxOutputsExt {
				blockWrites[oe.Bucket+"/"+string(oe.Key)] = true
			}
		}
		sharesWrittenKey := func(t *pb.Transaction) bool {
			for _, oe := range t.TxOutputsExt {
				if blockWrites[oe.Bucket+"/"+string(oe.Key)] {
					return true
				}
			}
			return false
		}
		for _, t := range all {
			if evicted(t) && (post.Check(t, h) != nil || sharesWrittenKey(t)) {
				legit[string(t.Txid)] = true
			}
		}
		for changed := true; changed; {
			changed = false
			for _, p := range pairs {
				if evicted(p[0]) && legit[string(p[0].Txid)] && evicted(p[1]) && !legit[string(p[1].Txid)] {
					legit[string(p[1].Txid)] = true
					changed = true
				}
			}
		}
		if os.Getenv("C12_DEBUG") != "" {
			for _, t := range all {
				fmt.Fprintf(os.Stderr, "C12_DEBUG tx %s evicted=%v legit=%v check=%v\n", hx.Hex8(t.Txid), evicted(t), legit[string(t.Txid)], post.Check(t, h))
			}
		}
		for _, t := range A {
			if !evicted(t) {
				continue
			}
			if !legit[string(t.Txid)] {
				return fmt.Errorf("admitted transaction %s is neither pending nor in the played block although it neither conflicts with the block nor depends on an evicted transaction (lost admission): %s", hx.Hex8(t.Txid), hx.DescribeTx(t))
			}
			out.label("admitted-then-evicted-by-play")
		}
		nm.Ptr = b // (window 0: the node machine's applied() has nothing else to record)
		nm.Pool = order
	}
	if err := e.checkState(); err != nil {
		return fmt.Errorf("after the concurrent phase (admitted %s, play ok=%v): %v", c12TxIDs(A), played, err)
	}
	return nil
}

// selectorOracle: what locking selections returned.
func (e *c12Env) selectorOracle(out *c12Outcome, modelOK, race bool) error {
	nm, reqs, runs, s, h, playReq := e.nm, e.reqs, e.runs, e.s, e.h, e.playReq
	A := e.A
	played := playReq >= 0 && runs[playReq].err == nil
	var blockTxs []*pb.Transaction
	univ := map[string]*hx.UTXO{}
	for k, u := range s.U {
		univ[k] = u
	}
	if played {
		blockTxs = nm.BlockTxs[reqs[playReq].Block]
		for k, u := range nm.States[reqs[playReq].Block].U {
			univ[k] = u
		}
	}
	spent := map[string]bool{}
	for _, t := range append(append([]*pb.Transaction{}, A...), blockTxs...) {
		for _, ti := range t.TxInputs {
			spent[hx.UKey(string(ti.FromAddr), ti.RefTxid, ti.RefOffset)] = true
		}
	}
	// every output of a pending or admitted transaction can be unspent at some point of some serial
	// order (an output spent by a pending transaction comes back when a play evicts the spender)
	for _, t := range append(append([]*pb.Transaction{}, e.oldPool...), A...) {
		for off, to := range t.TxOutputs {
			amt := new(big.Int).SetBytes(to.Amount)
			if string(to.ToAddr) == hx.FeeAddr || amt.Sign() == 0 {
				continue
			}
			u := &hx.UTXO{Addr: string(to.ToAddr), Txid: t.Txid, Off: int32(off), Amount: amt, Frozen: to.FrozenHeight}
			univ[u.Key()] = u
		}
	}
	// transactions that are pending in some serial order and confirmed in none (exclude-unconfirmed selections)
	onlyPending, everPending := map[string]bool{}, map[string]bool{}
	for _, t := range append(append([]*pb.Transaction{}, e.oldPool...), A...) {
		onlyPending[string(t.Txid)] = true
		everPending[string(t.Txid)] = true
	}
	for _, t := range blockTxs {
		delete(onlyPending, string(t.Txid))
	}
	// "confirmed" is the LEDGER's view (IsTxInTrunk): a transaction carried by a stored main-chain block counts even
	// while the state machine has not played that block (or has just refused to)
	for _, bi := range nm.LM.M.MainChain() {
		for _, t := range nm.BlockTxs[bi] {
			delete(onlyPending, string(t.Txid))
		}
	}
	handed := map[string]int{}
	for i, r := range runs {
		if reqs[i].Kind != "select" || r.skip != "" || r.err != nil {
			continue
		}
		out.label("select-ok")
		if reqs[i].Exclude {
			out.label("select-exclude-unconfirmed-ok")
		}
		addr := hx.Ring[reqs[i].Addr].Address
		need, _ := new(big.Int).SetString(reqs[i].Need, 10)
		sum := big.NewInt(0)
		for _, in := range r.ins {
			k := hx.UKey(string(in.FromAddr), in.RefTxid, in.RefOffset)
			if j, dup := handed[k]; dup {
				return fmt.Errorf("output %s was handed to two locking selections (requests %d and %d)", k, j, i)
			}
			handed[k] = i
			u := univ[k]
			if u == nil || u.Addr != addr || string(in.FromAddr) != addr {
				return fmt.Errorf("SelectUtxos(%s) returned %s which is not an output of that address in any serial order", shortAddrC12(addr), k)
			}
			if u.Frozen == -1 || u.Frozen > h {
				return fmt.Errorf("SelectUtxos returned the frozen output %s (frozen until %d, ledger height %d)", k, u.Frozen, h)
			}
			if reqs[i].Exclude && onlyPending[string(in.RefTxid)] {
				return fmt.Errorf("SelectUtxos(excludeUnconfirmed) returned %s, an output of a transaction that is confirmed in no serial order", k)
			}
			if !bytes.Equal(u.Amount.Bytes(), in.Amount) {
				return fmt.Errorf("SelectUtxos returned %s with amount %x, the output has %s", k, in.Amount, u.Amount)
			}
			sum.Add(sum, u.Amount)
		}
		if r.total == nil || sum.Cmp(r.total) != 0 {
			return fmt.Errorf("SelectUtxos total %v differs from the sum %s of the returned outputs", r.total, sum)
		}
		if sum.Cmp(need) < 0 && !reqs[i].BySize {
			return fmt.Errorf("SelectUtxos succeeded with total %s < need %s", sum, need)
		}
	}
	for i, r := range runs {
		if reqs[i].Kind != "select" || r.skip != "" || r.err == nil {
			continue
		}
		out.label("select-failed")
		if reqs[i].Exclude {
			out.label("select-exclude-unconfirmed-failed")
		}
		if reqs[i].BySize {
			continue // a selection by size has no amount to fail on
		}
		if r.err != utxo.ErrNoEnoughUTXO {
			return fmt.Errorf("SelectUtxos failed with %v", r.err)
		}
		if !modelOK {
			continue
		}
		{
			// two selections on one address that overlap in time (real goroutines, or - since the yield points of
			// hook e0cb9d0 - interleaved scans) can each lock what the other needs and both give up (all-or-fail,
			// like TryLock); such refusals are not judged
			other := false
			for j := range runs {
				if j != i && reqs[j].Kind == "select" && reqs[j].Addr == reqs[i].Addr {
					other = true
				}
			}
			if other {
				continue
			}
		}
		// least amount a serial order can leave for this selector: only what exists both before and
		// after all other requests (not spent by an admitted / played transaction, not created by a
		// pending transaction the play evicted) and was not locked by another successful selector
		addr := hx.Ring[reqs[i].Addr].Address
		need, _ := new(big.Int).SetString(reqs[i].Need, 10)
		left := big.NewInt(0)
		final := nm.PoolState()
		for _, u := range s.UtxosOf(addr) {
			if u.Frozen == -1 || u.Frozen > h || spent[u.Key()] || final.U[u.Key()] == nil {
				continue
			}
			if reqs[i].Exclude && everPending[string(u.Txid)] {
				continue // confirmed only in the serial orders in which the play comes first
			}
			if _, locked := handed[u.Key()]; locked {
				continue
			}
			left.Add(left, u.Amount)
		}
		if left.Cmp(need) >= 0 {
			return fmt.Errorf("SelectUtxos(%s, need %s) failed with 'no enough money' although in every serial order at least %s stays selectable", shortAddrC12(addr), need, left)
		}
	}
	return nil
}

func c12KeyList(ks map[string]bool) []string {
	var out []string
	for k, x := range ks {
		if x {
			out = append(out, fmt.Sprintf("%q:X", k))
		} else {
			out = append(out, fmt.Sprintf("%q:S", k))
		}
	}
	sort.Strings(out)
	return out
}

func shortAddrC12(a string) string {
	if k := hx.KeyOf(a); k != nil {
		return fmt.Sprintf("K%d", k.Idx)
	}
	return a
}

// c12ApplyPrefix applies one sequential prefix operation with the node machine's own oracles.
func c12ApplyPrefix(nm *hx.NodeMachine, op hx.NOp) error {
	if err := nm.Apply(op); err != nil {
		return err
	}
	return nm.CheckState()
}

// runC12State: plain interpreter of a Part B trace (replays, witnesses).
func runC12State(tr c12StateTrace, fs *hx.FindingSet) error {
	_, err := runC12StateWith(tr, fs, c12ReplayPicker(tr.Sched))
	return err
}

func runC12StateWith(tr c12StateTrace, fs *hx.FindingSet, pick c12Picker) (c12Outcome, error) {
	nm, err := hx.NewNodeMachine(hx.DefaultOpts(), fs)
	if err != nil {
		return c12Outcome{}, err
	}
	defer nm.Close()
	for i, op := range tr.Prefix {
		if err := c12ApplyPrefix(nm, op); err != nil {
			return c12Outcome{}, fmt.Errorf("prefix step %d %s: %v", i, opJSON(op), err)
		}
	}
	if len(tr.Reqs) == 0 || len(tr.Reqs) > 8 {
		return c12Outcome{}, fmt.Errorf("bad scenario: %d requests", len(tr.Reqs))
	}
	out := c12Concurrent(nm, tr.Prefix, tr.Reqs, pick, fs)
	if out.Wedged {
		return out, fmt.Errorf("harness wedged (inconclusive)")
	}
	return out, out.Err
}

// ---- generators of Part B ----

type c12Gen struct {
	rt   *rapid.T
	nm   *hx.NodeMachine
	s    *hx.MState
	h    int64
	used map[string]bool
	keys []string
}

// out draws an unused spendable output (of payer `from`, or of anybody when from < 0).
func (g *c12Gen) out(from int) (int, *hx.UTXO) {
	var cands []*hx.UTXO
	var owners []int
	for i := 0; i < 6; i++ {
		if from >= 0 && i != from {
			continue
		}
		for _, u := range spendable(g.s, hx.Ring[i].Address, g.h, false) {
			if !g.used[u.Key()] {
				cands = append(cands, u)
				owners = append(owners, i)
			}
		}
	}
	if len(cands) == 0 {
		return -1, nil
	}
	j := rapid.IntRange(0, len(cands)-1).Draw(g.rt, "out")
	g.used[cands[j].Key()] = true
	return owners[j], cands[j]
}

func c12InRef(owner int, u *hx.UTXO) hx.InRef {
	return hx.InRef{Addr: owner, Txid: hex.EncodeToString(u.Txid), Off: u.Off, Amount: u.Amount.String(), Frozen: u.Frozen}
}

// spend builds a transaction spending exactly output u (owner pays the whole amount to `to`),
// optionally carrying a contract program.
func (g *c12Gen) spend(owner int, u *hx.UTXO, to int, prog []hx.Ins) *hx.TxSpec {
	g.nm.Seq++
	return &hx.TxSpec{From: owner, Seq: g.nm.Seq, Version: 3, Ins: []hx.InRef{c12InRef(owner, u)},
		Outs: []hx.OutSpec{{To: to, Amount: u.Amount.String()}}, Prog: prog}
}

// contract builds a contract transaction on a fresh output.
func (g *c12Gen) contract(prog []hx.Ins) *c12Req {
	owner, u := g.out(-1)
	if u == nil {
		return nil
	}
	return &c12Req{Kind: "dotx", Tx: g.spend(owner, u, owner, prog)}
}

func (g *c12Gen) key() string { return rapid.SampledFrom(g.keys).Draw(g.rt, "key") }
func (g *c12Gen) val() string { return fmt.Sprintf("w%d", rapid.IntRange(0, 9).Draw(g.rt, "val")) }

// reader of key k: a plain get, or a putfrom that reads k and writes another key.
func (g *c12Gen) reader(k string) *c12Req {
	if rapid.IntRange(0, 3).Draw(g.rt, "readerkind") == 0 {
		for _, o := range g.keys {
			if o != k {
				return g.contract([]hx.Ins{{Op: "putfrom", K: o + "2", K2: k, V: g.val()}})
			}
		}
	}
	return g.contract([]hx.Ins{{Op: "get", K: k}})
}

func (g *c12Gen) writer(k string) *c12Req {
	switch rapid.IntRange(0, 4).Draw(g.rt, "writerkind") {
	case 0:
		return g.contract([]hx.Ins{{Op: "del", K: k}})
	case 1:
		return g.contract([]hx.Ins{{Op: "putfrom", K: k, K2: g.key(), V: g.val()}})
	}
	return g.contract([]hx.Ins{{Op: "put", K: k, V: g.val()}})
}

func (g *c12Gen) random(cfg genCfg) *c12Req {
	spec, ok := genTxSpec(g.rt, g.nm, g.s, cfg, g.h, false)
	if !ok {
		return nil
	}
	return &c12Req{Kind: "dotx", Tx: &spec}
}

func (g *c12Gen) selector(addr int) *c12Req {
	if addr < 0 {
		var cands []int
		for i := 0; i < 6; i++ {
			if len(spendable(g.s, hx.Ring[i].Address, g.h, true)) >= 2 {
				cands = append(cands, i)
			}
		}
		if len(cands) == 0 {
			return nil
		}
		addr = rapid.SampledFrom(cands).Draw(g.rt, "seladdr")
	}
	us := spendable(g.s, hx.Ring[addr].Address, g.h, true)
	if len(us) == 0 {
		return nil
	}
	sum := big.NewInt(0)
	for _, u := range us {
		sum.Add(sum, u.Amount)
	}
	one := us[rapid.IntRange(0, len(us)-1).Draw(g.rt, "selone")].Amount
	var need *big.Int
	switch rapid.IntRange(0, 6).Draw(g.rt, "needkind") {
	case 0:
		need = big.NewInt(1)
	case 1:
		need = new(big.Int).Set(one)
	case 2:
		need = new(big.Int).Set(sum)
	case 3:
		need = new(big.Int).Add(new(big.Int).Div(sum, big.NewInt(2)), big.NewInt(1))
	case 4:
		need = new(big.Int).Div(sum, big.NewInt(2))
	case 5:
		need = new(big.Int).Add(sum, big.NewInt(1)) // cannot be satisfied
	default:
		need = new(big.Int).Sub(sum, one)
	}
	if need.Sign() <= 0 {
		need = big.NewInt(1)
	}
	rq := &c12Req{Kind: "select", Addr: addr, Need: need.String(), BySize: rapid.IntRange(0, 2).Draw(g.rt, "bysize") == 0}
	if !rq.BySize && rapid.IntRange(0, 2).Draw(g.rt, "exclude") == 0 {
		rq.Exclude = true
		if rapid.Bool().Draw(g.rt, "excludefails") {
			// more than the address owns: the selection scans everything, skips what is unconfirmed and gives up
			rq.Need = new(big.Int).Add(sum, big.NewInt(1)).String()
		}
	}
	return rq
}

// c12GenReqs draws 2-4 requests chosen to conflict (all against the model state g.s).
func c12GenReqs(g *c12Gen, cfg genCfg, playBlock int) ([]c12Req, string) {
	rt := g.rt
	var reqs []c12Req
	add := func(r *c12Req) {
		if r != nil && len(reqs) < 4 {
			reqs = append(reqs, *r)
		}
	}
	fam := ""
	// a block play first rolls back the pending transactions that conflict with the block: selectors of the
	// addresses whose outputs come back for that moment must not be handed them
	if owners := c12RolledBackOwners(g.nm, playBlock); len(owners) > 0 && rapid.IntRange(0, 2).Draw(rt, "selvsplay") > 0 {
		fam = "selectors-vs-play-rollback"
		a := owners[rapid.IntRange(0, len(owners)-1).Draw(rt, "rbowner")]
		add(g.selector(a))
		add(g.selector(a))
		if rapid.Bool().Draw(rt, "rbthird") {
			add(g.selector(a))
		}
		reqs = append(reqs, c12Req{Kind: "play", Block: playBlock})
		if len(reqs) > 1 {
			perm := rapid.Permutation(c12Iota(len(reqs))).Draw(rt, "threadorder")
			sh := make([]c12Req, len(reqs))
			for i, p := range perm {
				sh[i] = reqs[p]
			}
			reqs = sh
		}
		return reqs, fam
	}
	// rapid favours small numbers: the weighted families are interleaved over the 100 slots
	switch f := c12FamilySlots[rapid.IntRange(0, 99).Draw(rt, "family")]; {
	case f < 26:
		fam = "2readers+2writers"
		k := g.key()
		add(g.reader(k))
		add(g.reader(k))
		add(g.writer(k))
		add(g.writer(k))
	case f < 38:
		fam = "same-output"
		owner, u := g.out(-1)
		if u != nil {
			n := rapid.IntRange(2, 3).Draw(rt, "nspenders")
			for i := 0; i < n; i++ {
				var prog []hx.Ins
				if rapid.IntRange(0, 2).Draw(rt, "withprog") == 0 {
					prog = []hx.Ins{{Op: "put", K: g.key(), V: g.val()}}
				}
				add(&c12Req{Kind: "dotx", Tx: g.spend(owner, u, rapid.IntRange(0, 5).Draw(rt, "to"), prog)})
			}
		}
		if rapid.Bool().Draw(rt, "extra") {
			add(g.random(cfg))
		}
	case f < 50:
		fam = "writers"
		k := g.key()
		n := rapid.IntRange(2, 3).Draw(rt, "nwriters")
		for i := 0; i < n; i++ {
			add(g.writer(k))
		}
		if rapid.Bool().Draw(rt, "plusreader") {
			add(g.reader(k))
		}
	case f < 62:
		fam = "key-mix"
		k := g.key()
		n := rapid.IntRange(2, 4).Draw(rt, "nmix")
		for i := 0; i < n; i++ {
			if rapid.IntRange(0, 2).Draw(rt, "rw") == 0 {
				add(g.writer(k))
			} else {
				add(g.reader(k))
			}
		}
	case f < 72:
		fam = "same-transaction-twice"
		var r *c12Req
		if rapid.Bool().Draw(rt, "dupcontract") {
			r = g.writer(g.key())
		} else {
			r = g.random(cfg)
		}
		add(r)
		add(r)
		if rapid.Bool().Draw(rt, "third") {
			add(r)
		}
		if rapid.Bool().Draw(rt, "extra") {
			add(g.random(cfg))
		}
	case f < 86:
		fam = "selectors"
		first := g.selector(-1)
		// addresses that own an output of a transaction that is only pending (what excludeUnconfirmed skips)
		var withPending []int
		{
			pend := map[string]bool{}
			for _, t := range g.nm.Pool {
				pend[string(t.Txid)] = true
			}
			for i := 0; i < 6; i++ {
				us := spendable(g.s, hx.Ring[i].Address, g.h, true)
				has := false
				for _, u := range us {
					has = has || pend[string(u.Txid)]
				}
				if has && len(us) >= 2 {
					withPending = append(withPending, i)
				}
			}
		}
		giveBack := false
		if first != nil && len(withPending) > 0 && rapid.IntRange(0, 1).Draw(rt, "giveback") == 0 {
			first = g.selector(rapid.SampledFrom(withPending).Draw(rt, "pendingaddr"))
			giveBack = first != nil
		}
		if first != nil && !giveBack && rapid.IntRange(0, 2).Draw(rt, "giveback2") == 0 {
			giveBack = true
		}
		if giveBack {
			// the first selection wants only confirmed outputs and more than the address owns: it scans everything,
			// skips what is unconfirmed, gives its locks back and fails - while two plain selections of the same
			// address run
			fam = "selectors-exclude-gives-back"
			us := spendable(g.s, hx.Ring[first.Addr].Address, g.h, true)
			sum := big.NewInt(1)
			for _, u := range us {
				sum.Add(sum, u.Amount)
			}
			first.BySize, first.Exclude, first.Need = false, true, sum.String()
			add(first)
			for i := 0; i < 2; i++ {
				if r := g.selector(first.Addr); r != nil {
					r.BySize, r.Exclude, r.Need = false, false, "1"
					if i == 1 {
						r.Need = new(big.Int).Sub(sum, big.NewInt(1)).String() // everything the address owns
					}
					add(r)
				}
			}
			break
		}
		add(first)
		if first != nil {
			add(g.selector(first.Addr))
			if rapid.Bool().Draw(rt, "thirdsel") {
				add(g.selector(first.Addr))
			}
			if rapid.Bool().Draw(rt, "spender") {
				if owner, u := g.out(first.Addr); u != nil {
					add(&c12Req{Kind: "dotx", Tx: g.spend(owner, u, rapid.IntRange(0, 5).Draw(rt, "to"), nil)})
				}
			}
		}
	case f < 94:
		// a parent P in flight together with transactions that spend one of ITS outputs (a child can only be assembled
		// by somebody who knows P, e.g. its sender): P pays a payment, a fee and the change in a drawn order; C and the
		// rival D both spend the same non-fee output of P. One-at-a-time orders admit P and at most one of C / D.
		fam = "parent+children"
		owner, u := g.out(-1)
		if u == nil || u.Amount.Cmp(big.NewInt(100)) < 0 {
			add(g.random(cfg))
			add(g.random(cfg))
			break
		}
		to := rapid.IntRange(0, 5).Draw(rt, "pto")
		pay := big.NewInt(int64(rapid.IntRange(1, 40).Draw(rt, "ppay")))
		fee := big.NewInt(int64(rapid.IntRange(1, 9).Draw(rt, "pfee")))
		rest := new(big.Int).Sub(new(big.Int).Sub(u.Amount, pay), fee)
		outs := []hx.OutSpec{{To: to, Amount: pay.String()}, {To: -1, Amount: fee.String()}, {To: owner, Amount: rest.String()}}
		perm := rapid.Permutation(c12Iota(3)).Draw(rt, "poutorder")
		g.nm.Seq++
		P := &hx.TxSpec{From: owner, Seq: g.nm.Seq, Version: 3, Ins: []hx.InRef{c12InRef(owner, u)}}
		for _, i := range perm {
			P.Outs = append(P.Outs, outs[i])
		}
		pc := *P
		ptx, _ := g.nm.BuildOnModel(&pc, g.s)
		if ptx == nil {
			add(g.random(cfg))
			add(g.random(cfg))
			break
		}
		// the output of P the children spend: the change or the payment, whichever the draw picks
		var offs []int
		for off, o := range P.Outs {
			if o.To >= 0 {
				offs = append(offs, off)
			}
		}
		off := offs[rapid.IntRange(0, len(offs)-1).Draw(rt, "childoff")]
		co := P.Outs[off]
		child := func() *c12Req {
			g.nm.Seq++
			return &c12Req{Kind: "dotx", Tx: &hx.TxSpec{From: co.To, Seq: g.nm.Seq, Version: 3,
				Ins:  []hx.InRef{{Addr: co.To, Txid: hex.EncodeToString(ptx.Txid), Off: int32(off), Amount: co.Amount}},
				Outs: []hx.OutSpec{{To: rapid.IntRange(0, 5).Draw(rt, "cto"), Amount: co.Amount}}}}
		}
		add(&c12Req{Kind: "dotx", Tx: P})
		add(child())
		add(child())
		if rapid.Bool().Draw(rt, "extra") {
			add(g.random(cfg))
		}
	default:
		fam = "random"
		n := rapid.IntRange(2, 4).Draw(rt, "nrandom")
		for i := 0; i < n; i++ {
			add(g.random(cfg))
		}
	}
	if playBlock > 0 {
		pr := c12Req{Kind: "play", Block: playBlock}
		if len(reqs) >= 4 {
			reqs[rapid.IntRange(0, 3).Draw(rt, "playslot")] = pr
		} else {
			reqs = append(reqs, pr)
		}
	}
	if len(reqs) < 4 && rapid.IntRange(0, 4).Draw(rt, "addsel") == 0 {
		add(g.selector(-1))
	}
	for len(reqs) < 2 {
		r := g.random(cfg)
		if r == nil {
			break
		}
		add(r)
	}
	// order of the threads is part of the scenario
	if len(reqs) > 1 {
		perm := rapid.Permutation(c12Iota(len(reqs))).Draw(rt, "threadorder")
		sh := make([]c12Req, len(reqs))
		for i, p := range perm {
			sh[i] = reqs[p]
		}
		reqs = sh
	}
	return reqs, fam
}

// c12RolledBackOwners: ring indices of the addresses owning an input of a pending transaction that conflicts (shares
// an input) with a transaction of block b which is not that pending transaction itself.
func c12RolledBackOwners(nm *hx.NodeMachine, b int) []int {
	if b <= 0 {
		return nil
	}
	spentBy := map[string]string{}
	for _, tx := range nm.BlockTxs[b] {
		for _, in := range tx.TxInputs {
			spentBy[fmt.Sprintf("%x_%d", in.RefTxid, in.RefOffset)] = string(tx.Txid)
		}
	}
	seen := map[int]bool{}
	var out []int
	for _, p := range nm.Pool {
		for _, in := range p.TxInputs {
			if by, ok := spentBy[fmt.Sprintf("%x_%d", in.RefTxid, in.RefOffset)]; ok && by != string(p.Txid) {
				for _, in2 := range p.TxInputs {
					for i := 0; i < 6; i++ {
						if hx.Ring[i].Address == string(in2.FromAddr) && !seen[i] {
							seen[i] = true
							out = append(out, i)
						}
					}
				}
			}
		}
	}
	sort.Ints(out)
	return out
}

// c12FamilySlots maps a drawn slot to a number whose range selects the family (weights 26/12/12/12/
// 10/14/14 as in the switch of c12GenReqs), interleaved so that every prefix of the slots has the
// families in about these proportions.
var c12FamilySlots = func() [100]int {
	bounds := []int{0, 26, 38, 50, 62, 72, 86, 94, 100}
	var slots [100]int
	given := make([]int, len(bounds)-1)
	for i := 0; i < 100; i++ {
		best, bestLag := 0, -1<<30
		for f := range given {
			w := bounds[f+1] - bounds[f]
			if lag := w*(i+1) - given[f]*100; lag > bestLag {
				best, bestLag = f, lag
			}
		}
		given[best]++
		slots[i] = bounds[best]
	}
	return slots
}()

// c12ReqKeysets assembles the requests' transactions on s (as the interpreter will) and returns
// their lock keys (nil for non-dotx / not assemblable).
func c12ReqKeysets(nm *hx.NodeMachine, s *hx.MState, reqs []c12Req) []map[string]bool {
	out := make([]map[string]bool, len(reqs))
	for i, rq := range reqs {
		if rq.Kind != "dotx" || rq.Tx == nil {
			continue
		}
		spec := *rq.Tx
		if tx, _ := nm.BuildOnModel(&spec, s); tx != nil {
			out[i] = c12TxKeys(tx)
		}
	}
	return out
}

// c12FanOut: a peer block on the genesis block in which every funded address splits its genesis
// output into several outputs, so that addresses have several confirmed outputs.
func c12FanOut(rt *rapid.T, nm *hx.NodeMachine) hx.NOp {
	op := hx.NOp{Op: "peer", Label: "b1", Parent: 0, Proposer: rapid.IntRange(0, 2).Draw(rt, "proposer")}
	s := nm.States[0]
	for i := 0; i < 5; i++ {
		us := s.UtxosOf(hx.Ring[i].Address)
		if len(us) == 0 {
			continue
		}
		u := us[0]
		nm.Seq++
		spec := hx.TxSpec{From: i, Seq: nm.Seq, Version: 3, Ins: []hx.InRef{c12InRef(i, u)}}
		rest := new(big.Int).Set(u.Amount)
		n := rapid.IntRange(2, 4).Draw(rt, "fanout")
		for j := 0; j < n; j++ {
			a := big.NewInt(int64(rapid.IntRange(1, 60000).Draw(rt, "famt")))
			if a.Cmp(rest) >= 0 {
				break
			}
			to := i
			if rapid.IntRange(0, 5).Draw(rt, "fto") == 0 {
				to = rapid.IntRange(0, 5).Draw(rt, "fto2")
			}
			spec.Outs = append(spec.Outs, hx.OutSpec{To: to, Amount: a.String()})
			rest.Sub(rest, a)
		}
		spec.Outs = append(spec.Outs, hx.OutSpec{To: i, Amount: rest.String()})
		op.Txs = append(op.Txs, spec)
	}
	return op
}

// c12StateCase is a generated Part B scenario on a live node machine (the caller closes it).
type c12StateCase struct {
	nm     *hx.NodeMachine
	prefix []hx.NOp
	reqs   []c12Req
	fam    string
	s      *hx.MState
}

// c12GenStateCase builds the sequential prefix on a fresh node machine and draws the concurrent
// requests; nil = case discarded (labelled).
func c12GenStateCase(t *testing.T, cs *hx.Case, fs *hx.FindingSet, cfg genCfg) *c12StateCase {
	rt := cs.RT()
	nm, err := hx.NewNodeMachine(hx.DefaultOpts(), fs)
	if err != nil {
		rt.Fatalf("setup: %v", err)
	}
	keep := false
	defer func() {
		if !keep {
			nm.Close()
		}
	}()
	prefixOK := true
	var prefix []hx.NOp
	exec := func(op hx.NOp) {
		if !prefixOK {
			return
		}
		cs.Op(c12StateTrace{Prefix: []hx.NOp{op}})
		prefix = append(prefix, op)
		if err := c12ApplyPrefix(nm, op); err != nil {
			// a sequential failure is not C12's business (C01/C02/C03 own it)
			prefixOK = false
			t.Logf("C12: prefix operation failed (case discarded): %v", err)
		}
	}
	exec(c12FanOut(rt, nm))
	exec(hx.NOp{Op: "sync"})
	np := rapid.IntRange(0, 4).Draw(rt, "nprefix")
	for i := 0; i < np; i++ {
		exec(genNodeOp(rt, nm, cfg))
	}
	if prefixOK && nm.Ptr != nm.LM.M.Tip {
		exec(hx.NOp{Op: "sync"})
	}
	if !prefixOK {
		cs.Label("prefix-failed")
		return nil
	}
	if nm.Ptr != nm.LM.M.Tip {
		cs.Label("prefix-pointer-not-at-tip")
		return nil
	}
	playBlock := 0
	if rapid.IntRange(0, 9).Draw(rt, "withplay") < 4 {
		exec(genPeerOn(rt, nm, cfg, nm.Ptr))
		if !prefixOK {
			cs.Label("prefix-failed")
			return nil
		}
		b := len(nm.LM.M.Blocks) - 1
		if nm.LM.M.Blocks[b].Stored && nm.LM.M.Blocks[b].Parent == nm.Ptr && nm.Valid[b] {
			playBlock = b
		}
	}
	s := nm.PoolState()
	g := &c12Gen{rt: rt, nm: nm, s: s, h: nm.LM.M.Blocks[nm.LM.M.Tip].Height, used: map[string]bool{}, keys: cfg.Keys}
	reqs, fam := c12GenReqs(g, cfg, playBlock)
	if len(reqs) < 2 {
		cs.Label("fewer-than-2-requests")
		return nil
	}
	keep = true
	return &c12StateCase{nm: nm, prefix: prefix, reqs: reqs, fam: fam, s: s}
}

func c12PrefixCfg() genCfg {
	cfg := defaultGenCfg()
	cfg.Keys = []string{"a", "b", "c"}
	cfg.WTx, cfg.WMine, cfg.WPeer, cfg.WSync, cfg.WWalk, cfg.WPlay, cfg.WReopen, cfg.WTruncate = 56, 14, 12, 8, 4, 0, 6, 0
	cfg.ContractPct = 60
	return cfg
}

// c12StateWitness: the double admission that the release/delete window allows at the state level.
// Requests (all assembled against the same state): R1, R2 read key a (shared lock), W1, W2
// overwrite it (exclusive lock).
//
//	R1 runs until its unlock has taken the shared count to 0 and parks before m.Delete
//	R2 locks (joins the shared entry) and parks inside its critical section
//	R1 deletes the map entry and finishes
//	W1 locks (no entry -> exclusive), parks before its batch write (version check done)
//	R2 finishes: its unlock takes the count to 0 and deletes W1's exclusive entry
//	W2 locks (no entry -> exclusive), parks before its batch write (version check done: W1 has not written yet)
//	W1, W2 finish: both supersede the same version of a
func c12StateWitness(fs *hx.FindingSet) (c12StateTrace, error) {
	tr := c12StateTrace{}
	nm, err := hx.NewNodeMachine(hx.DefaultOpts(), fs)
	if err != nil {
		return tr, err
	}
	// scenario construction needs the genesis outputs only
	var outs []*hx.UTXO
	for i := 0; i < 4; i++ {
		outs = append(outs, nm.States[0].UtxosOf(hx.Ring[i].Address)[0])
	}
	nm.Close()
	progs := [][]hx.Ins{{{Op: "get", K: "a"}}, {{Op: "get", K: "a"}}, {{Op: "put", K: "a", V: "v1"}}, {{Op: "put", K: "a", V: "v2"}}}
	for i, p := range progs {
		u := outs[i]
		tr.Reqs = append(tr.Reqs, c12Req{Kind: "dotx", Tx: &hx.TxSpec{From: i, Seq: 901 + i, Version: 3, Ins: []hx.InRef{c12InRef(i, u)},
			Outs: []hx.OutSpec{{To: i, Amount: u.Amount.String()}}, Prog: p}})
	}
	out, err := runC12StateWith(tr, fs, c12DirPicker([]c12Dir{
		{0, "y:unlock.shared.beforeDelete"}, {1, "y:dotx.locked"}, {0, "done"},
		{2, "y:dotx.beforeWrite"}, {1, "done"}, {3, "y:dotx.beforeWrite"}, {2, "done"}, {3, "done"}}))
	for _, st := range out.Steps {
		tr.Sched = append(tr.Sched, st.T)
	}
	return tr, err
}

// ---------------------------------------------------------------------------------------------
// the test
// ---------------------------------------------------------------------------------------------

func init() {
	replayers["C12/spinlock-schedules"] = func(raw json.RawMessage, fs *hx.FindingSet) error {
		tr, err := c12DecodeLockTrace(raw)
		if err != nil {
			return err
		}
		return runC12Lock(tr)
	}
	replayers["C12/state-schedules"] = func(raw json.RawMessage, fs *hx.FindingSet) error {
		tr, err := c12DecodeStateTrace(raw)
		if err != nil {
			return err
		}
		return runC12State(tr, fs)
	}
	// a Part C failure has no recorded schedule: repeat the scenario with real goroutines
	replayers["C12/race-goroutines"] = func(raw json.RawMessage, fs *hx.FindingSet) error {
		tr, err := c12DecodeStateTrace(raw)
		if err != nil {
			return err
		}
		for rep := 0; rep < 25; rep++ {
			nm, err := hx.NewNodeMachine(hx.DefaultOpts(), fs)
			if err != nil {
				return err
			}
			for i, op := range tr.Prefix {
				if err := c12ApplyPrefix(nm, op); err != nil {
					nm.Close()
					return fmt.Errorf("prefix step %d: %v", i, err)
				}
			}
			out := c12RaceRun(nm, tr.Prefix, tr.Reqs, fs)
			nm.Close()
			if out.Wedged {
				return fmt.Errorf("requests did not finish within 90 s (inconclusive)")
			}
			if out.Err != nil {
				return fmt.Errorf("repetition %d: %v", rep, out.Err)
			}
		}
		return nil
	}
	// the witness of the release/delete window carries both traces
	replayers["C12/witness-"+c12FindingWindow] = func(raw json.RawMessage, fs *hx.FindingSet) error {
		var w c12WindowWitness
		if err := json.Unmarshal(raw, &w); err != nil {
			return err
		}
		if err := runC12Lock(w.Lock); err != nil {
			return err
		}
		if len(w.State.Reqs) > 0 {
			return runC12State(w.State, fs)
		}
		return nil
	}
}

type c12WindowWitness struct {
	Lock  c12LockTrace  `json:"lock"`
	State c12StateTrace `json:"state"`
}

// c12DecodeLockTrace accepts a single trace object or the array of the values passed to cs.Op
// (scenario object, then schedule object).
func c12DecodeLockTrace(raw json.RawMessage) (c12LockTrace, error) {
	var tr c12LockTrace
	var items []json.RawMessage
	if err := json.Unmarshal(raw, &items); err != nil {
		err := json.Unmarshal(raw, &tr)
		return tr, err
	}
	for _, it := range items {
		var part c12LockTrace
		if err := json.Unmarshal(it, &part); err != nil {
			return tr, err
		}
		if part.Threads != nil {
			tr.Threads = part.Threads
		}
		if part.Sched != nil {
			tr.Sched = part.Sched
		}
	}
	return tr, nil
}

// c12DecodeStateTrace: a single object, or the array of cs.Op values (prefix operations one by
// one, the requests, the schedule).
func c12DecodeStateTrace(raw json.RawMessage) (c12StateTrace, error) {
	var tr c12StateTrace
	var items []json.RawMessage
	if err := json.Unmarshal(raw, &items); err != nil {
		err := json.Unmarshal(raw, &tr)
		return tr, err
	}
	for _, it := range items {
		var part c12StateTrace
		if err := json.Unmarshal(it, &part); err != nil {
			return tr, err
		}
		tr.Prefix = append(tr.Prefix, part.Prefix...)
		if part.Reqs != nil {
			tr.Reqs = part.Reqs
		}
		if part.Sched != nil {
			tr.Sched = part.Sched
		}
	}
	return tr, nil
}

func c12SchedOf(steps []hx.SchedStep) []int {
	sched := make([]int, len(steps))
	for i, st := range steps {
		sched[i] = st.T
	}
	return sched
}

func TestC12(t *testing.T) {
	c := hx.NewCollector("C12", "exploration",
		"cooperative deterministic scheduler over the yield points of the real lock protocol (SpinLock.TryLock/Unlock steps, doTxSync locked/beforeWrite/beforePublish, PlayAndRepost afterUnconfirm/beforeWrite, RWMutex acquisition probes); every scheduling choice is a rapid draw (uniform or PCT-style), the executed schedule is recorded. Part A: 2-4 threads TryLock/critical/Unlock on a 1-3 key table, oracle = read/write exclusion at every moment, all entries released, uncontended lock succeeds. Part B: 2-4 concurrent DoTx/SelectUtxos/PlayAndRepost on one node after a sequential prefix, oracle = admitted set applies in some serial order on the model and every observable (pointer, total, balances, UTXO table, key versions, pool) equals model+admitted set, selectors get disjoint unspent outputs, no panic/deadlock, same after reopen. Non-trivial = two requests sharing a lock key were inside their lock-protocol regions (first trylock.key .. last unlock.key) at the same time (>= 1 context switch inside a region); distinct = hash of (scenario, schedule)",
		"interleavings at the granularity of the verifhook yield points (SelectUtxos is one atomic step; a block play has two interior points: after the rollback of conflicting pending transactions and before the write)",
		"VerifyTx (contract re-execution) is done before the concurrent phase: it is not part of the lock protocol",
		"spurious refusals (TryLock is all-or-fail) are not judged: the statement constrains what is admitted",
		"deterministic ECDSA signer; goleveldb on in-memory storage")
	defer c.Flush(t)
	fs := hx.LoadFindings()
	resolveSharedFindings(fs, c)
	regressFixed(t, c, fs, "C12")

	// witnesses of the root causes found on HEAD
	noExclude := os.Getenv("C12_NO_EXCLUDE") == "1"
	for k := range c12Exclude {
		delete(c12Exclude, k)
	}
	{
		var w c12WindowWitness
		var err, err2 error
		w.Lock, err = c12LockWitness()
		w.State, err2 = c12StateWitness(fs)
		if err == nil {
			err = err2
		} else if err2 != nil {
			err = fmt.Errorf("%v; AND at the state level: %v", err, err2)
		}
		if err != nil {
			t.Logf("witness %s: %v", c12FindingWindow, err)
		}
		if witnessVerdict(t, c, fs, c12FindingWindow, err, w) && !noExclude {
			c12Exclude[c12FindingWindow] = true
		}
	}
	if t.Failed() {
		t.Logf("a witness reported a violation that is not listed as known: exploration not started")
		return
	}

	part := os.Getenv("C12_PART") // development aid: "A" or "B" runs one part only
	if part == "" || part == "A" {
		// exhaustive boxes (2 threads cannot form the trigger shape of the known finding)
		if hx.Tier() == "thorough" {
			ns, nsch := c12ExhaustiveLock(t, c, []string{"k0", "k1"}, hx.Shard(), hx.Shards())
			// 3 threads on one key: every mode triple with at most one shared locker, and - while the
			// known finding keeps pre-emptions inside its window out - the 2-reader triples as well
			n3, sch3 := 0, 0
			idx := 0
			for mask := 0; mask < 8; mask++ {
				ths := make([]c12LockThread, 3)
				readers := 0
				for i := range ths {
					x := mask&(1<<uint(i)) != 0
					if !x {
						readers++
					}
					ths[i] = c12LockThread{Keys: []c12LK{{K: "k0", X: x}}, Rounds: 1}
				}
				var wrap func(c12Picker) c12Picker
				if readers == 2 && c12Exclude[c12FindingWindow] {
					wrap = c12NoWindowPreempt
				} else if readers >= 2 {
					continue
				}
				idx++
				if idx%hx.Shards() != hx.Shard()%hx.Shards() {
					continue
				}
				n3++
				labels := c12LockLabels(ths)
				sch3 += c12EnumLock(ths, wrap, func(out c12Outcome) bool {
					tr := c12LockTrace{Threads: ths, Sched: c12SchedOf(out.Steps)}
					if out.Wedged {
						t.Fatalf("harness wedged (inconclusive)")
					}
					if out.Err != nil {
						c.Violate("spinlock-schedules", out.Err.Error(), tr)
						t.Errorf("exhaustive enumeration: %v", out.Err)
						return false
					}
					if wrap != nil {
						c.Exclude(c12FindingWindow)
					}
					c.Count(tr, out.NT, append([]string{"lock-exhaustive"}, labels...)...)
					return true
				})
			}
			c.SetExhaustive(fmt.Sprintf("spinlock: 3 threads x 1 key, mode triples with <= 1 shared locker (2 shared lockers only with the known finding's window pre-emptions excluded), one round each, split over the shards: every schedule (this shard: %d scenarios, %d schedules)", n3, sch3))
			c.SetExhaustive(fmt.Sprintf("spinlock: 2 threads x every non-empty key set over {k0,k1} with every shared/exclusive assignment (64 ordered pairs, split over the shards), one lock/critical/unlock round each: every schedule (this shard: %d scenarios, %d schedules)", ns, nsch))
		} else {
			ns, nsch := c12ExhaustiveLock(t, c, []string{"k0"}, 0, 1)
			c.SetExhaustive(fmt.Sprintf("spinlock: 2 threads x 1 key x {shared, exclusive}^2, one lock/critical/unlock round each: every schedule (%d scenarios, %d schedules)", ns, nsch))
		}
		if t.Failed() {
			return
		}
		c.Check(t, "spinlock-schedules", hx.N(20000, 400000), func(cs *hx.Case) {
			rt := cs.RT()
			ths := c12GenLockScenario(cs)
			cs.Op(c12LockTrace{Threads: ths})
			pick, mode := c12RapidPicker(rt, len(ths), 30)
			if _, hit := c12LockShape(ths); hit && c12Exclude[c12FindingWindow] {
				// the scenario stays; only schedules that pre-empt inside the window are not emitted
				cs.Exclude(c12FindingWindow)
				pick = c12NoWindowPreempt(pick)
			}
			out := c12LockExec(ths, pick)
			cs.Op(c12LockTrace{Sched: c12SchedOf(out.Steps)})
			if out.Wedged {
				t.Fatalf("harness wedged (inconclusive): %s", hx.FormatSteps(out.Steps))
			}
			if out.OverBudget && out.Err == nil {
				cs.Label("step-budget")
				return
			}
			if out.Err != nil {
				cs.Failf("%v", out.Err)
			}
			cs.Label(mode)
			for _, l := range c12LockLabels(ths) {
				cs.Label(l)
			}
			for _, l := range out.Labels {
				cs.Label(l)
			}
			if out.NT {
				cs.Nontrivial()
			}
		})

	}
	if t.Failed() || part == "A" {
		return
	}
	cfg := c12PrefixCfg()
	serialNotes := 0
	c.Check(t, "state-schedules", hx.N(1000, 15000), func(cs *hx.Case) {
		rt := cs.RT()
		sc := c12GenStateCase(t, cs, fs, cfg)
		if sc == nil {
			return
		}
		nm, prefix, reqs, fam, s := sc.nm, sc.prefix, sc.reqs, sc.fam, sc.s
		defer nm.Close()
		cs.Op(c12StateTrace{Reqs: reqs})
		pick, mode := c12RapidPicker(rt, len(reqs), 60)
		if fam == "parent+children" && rapid.IntRange(0, 2).Draw(rt, "parentparked") > 0 {
			// half-directed schedule: the parent parks at a drawn protocol point, one child runs to its end, the parent
			// finishes, then the other child (in a drawn order); the rest runs lowest-first. The requests have been
			// shuffled: the parent is the request whose transaction id the children cite
			parent, kids := -1, []int{}
			ids := map[string]int{}
			for i, rq := range reqs {
				if rq.Kind == "dotx" && rq.Tx != nil {
					spec := *rq.Tx
					if tx, _ := nm.BuildOnModel(&spec, s); tx != nil {
						ids[hex.EncodeToString(tx.Txid)] = i
					}
				}
			}
			for i, rq := range reqs {
				if rq.Kind == "dotx" && rq.Tx != nil && len(rq.Tx.Ins) == 1 {
					if pi, ok := ids[rq.Tx.Ins[0].Txid]; ok && pi != i {
						parent = pi
						kids = append(kids, i)
					}
				}
			}
			if parent >= 0 && len(kids) == 2 {
				at := rapid.SampledFrom([]string{"y:dotx.locked", "y:dotx.beforeWrite", "y:dotx.beforePublish"}).Draw(rt, "parkat")
				c1 := rapid.IntRange(0, 1).Draw(rt, "firstchild")
				pick, mode = c12DirPicker([]c12Dir{{parent, at}, {kids[c1], "done"}, {parent, "done"}, {kids[1-c1], "done"}}), "sched-parent-parked"
			}
		}
		if _, hit := c12StateShape(c12ReqKeysets(nm, s, reqs)); hit && c12Exclude[c12FindingWindow] {
			cs.Exclude(c12FindingWindow)
			pick = c12NoWindowPreempt(pick)
		}
		out := c12Concurrent(nm, prefix, reqs, pick, fs)
		cs.Op(c12StateTrace{Sched: c12SchedOf(out.Steps)})
		if out.Wedged {
			t.Fatalf("harness wedged (inconclusive): %s", hx.FormatSteps(out.Steps))
		}
		if out.OverBudget && out.Err == nil {
			cs.Label("step-budget")
			return
		}
		if out.Err != nil {
			cs.Failf("%v", out.Err)
		}
		if out.SerialNote != "" {
			serialNotes++
			if serialNotes <= 2 {
				b, _ := json.Marshal(cs.Trace)
				t.Logf("C12 note (not a C12 violation): %s; trace %s", out.SerialNote, b)
			}
		}
		cs.Label(mode)
		cs.Label("family-" + fam)
		cs.Label(fmt.Sprintf("state-threads-%d", len(reqs)))
		for _, l := range out.Labels {
			cs.Label(l)
		}
		if out.NT {
			cs.Nontrivial()
		}
	})
}

// TestRaceC12 (Part C): the Part B scenarios with real goroutines and the same end-state oracle; the
// driver runs it from a -race binary. Without the scheduler the window of finding
// C12-spinlock-release-delete-window cannot be kept out of the schedule, so while that finding is
// active its state-level trigger shape (>= 2 readers and >= 2 writers of one key) is not emitted.
func TestRaceC12(t *testing.T) {
	c := hx.NewCollector("C12", "exploration",
		"Part C: the Part B scenarios (sequential prefix, then 2-4 concurrent DoTx/SelectUtxos/PlayAndRepost chosen to conflict) run as real goroutines released together, several repetitions per scenario, same end-state oracle as Part B (admitted set serialisable on the model, all observables, selectors disjoint, no panic, memory == disk); meant for a -race binary. Non-trivial = >= 2 DoTx requests sharing a lock key; distinct = hash of the scenario",
		"the Go scheduler chooses the interleaving (not recorded): a failure is replayed as a Part B scenario under the cooperative scheduler or by repetition")
	defer c.Flush(t)
	fs := hx.LoadFindings()
	resolveSharedFindings(fs, c)
	excludeWindow := false
	{
		tr, err := c12LockWitness()
		if err != nil {
			if f, ok := fs.Listed(c12FindingWindow); ok && f.Status == "known" {
				c.Known(f.What)
			}
			// listed or not (TestC12 reports an unlisted one), the shape is kept out of this search
			excludeWindow = os.Getenv("C12_NO_EXCLUDE") != "1"
			_ = tr
		}
	}
	cfg := c12PrefixCfg()
	c.Check(t, "race-goroutines", hx.N(120, 1500), func(cs *hx.Case) {
		rt := cs.RT()
		sc := c12GenStateCase(t, cs, fs, cfg)
		if sc == nil {
			return
		}
		defer sc.nm.Close()
		reqs := sc.reqs
		if excludeWindow {
			for {
				ks := c12ReqKeysets(sc.nm, sc.s, reqs)
				k, hit := c12StateShape(ks)
				if !hit {
					break
				}
				cs.Exclude(c12FindingWindow)
				for i := range reqs {
					if x, named := ks[i][k]; named && !x {
						reqs = append(reqs[:i:i], reqs[i+1:]...)
						break
					}
				}
			}
		}
		cs.Op(c12StateTrace{Reqs: reqs})
		reps := rapid.IntRange(1, 3).Draw(rt, "repetitions")
		for rep := 0; rep < reps; rep++ {
			// every repetition needs a fresh node (selections stay locked, transactions admitted)
			nm, err := hx.NewNodeMachine(hx.DefaultOpts(), fs)
			if err != nil {
				rt.Fatalf("setup: %v", err)
			}
			for _, op := range sc.prefix {
				if err := c12ApplyPrefix(nm, op); err != nil {
					nm.Close()
					cs.Label("prefix-failed")
					return
				}
			}
			out := c12RaceRun(nm, sc.prefix, reqs, fs)
			nm.Close()
			if out.Wedged {
				t.Fatalf("requests did not finish within 90 s (deadlock or harness wedged): inconclusive")
			}
			if out.Err != nil {
				cs.Failf("repetition %d: %v", rep, out.Err)
			}
			for _, l := range out.Labels {
				cs.Label(l)
			}
		}
		cs.Label("family-" + sc.fam)
		ks := c12ReqKeysets(sc.nm, sc.s, reqs)
		for a := range ks {
			for b := a + 1; b < len(ks); b++ {
				for k := range ks[a] {
					if _, ok := ks[b][k]; ok {
						cs.NontrivialKey(c12StateTrace{Prefix: sc.prefix, Reqs: reqs})
					}
				}
			}
		}
	})
}
