package props

import (
	"fmt"
	"testing"

	"pgregory.net/rapid"

	"verifharness/hx"
)

// genLedgerOp draws the next ledger operation from the current model state.
func genLedgerOp(rt *rapid.T, lm *hx.LedgerMachine, step int, allowTruncate bool) hx.LOp {
	m := lm.M
	stored := m.StoredIdx()
	kind := rapid.IntRange(0, 99).Draw(rt, "kind")
	txPool := []string{"t0", "t1", "t2", "t3", "t4", "t5"}
	drawTxs := func() []string {
		n := rapid.IntRange(0, 3).Draw(rt, "ntx")
		out := []string{}
		seen := map[string]bool{}
		for i := 0; i < n; i++ {
			l := rapid.SampledFrom(txPool).Draw(rt, "tx")
			if !seen[l] {
				seen[l] = true
				out = append(out, l)
			}
		}
		return out
	}
	label := fmt.Sprintf("b%d", len(m.Blocks))
	switch {
	case kind < 62: // valid-shaped block on any stored block (bias to tips)
		var parent int
		if rapid.IntRange(0, 9).Draw(rt, "ptip") < 5 {
			leaves := m.Leaves()
			parent = leaves[rapid.IntRange(0, len(leaves)-1).Draw(rt, "leaf")]
		} else {
			parent = stored[rapid.IntRange(0, len(stored)-1).Draw(rt, "parent")]
		}
		return hx.LOp{Op: "confirm", Label: label, Parent: parent, Txs: drawTxs(), Kind: "ok"}
	case kind < 68:
		parent := stored[rapid.IntRange(0, len(stored)-1).Draw(rt, "parent")]
		return hx.LOp{Op: "confirm", Label: label, Parent: parent, Txs: drawTxs(), Kind: "twocb"}
	case kind < 72:
		// unknown parent, or a parent the model no longer stores (truncated / rejected)
		cands := []int{-1}
		for _, b := range m.Blocks {
			if !b.Stored {
				cands = append(cands, b.Idx)
			}
		}
		p := cands[rapid.IntRange(0, len(cands)-1).Draw(rt, "badparent")]
		return hx.LOp{Op: "confirm", Label: label, Parent: p, Txs: drawTxs(), Kind: "ok"}
	case kind < 78:
		return hx.LOp{Op: "resubmit", Target: rapid.IntRange(0, len(m.Blocks)-1).Draw(rt, "blk")}
	case kind < 90 && allowTruncate:
		main := m.MainChain()
		return hx.LOp{Op: "truncate", Target: main[rapid.IntRange(0, len(main)-1).Draw(rt, "target")]}
	case kind < 94:
		return hx.LOp{Op: "reopen"}
	default:
		leaves := m.Leaves()
		parent := leaves[rapid.IntRange(0, len(leaves)-1).Draw(rt, "leaf")]
		return hx.LOp{Op: "confirm", Label: label, Parent: parent, Txs: drawTxs(), Kind: "ok"}
	}
}

func runLedgerCase(cs *hx.Case, fs *hx.FindingSet, steps int) {
	rt := cs.RT()
	lm, err := hx.NewLedgerMachine(fs)
	if err != nil {
		rt.Fatalf("setup: %v", err)
	}
	defer lm.Close()
	n := rapid.IntRange(1, steps).Draw(rt, "steps")
	for i := 0; i < n; i++ {
		op := genLedgerOp(rt, lm, i, true)
		if msg := ledgerExcluded(lm, fs, op); msg != "" {
			cs.Exclude(msg)
			continue
		}
		cs.Op(op)
		if err := lm.Apply(op); err != nil {
			cs.Failf("step %d %+v: %v", i, op, err)
		}
		if err := lm.CheckInvariant(); err != nil {
			cs.Failf("after step %d %+v: %v", i, op, err)
		}
		// path queries for a sampled pair of stored blocks
		st := lm.M.StoredIdx()
		a := st[rapid.IntRange(0, len(st)-1).Draw(rt, "pa")]
		b := st[rapid.IntRange(0, len(st)-1).Draw(rt, "pb")]
		if err := lm.CheckPaths(a, b); err != nil {
			cs.Failf("after step %d: %v", i, err)
		}
	}
	if lm.Reorgs > 0 {
		cs.Label("reorg")
	}
	if lm.SharedMoved > 0 {
		cs.Label("reorg-moves-shared-tx")
	}
	if lm.Truncs > 0 {
		cs.Label("truncate")
	}
	if lm.Truncs > 1 {
		cs.Label("truncate-twice")
	}
	if lm.Rejected > 0 {
		cs.Label("rejected-block")
	}
	if lm.Reopens > 0 {
		cs.Label("reopen")
	}
	if lm.SharedMoved > 0 || lm.Truncs > 1 {
		cs.Nontrivial()
	}
}

// ledgerExcluded: generator-side exclusions for listed findings that are still active.
func ledgerExcluded(lm *hx.LedgerMachine, fs *hx.FindingSet, op hx.LOp) string {
	if fs.Active("C04-dup-tx-own-branch") && lm.SideDupOwnAncestor(op) {
		return "C04-dup-tx-own-branch"
	}
	return ""
}

// resolveLedgerFindings probes the witnesses of the ledger-level findings (owner: C04).
func resolveLedgerFindings(fs *hx.FindingSet, owner *hx.Collector) {
	for _, id := range []string{"C04-dup-tx-own-branch"} {
		if f, ok := fs.Listed(id); ok {
			w := f.Witness
			fs.Resolve(id, owner, func() bool { return witnessStillFails(w) })
		}
	}
}

func TestC04(t *testing.T) {
	c := hx.NewCollector("C04", "exploration",
		"rapid state machine over one ledger: confirm (valid / two-coinbase / unknown-parent / shared transactions) on any stored block, caller-level resubmission, truncate to any main-chain block, reopen; after every step all ledger queries are compared with a reference block-tree model. Non-trivial = a reorganisation in which a shared transaction changes its block, or a second truncation; distinct = hash of the operation trace",
		"goleveldb on in-memory storage behaves like LevelDB", "blocks reach ConfirmBlock only after their parent and never twice (miner.trySyncBlock / downloadMissBlock skip blocks the ledger has)")
	defer c.Flush(t)
	fs := hx.LoadFindings()
	resolveLedgerFindings(fs, c)
	regressFixed(t, c, fs, "C04")
	c.Check(t, "ledger-machine", hx.N(1500, 12000), func(cs *hx.Case) {
		runLedgerCase(cs, fs, 30)
	})
	if t.Failed() {
		return
	}
	// capacity (round-7 angle): the ledger's block / header caches hold 100 entries (a compile-time constant), which a
	// 30-step history never fills. These histories start with 95-135 stored blocks - one long chain, or two branches
	// from genesis the second of which overtakes the first (a reorganisation deeper than half the cache while older
	// entries are being evicted) - built by ordinary confirm operations (checked once at the end of the prefix), followed
	// by the usual operations with the full oracle after every step
	c.Check(t, "ledger-machine-long", hx.N(40, 250), func(cs *hx.Case) {
		runLongLedgerCase(cs, fs)
	})
}

func runLongLedgerCase(cs *hx.Case, fs *hx.FindingSet) {
	rt := cs.RT()
	lm, err := hx.NewLedgerMachine(fs)
	if err != nil {
		rt.Fatalf("setup: %v", err)
	}
	defer lm.Close()
	step := 0
	apply := func(op hx.LOp, check bool) {
		if msg := ledgerExcluded(lm, fs, op); msg != "" {
			cs.Exclude(msg)
			return
		}
		cs.Op(op)
		if err := lm.Apply(op); err != nil {
			cs.Failf("step %d %+v: %v", step, op, err)
		}
		if check {
			if err := lm.CheckInvariant(); err != nil {
				cs.Failf("after step %d %+v: %v", step, op, err)
			}
		}
		step++
	}
	txs := func() []string {
		if rapid.IntRange(0, 3).Draw(rt, "withtx") == 0 {
			return []string{rapid.SampledFrom([]string{"t0", "t1", "t2", "t3", "t4", "t5"}).Draw(rt, "tx")}
		}
		return []string{}
	}
	extend := func(parent int) int {
		apply(hx.LOp{Op: "confirm", Label: fmt.Sprintf("b%d", len(lm.M.Blocks)), Parent: parent, Txs: txs(), Kind: "ok"}, false)
		return len(lm.M.Blocks) - 1
	}
	if rapid.Bool().Draw(rt, "twobranches") {
		a := rapid.IntRange(48, 66).Draw(rt, "branchlen")
		tipA, tipB := 0, 0
		for i := 0; i < a; i++ {
			tipA = extend(tipA)
		}
		for i := 0; i < a+1; i++ {
			tipB = extend(tipB)
		}
		cs.Label("long-prefix:two-branches-deep-reorg")
	} else {
		n := rapid.IntRange(95, 135).Draw(rt, "chainlen")
		tip := 0
		for i := 0; i < n; i++ {
			tip = extend(tip)
			if i%23 == 22 {
				extend(lm.M.Blocks[tip].Parent) // a side stub now and then
			}
		}
		cs.Label("long-prefix:one-chain")
	}
	if err := lm.CheckInvariant(); err != nil {
		cs.Failf("after the long prefix (%d blocks): %v", len(lm.M.Blocks)-1, err)
	}
	n := rapid.IntRange(1, 12).Draw(rt, "steps")
	for i := 0; i < n; i++ {
		apply(genLedgerOp(rt, lm, step, true), true)
		st := lm.M.StoredIdx()
		a := st[rapid.IntRange(0, len(st)-1).Draw(rt, "pa")]
		b := st[rapid.IntRange(0, len(st)-1).Draw(rt, "pb")]
		if err := lm.CheckPaths(a, b); err != nil {
			cs.Failf("after step %d: %v", step, err)
		}
	}
	if len(lm.M.StoredIdx()) > 100 {
		cs.Nontrivial()
	}
	if lm.Reorgs > 0 {
		cs.Label("long:reorg")
	}
	if lm.Truncs > 0 {
		cs.Label("long:truncate")
	}
}
