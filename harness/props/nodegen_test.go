package props

// nodegen_test.go: rapid generators for the node machine (shared by C01, C02, C03, C05, C06, C17, C18).

import (
	"encoding/hex"
	"fmt"
	"math/big"
	"strings"

	"pgregory.net/rapid"

	pb "github.com/xuperchain/xupercore/bcs/ledger/xledger/xldgpb"

	"verifharness/hx"
)

// genCfg tunes the operation mix of a property.
type genCfg struct {
	MaxSteps                                                   int
	ForkPrefix                                                 bool
	WrongFrozenPct                                             int                                          // share of inputs citing a frozen height the output does not have
	Mix                                                        func(rt *rapid.T, nm *hx.NodeMachine) hx.NOp // optional: replaces genNodeOp
	Opts                                                       func(rt *rapid.T, o *hx.NodeOpts)            // optional: draws genesis options
	MinSteps                                                   int
	AllowTruncate                                              bool
	AllowPrune                                                 bool
	AllowReopen                                                bool
	Keys                                                       []string
	WTx, WMine, WPeer, WSync, WWalk, WPlay, WReopen, WTruncate int
	ContractPct                                                int // share of contract transactions
	Windows                                                    []int64
	BigAmounts                                                 bool
}

func defaultGenCfg() genCfg {
	return genCfg{MaxSteps: 24, MinSteps: 4, ForkPrefix: true, AllowReopen: true, Keys: []string{"a", "b", "c", "d"},
		WTx: 34, WMine: 12, WPeer: 20, WSync: 8, WWalk: 13, WPlay: 8, WReopen: 4, WTruncate: 0,
		ContractPct: 45, Windows: []int64{0}}
}

func drawProg(rt *rapid.T, keys []string, depth int) []hx.Ins {
	n := rapid.IntRange(1, 4).Draw(rt, "proglen")
	var prog []hx.Ins
	for i := 0; i < n; i++ {
		k := rapid.SampledFrom(keys).Draw(rt, "k")
		switch op := rapid.IntRange(0, 99).Draw(rt, "insop"); {
		case op < 28:
			prog = append(prog, hx.Ins{Op: "put", K: k, V: fmt.Sprintf("v%d", rapid.IntRange(0, 9).Draw(rt, "val"))})
		case op < 42:
			prog = append(prog, hx.Ins{Op: "get", K: k})
		case op < 58:
			prog = append(prog, hx.Ins{Op: "del", K: k})
		case op < 72:
			prog = append(prog, hx.Ins{Op: "putfrom", K: k, K2: rapid.SampledFrom(keys).Draw(rt, "k2"), V: fmt.Sprintf("p%d", rapid.IntRange(0, 9).Draw(rt, "val"))})
		case op < 86:
			lo := rapid.SampledFrom(keys).Draw(rt, "lo")
			hi := rapid.SampledFrom(append(append([]string{}, keys...), "zz")).Draw(rt, "hi")
			if hi < lo {
				lo, hi = hi, lo
			}
			prog = append(prog, hx.Ins{Op: "scan", K: lo, K2: hi, N: rapid.IntRange(0, 2).Draw(rt, "limit"), V: k})
		case op < 94 && depth == 0:
			prog = append(prog, hx.Ins{Op: "call", Prog: drawProg(rt, keys, depth+1)})
		default:
			prog = append(prog, hx.Ins{Op: "emit", K: "ev", V: k})
		}
	}
	return prog
}

// progScanHitsMiss: trigger shape of finding C10-scan-yields-missed-key - the program (incl. nested
// calls, which share the sandbox) scans a range of a bucket that contains a key the same program
// accesses while that key has never been written in state s.
func progScanHitsMiss(prog []hx.Ins, s *hx.MState, self string) bool {
	type acc struct{ b, k string }
	var accessed []acc
	type rng struct{ b, lo, hi string }
	var scans []rng
	var walk func(p []hx.Ins, self string)
	walk = func(p []hx.Ins, self string) {
		for _, in := range p {
			b := in.B
			if b == "" {
				b = self
			}
			switch in.Op {
			case "get", "put", "del":
				accessed = append(accessed, acc{b, in.K})
			case "putfrom":
				accessed = append(accessed, acc{b, in.K}, acc{b, in.K2})
			case "scan":
				scans = append(scans, rng{b, in.K, in.K2})
				if in.V != "" {
					accessed = append(accessed, acc{b, in.V})
				}
			case "call":
				walk(in.Prog, hx.VerifContract2)
			}
		}
	}
	walk(prog, self)
	for _, sc := range scans {
		for _, a := range accessed {
			if a.b == sc.b && a.k >= sc.lo && a.k < sc.hi && s.KV[hx.RawKey(a.b, a.k)] == nil {
				return true
			}
		}
	}
	return false
}

// spendable lists the outputs of addr the generator may spend from s.
func spendable(s *hx.MState, addr string, ledgerHeight int64, allowThawed bool) []*hx.UTXO {
	var out []*hx.UTXO
	for _, u := range s.UtxosOf(addr) {
		if u.Frozen == 0 || (allowThawed && u.Frozen > 0 && u.Frozen <= ledgerHeight) {
			out = append(out, u)
		}
	}
	return out
}

// genTxSpec draws a transaction valid on s (model state). It returns false if nobody can pay.
func genTxSpec(rt *rapid.T, nm *hx.NodeMachine, s *hx.MState, cfg genCfg, height int64, allowThawed bool) (hx.TxSpec, bool) {
	var payers []int
	for i := 0; i < 6; i++ {
		if len(spendable(s, hx.Ring[i].Address, height, allowThawed)) > 0 {
			payers = append(payers, i)
		}
	}
	if len(payers) == 0 {
		return hx.TxSpec{}, false
	}
	from := payers[rapid.IntRange(0, len(payers)-1).Draw(rt, "from")]
	us := spendable(s, hx.Ring[from].Address, height, allowThawed)
	nin := rapid.IntRange(1, minInt(3, len(us))).Draw(rt, "nin")
	start := rapid.IntRange(0, len(us)-1).Draw(rt, "instart")
	nm.Seq++
	spec := hx.TxSpec{From: from, Seq: nm.Seq, Version: int32(rapid.SampledFrom([]int{3, 3, 3, 1, 2}).Draw(rt, "version"))}
	total := big.NewInt(0)
	for i := 0; i < nin; i++ {
		u := us[(start+i)%len(us)]
		ref := hx.InRef{Addr: from, Txid: hex.EncodeToString(u.Txid), Off: u.Off, Amount: u.Amount.String(), Frozen: u.Frozen}
		if cfg.WrongFrozenPct > 0 && !nm.FS.Active("C01-undo-restores-cited-frozen-height") && rapid.IntRange(0, 99).Draw(rt, "wrongfrozen") < cfg.WrongFrozenPct {
			// the spender cites another frozen height than the output has (nothing checks the citation)
			ref.Frozen = u.Frozen + int64(rapid.SampledFrom([]int{-1, 1, 7}).Draw(rt, "frozendelta"))
			nm.Stat["input-cites-wrong-frozen-height"]++
		}
		spec.Ins = append(spec.Ins, ref)
		total.Add(total, u.Amount)
	}
	rest := new(big.Int).Set(total)
	take := func(max *big.Int, label string) *big.Int {
		// a share of what is left: 0, 1, small, half, all
		var v *big.Int
		hi := 5
		if max.BitLen() > 32 {
			hi = 7 // amounts at machine-word boundaries only exist on chains with big genesis amounts
		}
		switch rapid.IntRange(0, hi).Draw(rt, label) {
		case 6, 7:
			// word boundaries (round-7 change C01-k: a zero test on the low 64 bits): 2^31, 2^32, 2^63, 2^64 and the
			// largest multiple of 2^64 that is still available
			cands := []*big.Int{}
			for _, sh := range []uint{31, 32, 63, 64} {
				if b := new(big.Int).Lsh(big.NewInt(1), sh); b.Cmp(max) <= 0 {
					cands = append(cands, b)
				}
			}
			if max.BitLen() > 64 {
				m := new(big.Int).Rsh(max, 64)
				cands = append(cands, m.Lsh(m, 64))
			}
			v = cands[rapid.IntRange(0, len(cands)-1).Draw(rt, label+"w")]
		case 0:
			v = big.NewInt(0)
		case 1:
			v = big.NewInt(1)
		case 2:
			v = big.NewInt(int64(rapid.IntRange(2, 500).Draw(rt, label+"s")))
		case 3:
			v = new(big.Int).Div(max, big.NewInt(2))
		case 4:
			v = new(big.Int).Div(max, big.NewInt(3))
		default:
			v = new(big.Int).Set(max)
		}
		if v.Cmp(max) > 0 {
			v = new(big.Int).Set(max)
		}
		return v
	}
	if rapid.IntRange(0, 99).Draw(rt, "contract") < cfg.ContractPct {
		spec.Prog = drawProg(rt, cfg.Keys, 0)
		if nm.FS.Active("C10-scan-yields-missed-key") && progScanHitsMiss(spec.Prog, s, hx.VerifContract) {
			nm.Stat["excluded:C10-scan-yields-missed-key"]++
			spec.Prog = stripScans(spec.Prog)
		}
		if rapid.IntRange(0, 9).Draw(rt, "usefee") == 0 && rest.Cmp(big.NewInt(50)) > 0 {
			fee := int64(rapid.IntRange(1, 40).Draw(rt, "xfee"))
			spec.Prog = append(spec.Prog, hx.Ins{Op: "fee", N: int(fee)})
			spec.Outs = append(spec.Outs, hx.OutSpec{To: -1, Amount: fmt.Sprint(fee)})
			rest.Sub(rest, big.NewInt(fee))
		}
	} else if rapid.IntRange(0, 3).Draw(rt, "withfee") == 0 && rest.Sign() > 0 {
		fee := take(rest, "fee")
		if fee.Sign() > 0 {
			spec.Outs = append(spec.Outs, hx.OutSpec{To: -1, Amount: fee.String()})
			rest.Sub(rest, fee)
			// now and then a second fee output (every output addressed to the placeholder is a fee for the proposer)
			if rest.Sign() > 0 && rapid.IntRange(0, 3).Draw(rt, "fee2") == 0 {
				fee2 := take(rest, "fee2amt")
				if fee2.Sign() > 0 {
					spec.Outs = append(spec.Outs, hx.OutSpec{To: -1, Amount: fee2.String()})
					rest.Sub(rest, fee2)
					nm.Stat["tx-with-two-fee-outputs"]++
				}
			}
		}
	}
	nout := rapid.IntRange(0, 3).Draw(rt, "nout")
	for i := 0; i < nout; i++ {
		amt := take(rest, "amt")
		o := hx.OutSpec{To: rapid.IntRange(0, 6).Draw(rt, "to"), Amount: amt.String()}
		switch rapid.IntRange(0, 11).Draw(rt, "frozen") {
		case 0:
			o.Frozen = height + int64(rapid.IntRange(1, 3).Draw(rt, "fh"))
		case 1:
			o.Frozen = -1
		case 2:
			o.Frozen = int64(rapid.IntRange(1, 3).Draw(rt, "fl"))
		}
		spec.Outs = append(spec.Outs, o)
		rest.Sub(rest, amt)
	}
	// change back to the payer (keeps inputs == outputs)
	if rest.Sign() > 0 || len(spec.Outs) == 0 {
		spec.Outs = append(spec.Outs, hx.OutSpec{To: from, Amount: rest.String()})
	}
	return spec, true
}

// stripScans removes the scan instructions (used when a listed finding excludes the shape).
func stripScans(prog []hx.Ins) []hx.Ins {
	var out []hx.Ins
	for _, in := range prog {
		if in.Op == "scan" {
			continue
		}
		if in.Op == "call" {
			in.Prog = stripScans(in.Prog)
			if len(in.Prog) == 0 {
				continue
			}
		}
		out = append(out, in)
	}
	if len(out) == 0 {
		out = []hx.Ins{{Op: "get", K: "a"}}
	}
	return out
}

func minInt(a, b int) int {
	if a < b {
		return a
	}
	return b
}

// genNodeOp draws the next operation from the model state.
func genNodeOp(rt *rapid.T, nm *hx.NodeMachine, cfg genCfg) hx.NOp {
	m := nm.LM.M
	w := []int{cfg.WTx, cfg.WMine, cfg.WPeer, cfg.WSync, cfg.WWalk, cfg.WPlay, cfg.WReopen, cfg.WTruncate}
	tot := 0
	for _, x := range w {
		tot += x
	}
	r := rapid.IntRange(0, tot-1).Draw(rt, "opkind")
	kind := 0
	for r >= w[kind] {
		r -= w[kind]
		kind++
	}
	label := fmt.Sprintf("b%d", len(m.Blocks))
	// a stored child of the state pointer that has not been played: play it now and then (PlayAndRepost with the pool
	// as it is; otherwise most such blocks are reached by sync / walk, i.e. through Walk)
	if cfg.WPlay > 0 {
		var kids []int
		for _, b := range m.Blocks {
			if b.Stored && b.Parent == nm.Ptr && b.Idx != 0 {
				kids = append(kids, b.Idx)
			}
		}
		if len(kids) > 0 && rapid.IntRange(0, 1).Draw(rt, "playkid") == 0 {
			return hx.NOp{Op: "play", Target: kids[rapid.IntRange(0, len(kids)-1).Draw(rt, "kid")]}
		}
	}
	validStored := func() []int {
		var out []int
		for _, b := range m.Blocks {
			if b.Stored && nm.Valid[b.Idx] {
				out = append(out, b.Idx)
			}
		}
		return out
	}
	allowThawed := !cfg.AllowTruncate
	switch kind {
	case 0: // tx
		spec, ok := genTxSpec(rt, nm, nm.PoolState(), cfg, m.Blocks[m.Tip].Height, allowThawed)
		if !ok {
			return hx.NOp{Op: "sync"}
		}
		return hx.NOp{Op: "tx", Tx: &spec}
	case 1: // mine (the miner syncs first)
		if nm.Ptr != m.Tip {
			return hx.NOp{Op: "sync"}
		}
		if nm.FS.Active("C13-timer-tx-sees-pending-task") && (nm.PendingTimerFor(m.Blocks[m.Tip].Height+1) || nm.TimerConflictsWithPool(m.Blocks[m.Tip].Height+1)) {
			nm.Stat["excluded:C13-timer-tx-sees-pending-task"]++
			return hx.NOp{Op: "sync"}
		}
		return hx.NOp{Op: "mine", Label: label, Proposer: rapid.IntRange(0, 2).Draw(rt, "proposer")}
	case 2: // peer block on any valid stored block (bias: leaves of any branch, tip, state pointer)
		vs := validStored()
		var parent int
		switch rapid.IntRange(0, 9).Draw(rt, "pwhere") {
		case 0, 1:
			parent = nm.Ptr
		case 2, 3:
			parent = m.Tip
		case 4, 5, 6:
			leaves := m.Leaves()
			parent = leaves[rapid.IntRange(0, len(leaves)-1).Draw(rt, "leaf")]
		default:
			parent = vs[rapid.IntRange(0, len(vs)-1).Draw(rt, "parent")]
		}
		if !nm.Valid[parent] {
			parent = vs[0]
		}
		return genPeerOn(rt, nm, cfg, parent)
	case 3:
		return hx.NOp{Op: "sync"}
	case 4:
		vs := validStored()
		target := vs[rapid.IntRange(0, len(vs)-1).Draw(rt, "target")]
		if rapid.IntRange(0, 1).Draw(rt, "toleaf") == 0 {
			var leaves []int
			for _, l := range m.Leaves() {
				if nm.Valid[l] {
					leaves = append(leaves, l)
				}
			}
			if len(leaves) > 0 {
				target = leaves[rapid.IntRange(0, len(leaves)-1).Draw(rt, "tleaf")]
			}
		}
		return hx.NOp{Op: "walk", Target: target, Prune: cfg.AllowPrune && rapid.IntRange(0, 5).Draw(rt, "prune") == 0}
	case 5:
		var kids []int
		for _, b := range m.Blocks {
			if b.Stored && b.Parent == nm.Ptr && b.Idx != 0 {
				kids = append(kids, b.Idx)
			}
		}
		if len(kids) == 0 {
			return hx.NOp{Op: "sync"}
		}
		return hx.NOp{Op: "play", Target: kids[rapid.IntRange(0, len(kids)-1).Draw(rt, "kid")]}
	case 6:
		return hx.NOp{Op: "reopen"}
	default:
		main := m.MainChain()
		return hx.NOp{Op: "truncate", Target: main[rapid.IntRange(0, len(main)-1).Draw(rt, "ttarget")]}
	}
}

// genPeerOn draws a peer block (valid on its parent's state) on the given parent.
func genPeerOn(rt *rapid.T, nm *hx.NodeMachine, cfg genCfg, parent int) hx.NOp {
	m := nm.LM.M
	label := fmt.Sprintf("b%d", len(m.Blocks))
	op := hx.NOp{Op: "peer", Label: label, Parent: parent, Proposer: rapid.IntRange(0, 2).Draw(rt, "proposer")}
	s := nm.States[parent].Clone()
	h := m.Blocks[parent].Height + 1
	// sometimes re-use transactions of blocks on OTHER branches that are still valid here (the same
	// transaction on competing branches: transaction-to-block mapping, duplicate rule, reorganisation)
	if rapid.IntRange(0, 2).Draw(rt, "foreign") == 0 {
		onChain := map[int]bool{}
		for j := parent; j >= 0; j = m.Blocks[j].Parent {
			onChain[j] = true
		}
		var cands []*pb.Transaction
		for _, b := range m.Blocks {
			if onChain[b.Idx] || !b.Stored {
				continue
			}
			for _, t := range nm.BlockTxs[b.Idx] {
				// not the ones spending once-frozen outputs: their validity depends on the ledger
				// height at play time, not on the branch
				thawed := false
				for _, ti := range t.TxInputs {
					if ti.FrozenHeight != 0 {
						thawed = true
					}
				}
				if !t.Coinbase && !t.Autogen && !thawed {
					cands = append(cands, t)
				}
			}
		}
		for k := 0; k < 2 && len(cands) > 0; k++ {
			t := cands[rapid.IntRange(0, len(cands)-1).Draw(rt, "foreigntx")]
			if s.Check(t, h) == nil {
				s.Apply(t, hx.Ring[op.Proposer].Address)
				op.Old = append(op.Old, hex.EncodeToString(t.Txid))
			}
		}
	}
	// directed conflict: a pending transaction has read a key that was NEVER written (it cites no version) and does not
	// write it itself; every other block on the state pointer creates exactly that key (the reader must leave the pool)
	if parent == nm.Ptr && cfg.ContractPct > 0 {
		var absent []string
		for _, ptx := range nm.Pool {
			for _, ie := range ptx.TxInputsExt {
				if ie.Bucket != hx.VerifContract || len(ie.RefTxid) > 0 {
					continue
				}
				writes := false
				for _, oe := range ptx.TxOutputsExt {
					writes = writes || (oe.Bucket == ie.Bucket && string(oe.Key) == string(ie.Key))
				}
				if _, known := s.KV[hx.RawKey(ie.Bucket, string(ie.Key))]; !writes && !known {
					absent = append(absent, string(ie.Key))
				}
			}
		}
		if len(absent) > 0 && rapid.IntRange(0, 1).Draw(rt, "createabsent") == 0 {
			k := absent[rapid.IntRange(0, len(absent)-1).Draw(rt, "absentkey")]
			c := cfg
			c.ContractPct = 100
			if spec, ok := genTxSpec(rt, nm, s, c, 0, false); ok {
				spec.Prog = append([]hx.Ins{{Op: "put", K: k, V: "created"}}, spec.Prog...)
				if tx, _ := buildForGen(nm, &spec, s); tx != nil && s.Check(tx, h) == nil {
					s.Apply(tx, hx.Ring[op.Proposer].Address)
					op.Txs = append(op.Txs, spec)
					nm.Stat["peer-creates-key-a-pending-tx-read-as-absent"]++
				}
			}
		}
	}
	ntx := rapid.IntRange(0, 3).Draw(rt, "nptx")
	for i := 0; i < ntx; i++ {
		spec, ok := genTxSpec(rt, nm, s, cfg, 0, false)
		if !ok {
			break
		}
		tx, _ := buildForGen(nm, &spec, s)
		if tx == nil || s.Check(tx, h) != nil {
			continue
		}
		s.Apply(tx, hx.Ring[op.Proposer].Address)
		op.Txs = append(op.Txs, spec)
	}
	// now and then the award transaction has a second output (HEAD's award rule reads output 0 only: a valid block
	// whose award mints two outputs, both part of the supply while the block is applied)
	if rapid.IntRange(0, 7).Draw(rt, "award2") == 0 {
		op.CBIn = 4
	}
	// sometimes the block arrives with a next link already filled in (the ledger has to ignore it)
	if rapid.IntRange(0, 7).Draw(rt, "presetnext") == 0 {
		op.PresetNext = true
	}
	// sometimes include transactions the node has pending
	inclOdds := 2
	if parent == nm.Ptr {
		inclOdds = 1 // a child of the state pointer confirming pending transactions exercises PlayAndRepost's pool handling
	}
	if len(nm.Pool) > 0 && rapid.IntRange(0, inclOdds).Draw(rt, "inclpool") == 0 {
		// now and then the first included pending transaction is carried with an altered body under its own id
		if rapid.IntRange(0, 3).Draw(rt, "poolmut") == 0 {
			op.PoolMut = true
		}
		k := rapid.IntRange(1, len(nm.Pool)).Draw(rt, "npool")
		for i := 0; i < k; i++ {
			op.Pool = append(op.Pool, hex.EncodeToString(nm.Pool[i].Txid))
		}
	}
	return op
}

// buildForGen lets the generator see the transaction a spec produces on a model state, so that
// later specs of the same block can spend / read what earlier ones created.
func buildForGen(nm *hx.NodeMachine, spec *hx.TxSpec, s *hx.MState) (*pb.Transaction, *hx.PreExecResult) {
	return nm.BuildOnModel(spec, s)
}

// genAdvOp draws an adversarial candidate (C02 / C03 / C05): most must be refused, a few are valid
// unusual encodings; the model decides which.
func genAdvOp(rt *rapid.T, nm *hx.NodeMachine, cfg genCfg) hx.NOp {
	return genAdvOpOn(rt, nm, cfg, nm.PoolState())
}

// genAdvOpOn: the candidate is assembled against the given model state (pool state for submissions, the chain state
// of the parent for candidates delivered inside a block).
func genAdvOpOn(rt *rapid.T, nm *hx.NodeMachine, cfg genCfg, s *hx.MState) hx.NOp {
	m := nm.LM.M
	h := m.Blocks[m.Tip].Height
	base, ok := genTxSpec(rt, nm, s, genCfg{Keys: cfg.Keys, ContractPct: 0}, h, false)
	if !ok {
		return hx.NOp{Op: "sync"}
	}
	addTo := func(sp *hx.TxSpec, i int, d int64) {
		a, _ := new(big.Int).SetString(sp.Outs[i].Amount, 10)
		a.Add(a, big.NewInt(d))
		if a.Sign() < 0 {
			a.SetInt64(0)
		}
		sp.Outs[i].Amount = a.String()
	}
	last := len(base.Outs) - 1
	kind := rapid.IntRange(0, 16).Draw(rt, "advkind")
	if kind > 13 {
		kind = 7 // spent / off-chain outputs are the richest family
	}
	switch kind {
	case 0: // outputs != inputs
		addTo(&base, rapid.IntRange(0, last).Draw(rt, "which"), int64(rapid.SampledFrom([]int{1, -1, 1000}).Draw(rt, "delta")))
		inSum, outSum := big.NewInt(0), big.NewInt(0)
		for _, in := range base.Ins {
			a, _ := new(big.Int).SetString(in.Amount, 10)
			inSum.Add(inSum, a)
		}
		for _, o := range base.Outs {
			a, _ := new(big.Int).SetString(o.Amount, 10)
			outSum.Add(outSum, a)
		}
		flag := rapid.IntRange(0, 3).Draw(rt, "flag")
		if inSum.Cmp(outSum) == 0 {
			flag = 3 // the clamp at zero left it balanced: the pool path refuses the autogen flag on ANY transaction
		}
		switch flag {
		case 0:
			base.Marked = true // "modified by the regulator": not covered by id or signature
			return hx.NOp{Op: "tx", Tx: &base, Expect: "unbalanced+marked-flag"}
		case 1:
			base.Autogen = true
			return hx.NOp{Op: "tx", Tx: &base, Expect: "unbalanced+autogen-flag"}
		}
		return hx.NOp{Op: "tx", Tx: &base, Expect: "unbalanced"}
	case 1: // the same input twice, outputs balanced against the cited sum
		base.Ins = append(base.Ins, base.Ins[0])
		a, _ := new(big.Int).SetString(base.Ins[0].Amount, 10)
		o, _ := new(big.Int).SetString(base.Outs[last].Amount, 10)
		base.Outs[last].Amount = o.Add(o, a).String()
		return hx.NOp{Op: "tx", Tx: &base, Expect: "duplicate-input"}
	case 2: // input cites a larger amount than the output has
		a, _ := new(big.Int).SetString(base.Ins[0].Amount, 10)
		base.Ins[0].Amount = a.Add(a, big.NewInt(7)).String()
		addTo(&base, last, 7)
		return hx.NOp{Op: "tx", Tx: &base, Expect: "wrong-cited-amount"}
	case 3: // spend a still-frozen output
		for i := 0; i < 7; i++ {
			for _, u := range s.UtxosOf(hx.Ring[i].Address) {
				if u.Frozen == -1 || u.Frozen > h {
					nm.Seq++
					sp := hx.TxSpec{From: i, Seq: nm.Seq, Version: 3,
						Ins:  []hx.InRef{{Addr: i, Txid: hex.EncodeToString(u.Txid), Off: u.Off, Amount: u.Amount.String(), Frozen: u.Frozen}},
						Outs: []hx.OutSpec{{To: i, Amount: u.Amount.String()}}}
					return hx.NOp{Op: "tx", Tx: &sp, Expect: "frozen-input"}
				}
			}
		}
		return hx.NOp{Op: "tx", Tx: &base, Expect: "valid"}
	case 4: // coinbase flag on a submitted transaction (mints)
		nm.Seq++
		sp := hx.TxSpec{From: base.From, Seq: nm.Seq, Version: 3, Coinbase: true, Outs: []hx.OutSpec{{To: base.From, Amount: "777"}}}
		if rapid.Bool().Draw(rt, "withins") {
			sp.Ins = base.Ins
		}
		return hx.NOp{Op: "tx", Tx: &sp, Expect: "coinbase-flag"}
	case 5: // non-canonical (leading zero) cited input amount
		a, _ := new(big.Int).SetString(base.Ins[0].Amount, 10)
		base.Ins[0].Raw = "00" + hex.EncodeToString(a.Bytes())
		return hx.NOp{Op: "tx", Tx: &base, Expect: "leading-zero-input-amount"}
	case 6: // leading-zero output amount: same value, valid
		a, _ := new(big.Int).SetString(base.Outs[0].Amount, 10)
		base.Outs[0].Raw = "0000" + hex.EncodeToString(a.Bytes())
		return hx.NOp{Op: "tx", Tx: &base, Expect: "leading-zero-output-amount(valid)"}
	case 7: // spend an output that a confirmed or pending transaction already spent
		// outputs spent by pending transactions or anywhere on the pointer's chain, and outputs
		// (incl. fee outputs for the proposer) that only exist on blocks off the pointer's chain
		var spent []hx.InRef
		onChain := map[int]bool{}
		lists := [][]*pb.Transaction{nm.Pool}
		for j := nm.Ptr; j >= 0; j = m.Blocks[j].Parent {
			onChain[j] = true
			lists = append(lists, nm.BlockTxs[j])
		}
		for _, btxs := range lists {
			for _, t := range btxs {
				for _, ti := range t.TxInputs {
					if k := hx.KeyOf(string(ti.FromAddr)); k != nil {
						spent = append(spent, hx.InRef{Addr: k.Idx, Txid: hex.EncodeToString(ti.RefTxid), Off: ti.RefOffset, Amount: new(big.Int).SetBytes(ti.Amount).String(), Frozen: ti.FrozenHeight})
					}
				}
			}
		}
		for _, b := range m.Blocks {
			if onChain[b.Idx] || len(nm.BlockTxs[b.Idx]) == 0 {
				continue
			}
			prop := string(b.Block.Proposer)
			for _, t := range nm.BlockTxs[b.Idx] {
				for off, o := range t.TxOutputs {
					owner := string(o.ToAddr)
					if owner == hx.FeeAddr {
						owner = prop
					}
					k := hx.KeyOf(owner)
					amt := new(big.Int).SetBytes(o.Amount)
					if k == nil || k.Idx > 6 || amt.Sign() == 0 || s.U[hx.UKey(owner, t.Txid, int32(off))] != nil {
						continue
					}
					fr := o.FrozenHeight
					if string(o.ToAddr) == hx.FeeAddr {
						fr = 0
					}
					spent = append(spent, hx.InRef{Addr: k.Idx, Txid: hex.EncodeToString(t.Txid), Off: int32(off), Amount: amt.String(), Frozen: fr})
				}
			}
		}
		if len(spent) == 0 {
			return hx.NOp{Op: "tx", Tx: &base, Expect: "valid"}
		}
		r := spent[rapid.IntRange(0, len(spent)-1).Draw(rt, "spentref")]
		nm.Seq++
		sp := hx.TxSpec{From: r.Addr, Seq: nm.Seq, Version: 3, Ins: []hx.InRef{r}, Outs: []hx.OutSpec{{To: r.Addr, Amount: r.Amount}}}
		return hx.NOp{Op: "tx", Tx: &sp, Expect: "double-spend"}
	case 8: // the very same transaction again
		if len(nm.Pool) > 0 {
			id := hex.EncodeToString(nm.Pool[rapid.IntRange(0, len(nm.Pool)-1).Draw(rt, "again")].Txid)
			if sp, ok := nm.Specs[id]; ok {
				return hx.NOp{Op: "tx", Tx: &sp, Expect: "resubmitted"}
			}
		}
		return hx.NOp{Op: "tx", Tx: &base, Expect: "valid"}
	case 12, 13: // a family assembled against the same pending state, all verified before any is applied
		op := hx.NOp{Op: "txbatch", Expect: "verified-together"}
		k := rapid.IntRange(2, 3).Draw(rt, "batchn")
		for i := 0; i < k; i++ {
			c2 := cfg
			c2.ContractPct = 70
			c2.Keys = cfg.Keys[:minInt(2, len(cfg.Keys))]
			spec, ok := genTxSpec(rt, nm, s, c2, h, false)
			if ok {
				op.Txs = append(op.Txs, spec)
			}
		}
		return op
	case 9, 10: // assembled against the chain state ignoring what is pending (conflict families)
		at := nm.Ptr
		spec, ok := genTxSpec(rt, nm, nm.States[at], cfg, h, false)
		if !ok {
			return hx.NOp{Op: "tx", Tx: &base, Expect: "valid"}
		}
		return hx.NOp{Op: "tx", Tx: &spec, BuildAt: &at, Expect: "built-ignoring-pool"}
	default: // assembled against an older block's state (stale versions / spent outputs)
		at := nm.Ptr
		for k := rapid.IntRange(1, 3).Draw(rt, "back"); k > 0 && m.Blocks[at].Parent >= 0; k-- {
			at = m.Blocks[at].Parent
		}
		spec, ok := genTxSpec(rt, nm, nm.States[at], cfg, h, false)
		if !ok {
			return hx.NOp{Op: "tx", Tx: &base, Expect: "valid"}
		}
		return hx.NOp{Op: "tx", Tx: &spec, BuildAt: &at, Expect: "built-on-older-state"}
	}
}

// genAdvPeer draws an adversarial peer block: wrong award, two coinbases, unknown parent, or a block
// re-including an already confirmed transaction / conflicting with its own chain (state-invalid).
func genAdvPeer(rt *rapid.T, nm *hx.NodeMachine, cfg genCfg) hx.NOp {
	m := nm.LM.M
	var vs []int
	for _, b := range m.Blocks {
		if b.Stored && nm.Valid[b.Idx] {
			vs = append(vs, b.Idx)
		}
	}
	parent := vs[rapid.IntRange(0, len(vs)-1).Draw(rt, "advparent")]
	if rapid.Bool().Draw(rt, "ontip") {
		parent = m.Tip
		if !nm.Valid[parent] {
			parent = vs[0]
		}
	}
	op := genPeerOn(rt, nm, cfg, parent)
	if len(op.Txs) > 0 && rapid.IntRange(0, 11).Draw(rt, "treeleaf") == 0 {
		// a genuine block whose carried merkle tree names other transactions than its body
		op.TreeLeaf = rapid.IntRange(1, 3).Draw(rt, "leafkind")
		op.Expect = "carried-tree-leaves"
		return op
	}
	switch rapid.IntRange(0, 9).Draw(rt, "advpeer") {
	case 7, 8, 9:
		// an adversarial candidate of the pool path (unbalanced, double input, wrong cited amount / owner / frozen
		// height, spent or off-chain outputs, odd encodings ...) delivered INSIDE a block: the block is valid exactly
		// when the model admits the transaction on the parent's state
		if nm.Valid[m.Tip] {
			// built on the CHAIN state of the tip (a block transaction that spends an output of one of this node's
			// pending transactions is judged on the pending state by PlayAndRepost: not a statement of any property);
			// nothing whose admissibility depends on a frozen height (judged against the ledger height, DESIGN 6.4)
			base := nm.States[m.Tip]
			adv := genAdvOpOn(rt, nm, cfg, base.Clone())
			frozen := adv.Tx == nil
			pending := map[string]bool{}
			for _, ptx := range nm.Pool {
				pending[hex.EncodeToString(ptx.Txid)] = true
			}
			if adv.Tx != nil {
				for _, in := range adv.Tx.Ins {
					if pending[in.Txid] {
						// cites an output of a transaction that is only pending on this node: refused by Walk always, by
						// PlayAndRepost since fix 46bdf76 (until then such candidates were not generated)
						nm.Stat["in-block-candidate-cites-pending-output"]++
					}
					if in.Frozen != 0 {
						frozen = true
					}
					id, _ := hex.DecodeString(in.Txid)
					if u := base.U[hx.UKey(hx.AddrOfRef(in), id, in.Off)]; u != nil && u.Frozen != 0 {
						frozen = true
					}
				}
			}
			if adv.Op == "tx" && !frozen && adv.BuildAt == nil && !adv.Tx.Coinbase && !adv.Tx.Autogen {
				op = hx.NOp{Op: "peer", Label: op.Label, Parent: m.Tip, Proposer: op.Proposer, Txs: []hx.TxSpec{*adv.Tx},
					Expect: "in-block:" + adv.Expect}
			}
		}
	case 5:
		op.CBIn = rapid.SampledFrom([]int{1, 2, 3, 5, 6, 7, 4, 4}).Draw(rt, "cbin")
		op.Expect = "coinbase-with-input-or-write"
		if op.CBIn == 4 {
			op.Expect = "award-with-two-outputs"
		}
	case 6:
		// the first transaction of the block is a plain transfer that its initiator did not sign
		plain := cfg
		plain.ContractPct = 0
		mut := rapid.SampledFrom([]string{"autogen", "marked", "nosig", "othersig", "dropread", "dropread"}).Draw(rt, "txmut")
		if mut == "dropread" {
			plain.ContractPct = 100 // needs a contract call that writes or deletes a key
		}
		s := nm.States[parent].Clone()
		if spec, ok := genTxSpec(rt, nm, s, plain, 0, false); ok {
			op.Txs = append([]hx.TxSpec{spec}, op.Txs...)
			op.Old = nil
			op.TxMut = mut
			op.Expect = "unsigned-tx-in-block"
		}
	case 0:
		op.AwardAdd = int64(rapid.SampledFrom([]int{1, -1, 1000000}).Draw(rt, "awardadd"))
		op.Expect = "bad-award"
	case 1:
		op.TwoCB = true
		op.Expect = "two-coinbase"
	case 2:
		op.Parent = -1
		op.Txs = nil
		op.Pool = nil
		op.Expect = "unknown-parent"
	case 3:
		// transactions assembled against an older state of the parent's chain: spent outputs and
		// superseded versions, i.e. a block the ledger stores but the state machine must refuse
		at := parent
		for k := rapid.IntRange(1, 3).Draw(rt, "txsback"); k > 0 && m.Blocks[at].Parent >= 0; k-- {
			at = m.Blocks[at].Parent
		}
		if at != parent {
			op.Txs = nil
			op.Pool = nil
			s := nm.States[at].Clone()
			for i := 0; i < 2; i++ {
				spec, ok := genTxSpec(rt, nm, s, cfg, 0, false)
				if !ok {
					break
				}
				if tx, _ := buildForGen(nm, &spec, s); tx != nil {
					s.Apply(tx, "")
					op.Txs = append(op.Txs, spec)
				}
			}
			op.TxsAt = &at
			op.Expect = "txs-built-on-older-state"
		}
	default:
		// a block that makes one of this node's pending transactions stale (writes a key it read) and carries it all
		// the same: the node verified that transaction when it was submitted, on another state
		if nm.Valid[nm.Ptr] && rapid.Bool().Draw(rt, "stalepool") {
			for _, ptx := range nm.Pool {
				key := ""
				for _, in := range ptx.TxInputsExt {
					if in.Bucket == hx.VerifContract {
						key = string(in.Key)
					}
				}
				if key == "" {
					continue
				}
				s := nm.States[nm.Ptr].Clone()
				spec, ok := genTxSpec(rt, nm, s, genCfg{Keys: cfg.Keys, ContractPct: 0}, 0, false)
				if !ok {
					break
				}
				spec.Prog = []hx.Ins{{Op: "put", K: key, V: fmt.Sprintf("w%d", rapid.IntRange(0, 9).Draw(rt, "val"))}}
				h := m.Blocks[nm.Ptr].Height + 1
				tx, _ := buildForGen(nm, &spec, s)
				if tx == nil || s.Check(tx, h) != nil || s.Check(ptx, h) != nil {
					break
				}
				s.Apply(tx, hx.Ring[op.Proposer].Address)
				if e := s.Check(ptx, h); e == nil || !strings.Contains(e.Error(), "cited at version") {
					break // the only thing wrong with the pending transaction must be its read set
				}
				return hx.NOp{Op: "peer", Label: op.Label, Parent: nm.Ptr, Proposer: op.Proposer, Txs: []hx.TxSpec{spec},
					Pool: []string{hex.EncodeToString(ptx.Txid)}, PoolForce: true, Expect: "stale-pending-tx-in-block"}
			}
		}
		// re-include a transaction confirmed on the parent's own chain (only on the tip: the ledger
		// must answer ErrTxDuplicated; on side branches see finding C04-dup-tx-own-branch)
		if parent != m.Tip {
			break
		}
		var old []string
		for j := parent; j > 0 && len(old) < 6; j = m.Blocks[j].Parent {
			for _, t := range nm.BlockTxs[j] {
				if !t.Coinbase {
					old = append(old, hex.EncodeToString(t.Txid))
				}
			}
		}
		if len(old) > 0 {
			op.Old = []string{old[rapid.IntRange(0, len(old)-1).Draw(rt, "oldtx")]}
			op.Expect = "re-includes-confirmed-tx"
		}
	}
	return op
}
