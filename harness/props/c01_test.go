package props

import (
	"encoding/json"
	"testing"

	"pgregory.net/rapid"

	"verifharness/hx"
)

// runNodeTrace replays a recorded node-machine history (no rapid) with the C01 oracles.
func runNodeTrace(ops []hx.NOp, opts hx.NodeOpts, fs *hx.FindingSet, fresh bool) error {
	nm, err := hx.NewNodeMachine(opts, fs)
	if err != nil {
		return err
	}
	defer nm.Close()
	for i, op := range ops {
		if err := nm.Apply(op); err != nil {
			return stepErr(i, op, err)
		}
		if err := nm.CheckState(); err != nil {
			return stepErr(i, op, err)
		}
		if err := nm.LM.CheckInvariant(); err != nil {
			return stepErr(i, op, err)
		}
		if fresh && (op.Op == "walk" || op.Op == "sync" || i == len(ops)-1) {
			if err := nm.CheckFreshReplay(); err != nil {
				return stepErr(i, op, err)
			}
		}
	}
	return nil
}

type nodeTraceHdr struct {
	Opts *hx.NodeOpts `json:"opts,omitempty"`
}

func stepErr(i int, op hx.NOp, err error) error {
	b, _ := json.Marshal(op)
	return &stepError{i, string(b), err}
}

type stepError struct {
	i   int
	op  string
	err error
}

func (e *stepError) Error() string { return "step " + itoa(e.i) + " " + e.op + ": " + e.err.Error() }

func itoa(i int) string { b, _ := json.Marshal(i); return string(b) }

// runNodeCase is the generic rapid case body of the node machine.
func runNodeCase(cs *hx.Case, fs *hx.FindingSet, cfg genCfg, after func(nm *hx.NodeMachine, op hx.NOp, i int) error, final func(nm *hx.NodeMachine)) {
	rt := cs.RT()
	opts := hx.DefaultOpts()
	opts.Window = rapid.SampledFrom(cfg.Windows).Draw(rt, "window")
	if cfg.BigAmounts && rapid.IntRange(0, 2).Draw(rt, "bigquota") > 0 {
		opts.QuotaStr = rapid.SampledFrom([]string{"18446744073709551616", "1180591620717411303424001", "340282366920938463463374607431768211455"}).Draw(rt, "quota")
	}
	if cfg.Opts != nil {
		cfg.Opts(rt, &opts)
	}
	// capacity as an input: 1 history in 3 runs with output / balance caches of 1-4 entries (round-7 angle: the default
	// capacity of 1000 is never reached by a generated history, so eviction code never ran)
	if rapid.IntRange(0, 2).Draw(rt, "smallcache") == 0 {
		opts.UtxoCache = rapid.IntRange(1, 4).Draw(rt, "utxocache")
	}
	cs.Op(map[string]interface{}{"opts": opts})
	nm, err := hx.NewNodeMachine(opts, fs)
	if err != nil {
		rt.Fatalf("setup: %v", err)
	}
	defer nm.Close()
	step := 0
	exec := func(op hx.NOp) {
		cs.Op(op)
		if err := nm.Apply(op); err != nil {
			cs.Failf("step %d %s: %v", step, opJSON(op), err)
		}
		if err := nm.CheckState(); err != nil {
			cs.Failf("after step %d %s: %v", step, opJSON(op), err)
		}
		if err := nm.LM.CheckInvariant(); err != nil {
			cs.Failf("after step %d %s: ledger: %v", step, opJSON(op), err)
		}
		if after != nil {
			if err := after(nm, op, step); err != nil {
				cs.Failf("after step %d %s: %v", step, opJSON(op), err)
			}
		}
		step++
	}
	// optional fork skeleton: two chains of peer blocks from a common ancestor, so that deep
	// cross-fork walks are frequent; made of ordinary (recorded, shrinkable) operations
	if cfg.ForkPrefix && rapid.IntRange(0, 9).Draw(rt, "skeleton") < 7 {
		la := rapid.IntRange(1, 3).Draw(rt, "la")
		lb := rapid.IntRange(1, 3).Draw(rt, "lb")
		parent := 0
		var chainA []int
		for i := 0; i < la; i++ {
			exec(genPeerOn(rt, nm, cfg, parent))
			parent = len(nm.LM.M.Blocks) - 1
			chainA = append(chainA, parent)
			if rapid.IntRange(0, 2).Draw(rt, "synca") == 0 {
				exec(hx.NOp{Op: "sync"})
			}
		}
		exec(hx.NOp{Op: "sync"})
		fork := 0
		if k := rapid.IntRange(0, la-1).Draw(rt, "forkat"); k > 0 {
			fork = chainA[k-1]
		}
		parent = fork
		for i := 0; i < lb; i++ {
			if !nm.Valid[parent] {
				break
			}
			exec(genPeerOn(rt, nm, cfg, parent))
			parent = len(nm.LM.M.Blocks) - 1
		}
		if nm.Valid[parent] && rapid.IntRange(0, 9).Draw(rt, "crosswalk") < 6 {
			exec(hx.NOp{Op: "walk", Target: parent})
		}
	}
	minSteps := cfg.MinSteps
	if minSteps < 1 {
		minSteps = 1
	}
	n := rapid.IntRange(minSteps, cfg.MaxSteps).Draw(rt, "steps")
	for i := 0; i < n; i++ {
		if cfg.Mix != nil {
			exec(cfg.Mix(rt, nm))
		} else {
			exec(genNodeOp(rt, nm, cfg))
		}
	}
	for k, v := range nm.Stat {
		if v > 0 {
			cs.Label(k)
			if len(k) > 9 && k[:9] == "excluded:" {
				for j := 0; j < v; j++ {
					cs.Exclude(k[9:])
				}
			}
		}
	}
	if final != nil {
		final(nm)
	}
}

func opJSON(op hx.NOp) string { b, _ := json.Marshal(op); return string(b) }

func decodeNodeTrace(raw json.RawMessage) ([]hx.NOp, hx.NodeOpts, error) {
	var items []json.RawMessage
	if err := json.Unmarshal(raw, &items); err != nil {
		return nil, hx.NodeOpts{}, err
	}
	opts := hx.DefaultOpts()
	var ops []hx.NOp
	for _, it := range items {
		var h nodeTraceHdr
		if json.Unmarshal(it, &h) == nil && h.Opts != nil {
			opts = *h.Opts
			continue
		}
		var op hx.NOp
		if err := json.Unmarshal(it, &op); err != nil {
			return nil, opts, err
		}
		ops = append(ops, op)
	}
	return ops, opts, nil
}

func init() {
	replayers["C01/node-machine"] = func(raw json.RawMessage, fs *hx.FindingSet) error {
		ops, opts, err := decodeNodeTrace(raw)
		if err != nil {
			return err
		}
		return runNodeTrace(ops, opts, fs, true)
	}
}

// resolveSharedFindings probes the witnesses of the findings whose trigger shapes the shared node
// generators must avoid. Only the owning property (matching collector) prints KNOWN-FINDING.
func resolveSharedFindings(fs *hx.FindingSet, c *hx.Collector) {
	for _, f := range fs.All() {
		if f.Status != "known" || f.Witness == "" {
			continue
		}
		var owner *hx.Collector
		if c != nil && c.Prop == f.Property {
			owner = c
		}
		w := f.Witness
		fs.Resolve(f.ID, owner, func() bool { return witnessStillFails(w) })
	}
}

func TestC01(t *testing.T) {
	c := hx.NewCollector("C01", "exploration",
		"rapid state machine over one full node (ledger+state+contracts): pool transactions (transfers with fees / zero / frozen outputs, contract programs with put / del / re-create / scans / nested calls), own blocks, peer blocks on any stored block (forks), sync, walks to any stored block, PlayAndRepost, reopen; after every step every state observable (pointer, total, balances, raw UTXO table, every key's value+version, live-key table, pool) is compared with a reference model, and after every walk and at the end with a fresh node that replays genesis..B. Non-trivial = history with a cross-fork walk undoing >= 2 blocks, or an undo of a block with a KV write/delete; distinct = hash of the trace",
		"goleveldb on in-memory storage behaves like LevelDB", "deterministic ECDSA signer (verification by the real code)", "frozen outputs are only spent when no truncation can lower the ledger height")
	defer c.Flush(t)
	fs := hx.LoadFindings()
	resolveSharedFindings(fs, c)
	regressFixed(t, c, fs, "C01")
	cfg := defaultGenCfg()
	cfg.WrongFrozenPct = 6
	cfg.BigAmounts = true // genesis amounts beyond 64 bit in 2 histories of 3 (outputs at machine-word boundaries, undone by walks)
	// a small share of adversarial peer blocks (forged award / unsigned / flag-carrying / read-dropping transactions,
	// candidates of the pool path delivered in a block): refused blocks must leave the state a function of the chain
	cfg.Mix = func(rt *rapid.T, nm *hx.NodeMachine) hx.NOp {
		if rapid.IntRange(0, 11).Draw(rt, "advblock") == 0 {
			return genAdvPeer(rt, nm, cfg)
		}
		return genNodeOp(rt, nm, cfg)
	}
	c.Check(t, "node-machine", hx.N(600, 4000), func(cs *hx.Case) {
		runNodeCase(cs, fs, cfg, func(nm *hx.NodeMachine, op hx.NOp, i int) error {
			if (op.Op == "walk" || op.Op == "sync") && nm.LastOutcome != "skipped" && nm.LastUndo > 0 {
				return nm.CheckFreshReplay()
			}
			return nil
		}, func(nm *hx.NodeMachine) {
			if err := nm.CheckFreshReplay(); err != nil {
				cs.Failf("final fresh replay: %v", err)
			}
			if nm.Stat["walk-crossfork-undo2"] > 0 {
				cs.Nontrivial()
			}
		})
	})
}
