package props

// C16: Only the entitled producer's block is accepted (slot schedule, single, PoW).
//
// Sub-checks (all inside TestC16, one collector):
//   tdpos-schedule / xpoa-schedule  exhaustive parameter box x every millisecond of >= 3 terms: tiling oracle
//   tdpos-accept   / xpoa-accept    CheckMinerMatch (BFT off) for every validator / a stranger / "" on both
//                                   sides of every slot boundary: accepted => proposer is the scheduled one
//   single-accept                   proposer x public key x signer x signature kind x header-id consistency
//   compact                         SetCompact / GetCompact against an independent base-256 reference
//   isproofed                       IsProofed(id, bits) => id-as-integer <= target(bits)
//   validator-reorder               (c16_reorder_test.go) histories of changes of the ordered validator list, pure
//                                   permutations included; producer side (CompeteMaster) vs the list in force
//   pow-chain                       rapid: stub chain grown through the miner path, candidate blocks through
//                                   CheckMinerMatch: accepted => hash <= target(bits) /\ ts >= parent ts /\ the
//                                   accepted bits are unique per parent /\ verdict independent of instance state
//
// Every oracle is written from the statement; none transcribes the scheduling / retarget formulas.

import (
	"crypto/ecdsa"
	"crypto/sha256"
	"encoding/hex"
	"encoding/json"
	"errors"
	"fmt"
	"math/big"
	"sort"
	"strings"
	"testing"
	"time"

	"github.com/xuperchain/crypto/core/sign"
	"pgregory.net/rapid"

	"github.com/xuperchain/xupercore/bcs/consensus/pow"
	_ "github.com/xuperchain/xupercore/bcs/consensus/single"
	"github.com/xuperchain/xupercore/bcs/consensus/tdpos"
	"github.com/xuperchain/xupercore/bcs/consensus/xpoa"
	"github.com/xuperchain/xupercore/kernel/common/xcontext"
	"github.com/xuperchain/xupercore/kernel/consensus"
	"github.com/xuperchain/xupercore/kernel/consensus/base"
	cctx "github.com/xuperchain/xupercore/kernel/consensus/context"
	"github.com/xuperchain/xupercore/kernel/consensus/def"
	kmock "github.com/xuperchain/xupercore/kernel/consensus/mock"
	"github.com/xuperchain/xupercore/kernel/contract"
	"github.com/xuperchain/xupercore/kernel/ledger"
	nctx "github.com/xuperchain/xupercore/kernel/network/context"
	"github.com/xuperchain/xupercore/kernel/network/p2p"
	"github.com/xuperchain/xupercore/lib/logs"
	xpb "github.com/xuperchain/xupercore/protos"

	"verifharness/hx"
)

const c16Ms = int64(1000000) // nanoseconds per millisecond

// ---------------------------------------------------------------------------------------------
// stubs: block, ledger, network, contract manager
// ---------------------------------------------------------------------------------------------

type c16Block struct {
	proposer string
	height   int64
	id       []byte
	madeID   []byte // what MakeBlockId recomputes (nil: same as id)
	storage  []byte
	ts       int64
	pub      string
	sig      []byte
	pre      []byte
}

func (b *c16Block) GetProposer() []byte                  { return []byte(b.proposer) }
func (b *c16Block) GetHeight() int64                     { return b.height }
func (b *c16Block) GetBlockid() []byte                   { return b.id }
func (b *c16Block) GetConsensusStorage() ([]byte, error) { return b.storage, nil }
func (b *c16Block) GetTimestamp() int64                  { return b.ts }
func (b *c16Block) SetItem(item string, value interface{}) error {
	return errors.New("c16: read-only block")
}
func (b *c16Block) MakeBlockId() ([]byte, error) {
	if b.madeID != nil {
		return b.madeID, nil
	}
	return b.id, nil
}
func (b *c16Block) GetPreHash() []byte   { return b.pre }
func (b *c16Block) GetNextHash() []byte  { return nil }
func (b *c16Block) GetPublicKey() string { return b.pub }
func (b *c16Block) GetSign() []byte      { return b.sig }
func (b *c16Block) GetTxIDs() []string   { return nil }
func (b *c16Block) GetInTrunk() bool     { return true }

type c16SnapReader struct{}

func (c16SnapReader) Get(bucket string, key []byte) ([]byte, error) { return nil, nil }

// c16Ledger is a linear stub chain (index = height).
type c16Ledger struct {
	chain []*c16Block
	byID  map[string]*c16Block
	// snap: key suffix -> value answered by the snapshot of every block of height >= snapFrom (election result /
	// validator change recorded on the chain); nil = the stub ledger has no contract state at all
	snap     map[string][]byte
	snapFrom int64
}

type c16XMReader struct{ snap map[string][]byte }

func (r c16XMReader) Get(bucket string, key []byte) (*ledger.VersionedData, error) {
	for suffix, v := range r.snap { // suffixes are mutually exclusive
		if strings.HasSuffix(string(key), suffix) {
			return &ledger.VersionedData{PureData: &ledger.PureData{Bucket: bucket, Key: key, Value: v}, RefTxid: []byte("c16")}, nil
		}
	}
	return nil, nil
}
func (c16XMReader) Select(bucket string, startKey []byte, endKey []byte) (ledger.XMIterator, error) {
	return nil, errors.New("c16: no iterator in the stub ledger")
}

func c16NewLedger(genesisTs int64) *c16Ledger {
	l := &c16Ledger{byID: map[string]*c16Block{}}
	l.add(&c16Block{height: 0, id: c16Hash("c16-genesis"), ts: genesisTs, storage: []byte{}})
	return l
}

func (l *c16Ledger) add(b *c16Block) {
	l.chain = append(l.chain, b)
	l.byID[string(b.id)] = b
}

// addSide stores a block that is not on the trunk: found by id, never by height.
func (l *c16Ledger) addSide(b *c16Block) { l.byID[string(b.id)] = b }

var errC16NoBlock = errors.New("c16: block not found")

func (l *c16Ledger) GetConsensusConf() ([]byte, error) { return nil, nil }
func (l *c16Ledger) QueryBlock(id []byte) (ledger.BlockHandle, error) {
	if b, ok := l.byID[string(id)]; ok {
		return b, nil
	}
	return nil, errC16NoBlock
}
func (l *c16Ledger) QueryBlockByHeight(h int64) (ledger.BlockHandle, error) {
	if h < 0 || h >= int64(len(l.chain)) {
		return nil, errC16NoBlock
	}
	return l.chain[h], nil
}
func (l *c16Ledger) GetTipBlock() ledger.BlockHandle { return l.chain[len(l.chain)-1] }
func (l *c16Ledger) GetTipXMSnapshotReader() (ledger.XMSnapshotReader, error) {
	return c16SnapReader{}, nil
}
func (l *c16Ledger) CreateSnapshot(id []byte) (ledger.XMReader, error) {
	if l.snap == nil {
		return nil, errors.New("c16: no snapshot in the stub ledger")
	}
	if b, ok := l.byID[string(id)]; ok && b.height >= l.snapFrom {
		return c16XMReader{l.snap}, nil
	}
	return c16XMReader{}, nil
}
func (l *c16Ledger) GetTipSnapshot() (ledger.XMReader, error) {
	return nil, errors.New("c16: no snapshot in the stub ledger")
}

type c16Net struct{ account string }

func (c16Net) Start() {}
func (c16Net) Stop()  {}
func (c16Net) SendMessage(xcontext.XContext, *xpb.XuperMessage, ...p2p.OptionFunc) error {
	return nil
}
func (c16Net) SendMessageWithResponse(xcontext.XContext, *xpb.XuperMessage, ...p2p.OptionFunc) ([]*xpb.XuperMessage, error) {
	return nil, nil
}
func (c16Net) NewSubscriber(xpb.XuperMessage_MessageType, interface{}, ...p2p.SubscriberOption) p2p.Subscriber {
	return nil
}
func (c16Net) Register(p2p.Subscriber) error   { return nil }
func (c16Net) UnRegister(p2p.Subscriber) error { return nil }
func (c16Net) Context() *nctx.NetCtx           { return nil }
func (n c16Net) PeerInfo() xpb.PeerInfo        { return xpb.PeerInfo{Account: n.account} }

type c16Registry struct{}

func (c16Registry) RegisterKernMethod(contract, method string, handler contract.KernMethod) {}
func (c16Registry) RegisterShortcut(oldmethod, contract, method string)                     {}
func (c16Registry) GetKernMethod(contract, method string) (contract.KernMethod, error) {
	return nil, errors.New("c16: not registered")
}

type c16Contract struct{}

func (c16Contract) NewContext(cfg *contract.ContextConfig) (contract.Context, error) {
	return nil, nil
}
func (c16Contract) NewStateSandbox(cfg *contract.SandboxConfig) (contract.StateSandbox, error) {
	return nil, nil
}
func (c16Contract) GetKernRegistry() contract.KernRegistry { return c16Registry{} }

var c16Log logs.Logger

func c16Logger() logs.Logger {
	if c16Log == nil {
		hx.BaseConf() // initialises logging (level error, no console)
		l, err := logs.NewLogger("c16", "c16")
		if err != nil {
			panic(err)
		}
		c16Log = l
	}
	return c16Log
}

func c16XCtx() xcontext.XContext { return &xcontext.BaseCtx{XLog: c16Logger()} }

// c16ConsCtx is the consensus context of a node whose own key is self.
func c16ConsCtx(leg cctx.LedgerRely, self *hx.Key) cctx.ConsensusCtx {
	return cctx.ConsensusCtx{
		BaseCtx: xcontext.BaseCtx{XLog: c16Logger()},
		BcName:  "xuper",
		Address: &cctx.Address{Address: self.Address, PrivateKey: self.Priv, PrivateKeyStr: self.PrvJSON,
			PublicKey: &self.Priv.PublicKey, PublicKeyStr: self.PubJSON},
		Crypto:   hx.Crypt,
		Contract: c16Contract{},
		Ledger:   leg,
		Network:  c16Net{account: self.Address},
	}
}

func c16NewPlugin(name, cfg string, leg cctx.LedgerRely, self *hx.Key) (base.ConsensusImplInterface, error) {
	inst, err := consensus.NewPluginConsensus(c16ConsCtx(leg, self),
		def.ConsensusConfig{ConsensusName: name, Config: cfg, StartHeight: 1, Index: 0})
	if err != nil {
		return nil, err
	}
	if inst == nil {
		return nil, fmt.Errorf("constructor of %s refused the configuration %s", name, cfg)
	}
	return inst, nil
}

func c16Hash(s string) []byte {
	h := sha256.Sum256([]byte(s))
	return h[:]
}

func c16RingAddrs(n int) []string {
	out := make([]string, n)
	for i := 0; i < n; i++ {
		out[i] = hx.Ring[i].Address
	}
	return out
}

// c16Stranger is a key that is never a validator / miner.
func c16Stranger() *hx.Key { return hx.Ring[hx.RingSize-1] }

// ---------------------------------------------------------------------------------------------
// observations of one case, failure of one case
// ---------------------------------------------------------------------------------------------

type c16Obs struct {
	evals  map[string]int // bulk label -> evaluations (each evaluation has exactly one bulk label)
	tags   map[string]int // additional label counts (sparse)
	nt     []interface{}  // distinct non-trivial keys
	ntCap  int
	sample interface{}
}

func c16NewObs(ntCap int) *c16Obs {
	return &c16Obs{evals: map[string]int{}, tags: map[string]int{}, ntCap: ntCap}
}
func (o *c16Obs) eval(label string) { o.evals[label]++ }
func (o *c16Obs) tag(label string)  { o.tags[label]++ }
func (o *c16Obs) nontrivial(k interface{}) {
	if len(o.nt) < o.ntCap {
		o.nt = append(o.nt, k)
	}
}

func c16SortedKeys(m map[string]int) []string {
	ks := make([]string, 0, len(m))
	for k := range m {
		ks = append(ks, k)
	}
	sort.Strings(ks)
	return ks
}

// c16Agg accumulates observations over many cases and hands them to the collector once.
type c16Agg struct {
	evals map[string]int
	tags  map[string]int
}

func c16NewAgg() *c16Agg { return &c16Agg{evals: map[string]int{}, tags: map[string]int{}} }
func (a *c16Agg) add(c *hx.Collector, o *c16Obs) {
	for k, v := range o.evals {
		a.evals[k] += v
	}
	for k, v := range o.tags {
		a.tags[k] += v
	}
	for _, k := range o.nt {
		c.NontrivialKey(k)
	}
	if o.sample != nil {
		c.Sample(o.sample)
	}
}
func (a *c16Agg) flush(c *hx.Collector) {
	for _, k := range c16SortedKeys(a.evals) {
		c.CountN(a.evals[k], k)
	}
	for _, k := range c16SortedKeys(a.tags) {
		n := a.tags[k]
		if n > 100000 {
			n = 100000 // label counters of tags are informative only
		}
		for i := 0; i < n; i++ {
			c.Label(k)
		}
	}
}

type c16Fail struct {
	Kind string // short id of the violated clause
	Msg  string
}

func c16Failf(kind, format string, args ...interface{}) *c16Fail {
	return &c16Fail{Kind: kind, Msg: fmt.Sprintf(format, args...)}
}

func (f *c16Fail) Error() string { return f.Kind + ": " + f.Msg }

// ---------------------------------------------------------------------------------------------
// tiling oracle (shared by tdpos and xpoa), written from the statement only
// ---------------------------------------------------------------------------------------------

type c16Triple struct{ Term, Pos, Slot int64 }

func (a c16Triple) cmp(b c16Triple) int {
	switch {
	case a.Term != b.Term:
		if a.Term < b.Term {
			return -1
		}
		return 1
	case a.Pos != b.Pos:
		if a.Pos < b.Pos {
			return -1
		}
		return 1
	case a.Slot != b.Slot:
		if a.Slot < b.Slot {
			return -1
		}
		return 1
	}
	return 0
}

type c16TermRec struct {
	term  int64
	slots []int64 // per validator position: number of distinct slots owned in this term
}

// c16Scan consumes (timestamp, entitled?, triple) in increasing time order.
type c16Scan struct {
	n, blockNum int64
	periodNs    int64 // configured slot length (one block per period); 0 = not checked
	firstWhole  bool  // the scan starts at the origin of the schedule: the first observed term is complete
	runStart    int64 // first instant at which the current entitled triple was observed

	haveLast bool
	last     c16Triple
	lastTs   int64
	gapSince bool

	havePrev bool
	prevEnt  bool
	prevTr   c16Triple
	prevTs   int64

	terms       []c16TermRec
	thirdTermAt int64   // first entitled instant of the third observed term (0: not reached)
	boundaries  []int64 // timestamps on both sides of every change of the entitled triple
}

func (s *c16Scan) feed(ts int64, ent bool, tr c16Triple) *c16Fail {
	if ent {
		if tr.Pos < 0 || tr.Pos >= s.n {
			return c16Failf("producer-range", "at t=%d the schedule entitles position %d of %d validators", ts, tr.Pos, s.n)
		}
		if s.haveLast {
			switch d := s.last.cmp(tr); {
			case d > 0:
				return c16Failf("order", "entitled (term,pos,slot) went backwards: %+v at t=%d after %+v at t=%d", tr, ts, s.last, s.lastTs)
			case d == 0 && s.gapSince:
				return c16Failf("contiguous", "slot %+v is entitled at t=%d and again at t=%d with an unentitled instant in between", tr, s.lastTs, ts)
			}
		}
		if !s.haveLast || s.last != tr {
			s.runStart = ts
		} else if s.periodNs > 0 && ts-s.runStart >= s.periodNs {
			// "its configured number of consecutive slots": a slot is one block period long; a longer one lets its
			// owner produce an extra block (timestamps one period apart) under the same (term, pos, slot)
			return c16Failf("slot-length", "slot %+v is entitled from t=%d to t=%d: longer than the configured period of %d ns", tr, s.runStart, ts, s.periodNs)
		}
		if !s.haveLast || s.last != tr {
			if len(s.terms) == 0 || s.terms[len(s.terms)-1].term != tr.Term {
				s.terms = append(s.terms, c16TermRec{term: tr.Term, slots: make([]int64, s.n)})
				if len(s.terms) == 3 {
					s.thirdTermAt = ts
				}
			}
			s.terms[len(s.terms)-1].slots[tr.Pos]++
		}
		s.haveLast, s.last, s.lastTs, s.gapSince = true, tr, ts, false
	} else if s.haveLast {
		s.gapSince = true
	}
	if s.havePrev && (s.prevEnt != ent || (ent && s.prevTr != tr)) {
		s.boundaries = append(s.boundaries, s.prevTs, ts)
	}
	s.havePrev, s.prevEnt, s.prevTr, s.prevTs = true, ent, tr, ts
	return nil
}

// finish checks the complete terms: every validator position owns exactly blockNum distinct slots
// (their order follows from the order check in feed). Returns the number of complete terms.
func (s *c16Scan) finish() (int, *c16Fail) {
	complete := 0
	for i, rec := range s.terms {
		if i == len(s.terms)-1 || (i == 0 && !s.firstWhole) {
			continue
		}
		complete++
		for pos, k := range rec.slots {
			if k != s.blockNum {
				return complete, c16Failf("slot-count", "in the complete term %d validator position %d owns %d slots, configured block_num is %d (per-position slot counts %v)",
					rec.term, pos, k, s.blockNum, rec.slots)
			}
		}
	}
	if complete < 2 {
		return complete, c16Failf("no-complete-term", "only %d complete term(s) within 4x the configured maximal term duration (terms seen: %d)", complete, len(s.terms))
	}
	return complete, nil
}

func c16DedupSorted(in []int64) []int64 {
	out := append([]int64(nil), in...)
	sort.Slice(out, func(i, j int) bool { return out[i] < out[j] })
	k := 0
	for i, v := range out {
		if i == 0 || v != out[k-1] {
			out[k] = v
			k++
		}
	}
	return out[:k]
}

// ---------------------------------------------------------------------------------------------
// TDPoS
// ---------------------------------------------------------------------------------------------

type c16TdposCase struct {
	Period      int64   `json:"period_ms"`
	BlockNum    int64   `json:"block_num"`
	ProposerNum int64   `json:"proposer_num"`
	Alternate   int64   `json:"alternate_interval_ms"`
	Term        int64   `json:"term_interval_ms"`
	InitNs      int64   `json:"init_timestamp_ns"`
	Phases      []int64 `json:"phases_ns"`  // sub-millisecond offsets evaluated inside every millisecond
	Accept      bool    `json:"accept"`     // also run CheckMinerMatch at the slot boundaries
	AcceptAll   bool    `json:"accept_all"` // ... of all scanned terms (else: of the first two terms)
}

func c16TdposConf(k c16TdposCase, validators []string) string {
	vb, _ := json.Marshal(validators)
	return fmt.Sprintf(`{"timestamp":"%d","proposer_num":"%d","period":"%d","alternate_interval":"%d","term_interval":"%d","block_num":"%d","vote_unit_price":"1","init_proposer":{"1":%s}}`,
		k.InitNs, k.ProposerNum, k.Period, k.Alternate, k.Term, k.BlockNum, vb)
}

func c16RunTdpos(k c16TdposCase, o *c16Obs) *c16Fail {
	vals := c16RingAddrs(int(k.ProposerNum))
	leg := c16NewLedger(k.InitNs)
	inst, err := c16NewPlugin("tdpos", c16TdposConf(k, vals), leg, hx.Ring[0])
	if err != nil {
		return c16Failf("setup", "%v", err)
	}
	vs := tdpos.VerifScheduleOf(inst)
	if vs == nil {
		return c16Failf("setup", "not a tdpos instance")
	}
	if p, b, n, a, ti, init := vs.Params(); p != k.Period || b != k.BlockNum || n != k.ProposerNum || a != k.Alternate || ti != k.Term || init != k.InitNs {
		return c16Failf("setup", "instance parsed the configuration as %v", []int64{p, b, n, a, ti, init})
	}
	entitled := func(pos, slot int64) bool { // the predicate every caller of minerScheduling applies
		return !(slot < 0 || slot >= k.BlockNum || pos >= k.ProposerNum)
	}
	// A term cannot be configured to last longer than this: the term interval plus, per validator, one
	// hand-over interval and block_num periods.
	ub := k.Term + k.ProposerNum*(k.Alternate+k.BlockNum*k.Period)
	sc := &c16Scan{n: k.ProposerNum, blockNum: k.BlockNum, periodNs: k.Period * c16Ms, firstWhole: true}
	nEnt, nGap, nAcc, nRej := 0, 0, 0, 0
	defer func() {
		o.evals["tdpos-schedule:entitled-instant"] += nEnt
		o.evals["tdpos-schedule:unentitled-instant"] += nGap
		o.evals["tdpos-accept:accepted"] += nAcc
		o.evals["tdpos-accept:rejected"] += nRej
	}()
	for T := int64(0); T <= 4*ub+2 && len(sc.terms) < 4; T++ {
		for _, ph := range k.Phases {
			ts := k.InitNs + T*c16Ms + ph
			term, pos, slot := vs.MinerScheduling(ts)
			ent := entitled(pos, slot)
			if ent {
				nEnt++
			} else {
				nGap++
			}
			if f := sc.feed(ts, ent, c16Triple{term, pos, slot}); f != nil {
				return f
			}
		}
	}
	bounds := c16DedupSorted(sc.boundaries)
	for i, b := range bounds {
		if i%7 == 0 { // a spread of the boundary instants as distinct non-trivial keys
			o.nontrivial([]interface{}{"tdpos", k.Period, k.BlockNum, k.ProposerNum, k.Alternate, k.Term, k.InitNs, b - k.InitNs})
		}
	}
	if _, f := sc.finish(); f != nil {
		return f
	}
	if !k.Accept {
		return nil
	}
	// acceptance: every validator, a stranger and the empty proposer on both sides of every boundary,
	// plus the last nanosecond before the schedule's origin
	stamps := []int64{}
	if k.InitNs > 0 {
		stamps = append(stamps, k.InitNs-1)
	}
	for _, b := range bounds {
		// quick tier: the boundaries of the first two terms and the hand-over into the third
		if k.AcceptAll || sc.thirdTermAt == 0 || b <= sc.thirdTermAt {
			stamps = append(stamps, b)
		}
	}
	cands := append(append([]string{}, vals...), c16Stranger().Address, "")
	xc := c16XCtx()
	blk := &c16Block{id: []byte{1}, storage: []byte{}, pre: leg.chain[0].id}
	for i, ts := range stamps {
		for _, who := range cands {
			blk.proposer, blk.height, blk.ts = who, 1+int64(i%3), ts
			ok, _ := inst.CheckMinerMatch(xc, blk)
			if !ok {
				nRej++
				continue
			}
			nAcc++
			_, pos, slot := vs.MinerScheduling(ts)
			if !entitled(pos, slot) || pos < 0 || vals[pos] != who {
				return c16Failf("accept", "block of proposer %q (validators %v) with timestamp %d (origin+%dns) accepted, but the schedule gives (pos=%d, slot=%d) for that instant",
					who, vals, ts, ts-k.InitNs, pos, slot)
			}
			if ts < k.InitNs {
				o.tag("observed:tdpos-block-before-schedule-origin-accepted")
			}
		}
	}
	return nil
}

// ---------------------------------------------------------------------------------------------
// XPoA
// ---------------------------------------------------------------------------------------------

type c16XpoaCase struct {
	Period   int64   `json:"period_ms"`
	BlockNum int64   `json:"block_num"`
	N        int     `json:"validators"`
	StartMs  int64   `json:"scan_start_ms"` // 0 = the schedule's origin (unix epoch)
	Phases   []int64 `json:"phases_ns"`
	Accept   bool    `json:"accept"`
}

func c16RunXpoa(k c16XpoaCase, o *c16Obs) *c16Fail {
	vals := c16RingAddrs(k.N)
	leg := c16NewLedger(0)
	vb, _ := json.Marshal(vals)
	conf := fmt.Sprintf(`{"period":%d,"block_num":%d,"init_proposer":{"address":%s}}`, k.Period, k.BlockNum, vb)
	inst, err := c16NewPlugin("xpoa", conf, leg, hx.Ring[0])
	if err != nil {
		return c16Failf("setup", "%v", err)
	}
	vs := xpoa.VerifScheduleOf(inst)
	if vs == nil {
		return c16Failf("setup", "not an xpoa instance")
	}
	if p, b := vs.Params(); p != k.Period || b != k.BlockNum {
		return c16Failf("setup", "instance parsed the configuration as period=%d block_num=%d", p, b)
	}
	n := int64(k.N)
	entitled := func(pos, slot int64) bool { // predicate of xpoaSchedule.GetLocalLeader
		return !(slot < 0 || slot > k.BlockNum || pos >= n)
	}
	ub := n * k.BlockNum * k.Period // a round has no configured gaps
	sc := &c16Scan{n: n, blockNum: k.BlockNum, periodNs: k.Period * c16Ms, firstWhole: k.StartMs == 0}
	nEnt, nGap := 0, 0
	defer func() {
		o.evals["xpoa-schedule:entitled-instant"] += nEnt
		if nGap > 0 {
			o.evals["xpoa-schedule:unentitled-instant"] += nGap
		}
	}()
	want := 4
	if k.StartMs != 0 {
		want = 5
	}
	for T := int64(0); T <= int64(want+1)*ub+2 && len(sc.terms) < want; T++ {
		for _, ph := range k.Phases {
			ts := (k.StartMs+T)*c16Ms + ph
			term, pos, slot := vs.MinerScheduling(ts, k.N)
			ent := entitled(pos, slot)
			if ent {
				nEnt++
			} else {
				nGap++
			}
			if f := sc.feed(ts, ent, c16Triple{term, pos, slot}); f != nil {
				return f
			}
		}
	}
	bounds := c16DedupSorted(sc.boundaries)
	for i, b := range bounds {
		if i%5 == 0 {
			o.nontrivial([]interface{}{"xpoa", k.Period, k.BlockNum, k.N, b})
		}
	}
	if _, f := sc.finish(); f != nil {
		return f
	}
	if !k.Accept {
		return nil
	}
	cands := append(append([]string{}, vals...), c16Stranger().Address, "")
	xc := c16XCtx()
	for i, ts := range bounds {
		for _, who := range cands {
			blk := &c16Block{proposer: who, height: 1 + int64(i%4), id: []byte{2, byte(i)}, ts: ts, storage: nil, pre: leg.chain[0].id}
			ok, _ := inst.CheckMinerMatch(xc, blk)
			if !ok {
				o.eval("xpoa-accept:rejected")
				continue
			}
			o.eval("xpoa-accept:accepted")
			_, pos, slot := vs.MinerScheduling(ts, k.N)
			if !entitled(pos, slot) || pos < 0 || vals[pos] != who {
				return c16Failf("accept", "block of proposer %q (validators %v) with timestamp %d accepted, but the schedule gives (pos=%d, slot=%d) for that instant",
					who, vals, ts, pos, slot)
			}
		}
	}
	return nil
}

// ---------------------------------------------------------------------------------------------
// single
// ---------------------------------------------------------------------------------------------

type c16SingleCase struct {
	Proposer int    `json:"proposer"` // ring index of the block's proposer address (0 = configured miner)
	Pub      int    `json:"pub"`      // ring index of the public key in the block, -1 = unparsable
	Signer   int    `json:"signer"`   // ring index of the signing key
	Sig      string `json:"sig"`      // valid | s+1 | other-id | empty | truncated | high-s
	IDSeed   int    `json:"id_seed"`
	BadID    bool   `json:"bad_id"` // the header hash recomputed by MakeBlockId differs from the block id
}

var c16SigKinds = []string{"valid", "s+1", "other-id", "empty", "truncated", "high-s"}

// c16MakeSig builds the signature bytes of the given kind by key k over id.
func c16MakeSig(kind string, k *hx.Key, id []byte) []byte {
	switch kind {
	case "empty":
		return nil
	case "other-id":
		return hx.DetSign(k.Priv, c16Hash("other:"+hex.EncodeToString(id)))
	}
	sig := hx.DetSign(k.Priv, id)
	switch kind {
	case "truncated":
		return sig[:len(sig)-3]
	case "s+1", "high-s":
		r, s, err := sign.UnmarshalECDSASignature(sig)
		if err != nil {
			panic(err)
		}
		N := k.Priv.Curve.Params().N
		if kind == "s+1" {
			s = new(big.Int).Add(s, big.NewInt(1))
			if s.Cmp(N) >= 0 {
				s = big.NewInt(1)
			}
		} else {
			s = new(big.Int).Sub(N, s)
		}
		out, err := sign.MarshalECDSASignature(r, s)
		if err != nil {
			panic(err)
		}
		return out
	}
	return sig
}

// c16RefVerify: does sig verify over id under pub (plain crypto/ecdsa on the parsed (r,s))?
func c16RefVerify(pub *ecdsa.PublicKey, id, sig []byte) bool {
	r, s, err := sign.UnmarshalECDSASignature(sig)
	if err != nil {
		return false
	}
	return ecdsa.Verify(pub, id, r, s)
}

func c16RunSingle(k c16SingleCase, o *c16Obs) *c16Fail {
	miner := hx.Ring[0]
	leg := c16NewLedger(0)
	conf := fmt.Sprintf(`{"miner":%q,"period":"3000","version":"0"}`, miner.Address)
	inst, err := c16NewPlugin("single", conf, leg, hx.Ring[0])
	if err != nil {
		return c16Failf("setup", "%v", err)
	}
	id := c16Hash(fmt.Sprintf("c16-single-%d", k.IDSeed))
	blk := &c16Block{proposer: hx.Ring[k.Proposer].Address, height: 1, id: id, ts: 1, pre: leg.chain[0].id}
	if k.Pub >= 0 {
		blk.pub = hx.Ring[k.Pub].PubJSON
	} else {
		blk.pub = `{"Curvname":"P-256","X":1,`
	}
	if k.BadID {
		blk.madeID = c16Hash("recomputed:" + hex.EncodeToString(id))
	}
	blk.sig = c16MakeSig(k.Sig, hx.Ring[k.Signer], id)
	ok, _ := inst.CheckMinerMatch(c16XCtx(), blk)
	if !ok {
		o.eval("single-accept:rejected")
		return nil
	}
	o.eval("single-accept:accepted")
	if blk.proposer != miner.Address {
		return c16Failf("single-proposer", "block of %s accepted, configured miner is %s", blk.proposer, miner.Address)
	}
	if !c16RefVerify(&miner.Priv.PublicKey, id, blk.sig) {
		return c16Failf("single-signature", "block accepted although its signature (%s by ring key %d) does not verify over the block id under the miner's key", k.Sig, k.Signer)
	}
	return nil
}

// ---------------------------------------------------------------------------------------------
// PoW: compact target format (independent reference: base-256 floating point as Bitcoin documents it)
// ---------------------------------------------------------------------------------------------

// c16RefDecode: value = mantissa(23 bit) * 256^(size-3) (shifted right for size<3); negative iff the
// sign bit 0x00800000 is set on a non-zero value; overflow iff the value does not fit in 256 bits.
func c16RefDecode(c uint32) (v *big.Int, negative, overflow bool) {
	size := int(c >> 24)
	v = big.NewInt(int64(c & 0x007fffff))
	if size >= 3 {
		v.Mul(v, new(big.Int).Exp(big.NewInt(256), big.NewInt(int64(size-3)), nil))
	} else {
		v.Quo(v, new(big.Int).Exp(big.NewInt(256), big.NewInt(int64(3-size)), nil))
	}
	negative = v.Sign() != 0 && c&0x00800000 != 0
	overflow = v.BitLen() > 256
	return
}

// c16RefEncode: the big-endian bytes of v, a zero byte in front if the top bit is set, the number of
// bytes as exponent and the first three bytes as mantissa.
func c16RefEncode(v *big.Int) uint32 {
	b := v.Bytes()
	if len(b) > 0 && b[0]&0x80 != 0 {
		b = append([]byte{0}, b...)
	}
	size := len(b)
	var m [3]byte
	copy(m[:], b)
	return uint32(size)<<24 | uint32(m[0])<<16 | uint32(m[1])<<8 | uint32(m[2])
}

func c16CompactNontrivial(c uint32) bool { return c&0x00800000 != 0 || c>>24 <= 3 }

// c16CheckDecode compares pow.SetCompact with the reference on one encoding.
func c16CheckDecode(c uint32, o *c16Obs) *c16Fail {
	u, neg, ovf := pow.SetCompact(c)
	rv, rneg, rovf := c16RefDecode(c)
	o.eval("compact:decode")
	if c16CompactNontrivial(c) {
		o.nontrivial([]interface{}{"compact", c})
	}
	if rneg && !neg {
		return c16Failf("compact-negative", "SetCompact(%#08x) does not flag the negative target", c)
	}
	if rovf && !ovf {
		return c16Failf("compact-overflow", "SetCompact(%#08x) does not flag the overflow (value has %d bits)", c, rv.BitLen())
	}
	if !rneg && neg {
		o.tag("observed:setcompact-negative-flag-stricter-than-reference")
	}
	if !rovf && ovf {
		o.tag("observed:setcompact-overflow-flag-stricter-than-reference")
	}
	if !rneg && !rovf && u.Cmp(rv) != 0 {
		return c16Failf("compact-value", "SetCompact(%#08x) = %s, reference %s", c, u.Text(16), rv.Text(16))
	}
	if rneg || rovf {
		return nil
	}
	// canonical encodings round-trip
	if c16RefEncode(rv) == c {
		got, ok := pow.GetCompact(rv)
		o.eval("compact:canonical-roundtrip")
		if !ok || got != c {
			return c16Failf("compact-roundtrip", "GetCompact(SetCompact(%#08x)) = %#08x, ok=%v", c, got, ok)
		}
	}
	return nil
}

// c16CheckEncode compares pow.GetCompact with the reference on one non-negative number and decodes
// the result again: the decoded target must be valid and must not exceed the number.
func c16CheckEncode(v *big.Int, o *c16Obs) *c16Fail {
	got, ok := pow.GetCompact(new(big.Int).Set(v))
	want := c16RefEncode(v)
	o.eval("compact:encode")
	if c16CompactNontrivial(want) {
		o.nontrivial([]interface{}{"compact-of", v.Text(16)})
	}
	if v.BitLen() > 256 {
		// not a 256-bit target: only demand that a produced encoding never denotes more than the number
		if !ok {
			return nil
		}
	} else if !ok || got != want {
		return c16Failf("compact-encode", "GetCompact(%s) = %#08x, ok=%v; reference %#08x", v.Text(16), got, ok, want)
	}
	rv, rneg, _ := c16RefDecode(got)
	if rneg || rv.Cmp(v) > 0 {
		return c16Failf("compact-encode", "GetCompact(%s) = %#08x denotes %s (negative=%v): above the number it encodes", v.Text(16), got, rv.Text(16), rneg)
	}
	return nil
}

var c16Mantissas = []uint32{0x000000, 0x000001, 0x00007f, 0x000080, 0x0000ff, 0x000100, 0x007fff, 0x008000, 0x00ffff,
	0x010000, 0x123456, 0x7fffff, 0x800000, 0x800001, 0x8000ff, 0x80ffff, 0x923456, 0xffffff}

func c16Exponents() []uint32 {
	out := []uint32{}
	for e := uint32(0); e <= 40; e++ {
		out = append(out, e)
	}
	return append(out, 0x7f, 0x80, 0xfe, 0xff)
}

// ---------------------------------------------------------------------------------------------
// PoW: IsProofed
// ---------------------------------------------------------------------------------------------

var c16Two256 = new(big.Int).Lsh(big.NewInt(1), 256)

// c16RefTarget: the target a bits value denotes. valid=false: no hash can be "not above" it.
func c16RefTarget(legacy bool, bits uint32) (target *big.Int, valid bool) {
	if legacy {
		if bits > 256 {
			return nil, false
		}
		return new(big.Int).Lsh(big.NewInt(1), uint(256-bits)), true
	}
	v, neg, _ := c16RefDecode(bits)
	return v, !neg
}

// c16HashFor renders a 32-byte id whose integer value is chosen relative to target.
func c16HashFor(kind string, frac int, target *big.Int) []byte {
	max := new(big.Int).Sub(c16Two256, big.NewInt(1))
	v := new(big.Int)
	switch kind {
	case "zero":
	case "one":
		v.SetInt64(1)
	case "ones":
		v.Set(max)
	case "at":
		v.Set(target)
	case "above":
		v.Add(target, big.NewInt(1))
	case "below":
		v.Sub(target, big.NewInt(1))
	case "frac":
		v.Mul(target, big.NewInt(int64(frac)))
		v.Quo(v, big.NewInt(1000))
	}
	if v.Sign() < 0 {
		v.SetInt64(0)
	}
	if v.Cmp(max) > 0 {
		v.Set(max)
	}
	return v.FillBytes(make([]byte, 32))
}

var c16HashKinds = []string{"zero", "one", "below", "at", "above", "ones"}

func c16PowConf(def, max uint32, gap, period int32) string {
	return fmt.Sprintf(`{"defaultTarget":"%d","adjustHeightGap":"%d","expectedPeriod":"%d","maxTarget":"%d"}`, def, gap, period, max)
}

type c16ProofCase struct {
	Default uint32 `json:"default_target"`
	Max     uint32 `json:"max_target"`
	Bits    uint32 `json:"bits"`
	Hash    string `json:"hash_hex"`
}

func c16NewPow(def, max uint32, gap, period int32, leg *c16Ledger) (*pow.PoWConsensus, error) {
	inst, err := c16NewPlugin("pow", c16PowConf(def, max, gap, period), leg, hx.Ring[0])
	if err != nil {
		return nil, err
	}
	pc, ok := inst.(*pow.PoWConsensus)
	if !ok {
		return nil, fmt.Errorf("not a pow instance")
	}
	return pc, nil
}

func c16CheckProofed(pc *pow.PoWConsensus, k c16ProofCase, o *c16Obs) *c16Fail {
	legacy := k.Default <= 256
	id, _ := hex.DecodeString(k.Hash)
	h := new(big.Int).SetBytes(id)
	target, valid := c16RefTarget(legacy, k.Bits)
	got := pc.IsProofed(id, k.Bits)
	if !got {
		o.eval("isproofed:false")
		if valid && h.Cmp(target) <= 0 {
			o.tag("observed:isproofed-false-though-hash-not-above-target")
		}
		return nil
	}
	o.eval("isproofed:true")
	if !valid || h.Cmp(target) > 0 {
		ts := "negative"
		if valid {
			ts = target.Text(16)
		}
		return c16Failf("isproofed", "IsProofed(id=%s, bits=%#x) = true (default target %#x, max target %#x) although the target is %s",
			k.Hash, k.Bits, k.Default, k.Max, ts)
	}
	return nil
}

// ---------------------------------------------------------------------------------------------
// PoW: chain of blocks through ProcessBeforeMiner (miner path) and CheckMinerMatch (validator path)
// ---------------------------------------------------------------------------------------------

type c16PowCand struct {
	Bits     string `json:"bits"` // prescribed | flip | parent | default | max | explicit
	Explicit uint32 `json:"explicit,omitempty"`
	Hash     string `json:"hash"` // zero | one | below | at | above | ones | frac  (relative to the target of the candidate's bits)
	Frac     int    `json:"frac,omitempty"`
	Ts       string `json:"ts"`  // before | same | after
	Sig      string `json:"sig"` // valid | s+1 | other-id
	Signer   int    `json:"signer"`
	BadID    bool   `json:"bad_id,omitempty"`
}

type c16PowStep struct {
	DeltaNs int64        `json:"delta_ns"` // timestamp increment of the block that extends the chain
	Frac    int          `json:"frac"`     // its hash as permille of its target
	Cands   []c16PowCand `json:"candidates"`
}

type c16PowCase struct {
	Default uint32       `json:"default_target"`
	Max     uint32       `json:"max_target"`
	Gap     int32        `json:"adjust_height_gap"`
	Period  int32        `json:"expected_period"`
	Steps   []c16PowStep `json:"steps"`
	Fork    *c16PowFork  `json:"fork,omitempty"`
}

// c16PowFork: after the trunk is grown, a side branch leaves it Back blocks below the tip. Its blocks carry the
// bits a node whose trunk IS that branch prescribes; the node that holds it as a side branch must judge them alike
// ("the target that the chain's own history prescribes": the candidate's own ancestors, not the trunk's blocks).
type c16PowFork struct {
	Back  int          `json:"back"`
	Steps []c16PowStep `json:"steps"` // DeltaNs and Frac only
}

func c16ParseBits(storage []byte) (uint32, error) {
	var st struct {
		TargetBits uint32 `json:"targetBits"`
	}
	if err := json.Unmarshal(storage, &st); err != nil {
		return 0, err
	}
	return st.TargetBits, nil
}

func c16BitsStorage(bits uint32) []byte {
	return []byte(fmt.Sprintf(`{"targetBits":%d}`, bits))
}

// c16RestartPow builds a second instance on the current stub history, as a restarted node would.
// On HEAD the constructor dereferences the not-yet-initialised maxDifficulty when the next height is
// a retarget height (pow.go: NewPoWConsensus -> refreshDifficulty): outside C16, recorded as a tag.
func c16RestartPow(k c16PowCase, leg *c16Ledger, o *c16Obs) (pc *pow.PoWConsensus) {
	defer func() {
		if r := recover(); r != nil {
			o.tag("observed:pow-constructor-panics-on-restart-before-retarget-height")
			pc = nil
		}
	}()
	pc, _ = c16NewPow(k.Default, k.Max, k.Gap, k.Period, leg)
	return pc
}

func c16RunPowChain(k c16PowCase, o *c16Obs) *c16Fail {
	legacy := k.Default <= 256
	const t0 = int64(1600000000) * 1000000000
	leg := c16NewLedger(t0)
	pc, err := c16NewPow(k.Default, k.Max, k.Gap, k.Period, leg)
	if err != nil {
		return c16Failf("setup", "%v", err)
	}
	pc.Start() // drains the new-height notifications CheckMinerMatch sends for accepted blocks
	defer pc.Stop()
	xc := c16XCtx()
	mkBlock := func(parent *c16Block, h int64, bits uint32, hashKind string, frac int, ts int64, sigKind string, signer int, badID bool, salt int) *c16Block {
		target, valid := c16RefTarget(legacy, bits)
		if !valid {
			target = big.NewInt(0)
		}
		id := c16HashFor(hashKind, frac, target)
		who := hx.Ring[1+salt%3]
		b := &c16Block{proposer: who.Address, height: h, id: id, storage: c16BitsStorage(bits), ts: ts,
			pub: who.PubJSON, pre: parent.id}
		b.sig = c16MakeSig(sigKind, hx.Ring[signer], id)
		if sigKind == "valid" {
			b.sig = c16MakeSig("valid", who, id)
		}
		if badID {
			b.madeID = c16Hash("recomputed:" + hex.EncodeToString(id))
		}
		return b
	}
	for si, st := range k.Steps {
		parent := leg.chain[len(leg.chain)-1]
		h := parent.height + 1
		_, storage, err := pc.ProcessBeforeMiner(parent.ts + st.DeltaNs)
		if err != nil {
			o.tag("pow-chain:miner-path-error")
			return nil
		}
		prescribed, err := c16ParseBits(storage)
		if err != nil {
			return c16Failf("setup", "miner path produced unparsable storage %q", storage)
		}
		parentBits := k.Default
		if parent.height > 0 {
			parentBits, _ = c16ParseBits(parent.storage)
		}
		if h > int64(k.Gap) && h%int64(k.Gap) != 0 && prescribed != parentBits {
			o.tag("observed:pow-bits-differ-from-parent-bits-between-retargets")
		}
		if h%int64(k.Gap) == 0 && prescribed != parentBits {
			o.tag("pow-chain:retarget-changed-bits")
		}
		fresh := c16RestartPow(k, leg, o) // a restarted node on the same history (nil: the constructor refused)
		var accBits uint32
		accepted := false
		check := func(b *c16Block, bits uint32, desc interface{}) *c16Fail {
			ok, _ := pc.CheckMinerMatch(xc, b)
			if fresh != nil {
				ok2, _ := fresh.CheckMinerMatch(xc, b)
				if ok != ok2 {
					return c16Failf("pow-instance-state", "step %d height %d candidate %+v: verdict %v from the running instance, %v from an instance restarted on the same history", si, h, desc, ok, ok2)
				}
			}
			if !ok {
				o.eval("pow-accept:rejected")
				return nil
			}
			o.eval("pow-accept:accepted")
			target, valid := c16RefTarget(legacy, bits)
			hv := new(big.Int).SetBytes(b.id)
			if !valid || hv.Cmp(target) > 0 {
				return c16Failf("pow-hash", "step %d height %d candidate %+v accepted: id %x is above the target of its bits %#x", si, h, desc, b.id, bits)
			}
			if b.ts < parent.ts {
				return c16Failf("pow-timestamp", "step %d height %d candidate %+v accepted: timestamp %d is before its parent's %d", si, h, desc, b.ts, parent.ts)
			}
			if accepted && accBits != bits {
				return c16Failf("pow-bits-unique", "step %d height %d: blocks with bits %#x and %#x are both accepted on the same parent (miner path prescribes %#x)", si, h, accBits, bits, prescribed)
			}
			if bits != prescribed {
				return c16Failf("pow-bits-miner", "step %d height %d candidate %+v accepted with bits %#x, the miner path on the same history prescribes %#x", si, h, desc, bits, prescribed)
			}
			accepted, accBits = true, bits
			return nil
		}
		for ci, cd := range st.Cands {
			var bits uint32
			switch cd.Bits {
			case "prescribed":
				bits = prescribed
			case "flip":
				bits = prescribed ^ 1
			case "parent":
				bits = parentBits
			case "default":
				bits = k.Default
			case "max":
				bits = k.Max
			default:
				bits = cd.Explicit
			}
			if legacy && bits > 256 {
				o.tag("pow-chain:skipped-legacy-bits-above-256")
				continue
			}
			ts := parent.ts + st.DeltaNs
			switch cd.Ts {
			case "before":
				ts = parent.ts - 1
			case "same":
				ts = parent.ts
			}
			b := mkBlock(parent, h, bits, cd.Hash, cd.Frac, ts, cd.Sig, cd.Signer, cd.BadID, si+ci)
			if f := check(b, bits, cd); f != nil {
				return f
			}
		}
		good := mkBlock(parent, h, prescribed, "frac", st.Frac, parent.ts+st.DeltaNs, "valid", 0, false, si)
		if f := check(good, prescribed, "chain-extending block"); f != nil {
			return f
		}
		if !accepted {
			o.tag("pow-chain:halted-no-acceptable-block")
			return nil
		}
		leg.add(good)
	}
	if k.Fork == nil || len(k.Fork.Steps) == 0 || len(leg.byID) != len(leg.chain) {
		return nil // no fork requested, or two trunk blocks share an id (the stub finds blocks by id)
	}
	// side branch: ledger 2 holds the same ancestors with the branch as its trunk
	f := len(leg.chain) - 1 - k.Fork.Back
	if f < 0 {
		f = 0
	}
	leg2 := &c16Ledger{byID: map[string]*c16Block{}}
	for _, b := range leg.chain[:f+1] {
		leg2.add(b)
	}
	pc2 := c16RestartPow(k, leg2, o)
	if pc2 == nil {
		return nil
	}
	pc2.Start()
	defer pc2.Stop()
	parent := leg.chain[f]
	for si, st := range k.Fork.Steps {
		h := parent.height + 1
		_, storage, err := pc2.ProcessBeforeMiner(parent.ts + st.DeltaNs)
		if err != nil {
			o.tag("pow-chain:miner-path-error")
			return nil
		}
		prescribed, err := c16ParseBits(storage)
		if err != nil {
			return c16Failf("setup", "miner path produced unparsable storage %q", storage)
		}
		cands := []uint32{prescribed}
		if int(h) < len(leg.chain) {
			if tb, _ := c16ParseBits(leg.chain[h].storage); tb != prescribed {
				cands = append(cands, tb) // what the trunk block of the same height carries
				o.tag("pow-fork:bits-differ-from-trunk-at-same-height")
			}
		}
		var next *c16Block
		for _, bits := range cands {
			if legacy && bits > 256 {
				continue
			}
			b := mkBlock(parent, h, bits, "frac", st.Frac, parent.ts+st.DeltaNs, "valid", 0, false, si)
			for v := new(big.Int).SetBytes(b.id); leg.byID[string(b.id)] != nil && v.Sign() > 0; {
				v.Sub(v, big.NewInt(1)) // ids are unique in the stub ledger: step below the colliding value
				b.id = v.FillBytes(make([]byte, 32))
				b.sig = c16MakeSig("valid", hx.Ring[1+si%3], b.id)
			}
			if leg.byID[string(b.id)] != nil {
				return nil
			}
			ok2, _ := pc2.CheckMinerMatch(xc, b)
			ok1, _ := pc.CheckMinerMatch(xc, b)
			o.eval("pow-fork:judged-on-both-nodes")
			if ok1 != ok2 {
				return c16Failf("pow-fork-history", "side-branch block at height %d (fork point height %d, trunk height %d) with bits %#x: verdict %v on the node that holds its ancestors as a side branch, %v on a node whose trunk is that branch (miner path there prescribes %#x)",
					h, f, len(leg.chain)-1, bits, ok1, ok2, prescribed)
			}
			if ok2 && bits == prescribed {
				next = b
			}
		}
		if next == nil {
			o.tag("pow-chain:halted-no-acceptable-block")
			return nil
		}
		if h%int64(k.Gap) == 0 && h > int64(k.Gap) && int64(f) < h-1 {
			o.tag("pow-fork:retarget-on-side-branch")
		}
		leg2.add(next)
		leg.addSide(next)
		parent = next
	}
	return nil
}

// ---------------------------------------------------------------------------------------------
// acceptance when the validator set changes on the chain (tdpos: election for the next term; xpoa: edited set)
// ---------------------------------------------------------------------------------------------

type c16ChangeCase struct {
	Plugin string `json:"plugin"`          // tdpos | xpoa
	N      int    `json:"n"`               // size of the initial set Ring[0..N)
	N2     int    `json:"n2"`              // size of the set recorded on the chain, Ring[N..N+N2) (tdpos: N2 = N)
	Below  bool   `json:"below,omitempty"` // tdpos: also candidates one block BELOW the tip (a stale fork crossing the term boundary)
	// Tied: tdpos - all elected candidates hold the same number of ballots. Which of them gets which position is not
	// asserted; asserted is that two nodes, asked repeatedly, never accept two different producers for one instant.
	Tied bool `json:"tied,omitempty"`
}

// c16RunChange: oracle = accepted => the proposer is the member, at the position the schedule gives for the block's OWN
// timestamp, of the validator set in force for it. The stub chain is built so that this set is known without
// transcribing any election rule: tdpos - every snapshot reports the same election, so every term after the first is
// run by the elected set and term 1 by the initial one; xpoa - the edit sits in block 3, so blocks of height >= 7 are
// produced by the new set.
func c16RunChange(k c16ChangeCase, o *c16Obs) *c16Fail {
	initSet := c16RingAddrs(k.N)
	var newSet []string
	for i := 0; i < k.N2; i++ {
		newSet = append(newSet, hx.Ring[k.N+i].Address)
	}
	cands := append(append(append([]string{}, initSet...), newSet...), c16Stranger().Address)
	xc := c16XCtx()
	switch k.Plugin {
	case "tdpos":
		init := int64(1559021720000) * c16Ms
		kc := c16TdposCase{Period: 3, BlockNum: 3, ProposerNum: int64(k.N), Alternate: 3, Term: 6, InitNs: init}
		leg := c16NewLedger(init)
		leg.snap = map[string][]byte{}
		nominate := map[string]map[string]int64{}
		for i, a := range newSet {
			nominate[a] = map[string]int64{a: 1}
			ballots := int64(1000 - i)
			if k.Tied {
				ballots = 1000
			}
			vb, _ := json.Marshal(map[string]int64{"voter": ballots})
			leg.snap["_vote_"+a] = vb
		}
		nb, _ := json.Marshal(nominate)
		leg.snap["_nominate"] = nb
		inst, err := c16NewPlugin("tdpos", c16TdposConf(kc, initSet), leg, hx.Ring[0])
		if err != nil {
			return c16Failf("setup", "%v", err)
		}
		insts := []base.ConsensusImplInterface{inst}
		if k.Tied {
			inst2, err := c16NewPlugin("tdpos", c16TdposConf(kc, initSet), leg, hx.Ring[1]) // a second node on the same ledger
			if err != nil {
				return c16Failf("setup", "%v", err)
			}
			insts = append(insts, inst2, inst, inst2)
		}
		vs := tdpos.VerifScheduleOf(inst)
		entitled := func(pos, slot int64) bool { return !(slot < 0 || slot >= kc.BlockNum || pos >= kc.ProposerNum) }
		// trunk blocks 1..4: the first entitled instants of term 1 (one block per millisecond is fine for the stub)
		var termStart [4]int64 // first entitled instant of terms 1..3
		ts := init
		for h := int64(1); h <= 4; {
			ts += c16Ms
			term, pos, slot := vs.MinerScheduling(ts)
			if !entitled(pos, slot) {
				continue
			}
			if term != 1 {
				return c16Failf("setup", "term 1 has fewer than 4 entitled milliseconds")
			}
			st, _ := json.Marshal(map[string]int64{"curTerm": 1, "curBlockNum": slot})
			leg.add(&c16Block{proposer: initSet[pos], height: h, id: c16Hash(fmt.Sprintf("c16-change-%d", h)), pre: leg.chain[h-1].id, ts: ts, storage: st})
			h++
		}
		// candidates: every millisecond from the tip's instant to the end of term 2, at heights tip+1 and tip
		tip := leg.chain[4]
		for t := tip.ts; ; t += c16Ms {
			term, pos, slot := vs.MinerScheduling(t)
			if term >= 3 && entitled(pos, slot) {
				break
			}
			if t > tip.ts+int64(k.N+2)*100*c16Ms {
				return c16Failf("setup", "term 3 not reached")
			}
			if term >= 1 && term <= 3 && termStart[term] == 0 && entitled(pos, slot) {
				termStart[term] = t
			}
			heights := []int64{5, 4}
			if k.Below {
				heights = append(heights, 3)
			}
			for _, h := range heights {
				producer := "" // Tied: the one producer accepted for this instant so far
				for ci := 0; ci < len(cands)*len(insts); ci++ {
					who, inst := cands[ci%len(cands)], insts[ci/len(cands)]
					st, _ := json.Marshal(map[string]int64{"curTerm": term, "curBlockNum": slot})
					blk := &c16Block{proposer: who, height: h, id: c16Hash(fmt.Sprintf("c16-cand-%d-%d-%s", h, t, who)), pre: leg.chain[h-1].id, ts: t, storage: st}
					ok, _ := inst.CheckMinerMatch(xc, blk)
					if !ok {
						o.eval("tdpos-change-accept:rejected")
						continue
					}
					o.eval("tdpos-change-accept:accepted")
					set := initSet
					if term >= 2 {
						set = newSet
					}
					if k.Tied && term >= 2 && h >= 4 && entitled(pos, slot) {
						member := false
						for _, a := range newSet {
							member = member || a == who
						}
						if member && (producer == "" || producer == who) {
							producer = who
							o.tag("tdpos-change:accepted-from-tied-election")
							continue
						}
						if member {
							return c16Failf("two-producers-one-instant", "tdpos blocks of %q and of %q with the same timestamp origin+%dms = (term %d, pos %d, slot %d) at height %d were both accepted (evaluation %d of two nodes asked twice each; elected set %v, every candidate with 1000 ballots)",
								producer, who, (t-init)/c16Ms, term, pos, slot, h, ci/len(cands), newSet)
						}
					}
					if !entitled(pos, slot) || set[pos] != who {
						kind := "accept-elected"
						if h < 4 {
							kind = "accept-elected-below-tip"
						}
						return c16Failf(kind, "tdpos block of %q at height %d (ledger tip height 4, term 1) with timestamp origin+%dms = (term %d, pos %d, slot %d) accepted; the set in force for term %d is %v (initial set %v, elected for every later term %v)",
							who, h, (t-init)/c16Ms, term, pos, slot, term, set, initSet, newSet)
					}
					if term >= 2 {
						o.tag("tdpos-change:accepted-from-elected-set")
						if h == 4 {
							o.tag("tdpos-change:sibling-of-tip-in-next-term")
						}
					}
				}
			}
		}
	case "xpoa":
		period, blockNum := int64(3), int64(2)
		leg := c16NewLedger(0)
		vb, _ := json.Marshal(map[string][]string{"address": newSet})
		leg.snap = map[string][]byte{"_validates": vb}
		leg.snapFrom = 3
		ib, _ := json.Marshal(initSet)
		conf := fmt.Sprintf(`{"period":%d,"block_num":%d,"init_proposer":{"address":%s}}`, period, blockNum, ib)
		inst, err := c16NewPlugin("xpoa", conf, leg, hx.Ring[0])
		if err != nil {
			return c16Failf("setup", "%v", err)
		}
		vs := xpoa.VerifScheduleOf(inst)
		for h := int64(1); h <= 6; h++ {
			leg.add(&c16Block{proposer: initSet[0], height: h, id: c16Hash(fmt.Sprintf("c16-xchange-%d", h)), pre: leg.chain[h-1].id, ts: h * c16Ms, storage: []byte{}})
		}
		// height 7: proposer from the snapshot of block 3 (new set); every millisecond of two rounds of the longer set
		span := int64(2*(k.N+k.N2)) * blockNum * period
		for T := int64(10); T <= 10+span; T++ {
			t := T * c16Ms
			_, pos, slot := vs.MinerScheduling(t, len(newSet))
			for _, who := range cands {
				blk := &c16Block{proposer: who, height: 7, id: c16Hash(fmt.Sprintf("c16-xcand-%d-%s", T, who)), pre: leg.chain[6].id, ts: t, storage: []byte{}}
				ok, _ := inst.CheckMinerMatch(xc, blk)
				if !ok {
					o.eval("xpoa-change-accept:rejected")
					continue
				}
				o.eval("xpoa-change-accept:accepted")
				if slot < 0 || slot > blockNum || pos >= int64(len(newSet)) || newSet[pos] != who {
					return c16Failf("accept-elected", "xpoa block of %q at height 7 with timestamp %dms accepted; the set in force (edited in block 3, %d validators: %v) gives (pos %d, slot %d); the node still holds the initial set of %d in memory",
						who, T, len(newSet), newSet, pos, slot, len(initSet))
				}
				o.tag("xpoa-change:accepted-from-new-set")
			}
		}
	default:
		return c16Failf("setup", "unknown plugin %q", k.Plugin)
	}
	return nil
}

func c16Changes(t *testing.T, c *hx.Collector) {
	agg := c16NewAgg()
	logged := 0
	var cases []c16ChangeCase
	for n := 1; n <= 4; n++ {
		cases = append(cases, c16ChangeCase{Plugin: "tdpos", N: n, N2: n})
		if n >= 2 {
			cases = append(cases, c16ChangeCase{Plugin: "tdpos", N: n, N2: n, Tied: true})
		}
		for _, n2 := range []int{n - 1, n, n + 1, n + 2} {
			if n2 >= 1 && n+n2 < hx.RingSize-1 {
				cases = append(cases, c16ChangeCase{Plugin: "xpoa", N: n, N2: n2})
			}
		}
	}
	// candidates below the tip: the trigger shape of a listed finding (witness first; generated only once it passes)
	below := true
	if f := c16RunChange(c16ChangeCase{Plugin: "tdpos", N: 1, N2: 1, Below: true}, c16NewObs(0)); f != nil {
		below = false
		if f.Kind == "accept-elected-below-tip" {
			c16Report(t, c, "validator-change", f, c16ChangeCase{Plugin: "tdpos", N: 1, N2: 1, Below: true}, "tdpos-block-below-tip-judged-by-trunk-term", &logged)
		} else {
			c16Report(t, c, "validator-change", f, c16ChangeCase{Plugin: "tdpos", N: 1, N2: 1, Below: true}, "", &logged)
		}
	}
	for i, k := range cases {
		if !c16Mine(i) {
			continue
		}
		if k.Plugin == "tdpos" && !k.Tied {
			k.Below = below
		}
		o := c16NewObs(1)
		f := c16RunChange(k, o)
		if o.tags["tdpos-change:sibling-of-tip-in-next-term"] > 0 || o.tags["tdpos-change:accepted-from-tied-election"] > 0 || (k.Plugin == "xpoa" && k.N != k.N2 && o.tags["xpoa-change:accepted-from-new-set"] > 0) {
			o.nontrivial(k)
		}
		agg.add(c, o)
		if f != nil {
			c16Report(t, c, "validator-change", f, k, "", &logged)
			break
		}
	}
	agg.flush(c)
	c.SetExhaustive("validator-set change: tdpos n=1..4 (disjoint elected set of the same size), every millisecond from the tip to the 3rd term, candidate heights tip+1 and tip, every member of both sets and a stranger; xpoa n=1..4 -> n-1..n+2 validators, every millisecond of two rounds")
}

// ---------------------------------------------------------------------------------------------
// the producer's own path (tdpos): CompeteMaster, then ProcessBeforeMiner for the timestamp the block will carry
// ---------------------------------------------------------------------------------------------

type c16MinerCase struct {
	N        int   `json:"n"`
	BlockNum int64 `json:"block_num"`
	Period   int64 `json:"period_ms"`
}

// c16RunMiner: a node's own block is stored without CheckMinerMatch; what stands between the node and a block stamped
// in somebody else's slot is ProcessBeforeMiner(timestamp). Oracle: ProcessBeforeMiner succeeds => the schedule names
// this node for that very timestamp. CompeteMaster is a real-time call (it reads the wall clock and waits for the next
// period): the clock decides which term is scanned, no assertion depends on it.
func c16RunMiner(k c16MinerCase, o *c16Obs) *c16Fail {
	vals := c16RingAddrs(k.N)
	init := int64(1559021720000) * c16Ms
	kc := c16TdposCase{Period: k.Period, BlockNum: k.BlockNum, ProposerNum: int64(k.N), Alternate: k.Period, Term: k.Period, InitNs: init}
	leg := c16NewLedger(init)
	inst, err := c16NewPlugin("tdpos", c16TdposConf(kc, vals), leg, hx.Ring[0])
	if err != nil {
		return c16Failf("setup", "%v", err)
	}
	vs := tdpos.VerifScheduleOf(inst)
	master := false
	for i := int64(0); i < 4*int64(k.N)*(k.BlockNum+1)+8 && !master; i++ {
		master, _, _ = inst.CompeteMaster(1)
	}
	if !master {
		o.tag("miner-path:never-master")
		return nil
	}
	termLen := kc.Term + kc.ProposerNum*(kc.Alternate+kc.BlockNum*kc.Period)
	now := time.Now().UnixNano() / c16Ms * c16Ms
	for ts := now - 2*termLen*c16Ms; ts <= now+2*termLen*c16Ms; ts += c16Ms / 2 {
		if _, _, err := inst.ProcessBeforeMiner(ts); err != nil {
			o.eval("tdpos-miner-path:refused")
			continue
		}
		o.eval("tdpos-miner-path:allowed")
		term, pos, slot := vs.MinerScheduling(ts)
		if slot < 0 || slot >= kc.BlockNum || pos < 0 || pos >= kc.ProposerNum || vals[pos] != vals[0] {
			return c16Failf("miner-path", "tdpos node %q (validators %v, period %dms, block_num %d) was just told by CompeteMaster that it is the producer; ProcessBeforeMiner then allowed it a block with a timestamp %dms later that the schedule gives to (term %d, pos %d, slot %d)",
				vals[0], vals, k.Period, k.BlockNum, (ts-now)/c16Ms, term, pos, slot)
		}
		o.tag("miner-path:own-slot-allowed")
	}
	return nil
}

func c16MinerPath(t *testing.T, c *hx.Collector) {
	agg := c16NewAgg()
	logged := 0
	idx := 0
	for _, n := range []int{2, 3} {
		for _, bn := range []int64{1, 2, 3} {
			idx++
			if !c16Mine(idx) {
				continue
			}
			k := c16MinerCase{N: n, BlockNum: bn, Period: 10}
			o := c16NewObs(1)
			f := c16RunMiner(k, o)
			if o.tags["miner-path:own-slot-allowed"] > 0 && o.evals["tdpos-miner-path:refused"] > 0 {
				o.nontrivial(k)
			}
			agg.add(c, o)
			if f != nil {
				c16Report(t, c, "miner-path", f, k, "", &logged)
				agg.flush(c)
				return
			}
		}
	}
	agg.flush(c)
}

// ---------------------------------------------------------------------------------------------
// upgrade proposals through the pluggable-consensus layer: a REJECTED proposal entitles nobody
// ---------------------------------------------------------------------------------------------

type c16Proposal struct {
	Name   string `json:"name"`             // consensus name of the proposal
	Miner  int    `json:"miner"`            // ring key named by the proposal
	Height int    `json:"height"`           // "height" argument of the kernel method
	Broken string `json:"broken,omitempty"` // "" | noargs | badjson | noname | noconfig
}

type c16UpgradeCase struct {
	Props []c16Proposal `json:"proposals"`
}

// c16RunUpgrade: a chain that runs single with miner Ring[0] (real PluggableConsensus over the repository's fake
// ledger); upgrade proposals are executed through the registered kernel method. Oracle (metamorphic, no rule
// transcribed): after a proposal the method itself REFUSED (error response, nothing written), the verdict on every
// candidate block - each ring key x a few heights - and the reported running consensus are what they were before.
func c16RunUpgrade(k c16UpgradeCase, o *c16Obs) *c16Fail {
	conf := func(miner string) map[string]interface{} {
		return map[string]interface{}{"version": "0", "miner": miner, "period": "3000"}
	}
	gj, _ := json.Marshal(conf(hx.Ring[0].Address))
	genesis, _ := json.Marshal(def.ConsensusConfig{ConsensusName: "single", Config: string(gj)})
	leg := kmock.NewFakeLedger(genesis)
	cc := c16ConsCtx(leg, hx.Ring[0])
	reg := &kmock.FakeRegistry{M: map[string]contract.KernMethod{}}
	cc.Contract = &kmock.FakeManager{R: reg}
	pc, err := consensus.NewPluggableConsensus(cc)
	if err != nil {
		return c16Failf("setup", "NewPluggableConsensus: %v", err)
	}
	update := reg.M["updateConsensus"]
	if update == nil {
		return c16Failf("setup", "updateConsensus is not registered")
	}
	xc := c16XCtx()
	verdicts := func() (string, *c16Fail) {
		out := ""
		for _, h := range []int64{3, 9, 40} {
			for i := 0; i < 3; i++ {
				key := hx.Ring[i]
				id := c16Hash(fmt.Sprintf("c16-upgrade-%d-%d", h, i))
				sig, err := hx.Crypt.SignECDSA(key.Priv, id)
				if err != nil {
					return "", c16Failf("setup", "%v", err)
				}
				blk := &kmock.FakeBlock{Proposer: key.Address, Height: h, Blockid: id, ConsensusStorage: []byte{}, Timestamp: h * 3000 * c16Ms, PublicKey: key.PubJSON, Sign: sig}
				ok, _ := pc.CheckMinerMatch(xc, blk)
				out += fmt.Sprintf("%d/K%d=%v ", h, i, ok)
				if ok {
					o.eval("upgrade-accept:accepted")
				} else {
					o.eval("upgrade-accept:rejected")
				}
			}
		}
		st, err := pc.GetConsensusStatus()
		if err != nil {
			return "", c16Failf("setup", "GetConsensusStatus: %v", err)
		}
		return out + fmt.Sprintf("running=(item %d, from height %d, %s)", st.GetStepConsensusIndex(), st.GetConsensusBeginInfo(), st.GetConsensusName()), nil
	}
	before, f := verdicts()
	if f != nil {
		return f
	}
	if !strings.Contains(before, "3/K0=true") || strings.Contains(before, "K1=true") {
		return c16Failf("upgrade", "single with miner K0: verdicts %s", before)
	}
	store := map[string]map[string][]byte{}
	for i, p := range k.Props {
		args := map[string][]byte{}
		body := map[string]interface{}{"name": p.Name, "config": conf(hx.Ring[p.Miner].Address)}
		switch p.Broken {
		case "noname":
			delete(body, "name")
		case "noconfig":
			delete(body, "config")
		}
		raw, _ := json.Marshal(body)
		if p.Broken == "badjson" {
			raw = raw[:len(raw)/2]
		}
		if p.Broken != "noargs" {
			args["args"] = raw
		}
		args["height"] = []byte(fmt.Sprint(p.Height))
		kctx := kmock.NewFakeKContext(args, store)
		resp, uerr := func() (r *contract.Response, e error) {
			defer func() {
				if x := recover(); x != nil {
					e = fmt.Errorf("PANIC %v", x)
				}
			}()
			return update(kctx)
		}()
		if uerr != nil && strings.HasPrefix(uerr.Error(), "PANIC") {
			// a plug-in constructor that panics on a configuration it cannot read (pow: DESIGN 9.8) is not a matter
			// of C16; whoever recovers from it must still find the entitled producers unchanged
			o.tag("upgrade:constructor-panicked(observation)")
		}
		if uerr == nil && resp != nil && resp.Status < 400 {
			o.tag("upgrade:proposal-accepted-not-judged")
			return nil // the chain adopted another configuration: what it entitles is the business of the other sub-checks
		}
		o.tag("upgrade:proposal-refused")
		after, f := verdicts()
		if f != nil {
			return f
		}
		if after != before {
			return c16Failf("upgrade", "proposal %d %+v was REFUSED by updateConsensus (%v) and still changed who may produce: before %s, after %s", i, p, uerr, before, after)
		}
	}
	return nil
}

func c16Upgrades(t *testing.T, c *hx.Collector) {
	agg := c16NewAgg()
	defer agg.flush(c)
	logged := 0
	c.Check(t, "upgrade-proposals", hx.N(200, 3000), func(cs *hx.Case) {
		rt := cs.RT()
		var k c16UpgradeCase
		n := rapid.IntRange(1, 3).Draw(rt, "nprops")
		for i := 0; i < n; i++ {
			k.Props = append(k.Props, c16Proposal{
				Name:   rapid.SampledFrom([]string{"single", "single", "single", "tdpos", "xpoa", "pow", "nope", ""}).Draw(rt, "name"),
				Miner:  rapid.IntRange(0, 2).Draw(rt, "miner"),
				Height: rapid.SampledFrom([]int{0, 1, 2, 8, 9, 10, 39, 41}).Draw(rt, "height"),
				Broken: rapid.SampledFrom([]string{"", "", "", "", "noargs", "badjson", "noname", "noconfig"}).Draw(rt, "broken"),
			})
		}
		cs.Op(k)
		o := c16NewObs(1)
		f := c16RunUpgrade(k, o)
		if o.tags["upgrade:proposal-refused"] > 0 {
			o.nontrivial(k)
			cs.Nontrivial()
		}
		for tg := range o.tags {
			cs.Label(tg)
		}
		agg.add(c, o)
		if f != nil {
			_ = logged
			cs.Failf("%s", f.Error())
		}
	})
}

// ---------------------------------------------------------------------------------------------
// the test
// ---------------------------------------------------------------------------------------------

// c16Report turns the failure of an enumerated case into a violation, or - for the one signature
// recorded below as a HEAD failure candidate - into a HEAD-FAILURE log line and label.
func c16Report(t *testing.T, c *hx.Collector, sub string, f *c16Fail, input interface{}, headID string, logged *int) {
	if headID != "" {
		// findings protocol: this failure signature is the trigger shape of a listed finding
		if fd, ok := c16FS.Listed("C16-" + headID); ok && fd.Status == "known" {
			c.Known(fd.What)
			c.Exclude("C16-" + headID)
			if *logged < 3 {
				*logged++
				b, _ := json.Marshal(input)
				t.Logf("known finding %s [%s] %s: %s input=%s", headID, sub, f.Kind, f.Msg, b)
			}
			return
		}
	}
	p := c.Violate(sub, f.Error(), []interface{}{input})
	t.Errorf("C16 %s: %s (replay %s)", sub, f.Error(), p)
}

// c16FS is the known-findings file of this run (set by TestC16).
var c16FS *hx.FindingSet

func c16Mine(idx int) bool { return hx.Shards() <= 1 || idx%hx.Shards() == hx.Shard() }

func c16Range(lo, hi int64) []int64 {
	out := []int64{}
	for v := lo; v <= hi; v++ {
		out = append(out, v)
	}
	return out
}

func c16Schedules(t *testing.T, c *hx.Collector) {
	thorough := hx.Tier() == "thorough"
	ntCap := 6 // distinct non-trivial keys registered per configuration
	periods, maxBN, maxPN := []int64{1, 2, 3, 5}, int64(4), int64(4)
	phases := []int64{0, c16Ms - 1}
	inits := []int64{0, 7 * c16Ms, 3*c16Ms + c16Ms/2, 1559021720000000000}
	if thorough {
		periods, maxBN, maxPN = []int64{1, 2, 3, 4, 5, 7, 10}, 8, 8
		ntCap = 3
		phases = []int64{0, 1, c16Ms / 2, c16Ms - 1}
		inits = append(inits, 1559021720000000000+123456789)
	}
	agg := c16NewAgg()
	idx, logged, samples := 0, 0, 0
tdposBox:
	for _, p := range periods {
		for bn := int64(1); bn <= maxBN; bn++ {
			for pn := int64(1); pn <= maxPN; pn++ {
				for _, alt := range c16Range(p, 3*p) {
					for _, ti := range c16Range(alt, 3*alt) {
						for _, init := range inits {
							idx++
							if !c16Mine(idx) {
								continue
							}
							k := c16TdposCase{Period: p, BlockNum: bn, ProposerNum: pn, Alternate: alt, Term: ti, InitNs: init, Phases: phases, Accept: true, AcceptAll: thorough}
							o := c16NewObs(ntCap)
							f := c16RunTdpos(k, o)
							agg.add(c, o)
							if samples < 2 && p == 3 && bn == 2 && pn == 3 {
								samples++
								c.Sample(map[string]interface{}{"test": "tdpos-schedule", "case": k})
							}
							if f == nil {
								continue
							}
							// HEAD failure candidate: with period = 1 ms the first slot of every producer is empty
							// (see the final report of this check); any other failure is a violation.
							head := ""
							if p == 1 && (f.Kind == "slot-count" || f.Kind == "no-complete-term") {
								head = "tdpos-first-slot-loses-1ms"
							}
							c16Report(t, c, "tdpos-schedule", f, k, head, &logged)
							if head == "" {
								break tdposBox
							}
						}
					}
				}
			}
		}
	}
	c.SetExhaustive(fmt.Sprintf("tdpos: period in %v ms x block_num 1..%d x proposer_num 1..%d x alternate_interval in [period,3*period] x term_interval in [alternate,3*alternate] x %d schedule origins, every millisecond (%d sub-millisecond phases) from the origin until the 4th term begins",
		periods, maxBN, maxPN, len(inits), len(phases)))

	xperiods, xmaxBN, xmaxN := []int64{1, 2, 3, 5}, int64(4), 4
	starts := []int64{0, 1559021720123}
	if thorough {
		xperiods, xmaxBN, xmaxN = []int64{1, 2, 3, 4, 5, 7, 10, 50}, 8, 8
		starts = append(starts, 999, 1700000000000)
	}
	idx = 0
xpoaBox:
	for _, p := range xperiods {
		for bn := int64(1); bn <= xmaxBN; bn++ {
			for n := 1; n <= xmaxN; n++ {
				for _, st := range starts {
					idx++
					if !c16Mine(idx) {
						continue
					}
					k := c16XpoaCase{Period: p, BlockNum: bn, N: n, StartMs: st, Phases: phases, Accept: true}
					o := c16NewObs(ntCap)
					f := c16RunXpoa(k, o)
					agg.add(c, o)
					if p == 2 && bn == 2 && n == 3 && st == 0 {
						c.Sample(map[string]interface{}{"test": "xpoa-schedule", "case": k})
					}
					if f != nil {
						c16Report(t, c, "xpoa-schedule", f, k, "", &logged)
						break xpoaBox
					}
				}
			}
		}
	}
	c.SetExhaustive(fmt.Sprintf("xpoa: period in %v ms x block_num 1..%d x 1..%d validators x %d scan origins, every millisecond (%d phases) of >= 3 complete rounds",
		xperiods, xmaxBN, xmaxN, len(starts), len(phases)))
	agg.flush(c)
}

func c16Single(t *testing.T, c *hx.Collector) {
	agg := c16NewAgg()
	logged := 0
	for _, prop := range []int{0, 1} {
		for _, pub := range []int{0, 1, -1} {
			for _, signer := range []int{0, 1} {
				for _, sk := range c16SigKinds {
					for _, bad := range []bool{false, true} {
						for seed := 0; seed < 2; seed++ {
							k := c16SingleCase{Proposer: prop, Pub: pub, Signer: signer, Sig: sk, IDSeed: seed, BadID: bad}
							o := c16NewObs(1)
							f := c16RunSingle(k, o)
							// non-trivial: everything but one ingredient is right
							wrong := 0
							for _, w := range []bool{prop != 0, pub != 0, signer != 0, sk != "valid" && sk != "high-s", bad} {
								if w {
									wrong++
								}
							}
							if wrong <= 1 {
								o.nontrivial([]interface{}{"single", k})
							}
							agg.add(c, o)
							if f != nil {
								c16Report(t, c, "single-accept", f, k, "", &logged)
								agg.flush(c)
								return
							}
						}
					}
				}
			}
		}
	}
	c.SetExhaustive("single: proposer {miner, other} x public key {miner's, other's, unparsable} x signer {miner, other} x signature kind " + fmt.Sprint(c16SigKinds) + " x recomputed header id {equal, different}")
	agg.flush(c)
	if t.Failed() {
		return
	}
	c.Check(t, "single-accept", hx.N(150, 6000), func(cs *hx.Case) {
		rt := cs.RT()
		k := c16SingleCase{
			Proposer: rapid.IntRange(0, 2).Draw(rt, "proposer"),
			Pub:      rapid.IntRange(-1, 2).Draw(rt, "pub"),
			Signer:   rapid.IntRange(0, 2).Draw(rt, "signer"),
			Sig:      rapid.SampledFrom(c16SigKinds).Draw(rt, "sig"),
			IDSeed:   rapid.IntRange(0, 1<<20).Draw(rt, "id"),
			BadID:    rapid.IntRange(0, 5).Draw(rt, "badid") == 0,
		}
		cs.Op(k)
		o := c16NewObs(0)
		if f := c16RunSingle(k, o); f != nil {
			cs.Failf("%s", f.Error())
		}
		if o.evals["single-accept:accepted"] > 0 {
			cs.Label("single-accept:accepted")
		} else {
			cs.Label("single-accept:rejected")
		}
		if k.Proposer == 0 && k.Pub == 0 && !k.BadID && (k.Signer != 0 || (k.Sig != "valid" && k.Sig != "high-s")) {
			cs.Nontrivial() // only the signature is wrong
		}
	})
}

func c16Compact(t *testing.T, c *hx.Collector) {
	agg := c16NewAgg()
	logged := 0
	o := c16NewObs(100000)
	var fail *c16Fail
	var failIn interface{}
sweep:
	for _, e := range c16Exponents() {
		for _, m := range c16Mantissas {
			cpt := e<<24 | m
			if f := c16CheckDecode(cpt, o); f != nil {
				fail, failIn = f, map[string]interface{}{"compact": cpt}
				break sweep
			}
			if e > 40 {
				continue
			}
			if rv, rneg, _ := c16RefDecode(cpt); !rneg {
				for _, d := range []int64{-1, 0, 1} {
					v := new(big.Int).Add(rv, big.NewInt(d))
					if v.Sign() < 0 {
						continue
					}
					if f := c16CheckEncode(v, o); f != nil {
						fail, failIn = f, map[string]interface{}{"value_hex": v.Text(16)}
						break sweep
					}
				}
			}
		}
	}
	// powers of two and their neighbours: every byte length and every position of the top bit
	if fail == nil {
	bits:
		for b := uint(0); b <= 300; b++ {
			p := new(big.Int).Lsh(big.NewInt(1), b)
			for _, d := range []int64{-1, 0, 1} {
				v := new(big.Int).Add(p, big.NewInt(d))
				if f := c16CheckEncode(v, o); f != nil {
					fail, failIn = f, map[string]interface{}{"value_hex": v.Text(16)}
					break bits
				}
			}
		}
	}
	c.Sample(map[string]interface{}{"test": "compact", "compact": "0x04800001", "note": "sign bit set on a non-zero mantissa"})
	agg.add(c, o)
	agg.flush(c)
	if fail != nil {
		c16Report(t, c, "compact-sweep", fail, failIn, "", &logged)
		return
	}
	if n := o.tags["observed:setcompact-overflow-flag-stricter-than-reference"]; n > 0 {
		t.Logf("OBSERVATION: SetCompact flags an overflow on %d swept encodings whose value fits in 256 bits (stricter than the reference; not a violation of C16, the block is rejected)", n)
	}
	c.SetExhaustive("compact: exponents 0..40,0x7f,0x80,0xfe,0xff x 18 boundary mantissas (sign bit included); 2^b-1, 2^b, 2^b+1 for b in 0..300")
	c.Check(t, "compact-decode", hx.N(3000, 60000), func(cs *hx.Case) {
		rt := cs.RT()
		var cpt uint32
		if rapid.IntRange(0, 3).Draw(rt, "shape") == 0 {
			cpt = rapid.Uint32().Draw(rt, "compact")
		} else {
			cpt = rapid.Uint32Range(0, 36).Draw(rt, "exp")<<24 | rapid.Uint32Range(0, 0xffffff).Draw(rt, "mant")
		}
		cs.Op(map[string]interface{}{"compact": cpt})
		ob := c16NewObs(0)
		if f := c16CheckDecode(cpt, ob); f != nil {
			cs.Failf("%s", f.Error())
		}
		for _, k := range c16SortedKeys(ob.tags) {
			cs.Label(k)
		}
		if c16CompactNontrivial(cpt) {
			cs.NontrivialKey(cpt)
			cs.Label("compact:sign-bit-or-size<=3")
		}
	})
	if t.Failed() {
		return
	}
	c.Check(t, "compact-encode", hx.N(3000, 60000), func(cs *hx.Case) {
		rt := cs.RT()
		nbits := rapid.IntRange(0, 300).Draw(rt, "bits")
		raw := rapid.SliceOfN(rapid.Byte(), 38, 38).Draw(rt, "raw")
		v := new(big.Int).SetBytes(raw)
		v.Rsh(v, uint(304-nbits))
		if rapid.Bool().Draw(rt, "topbit") && nbits > 0 {
			v.SetBit(v, nbits-1, 1)
		}
		cs.Op(map[string]interface{}{"value_hex": v.Text(16)})
		ob := c16NewObs(0)
		if f := c16CheckEncode(v, ob); f != nil {
			cs.Failf("%s", f.Error())
		}
		if want := c16RefEncode(v); c16CompactNontrivial(want) || (v.BitLen() > 0 && v.BitLen()%8 == 0) {
			cs.NontrivialKey(v.Text(16))
			cs.Label("compact:encode-top-bit-or-size<=3")
		}
	})
}

func c16IsProofed(t *testing.T, c *hx.Collector) {
	agg := c16NewAgg()
	logged := 0
	o := c16NewObs(20000)
	type inst struct{ def, max uint32 }
	run := func(in inst, bitsList []uint32) bool {
		leg := c16NewLedger(0)
		pc, err := c16NewPow(in.def, in.max, 10, 15, leg)
		if err != nil {
			t.Fatalf("C16 isproofed setup: %v", err)
		}
		legacy := in.def <= 256
		for _, bits := range bitsList {
			target, valid := c16RefTarget(legacy, bits)
			if !valid {
				target = big.NewInt(0)
			}
			for _, hk := range c16HashKinds {
				k := c16ProofCase{Default: in.def, Max: in.max, Bits: bits, Hash: hex.EncodeToString(c16HashFor(hk, 0, target))}
				if hk == "at" || hk == "above" || hk == "below" {
					o.nontrivial([]interface{}{"isproofed", in.def, in.max, bits, hk})
				}
				if f := c16CheckProofed(pc, k, o); f != nil {
					c16Report(t, c, "isproofed", f, k, "", &logged)
					return false
				}
			}
		}
		return true
	}
	all := []uint32{}
	for _, e := range c16Exponents() {
		for _, m := range c16Mantissas {
			all = append(all, e<<24|m)
		}
	}
	legacyBits := []uint32{}
	for b := uint32(0); b <= 256; b++ {
		legacyBits = append(legacyBits, b)
	}
	ok := run(inst{0x207fffff, 0}, all) && run(inst{0x207fffff, 0x1d00ffff}, all) && run(inst{0x1e00ffff, 0x03000001}, all) &&
		run(inst{8, 32}, legacyBits) && run(inst{1, 256}, legacyBits)
	c.Sample(map[string]interface{}{"test": "isproofed", "case": c16ProofCase{Default: 0x207fffff, Max: 0x1d00ffff, Bits: 0x1d00ffff,
		Hash: hex.EncodeToString(c16HashFor("above", 0, func() *big.Int { v, _ := c16RefTarget(false, 0x1d00ffff); return v }()))}})
	agg.add(c, o)
	agg.flush(c)
	if !ok {
		return
	}
	c.SetExhaustive("isproofed: 3 compact-format instances x swept encodings x ids {0, 1, target-1, target, target+1, 2^256-1}; 2 leading-zero-format instances x bits 0..256 x the same ids")
	leg := c16NewLedger(0)
	pcs := map[string]*pow.PoWConsensus{}
	defOf := map[string]inst{"floor0": {0x207fffff, 0}, "floor1d": {0x207fffff, 0x1d00ffff}, "legacy": {8, 32}}
	for _, name := range []string{"floor0", "floor1d", "legacy"} {
		in := defOf[name]
		pc, err := c16NewPow(in.def, in.max, 10, 15, leg)
		if err != nil {
			t.Fatalf("C16 isproofed setup: %v", err)
		}
		pcs[name] = pc
	}
	c.Check(t, "isproofed", hx.N(3000, 60000), func(cs *hx.Case) {
		rt := cs.RT()
		name := rapid.SampledFrom([]string{"floor0", "floor1d", "legacy"}).Draw(rt, "instance")
		in := defOf[name]
		var bits uint32
		if name == "legacy" {
			bits = rapid.Uint32Range(0, 256).Draw(rt, "bits")
		} else {
			bits = rapid.Uint32Range(0, 36).Draw(rt, "exp")<<24 | rapid.Uint32Range(0, 0xffffff).Draw(rt, "mant")
		}
		target, valid := c16RefTarget(name == "legacy", bits)
		if !valid {
			target = big.NewInt(0)
		}
		hk := rapid.SampledFrom([]string{"zero", "one", "below", "at", "above", "ones", "frac", "frac", "raw"}).Draw(rt, "hash")
		var id []byte
		if hk == "raw" {
			id = rapid.SliceOfN(rapid.Byte(), 0, 33).Draw(rt, "id")
		} else {
			id = c16HashFor(hk, rapid.IntRange(0, 2000).Draw(rt, "frac"), target)
		}
		k := c16ProofCase{Default: in.def, Max: in.max, Bits: bits, Hash: hex.EncodeToString(id)}
		cs.Op(k)
		ob := c16NewObs(0)
		if f := c16CheckProofed(pcs[name], k, ob); f != nil {
			cs.Failf("%s", f.Error())
		}
		for _, l := range c16SortedKeys(ob.evals) {
			cs.Label(l)
		}
		for _, l := range c16SortedKeys(ob.tags) {
			cs.Label(l)
		}
		if hk == "at" || hk == "above" || hk == "below" || (name != "legacy" && c16CompactNontrivial(bits)) {
			cs.Nontrivial()
		}
	})
}

func c16GenPowCase(rt *rapid.T) c16PowCase {
	k := c16PowCase{}
	if rapid.IntRange(0, 3).Draw(rt, "legacy") == 0 {
		k.Default = rapid.SampledFrom([]uint32{1, 4, 8, 16, 20}).Draw(rt, "default")
		k.Max = k.Default + rapid.Uint32Range(0, 12).Draw(rt, "maxdelta")
	} else {
		k.Default = rapid.SampledFrom([]uint32{0x1f00ffff, 0x1e0fffff, 0x207fffff, 0x1d00ffff, 0x2000ffff, 0x1f7fffff, 0x04123456}).Draw(rt, "default")
		k.Max = rapid.SampledFrom([]uint32{0, 0x1d00ffff, 0x1c7fffff, 0x03000001, 0x1e00ffff}).Draw(rt, "max")
	}
	k.Gap = int32(rapid.IntRange(2, 5).Draw(rt, "gap"))
	k.Period = int32(rapid.IntRange(4, 40).Draw(rt, "period"))
	n := rapid.IntRange(1, 3*int(k.Gap)+2).Draw(rt, "steps")
	sec := int64(1000000000)
	for i := 0; i < n; i++ {
		st := c16PowStep{Frac: rapid.IntRange(0, 1000).Draw(rt, "frac")}
		mult := rapid.SampledFrom([]int64{0, 1, 2, 4, 8, 16, 40, 200}).Draw(rt, "speed") // x period/8 seconds
		st.DeltaNs = mult*int64(k.Period)*sec/8 + int64(rapid.IntRange(0, 999999999).Draw(rt, "jitter"))
		nc := rapid.IntRange(0, 5).Draw(rt, "ncand")
		for j := 0; j < nc; j++ {
			cd := c16PowCand{
				Bits:   rapid.SampledFrom([]string{"prescribed", "prescribed", "prescribed", "flip", "parent", "default", "max", "explicit"}).Draw(rt, "bits"),
				Hash:   rapid.SampledFrom([]string{"at", "at", "above", "below", "zero", "ones", "frac"}).Draw(rt, "hash"),
				Ts:     rapid.SampledFrom([]string{"after", "after", "same", "before"}).Draw(rt, "ts"),
				Sig:    rapid.SampledFrom([]string{"valid", "valid", "valid", "s+1", "other-id"}).Draw(rt, "sig"),
				Signer: rapid.IntRange(0, 3).Draw(rt, "signer"),
				BadID:  rapid.IntRange(0, 9).Draw(rt, "badid") == 0,
			}
			if cd.Hash == "frac" {
				cd.Frac = rapid.IntRange(0, 1500).Draw(rt, "cfrac")
			}
			if cd.Bits == "explicit" {
				if k.Default <= 256 {
					cd.Explicit = rapid.Uint32Range(0, 256).Draw(rt, "explicit")
				} else {
					cd.Explicit = rapid.Uint32Range(0, 36).Draw(rt, "exp")<<24 | rapid.Uint32Range(0, 0xffffff).Draw(rt, "mant")
				}
			}
			st.Cands = append(st.Cands, cd)
		}
		k.Steps = append(k.Steps, st)
	}
	if rapid.Bool().Draw(rt, "fork") {
		fk := &c16PowFork{Back: rapid.IntRange(1, 2*int(k.Gap)+1).Draw(rt, "back")}
		m := rapid.IntRange(1, 2*int(k.Gap)+2).Draw(rt, "fsteps")
		for i := 0; i < m; i++ {
			st := c16PowStep{Frac: rapid.IntRange(0, 1000).Draw(rt, "ffrac")}
			mult := rapid.SampledFrom([]int64{0, 1, 2, 4, 8, 16, 40, 200}).Draw(rt, "fspeed")
			st.DeltaNs = mult*int64(k.Period)*sec/8 + int64(rapid.IntRange(0, 999999999).Draw(rt, "fjitter"))
			fk.Steps = append(fk.Steps, st)
		}
		k.Fork = fk
	}
	return k
}

func c16PowChain(t *testing.T, c *hx.Collector) {
	c.Check(t, "pow-chain", hx.N(250, 16000), func(cs *hx.Case) {
		k := c16GenPowCase(cs.RT())
		cs.Op(k)
		o := c16NewObs(0)
		if f := c16RunPowChain(k, o); f != nil {
			cs.Failf("%s", f.Error())
		}
		for _, l := range c16SortedKeys(o.tags) {
			cs.Label(l)
		}
		if o.evals["pow-accept:accepted"] > 0 {
			cs.Label("pow-chain:some-block-accepted")
		}
		if o.evals["pow-accept:rejected"] > 0 {
			cs.Label("pow-chain:some-candidate-rejected")
		}
		// non-trivial: the chain reached a retarget height and a boundary candidate was judged
		edge := false
		for _, st := range k.Steps {
			for _, cd := range st.Cands {
				if cd.Hash == "at" || cd.Hash == "above" || cd.Ts == "same" || cd.Ts == "before" {
					edge = true
				}
			}
		}
		if edge && len(k.Steps) >= 2*int(k.Gap) && o.tags["pow-chain:halted-no-acceptable-block"] == 0 {
			cs.Nontrivial()
		}
	})
}

func TestC16(t *testing.T) {
	c := hx.NewCollector("C16", "exploration",
		"(a) slot schedules: every configuration of a small parameter box (tdpos: period, block_num, proposer_num, alternate and term interval, schedule origin; xpoa: period, block_num, validator count) is built through the plugin constructor and minerScheduling is evaluated at every millisecond (several sub-millisecond phases) from the origin until the 4th term begins; the sequence of entitled (term,pos,slot) must be lexicographically non-decreasing, every slot one contiguous interval, and in every complete term every validator position must own exactly block_num slots. (b) acceptance: CheckMinerMatch (BFT off) for every validator, a stranger and the empty proposer on both sides of every slot boundary: accepted => proposer is the one the schedule names at the block's own timestamp; single: proposer x key x signer x signature kind x header id: accepted => configured miner and signature verifies (crypto/ecdsa); PoW: SetCompact/GetCompact against an independent base-256 reference, IsProofed => id <= target, and rapid-generated stub chains grown through the miner path with candidate blocks (bits, hash relative to target, timestamp relative to parent, signature): accepted => hash <= target of its bits, timestamp >= parent's, one bits value per parent equal to what the miner path prescribes, verdict identical on a restarted instance, and - for blocks of a generated side branch - identical on a node whose trunk is that branch (the target depends on the candidate's own ancestors only). Non-trivial = timestamp within 1 ms of a slot/term boundary; compact encoding with sign bit or size <= 3; id within 1 of the target; candidate timestamp at/before the parent's on a chain that reached a retarget; single case with at most one wrong ingredient. Distinct = hash of (configuration, boundary instant) / encoding / case input",
		"validator sets are the configured initial ones (block height < start height + 3, so no vote / contract state is consulted), except in the validator-change sub-check: stub chains on which an election (tdpos, distinct or all-equal ballots) or an edit (xpoa) is recorded; with equal ballots only 'no two producers accepted for one instant by two nodes asked twice' is asserted, not who wins the tie",
		"validator-reorder sub-check (c16_reorder_test.go): histories of changes of the ORDERED validator list - pure permutations of the list in force (every ordering for n=2,3, every rotation and swap of two members for n=4, enumerated; rapid: rotations, swaps, shuffles mixed with added / removed / replaced members, xpoa: 1-3 edits 1-5 blocks apart, so also an edit recorded before the previous one is in force; tdpos: an election won by the initial members in another rank order) - with one node per member and a stranger living through the history (xpoa: also nodes restarted at every height); every node is asked CompeteMaster at every tip height and, once the last change is in force, until every position of the list was observed: a call whose real-time bracket lies inside one slot must answer 'producer' iff the node is the member at that slot's position of the list in force for the next block (the wall clock only picks which slot is observed; calls that straddle two slots are counted, not judged), and CheckMinerMatch must accept a candidate for the next block stamped at that time iff it comes from that member. Non-trivial there = a node confirmed as producer in a position it received through a pure permutation",
		"tdpos producer path: CompeteMaster (a real-time call: the wall clock picks the term that is scanned, no assertion depends on it) until the node is told it is the producer, then ProcessBeforeMiner at every half millisecond of two terms around that moment: allowed => the schedule names this node at that timestamp",
		"chained-BFT is off (no bft_config): quorum-certificate checks belong to C14",
		"the retarget rule itself is not prescribed by the statement: the check demands that the accepted bits are a function of the parent chain (unique, equal on miner and validator path, independent of instance state), not a particular formula",
		"PoW leading-zero format: candidate bits above 256 are not generated (IsProofed would shift by 2^32-bits)",
		"timestamps are non-negative and not before 1970")
	defer c.Flush(t)
	c16FS = hx.LoadFindings()
	regressFixed(t, c, c16FS, "C16")
	for _, sub := range []struct {
		name string
		run  func(*testing.T, *hx.Collector)
	}{{"schedules", c16Schedules}, {"single", c16Single}, {"compact", c16Compact}, {"isproofed", c16IsProofed}, {"pow-chain", c16PowChain}, {"validator-change", c16Changes}, {"validator-reorder", c16Reorders}, {"miner-path", c16MinerPath}, {"upgrade-proposals", c16Upgrades}} {
		start := time.Now() // reported only
		sub.run(t, c)
		t.Logf("C16 %s: %.1fs", sub.name, time.Since(start).Seconds())
		if t.Failed() {
			break // rapid refuses to run on a test that has already failed; one violation is enough
		}
	}
}

// replayers: a replay file holds the list of case inputs of the failing sub-check.
func init() {
	reg := func(name string, run func(raw json.RawMessage) error) {
		replayers["C16/"+name] = func(raw json.RawMessage, fs *hx.FindingSet) error {
			var items []json.RawMessage
			if err := json.Unmarshal(raw, &items); err != nil {
				return err
			}
			for _, it := range items {
				if err := run(it); err != nil {
					return err
				}
			}
			return nil
		}
	}
	asErr := func(f *c16Fail) error {
		if f == nil {
			return nil
		}
		return f
	}
	replayers["C16/upgrade-proposals"] = func(raw json.RawMessage, fs *hx.FindingSet) error {
		var items []c16UpgradeCase
		if err := json.Unmarshal(raw, &items); err != nil {
			return err
		}
		for _, k := range items {
			if f := c16RunUpgrade(k, c16NewObs(0)); f != nil {
				return f
			}
		}
		return nil
	}
	reg("miner-path", func(raw json.RawMessage) error {
		var k c16MinerCase
		if err := json.Unmarshal(raw, &k); err != nil {
			return err
		}
		return asErr(c16RunMiner(k, c16NewObs(0)))
	})
	reg("tdpos-schedule", func(raw json.RawMessage) error {
		var k c16TdposCase
		if err := json.Unmarshal(raw, &k); err != nil {
			return err
		}
		return asErr(c16RunTdpos(k, c16NewObs(0)))
	})
	reg("xpoa-schedule", func(raw json.RawMessage) error {
		var k c16XpoaCase
		if err := json.Unmarshal(raw, &k); err != nil {
			return err
		}
		return asErr(c16RunXpoa(k, c16NewObs(0)))
	})
	reg("single-accept", func(raw json.RawMessage) error {
		var k c16SingleCase
		if err := json.Unmarshal(raw, &k); err != nil {
			return err
		}
		return asErr(c16RunSingle(k, c16NewObs(0)))
	})
	compact := func(raw json.RawMessage) error {
		var k struct {
			Compact *uint32 `json:"compact"`
			Value   *string `json:"value_hex"`
		}
		if err := json.Unmarshal(raw, &k); err != nil {
			return err
		}
		if k.Compact != nil {
			return asErr(c16CheckDecode(*k.Compact, c16NewObs(0)))
		}
		if k.Value != nil {
			v, ok := new(big.Int).SetString(*k.Value, 16)
			if !ok {
				return fmt.Errorf("bad value_hex")
			}
			return asErr(c16CheckEncode(v, c16NewObs(0)))
		}
		return fmt.Errorf("empty compact case")
	}
	reg("compact-sweep", compact)
	reg("compact-decode", compact)
	reg("compact-encode", compact)
	reg("isproofed", func(raw json.RawMessage) error {
		var k c16ProofCase
		if err := json.Unmarshal(raw, &k); err != nil {
			return err
		}
		pc, err := c16NewPow(k.Default, k.Max, 10, 15, c16NewLedger(0))
		if err != nil {
			return err
		}
		return asErr(c16CheckProofed(pc, k, c16NewObs(0)))
	})
	reg("validator-change", func(raw json.RawMessage) error {
		var k c16ChangeCase
		if err := json.Unmarshal(raw, &k); err != nil {
			return err
		}
		return asErr(c16RunChange(k, c16NewObs(0)))
	})
	reg("pow-chain", func(raw json.RawMessage) error {
		var k c16PowCase
		if err := json.Unmarshal(raw, &k); err != nil {
			return err
		}
		return asErr(c16RunPowChain(k, c16NewObs(0)))
	})
}
