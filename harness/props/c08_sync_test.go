package props

// C08 sub-check "sync-path": block integrity on the REAL block synchronisation path of the node.
//
// Driven code: Miner.ProcBlock (a block pushed by a peer) and Miner.trySyncBlock(ctx, nil) (the miner's own
// catch-up: the target is the block of the peers' GET_BLOCKCHAINSTATUS answers), i.e. syncBlock /
// downloadMissBlock / getBlock / batchConfirmBlock, on a complete in-process node whose p2p network and
// consensus are the scripted stubs hx.SyncNet / hx.SyncConsensus.
//
// Generator: a peer chain of 1..4 genuine blocks on top of the node's genesis (award + 0..2 signed transfers
// that are valid in sequence, proposer Ring[1]), optionally one sibling block; then a short sequence of
// deliveries, each plain data: push / catch-up of some block of the chain, optionally with ONE block on the
// path genesis -> target replaced by a tampered copy that keeps the claimed block id (the target itself, or an
// ancestor served through GET_BLOCK), optionally preceded by a first, genuine delivery that the consensus
// refuses (CheckMinerMatch = false after the block has been verified).
//
// Oracle, after EVERY delivery: every block of the chain the ledger holds (ExistBlock) must read back
// (QueryBlock), pass Ledger.VerifyBlock, carry exactly the transaction id list of the genuine block with that
// id and the genuine hashed header fields, and its signature must verify under the genuine proposer's key -
// a tampered block must never become stored. Genuine deliveries whose missing ancestors are served must make
// the target the ledger tip (when it is higher than the previous tip) and the state's latest block.

import (
	"bytes"
	"encoding/hex"
	"encoding/json"
	"fmt"
	"math/big"
	"os"
	"testing"

	"github.com/golang/protobuf/proto"
	"pgregory.net/rapid"

	ledgerpkg "github.com/xuperchain/xupercore/bcs/ledger/xledger/ledger"
	pb "github.com/xuperchain/xupercore/bcs/ledger/xledger/xldgpb"
	"github.com/xuperchain/xupercore/kernel/engines/xuperos/xpb"

	"verifharness/hx"
)

// ---------------------------------------------------------------------------------------------
// descriptors (plain data: the recorded trace is [chain, op, op, ...])

// c08SyncChain describes the peer chain: len(Txs) genuine blocks at heights 1..len(Txs) on top of the node's
// genesis (block index i has height i+1), Txs[i] signed transfers besides the award in block i.
type c08SyncChain struct {
	Txs []int `json:"txs"`
	// Fork > 0: one more block, index len(Txs): a sibling of the main-chain block of this height (same parent,
	// award only, proposer Ring[2]).
	Fork int `json:"fork,omitempty"`
}

type c08SyncTamper struct {
	At   int    `json:"at"`   // index of the replaced block: the target or one of its ancestors
	Kind string `json:"kind"` // see c08SyncKinds
}

type c08SyncOp struct {
	Op     string         `json:"op"`     // push | catchup
	Target int            `json:"target"` // block index
	Tamper *c08SyncTamper `json:"tamper,omitempty"`
	// RefuseFirst: the target is first delivered genuinely (all ancestors genuine) while the consensus refuses
	// exactly one CheckMinerMatch of its id; the delivery described by Tamper follows as a second one.
	RefuseFirst bool `json:"refuseFirst,omitempty"`
}

// every kind keeps the claimed block id of the genuine block
var c08SyncKinds = []string{
	"drop-tx",          // last transaction removed from the body only
	"drop-tx-reformat", // last transaction removed, TxCount / MerkleTree / MerkleRoot recomputed, id and signature stale
	"add-tx",           // one more transaction appended to the body only
	"swap-tx",          // the last two transactions swapped (body only)
	"alter-timestamp",  // Timestamp+1 (hashed header field), id and signature stale
	"sig-other-key",    // signature of another ring key over the same id
	"pubkey-other",     // Pubkey of another ring key and that key's signature over the same id
}

const (
	c08SyncProposer     = 1 // main chain
	c08SyncForkProposer = 2
	c08SyncOtherKey     = 3 // the foreign signer of the tamper kinds
)

// C08-sync-pending-tampered-ancestor: downloadMissBlock prefers the copy of a missing ancestor that an EARLIER
// failed synchronisation left in the pending table over asking the network again, so a tampered ancestor
// (never stored: batchConfirmBlock refuses it every time) keeps the genuine chain out until that very block
// is pushed as a target. A liveness matter outside the C08 statement: such steps are exempted from the
// "genuine chain is accepted" expectation (never from the integrity oracle) unless C08_NO_EXCLUDE=1.
const c08FSyncPending = "C08-sync-pending-tampered-ancestor"

// ---------------------------------------------------------------------------------------------
// the world of one case

type c08SyncWorld struct {
	n      *hx.Node
	desc   c08SyncChain
	blocks []*pb.InternalBlock // genuine blocks; only clones are ever handed to the node
	parent []int               // parent index, -1 = genesis
	txids  [][]string          // genuine transaction id lists (hex)
	strict bool                // no exemption for c08FSyncPending
}

func c08SyncCheckDesc(d c08SyncChain) error {
	if len(d.Txs) < 1 || len(d.Txs) > 4 {
		return fmt.Errorf("chain descriptor: %d blocks (1..4)", len(d.Txs))
	}
	for _, k := range d.Txs {
		if k < 0 || k > 2 {
			return fmt.Errorf("chain descriptor: %d transfers in a block (0..2)", k)
		}
	}
	if d.Fork < 0 || d.Fork > len(d.Txs) {
		return fmt.Errorf("chain descriptor: fork height %d out of range", d.Fork)
	}
	return nil
}

// c08SyncBuild makes a fresh node and the genuine peer chain on top of its genesis.
func c08SyncBuild(d c08SyncChain) (*c08SyncWorld, error) {
	if err := c08SyncCheckDesc(d); err != nil {
		return nil, err
	}
	opts := hx.DefaultOpts()
	opts.NoLog = true
	n, err := hx.NewNode(opts)
	if err != nil {
		return nil, fmt.Errorf("setup node: %v", err)
	}
	w := &c08SyncWorld{n: n, desc: d, strict: os.Getenv("C08_NO_EXCLUDE") == "1"}
	ok := false
	defer func() {
		if !ok {
			n.Destroy()
		}
	}()
	if n.Root == nil || len(n.Root.Transactions) != 1 {
		return nil, fmt.Errorf("setup node: unexpected root block")
	}
	rootTx := n.Root.Transactions[0]
	genesisOut := func(k int) (hx.InRef, error) {
		for off, o := range rootTx.TxOutputs {
			if string(o.ToAddr) == hx.Ring[k].Address {
				return hx.InRef{Addr: k, Txid: hex.EncodeToString(rootTx.Txid), Off: int32(off),
					Amount: new(big.Int).SetBytes(o.Amount).String()}, nil
			}
		}
		return hx.InRef{}, fmt.Errorf("setup: genesis has no output for ring[%d]", k)
	}
	add := func(key, parent int, height, ts int64, txs []*pb.Transaction) error {
		pre := n.Root.Blockid
		if parent >= 0 {
			pre = w.blocks[parent].Blockid
		}
		b, err := hx.MakeBlock(n.Ledger, hx.Ring[key], append([]byte{}, pre...), height, ts, txs)
		if err != nil {
			return err
		}
		b.Sign = hx.DetSign(hx.Ring[key].Priv, b.Blockid) // the ledger's signer is randomised
		w.blocks = append(w.blocks, b)
		w.parent = append(w.parent, parent)
		ids := make([]string, len(b.Transactions))
		for i, t := range b.Transactions {
			ids[i] = hex.EncodeToString(t.Txid)
		}
		w.txids = append(w.txids, ids)
		return nil
	}
	for i, nt := range d.Txs {
		k := i + 1 // height; ring[k] (k = 1..4) is funded at genesis
		ts := int64(1000 + k)
		txs := []*pb.Transaction{hx.AwardTx(hx.Ring[c08SyncProposer].Address, n.Ledger.GenesisBlock.CalcAward(int64(k)),
			fmt.Sprintf("c08sync-award-%d", k), ts)}
		if nt >= 1 {
			// A: ring[k] spends its genesis output to ring[(k+1)%5]
			in, err := genesisOut(k)
			if err != nil {
				return nil, err
			}
			a := hx.BuildTx(&hx.TxSpec{From: k, Seq: 100 + k, Ins: []hx.InRef{in},
				Outs: []hx.OutSpec{{To: (k + 1) % 5, Amount: in.Amount}}}, nil)
			txs = append(txs, a)
			if nt >= 2 {
				// B: the receiver passes the output of A on to ring[(k+2)%5]
				r := (k + 1) % 5
				b := hx.BuildTx(&hx.TxSpec{From: r, Seq: 200 + k,
					Ins:  []hx.InRef{{Addr: r, Txid: hex.EncodeToString(a.Txid), Off: 0, Amount: in.Amount}},
					Outs: []hx.OutSpec{{To: (k + 2) % 5, Amount: in.Amount}}}, nil)
				txs = append(txs, b)
			}
		}
		if err := add(c08SyncProposer, i-1, int64(k), ts, txs); err != nil {
			return nil, err
		}
	}
	if d.Fork > 0 {
		h := int64(d.Fork)
		ts := 2000 + h
		txs := []*pb.Transaction{hx.AwardTx(hx.Ring[c08SyncForkProposer].Address, n.Ledger.GenesisBlock.CalcAward(h),
			fmt.Sprintf("c08sync-fork-award-%d", h), ts)}
		if err := add(c08SyncForkProposer, d.Fork-2, h, ts, txs); err != nil {
			return nil, err
		}
	}
	ok = true
	return w, nil
}

func (w *c08SyncWorld) destroy() { w.n.Destroy() }

// path lists the block indices from the oldest ancestor above genesis down to the target itself.
func (w *c08SyncWorld) path(target int) []int {
	var rev []int
	for i := target; i >= 0; i = w.parent[i] {
		rev = append(rev, i)
	}
	out := make([]int, len(rev))
	for i, x := range rev {
		out[len(rev)-1-i] = x
	}
	return out
}

func (w *c08SyncWorld) signerOf(i int) *hx.Key {
	if w.desc.Fork > 0 && i == len(w.desc.Txs) {
		return hx.Ring[c08SyncForkProposer]
	}
	return hx.Ring[c08SyncProposer]
}

// c08SyncKindsFor: the tamper kinds applicable to a block with ntx transactions (award included).
func c08SyncKindsFor(ntx int) []string {
	var out []string
	for _, k := range c08SyncKinds {
		if (k == "drop-tx-reformat" && ntx < 2) || (k == "swap-tx" && ntx < 3) {
			continue
		}
		out = append(out, k)
	}
	return out
}

// c08SyncTamperBlock returns the tampered copy of a genuine block (the claimed id is kept).
func c08SyncTamperBlock(g *pb.InternalBlock, kind string) (*pb.InternalBlock, error) {
	m := hx.CloneBlock(g)
	nt := len(m.Transactions)
	other := hx.Ring[c08SyncOtherKey]
	applicable := false
	for _, k := range c08SyncKindsFor(nt) {
		applicable = applicable || k == kind
	}
	if !applicable {
		return nil, fmt.Errorf("bad trace: tamper kind %q does not apply to a block with %d transactions", kind, nt)
	}
	switch kind {
	case "drop-tx":
		m.Transactions = m.Transactions[:nt-1]
	case "drop-tx-reformat":
		m.Transactions = m.Transactions[:nt-1]
		m.TxCount = int32(len(m.Transactions))
		m.MerkleTree = ledgerpkg.MakeMerkleTree(m.Transactions)
		m.MerkleRoot = m.MerkleTree[len(m.MerkleTree)-1]
	case "add-tx":
		m.Transactions = append(m.Transactions, hx.DummyTx("c08sync-added"))
	case "swap-tx":
		m.Transactions[nt-2], m.Transactions[nt-1] = m.Transactions[nt-1], m.Transactions[nt-2]
	case "alter-timestamp":
		m.Timestamp++
	case "sig-other-key":
		m.Sign = hx.DetSign(other.Priv, m.Blockid)
	case "pubkey-other":
		m.Pubkey = []byte(other.PubJSON)
		m.Sign = hx.DetSign(other.Priv, m.Blockid)
	}
	if proto.Equal(m, g) || !bytes.Equal(m.Blockid, g.Blockid) {
		return nil, fmt.Errorf("harness: tamper kind %q did not produce a different block under the same id", kind)
	}
	return m, nil
}

// oracle: every chain block the ledger holds reads back as the genuine block and verifies.
func (w *c08SyncWorld) oracle(when string) error {
	leg := w.n.Ledger
	for i, g := range w.blocks {
		if !leg.ExistBlock(g.Blockid) {
			continue
		}
		what := fmt.Sprintf("%s: stored block #%d (height %d, id %s)", when, i, g.Height, hx.Hex8(g.Blockid))
		rb, err := leg.QueryBlock(g.Blockid)
		if err != nil || rb == nil {
			return fmt.Errorf("%s cannot be read back with its transactions: %v", what, err)
		}
		ok, verr := func() (ok bool, err error) {
			defer func() {
				if r := recover(); r != nil {
					ok, err = false, fmt.Errorf("VerifyBlock panicked: %v", r)
				}
			}()
			ok, _ = leg.VerifyBlock(rb, "")
			return ok, nil
		}()
		if verr != nil {
			return fmt.Errorf("%s: %v", what, verr)
		}
		if !ok {
			return fmt.Errorf("%s does not pass VerifyBlock when read back (refusing layer: %s; TxCount=%d, %d transactions read back, genuine block has %d): a tampered block has become part of the ledger",
				what, c08Layer(rb), rb.TxCount, len(rb.Transactions), len(g.Transactions))
		}
		got := make([]string, len(rb.Transactions))
		for j, t := range rb.Transactions {
			got[j] = hex.EncodeToString(t.Txid)
		}
		if fmt.Sprint(got) != fmt.Sprint(w.txids[i]) {
			return fmt.Errorf("%s reads back with the transaction ids %v, the genuine block with this id has %v", what, got, w.txids[i])
		}
		// independent of Ledger.VerifyBlock: hashed header fields and the signer are the genuine ones
		if rb.Timestamp != g.Timestamp || rb.TxCount != g.TxCount || !bytes.Equal(rb.MerkleRoot, g.MerkleRoot) ||
			!bytes.Equal(rb.Pubkey, g.Pubkey) || !bytes.Equal(rb.Proposer, g.Proposer) || !bytes.Equal(rb.PreHash, g.PreHash) {
			return fmt.Errorf("%s reads back with other hashed header fields than the genuine block with this id (timestamp %d/%d, txcount %d/%d, merkle root equal=%v, pubkey equal=%v, proposer equal=%v)",
				what, rb.Timestamp, g.Timestamp, rb.TxCount, g.TxCount, bytes.Equal(rb.MerkleRoot, g.MerkleRoot),
				bytes.Equal(rb.Pubkey, g.Pubkey), bytes.Equal(rb.Proposer, g.Proposer))
		}
		if sok, _ := hx.Crypt.VerifyECDSA(&w.signerOf(i).Priv.PublicKey, rb.Sign, g.Blockid); !sok {
			return fmt.Errorf("%s reads back with a signature that does not verify under the key of its proposer", what)
		}
	}
	return nil
}

// serveGenuine: the peers serve the genuine copy of every chain block.
func (w *c08SyncWorld) serveGenuine() {
	w.n.Net.Blocks = map[string]*pb.InternalBlock{}
	for _, b := range w.blocks {
		w.n.Net.Blocks[string(b.Blockid)] = hx.CloneBlock(b)
	}
}

// deliver hands the (possibly tampered) copy of the target to the node on the chosen path.
func (w *c08SyncWorld) deliver(op string, lowest, target *pb.InternalBlock) error {
	n := w.n
	var err error
	switch op {
	case "push":
		err = n.Miner.ProcBlock(n.Ctx, hx.CloneBlock(target))
	case "catchup":
		n.Net.Status = nil
		if !bytes.Equal(lowest.Blockid, target.Blockid) {
			// a second peer that is further behind, listed first: the miner must pick the highest status
			n.Net.Status = append(n.Net.Status, &xpb.ChainStatus{
				LedgerMeta: &pb.LedgerMeta{RootBlockid: n.Root.Blockid, TipBlockid: lowest.Blockid, TrunkHeight: lowest.Height},
				Block:      hx.CloneBlock(lowest)})
		}
		n.Net.Status = append(n.Net.Status, &xpb.ChainStatus{
			LedgerMeta: &pb.LedgerMeta{RootBlockid: n.Root.Blockid, TipBlockid: target.Blockid, TrunkHeight: target.Height},
			Block:      hx.CloneBlock(target)})
		err = n.Miner.VerifTrySyncBlock(n.Ctx, nil)
		n.Net.Status = nil
	default:
		return fmt.Errorf("bad trace: op %q", op)
	}
	hx.WaitAsync()
	return err
}

// pendingTampered: a strict ancestor on the path that the ledger does not hold and of which the pending table
// holds a copy that is not the genuine block (left by an earlier, refused synchronisation); -1 = none.
func (w *c08SyncWorld) pendingTampered(path []int) int {
	for _, i := range path[:len(path)-1] {
		g := w.blocks[i]
		if w.n.Ledger.ExistBlock(g.Blockid) {
			continue
		}
		if p, err := w.n.Ledger.GetPendingBlock(g.Blockid); err == nil && p != nil && !proto.Equal(p, g) {
			return i
		}
	}
	return -1
}

type c08SyncRes struct {
	labels     []string
	nontrivial bool   // a tampered block was offered on the catch-up path or as a second delivery after a refusal
	accepted   bool   // a genuine chain was accepted (tip and state moved to the target)
	excluded   string // finding id: the acceptance expectation of this step was exempted
}

// exec runs one operation and the oracle; err != nil = violation (or a malformed trace).
func (w *c08SyncWorld) exec(op c08SyncOp) (res c08SyncRes, err error) {
	defer func() {
		if r := recover(); r != nil {
			err = fmt.Errorf("panic while executing %+v: %v", op, r)
		}
	}()
	n := w.n
	if op.Op != "push" && op.Op != "catchup" {
		return res, fmt.Errorf("bad trace: op %q", op.Op)
	}
	if op.Target < 0 || op.Target >= len(w.blocks) {
		return res, fmt.Errorf("bad trace: target %d of %d blocks", op.Target, len(w.blocks))
	}
	label := func(l string) { res.labels = append(res.labels, l) }
	g := w.blocks[op.Target]
	path := w.path(op.Target)
	lowest := w.blocks[path[0]]
	desc := fmt.Sprintf("%s of block #%d (height %d)", op.Op, op.Target, g.Height)
	label("op:" + op.Op)
	if w.desc.Fork > 0 && op.Target == len(w.desc.Txs) {
		label("target:fork-sibling")
	}
	var tampered *pb.InternalBlock
	at, kind := -1, "none"
	if op.Tamper != nil && op.Tamper.Kind != "none" {
		at, kind = op.Tamper.At, op.Tamper.Kind
		onPath := false
		for _, i := range path {
			onPath = onPath || i == at
		}
		if !onPath {
			return res, fmt.Errorf("bad trace: tampered block #%d is not on the path to target #%d", at, op.Target)
		}
		if tampered, err = c08SyncTamperBlock(w.blocks[at], kind); err != nil {
			return res, err
		}
	}

	// first, genuine delivery that the consensus refuses after the block has been verified
	w.serveGenuine()
	refused := false
	if op.RefuseFirst {
		id := string(g.Blockid)
		n.Cons.Refuse[id] = 1
		w.deliver(op.Op, lowest, g)
		refused = n.Cons.Refuse[id] == 0
		delete(n.Cons.Refuse, id)
		if err := w.oracle("after the refused first (genuine) " + desc); err != nil {
			return res, err
		}
		if refused {
			label("second-delivery-after-refusal")
		} else {
			label("refusal-not-reached")
		}
	}

	// the delivery proper
	target := g
	label("tamper:" + kind)
	atStored := false
	if tampered != nil {
		atStored = n.Ledger.ExistBlock(tampered.Blockid)
		n.Net.Blocks[string(tampered.Blockid)] = tampered
		if at == op.Target {
			target = tampered
			label("tampered-target")
		} else {
			label("tampered-ancestor")
		}
		if refused && at == op.Target {
			label("second-delivery-tampered:" + kind)
		}
	}
	prevTipHeight := n.Ledger.GetMeta().TrunkHeight
	poisoned := w.pendingTampered(path)
	servedFrom := len(n.Net.Served)
	derr := w.deliver(op.Op, lowest, target)
	when := "after the " + desc
	if tampered != nil {
		when += fmt.Sprintf(" with block #%d replaced by a %q copy under the same id", at, kind)
	}
	if refused {
		when += " (second delivery, the first one was refused by the consensus)"
	}
	if err := w.oracle(when); err != nil {
		return res, err
	}

	if tampered != nil {
		offered := at == op.Target && !atStored
		for _, id := range n.Net.Served[servedFrom:] {
			offered = offered || id == string(tampered.Blockid)
		}
		if offered {
			label("tampered-block-offered")
			if op.Op == "catchup" {
				label("tampered-offered-on-catchup")
				res.nontrivial = true
			}
			if refused && at == op.Target {
				res.nontrivial = true
			}
		}
		return res, nil
	}

	// genuine delivery, every ancestor served: the chain must be taken
	if g.Height <= prevTipHeight {
		label("genuine-not-higher-than-tip")
		return res, nil
	}
	tip := n.Ledger.GetMeta().TipBlockid
	if poisoned >= 0 && !w.strict {
		if bytes.Equal(tip, g.Blockid) {
			label("genuine-chain-accepted-despite-pending-copy")
		} else {
			label("genuine-chain-blocked-by-pending-tampered-ancestor")
		}
		res.excluded = c08FSyncPending
		return res, nil
	}
	if !bytes.Equal(tip, g.Blockid) {
		extra := ""
		if poisoned >= 0 {
			extra = fmt.Sprintf("; the pending table still holds the tampered copy of ancestor #%d that an earlier operation delivered (%s)", poisoned, c08FSyncPending)
		}
		return res, fmt.Errorf("genuine chain not accepted: after the %s with every ancestor served genuinely the ledger tip is %s at height %d, not the target %s (delivery returned: %v)%s",
			desc, hx.Hex8(tip), n.Ledger.GetMeta().TrunkHeight, hx.Hex8(g.Blockid), derr, extra)
	}
	if st := n.State.GetLatestBlockid(); !bytes.Equal(st, tip) {
		return res, fmt.Errorf("after the genuine %s the ledger tip is the target %s but the state's latest block is %s (delivery returned: %v)",
			desc, hx.Hex8(tip), hx.Hex8(st), derr)
	}
	res.accepted = true
	label("genuine-chain-accepted")
	if len(path) > 1 {
		label("genuine-chain-accepted:with-ancestors")
	}
	return res, nil
}

// ---------------------------------------------------------------------------------------------
// replay: [chain, op, op, ...] through the plain interpreter

func evalC08Sync(chain c08SyncChain, ops []c08SyncOp) error {
	w, err := c08SyncBuild(chain)
	if err != nil {
		return err
	}
	defer w.destroy()
	for _, op := range ops {
		if _, err := w.exec(op); err != nil {
			return err
		}
	}
	return nil
}

func init() {
	replayers["C08/sync-path"] = func(raw json.RawMessage, fs *hx.FindingSet) error {
		var items []json.RawMessage
		if err := json.Unmarshal(raw, &items); err != nil {
			return err
		}
		if len(items) == 0 {
			return fmt.Errorf("empty C08 sync-path trace")
		}
		var chain c08SyncChain
		if err := json.Unmarshal(items[0], &chain); err != nil {
			return err
		}
		var ops []c08SyncOp
		for _, it := range items[1:] {
			var op c08SyncOp
			if err := json.Unmarshal(it, &op); err != nil {
				return err
			}
			ops = append(ops, op)
		}
		return evalC08Sync(chain, ops)
	}
}

// ---------------------------------------------------------------------------------------------
// generator

func c08SyncGenChain(rt *rapid.T) c08SyncChain {
	d := c08SyncChain{}
	nb := rapid.IntRange(1, 4).Draw(rt, "blocks")
	for i := 0; i < nb; i++ {
		d.Txs = append(d.Txs, rapid.SampledFrom([]int{0, 1, 2, 2}).Draw(rt, "transfers"))
	}
	if rapid.IntRange(0, 2).Draw(rt, "fork?") == 2 {
		d.Fork = rapid.IntRange(1, nb).Draw(rt, "fork-height")
	}
	return d
}

func c08SyncGenOp(rt *rapid.T, w *c08SyncWorld) c08SyncOp {
	op := c08SyncOp{Op: rapid.SampledFrom([]string{"push", "catchup"}).Draw(rt, "op")}
	main := len(w.desc.Txs)
	if rapid.IntRange(0, 9).Draw(rt, "tip?") < 6 {
		op.Target = main - 1
	} else {
		op.Target = rapid.IntRange(0, len(w.blocks)-1).Draw(rt, "target")
	}
	op.RefuseFirst = rapid.IntRange(0, 9).Draw(rt, "refuse?") >= 6 // minimal draw = the simpler operation
	if rapid.IntRange(0, 9).Draw(rt, "tamper?") >= 3 {
		path := w.path(op.Target)
		at := op.Target
		if rapid.Bool().Draw(rt, "ancestor?") {
			at = rapid.SampledFrom(path).Draw(rt, "at")
		}
		kind := rapid.SampledFrom(c08SyncKindsFor(len(w.blocks[at].Transactions))).Draw(rt, "kind")
		op.Tamper = &c08SyncTamper{At: at, Kind: kind}
	}
	return op
}

// c08SyncPath is the sub-check of TestC08.
func c08SyncPath(t *testing.T, c *hx.Collector) {
	if t.Failed() {
		t.Logf("sync-path search skipped: the test has already failed")
		return
	}
	accepted := 0
	c.Check(t, "sync-path", hx.N(150, 1500), func(cs *hx.Case) {
		rt := cs.RT()
		chain := c08SyncGenChain(rt)
		cs.Op(chain)
		w, err := c08SyncBuild(chain)
		if err != nil {
			rt.Fatalf("build: %v", err)
		}
		defer w.destroy()
		cs.Label("sync-path")
		if chain.Fork > 0 {
			cs.Label("chain:with-fork-sibling")
		}
		nops := rapid.IntRange(1, 4).Draw(rt, "nops")
		for i := 0; i < nops; i++ {
			op := c08SyncGenOp(rt, w)
			cs.Op(op)
			res, err := w.exec(op)
			for _, l := range res.labels {
				cs.Label(l)
			}
			if err != nil {
				cs.Failf("%v", err)
			}
			if res.excluded != "" {
				cs.Label("acceptance-not-asserted:" + res.excluded)
			}
			if res.nontrivial {
				cs.Nontrivial()
			}
			if res.accepted {
				accepted++
			}
		}
	})
	if !t.Failed() && accepted == 0 {
		t.Errorf("vacuous: the sync-path check accepted no genuine chain at all (the integrity oracle would hold on a node that refuses everything)")
	}
	c.Extra("sync_path_genuine_chains_accepted", accepted)
}
