package props

// C20: P2P messages decode to what was sent, corruption is detected, dispatch is exact.
//
// TestC20      (normal build) message round trips + corruption sweeps + sequential dispatcher model.
// TestRaceC20  (-race build)  several goroutines Register / UnRegister / Dispatch on one dispatcher.

import (
	"bytes"
	"crypto/sha256"
	"encoding/binary"
	"encoding/hex"
	"encoding/json"
	"fmt"
	"runtime"
	"sort"
	"strconv"
	"strings"
	"sync"
	"sync/atomic"
	"testing"
	"time"

	"github.com/golang/protobuf/proto"
	"pgregory.net/rapid"

	lpb "github.com/xuperchain/xupercore/bcs/ledger/xledger/xldgpb"
	xctx "github.com/xuperchain/xupercore/kernel/common/xcontext"
	"github.com/xuperchain/xupercore/kernel/engines/xuperos/xpb"
	nconf "github.com/xuperchain/xupercore/kernel/network/config"
	nctx "github.com/xuperchain/xupercore/kernel/network/context"
	"github.com/xuperchain/xupercore/kernel/network/p2p"
	"github.com/xuperchain/xupercore/lib/logs"
	"github.com/xuperchain/xupercore/lib/timer"
	pb "github.com/xuperchain/xupercore/protos"

	"verifharness/hx"
)

// ---------------------------------------------------------------------------------------------
// shared set-up
// ---------------------------------------------------------------------------------------------

var (
	c20CtxOnce sync.Once
	c20NetCtx  *nctx.NetCtx
	c20DispSeq int64
	c20HeadMu  sync.Mutex
	c20HeadLog = map[string]bool{}
)

// c20Ctx builds the network context the way nctx.NewNetCtx does, without a network.yaml on disk.
func c20Ctx() *nctx.NetCtx {
	c20CtxOnce.Do(func() {
		env := hx.BaseConf() // also initialises logging (level error, no console)
		log, err := logs.NewLogger("", "verif-c20")
		if err != nil {
			panic(err)
		}
		nc := &nctx.NetCtx{EnvCfg: env, P2PConf: nconf.GetDefP2PConf()}
		nc.XLog = log
		nc.Timer = timer.NewXTimer()
		c20NetCtx = nc
	})
	return c20NetCtx
}

// c20NewDispatcher creates a dispatcher; every dispatcher owns a janitor goroutine that is only
// stopped by a finalizer, so a collection is forced now and then (the race runtime caps goroutines).
func c20NewDispatcher() p2p.Dispatcher {
	if atomic.AddInt64(&c20DispSeq, 1)%128 == 0 {
		runtime.GC()
	}
	return p2p.NewDispatcher(c20Ctx())
}

// c20HeadFailure reports a sub-check that the unchanged tree fails (logged once per id).
func c20HeadFailure(t *testing.T, c *hx.Collector, id, detail string) {
	c.Label("head-failure:" + id)
	c20HeadMu.Lock()
	first := !c20HeadLog[id]
	c20HeadLog[id] = true
	c20HeadMu.Unlock()
	if first {
		t.Logf("HEAD-FAILURE: %s: %s", id, detail)
	}
}

func c20AllTypes() []int32 {
	out := []int32{}
	for v := range pb.XuperMessage_MessageType_name {
		out = append(out, v)
	}
	sort.Slice(out, func(i, j int) bool { return out[i] < out[j] })
	return out
}

func c20AllErrTypes() []int32 {
	out := []int32{}
	for v := range pb.XuperMessage_ErrorType_name {
		out = append(out, v)
	}
	sort.Slice(out, func(i, j int) bool { return out[i] < out[j] })
	return out
}

// ---------------------------------------------------------------------------------------------
// part 1: message round trip and corruption detection
// ---------------------------------------------------------------------------------------------

type c20Opt struct {
	K string `json:"k"` // bc | logid | version | errtype
	V string `json:"v"`
}

type c20Burst struct {
	Pos  uint32 `json:"pos"`  // start, as a 32-bit fraction of the admissible bit positions
	Span int    `json:"span"` // 2..32 bits between first and last flipped bit (inclusive)
	Mid  uint32 `json:"mid"`  // interior bits of the pattern
}

// c20MsgSpec fully describes one round-trip case (replayable without rapid).
type c20MsgSpec struct {
	Type    int32      `json:"type"`
	Shape   string     `json:"shape"` // nil | tx | block | blockid | tip | peer | xmsg
	Body    string     `json:"body"`  // zero | pattern | random
	N       int        `json:"n"`
	Seed    string     `json:"seed,omitempty"` // hex; random body = seed (n <= len) or SHA-256 counter expansion of it
	Flag    bool       `json:"flag,omitempty"`
	Opts    []c20Opt   `json:"opts,omitempty"`
	Flips   []uint32   `json:"flips,omitempty"`  // single-bit positions as 32-bit fractions of the bit length
	Bursts  []c20Burst `json:"bursts,omitempty"` // explicit bursts
	AllBits bool       `json:"all_bits,omitempty"`
	Stride  bool       `json:"stride,omitempty"` // ~4099 strided single-bit flips (all bit alignments)
	Sweep   string     `json:"sweep,omitempty"`  // burst sweep over spans 2..32: "all" positions or "sampled"
}

// c20EmptyPayloadSoft: on the unchanged tree a payload whose protobuf encoding is empty does not
// decode at the receiver (message.go Decompress rejects the nil MsgInfo the wire hop produces). While
// true, that sub-check reports "HEAD-FAILURE" + label head-failure:empty-payload-wire instead of
// failing; set it to false once the tree is repaired to make it a hard assertion.
const c20EmptyPayloadSoft = false

type c20RTOut struct {
	Viol       string
	Head       []string
	RawLen     int
	EncLen     int
	Compressed bool
	Singles    int
	Bursts     int
}

func c20Expand(seed []byte, n int) []byte {
	out := make([]byte, 0, n+sha256.Size)
	var ctr [8]byte
	for i := uint64(0); len(out) < n; i++ {
		binary.BigEndian.PutUint64(ctr[:], i)
		h := sha256.New()
		h.Write(seed)
		h.Write(ctr[:])
		out = h.Sum(out)
	}
	return out[:n]
}

func c20Body(kind string, n int, seed []byte) []byte {
	switch kind {
	case "zero":
		return make([]byte, n)
	case "pattern":
		p := []byte("xuperchain/p2p-")
		out := make([]byte, n)
		for i := range out {
			out[i] = p[i%len(p)]
		}
		return out
	default:
		if n <= len(seed) {
			return append([]byte{}, seed[:n]...)
		}
		return c20Expand(seed, n)
	}
}

func c20Head(b []byte, n int) []byte {
	if len(b) < n {
		n = len(b)
	}
	return b[:n]
}

// c20Payload wraps body in one of the protobuf messages the node really sends over the network.
func c20Payload(shape string, body []byte, flag bool) (proto.Message, func() proto.Message) {
	switch shape {
	case "tx": // POSTTX carries an xldgpb.Transaction
		m := &lpb.Transaction{Desc: body}
		if flag {
			m.Txid = c20Expand([]byte("txid"), 32)
			m.Nonce = "n-1"
			m.Timestamp = 1600000000
			m.Initiator = "dpzuVdosQrF2kmzumhVeFQZa1aYcdgFpN"
			m.Version = 3
			m.Coinbase = true
		}
		return m, func() proto.Message { return &lpb.Transaction{} }
	case "block": // SENDBLOCK carries an xldgpb.InternalBlock
		h := len(body) / 2
		m := &lpb.InternalBlock{
			Blockid: c20Expand([]byte("blockid"), 32), Height: 7, TxCount: 2, InTrunk: flag,
			Transactions: []*lpb.Transaction{{Desc: body[:h]}, {Txid: c20Expand([]byte("t2"), 32), Desc: body[h:]}},
			MerkleTree:   [][]byte{c20Head(body, 32), c20Expand([]byte("m"), 32)},
		}
		return m, func() proto.Message { return &lpb.InternalBlock{} }
	case "blockid": // GET_BLOCK carries an xpb.BlockID
		m := &xpb.BlockID{Blockid: body, NeedContent: flag}
		if flag {
			m.Bcname = "xuper"
		}
		return m, func() proto.Message { return &xpb.BlockID{} }
	case "tip": // CONFIRM_BLOCKCHAINSTATUS_RES carries an xpb.TipStatus (empty encoding when false)
		return &xpb.TipStatus{IsTrunkTip: flag}, func() proto.Message { return &xpb.TipStatus{} }
	case "peer": // GET_PEER_INFO / NEW_NODE carry a PeerInfo (strings: hex text, half compressible)
		m := &pb.PeerInfo{Id: hex.EncodeToString(body)}
		if flag {
			m.Address = "/ip4/127.0.0.1/tcp/47101"
			m.Account = "acc"
			m.Peer = []*pb.PeerInfo{{Id: hex.EncodeToString(c20Head(body, 16))}, {Address: "x"}}
		}
		return m, func() proto.Message { return &pb.PeerInfo{} }
	default: // "xmsg": a nested XuperMessage (what the repository's own tests send)
		m := &pb.XuperMessage{Data: &pb.XuperMessage_MessageData{MsgInfo: body}}
		if flag {
			m.Header = &pb.XuperMessage_MessageHeader{Logid: "inner", Type: pb.XuperMessage_POSTTX}
		}
		return m, func() proto.Message { return &pb.XuperMessage{} }
	}
}

// c20Options turns the option list into MessageOptions (applied in order).
func c20Options(specs []c20Opt) []p2p.MessageOption {
	opts := []p2p.MessageOption{}
	for _, o := range specs {
		switch o.K {
		case "bc":
			opts = append(opts, p2p.WithBCName(o.V))
		case "logid":
			opts = append(opts, p2p.WithLogId(o.V))
		case "version":
			opts = append(opts, p2p.WithVersion(o.V))
		case "errtype":
			n, _ := strconv.Atoi(o.V)
			opts = append(opts, p2p.WithErrorType(pb.XuperMessage_ErrorType(n)))
		}
	}
	return opts
}

// c20HeaderAsRequested checks the header fields the caller asked for.
func c20HeaderAsRequested(h *pb.XuperMessage_MessageHeader, typ int32, specs []c20Opt) string {
	if h == nil {
		return "nil header"
	}
	if int32(h.GetType()) != typ {
		return fmt.Sprintf("header type %v, requested %d", h.GetType(), typ)
	}
	for _, o := range specs {
		var got string
		switch o.K {
		case "bc":
			got = h.GetBcname()
		case "logid":
			got = h.GetLogid()
		case "version":
			got = h.GetVersion()
		case "errtype":
			got = strconv.Itoa(int(h.GetErrorType()))
		}
		if got != o.V {
			return fmt.Sprintf("header %s = %q, requested %q", o.K, got, o.V)
		}
	}
	return ""
}

func c20FlipBit(b []byte, p int64) { b[p>>3] ^= 1 << uint(p&7) }

// c20Pat: XOR pattern of a burst of exactly span bits (first and last bit set). Bit k of the pattern
// is bit position start+k of the payload in CRC order (byte by byte, least significant bit first:
// the order in which CRC-32/IEEE consumes the bits, so a burst <= 32 bits is always detectable).
func c20Pat(span int, mid uint32) uint32 {
	pat := uint32(1) | uint32(1)<<uint(span-1)
	if span > 2 {
		interior := (uint32(1)<<uint(span-1) - 1) &^ 1
		pat |= mid & interior
	}
	return pat
}

func c20XorBurst(b []byte, start int64, pat uint32) {
	for k := 0; k < 32; k++ {
		if pat>>uint(k)&1 == 1 {
			c20FlipBit(b, start+int64(k))
		}
	}
}

// c20Undetected: "" if the corrupted message is detected by both entry points.
func c20Undetected(recv *pb.XuperMessage, scratch proto.Message) string {
	if p2p.VerifyChecksum(recv) {
		return "VerifyChecksum accepts the corrupted payload"
	}
	if err := p2p.Unmarshal(recv, scratch); err == nil {
		return "Unmarshal delivers the corrupted payload (nil error)"
	}
	return ""
}

func c20SampledPositions(limit int64) []int64 {
	// limit = last admissible start; all alignments near both ends plus an odd stride in between
	pos := []int64{}
	for p := int64(0); p <= limit && p <= 96; p++ {
		pos = append(pos, p)
	}
	step := limit/199 | 1
	for p := int64(97); p < limit-96; p += step {
		pos = append(pos, p)
	}
	for p := limit - 96; p <= limit; p++ {
		if p > 96 {
			pos = append(pos, p)
		}
	}
	return pos
}

// c20RunRT executes one round-trip case: build, check header, decode at the sender and - after a
// real wire hop (protobuf encoding of the whole XuperMessage) - at the receiver, then corrupt the
// receiver's encoded payload as the spec says.
func c20RunRT(s *c20MsgSpec) *c20RTOut {
	o := &c20RTOut{}
	seed, _ := hex.DecodeString(s.Seed)
	var payload proto.Message
	var fresh func() proto.Message
	if s.Shape != "nil" {
		payload, fresh = c20Payload(s.Shape, c20Body(s.Body, s.N, seed), s.Flag)
	}
	typ := pb.XuperMessage_MessageType(s.Type)
	opts := c20Options(s.Opts)
	var msg *pb.XuperMessage
	if payload == nil {
		msg = p2p.NewMessage(typ, nil, opts...)
	} else {
		msg = p2p.NewMessage(typ, payload, opts...)
	}
	if msg == nil || msg.Header == nil || msg.Data == nil {
		o.Viol = "NewMessage returned an incomplete message"
		return o
	}
	if v := c20HeaderAsRequested(msg.Header, s.Type, s.Opts); v != "" {
		o.Viol = "sender: " + v
		return o
	}
	if !p2p.VerifyChecksum(msg) {
		o.Viol = "a freshly built message fails VerifyChecksum"
		return o
	}
	raw := []byte{}
	if payload != nil {
		var err error
		if raw, err = proto.Marshal(payload); err != nil {
			o.Viol = "harness: payload does not marshal: " + err.Error()
			return o
		}
	}
	o.RawLen, o.EncLen, o.Compressed = len(raw), len(msg.Data.MsgInfo), msg.Header.EnableCompress

	// the wire hop
	wire, err := proto.Marshal(msg)
	if err != nil {
		o.Viol = "harness: XuperMessage does not marshal: " + err.Error()
		return o
	}
	recv := &pb.XuperMessage{}
	if err := proto.Unmarshal(wire, recv); err != nil {
		o.Viol = "harness: XuperMessage does not unmarshal: " + err.Error()
		return o
	}
	if v := c20HeaderAsRequested(recv.GetHeader(), s.Type, s.Opts); v != "" {
		o.Viol = "receiver: " + v
		return o
	}
	if !p2p.VerifyChecksum(recv) {
		o.Viol = "an uncorrupted message fails VerifyChecksum at the receiver"
		return o
	}
	if payload == nil {
		return o // nothing was sent, nothing to decode
	}
	out := fresh()
	if err := p2p.Unmarshal(msg, out); err != nil {
		o.Viol = fmt.Sprintf("Unmarshal(NewMessage(m)) fails in the sender's process: %v", err)
		return o
	}
	if !proto.Equal(out, payload) {
		o.Viol = "Unmarshal(NewMessage(m)) differs from m in the sender's process"
		return o
	}
	out2 := fresh()
	err = p2p.Unmarshal(recv, out2)
	if err != nil || !proto.Equal(out2, payload) {
		what := fmt.Sprintf("after the wire hop Unmarshal gives err=%v equal=%v (raw payload %d bytes, encoded %d bytes, Data.MsgInfo nil at receiver=%v)",
			err, err == nil && proto.Equal(out2, payload), len(raw), o.EncLen, recv.GetData().GetMsgInfo() == nil)
		if len(raw) == 0 && c20EmptyPayloadSoft {
			o.Head = append(o.Head, what)
		} else {
			o.Viol = what
			return o
		}
	}

	// corruption of the bytes that travel
	enc := recv.GetData().GetMsgInfo()
	total := int64(len(enc)) * 8
	if total == 0 {
		return o
	}
	scratch := fresh()
	single := func(p int64) bool {
		c20FlipBit(enc, p)
		v := c20Undetected(recv, scratch)
		c20FlipBit(enc, p)
		o.Singles++
		if v != "" {
			o.Viol = fmt.Sprintf("single-bit flip at bit %d (byte %d, bit %d) of %d encoded bytes: %s", p, p>>3, p&7, len(enc), v)
			return false
		}
		return true
	}
	burst := func(start int64, span int, mid uint32) bool {
		pat := c20Pat(span, mid)
		c20XorBurst(enc, start, pat)
		v := c20Undetected(recv, scratch)
		c20XorBurst(enc, start, pat)
		o.Bursts++
		if v != "" {
			o.Viol = fmt.Sprintf("burst of %d bits (pattern %#x) at bit %d of %d encoded bytes: %s", span, pat, start, len(enc), v)
			return false
		}
		return true
	}
	if s.AllBits {
		for p := int64(0); p < total; p++ {
			if !single(p) {
				return o
			}
		}
	}
	if s.Stride {
		step := total/4099 | 1
		for p := int64(0); p < total; p += step {
			if !single(p) {
				return o
			}
		}
		if !single(total - 1) {
			return o
		}
	}
	for _, f := range s.Flips {
		if !single(int64(uint64(f) * uint64(total) >> 32)) {
			return o
		}
	}
	for _, b := range s.Bursts {
		if b.Span < 2 || b.Span > 32 || total < int64(b.Span) {
			continue
		}
		if !burst(int64(uint64(b.Pos)*uint64(total-int64(b.Span)+1)>>32), b.Span, b.Mid) {
			return o
		}
	}
	if s.Sweep != "" {
		for span := 2; span <= 32 && int64(span) <= total; span++ {
			limit := total - int64(span)
			var pos []int64
			if s.Sweep == "all" {
				pos = make([]int64, 0, limit+1)
				for p := int64(0); p <= limit; p++ {
					pos = append(pos, p)
				}
			} else {
				pos = c20SampledPositions(limit)
			}
			mids := []uint32{0, 0xffffffff, binary.BigEndian.Uint32(c20Expand([]byte{byte(span)}, 4))}
			for _, p := range pos {
				for _, mid := range mids {
					if !burst(p, span, mid) {
						return o
					}
				}
			}
		}
	}
	if !p2p.VerifyChecksum(recv) || !bytes.Equal(enc, msg.Data.MsgInfo) {
		o.Viol = "harness: payload not restored after the sweep"
	}
	return o
}

func (s *c20MsgSpec) evidenceKey() interface{} {
	return []interface{}{"rt", s.Type, s.Shape, s.Body, s.N, s.Seed, s.Flag, s.Opts}
}

// c20RTNontrivial: the rule - payload above 64 KiB, or incompressible (snappy does not shrink it).
func c20RTNontrivial(o *c20RTOut) bool {
	return o.RawLen > 64<<10 || (o.RawLen >= 16 && o.EncLen >= o.RawLen)
}

// c20CountRT books one executed round-trip case into the collector; returns false on violation.
func c20CountRT(t *testing.T, c *hx.Collector, test string, s *c20MsgSpec, o *c20RTOut) bool {
	labels := []string{"roundtrip", "shape:" + s.Shape}
	if o.RawLen == 0 {
		labels = append(labels, "payload-empty")
	}
	if o.RawLen > 64<<10 {
		labels = append(labels, "payload>64KiB")
	}
	if o.RawLen >= 16 && o.EncLen >= o.RawLen {
		labels = append(labels, "payload-incompressible")
	}
	if o.Compressed && o.EncLen*4 < o.RawLen {
		labels = append(labels, "payload-highly-compressible")
	}
	c.Count(s.evidenceKey(), c20RTNontrivial(o), labels...)
	if o.Singles > 0 {
		c.CountN(o.Singles, "single-bit-flip")
	}
	if o.Bursts > 0 {
		c.CountN(o.Bursts, "burst<=32")
	}
	for _, h := range o.Head {
		c20HeadFailure(t, c, "empty-payload-wire", fmt.Sprintf("%s; input %s", h, c20JSON(s)))
	}
	if o.Viol != "" {
		c.Violate(test, o.Viol, []interface{}{s})
		t.Errorf("%s: %s (input %s)", test, o.Viol, c20JSON(s))
		return false
	}
	return true
}

func c20JSON(v interface{}) string {
	b, _ := json.Marshal(v)
	if len(b) > 600 {
		return string(b[:600]) + "..."
	}
	return string(b)
}

// c20TypeBox: every message type x every subset of the four options x {nil, empty, small} payload.
func c20TypeBox(t *testing.T, c *hx.Collector) {
	optPool := []c20Opt{{"bc", "hello"}, {"logid", "1234567890"}, {"version", p2p.MessageVersion2}, {"errtype", "8"}}
	shapes := []c20MsgSpec{{Shape: "nil"}, {Shape: "tip"}, {Shape: "tx", Body: "pattern", N: 40, Flag: true}}
	for _, typ := range c20AllTypes() {
		for mask := 0; mask < 16; mask++ {
			for _, sh := range shapes {
				s := sh
				s.Type = typ
				for i, op := range optPool {
					if mask>>uint(i)&1 == 1 {
						s.Opts = append(s.Opts, op)
					}
				}
				if mask%3 == 1 { // also vary the order in which options are given
					for i, j := 0, len(s.Opts)-1; i < j; i, j = i+1, j-1 {
						s.Opts[i], s.Opts[j] = s.Opts[j], s.Opts[i]
					}
				}
				s.AllBits = true
				if !c20CountRT(t, c, "roundtrip-grid", &s, c20RunRT(&s)) {
					return
				}
			}
		}
	}
	c.SetExhaustive("26 message types x 16 option subsets x {no, empty, small} payload")
}

// c20RespTypes: the request -> response type mapping and VerifyMessageType, as message.go documents.
func c20RespTypes(t *testing.T, c *hx.Collector) {
	type req struct{ req, res int32 }
	reqs := []req{}
	for _, typ := range c20AllTypes() {
		name := pb.XuperMessage_MessageType_name[typ]
		if res, ok := pb.XuperMessage_MessageType_value[name+"_RES"]; ok {
			reqs = append(reqs, req{typ, res})
		}
	}
	seen := map[int32]int32{}
	for _, r := range reqs {
		got := int32(p2p.GetRespMessageType(pb.XuperMessage_MessageType(r.req)))
		c.Count([]interface{}{"resp-type", r.req}, false, "resp-type-mapping")
		if got != r.res {
			msg := fmt.Sprintf("GetRespMessageType(%s) = %d, want %s_RES = %d", pb.XuperMessage_MessageType_name[r.req], got, pb.XuperMessage_MessageType_name[r.req], r.res)
			c.Violate("resp-type", msg, []interface{}{r.req})
			t.Errorf("%s", msg)
		}
		if other, dup := seen[got]; dup {
			msg := fmt.Sprintf("GetRespMessageType maps request types %d and %d to the same response type %d", other, r.req, got)
			c.Violate("resp-type", msg, []interface{}{other, r.req})
			t.Errorf("%s", msg)
		}
		seen[got] = r.req
	}
	const peer = "QmPeerAsked"
	n := 0
	for _, r := range reqs {
		request := p2p.NewMessage(pb.XuperMessage_MessageType(r.req), nil, p2p.WithLogId("log-req"))
		for _, resType := range c20AllTypes() {
			for _, from := range []string{peer, "QmOtherPeer", ""} {
				for _, logid := range []string{"log-req", "log-other"} {
					resp := p2p.NewMessage(pb.XuperMessage_MessageType(resType), &xpb.TipStatus{IsTrunkTip: true}, p2p.WithLogId(logid))
					resp.Header.From = from // the transport stamps the sender (p2pv2 Stream.Send)
					want := resType == r.res && from == peer && logid == "log-req"
					got := p2p.VerifyMessageType(request, resp, peer)
					n++
					if got != want {
						msg := fmt.Sprintf("VerifyMessageType(request %d, response type %d from %q logid %q, asked peer %q) = %v, want %v", r.req, resType, from, logid, peer, got, want)
						c.Violate("verify-message-type", msg, []interface{}{r.req, resType, from, logid})
						t.Errorf("%s", msg)
						return
					}
				}
			}
		}
	}
	c.CountN(n, "verify-message-type")
	c.SetExhaustive("request types x response types x {asked peer, other, none} x {same, other logid}")
}

func c20GridSeed(idx int) string {
	return hex.EncodeToString(c20Expand([]byte(fmt.Sprintf("C20-grid/%d/%d/%d", hx.Seed(), hx.Shard(), idx)), 32))
}

// c20Grid: deterministic sweep. Every payload whose encoding is small gets EVERY single-bit flip and
// bursts of every span 2..32 (every position when <= 256 encoded bytes, else sampled positions over
// all bit alignments); larger payloads get strided flips and sampled bursts.
func c20Grid(t *testing.T, c *hx.Collector) {
	thorough := hx.Tier() == "thorough"
	shard, shards := hx.Shard(), hx.Shards()
	if shards < 1 {
		shards = 1
	}
	sizes := []int{1, 2, 3, 5, 8, 13, 16, 17, 31, 32, 33, 64, 100, 255, 256, 257, 512, 1000, 1024, 2000, 2048}
	bodies := []string{"zero", "pattern", "random"}
	shapes := []string{"tx", "blockid", "xmsg"}
	types := c20AllTypes()
	idx := 0
	specs := []c20MsgSpec{}
	add := func(s c20MsgSpec) {
		s.Type = types[idx%len(types)]
		s.Seed = c20GridSeed(idx)
		idx++
		specs = append(specs, s)
	}
	for _, n := range sizes {
		for _, b := range bodies {
			for si, sh := range shapes {
				sweep := "sampled"
				if n <= 200 {
					sweep = "all"
				}
				add(c20MsgSpec{Shape: sh, Body: b, N: n, Flag: (n+si)%2 == 0, AllBits: true, Sweep: sweep})
			}
		}
	}
	for _, n := range []int{0, 7, 300, 1500} {
		for _, b := range bodies {
			add(c20MsgSpec{Shape: "block", Body: b, N: n, Flag: n%2 == 0, AllBits: true, Sweep: "sampled"})
			add(c20MsgSpec{Shape: "peer", Body: b, N: n / 2, Flag: n%2 == 1, AllBits: true, Sweep: "sampled"})
		}
	}
	// large payloads: strided flips + sampled bursts
	large := []int{65537, 100000, 262144}
	if thorough {
		large = append(large, 500000, 1048576)
	}
	for _, n := range large {
		for _, b := range bodies {
			add(c20MsgSpec{Shape: "tx", Body: b, N: n, Stride: true, Sweep: "sampled"})
		}
		add(c20MsgSpec{Shape: "block", Body: "random", N: n, Flag: true, Stride: true, Sweep: "sampled"})
	}
	exhaustedUpTo := 2048
	if thorough {
		// exhaustive single-bit sweeps of bigger payloads, split over the shards
		big := []c20MsgSpec{}
		for _, n := range []int{3000, 4096, 5000, 8192, 10000, 16384, 32768, 65536} {
			for _, b := range bodies {
				big = append(big, c20MsgSpec{Shape: "tx", Body: b, N: n, Flag: true, AllBits: true, Sweep: "sampled"})
			}
		}
		for i, s := range big {
			if i%shards == shard%shards {
				add(s)
			} else {
				idx++
			}
		}
	}
	for i := range specs {
		s := &specs[i]
		if !c20CountRT(t, c, "roundtrip-grid", s, c20RunRT(s)) {
			return
		}
	}
	c.SetExhaustive(fmt.Sprintf("every single-bit flip of every grid payload of <= %d body bytes", exhaustedUpTo))
	c.SetExhaustive("bursts of every span 2..32 at every bit position for grid payloads of <= 200 body bytes")
}

// c20GenMsgSpec draws a random round-trip case.
func c20GenMsgSpec(rt *rapid.T, maxN int) *c20MsgSpec {
	s := &c20MsgSpec{}
	s.Type = rapid.SampledFrom(c20AllTypes()).Draw(rt, "type")
	s.Shape = rapid.SampledFrom([]string{"tx", "tx", "block", "blockid", "peer", "xmsg", "tip", "nil"}).Draw(rt, "shape")
	s.Body = rapid.SampledFrom([]string{"random", "random", "zero", "pattern"}).Draw(rt, "body")
	s.Flag = rapid.Bool().Draw(rt, "flag")
	switch rapid.IntRange(0, 9).Draw(rt, "sizeclass") {
	case 0:
		s.N = 0
	case 1, 2:
		s.N = rapid.IntRange(1, 64).Draw(rt, "n")
	case 3, 4:
		s.N = rapid.IntRange(65, 2048).Draw(rt, "n")
	case 5, 6:
		s.N = rapid.IntRange(2049, 64<<10).Draw(rt, "n")
	default:
		s.N = rapid.IntRange(64<<10+1, maxN).Draw(rt, "n")
	}
	if s.Shape == "peer" && s.N > maxN/2 {
		s.N = maxN / 2 // hex text doubles the size
	}
	if s.Body == "random" {
		k := 32
		if s.N <= 64 {
			k = s.N // small incompressible payloads are drawn byte by byte (shrinkable)
		}
		s.Seed = hex.EncodeToString(rapid.SliceOfN(rapid.Byte(), k, k).Draw(rt, "seed"))
	}
	str := rapid.OneOf(rapid.SampledFrom([]string{"xuper", "", "hello", "链-β"}), rapid.StringMatching(`[a-zA-Z0-9_\-\.]{0,24}`))
	pool := []string{"bc", "logid", "version", "errtype"}
	order := rapid.Permutation(pool).Draw(rt, "optorder")
	mask := rapid.IntRange(0, 15).Draw(rt, "optmask")
	for i, k := range order {
		if mask>>uint(i)&1 == 0 {
			continue
		}
		o := c20Opt{K: k}
		switch k {
		case "bc", "logid":
			o.V = str.Draw(rt, k)
		case "version":
			o.V = rapid.SampledFrom([]string{p2p.MessageVersion1, p2p.MessageVersion2, p2p.MessageVersion3, "9.9.9", ""}).Draw(rt, k)
		default:
			o.V = strconv.Itoa(int(rapid.SampledFrom(c20AllErrTypes()).Draw(rt, k)))
		}
		s.Opts = append(s.Opts, o)
	}
	// rapid's integers favour small values: positions are spread over the whole payload by a
	// multiplicative hash of the drawn value (every third one stays raw = near the start, and the
	// complement of a raw one = near the end)
	spread := func(i int, v uint32) uint32 {
		switch i % 3 {
		case 0:
			return v
		case 1:
			return ^v
		default:
			return v * 0x9E3779B1
		}
	}
	for i, v := range rapid.SliceOfN(rapid.Uint32(), 0, 48).Draw(rt, "flips") {
		s.Flips = append(s.Flips, spread(i+1, v))
	}
	nb := rapid.IntRange(0, 48).Draw(rt, "nbursts")
	for i := 0; i < nb; i++ {
		s.Bursts = append(s.Bursts, c20Burst{
			Pos:  spread(i+1, rapid.Uint32().Draw(rt, "bpos")),
			Span: rapid.IntRange(2, 32).Draw(rt, "bspan"),
			Mid:  spread(i+2, rapid.Uint32().Draw(rt, "bmid")),
		})
	}
	return s
}

func c20MaxPayload() int {
	if hx.Tier() == "thorough" {
		return 1 << 20
	}
	return 256 << 10
}

func c20CheckRT(t *testing.T, c *hx.Collector) {
	maxN := c20MaxPayload()
	c.Check(t, "roundtrip", hx.N(1500, 30000), func(cs *hx.Case) {
		s := c20GenMsgSpec(cs.RT(), maxN)
		cs.Op(s)
		o := c20RunRT(s)
		for _, h := range o.Head {
			cs.Label("head-failure:empty-payload-wire")
			c20HeadFailure(t, c, "empty-payload-wire", fmt.Sprintf("%s; input %s", h, c20JSON(s)))
		}
		if o.Viol != "" {
			cs.Failf("%s", o.Viol)
		}
		cs.Label("roundtrip")
		cs.Label("shape:" + s.Shape)
		if o.RawLen == 0 {
			cs.Label("payload-empty")
		}
		if o.RawLen > 64<<10 {
			cs.Label("payload>64KiB")
		}
		if o.RawLen >= 16 && o.EncLen >= o.RawLen {
			cs.Label("payload-incompressible")
		}
		if len(s.Opts) == 4 {
			cs.Label("all-four-options")
		}
		if o.Singles+o.Bursts > 0 {
			c.CountN(o.Singles, "single-bit-flip")
			c.CountN(o.Bursts, "burst<=32")
		}
		if c20RTNontrivial(o) {
			cs.NontrivialKey(s.evidenceKey())
		}
	})
}

func c20ReplayRT(raw json.RawMessage, fs *hx.FindingSet) error {
	var specs []c20MsgSpec
	if err := json.Unmarshal(raw, &specs); err != nil {
		return err
	}
	for i := range specs {
		if o := c20RunRT(&specs[i]); o.Viol != "" {
			return fmt.Errorf("%s", o.Viol)
		}
	}
	return nil
}

// ---------------------------------------------------------------------------------------------
// part 2: dispatcher, sequential model
// ---------------------------------------------------------------------------------------------

type c20SubSpec struct {
	Type    int32  `json:"type"`
	Chan    bool   `json:"chan,omitempty"` // buffered-channel form (else handler form)
	Cap     int    `json:"cap,omitempty"`
	From    string `json:"from,omitempty"` // sender filter
	BC      string `json:"bc,omitempty"`   // chain filter
	NilResp bool   `json:"nilresp,omitempty"`
	// Decode (handler form): the handler decodes the payload with p2p.Unmarshal before it answers, as the engine's
	// handlers do (handleGetBlock, handleGetChainStatus, ...); what it decodes must be what was sent
	Decode bool `json:"decode,omitempty"`
}

// c20MsgKey: the identity of a dispatched message (payload id <-> checksum).
type c20MsgKey struct {
	Type    int32  `json:"type"`
	BC      string `json:"bc"`
	From    string `json:"from"`
	Logid   string `json:"logid"`
	Payload int    `json:"payload"`
}

type c20DOp struct {
	Op  string     `json:"op"` // reg unreg disp burst dispnostream drain regnil regnone unregnil unregnone dispnil disphdrnil dispdatanil
	Sub int        `json:"sub,omitempty"`
	Msg *c20MsgKey `json:"msg,omitempty"`
	N   int        `json:"n,omitempty"` // burst: the sender builds N messages "<logid>-<i>" back to back (default log ids)
}

type c20DispProg struct {
	Subs []c20SubSpec `json:"subs"`
	Ops  []c20DOp     `json:"ops"`
}

type c20Rec struct {
	mu  sync.Mutex
	got []*pb.XuperMessage
	bad string // first decoding problem seen by a decoding handler
}

func (r *c20Rec) noteBad(format string, args ...interface{}) {
	r.mu.Lock()
	if r.bad == "" {
		r.bad = fmt.Sprintf(format, args...)
	}
	r.mu.Unlock()
}
func (r *c20Rec) takeBad() string { r.mu.Lock(); b := r.bad; r.bad = ""; r.mu.Unlock(); return b }

func (r *c20Rec) add(m *pb.XuperMessage) { r.mu.Lock(); r.got = append(r.got, m); r.mu.Unlock() }
func (r *c20Rec) take() []*pb.XuperMessage {
	r.mu.Lock()
	g := r.got
	r.got = nil
	r.mu.Unlock()
	return g
}

type c20Sub struct {
	spec c20SubSpec
	sub  p2p.Subscriber
	rec  *c20Rec
	ch   chan *pb.XuperMessage
}

type c20Stream struct{ sent int64 }

func (s *c20Stream) Send(m *pb.XuperMessage) error { atomic.AddInt64(&s.sent, 1); return nil }

func c20NewSub(sp c20SubSpec, chanCap int) *c20Sub {
	ctx := c20Ctx()
	s := &c20Sub{spec: sp, rec: &c20Rec{}}
	opts := []p2p.SubscriberOption{}
	if sp.From != "" {
		opts = append(opts, p2p.WithFilterFrom(sp.From))
	}
	if sp.BC != "" {
		opts = append(opts, p2p.WithFilterBCName(sp.BC))
	}
	typ := pb.XuperMessage_MessageType(sp.Type)
	if sp.Chan {
		s.ch = make(chan *pb.XuperMessage, chanCap)
		s.sub = p2p.NewSubscriber(ctx, typ, s.ch, opts...)
		return s
	}
	rec, nilResp, decode := s.rec, sp.NilResp, sp.Decode
	s.sub = p2p.NewSubscriber(ctx, typ, p2p.HandleFunc(func(_ xctx.XContext, m *pb.XuperMessage) (*pb.XuperMessage, error) {
		rec.add(m)
		if decode && len(m.GetData().GetMsgInfo()) > 0 {
			got := &lpb.Transaction{}
			if err := p2p.Unmarshal(m, got); err != nil {
				rec.noteBad("a handler cannot decode the message it was handed: %v", err)
			} else {
				known := false
				for id := 1; id <= 3; id++ {
					known = known || proto.Equal(got, c20PayloadByID(id))
				}
				if !known {
					rec.noteBad("a handler decoded a payload nobody sent (desc %q)", got.Desc)
				}
			}
		}
		if nilResp {
			return nil, nil
		}
		return p2p.NewMessage(p2p.GetRespMessageType(m.GetHeader().GetType()), nil, p2p.WithLogId(m.GetHeader().GetLogid())), nil
	}), opts...)
	return s
}

// c20Match: the reference filter - type, chain filter, sender filter (empty filter = any).
func c20Match(sp c20SubSpec, k *c20MsgKey) bool {
	return sp.Type == k.Type && (sp.From == "" || sp.From == k.From) && (sp.BC == "" || sp.BC == k.BC)
}

func c20PayloadByID(id int) proto.Message {
	switch id {
	case 0:
		return nil
	case 1:
		return &lpb.Transaction{Desc: []byte("payload-one"), Nonce: "1"}
	case 2:
		return &lpb.Transaction{Desc: []byte("payload-two"), Nonce: "2"}
	default:
		return &lpb.Transaction{Desc: c20Expand([]byte("payload-three"), 5000)}
	}
}

// c20BuildMsg: the message as the receiving node sees it - built by NewMessage at the sender,
// stamped with the sender's id by the transport, encoded, decoded.
func c20BuildMsg(k *c20MsgKey) *pb.XuperMessage {
	var m *pb.XuperMessage
	if strings.HasPrefix(k.Logid, "auto") {
		// one sender-side message per key: a repeat is a second wire copy of the same message
		c20AutoMu.Lock()
		wire := c20AutoWire[k.full()]
		c20AutoMu.Unlock()
		if wire != nil {
			recv := &pb.XuperMessage{}
			if err := proto.Unmarshal(wire, recv); err != nil {
				panic(err)
			}
			return recv
		}
	}
	opts := []p2p.MessageOption{p2p.WithBCName(k.BC)}
	if !strings.HasPrefix(k.Logid, "auto") {
		// "auto<n>": the sender does not choose a log id (NewMessage's default): every such message is a message of its own
		opts = append(opts, p2p.WithLogId(k.Logid))
	}
	if pl := c20PayloadByID(k.Payload); pl == nil {
		m = p2p.NewMessage(pb.XuperMessage_MessageType(k.Type), nil, opts...)
	} else {
		m = p2p.NewMessage(pb.XuperMessage_MessageType(k.Type), pl, opts...)
	}
	m.Header.From = k.From
	wire, err := proto.Marshal(m)
	if err != nil {
		panic(err)
	}
	if strings.HasPrefix(k.Logid, "auto") {
		c20AutoMu.Lock()
		c20AutoWire[k.full()] = wire
		c20AutoMu.Unlock()
	}
	recv := &pb.XuperMessage{}
	if err := proto.Unmarshal(wire, recv); err != nil {
		panic(err)
	}
	return recv
}

// c20AutoWire: the wire bytes of the messages sent with the default log id in the current run
var (
	c20AutoMu   sync.Mutex
	c20AutoWire = map[string][]byte{}
)

func c20ResetAuto() {
	c20AutoMu.Lock()
	c20AutoWire = map[string][]byte{}
	c20AutoMu.Unlock()
}

func (k *c20MsgKey) full() string {
	return fmt.Sprintf("%d|%s|%s|%s|%d", k.Type, k.BC, k.From, k.Logid, k.Payload)
}
func (k *c20MsgKey) sansFrom() string {
	return fmt.Sprintf("%d|%s|%s|%d", k.Type, k.BC, k.Logid, k.Payload)
}

type c20DispOut struct {
	Viol       string
	Labels     []string
	Nontrivial bool
}

func (o *c20DispOut) label(l string) {
	for _, x := range o.Labels {
		if x == l {
			return
		}
	}
	o.Labels = append(o.Labels, l)
}

const (
	c20Fresh   = 0 // never accepted
	c20Handled = 1 // accepted and delivered, at a known time
	c20Maybe   = 2 // accepted with nobody to deliver to / only a same-content sibling from another sender was handled
)

type c20KeyState struct {
	state int
	at    time.Time // start of the accepted dispatch
}

// c20Elapsed: time since t0 by the monotonic AND by the wall clock, whichever is larger (the
// de-duplication cache expires entries by wall clock; a clock step must not turn into a verdict).
func c20Elapsed(t0, t1 time.Time) time.Duration {
	mono := t1.Sub(t0)
	wall := time.Duration(t1.UnixNano() - t0.UnixNano())
	if wall > mono {
		return wall
	}
	return mono
}

func c20ErrIn(err error, allowed ...error) bool {
	for _, a := range allowed {
		if err == a {
			return true
		}
	}
	return false
}

// c20RunDisp interprets a sequential program against the multiset model.
func c20RunDisp(p *c20DispProg) *c20DispOut {
	c20ResetAuto()
	o := &c20DispOut{}
	d := c20NewDispatcher()
	n := len(p.Subs)
	subs := make([]*c20Sub, n)
	for i := range subs {
		cp := p.Subs[i].Cap
		if cp < 1 {
			cp = 1
		}
		subs[i] = c20NewSub(p.Subs[i], cp)
		if subs[i].sub == nil {
			o.Viol = "harness: NewSubscriber returned nil for a handler / channel"
			return o
		}
	}
	noneSub := c20NewSub(c20SubSpec{Type: int32(pb.XuperMessage_MSG_TYPE_NONE)}, 1)
	stream := &c20Stream{}
	reg := make([]bool, n)
	occ := make([]int, n)
	queue := make([][]*pb.XuperMessage, n)
	gotOne := make([]bool, n)   // received a message while registered
	unregged := make([]bool, n) // ... and was unregistered afterwards
	states := map[string]*c20KeyState{}
	sibling := map[string]bool{} // some sender's copy of this content was accepted

	// observe collects what every subscriber received since the last call.
	observe := func(ptr *pb.XuperMessage) ([]bool, string) {
		obs := make([]bool, n)
		for i, s := range subs {
			if s.ch != nil {
				delta := len(s.ch) - occ[i]
				if delta < 0 || delta > 1 || (delta == 1 && ptr == nil) {
					return nil, fmt.Sprintf("channel subscriber %d: %d new messages (0 or 1 possible)", i, delta)
				}
				obs[i] = delta == 1
				continue
			}
			cnt := 0
			for _, m := range s.rec.take() {
				if ptr == nil || m != ptr {
					return nil, fmt.Sprintf("handler subscriber %d received a message that is not being dispatched", i)
				}
				cnt++
			}
			if cnt > 1 {
				return nil, fmt.Sprintf("handler subscriber %d received the message %d times in one Dispatch", i, cnt)
			}
			if b := s.rec.takeBad(); b != "" {
				return nil, fmt.Sprintf("handler subscriber %d: %s", i, b)
			}
			obs[i] = cnt == 1
		}
		if g := noneSub.rec.take(); len(g) > 0 {
			return nil, "the MSG_TYPE_NONE subscriber received a message"
		}
		return obs, ""
	}
	none := func(obs []bool) bool {
		for _, b := range obs {
			if b {
				return false
			}
		}
		return true
	}
	same := func(a, b []bool) bool {
		for i := range a {
			if a[i] != b[i] {
				return false
			}
		}
		return true
	}

	for step, op := range p.Ops {
		fail := func(format string, a ...interface{}) *c20DispOut {
			o.Viol = fmt.Sprintf("step %d %s: ", step, c20JSON(op)) + fmt.Sprintf(format, a...)
			return o
		}
		quiet := func() string { // an operation that must not deliver anything
			obs, v := observe(nil)
			if v != "" {
				return v
			}
			if !none(obs) {
				return "a message was delivered by an operation that is not an accepted Dispatch"
			}
			return ""
		}
		switch op.Op {
		case "reg":
			err := d.Register(subs[op.Sub].sub)
			if reg[op.Sub] && err != p2p.ErrRegistered {
				return fail("second Register of a registered subscriber returned %v, want ErrRegistered", err)
			}
			if !reg[op.Sub] && err != nil {
				return fail("Register returned %v", err)
			}
			if reg[op.Sub] {
				o.label("double-register")
			}
			reg[op.Sub] = true
		case "unreg":
			err := d.UnRegister(subs[op.Sub].sub)
			if reg[op.Sub] && err != nil {
				return fail("UnRegister of a registered subscriber returned %v", err)
			}
			if !reg[op.Sub] && err != p2p.ErrNotRegister {
				return fail("UnRegister of a subscriber that is not registered returned %v, want ErrNotRegister", err)
			}
			if reg[op.Sub] && gotOne[op.Sub] {
				unregged[op.Sub] = true
			}
			if !reg[op.Sub] {
				o.label("unregister-unknown")
			}
			reg[op.Sub] = false
		case "regnil":
			if err := d.Register(p2p.NewSubscriber(c20Ctx(), pb.XuperMessage_POSTTX, nil)); err != p2p.ErrSubscriber {
				return fail("Register(nil subscriber) returned %v, want ErrSubscriber", err)
			}
			o.label("err-class")
		case "unregnil":
			if err := d.UnRegister(nil); err != p2p.ErrSubscriber {
				return fail("UnRegister(nil) returned %v, want ErrSubscriber", err)
			}
			o.label("err-class")
		case "regnone":
			if err := d.Register(noneSub.sub); err != p2p.ErrSubscriber {
				return fail("Register(subscriber of MSG_TYPE_NONE) returned %v, want ErrSubscriber", err)
			}
			o.label("err-class")
		case "unregnone":
			if err := d.UnRegister(noneSub.sub); err != p2p.ErrSubscriber {
				return fail("UnRegister(subscriber of MSG_TYPE_NONE) returned %v, want ErrSubscriber", err)
			}
			o.label("err-class")
		case "dispnil", "disphdrnil", "dispdatanil":
			var m *pb.XuperMessage
			if op.Op != "dispnil" {
				m = c20BuildMsg(&c20MsgKey{Type: int32(pb.XuperMessage_POSTTX), BC: "xuper", From: "peerA", Logid: "empty", Payload: 1})
				if op.Op == "disphdrnil" {
					m.Header = nil
				} else {
					m.Data = nil
				}
			}
			if err := d.Dispatch(m, stream); err != p2p.ErrMessageEmpty {
				return fail("Dispatch of an empty message returned %v, want ErrMessageEmpty", err)
			}
			o.label("err-class")
		case "drain":
			s := subs[op.Sub]
			if s.ch == nil {
				break
			}
			for qi := 0; len(s.ch) > 0; qi++ {
				m := <-s.ch
				if qi >= len(queue[op.Sub]) || queue[op.Sub][qi] != m {
					return fail("channel subscriber %d holds an unexpected message at position %d", op.Sub, qi)
				}
			}
			queue[op.Sub], occ[op.Sub] = nil, 0
		case "burst":
			// the sender builds N messages of one shape in a tight loop, none with a chosen log id: N messages
			// of their own; the following disp ops deliver them
			built := make([]*pb.XuperMessage, op.N)
			for i := range built {
				built[i] = p2p.NewMessage(pb.XuperMessage_MessageType(op.Msg.Type), nil, p2p.WithBCName(op.Msg.BC))
			}
			for i, m := range built {
				m.Header.From = op.Msg.From
				wire, err := proto.Marshal(m)
				if err != nil {
					panic(err)
				}
				ki := *op.Msg
				ki.Logid = fmt.Sprintf("%s-%d", op.Msg.Logid, i)
				c20AutoMu.Lock()
				c20AutoWire[ki.full()] = wire
				c20AutoMu.Unlock()
			}
			o.label("burst-of-default-logids")
		case "dispnostream":
			k := op.Msg
			st := states[k.full()]
			msg := c20BuildMsg(k)
			err := d.Dispatch(msg, nil)
			obs, v := observe(msg)
			if v != "" {
				return fail("%s", v)
			}
			if !none(obs) {
				return fail("a Dispatch without stream delivered the message")
			}
			if st == nil && !sibling[k.sansFrom()] {
				if err != p2p.ErrStreamNil {
					return fail("Dispatch(nil stream) of a message never seen before returned %v, want ErrStreamNil", err)
				}
			} else if !c20ErrIn(err, nil, p2p.ErrStreamNil, p2p.ErrMessageHandled) {
				return fail("Dispatch(nil stream) returned %v", err)
			}
			o.label("err-class")
			continue
		case "disp":
			k := op.Msg
			st := states[k.full()]
			msg := c20BuildMsg(k)
			// who must get it if it is accepted
			exp := make([]bool, n)
			anyExp, anyFull := false, false
			for i, s := range subs {
				if !reg[i] || !c20Match(s.spec, k) {
					continue
				}
				if s.ch != nil && occ[i] >= cap(s.ch) {
					anyFull = true // documented drop: the channel is full
					continue
				}
				exp[i] = true
				anyExp = true
			}
			start := time.Now()
			err := d.Dispatch(msg, stream)
			dur := time.Since(start)
			obs, v := observe(msg)
			if v != "" {
				return fail("%s", v)
			}
			if dur >= 2*time.Second {
				// the process was stalled for seconds: a channel subscriber's 3 s guard may have
				// fired; do not judge channel deliveries of this step, resynchronise the model
				for i, s := range subs {
					if s.ch != nil && exp[i] && !obs[i] {
						exp[i] = false
					}
				}
				o.label("stalled-step")
			}
			if !c20ErrIn(err, nil, p2p.ErrNotRegister) {
				return fail("Dispatch returned %v", err)
			}
			mustDrop := st != nil && st.state == c20Handled && c20Elapsed(st.at, time.Now()) < time.Second
			mustAccept := (st == nil || st.state == c20Fresh) && !sibling[k.sansFrom()]
			switch {
			case mustDrop:
				if !none(obs) {
					return fail("a repeat of a message handled %v ago was delivered again (observed %v)", time.Since(st.at), obs)
				}
				o.label("repeat-dropped")
				continue
			case mustAccept:
				if !same(obs, exp) {
					return fail("accepted message: delivered to %v, want exactly %v (registered %v)", obs, exp, reg)
				}
			default:
				if !same(obs, exp) && !none(obs) {
					return fail("possible repeat: delivered to %v, want exactly %v or nobody", obs, exp)
				}
				// a subscriber that filters on THIS sender cannot have been handed the same-content message of another
				// sender: for it the message is no repeat, it must get it ("every subscriber whose sender filter matches")
				if st == nil || st.state == c20Fresh {
					for i, sb := range subs {
						if exp[i] && sb.spec.From != "" && !obs[i] {
							return fail("a message that differs from a handled one only in its sender was dropped although subscriber %d filters on this sender and never got the content (delivered to %v, want %v)", i, obs, exp)
						}
					}
				}
				o.label("tolerated-either")
			}
			accepted := anyExp && same(obs, exp)
			if accepted || mustAccept {
				// non-trivial: a subscriber that got an earlier message of this type and was then
				// unregistered matches this non-repeat message and (checked above) does not get it
				for i, s := range subs {
					if unregged[i] && !reg[i] && c20Match(s.spec, k) {
						o.Nontrivial = true
						o.label("unregistered-between-two-dispatches")
					}
				}
			}
			if accepted {
				if err != nil {
					return fail("Dispatch delivered the message and returned %v", err)
				}
				states[k.full()] = &c20KeyState{state: c20Handled, at: start}
				sibling[k.sansFrom()] = true
				o.label("accepted")
				for i := range subs {
					if obs[i] {
						gotOne[i] = true
						if subs[i].ch != nil {
							occ[i]++
							queue[i] = append(queue[i], msg)
						}
					}
				}
				if anyFull {
					o.label("channel-full-drop")
				}
			} else if !anyExp && err == nil {
				// accepted with nobody to hand it to: whether that counts as "handled" is left open
				if st == nil || st.state == c20Fresh {
					states[k.full()] = &c20KeyState{state: c20Maybe}
				}
				sibling[k.sansFrom()] = true
				o.label("nobody-matches")
			}
			continue
		default:
			return fail("harness: unknown op")
		}
		if v := quiet(); v != "" {
			return fail("%s", v)
		}
	}
	// final: channels hold exactly the modelled messages
	for i, s := range subs {
		if s.ch == nil {
			continue
		}
		if len(s.ch) != len(queue[i]) {
			o.Viol = fmt.Sprintf("end: channel subscriber %d holds %d messages, model %d", i, len(s.ch), len(queue[i]))
			return o
		}
		for qi := 0; len(s.ch) > 0; qi++ {
			if m := <-s.ch; m != queue[i][qi] {
				o.Viol = fmt.Sprintf("end: channel subscriber %d holds an unexpected message at position %d", i, qi)
				return o
			}
		}
	}
	return o
}

// c20GenTypes draws the message types of one program: three types that get subscribers (the first
// one three times as likely) and a fourth that never has one. MSG_TYPE_NONE cannot be subscribed.
func c20GenTypes(rt *rapid.T) (subTypes, msgTypes []int32) {
	all := []int32{}
	for _, v := range c20AllTypes() {
		if v != int32(pb.XuperMessage_MSG_TYPE_NONE) {
			all = append(all, v)
		}
	}
	var b []int32
	if rapid.IntRange(0, 3).Draw(rt, "usual-types") > 0 {
		b = []int32{int32(pb.XuperMessage_POSTTX), int32(pb.XuperMessage_SENDBLOCK), int32(pb.XuperMessage_GET_BLOCK), int32(pb.XuperMessage_PING)}
	} else {
		b = rapid.Permutation(all).Draw(rt, "types")[:4]
	}
	subTypes = []int32{b[0], b[0], b[0], b[1], b[2]}
	msgTypes = append(append([]int32{}, subTypes...), b[3])
	return
}

func c20GenSub(rt *rapid.T, types []int32) c20SubSpec {
	sp := c20SubSpec{
		Type: rapid.SampledFrom(types).Draw(rt, "subtype"),
		From: rapid.SampledFrom([]string{"", "", "peerA", "peerB"}).Draw(rt, "subfrom"),
		BC:   rapid.SampledFrom([]string{"", "", "xuper", "other"}).Draw(rt, "subbc"),
	}
	if rapid.IntRange(0, 2).Draw(rt, "form") == 0 {
		sp.Chan = true
		sp.Cap = rapid.IntRange(1, 3).Draw(rt, "cap")
	} else {
		sp.NilResp = rapid.IntRange(0, 7).Draw(rt, "nilresp") == 0
		sp.Decode = rapid.Bool().Draw(rt, "decode")
	}
	return sp
}

func c20GenKey(rt *rapid.T, types []int32) *c20MsgKey {
	k := &c20MsgKey{
		Type:    rapid.SampledFrom(types).Draw(rt, "msgtype"),
		BC:      rapid.SampledFrom([]string{"xuper", "xuper", "other", ""}).Draw(rt, "msgbc"),
		From:    rapid.SampledFrom([]string{"peerA", "peerA", "peerB", ""}).Draw(rt, "msgfrom"),
		Logid:   rapid.SampledFrom([]string{"L0", "L1", "L2", "L3", "L4", "L5", "L6", "L7", "auto", "auto", "auto"}).Draw(rt, "logid"),
		Payload: rapid.SampledFrom([]int{0, 1, 1, 2, 3}).Draw(rt, "payload"),
	}
	if k.Logid == "auto" {
		// the default log id (the caller numbers it by its position in the program)
		k.Payload = 0 // the payload-less request is the shape in which only the log id tells two messages apart
	}
	return k
}

func c20GenDispProg(rt *rapid.T, maxOps int) *c20DispProg {
	p := &c20DispProg{}
	c20SubTypes, c20MsgTypes := c20GenTypes(rt)
	ns := rapid.IntRange(1, 6).Draw(rt, "nsubs")
	for i := 0; i < ns; i++ {
		p.Subs = append(p.Subs, c20GenSub(rt, c20SubTypes))
	}
	for i := 0; i < ns; i++ { // most programs start with some subscribers in place
		if rapid.IntRange(0, 9).Draw(rt, "initreg") < 6 {
			p.Ops = append(p.Ops, c20DOp{Op: "reg", Sub: i})
		}
	}
	nops := rapid.IntRange(1, maxOps).Draw(rt, "nops")
	var sent []*c20MsgKey
	errOps := []string{"regnil", "regnone", "unregnil", "unregnone", "dispnil", "disphdrnil", "dispdatanil", "dispnostream"}
	for i := 0; i < nops; i++ {
		kind := rapid.IntRange(0, 99).Draw(rt, "kind")
		switch {
		case kind < 24:
			p.Ops = append(p.Ops, c20DOp{Op: "reg", Sub: rapid.IntRange(0, ns-1).Draw(rt, "sub")})
		case kind < 38:
			p.Ops = append(p.Ops, c20DOp{Op: "unreg", Sub: rapid.IntRange(0, ns-1).Draw(rt, "sub")})
		case kind < 70:
			k := c20GenKey(rt, c20MsgTypes)
			if k.Logid == "auto" {
				k.Logid = fmt.Sprintf("auto%d", len(p.Ops))
				if rapid.IntRange(0, 3).Draw(rt, "burst") == 0 {
					nb := rapid.IntRange(2, 24).Draw(rt, "burstn")
					p.Ops = append(p.Ops, c20DOp{Op: "burst", Msg: k, N: nb})
					for bi := 0; bi < nb; bi++ {
						kb := *k
						kb.Logid = fmt.Sprintf("%s-%d", k.Logid, bi)
						sent = append(sent, &kb)
						p.Ops = append(p.Ops, c20DOp{Op: "disp", Msg: &kb})
					}
					continue
				}
			}
			sent = append(sent, k)
			p.Ops = append(p.Ops, c20DOp{Op: "disp", Msg: k})
		case kind < 84 && len(sent) > 0: // a repeat (mostly of the last message)
			j := len(sent) - 1
			if rapid.IntRange(0, 9).Draw(rt, "older") < 3 {
				j = rapid.IntRange(0, len(sent)-1).Draw(rt, "which")
			}
			k := *sent[j]
			sent = append(sent, &k)
			p.Ops = append(p.Ops, c20DOp{Op: "disp", Msg: &k})
		case kind < 88:
			p.Ops = append(p.Ops, c20DOp{Op: "drain", Sub: rapid.IntRange(0, ns-1).Draw(rt, "sub")})
		case kind < 93: // the statement's central shape: dispatch, change one matching registration, dispatch again
			si := rapid.IntRange(0, ns-1).Draw(rt, "sub")
			sp := p.Subs[si]
			mk := func(tag string) *c20MsgKey {
				k := &c20MsgKey{Type: sp.Type, BC: sp.BC, From: sp.From, Logid: fmt.Sprintf("S%d%s", len(p.Ops), tag), Payload: rapid.IntRange(0, 3).Draw(rt, "payload")}
				if k.BC == "" {
					k.BC = rapid.SampledFrom([]string{"xuper", "other"}).Draw(rt, "msgbc")
				}
				if k.From == "" {
					k.From = rapid.SampledFrom([]string{"peerA", "peerB", ""}).Draw(rt, "msgfrom")
				}
				return k
			}
			first, second := "reg", "unreg"
			if rapid.IntRange(0, 3).Draw(rt, "flip") == 0 {
				first, second = "unreg", "reg"
			}
			k1, k2 := mk("a"), mk("b")
			sent = append(sent, k1, k2)
			p.Ops = append(p.Ops, c20DOp{Op: first, Sub: si}, c20DOp{Op: "disp", Msg: k1}, c20DOp{Op: second, Sub: si}, c20DOp{Op: "disp", Msg: k2})
		case kind < 99:
			op := c20DOp{Op: rapid.SampledFrom(errOps).Draw(rt, "errop")}
			if op.Op == "dispnostream" {
				if len(sent) > 0 && rapid.Bool().Draw(rt, "seen") {
					k := *sent[len(sent)-1]
					op.Msg = &k
				} else {
					op.Msg = c20GenKey(rt, c20MsgTypes)
					if op.Msg.Logid == "auto" {
						op.Msg.Logid = fmt.Sprintf("auto%d", len(p.Ops))
					}
				}
			}
			p.Ops = append(p.Ops, op)
		default:
			p.Ops = append(p.Ops, c20DOp{Op: "reg", Sub: rapid.IntRange(0, ns-1).Draw(rt, "sub")})
		}
	}
	return p
}

// c20FixedDispProgs: hand-written programs that pin the shapes named in the statement.
func c20FixedDispProgs() []*c20DispProg {
	tx, blk := int32(pb.XuperMessage_POSTTX), int32(pb.XuperMessage_SENDBLOCK)
	m := func(typ int32, bc, from, logid string, pl int) *c20MsgKey {
		return &c20MsgKey{Type: typ, BC: bc, From: from, Logid: logid, Payload: pl}
	}
	return []*c20DispProg{
		{ // handler + channel, filters, repeat, unregister between two dispatches
			Subs: []c20SubSpec{{Type: tx}, {Type: tx, Chan: true, Cap: 2}, {Type: tx, From: "peerA"}, {Type: tx, BC: "other"},
				{Type: blk}, {Type: tx, From: "peerB", BC: "xuper", NilResp: true}},
			Ops: []c20DOp{{Op: "reg", Sub: 0}, {Op: "reg", Sub: 1}, {Op: "reg", Sub: 2}, {Op: "reg", Sub: 3}, {Op: "reg", Sub: 4}, {Op: "reg", Sub: 5},
				{Op: "disp", Msg: m(tx, "xuper", "peerA", "L0", 1)}, {Op: "disp", Msg: m(tx, "xuper", "peerA", "L0", 1)},
				{Op: "disp", Msg: m(tx, "xuper", "peerB", "L1", 1)}, {Op: "disp", Msg: m(tx, "other", "peerB", "L2", 2)},
				{Op: "unreg", Sub: 0}, {Op: "disp", Msg: m(tx, "xuper", "peerA", "L3", 2)}, {Op: "disp", Msg: m(tx, "xuper", "peerA", "L3", 2)},
				{Op: "disp", Msg: m(blk, "xuper", "peerA", "L0", 3)}, {Op: "drain", Sub: 1}, {Op: "reg", Sub: 0},
				{Op: "disp", Msg: m(tx, "xuper", "", "L4", 0)}, {Op: "unreg", Sub: 2}, {Op: "unreg", Sub: 2}, {Op: "reg", Sub: 3}},
		},
		{ // every error class
			Subs: []c20SubSpec{{Type: tx}, {Type: blk, Chan: true, Cap: 1}},
			Ops: []c20DOp{{Op: "regnil"}, {Op: "unregnil"}, {Op: "regnone"}, {Op: "unregnone"}, {Op: "unreg", Sub: 0}, {Op: "reg", Sub: 0}, {Op: "reg", Sub: 0},
				{Op: "dispnil"}, {Op: "disphdrnil"}, {Op: "dispdatanil"}, {Op: "dispnostream", Msg: m(tx, "xuper", "peerA", "L0", 1)},
				{Op: "disp", Msg: m(tx, "xuper", "peerA", "L0", 1)}, {Op: "dispnostream", Msg: m(tx, "xuper", "peerA", "L0", 1)},
				{Op: "disp", Msg: m(int32(pb.XuperMessage_PING), "xuper", "peerA", "L0", 1)}, {Op: "unreg", Sub: 1}},
		},
		{ // full channel, then drained
			Subs: []c20SubSpec{{Type: blk, Chan: true, Cap: 1}, {Type: blk}},
			Ops: []c20DOp{{Op: "reg", Sub: 0}, {Op: "reg", Sub: 1}, {Op: "disp", Msg: m(blk, "xuper", "peerA", "L0", 1)},
				{Op: "disp", Msg: m(blk, "xuper", "peerA", "L1", 1)}, {Op: "drain", Sub: 0}, {Op: "disp", Msg: m(blk, "xuper", "peerA", "L2", 1)},
				{Op: "disp", Msg: m(blk, "xuper", "peerA", "L2", 1)}},
		},
	}
}

func c20CheckDisp(t *testing.T, c *hx.Collector) {
	// the payload ids must map to distinct checksums (the de-duplication key uses the checksum)
	sums := map[uint32]int{}
	for id := 0; id <= 3; id++ {
		m := c20BuildMsg(&c20MsgKey{Type: 1, BC: "xuper", From: "p", Logid: "l", Payload: id})
		if other, dup := sums[m.GetHeader().GetDataCheckSum()]; dup {
			t.Fatalf("harness: payloads %d and %d share a checksum", other, id)
		}
		sums[m.GetHeader().GetDataCheckSum()] = id
	}
	for i, p := range c20FixedDispProgs() {
		o := c20RunDisp(p)
		c.Count([]interface{}{"fixed-disp", i}, o.Nontrivial, append([]string{"dispatch-fixed-program"}, o.Labels...)...)
		if o.Viol != "" {
			c.Violate("dispatch-model", o.Viol, []interface{}{p})
			t.Errorf("fixed dispatcher program %d: %s", i, o.Viol)
			return
		}
	}
	c.Check(t, "dispatch-model", hx.N(8000, 120000), func(cs *hx.Case) {
		p := c20GenDispProg(cs.RT(), 40)
		cs.Op(p)
		o := c20RunDisp(p)
		if o.Viol != "" {
			cs.Failf("%s", o.Viol)
		}
		cs.Label("dispatch-program")
		for _, l := range o.Labels {
			cs.Label(l)
		}
		if o.Nontrivial {
			cs.Nontrivial()
		}
	})
}

func c20ReplayDisp(raw json.RawMessage, fs *hx.FindingSet) error {
	var progs []c20DispProg
	if err := json.Unmarshal(raw, &progs); err != nil {
		return err
	}
	for i := range progs {
		if o := c20RunDisp(&progs[i]); o.Viol != "" {
			return fmt.Errorf("%s", o.Viol)
		}
	}
	return nil
}

func TestC20(t *testing.T) {
	c := hx.NewCollector("C20", "exploration",
		"messages: NewMessage -> protobuf wire hop -> Unmarshal for every message type x option subset (exhaustive box), a deterministic grid of payload sizes 0..2 KiB (quick: large up to 256 KiB, thorough: 1 MiB) x {zero, repeating, incompressible} bodies x real payload message kinds with EVERY single-bit flip of small encodings, strided flips of large ones and bursts of every span 2..32 (first and last bit set, three interior patterns) at every / sampled bit positions in CRC bit order, plus rapid-drawn cases (type, options in any order, size class, body, flips, bursts); non-trivial = raw payload > 64 KiB or snappy does not shrink it, distinct = hash of (type, shape, body, size, seed, options). "+
			"dispatcher: rapid-generated sequential programs of Register / UnRegister / Dispatch / repeat / drain / error-class operations over 1-6 recording subscribers (handler and buffered-channel form, from / bcName filters) compared after every step with a multiset model; non-trivial = a subscriber that received a message is unregistered and a later accepted message matching it is dispatched, distinct = hash of the program",
		"a burst is measured in the order CRC-32/IEEE consumes bits (byte by byte, least significant bit first)",
		"a message differing from a handled one only in its sender may or may not be treated as a repeat for subscribers without a sender filter (a subscriber filtering on that sender must get it); a message accepted while nobody matched may or may not count as handled",
		"the de-duplication window is only asserted while less than 1 s of wall time has passed since the first dispatch started (window 3 s); its expiry is not asserted",
		"a full channel subscriber drops the message (documented); channel deliveries of a step that took >= 2 s of wall time are not judged")
	defer c.Flush(t)
	c20Ctx()
	c20TypeBox(t, c)
	c20RespTypes(t, c)
	if t.Failed() {
		return
	}
	c20Grid(t, c)
	if t.Failed() {
		return
	}
	c20CheckRT(t, c)
	c20CheckDisp(t, c)
	if !t.Failed() {
		c20CheckTraffic(t, c)
	}
}

func init() {
	replayers["C20/roundtrip"] = c20ReplayRT
	replayers["C20/roundtrip-grid"] = c20ReplayRT
	replayers["C20/dispatch-model"] = c20ReplayDisp
}

// ---------------------------------------------------------------------------------------------
// part 3: dispatcher under concurrent Register / UnRegister / Dispatch
// ---------------------------------------------------------------------------------------------

type c20ConcProg struct {
	Subs []c20SubSpec `json:"subs"`
	G    [][]c20DOp   `json:"g"` // one op list per goroutine (reg / unreg / disp)
	Reps int          `json:"reps"`
}

type c20Ev struct {
	op     c20DOp
	msg    *pb.XuperMessage
	s, e   int64 // logical clock just before the call / just after its return
	w0, w1 time.Time
	err    error
}

type c20Ival struct{ s, e int64 }

type c20ConcOut struct {
	Viol     string
	Overlaps int // dispatches that overlapped a successful (un)registration of a matching subscriber
	Stable   int // (dispatch, subscriber) pairs for which exactly-once delivery was demanded
	Checked  int // deliveries explained
}

func c20UniqueLogid(l string) bool { return len(l) > 0 && l[0] != 'R' }

// c20RunConc runs the goroutine programs Reps times on fresh dispatchers and judges every delivery.
func c20RunConc(p *c20ConcProg) *c20ConcOut {
	o := &c20ConcOut{}
	reps := p.Reps
	if reps < 1 {
		reps = 1
	}
	for rep := 0; rep < reps && o.Viol == ""; rep++ {
		c20RunConcOnce(p, rep, o)
	}
	return o
}

func c20RunConcOnce(p *c20ConcProg, rep int, o *c20ConcOut) {
	fail := func(format string, a ...interface{}) {
		if o.Viol == "" {
			o.Viol = fmt.Sprintf("repetition %d: ", rep) + fmt.Sprintf(format, a...)
		}
	}
	d := c20NewDispatcher()
	ndisp := 0
	for _, ops := range p.G {
		for _, op := range ops {
			if op.Op == "disp" {
				ndisp++
			}
		}
	}
	n := len(p.Subs)
	subs := make([]*c20Sub, n)
	for i := range subs {
		subs[i] = c20NewSub(p.Subs[i], ndisp+16) // channel subscribers can never be full
	}
	stream := &c20Stream{}
	evs := make([][]*c20Ev, len(p.G))
	known := map[*pb.XuperMessage]bool{}
	for gi, ops := range p.G {
		for _, op := range ops {
			ev := &c20Ev{op: op}
			if op.Op == "disp" {
				ev.msg = c20BuildMsg(op.Msg)
				known[ev.msg] = true
			}
			evs[gi] = append(evs[gi], ev)
		}
	}
	var clock int64
	start := make(chan struct{})
	var wg sync.WaitGroup
	for gi := range evs {
		wg.Add(1)
		go func(mine []*c20Ev) {
			defer wg.Done()
			<-start
			for _, ev := range mine {
				ev.w0 = time.Now()
				ev.s = atomic.AddInt64(&clock, 1)
				switch ev.op.Op {
				case "reg":
					ev.err = d.Register(subs[ev.op.Sub].sub)
				case "unreg":
					ev.err = d.UnRegister(subs[ev.op.Sub].sub)
				case "disp":
					ev.err = d.Dispatch(ev.msg, stream)
				}
				ev.e = atomic.AddInt64(&clock, 1)
				ev.w1 = time.Now()
			}
		}(evs[gi])
	}
	close(start)
	wg.Wait()

	// harvest
	del := map[*pb.XuperMessage][]int{} // message -> per-subscriber delivery count
	note := func(m *pb.XuperMessage, i int) bool {
		if !known[m] {
			fail("subscriber %d received a message that was never dispatched", i)
			return false
		}
		if del[m] == nil {
			del[m] = make([]int, n)
		}
		del[m][i]++
		return true
	}
	for i, s := range subs {
		for _, m := range s.rec.take() {
			if !note(m, i) {
				return
			}
		}
		for s.ch != nil && len(s.ch) > 0 {
			if !note(<-s.ch, i) {
				return
			}
		}
	}
	regOK := make([][]c20Ival, n)
	unregOK := make([][]c20Ival, n)
	for _, list := range evs {
		for _, ev := range list {
			switch ev.op.Op {
			case "reg":
				if !c20ErrIn(ev.err, nil, p2p.ErrRegistered) {
					fail("Register returned %v", ev.err)
					return
				}
				if ev.err == nil {
					regOK[ev.op.Sub] = append(regOK[ev.op.Sub], c20Ival{ev.s, ev.e})
				}
			case "unreg":
				if !c20ErrIn(ev.err, nil, p2p.ErrNotRegister) {
					fail("UnRegister returned %v", ev.err)
					return
				}
				if ev.err == nil {
					unregOK[ev.op.Sub] = append(unregOK[ev.op.Sub], c20Ival{ev.s, ev.e})
				}
			default:
				if !c20ErrIn(ev.err, nil, p2p.ErrNotRegister) {
					fail("Dispatch returned %v", ev.err)
					return
				}
			}
		}
	}
	// upper bound of live registrations of subscriber i at logical time t: registrations whose call
	// had started minus unregistrations whose call had returned
	upper := func(i int, t int64) int {
		c := 0
		for _, r := range regOK[i] {
			if r.s <= t {
				c++
			}
		}
		for _, u := range unregOK[i] {
			if u.e <= t {
				c--
			}
		}
		return c
	}
	possiblyLive := func(i int, a, b int64) bool {
		if upper(i, a) >= 1 {
			return true
		}
		for _, r := range regOK[i] {
			if r.s > a && r.s <= b && upper(i, r.s) >= 1 {
				return true
			}
		}
		return false
	}
	// lower bound over the whole interval: registrations completed before a minus unregistrations
	// started before b
	definitelyLive := func(i int, a, b int64) bool {
		c := 0
		for _, r := range regOK[i] {
			if r.e < a {
				c++
			}
		}
		for _, u := range unregOK[i] {
			if u.s < b {
				c--
			}
		}
		return c >= 1
	}
	maxRegs := func(i int, a, b int64) int {
		c := 0
		for _, r := range regOK[i] {
			if r.s <= b {
				c++
			}
		}
		for _, u := range unregOK[i] {
			if u.e < a {
				c--
			}
		}
		return c
	}
	var disps []*c20Ev
	for gi, list := range evs {
		for oi, ev := range list {
			if ev.op.Op != "disp" {
				continue
			}
			disps = append(disps, ev)
			cnts := del[ev.msg]
			if cnts == nil {
				cnts = make([]int, n)
			}
			overlapped := false
			for i, s := range subs {
				matches := c20Match(s.spec, ev.op.Msg)
				if cnts[i] > 0 {
					o.Checked++
					if !matches {
						fail("goroutine %d op %d %s: delivered to subscriber %d %s which does not match", gi, oi, c20JSON(ev.op), i, c20JSON(s.spec))
						return
					}
					if !possiblyLive(i, ev.s, ev.e) {
						fail("goroutine %d op %d %s: delivered to subscriber %d although no registration of it was live between the start [%d] and end [%d] of the Dispatch (registrations %v, unregistrations %v)",
							gi, oi, c20JSON(ev.op), i, ev.s, ev.e, regOK[i], unregOK[i])
						return
					}
					if mr := maxRegs(i, ev.s, ev.e); cnts[i] > mr {
						fail("goroutine %d op %d %s: delivered %d times to subscriber %d (at most %d registrations were live during the Dispatch)", gi, oi, c20JSON(ev.op), cnts[i], i, mr)
						return
					}
				}
				if matches {
					for _, r := range append(append([]c20Ival{}, regOK[i]...), unregOK[i]...) {
						if r.s < ev.e && r.e > ev.s {
							overlapped = true
						}
					}
				}
				if matches && c20UniqueLogid(ev.op.Msg.Logid) && definitelyLive(i, ev.s, ev.e) {
					if s.ch != nil && ev.w1.Sub(ev.w0) >= 2*time.Second {
						continue // stalled process: the channel subscriber's 3 s guard may have fired
					}
					o.Stable++
					if cnts[i] != 1 {
						fail("goroutine %d op %d %s: subscriber %d was registered during the whole Dispatch [%d,%d] and matches but received the message %d times (registrations %v, unregistrations %v, Dispatch returned %v)",
							gi, oi, c20JSON(ev.op), i, ev.s, ev.e, cnts[i], regOK[i], unregOK[i], ev.err)
						return
					}
				}
			}
			if overlapped {
				o.Overlaps++
			}
		}
	}
	// a repeat that started after a handled dispatch of the same message had returned is dropped
	for _, d1 := range disps {
		if d1.err != nil || del[d1.msg] == nil {
			continue
		}
		for _, d2 := range disps {
			if d2 == d1 || d2.op.Msg.full() != d1.op.Msg.full() || d2.s < d1.e {
				continue
			}
			if c20Elapsed(d1.w0, d2.w1) < time.Second && del[d2.msg] != nil {
				fail("%s was dispatched again %v after a handled dispatch of it had returned and was delivered again", c20JSON(d2.op), d2.w1.Sub(d1.w0))
				return
			}
		}
	}
	// afterwards the dispatcher still works exactly: final registrations follow from the counts
	live := make([]bool, n)
	for i := range subs {
		c := len(regOK[i]) - len(unregOK[i])
		if c != 0 && c != 1 {
			fail("subscriber %d: %d successful Register and %d successful UnRegister calls", i, len(regOK[i]), len(unregOK[i]))
			return
		}
		live[i] = c == 1
	}
	seenType := map[int32]bool{}
	for _, sp := range p.Subs {
		if seenType[sp.Type] {
			continue
		}
		seenType[sp.Type] = true
		k := &c20MsgKey{Type: sp.Type, BC: "xuper", From: "peerA", Logid: fmt.Sprintf("final-%d", sp.Type), Payload: 1}
		msg := c20BuildMsg(k)
		t0 := time.Now()
		err := d.Dispatch(msg, stream)
		slow := time.Since(t0) >= 2*time.Second
		if !c20ErrIn(err, nil, p2p.ErrNotRegister) {
			fail("final Dispatch returned %v", err)
			return
		}
		for i, s := range subs {
			cnt := 0
			for _, m := range s.rec.take() {
				if m != msg {
					fail("final Dispatch: subscriber %d received a foreign message", i)
					return
				}
				cnt++
			}
			for s.ch != nil && len(s.ch) > 0 {
				if m := <-s.ch; m != msg {
					fail("final Dispatch: subscriber %d received a foreign message", i)
					return
				}
				cnt++
			}
			want := 0
			if live[i] && c20Match(s.spec, k) {
				want = 1
			}
			if cnt != want && !(slow && s.ch != nil && cnt == 0) {
				fail("after the concurrent phase: Dispatch of type %d delivered %d times to subscriber %d (registered=%v, matches=%v), want %d", sp.Type, cnt, i, live[i], c20Match(s.spec, k), want)
				return
			}
		}
	}
	for i, s := range subs {
		err := d.Register(s.sub)
		if live[i] && err != p2p.ErrRegistered {
			fail("after the concurrent phase: Register of the registered subscriber %d returned %v", i, err)
			return
		}
		if !live[i] && err != nil {
			fail("after the concurrent phase: Register of the unregistered subscriber %d returned %v", i, err)
			return
		}
	}
}

func c20GenConcProg(rt *rapid.T) *c20ConcProg {
	p := &c20ConcProg{Reps: 3}
	st, _ := c20GenTypes(rt)
	types := []int32{st[0], st[0], st[3]}
	ns := rapid.IntRange(1, 5).Draw(rt, "nsubs")
	for i := 0; i < ns; i++ {
		p.Subs = append(p.Subs, c20GenSub(rt, types))
	}
	ng := rapid.IntRange(2, 6).Draw(rt, "goroutines")
	for g := 0; g < ng; g++ {
		nops := rapid.IntRange(1, 20).Draw(rt, "nops")
		ops := []c20DOp{}
		for i := 0; i < nops; i++ {
			kind := rapid.IntRange(0, 99).Draw(rt, "kind")
			switch {
			case kind < 30:
				ops = append(ops, c20DOp{Op: "reg", Sub: rapid.IntRange(0, ns-1).Draw(rt, "sub")})
			case kind < 52:
				ops = append(ops, c20DOp{Op: "unreg", Sub: rapid.IntRange(0, ns-1).Draw(rt, "sub")})
			default:
				k := c20GenKey(rt, types)
				if rapid.IntRange(0, 99).Draw(rt, "shared-logid") < 15 {
					k.Logid = rapid.SampledFrom([]string{"R0", "R1"}).Draw(rt, "rlogid") // concurrent repeats
				} else {
					k.Logid = fmt.Sprintf("g%d-%d", g, i) // unique: never a repeat
				}
				ops = append(ops, c20DOp{Op: "disp", Msg: k})
			}
		}
		p.G = append(p.G, ops)
	}
	return p
}

// c20ConcNontrivial: some goroutine registers a subscriber of a type another goroutine dispatches.
func c20ConcNontrivial(p *c20ConcProg) bool {
	for g1, ops1 := range p.G {
		for _, a := range ops1 {
			if a.Op != "reg" {
				continue
			}
			for g2, ops2 := range p.G {
				if g2 == g1 {
					continue
				}
				for _, b := range ops2 {
					if b.Op == "disp" && b.Msg.Type == p.Subs[a.Sub].Type {
						return true
					}
				}
			}
		}
	}
	return false
}

func TestRaceC20(t *testing.T) {
	c := hx.NewCollector("C20", "exploration",
		"concurrent dispatcher: rapid-generated programs for 2-6 goroutines (Register / UnRegister / Dispatch over 1-5 shared recording subscribers, 15% of the dispatches share a logid) released by a barrier on one dispatcher, each program set run 3 times; every call is bracketed by a global atomic clock; a delivery is legal iff the subscriber matches and some registration of it may have been live during the Dispatch, a subscriber registered during the whole Dispatch must get a never-repeated message exactly once, and afterwards the dispatcher must dispatch exactly to the registrations that follow from the call results. Run from a -race binary: a race report or runtime fatal error is a violation. Non-trivial = Register and Dispatch of the same type on different goroutines, distinct = hash of the program set",
		"the Go race detector and runtime map checks are the oracle for memory safety; interleavings are those the Go scheduler produces")
	defer c.Flush(t)
	c20Ctx()
	c.Check(t, "concurrent", hx.N(600, 16000), func(cs *hx.Case) {
		p := c20GenConcProg(cs.RT())
		cs.Op(p)
		o := c20RunConc(p)
		if o.Viol != "" {
			cs.Failf("%s", o.Viol)
		}
		cs.Label("concurrent-program")
		if o.Overlaps > 0 {
			cs.Label("dispatch-overlapped-registration-change")
		}
		if o.Stable > 0 {
			cs.Label("exactly-once-demanded")
		}
		if c20ConcNontrivial(p) {
			cs.Label("register-and-dispatch-same-type-different-goroutines")
			cs.Nontrivial()
		}
	})
}

func c20ReplayConc(raw json.RawMessage, fs *hx.FindingSet) error {
	var progs []c20ConcProg
	if err := json.Unmarshal(raw, &progs); err != nil {
		return err
	}
	for i := range progs {
		for k := 0; k < 20; k++ { // interleavings vary: give the schedule several chances
			if o := c20RunConc(&progs[i]); o.Viol != "" {
				return fmt.Errorf("%s", o.Viol)
			}
		}
	}
	return nil
}

func init() { replayers["C20/concurrent"] = c20ReplayConc }
