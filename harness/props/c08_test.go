package props

// C08 - Block integrity: id, merkle root and proposer signature bind header and body.
//
// Generator: blocks formatted by a real ledger (FormatMinerBlock / FormatBlock / FormatRootBlock) from
// a plain JSON-able shape descriptor. Oracle: the unmutated block verifies; every single mutation of a
// hashed header field, of the body, or of the signature is refused by Ledger.VerifyBlock (or, for a
// transaction altered under an unchanged txid, by the per-transaction id check of every block play).
// Differential: merkle root against an independent implementation for 1..33 leaves.

import (
	"bytes"
	"encoding/hex"
	"encoding/json"
	"fmt"
	"hash/fnv"
	"io"
	"log"
	"math"
	"math/big"
	"os"
	"strings"
	"testing"

	"github.com/golang/protobuf/proto"
	"pgregory.net/rapid"

	ledgerpkg "github.com/xuperchain/xupercore/bcs/ledger/xledger/ledger"
	"github.com/xuperchain/xupercore/bcs/ledger/xledger/state/utxo/txhash"
	pb "github.com/xuperchain/xupercore/bcs/ledger/xledger/xldgpb"
	"github.com/xuperchain/xupercore/lib/crypto/hash"
	"github.com/xuperchain/xupercore/protos"

	"verifharness/hx"
)

// ---------------------------------------------------------------------------------------------
// descriptors (everything needed to rebuild block and mutant deterministically)

type c08Sign struct {
	A string `json:"a"` // Address
	P string `json:"p"` // PublicKey
	S string `json:"s"` // Sign (hex)
}

type c08QC struct {
	PID   string    `json:"pid"` // hex
	Msg   string    `json:"msg"` // hex
	Type  int32     `json:"type"`
	View  int64     `json:"view"`
	NilSI bool      `json:"nilsi,omitempty"` // SignInfos == nil (only meaningful without sign infos)
	Signs []c08Sign `json:"signs,omitempty"`
}

type c08Failed struct {
	K string `json:"k"`
	M string `json:"m"`
}

type c08Shape struct {
	Fmt       string      `json:"fmt"` // miner | block | root
	NTx       int         `json:"ntx"`
	TxTag     string      `json:"tag"`
	Award     bool        `json:"award,omitempty"` // first transaction is a coinbase award
	V3        bool        `json:"v3,omitempty"`    // odd-indexed transactions use tx version 3 (other txid hash)
	Key       int         `json:"key"`
	TS        int64       `json:"ts"`
	Term      int64       `json:"term"`
	Num       int64       `json:"num"`
	Pre       string      `json:"pre"` // hex prehash; "" = id of the ledger's root block
	Bits      int32       `json:"bits"`
	QC        *c08QC      `json:"qc,omitempty"`
	Failed    []c08Failed `json:"failed,omitempty"`
	NilFailed bool        `json:"nilfailed,omitempty"` // pass a nil failed-tx map
	Height    int64       `json:"height"`
	Salt      []int       `json:"salt"`          // parameters of the enumerated mutations (positions, bits)
	Ctl       bool        `json:"ctl,omitempty"` // also run the non-asserted (neutral / control) mutations
	// Cores > 0: the verifying node has that many cores (ledger.NumCPU, the width of the ledger's per-transaction
	// parallel loops); 0 = this machine's count
	Cores int `json:"cores,omitempty"`
	// Known: before the block and its mutants are judged, the verifying ledger has CONFIRMED the block's transactions in
	// a sibling block of another proposer (round-7 change C08-k: VerifyBlock skips the id check of transactions the
	// ledger already holds) - a block carrying a known transaction with an altered body must be refused all the same
	Known bool `json:"known,omitempty"`
}

// c08MachineCPU: this machine's value of ledger.NumCPU (restored when a shape does not choose one).
var c08MachineCPU = ledgerpkg.NumCPU

type c08Mut struct {
	K string `json:"k"`           // kind
	V string `json:"v,omitempty"` // variant
	I int    `json:"i,omitempty"`
	J int    `json:"j,omitempty"`
}

// expectation classes of a mutant
const (
	c08Reject  = iota // VerifyBlock must return false
	c08TxidLay        // content altered under unchanged txid: MakeTransactionID(tx) != tx.Txid must hold and VerifyBlock must refuse
	c08Neutral        // outside the statement: nothing asserted, result only labelled
)

type c08Meta struct {
	expect  int
	tx      int    // index of the altered transaction (c08TxidLay)
	finding string // classifier hit: id of the root cause this mutant is the trigger shape of
}

// C08-dup-tail-same-root: a body that appends copies of trailing transactions so that the self-pairing
// merkle tree yields the unchanged root; VerifyBlock never compares TxCount (hashed) with the body length.
const c08FDupTail = "C08-dup-tail-same-root"

// C08-offcurve-pubkey-panics: a Pubkey that parses as a P-256 key but is no curve point makes VerifyBlock
// panic in the address<->key binding (elliptic.Marshal) once id and merkle root match, instead of refusing.
const c08FOffCurve = "C08-offcurve-pubkey-panics"

// c08OffCurve: the pubkey bytes parse as a key of the supported curve, but (X,Y) is not a point of it.
func c08OffCurve(pub []byte) bool {
	k, err := hx.Crypt.GetEcdsaPublicKeyFromJsonStr(string(pub))
	if err != nil || k == nil {
		return false
	}
	if k.X == nil || k.Y == nil {
		return true
	}
	return !k.Curve.IsOnCurve(k.X, k.Y)
}

// c08Exclude: root causes whose trigger shape is dropped by the generator (set from the witness probes).
var c08Exclude = map[string]bool{}

// c08LO is the ledger shared by all evaluations of a TestC08 run (nil outside: evalC08 makes its own).
var c08LO *hx.LedgerOnly

// ---------------------------------------------------------------------------------------------
// independent merkle root: complete binary tree over the txids, a node without right sibling is paired
// with itself, double-SHA256 of the concatenation.

func c08Root(ids [][]byte) []byte {
	if len(ids) == 0 {
		return nil
	}
	lvl := ids
	for len(lvl) > 1 {
		var next [][]byte
		for i := 0; i < len(lvl); i += 2 {
			l, r := lvl[i], lvl[i]
			if i+1 < len(lvl) {
				r = lvl[i+1]
			}
			next = append(next, hash.DoubleSha256(append(append([]byte{}, l...), r...)))
		}
		lvl = next
	}
	return lvl[0]
}

func c08Ids(txs []*pb.Transaction) [][]byte {
	out := make([][]byte, len(txs))
	for i, t := range txs {
		out[i] = t.Txid
	}
	return out
}

func c08Pow2(n int) bool { return n > 0 && n&(n-1) == 0 }

// ---------------------------------------------------------------------------------------------
// building the base block

type c08Built struct {
	lo     *hx.LedgerOnly
	shape  c08Shape
	base   *pb.InternalBlock
	key    *hx.Key
	other  *hx.Key
	root   []byte // independent merkle root of the base transaction list
	shapeH string
}

func (s c08Shape) salt(k int) int {
	if len(s.Salt) == 0 {
		return k
	}
	v := s.Salt[k%len(s.Salt)]
	if v < 0 {
		v = -v
	}
	return v + k/len(s.Salt)
}

func c08Hex(s string) []byte {
	b, _ := hex.DecodeString(s)
	return b
}

func c08MakeQC(q *c08QC) *pb.QuorumCert {
	if q == nil {
		return nil
	}
	qc := &pb.QuorumCert{ProposalId: c08Hex(q.PID), ProposalMsg: c08Hex(q.Msg), Type: pb.QCState(q.Type), ViewNumber: q.View}
	if len(q.Signs) > 0 || !q.NilSI {
		qc.SignInfos = &pb.QCSignInfos{}
		for _, s := range q.Signs {
			qc.SignInfos.QCSignInfos = append(qc.SignInfos.QCSignInfos, &pb.SignInfo{Address: s.A, PublicKey: s.P, Sign: c08Hex(s.S)})
		}
	}
	return qc
}

func c08Txs(s c08Shape, key *hx.Key) []*pb.Transaction {
	txs := make([]*pb.Transaction, 0, s.NTx)
	for i := 0; i < s.NTx; i++ {
		var tx *pb.Transaction
		if i == 0 && s.Award {
			tx = hx.AwardTx(key.Address, big.NewInt(1000), s.TxTag+"-award", s.TS)
		} else {
			tx = hx.DummyTx(fmt.Sprintf("%s-%d", s.TxTag, i))
		}
		if s.V3 && i%2 == 1 {
			tx.Version = 3
			tx.Txid, _ = txhash.MakeTransactionID(tx)
		}
		txs = append(txs, tx)
	}
	return txs
}

func c08Build(lo *hx.LedgerOnly, s c08Shape) (*c08Built, error) {
	if s.Key < 0 || s.Key >= len(hx.Ring) || s.NTx < 0 {
		return nil, fmt.Errorf("bad shape %+v", s)
	}
	if s.Cores > 0 {
		ledgerpkg.NumCPU = s.Cores
	} else {
		ledgerpkg.NumCPU = c08MachineCPU
	}
	b := &c08Built{lo: lo, shape: s, key: hx.Ring[s.Key]}
	b.other = hx.Ring[(s.Key+1+s.salt(0)%(len(hx.Ring)-1))%len(hx.Ring)]
	txs := c08Txs(s, b.key)
	b.root = c08Root(c08Ids(txs))
	pre := c08Hex(s.Pre)
	if s.Pre == "" {
		pre = append([]byte{}, lo.Root.Blockid...)
	}
	var err error
	switch s.Fmt {
	case "root":
		b.base, err = lo.Ledger.FormatRootBlock(txs)
	case "block":
		b.base, err = lo.Ledger.FormatBlock(txs, []byte(b.key.Address), b.key.Priv, s.TS, s.Term, s.Num, pre, big.NewInt(0))
	case "miner":
		var failed map[string]string
		if !s.NilFailed || len(s.Failed) > 0 {
			failed = map[string]string{}
			for _, f := range s.Failed {
				failed[f.K] = f.M
			}
		}
		b.base, err = lo.Ledger.FormatMinerBlock(txs, []byte(b.key.Address), b.key.Priv, s.TS, s.Term, s.Num, pre,
			s.Bits, big.NewInt(0), c08MakeQC(s.QC), failed, s.Height)
	default:
		return nil, fmt.Errorf("bad fmt %q", s.Fmt)
	}
	if err != nil {
		return nil, fmt.Errorf("format: %v", err)
	}
	js, _ := json.Marshal(s)
	h := fnv.New64a()
	h.Write(js)
	b.shapeH = fmt.Sprintf("%016x", h.Sum64())
	return b, nil
}

// c08MakeKnown confirms the block's transactions in a sibling block (child of the ledger's root, other proposer) so that
// the verifying ledger already holds them. A refused confirmation (e.g. the same transactions are on the trunk
// already) is not an error: they are known then, too.
func c08MakeKnown(b *c08Built) {
	if !b.shape.Known || b.shape.Fmt == "root" || b.shape.NTx == 0 {
		return
	}
	txs := c08Txs(b.shape, b.key)
	sib, err := b.lo.Ledger.FormatBlock(txs, []byte(b.other.Address), b.other.Priv, b.shape.TS+7, 0, 0, b.lo.Root.Blockid, big.NewInt(0))
	if err != nil || b.lo.Ledger.ExistBlock(sib.Blockid) {
		return
	}
	b.lo.Ledger.ConfirmBlock(sib, false)
}

// c08Verify calls the real VerifyBlock; a panic is reported as an error.
func c08Verify(lo *hx.LedgerOnly, m *pb.InternalBlock) (ok bool, err error) {
	defer func() {
		if r := recover(); r != nil {
			ok, err = false, fmt.Errorf("VerifyBlock panicked: %v", r)
		}
	}()
	ok, _ = lo.Ledger.VerifyBlock(m, "")
	return ok, nil
}

// c08Layer names the first layer that refuses a block VerifyBlock has rejected, recomputed here from
// MakeBlockID / VerifyMerkle / the address<->key binding (not from logs).
func c08Layer(m *pb.InternalBlock) (layer string) {
	defer func() {
		if r := recover(); r != nil {
			layer = "binding"
		}
	}()
	id, err := ledgerpkg.MakeBlockID(m)
	if err != nil || !bytes.Equal(id, m.Blockid) {
		return "id"
	}
	if ledgerpkg.VerifyMerkle(m) != nil {
		return "merkle"
	}
	k, err := hx.Crypt.GetEcdsaPublicKeyFromJsonStr(string(m.Pubkey))
	if err != nil || k == nil || k.X == nil || k.Y == nil {
		return "binding"
	}
	if ok, _ := hx.Crypt.VerifyAddressUsingPublicKey(string(m.Proposer), k); !ok {
		return "binding"
	}
	return "signature"
}

// checkBase: oracle for the unmutated block. Returns labels.
func (b *c08Built) checkBase() ([]string, error) {
	s, blk := b.shape, b.base
	labels := []string{}
	id, err := ledgerpkg.MakeBlockID(blk)
	if err != nil {
		return nil, fmt.Errorf("MakeBlockID of the formatted block: %v", err)
	}
	if !bytes.Equal(id, blk.Blockid) {
		return nil, fmt.Errorf("formatted block: MakeBlockID=%x but Blockid=%x", id, blk.Blockid)
	}
	for i := 0; i < 3; i++ { // the id is a function of the header (failed-tx map iteration order must not leak)
		id2, _ := ledgerpkg.MakeBlockID(blk)
		if !bytes.Equal(id, id2) {
			return nil, fmt.Errorf("MakeBlockID is not deterministic: %x then %x", id, id2)
		}
	}
	if int(blk.TxCount) != s.NTx {
		return nil, fmt.Errorf("formatted block: TxCount=%d for %d transactions", blk.TxCount, s.NTx)
	}
	if s.NTx == 0 {
		// a real block always carries the award transaction; the statement only demands "passes only if"
		ok, err := c08Verify(b.lo, blk)
		if err != nil {
			return nil, err
		}
		if ok {
			labels = append(labels, "zero-tx:verifyblock-accepts")
		} else {
			labels = append(labels, "zero-tx:verifyblock-rejects")
		}
		return labels, nil
	}
	if err := ledgerpkg.VerifyMerkle(blk); err != nil {
		return nil, fmt.Errorf("formatted block: VerifyMerkle: %v", err)
	}
	if !bytes.Equal(blk.MerkleRoot, b.root) {
		return nil, fmt.Errorf("formatted block with %d txs: MerkleRoot=%x, independent root=%x", s.NTx, blk.MerkleRoot, b.root)
	}
	if s.Fmt == "root" {
		// the root block is confirmed without VerifyBlock (unsigned, no proposer): only id and merkle root
		labels = append(labels, "root-block:id+merkle")
		return labels, nil
	}
	ok, err := c08Verify(b.lo, blk)
	if err != nil {
		return nil, err
	}
	if !ok {
		return nil, fmt.Errorf("block formatted by the ledger is refused by VerifyBlock (layer %s)", c08Layer(blk))
	}
	// the block as a peer sees it (wire round trip) is the same block
	wire, err := proto.Marshal(blk)
	if err != nil {
		return nil, fmt.Errorf("marshal formatted block: %v", err)
	}
	rb := &pb.InternalBlock{}
	if err := proto.Unmarshal(wire, rb); err != nil {
		return nil, fmt.Errorf("unmarshal formatted block: %v", err)
	}
	ok, err = c08Verify(b.lo, rb)
	if err != nil {
		return nil, err
	}
	if !ok {
		return nil, fmt.Errorf("block formatted by the ledger is refused by VerifyBlock after a wire round trip (layer %s)", c08Layer(rb))
	}
	return labels, nil
}

// ---------------------------------------------------------------------------------------------
// mutations

func c08Flip(b []byte, bit int) []byte {
	c := append([]byte{}, b...)
	if len(c) == 0 {
		return c
	}
	if bit < 0 {
		bit = -bit
	}
	c[(bit/8)%len(c)] ^= 1 << uint(bit%8)
	return c
}

func c08AlterStr(s string) string {
	if s == "" {
		return "x"
	}
	c := []byte(s)
	if c[0] == 'a' {
		c[0] = 'b'
	} else {
		c[0] = 'a'
	}
	return string(c)
}

var c08HeaderVariants = []string{"stale", "reid", "reid+sig-other"}

// body-only: nothing else touched; reformat: tx count, carried tree, root and id recomputed (signature stale);
// tree-leaves: the carried MerkleTree gets the new txids as its leaves, inner nodes / root / id / signature untouched;
// tree-stale-root: the carried MerkleTree (and TxCount) rebuilt for the new body but its last node and the header
// root keep the old root - both must be rejected: the header root is not the root of the body
var c08BodyVariants = []string{"body-only", "reformat", "reformat+sig-other", "tree-leaves", "tree-stale-root"}

// mutations enumerates the candidate mutation list of the block (apply reports the inapplicable ones).
func (b *c08Built) mutations() []c08Mut {
	s := b.shape
	n := s.NTx
	var out []c08Mut
	hdr := func(k string, i, j int) {
		for _, v := range c08HeaderVariants {
			out = append(out, c08Mut{K: k, V: v, I: i, J: j})
		}
	}
	body := func(k string, i, j int) {
		for _, v := range c08BodyVariants {
			out = append(out, c08Mut{K: k, V: v, I: i, J: j})
		}
	}
	for _, k := range []string{"version:+1", "version:hi", "nonce:+1", "nonce:hi", "txcount:+1", "txcount:-1",
		"proposer:other", "proposer:trunc", "proposer:nil", "timestamp:+1", "timestamp:-1", "timestamp:hi",
		"pubkey:other", "pubkey:case", "pubkey:space", "pubkey:offcurve", "prehash:trunc", "prehash:nil",
		"term:+1", "term:hi", "num:+1", "num:hi", "bits:change", "bits:zero", "failed:add",
		"qc:nil", "qc:new", "qc:pid:append", "qc:pid:nil", "qc:msg:append", "qc:msg:nil", "qc:type", "qc:view"} {
		hdr(k, 0, 0)
	}
	hdr("proposer:flip", s.salt(1), 0)
	hdr("pubkey:flip", s.salt(2), 0)
	hdr("prehash:flip", s.salt(3), 0)
	hdr("merkleroot:flip", s.salt(4), 0)
	hdr("bits:set", 1+s.salt(5)%31, 0)
	hdr("qc:pid:flip", s.salt(6), 0)
	hdr("qc:msg:flip", s.salt(7), 0)
	if nf := len(s.Failed); nf > 0 {
		hdr("failed:change", s.salt(8)%nf, s.salt(9)%3)
		hdr("failed:drop", s.salt(10)%nf, 0)
	}
	if s.QC != nil {
		ns := len(s.QC.Signs)
		hdr("qc:sign-add", s.salt(11)%(ns+1), 0)
		if ns > 0 {
			i := s.salt(12) % ns
			hdr("qc:sign-addr", i, 0)
			hdr("qc:sign-pub", i, 0)
			hdr("qc:sign-sig", i, s.salt(13))
			hdr("qc:sign-drop", i, 0)
		}
		if ns > 1 {
			i := s.salt(14) % (ns - 1)
			hdr("qc:sign-swap", i, i+1+s.salt(15)%(ns-1-i))
		}
	}
	// body
	body("body:add", 0, 0)
	if n > 0 {
		body("body:add", n, 0)
	}
	if n > 1 {
		body("body:add", 1+s.salt(16)%(n-1), 0)
	}
	if n > 0 {
		seen := map[int]bool{}
		for _, p := range []int{0, n - 1, s.salt(17) % n} {
			if !seen[p] {
				seen[p] = true
				body("body:drop", p, 0)
			}
		}
		body("body:dup", s.salt(18)%n, s.salt(19)%(n+1))
		for _, k := range []int{1, 2, 3, 4} {
			if k <= n {
				body("body:dup-tail", k, 0)
			}
		}
		i := s.salt(20) % n
		body("body:replace", i, 0)
		body("tx:txid-flip", i, s.salt(21))
		body("tx:txid-nil", s.salt(22)%n, 0)
		for fi, f := range []string{"desc", "nonce", "ts", "coinbase", "amount"} {
			ti := s.salt(23+fi) % n
			if f == "amount" {
				ti = 0
			}
			body("tx:alter-reid:"+f, ti, s.salt(28))
			out = append(out, c08Mut{K: "tx:alter-keepid:" + f, I: ti, J: s.salt(28)})
		}
		// a body altered under its own id at EVERY position (the id check must reach each transaction, the last included)
		for ti := 0; ti < n; ti++ {
			out = append(out, c08Mut{K: "tx:alter-keepid:desc", I: ti, J: s.salt(28) + 1})
		}
	}
	if n > 1 {
		i := s.salt(29) % (n - 1)
		body("body:swap", i, i+1)
		if n > 2 {
			body("body:swap", 0, n-1)
			body("body:rotate", 0, 0)
		}
	}
	// signature and id
	for _, k := range []string{"sig:empty", "sig:trunc", "sig:zero", "sig:other-key", "sig:wrong-digest", "blockid:trunc", "blockid:nil"} {
		out = append(out, c08Mut{K: k})
	}
	out = append(out, c08Mut{K: "sig:flip", I: s.salt(30)}, c08Mut{K: "blockid:flip", I: s.salt(31)})
	for _, v := range []string{"stale", "reid"} {
		out = append(out, c08Mut{K: "sig:other-key+pubkey", V: v}, c08Mut{K: "sig:other-key+proposer", V: v})
	}
	out = append(out, c08Mut{K: "sig:other-key+pubkey+proposer", V: "stale"})
	if s.Ctl {
		for _, k := range []string{"neutral:height", "neutral:merkletree-drop", "neutral:merkletree-flip", "neutral:intrunk",
			"neutral:nexthash", "neutral:failed-key", "neutral:failed-nil-empty", "neutral:tx-blockid", "neutral:bits-negative",
			"neutral:sig-trailing", "control:legit-resign", "control:other-proposer-consistent"} {
			out = append(out, c08Mut{K: k, I: s.salt(32)})
		}
	}
	return out
}

// mutHeader applies a single header-field mutation; false = not applicable to this block.
func (b *c08Built) mutHeader(m *pb.InternalBlock, mu c08Mut) bool {
	qc := m.Justify
	signs := func() []*pb.SignInfo {
		if qc == nil || qc.SignInfos == nil {
			return nil
		}
		return qc.SignInfos.QCSignInfos
	}
	switch mu.K {
	case "version:+1":
		m.Version++
	case "version:hi":
		m.Version ^= 1 << 30
	case "nonce:+1":
		m.Nonce++
	case "nonce:hi":
		m.Nonce ^= 1 << 30
	case "txcount:+1":
		m.TxCount++
	case "txcount:-1":
		m.TxCount--
	case "proposer:other":
		m.Proposer = []byte(b.other.Address)
	case "proposer:flip":
		m.Proposer = c08Flip(m.Proposer, mu.I)
	case "proposer:trunc":
		m.Proposer = m.Proposer[:len(m.Proposer)-1]
	case "proposer:nil":
		m.Proposer = nil
	case "timestamp:+1":
		m.Timestamp++
	case "timestamp:-1":
		m.Timestamp--
	case "timestamp:hi":
		m.Timestamp ^= 1 << 62
	case "pubkey:other":
		m.Pubkey = []byte(b.other.PubJSON)
	case "pubkey:flip":
		m.Pubkey = c08Flip(m.Pubkey, mu.I)
	case "pubkey:case": // encoding/json matches field names case-insensitively: same key, other bytes
		i := bytes.Index(m.Pubkey, []byte(`"X"`))
		if i < 0 {
			return false
		}
		m.Pubkey = append([]byte{}, m.Pubkey...)
		m.Pubkey[i+1] = 'x'
	case "pubkey:space":
		m.Pubkey = append(append([]byte{}, m.Pubkey...), ' ')
	case "pubkey:offcurve": // X+1 with the same Y: well-formed key JSON, not a point of the curve
		pk := &b.key.Priv.PublicKey
		m.Pubkey = []byte(fmt.Sprintf(`{"Curvname":"P-256","X":%s,"Y":%s}`, new(big.Int).Add(pk.X, big.NewInt(1)).String(), pk.Y.String()))
	case "prehash:flip":
		m.PreHash = c08Flip(m.PreHash, mu.I)
	case "prehash:trunc":
		m.PreHash = m.PreHash[:len(m.PreHash)-1]
	case "prehash:nil":
		m.PreHash = nil
	case "merkleroot:flip":
		if len(m.MerkleRoot) == 0 {
			return false
		}
		m.MerkleRoot = c08Flip(m.MerkleRoot, mu.I)
	case "term:+1":
		m.CurTerm++
	case "term:hi":
		m.CurTerm ^= 1 << 61
	case "num:+1":
		m.CurBlockNum++
	case "num:hi":
		m.CurBlockNum ^= 1 << 61
	case "bits:change": // between two positive values
		if m.TargetBits <= 0 {
			return false
		}
		if m.TargetBits == math.MaxInt32 {
			m.TargetBits--
		} else {
			m.TargetBits++
		}
	case "bits:zero":
		if m.TargetBits <= 0 {
			return false
		}
		m.TargetBits = 0
	case "bits:set":
		if m.TargetBits != 0 || mu.I <= 0 {
			return false
		}
		m.TargetBits = int32(mu.I)
	case "failed:add":
		if m.FailedTxs == nil {
			m.FailedTxs = map[string]string{}
		}
		if _, dup := m.FailedTxs["zz-added"]; dup {
			return false
		}
		m.FailedTxs["zz-added"] = "boom"
	case "failed:change", "failed:drop":
		if mu.I >= len(b.shape.Failed) {
			return false
		}
		k := b.shape.Failed[mu.I].K
		msg, ok := m.FailedTxs[k]
		if !ok || msg == "" {
			return false
		}
		if mu.K == "failed:drop" {
			delete(m.FailedTxs, k)
			break
		}
		switch {
		case mu.J == 1:
			m.FailedTxs[k] = c08AlterStr(msg)
		case mu.J == 2 && len(msg) > 1:
			m.FailedTxs[k] = msg[:len(msg)-1]
		default:
			m.FailedTxs[k] = msg + "!"
		}
	case "qc:nil":
		if qc == nil {
			return false
		}
		m.Justify = nil
	case "qc:new":
		if qc != nil {
			return false
		}
		m.Justify = &pb.QuorumCert{ProposalId: []byte("p"), ViewNumber: 1}
	case "qc:pid:append", "qc:pid:nil", "qc:pid:flip", "qc:msg:append", "qc:msg:nil", "qc:msg:flip":
		if qc == nil {
			return false
		}
		f := &qc.ProposalId
		if mu.K[3] == 'm' {
			f = &qc.ProposalMsg
		}
		switch mu.K[7:] {
		case "append":
			*f = append(append([]byte{}, *f...), 0x01)
		case "nil":
			if len(*f) == 0 {
				return false
			}
			*f = nil
		case "flip":
			if len(*f) == 0 {
				return false
			}
			*f = c08Flip(*f, mu.I)
		}
	case "qc:type":
		if qc == nil {
			return false
		}
		qc.Type = (qc.Type + 1) % 4
	case "qc:view":
		if qc == nil {
			return false
		}
		qc.ViewNumber++
	case "qc:sign-add":
		if qc == nil {
			return false
		}
		ss := signs()
		if mu.I > len(ss) {
			return false
		}
		ns := &pb.SignInfo{Address: b.other.Address, PublicKey: "pk", Sign: []byte{7}}
		ss = append(ss[:mu.I:mu.I], append([]*pb.SignInfo{ns}, ss[mu.I:]...)...)
		if qc.SignInfos == nil {
			qc.SignInfos = &pb.QCSignInfos{}
		}
		qc.SignInfos.QCSignInfos = ss
	case "qc:sign-addr", "qc:sign-pub", "qc:sign-sig", "qc:sign-drop":
		ss := signs()
		if mu.I >= len(ss) {
			return false
		}
		si := ss[mu.I]
		switch mu.K {
		case "qc:sign-addr":
			si.Address = c08AlterStr(si.Address)
		case "qc:sign-pub":
			si.PublicKey = c08AlterStr(si.PublicKey)
		case "qc:sign-sig":
			if len(si.Sign) == 0 {
				return false
			}
			si.Sign = c08Flip(si.Sign, mu.J)
		case "qc:sign-drop":
			if len(si.Address)+len(si.PublicKey)+len(si.Sign) == 0 {
				return false // contributes no hashed byte
			}
			qc.SignInfos.QCSignInfos = append(ss[:mu.I:mu.I], ss[mu.I+1:]...)
		}
	case "qc:sign-swap":
		ss := signs()
		if mu.I >= mu.J || mu.J >= len(ss) {
			return false
		}
		enc := func(lst []*pb.SignInfo) string {
			o := ""
			for _, s := range lst {
				o += s.Address + s.PublicKey + string(s.Sign)
			}
			return o
		}
		before := enc(ss)
		ss[mu.I], ss[mu.J] = ss[mu.J], ss[mu.I]
		if enc(ss) == before {
			return false // the id concatenates without separators: identical hashed bytes
		}
	default:
		return false
	}
	return true
}

func c08AlterTx(tx *pb.Transaction, field string, p int) bool {
	switch field {
	case "desc":
		if len(tx.Desc) == 0 {
			return false
		}
		tx.Desc = c08Flip(tx.Desc, p)
	case "nonce":
		tx.Nonce = c08AlterStr(tx.Nonce)
	case "ts":
		tx.Timestamp++
	case "coinbase":
		tx.Coinbase = !tx.Coinbase
	case "amount":
		if len(tx.TxOutputs) == 0 {
			return false
		}
		tx.TxOutputs = append([]*protos.TxOutput{}, tx.TxOutputs...)
		o := proto.Clone(tx.TxOutputs[0]).(*protos.TxOutput)
		o.Amount = new(big.Int).Add(new(big.Int).SetBytes(o.Amount), big.NewInt(1)).Bytes()
		tx.TxOutputs[0] = o
	default:
		return false
	}
	return true
}

// apply builds the mutant of the base block; ok=false when the mutation does not apply to this block.
func (b *c08Built) apply(mu c08Mut) (m *pb.InternalBlock, meta c08Meta, ok bool) {
	m = proto.Clone(b.base).(*pb.InternalBlock)
	n := len(m.Transactions)
	reid := func() { m.Blockid, _ = ledgerpkg.MakeBlockID(m) }
	sigOther := func() { m.Sign = hx.DetSign(b.other.Priv, m.Blockid) }
	kind := mu.K
	switch {
	case len(kind) > 8 && kind[:8] == "neutral:":
		meta.expect = c08Neutral
		switch kind {
		case "neutral:height":
			m.Height++
		case "neutral:merkletree-drop":
			m.MerkleTree = nil
		case "neutral:merkletree-flip":
			if len(m.MerkleTree) < 2 {
				return nil, meta, false
			}
			m.MerkleTree[0] = c08Flip(m.MerkleTree[0], mu.I)
		case "neutral:intrunk":
			m.InTrunk = !m.InTrunk
		case "neutral:nexthash":
			m.NextHash = []byte("next")
		case "neutral:failed-key":
			if len(b.shape.Failed) == 0 {
				return nil, meta, false
			}
			k := b.shape.Failed[0].K
			v := m.FailedTxs[k]
			delete(m.FailedTxs, k)
			m.FailedTxs[k+"-renamed"] = v
		case "neutral:failed-nil-empty":
			if len(m.FailedTxs) != 0 {
				return nil, meta, false
			}
			if m.FailedTxs == nil {
				m.FailedTxs = map[string]string{}
			} else {
				m.FailedTxs = nil
			}
		case "neutral:tx-blockid":
			if n == 0 {
				return nil, meta, false
			}
			m.Transactions[mu.I%n].Blockid = []byte("elsewhere")
		case "neutral:bits-negative":
			if m.TargetBits != 0 {
				return nil, meta, false
			}
			m.TargetBits = -5
		case "neutral:sig-trailing":
			m.Sign = append(append([]byte{}, m.Sign...), 0)
		default:
			return nil, meta, false
		}
		return m, meta, true
	case kind == "control:legit-resign": // what the stated proposer himself would publish: not an attack
		meta.expect = c08Neutral
		m.CurTerm++
		reid()
		m.Sign = hx.DetSign(b.key.Priv, m.Blockid)
		return m, meta, true
	case kind == "control:other-proposer-consistent": // a different valid block by another proposer
		meta.expect = c08Neutral
		m.Pubkey = []byte(b.other.PubJSON)
		m.Proposer = []byte(b.other.Address)
		reid()
		sigOther()
		return m, meta, true
	case len(kind) > 5 && (kind[:5] == "body:" || kind[:3] == "tx:"):
		txs := m.Transactions
		switch {
		case kind == "body:add":
			if mu.I > n {
				return nil, meta, false
			}
			nt := hx.DummyTx(b.shape.TxTag + "-added")
			txs = append(txs[:mu.I:mu.I], append([]*pb.Transaction{nt}, txs[mu.I:]...)...)
		case kind == "body:drop":
			if mu.I >= n {
				return nil, meta, false
			}
			txs = append(txs[:mu.I:mu.I], txs[mu.I+1:]...)
		case kind == "body:dup":
			if mu.I >= n || mu.J > n {
				return nil, meta, false
			}
			cp := hx.CloneTx(txs[mu.I])
			txs = append(txs[:mu.J:mu.J], append([]*pb.Transaction{cp}, txs[mu.J:]...)...)
		case kind == "body:dup-tail":
			if mu.I < 1 || mu.I > n {
				return nil, meta, false
			}
			txs = append(txs[:n:n], hx.CloneTxs(txs[n-mu.I:])...)
		case kind == "body:swap":
			if mu.I >= mu.J || mu.J >= n {
				return nil, meta, false
			}
			txs[mu.I], txs[mu.J] = txs[mu.J], txs[mu.I]
		case kind == "body:rotate":
			if n < 3 {
				return nil, meta, false
			}
			txs = append(txs[1:n:n], txs[0])
		case kind == "body:replace":
			if mu.I >= n {
				return nil, meta, false
			}
			txs[mu.I] = hx.DummyTx(b.shape.TxTag + "-replacement")
		case kind == "tx:txid-flip":
			if mu.I >= n {
				return nil, meta, false
			}
			txs[mu.I].Txid = c08Flip(txs[mu.I].Txid, mu.J)
		case kind == "tx:txid-nil":
			if mu.I >= n {
				return nil, meta, false
			}
			txs[mu.I].Txid = nil
		case len(kind) > 14 && kind[:14] == "tx:alter-reid:":
			if mu.I >= n || !c08AlterTx(txs[mu.I], kind[14:], mu.J) {
				return nil, meta, false
			}
			txs[mu.I].Txid, _ = txhash.MakeTransactionID(txs[mu.I])
		case len(kind) > 16 && kind[:16] == "tx:alter-keepid:":
			if mu.I >= n || !c08AlterTx(txs[mu.I], kind[16:], mu.J) {
				return nil, meta, false
			}
			meta.expect, meta.tx = c08TxidLay, mu.I
			m.Transactions = txs
			return m, meta, true
		default:
			return nil, meta, false
		}
		m.Transactions = txs
		switch mu.V {
		case "body-only":
			if len(txs) > n && bytes.Equal(c08Root(c08Ids(txs)), b.root) {
				// only copies were added and the specified tree construction cannot tell the lists apart
				meta.finding = c08FDupTail
			}
		case "tree-leaves":
			if len(txs) != n || len(m.MerkleTree) < n {
				return nil, meta, false
			}
			tree := make([][]byte, len(m.MerkleTree))
			copy(tree, m.MerkleTree)
			for i, id := range c08Ids(txs) {
				tree[i] = id
			}
			m.MerkleTree = tree
			if bytes.Equal(c08Root(c08Ids(txs)), b.root) {
				return nil, meta, false // the body still hashes to the header root
			}
		case "tree-stale-root":
			if len(txs) == 0 || len(b.root) == 0 || bytes.Equal(c08Root(c08Ids(txs)), b.root) {
				return nil, meta, false
			}
			m.TxCount = int32(len(txs))
			tree := ledgerpkg.MakeMerkleTree(txs)
			if len(tree) == 0 {
				return nil, meta, false
			}
			tree[len(tree)-1] = append([]byte{}, b.root...)
			m.MerkleTree = tree
		case "reformat", "reformat+sig-other":
			m.TxCount = int32(len(txs))
			m.MerkleTree = ledgerpkg.MakeMerkleTree(txs)
			m.MerkleRoot = nil
			if len(m.MerkleTree) > 0 {
				m.MerkleRoot = m.MerkleTree[len(m.MerkleTree)-1]
			}
			reid()
			if mu.V == "reformat+sig-other" {
				sigOther()
			}
		default:
			return nil, meta, false
		}
		return m, meta, true
	case len(kind) > 4 && kind[:4] == "sig:":
		switch kind {
		case "sig:flip":
			if len(m.Sign) == 0 {
				return nil, meta, false
			}
			m.Sign = c08Flip(m.Sign, mu.I)
		case "sig:empty":
			m.Sign = nil
		case "sig:trunc":
			m.Sign = m.Sign[:len(m.Sign)-1]
		case "sig:zero":
			m.Sign = []byte{0x30, 0x06, 0x02, 0x01, 0x00, 0x02, 0x01, 0x00}
		case "sig:other-key":
			sigOther()
		case "sig:wrong-digest": // a signature of the stated proposer, but over another id
			m.Sign = hx.DetSign(b.key.Priv, c08Flip(m.Blockid, 0))
		case "sig:other-key+pubkey":
			m.Pubkey = []byte(b.other.PubJSON)
			if mu.V == "reid" {
				reid()
			}
			sigOther()
		case "sig:other-key+proposer":
			m.Proposer = []byte(b.other.Address)
			if mu.V == "reid" {
				reid()
			}
			sigOther()
		case "sig:other-key+pubkey+proposer":
			if mu.V != "stale" {
				return nil, meta, false // with a recomputed id this is a valid block of another proposer
			}
			m.Pubkey = []byte(b.other.PubJSON)
			m.Proposer = []byte(b.other.Address)
			sigOther()
		default:
			return nil, meta, false
		}
		return m, meta, true
	case kind == "blockid:flip":
		m.Blockid = c08Flip(m.Blockid, mu.I)
		return m, meta, true
	case kind == "blockid:trunc":
		m.Blockid = m.Blockid[:len(m.Blockid)-1]
		return m, meta, true
	case kind == "blockid:nil":
		m.Blockid = nil
		return m, meta, true
	}
	// header field
	if !b.mutHeader(m, mu) {
		return nil, meta, false
	}
	switch mu.V {
	case "stale":
	case "reid":
		reid()
	case "reid+sig-other":
		reid()
		sigOther()
	default:
		return nil, meta, false
	}
	if mu.V != "stale" && len(kind) > 7 && kind[:7] == "pubkey:" && c08OffCurve(m.Pubkey) {
		meta.finding = c08FOffCurve // id and merkle root match: the binding step is reached with a non-point
	}
	return m, meta, true
}

// judge runs the oracle on a mutant; layer is the label of the refusing layer.
func (b *c08Built) judge(mu c08Mut, m *pb.InternalBlock, meta c08Meta) (layer string, err error) {
	ok, perr := c08Verify(b.lo, m)
	if perr != nil {
		return "", fmt.Errorf("mutation %+v: %v", mu, perr)
	}
	switch meta.expect {
	case c08Neutral:
		if ok {
			return "not-asserted:accepted", nil
		}
		return "not-asserted:rejected", nil
	case c08TxidLay:
		tx := m.Transactions[meta.tx]
		id, terr := txhash.MakeTransactionID(tx)
		if terr == nil && bytes.Equal(id, tx.Txid) {
			return "", fmt.Errorf("mutation %+v: transaction %d altered but MakeTransactionID still equals its txid %x (VerifyBlock=%v)", mu, meta.tx, tx.Txid, ok)
		}
		if ok && tx.GetVersion() > 0 {
			// since fix 52dadae VerifyBlock recomputes every transaction id: the body is bound to the header through the
			// ids, and an altered body under a genuine id must be refused at ANY position (only the version-0 root
			// transaction of a genesis block has no content hash)
			return "", fmt.Errorf("VerifyBlock accepts the mutant %+v of a %s block with %d txs judged with %d cores: transaction %d was altered under its unchanged txid %x",
				mu, b.shape.Fmt, b.shape.NTx, ledgerpkg.NumCPU, meta.tx, tx.Txid)
		}
		if ok {
			return "txid", nil
		}
		return "txid+" + c08Layer(m), nil
	}
	if ok {
		id, _ := ledgerpkg.MakeBlockID(m)
		return "", fmt.Errorf("VerifyBlock accepts the mutant %+v of a %s block with %d txs (proposer ring[%d]): id matches header=%v, "+
			"VerifyMerkle=%v, TxCount=%d, len(Transactions)=%d, independent root equals header root=%v",
			mu, b.shape.Fmt, b.shape.NTx, b.shape.Key, bytes.Equal(id, m.Blockid), ledgerpkg.VerifyMerkle(m), m.TxCount,
			len(m.Transactions), bytes.Equal(c08Root(c08Ids(m.Transactions)), m.MerkleRoot))
	}
	return c08Layer(m), nil
}

// evalOne = apply + judge without exclusions (ok=false: mutation not applicable).
func (b *c08Built) evalOne(mu c08Mut) (layer string, meta c08Meta, ok bool, err error) {
	m, meta, ok := b.apply(mu)
	if !ok {
		return "", meta, false, nil
	}
	layer, err = b.judge(mu, m, meta)
	return layer, meta, true, err
}

func c08WithLedger(f func(lo *hx.LedgerOnly) error) error {
	if c08LO != nil {
		return f(c08LO)
	}
	lo, err := hx.NewLedgerOnly(hx.DefaultOpts())
	if err != nil {
		return fmt.Errorf("setup ledger: %v", err)
	}
	defer lo.Destroy()
	return f(lo)
}

// evalC08Split rebuilds the block of shape, checks the unmutated block (baseErr) and evaluates one
// mutation (mutErr; not evaluated when the base oracle already fails).
func evalC08Split(shape c08Shape, mut c08Mut) (baseErr, mutErr error) {
	baseErr = c08WithLedger(func(lo *hx.LedgerOnly) error {
		b, err := c08Build(lo, shape)
		if err != nil {
			return err
		}
		if _, err := b.checkBase(); err != nil {
			return err
		}
		if shape.NTx == 0 || shape.Fmt == "root" {
			return nil
		}
		c08MakeKnown(b)
		_, _, _, mutErr = b.evalOne(mut)
		return nil
	})
	return baseErr, mutErr
}

// evalC08: the oracle for one (block shape, mutation) pair.
func evalC08(shape c08Shape, mut c08Mut) error {
	berr, merr := evalC08Split(shape, mut)
	if berr != nil {
		return berr
	}
	return merr
}

// evalC08All: base oracle plus the whole enumerated mutation list (generator exclusions honoured).
func evalC08All(shape c08Shape) error {
	return c08WithLedger(func(lo *hx.LedgerOnly) error {
		b, err := c08Build(lo, shape)
		if err != nil {
			return err
		}
		if _, err := b.checkBase(); err != nil {
			return err
		}
		if shape.NTx == 0 || shape.Fmt == "root" {
			return nil
		}
		c08MakeKnown(b)
		for _, mu := range b.mutations() {
			m, meta, ok := b.apply(mu)
			if !ok || (meta.finding != "" && c08Exclude[meta.finding]) {
				continue
			}
			if _, err := b.judge(mu, m, meta); err != nil {
				return err
			}
		}
		return nil
	})
}

// c08Diff: merkle differential for one transaction count.
type c08DiffCase struct {
	N   int    `json:"n"`
	Tag string `json:"tag"`
	V3  bool   `json:"v3,omitempty"`
}

func evalC08Diff(d c08DiffCase) error {
	txs := c08Txs(c08Shape{NTx: d.N, TxTag: d.Tag, V3: d.V3}, hx.Ring[0])
	tree := ledgerpkg.MakeMerkleTree(txs)
	if len(tree) == 0 {
		return fmt.Errorf("MakeMerkleTree of %d transactions is empty", d.N)
	}
	want := c08Root(c08Ids(txs))
	if got := tree[len(tree)-1]; !bytes.Equal(got, want) {
		return fmt.Errorf("merkle root of %d transactions: MakeMerkleTree=%x, independent self-pairing tree=%x", d.N, got, want)
	}
	for i, tx := range txs {
		if !bytes.Equal(tree[i], tx.Txid) {
			return fmt.Errorf("merkle tree of %d transactions: leaf %d is %x, txid %x", d.N, i, tree[i], tx.Txid)
		}
	}
	// the block carries the tree of its body (its leaves were compared with the txids above), its root is the INDEPENDENT one
	blk := &pb.InternalBlock{Transactions: txs, MerkleRoot: want, MerkleTree: tree}
	if err := ledgerpkg.VerifyMerkle(blk); err != nil {
		return fmt.Errorf("VerifyMerkle refuses the independent root of %d transactions: %v", d.N, err)
	}
	blk.MerkleRoot = c08Flip(want, d.N)
	if err := ledgerpkg.VerifyMerkle(blk); err == nil {
		return fmt.Errorf("VerifyMerkle accepts a wrong root for %d transactions", d.N)
	}
	return nil
}

func init() {
	replayers["C08/block-mutations"] = func(raw json.RawMessage, fs *hx.FindingSet) error {
		var items []json.RawMessage
		if err := json.Unmarshal(raw, &items); err != nil {
			return err
		}
		if len(items) == 0 {
			return fmt.Errorf("empty C08 trace")
		}
		var shape c08Shape
		if err := json.Unmarshal(items[0], &shape); err != nil {
			return err
		}
		if len(items) == 1 {
			return evalC08All(shape)
		}
		var mut c08Mut
		if err := json.Unmarshal(items[1], &mut); err != nil {
			return err
		}
		return evalC08(shape, mut)
	}
	// replay files written by witnessVerdict carry the test name "witness-<id>" and the same trace shape
	for _, id := range []string{c08FDupTail, c08FOffCurve} {
		replayers["C08/witness-"+id] = replayers["C08/block-mutations"]
	}
	replayers["C08/merkle-differential"] = func(raw json.RawMessage, fs *hx.FindingSet) error {
		var items []c08DiffCase
		if err := json.Unmarshal(raw, &items); err != nil {
			return err
		}
		for _, d := range items {
			if err := evalC08Diff(d); err != nil {
				return err
			}
		}
		return nil
	}
}

// ---------------------------------------------------------------------------------------------
// generator

func c08GenBytesHex(rt *rapid.T, min, max int, name string) string {
	return hex.EncodeToString(rapid.SliceOfN(rapid.Byte(), min, max).Draw(rt, name))
}

func c08GenQC(rt *rapid.T) *c08QC {
	q := &c08QC{}
	q.PID = c08GenBytesHex(rt, 0, 32, "qc-pid")
	q.Msg = c08GenBytesHex(rt, 0, 16, "qc-msg")
	q.Type = int32(rapid.IntRange(0, 3).Draw(rt, "qc-type"))
	if rapid.Bool().Draw(rt, "qc-view-big") {
		q.View = rapid.Int64Range(0, 1<<40).Draw(rt, "qc-view")
	} else {
		q.View = rapid.Int64Range(0, 5).Draw(rt, "qc-view")
	}
	ns := rapid.IntRange(0, 4).Draw(rt, "qc-nsigns")
	if ns == 0 {
		q.NilSI = rapid.Bool().Draw(rt, "qc-nilsi")
	}
	for i := 0; i < ns; i++ {
		k := hx.Ring[rapid.IntRange(0, len(hx.Ring)-1).Draw(rt, "qc-signer")]
		si := c08Sign{A: k.Address, P: k.PubJSON, S: c08GenBytesHex(rt, 1, 72, "qc-sig")}
		switch rapid.IntRange(0, 9).Draw(rt, "qc-sign-kind") {
		case 0:
			si.A = ""
		case 1:
			si.P = ""
		case 2:
			si.A, si.P = "a", "aa"
		case 3:
			si.A, si.P = "aa", "a"
		}
		q.Signs = append(q.Signs, si)
	}
	return q
}

func c08GenShape(rt *rapid.T) c08Shape {
	s := c08Shape{}
	k := rapid.IntRange(0, 39).Draw(rt, "fmt")
	switch {
	case k < 28:
		s.Fmt = "miner"
	case k < 38:
		s.Fmt = "block"
	default:
		s.Fmt = "root"
	}
	nt := rapid.IntRange(0, 45).Draw(rt, "ntx")
	if nt > 0 {
		s.NTx = 1 + (nt-1)%9
	}
	s.TxTag = fmt.Sprintf("t%d", rapid.IntRange(0, 9999).Draw(rt, "tag"))
	s.V3 = rapid.IntRange(0, 3).Draw(rt, "v3") == 0
	// half of the blocks are judged by a node with fewer cores than this machine (bodies longer than the core count,
	// and not a multiple of it, exercise the chunking of the ledger's parallel per-transaction loops)
	s.Cores = rapid.SampledFrom([]int{0, 0, 0, 1, 2, 3, 4}).Draw(rt, "cores")
	s.Known = rapid.IntRange(0, 2).Draw(rt, "known") == 0
	if s.Fmt == "root" {
		if s.NTx == 0 {
			s.NTx = 1
		}
		return s
	}
	s.Award = rapid.IntRange(0, 2).Draw(rt, "award") > 0
	s.Key = rapid.IntRange(0, len(hx.Ring)-1).Draw(rt, "key")
	switch rapid.IntRange(0, 5).Draw(rt, "ts-kind") {
	case 0:
		s.TS = rapid.Int64Range(0, 10).Draw(rt, "ts")
	case 1, 2:
		s.TS = 1600000000000000000 + rapid.Int64Range(0, 1000000000000).Draw(rt, "ts")
	case 3:
		s.TS = math.MaxInt64 - rapid.Int64Range(0, 3).Draw(rt, "ts")
	case 4:
		s.TS = rapid.Int64Range(-5, -1).Draw(rt, "ts")
	default:
		s.TS = rapid.Int64().Draw(rt, "ts")
	}
	if rapid.Bool().Draw(rt, "term-big") {
		s.Term = rapid.Int64Range(0, math.MaxInt64).Draw(rt, "term")
		s.Num = rapid.Int64Range(0, math.MaxInt64).Draw(rt, "num")
	} else {
		s.Term = rapid.Int64Range(0, 5).Draw(rt, "term")
		s.Num = rapid.Int64Range(0, 5).Draw(rt, "num")
	}
	switch rapid.IntRange(0, 5).Draw(rt, "pre-kind") {
	case 0, 1:
		s.Pre = "" // the ledger's root block
	case 2, 3:
		s.Pre = c08GenBytesHex(rt, 32, 32, "pre")
	default:
		s.Pre = c08GenBytesHex(rt, 1, 40, "pre")
	}
	for i := 0; i < 8; i++ {
		s.Salt = append(s.Salt, rapid.IntRange(0, 1<<16).Draw(rt, "salt"))
	}
	s.Ctl = rapid.IntRange(0, 3).Draw(rt, "ctl") == 0
	if s.Fmt == "block" {
		return s
	}
	switch rapid.IntRange(0, 9).Draw(rt, "bits-kind") {
	case 0, 1, 2, 3, 4:
		s.Bits = 0
	case 5, 6, 7:
		s.Bits = int32(rapid.IntRange(1, 32).Draw(rt, "bits"))
	case 8:
		s.Bits = int32(rapid.IntRange(1, math.MaxInt32).Draw(rt, "bits"))
	default:
		s.Bits = math.MaxInt32
	}
	if rapid.Bool().Draw(rt, "has-qc") {
		s.QC = c08GenQC(rt)
	}
	nf := rapid.IntRange(0, 3).Draw(rt, "nfailed")
	if nf == 0 {
		s.NilFailed = rapid.Bool().Draw(rt, "nil-failed")
	}
	keys := []string{"k0", "k1", "k2", "k3", "k4", "k5"}
	off := rapid.IntRange(0, 5).Draw(rt, "failed-key0")
	msgs := []string{"e", "out of gas", "a", "aa", "contract error: x", "!"}
	for i := 0; i < nf; i++ {
		// keys distinct; the order in the descriptor is not the sorted order on purpose
		s.Failed = append(s.Failed, c08Failed{K: keys[(off+5*i)%6], M: rapid.SampledFrom(msgs).Draw(rt, "failed-msg")})
	}
	s.Height = rapid.Int64Range(0, 1000).Draw(rt, "height")
	return s
}

// ---------------------------------------------------------------------------------------------

// c08WitnessSymptom: how the oracle reports the root cause (a witness failing otherwise is not that finding).
var c08WitnessSymptom = map[string]string{c08FDupTail: "VerifyBlock accepts the mutant", c08FOffCurve: "VerifyBlock panicked"}

func c08Witnesses() map[string][2]interface{} {
	return map[string][2]interface{}{
		// [a,b,c] -> [a,b,c,c]: same self-pairing merkle root, TxCount stays 3, id and signature untouched
		c08FDupTail: {c08Shape{Fmt: "miner", NTx: 3, TxTag: "w", Key: 0, TS: 1, Salt: []int{0}},
			c08Mut{K: "body:dup-tail", V: "body-only", I: 1}},
		// Pubkey = (X+1, Y) of the proposer's key, id recomputed: VerifyBlock must refuse, not panic
		c08FOffCurve: {c08Shape{Fmt: "miner", NTx: 1, TxTag: "w", Key: 0, TS: 1, Salt: []int{0}},
			c08Mut{K: "pubkey:offcurve", V: "reid"}},
	}
}

func TestC08(t *testing.T) {
	c := hx.NewCollector("C08", "exploration",
		"rapid-drawn block shapes (FormatMinerBlock / FormatBlock / FormatRootBlock of a real ledger; 0..9 transactions, tx versions 1 and 3, with/without coinbase, quorum certificate with 0..4 sign infos, 0..3 failed-tx messages, target bits 0 / small / huge, small / nanosecond / extreme timestamps, any of 12 proposer keys, root or arbitrary prehash; half of the blocks judged by a node with 1-4 cores instead of this machine's count - ledger.NumCPU -, every transaction position altered under its unchanged txid); the formatted block must verify (also after a protobuf round trip), its id must equal MakeBlockID and its root an independent merkle implementation; then every applicable single mutation of the enumerated list (each hashed header field incl. every Justify / sign-info / failed-tx message field, in the variants stale id / id recomputed / id recomputed and re-signed by another key; body add / drop / duplicate / dup-tail / swap / rotate / replace / txid change / content change with and without txid recomputation, in the variants body only / header reformatted / reformatted and re-signed by another key; signature and id corruptions, foreign-key re-signing with and without switching Pubkey or Proposer) must be refused by VerifyBlock, a content change under an unchanged txid by MakeTransactionID != txid. Merkle differential for 1..33 leaves. Non-trivial = tx count not a power of two, or justify present; distinct = hash of (block shape descriptor, mutation descriptor) || sync-path: the REAL block synchronisation path of the node - Miner.ProcBlock (pushed block) and the miner own catch-up trySyncBlock(nil) with a stub network and consensus - is fed genuine chains of 1-4 blocks and copies tampered under the genuine id (dropped / added / swapped transaction, re-formatted body, altered timestamp, foreign signature or key), as target or as downloaded ancestor, also as a second delivery after the consensus refused the genuine first one; after every delivery every stored block must verify when read back and equal the genuine block of its id, genuine chains must be accepted (vacuity guard)",
		"SHA-256 collisions and ECDSA forgeries do not occur",
		"a real block carries at least the award transaction: for 0 transactions only the id is checked and the VerifyBlock verdict is labelled (VerifyMerkle refuses an empty body)",
		"the root block is confirmed without VerifyBlock (unsigned): only id and merkle root are checked for it",
		"fields the id does not cover (Height, MerkleTree, InTrunk, NextHash, failed-tx keys, tx.Blockid, non-positive TargetBits, trailing bytes after the DER signature) are evaluated without assertion",
		"CheckMinerMatch of the pluggable consensus is covered by C16")
	defer c.Flush(t)
	defer func() { ledgerpkg.NumCPU = c08MachineCPU }()
	fs := hx.LoadFindings()
	// xuperchain/crypto reports unparsable keys through the std logger: thousands of lines for the pubkey mutants
	log.SetOutput(io.Discard)
	defer log.SetOutput(os.Stderr)

	lo, err := hx.NewLedgerOnly(hx.DefaultOpts())
	if err != nil {
		t.Fatalf("setup ledger: %v", err)
	}
	c08LO = lo
	defer func() { c08LO = nil; lo.Destroy() }()

	// witnesses of the root causes, through the same oracle (findings protocol)
	noExclude := os.Getenv("C08_NO_EXCLUDE") == "1"
	wit := c08Witnesses()
	var late []func()
	defer func() {
		for _, f := range late {
			f()
		}
	}()
	for _, id := range []string{c08FDupTail, c08FOffCurve} {
		id, w := id, wit[id]
		berr, werr := evalC08Split(w[0].(c08Shape), w[1].(c08Mut))
		trace := []interface{}{w[0], w[1]}
		if berr != nil {
			// the witness block itself does not verify: that is not the listed root cause
			c.Violate("block-mutations", berr.Error(), []interface{}{w[0]})
			late = append(late, func() { t.Errorf("witness block of %s: %v", id, berr) })
			c08Exclude[id] = false
			continue
		}
		if werr != nil && !strings.Contains(werr.Error(), c08WitnessSymptom[id]) {
			// the witness mutant fails, but not the way the root cause does: an ordinary violation
			c.Violate("block-mutations", werr.Error(), trace)
			late = append(late, func() { t.Errorf("witness mutant of %s fails differently: %v", id, werr) })
			c08Exclude[id] = false
			continue
		}
		if f, listed := fs.Listed(id); werr == nil || (listed && f.Status == "known") {
			c08Exclude[id] = witnessVerdict(t, c, fs, id, werr, trace) && !noExclude
		} else {
			// unlisted (or recurred) root cause: witnessVerdict fails the test, and rapid refuses to start on
			// a failed *testing.T - the search continues behind the trigger shape, the verdict is given last
			c08Exclude[id] = !noExclude
			late = append(late, func() { witnessVerdict(t, c, fs, id, werr, trace) })
		}
	}
	regressFixed(t, c, fs, "C08")

	// merkle differential, every leaf count 1..33 (stops at the first, i.e. smallest, failing count)
	reps := hx.N(4, 40)
diff:
	for n := 1; n <= 33; n++ {
		for r := 0; r < reps; r++ {
			d := c08DiffCase{N: n, Tag: fmt.Sprintf("d%d-%d-%d", hx.Seed(), hx.Shard(), r), V3: r%2 == 1}
			c.Count(d, !c08Pow2(n), "merkle-differential")
			if err := evalC08Diff(d); err != nil {
				c.Violate("merkle-differential", err.Error(), []interface{}{d})
				late = append(late, func() { t.Errorf("merkle differential: %v", err) }) // rapid needs an unfailed T
				break diff
			}
		}
	}
	if t.Failed() { // a fixed finding has returned (regressFixed): rapid refuses to run on a failed T
		t.Logf("block-mutations search skipped: the test has already failed")
		return
	}

	c.Check(t, "block-mutations", hx.N(1500, 26000), func(cs *hx.Case) {
		rt := cs.RT()
		shape := c08GenShape(rt)
		cs.Op(shape)
		b, err := c08Build(lo, shape)
		if err != nil {
			rt.Fatalf("build: %v", err)
		}
		nt := !c08Pow2(shape.NTx) || shape.QC != nil
		cs.Label("fmt:" + shape.Fmt)
		cs.Label(fmt.Sprintf("ntx:%d", shape.NTx))
		if shape.QC != nil {
			cs.Label(fmt.Sprintf("justify:%d-signs", len(shape.QC.Signs)))
		}
		if len(shape.Failed) > 0 {
			cs.Label("failed-txs")
		}
		if shape.Bits > 0 {
			cs.Label("pow-bits")
		}
		labels, err := b.checkBase()
		if err != nil {
			cs.Failf("%v", err)
		}
		for _, l := range labels {
			cs.Label(l)
		}
		if shape.NTx == 0 || shape.Fmt == "root" {
			return // no accepted block to mutate
		}
		if nt {
			cs.NontrivialKey(b.shapeH)
		}
		if shape.Known {
			cs.Label("transactions-already-confirmed-in-a-sibling-block")
		}
		c08MakeKnown(b)
		for _, mu := range b.mutations() {
			m, meta, ok := b.apply(mu)
			if !ok {
				continue
			}
			if meta.finding != "" && c08Exclude[meta.finding] {
				cs.Exclude(meta.finding)
				continue
			}
			layer, err := b.judge(mu, m, meta)
			if err != nil {
				cs.Op(mu)
				cs.Failf("%v", err)
			}
			lbl := "rejected-by:" + layer
			if meta.expect == c08Neutral {
				lbl = mu.K + ":" + layer
			}
			v := mu.V
			if v == "" {
				v = "-"
			}
			c.Count(b.shapeH+"|"+mu.K+"|"+mu.V+fmt.Sprintf("|%d|%d", mu.I, mu.J), nt, "mut:"+mu.K, "variant:"+v, lbl)
		}
	})
	c08SyncPath(t, c)
}
