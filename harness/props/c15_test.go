package props

// C15: Pending-proposal tree stays a tree; certified and committed markers only advance.
//
// The check drives chained-bft's QCPendingTree synchronously through the same private entry points
// that smr.go / tdpos / xpoa use (updateQcStatus, updateHighQC, updateCommit, enforceUpdateHighQC;
// exported by export_verif.go under the build tag "verif") with call sequences those callers can
// produce, and compares the structure after EVERY step with a plain set-of-nodes model written from
// the property statement.
//
// Operations (data, see c15Op) and the caller they stand for:
//   prop     smr.handleReceivedProposal: at most once per proposal id (localProposal); when the
//            justify QC carries a commit id (Commit) updateCommit(parent) runs first; the proposal
//            may be dropped after that step (Drop: CheckPacemaker / VoteProposal refused);
//            otherwise updateQcStatus(node)
//   confirm  tdpos/xpoa ProcessConfirmBlock: optional UpdateJustifyQcStatus(justify = parent)
//            (Justify), then UpdateQcStatus(BlockToProposalNode(block)); any number of times
//   vote     smr.handleReceivedVoteMsg reaching the quorum: only for a proposal that was received
//            (localProposal) and is found in the tree; updateHighQC(id)
//   justify  ProcessConfirmBlock that returns after UpdateJustifyQcStatus (scheduling /
//            ProcessProposal error): updateHighQC(id) for an id that is the parent of some block
//   rollback tdpos/xpoa ProcessBeforeMiner: EnforceUpdateHighQC(tip block id | GenericQC id)

import (
	"container/list"
	"encoding/json"
	"fmt"
	"os"
	"runtime/debug"
	"strings"
	"testing"

	"pgregory.net/rapid"

	cbftCommon "github.com/xuperchain/xupercore/kernel/consensus/base/common"
	cbft "github.com/xuperchain/xupercore/kernel/consensus/base/driver/chained-bft"

	"verifharness/hx"
)

// ---------------------------------------------------------------------------------------------
// findings of C15 on HEAD (see the witnesses below); the generator consults c15Exclude
// ---------------------------------------------------------------------------------------------

const (
	// insertOrphan returns after moving the FIRST waiting orphan root under the new orphan.
	c15FindSibling = "C15-orphan-sibling-stranded"
	// insertOrphan either hangs the new orphan under its parent inside the forest OR collects a
	// waiting child, never both.
	c15FindChain = "C15-orphan-chain-unlinked"
	// updateHighQC keeps the generic / locked / commit markers of the previous highQC when the new
	// highQC has fewer than three ancestors in the tree (enforceUpdateHighQC clears them first).
	c15FindStale = "C15-stale-ancestor-marker"
)

// c15Exclude: finding id -> its trigger shape is not emitted by the generators (set by the
// witness probes at the top of TestC15; forced off by C15_NO_EXCLUDE=1).
var c15Exclude = map[string]bool{}

// c15GappedViews: the rapid generator also draws trees in which a proposal's view exceeds its
// parent's by more than one (the tree and the safety rules accept them: smr.handleReceivedProposal
// takes the view from the proposal message and the parent from its justify QC). Blocks confirmed
// through ProcessConfirmBlock always have view = parent view + 1; c15FindStale only shows with a gap.
var c15GappedViews = true

// ---------------------------------------------------------------------------------------------
// operations as data
// ---------------------------------------------------------------------------------------------

type c15NodeDef struct {
	ID     string `json:"id"`
	Parent string `json:"parent,omitempty"`
	View   int64  `json:"view"`
}

type c15Op struct {
	Op      string       `json:"op"`                // tree | prop | confirm | vote | justify | rollback
	Nodes   []c15NodeDef `json:"nodes,omitempty"`   // tree: the universe; Nodes[0] is the initial root
	Init    string       `json:"init,omitempty"`    // tree: genesis (default) | restart (Nodes[1..3] pre-installed as in InitQCTree)
	ID      string       `json:"id,omitempty"`      // target proposal
	Commit  bool         `json:"commit,omitempty"`  // prop: justify QC carries a commit id
	Drop    bool         `json:"drop,omitempty"`    // prop: refused after the commit step
	Justify bool         `json:"justify,omitempty"` // confirm: UpdateJustifyQcStatus(parent) first
	Generic bool         `json:"generic,omitempty"` // rollback: target is the current GenericQC
}

// c15Log is a silent logs.Logger.
type c15Log struct{}

func (c15Log) GetLogId() string                           { return "" }
func (c15Log) SetCommField(key string, value interface{}) {}
func (c15Log) SetInfoField(key string, value interface{}) {}
func (c15Log) Error(msg string, ctx ...interface{})       {}
func (c15Log) Warn(msg string, ctx ...interface{})        {}
func (c15Log) Info(msg string, ctx ...interface{})        {}
func (c15Log) Trace(msg string, ctx ...interface{})       {}
func (c15Log) Debug(msg string, ctx ...interface{})       {}

// ---------------------------------------------------------------------------------------------
// machine = system under test + model
// ---------------------------------------------------------------------------------------------

type c15Stats struct {
	adopted       int  // orphans that moved into the tree when their ancestor chain completed
	competing     bool // two competing children had arrived before their parent did
	orphanIns     int  // deliveries that went to the orphan forest
	rootMoves     int
	pruned        int // accepted proposals cut off by a root move
	rollbacks     int
	dups          int
	highMoves     int
	excludedBy    string // set when the run stopped at an excluded trigger
	skippedPrecon int
}

type c15Machine struct {
	t      *cbft.QCPendingTree
	defs   []c15NodeDef
	idx    map[string]int
	parent []int // -1: none / outside the universe
	view   []int64
	ids    [][]byte
	kids   []int // number of children in the universe

	accepted  []bool // updateQcStatus returned nil at least once (or pre-installed)
	propd     []bool // localProposal
	delivered []int
	genesis   int // universe index of tree.Genesis (-1 when outside)

	prevRoot     int
	prevHighView int64
	st           c15Stats
	// smr: the real Smr around the tree (created at the first confirmed block): confirmed blocks enter through
	// Smr.UpdateQcStatus, the entry tdpos / xpoa ProcessConfirmBlock and block sync use
	smr *cbft.Smr

	// scratch
	treeCnt, orphCnt []int
	wasOrphan        []bool
	seen             []*cbft.ProposalNode
	stack            []c15Item
}

type c15Item struct {
	n      *cbft.ProposalNode
	parent int
}

func c15NewMachine(op c15Op) (*c15Machine, error) {
	if op.Op != "tree" || len(op.Nodes) == 0 {
		return nil, fmt.Errorf("trace must start with a tree op")
	}
	n := len(op.Nodes)
	m := &c15Machine{defs: op.Nodes, idx: make(map[string]int, n), parent: make([]int, n), view: make([]int64, n),
		ids: make([][]byte, n), kids: make([]int, n), accepted: make([]bool, n), propd: make([]bool, n),
		delivered: make([]int, n), treeCnt: make([]int, n), orphCnt: make([]int, n), wasOrphan: make([]bool, n)}
	for i, d := range op.Nodes {
		if _, dup := m.idx[d.ID]; dup || d.ID == "" {
			return nil, fmt.Errorf("bad node id %q", d.ID)
		}
		m.idx[d.ID] = i
		m.ids[i] = []byte(d.ID)
		m.view[i] = d.View
	}
	for i, d := range op.Nodes {
		m.parent[i] = -1
		if i == 0 {
			continue
		}
		p, ok := m.idx[d.Parent]
		if !ok || p >= i {
			return nil, fmt.Errorf("node %s: parent %q must be declared earlier", d.ID, d.Parent)
		}
		if m.view[p] >= d.View {
			return nil, fmt.Errorf("node %s: view must exceed its parent's", d.ID)
		}
		m.parent[i] = p
		m.kids[p]++
	}
	t := &cbft.QCPendingTree{OrphanList: list.New(), OrphanMap: map[string]bool{}, Log: c15Log{}}
	switch op.Init {
	case "", "genesis":
		// common.InitQCTree, "initial state" branch
		root := &cbft.ProposalNode{In: &cbft.QuorumCert{
			VoteInfo:         &cbft.VoteInfo{ProposalId: m.idCopy(0), ProposalView: m.view[0]},
			LedgerCommitInfo: &cbft.LedgerCommitInfo{CommitStateId: m.idCopy(0)},
		}}
		t.Genesis, t.Root, t.HighQC, t.CommitQC = root, root, root, root
		m.genesis = 0
		m.prevHighView = m.view[0]
	case "restart":
		// common.InitQCTree, restart branch (tip height >= 3): root = tip-3 (its parent is not in the
		// tree), generic = tip-2, highQC = tip-1, tip hangs under highQC; genesis is outside the tree
		if n < 4 || m.parent[1] != 0 || m.parent[2] != 1 || m.parent[3] != 2 {
			return nil, fmt.Errorf("restart needs nodes 1..3 as a chain below the root")
		}
		mk := func(k int, pid []byte, pview int64) *cbft.ProposalNode {
			return &cbft.ProposalNode{In: &cbft.QuorumCert{
				VoteInfo:         &cbft.VoteInfo{ProposalId: m.idCopy(k), ProposalView: m.view[k], ParentId: pid, ParentView: pview},
				LedgerCommitInfo: &cbft.LedgerCommitInfo{CommitStateId: m.idCopy(k)},
			}}
		}
		root := mk(0, []byte("zz-outside"), m.view[0]-1)
		gen := mk(1, m.idCopy(0), m.view[0])
		high := mk(2, m.idCopy(1), m.view[1])
		tip := mk(3, m.idCopy(2), m.view[2])
		root.Sons = append(root.Sons, gen)
		gen.Sons = append(gen.Sons, high)
		high.Sons = append(high.Sons, tip)
		t.Genesis = &cbft.ProposalNode{In: &cbft.QuorumCert{
			VoteInfo:         &cbft.VoteInfo{ProposalId: []byte("g0-outside"), ProposalView: m.view[0] - 1},
			LedgerCommitInfo: &cbft.LedgerCommitInfo{CommitStateId: []byte("g0-outside")},
		}}
		t.Root, t.GenericQC, t.HighQC = root, gen, high
		m.genesis = -1
		m.accepted[1], m.accepted[2], m.accepted[3] = true, true, true
		m.delivered[1], m.delivered[2], m.delivered[3] = 1, 1, 1
		m.prevHighView = m.view[2]
	default:
		return nil, fmt.Errorf("unknown init %q", op.Init)
	}
	m.accepted[0] = true
	m.propd[0] = true // NewSmr stores the root id in localProposal
	m.delivered[0] = 1
	m.prevRoot = 0
	m.t = t
	return m, nil
}

func (m *c15Machine) idCopy(k int) []byte { return append([]byte(nil), m.ids[k]...) }

func (m *c15Machine) mkNode(k int) *cbft.ProposalNode {
	p := m.parent[k]
	return &cbft.ProposalNode{In: &cbft.QuorumCert{
		VoteInfo:         &cbft.VoteInfo{ProposalId: m.idCopy(k), ProposalView: m.view[k], ParentId: m.idCopy(p), ParentView: m.view[p]},
		LedgerCommitInfo: &cbft.LedgerCommitInfo{VoteInfoHash: m.idCopy(k)},
	}}
}

// ---- model queries (universe = full parent relation; root = the structure's current root) ----

// descends: a is a strict descendant of b in the universe.
func (m *c15Machine) descends(a, b int) bool {
	for a = m.parent[a]; a >= 0; a = m.parent[a] {
		if a == b {
			return true
		}
	}
	return false
}

// anc: k-th ancestor in the universe, -1 if there is none.
func (m *c15Machine) anc(a, k int) int {
	for ; k > 0 && a >= 0; k-- {
		a = m.parent[a]
	}
	return a
}

// inModelTree: accepted, and the whole ancestor chain down from the current root has been accepted.
func (m *c15Machine) inModelTree(k, root int) bool {
	for k != root {
		if k < 0 || !m.accepted[k] {
			return false
		}
		k = m.parent[k]
	}
	return true
}

// liveOrphan: accepted descendant of the current root that still waits for a missing ancestor.
func (m *c15Machine) liveOrphan(k, root int) bool {
	return m.accepted[k] && m.descends(k, root) && !m.inModelTree(k, root)
}

// classify names the finding whose trigger shape the operation has in the current state ("" = none).
// Both shapes concern a proposal N that arrives as an orphan (its parent is not in the tree):
//
//	c15FindSibling: two or more accepted orphans are waiting for N
//	c15FindChain:   at least one accepted orphan is waiting for N and N's own parent is an
//	                accepted orphan too (N links two parts of the orphan forest)
//
// c15FindStale concerns an updateHighQC(T) that takes effect (T is in the tree, view >= highQC's)
// where T has fewer than three ancestors in the tree and a marker that will not be re-derived is
// set, lies above the committed height and is not the corresponding ancestor of T.
func (m *c15Machine) classify(op c15Op) string {
	k, ok := m.idx[op.ID]
	if !ok {
		return ""
	}
	root := m.prevRoot
	switch op.Op {
	case "vote":
		if m.propd[k] && m.staleMarkerAfter(k, root) {
			return c15FindStale
		}
		return ""
	case "justify":
		if m.kids[k] > 0 && m.staleMarkerAfter(k, root) {
			return c15FindStale
		}
		return ""
	}
	if !(op.Op == "confirm" || (op.Op == "prop" && !op.Drop)) {
		return ""
	}
	if k == 0 {
		return ""
	}
	if op.Op == "prop" && m.propd[k] {
		return ""
	}
	if op.Justify || !m.inModelTree(k, root) {
		// updateHighQC(parent) runs (before the insertion for Justify, after it for a new proposal)
		cert := m.parent[k]
		moves := op.Op == "prop" && op.Commit && cert != m.genesis && m.inModelTree(cert, root) && m.depth(cert, root) >= 4
		if !moves && m.staleMarkerAfter(cert, root) {
			return c15FindStale
		}
	}
	if m.inModelTree(k, root) || m.liveOrphan(k, root) {
		return "" // duplicate: returns before any insertion
	}
	p := m.parent[k]
	if m.inModelTree(p, root) {
		return "" // inserted into the tree; adoptOrphans collects every waiting root
	}
	waiting := 0
	for x := 1; x < len(m.defs); x++ {
		if m.parent[x] == k && m.accepted[x] && !m.inModelTree(x, root) {
			waiting++
		}
	}
	if waiting >= 2 {
		return c15FindSibling
	}
	if waiting >= 1 && m.accepted[p] && !m.inModelTree(p, root) {
		return c15FindChain
	}
	return ""
}

// depth: number of generations of k below root (k must be root or a descendant of it).
func (m *c15Machine) depth(k, root int) int {
	d := 0
	for ; k != root && k >= 0; k = m.parent[k] {
		d++
	}
	return d
}

// staleMarkerAfter: updateHighQC(target) would take effect and leave a marker of the previous
// highQC that is neither the corresponding ancestor of target nor at / below the committed height.
func (m *c15Machine) staleMarkerAfter(target, root int) bool {
	if !m.inModelTree(target, root) || m.view[target] < m.prevHighView {
		return false
	}
	d := m.depth(target, root)
	ms := [...]*cbft.ProposalNode{m.t.GenericQC, m.t.LockedQC, m.t.CommitQC}
	for j := d + 1; j <= 3; j++ {
		mk := ms[j-1]
		if mk == nil || mk.In == nil {
			continue
		}
		x, ok := m.idx[string(mk.In.GetProposalId())]
		if ok && m.view[x] > m.view[root] && m.anc(target, j) != x {
			return true
		}
	}
	return false
}

// apply executes one operation on the structure. executed=false: the callers' precondition does
// not hold in this state, nothing was called.
func (m *c15Machine) apply(op c15Op) (executed bool, err error) {
	t := m.t
	k := -1
	if !(op.Op == "rollback" && op.Generic) {
		var ok bool
		if k, ok = m.idx[op.ID]; !ok {
			return false, fmt.Errorf("op %+v: unknown id", op)
		}
	}
	root := m.prevRoot
	for i := range m.wasOrphan {
		m.wasOrphan[i] = m.liveOrphan(i, root)
	}
	viaSmr := false
	deliver := func() error {
		known := m.accepted[k]
		if !known {
			// competing children that arrived before their parent
			c := 0
			for x := 1; x < len(m.defs); x++ {
				if m.parent[x] == k && m.accepted[x] {
					c++
				}
			}
			if c >= 2 {
				m.st.competing = true
			}
		} else {
			m.st.dups++
		}
		var e error
		if viaSmr && m.smr != nil {
			e = m.smr.UpdateQcStatus(m.mkNode(k))
		} else {
			e = t.VerifUpdateQcStatus(m.mkNode(k))
		}
		if e != nil {
			return fmt.Errorf("updateQcStatus(%s) refused a proposal with a parent id: %v", op.ID, e)
		}
		m.accepted[k] = true
		m.delivered[k]++
		return nil
	}
	switch op.Op {
	case "prop":
		if k == 0 || m.propd[k] {
			return false, nil
		}
		m.propd[k] = true
		if op.Commit && m.parent[k] != m.genesis {
			t.VerifUpdateCommit(m.idCopy(m.parent[k]))
		}
		if op.Drop {
			return true, nil
		}
		return true, deliver()
	case "confirm":
		if k == 0 {
			return false, nil
		}
		if op.Justify {
			t.VerifUpdateHighQC(m.idCopy(m.parent[k]))
		}
		if m.smr == nil {
			m.smr = cbft.NewSmr(hx.BCName, "c15-local", c14NopLog{}, nil, c14CryptoOf(c14OutsiderB), &c14Pacemaker{view: 1},
				&cbft.DefaultSaftyRules{Crypto: c14CryptoOf(c14OutsiderB), QcTree: t, Log: c14NopLog{}}, &c14Election{n: 4}, t)
		}
		viaSmr = true
		err := deliver()
		viaSmr = false
		return true, err
	case "vote":
		if !m.propd[k] || t.DFSQueryNode(m.ids[k]) == nil {
			return false, nil
		}
		t.VerifUpdateHighQC(m.idCopy(k))
		return true, nil
	case "justify":
		if m.kids[k] == 0 {
			return false, nil
		}
		t.VerifUpdateHighQC(m.idCopy(k))
		return true, nil
	case "rollback":
		var id []byte
		if op.Generic {
			if t.GenericQC == nil {
				return false, nil
			}
			id = append([]byte(nil), t.GenericQC.In.GetProposalId()...)
		} else {
			if m.delivered[k] == 0 {
				return false, nil
			}
			id = m.idCopy(k)
		}
		m.st.rollbacks++
		if e := t.VerifEnforceUpdateHighQC(id); e != nil && t.DFSQueryNode(id) != nil {
			return true, fmt.Errorf("enforceUpdateHighQC(%s) failed for a proposal of the tree: %v", id, e)
		}
		return true, nil
	}
	return false, fmt.Errorf("unknown op %q", op.Op)
}

// walk visits the subtree below n (iteratively, bounded), counting ids into cnt.
func (m *c15Machine) walk(n *cbft.ProposalNode, where string, cnt []int, budget *int) error {
	stack := append(m.stack[:0], c15Item{n, -2})
	defer func() { m.stack = stack[:0] }()
	for len(stack) > 0 {
		it := stack[len(stack)-1]
		stack = stack[:len(stack)-1]
		if it.n == nil || it.n.In == nil {
			return fmt.Errorf("%s: nil node in the structure", where)
		}
		*budget--
		if *budget < 0 {
			return fmt.Errorf("%s: structure holds more nodes than were ever accepted (cycle or repeated storage)", where)
		}
		for _, o := range m.seen {
			if o == it.n {
				return fmt.Errorf("%s: node %s is reachable twice (not a tree)", where, it.n.In.GetProposalId())
			}
		}
		m.seen = append(m.seen, it.n)
		k, ok := m.idx[string(it.n.In.GetProposalId())]
		if !ok {
			return fmt.Errorf("%s: unknown proposal %q stored", where, it.n.In.GetProposalId())
		}
		if it.n.In.GetProposalView() != m.view[k] {
			return fmt.Errorf("%s: %s stored with view %d, proposed with %d", where, m.defs[k].ID, it.n.In.GetProposalView(), m.view[k])
		}
		if !m.accepted[k] {
			return fmt.Errorf("%s: %s stored but never accepted", where, m.defs[k].ID)
		}
		if it.parent != -2 {
			if m.parent[k] != it.parent || string(it.n.In.GetParentProposalId()) != m.defs[it.parent].ID {
				return fmt.Errorf("%s: %s hangs under %s but its parent is %s", where, m.defs[k].ID, m.defs[it.parent].ID, m.defs[k].Parent)
			}
		}
		cnt[k]++
		for _, s := range it.n.Sons {
			stack = append(stack, c15Item{s, k})
		}
	}
	return nil
}

// check compares the structure with the model after op.
func (m *c15Machine) check(op c15Op) error {
	t := m.t
	if t.Root == nil || t.Root.In == nil {
		return fmt.Errorf("root is nil")
	}
	if t.HighQC == nil || t.HighQC.In == nil {
		return fmt.Errorf("highQC is nil")
	}
	// (5) the root only moves to a descendant of the previous root, and only by a commit, to an
	// ancestor of the certified proposal that triggered it
	rk, ok := m.idx[string(t.Root.In.GetProposalId())]
	if !ok {
		return fmt.Errorf("root is the unknown proposal %q", t.Root.In.GetProposalId())
	}
	if rk != m.prevRoot {
		if !m.descends(rk, m.prevRoot) {
			return fmt.Errorf("root moved from %s to %s which is not one of its descendants", m.defs[m.prevRoot].ID, m.defs[rk].ID)
		}
		if !(op.Op == "prop" && op.Commit) {
			return fmt.Errorf("root moved from %s to %s without a commit", m.defs[m.prevRoot].ID, m.defs[rk].ID)
		}
		cert := m.parent[m.idx[op.ID]]
		if !m.descends(cert, rk) {
			return fmt.Errorf("commit certified by %s moved the root to %s which is not an ancestor of it", m.defs[cert].ID, m.defs[rk].ID)
		}
		m.st.rootMoves++
		for k := 1; k < len(m.defs); k++ {
			if m.accepted[k] && m.descends(k, m.prevRoot) && k != rk && !m.descends(k, rk) && m.view[k] > m.view[rk] {
				m.st.pruned++
			}
		}
		m.prevRoot = rk
	}
	// (1) tree shape of the structure below Root, and of the orphan forest
	n := len(m.defs)
	for i := 0; i < n; i++ {
		m.treeCnt[i], m.orphCnt[i] = 0, 0
	}
	m.seen = m.seen[:0]
	budget := 2*n + 2
	if err := m.walk(t.Root, "tree", m.treeCnt, &budget); err != nil {
		return err
	}
	for e := t.OrphanList.Front(); e != nil; e = e.Next() {
		on, ok := e.Value.(*cbft.ProposalNode)
		if !ok {
			return fmt.Errorf("orphan list holds a %T", e.Value)
		}
		if err := m.walk(on, "orphans", m.orphCnt, &budget); err != nil {
			return err
		}
	}
	// (2) every accepted proposal is stored exactly once, in the tree if its chain is complete
	for k := 0; k < n; k++ {
		id := m.defs[k].ID
		tc, oc := m.treeCnt[k], m.orphCnt[k]
		switch {
		case tc > 1 || oc > 1 || tc+oc > 1:
			return fmt.Errorf("%s is stored %d times in the tree and %d times among the orphans", id, tc, oc)
		case m.inModelTree(k, rk):
			if tc != 1 {
				return fmt.Errorf("%s was accepted and all its ancestors down from root %s have arrived, but it is not in the tree (orphans: %d)", id, m.defs[rk].ID, oc)
			}
			if m.wasOrphan[k] {
				m.st.adopted++
			}
		case m.liveOrphan(k, rk):
			if oc != 1 {
				return fmt.Errorf("%s was accepted and waits for a missing ancestor below root %s, but it is not among the orphans", id, m.defs[rk].ID)
			}
			if !m.wasOrphan[k] {
				m.st.orphanIns++
			}
		}
	}
	// (3) highQC view never decreases except by an explicit rollback
	hk, ok := m.idx[string(t.HighQC.In.GetProposalId())]
	if !ok {
		return fmt.Errorf("highQC is the unknown proposal %q", t.HighQC.In.GetProposalId())
	}
	hv := t.HighQC.In.GetProposalView()
	if hv != m.view[hk] {
		return fmt.Errorf("highQC %s has view %d, proposed with %d", m.defs[hk].ID, hv, m.view[hk])
	}
	if hv < m.prevHighView && op.Op != "rollback" {
		return fmt.Errorf("highQC view decreased from %d to %d (%s) without a rollback", m.prevHighView, hv, m.defs[hk].ID)
	}
	if hv != m.prevHighView {
		m.st.highMoves++
	}
	m.prevHighView = hv
	// (4) generic / locked / commit, when set, are the 1st / 2nd / 3rd ancestor of highQC. A marker
	// whose view is not above the committed root's view names committed history, which the pending
	// tree no longer relates to highQC (initially commitQC = genesis = root); it is not judged.
	for i, mk := range []*cbft.ProposalNode{t.GenericQC, t.LockedQC, t.CommitQC} {
		if mk == nil {
			continue
		}
		name := [...]string{"genericQC", "lockedQC", "commitQC"}[i]
		if mk.In == nil {
			return fmt.Errorf("%s has no content", name)
		}
		x, ok := m.idx[string(mk.In.GetProposalId())]
		if !ok {
			return fmt.Errorf("%s is the unknown proposal %q", name, mk.In.GetProposalId())
		}
		if m.view[x] <= m.view[rk] {
			continue
		}
		if a := m.anc(hk, i+1); a != x {
			want := "none"
			if a >= 0 {
				want = m.defs[a].ID
			}
			return fmt.Errorf("%s is %s, but ancestor %d of highQC %s is %s", name, m.defs[x].ID, i+1, m.defs[hk].ID, want)
		}
	}
	return nil
}

// c15Run interprets a trace. With excl, the run stops in front of the first operation whose
// trigger shape belongs to an excluded finding (st.excludedBy names it).
func c15Run(ops []c15Op, excl map[string]bool) (*c15Machine, error) {
	if len(ops) == 0 {
		return nil, fmt.Errorf("empty trace")
	}
	m, err := c15NewMachine(ops[0])
	if err != nil {
		return nil, err
	}
	if err := m.check(ops[0]); err != nil {
		return m, fmt.Errorf("initial state: %v", err)
	}
	for i, op := range ops[1:] {
		if len(excl) > 0 {
			if id := m.classify(op); id != "" && excl[id] {
				m.st.excludedBy = id
				return m, nil
			}
		}
		if err := m.step(op); err != nil {
			return m, fmt.Errorf("step %d %s: %v", i+1, c15OpString(op), err)
		}
	}
	return m, nil
}

func (m *c15Machine) step(op c15Op) error {
	executed, err := m.apply(op)
	if err != nil {
		return err
	}
	if !executed {
		m.st.skippedPrecon++
	}
	return m.check(op)
}

// runC15Trace is the plain interpreter used by the rapid property, the enumeration, the witnesses
// and replays.
func runC15Trace(ops []c15Op, excl map[string]bool) error {
	_, err := c15Run(ops, excl)
	return err
}

func c15OpString(op c15Op) string {
	s := op.Op + "(" + op.ID
	if op.Commit {
		s += ",commit"
	}
	if op.Drop {
		s += ",drop"
	}
	if op.Justify {
		s += ",justify"
	}
	if op.Generic {
		s += "generic"
	}
	return s + ")"
}

func init() {
	replayers["C15/pending-tree"] = func(raw json.RawMessage, fs *hx.FindingSet) error {
		var ops []c15Op
		if err := json.Unmarshal(raw, &ops); err != nil {
			return err
		}
		return runC15Trace(ops, nil)
	}
	replayers["C15/pacemaker-monotone"] = func(raw json.RawMessage, fs *hx.FindingSet) error {
		var views []int64
		if err := json.Unmarshal(raw, &views); err != nil {
			return err
		}
		return runC15Pacemaker(views)
	}
}

// ---------------------------------------------------------------------------------------------
// pacemaker: the view is max-monotone
// ---------------------------------------------------------------------------------------------

func runC15Pacemaker(views []int64) error {
	if len(views) == 0 {
		return nil
	}
	p := &cbft.DefaultPaceMaker{CurrentView: views[0]}
	cur := views[0]
	for i, v := range views[1:] {
		qc := &cbft.QuorumCert{VoteInfo: &cbft.VoteInfo{ProposalId: []byte{byte(i)}, ProposalView: v}}
		if _, err := p.AdvanceView(qc); err != nil {
			return fmt.Errorf("AdvanceView(%d): %v", v, err)
		}
		want := cur
		if v+1 > want {
			want = v + 1
		}
		got := p.GetCurrentView()
		if got < cur {
			return fmt.Errorf("step %d: view decreased from %d to %d after a QC of view %d", i, cur, got, v)
		}
		if got != want {
			return fmt.Errorf("step %d: view is %d after a QC of view %d on view %d, want max = %d", i, got, v, cur, want)
		}
		cur = got
	}
	return nil
}

// ---------------------------------------------------------------------------------------------
// witnesses of the findings (fixed sequences through the same interpreter and oracle)
// ---------------------------------------------------------------------------------------------

func c15Witness(id string) []c15Op {
	switch id {
	case c15FindSibling:
		// r <- p <- n <- {x1, x2}; arrivals x1, x2, n, p
		return []c15Op{
			{Op: "tree", Nodes: []c15NodeDef{{ID: "r", View: 0}, {ID: "p", Parent: "r", View: 1}, {ID: "n", Parent: "p", View: 2},
				{ID: "x1", Parent: "n", View: 3}, {ID: "x2", Parent: "n", View: 3}}},
			{Op: "confirm", ID: "x1"}, {Op: "confirm", ID: "x2"}, {Op: "confirm", ID: "n"}, {Op: "confirm", ID: "p"},
		}
	case c15FindChain:
		// r <- q <- p <- n <- x; arrivals p, x, n, q
		return []c15Op{
			{Op: "tree", Nodes: []c15NodeDef{{ID: "r", View: 0}, {ID: "q", Parent: "r", View: 1}, {ID: "p", Parent: "q", View: 2},
				{ID: "n", Parent: "p", View: 3}, {ID: "x", Parent: "n", View: 4}}},
			{Op: "confirm", ID: "p"}, {Op: "confirm", ID: "x"}, {Op: "confirm", ID: "n"}, {Op: "confirm", ID: "q"},
		}
	case c15FindStale:
		// r <- a <- b <- c and r <- d with the view of c: highQC = c (generic b, locked a), then d is certified
		return []c15Op{
			{Op: "tree", Nodes: []c15NodeDef{{ID: "r", View: 0}, {ID: "a", Parent: "r", View: 1}, {ID: "b", Parent: "a", View: 2},
				{ID: "c", Parent: "b", View: 3}, {ID: "d", Parent: "r", View: 3}}},
			{Op: "prop", ID: "a"}, {Op: "prop", ID: "b"}, {Op: "prop", ID: "c"}, {Op: "vote", ID: "c"},
			{Op: "prop", ID: "d"}, {Op: "vote", ID: "d"},
		}
	}
	return nil
}

var c15FindingIDs = []string{c15FindSibling, c15FindChain, c15FindStale}

// ---------------------------------------------------------------------------------------------
// generators
// ---------------------------------------------------------------------------------------------

func c15ID(i int) string {
	if i == 0 {
		return "r"
	}
	return string(rune('a' + i - 1))
}

// c15GenTree draws a universe of 1..12 proposals below the root.
func c15GenTree(rt *rapid.T) c15Op {
	n := rapid.IntRange(1, 12).Draw(rt, "n")
	init := "genesis"
	if n >= 3 && rapid.IntRange(0, 9).Draw(rt, "init") < 2 {
		init = "restart"
	}
	gaps := rapid.IntRange(0, 3).Draw(rt, "gaps") == 0 && c15GappedViews
	chainy := rapid.IntRange(3, 9).Draw(rt, "chainy")
	base := int64(rapid.IntRange(0, 4).Draw(rt, "base"))
	if init == "restart" {
		base += 3
	}
	nodes := []c15NodeDef{{ID: "r", View: base}}
	for i := 1; i <= n; i++ {
		p := i - 1
		if !(init == "restart" && i <= 3) && i > 1 && rapid.IntRange(0, 9).Draw(rt, "ext") >= chainy {
			p = rapid.IntRange(0, i-1).Draw(rt, "parent")
		}
		v := nodes[p].View + 1
		if gaps && !(init == "restart" && i <= 3) && rapid.IntRange(0, 3).Draw(rt, "gap") == 0 {
			v += int64(rapid.IntRange(1, 2).Draw(rt, "gapw"))
		}
		nodes = append(nodes, c15NodeDef{ID: c15ID(i), Parent: nodes[p].ID, View: v})
	}
	return c15Op{Op: "tree", Nodes: nodes, Init: init}
}

// c15GenOp draws the next operation from the machine's state; ok=false if nothing was drawn.
func c15GenOp(rt *rapid.T, m *c15Machine, inorder int) (c15Op, bool) {
	n := len(m.defs)
	var undel, del, votable, just []int
	for k := 1; k < n; k++ {
		if m.delivered[k] == 0 && !m.propd[k] {
			undel = append(undel, k)
		}
		if m.delivered[k] > 0 {
			del = append(del, k)
		}
		if m.propd[k] && m.delivered[k] > 0 {
			votable = append(votable, k)
		}
	}
	for k := 0; k < n; k++ {
		if m.kids[k] > 0 {
			just = append(just, k)
		}
	}
	pick := func(xs []int, label string) int { return xs[rapid.IntRange(0, len(xs)-1).Draw(rt, label)] }
	kind := rapid.IntRange(0, 99).Draw(rt, "kind")
	switch {
	case kind < 55 && len(undel) > 0:
		k := undel[0]
		if rapid.IntRange(0, 9).Draw(rt, "ord") >= inorder {
			k = pick(undel, "undel")
		}
		if rapid.IntRange(0, 9).Draw(rt, "path") < 6 {
			return c15Op{Op: "prop", ID: m.defs[k].ID, Commit: rapid.IntRange(0, 9).Draw(rt, "commit") < 7}, true
		}
		return c15Op{Op: "confirm", ID: m.defs[k].ID, Justify: rapid.Bool().Draw(rt, "justify")}, true
	case kind < 67 && len(del) > 0:
		// the same proposal again: confirmed block of a received proposal, re-confirmation, or the
		// proposal message of a block that was confirmed first
		k := pick(del, "dup")
		if !m.propd[k] && rapid.Bool().Draw(rt, "dupprop") {
			return c15Op{Op: "prop", ID: m.defs[k].ID, Commit: rapid.Bool().Draw(rt, "commit")}, true
		}
		return c15Op{Op: "confirm", ID: m.defs[k].ID, Justify: rapid.Bool().Draw(rt, "justify")}, true
	case kind < 80 && len(votable) > 0:
		return c15Op{Op: "vote", ID: m.defs[pick(votable, "vote")].ID}, true
	case kind < 87 && len(just) > 0:
		return c15Op{Op: "justify", ID: m.defs[pick(just, "just")].ID}, true
	case kind < 95:
		if rapid.Bool().Draw(rt, "generic") {
			return c15Op{Op: "rollback", Generic: true}, true
		}
		all := append([]int{0}, del...)
		return c15Op{Op: "rollback", ID: m.defs[pick(all, "tip")].ID}, true
	case len(undel) > 0:
		return c15Op{Op: "prop", ID: m.defs[pick(undel, "dropped")].ID, Commit: true, Drop: true}, true
	}
	return c15Op{}, false
}

func c15Labels(m *c15Machine, add func(string)) {
	st := m.st
	if st.adopted > 0 {
		add("orphan-adopted")
	}
	if st.adopted > 1 {
		add("orphans-adopted>=2")
	}
	if st.competing {
		add("competing-children-before-parent")
	}
	if st.orphanIns > 0 {
		add("orphan-inserted")
	}
	if st.rootMoves > 0 {
		add("root-moved")
	}
	if st.rootMoves > 1 {
		add("root-moved-twice")
	}
	if st.pruned > 0 {
		add("branch-pruned-by-commit")
	}
	if st.rollbacks > 0 {
		add("rollback")
	}
	if st.dups > 0 {
		add("duplicate-delivery")
	}
	if st.highMoves > 0 {
		add("highqc-moved")
	}
}

func c15Nontrivial(m *c15Machine) bool { return m.st.adopted > 0 || m.st.competing }

// c15Perms calls f with every permutation of xs (Heap's algorithm); f must not keep the slice.
func c15Perms(xs []int, f func([]int) bool) bool {
	n := len(xs)
	c := make([]int, n)
	if !f(xs) {
		return false
	}
	for i := 0; i < n; {
		if c[i] < i {
			if i%2 == 0 {
				xs[0], xs[i] = xs[i], xs[0]
			} else {
				xs[c[i]], xs[i] = xs[i], xs[c[i]]
			}
			if !f(xs) {
				return false
			}
			c[i]++
			i = 0
		} else {
			c[i] = 0
			i++
		}
	}
	return true
}

// c15EnumTrees calls f with every parent vector of n proposals (parent of i in 0..i-1).
func c15EnumTrees(n int, f func(idx int, parents []int)) {
	parents := make([]int, n+1)
	idx := 0
	var rec func(i int)
	rec = func(i int) {
		if i > n {
			f(idx, parents)
			idx++
			return
		}
		for p := 0; p < i; p++ {
			parents[i] = p
			rec(i + 1)
		}
	}
	rec(1)
}

func c15TreeOp(parents []int) c15Op {
	nodes := make([]c15NodeDef, len(parents))
	nodes[0] = c15NodeDef{ID: "r", View: 0}
	for i := 1; i < len(parents); i++ {
		nodes[i] = c15NodeDef{ID: c15ID(i), Parent: nodes[parents[i]].ID, View: nodes[parents[i]].View + 1}
	}
	return c15Op{Op: "tree", Nodes: nodes}
}

// ---------------------------------------------------------------------------------------------
// the test
// ---------------------------------------------------------------------------------------------

// c15InitBox: the tree a (re)started node builds - the real common.InitQCTree over a stub ledger, for every start height
// 1..6 and every tip height start-1..10 - must itself satisfy the statement: one tree below Root in which every
// proposal is stored once and every son names its holder as parent, views increasing; HighQC (and GenericQC when set)
// nodes of that tree, GenericQC the holder of HighQC.
func c15InitOne(start, tip int64) error {
	l := &c14Ledger{}
	for h := int64(0); h <= tip; h++ {
		b := &c14Block{proposer: hx.Ring[0].Address, height: h, id: []byte(fmt.Sprintf("c15-init-block-%02d", h)), storage: []byte("{}"), ts: h}
		if h > 0 {
			b.pre = l.chain[h-1].id
		}
		l.chain = append(l.chain, b)
	}
	tree := cbftCommon.InitQCTree(start, l, c14NopLog{})
	fail := func(format string, args ...interface{}) error {
		return fmt.Errorf("InitQCTree(start=%d) on a ledger with tip height %d: %s", start, tip, fmt.Sprintf(format, args...))
	}
	if tree == nil || tree.Root == nil || tree.HighQC == nil {
		return fail("no tree / root / HighQC")
	}
	seen := map[string]bool{}
	inTree := map[*cbft.ProposalNode]*cbft.ProposalNode{} // node -> holder
	var walk func(n, holder *cbft.ProposalNode) error
	walk = func(n, holder *cbft.ProposalNode) error {
		id := string(n.In.GetProposalId())
		if seen[id] {
			return fail("proposal %q is stored twice", id)
		}
		seen[id] = true
		inTree[n] = holder
		if holder != nil {
			if string(n.In.GetParentProposalId()) != string(holder.In.GetProposalId()) {
				return fail("node %q hangs under %q but names parent %q", id, holder.In.GetProposalId(), n.In.GetParentProposalId())
			}
			if n.In.GetProposalView() <= holder.In.GetProposalView() {
				return fail("node %q (view %d) hangs under %q (view %d)", id, n.In.GetProposalView(), holder.In.GetProposalId(), holder.In.GetProposalView())
			}
		}
		for _, s := range n.Sons {
			if err := walk(s, n); err != nil {
				return err
			}
		}
		return nil
	}
	if err := walk(tree.Root, nil); err != nil {
		return err
	}
	if _, ok := inTree[tree.HighQC]; !ok {
		return fail("HighQC %q is not a node of the tree", tree.HighQC.In.GetProposalId())
	}
	if tree.GenericQC != nil {
		if _, ok := inTree[tree.GenericQC]; !ok {
			return fail("GenericQC %q is not a node of the tree", tree.GenericQC.In.GetProposalId())
		}
		if inTree[tree.HighQC] != tree.GenericQC {
			return fail("GenericQC %q is not the holder of HighQC %q", tree.GenericQC.In.GetProposalId(), tree.HighQC.In.GetProposalId())
		}
	}
	return nil
}

func c15InitBox(t *testing.T, c *hx.Collector) {
	for start := int64(1); start <= 6; start++ {
		for tip := start - 1; tip <= 10; tip++ {
			key := map[string]int64{"start": start, "tip": tip}
			c.Count(key, tip == start+1 || tip == start, "init-tree")
			if err := c15InitOne(start, tip); err != nil {
				p := c.Violate("init-tree", err.Error(), key)
				t.Errorf("C15 init-tree: %v (replay %s)", err, p)
				return
			}
		}
	}
	c.SetExhaustive("InitQCTree: start height 1..6 x tip height start-1..10")
}

func init() {
	replayers["C15/init-tree"] = func(raw json.RawMessage, fs *hx.FindingSet) error {
		var k map[string]int64
		if err := json.Unmarshal(raw, &k); err != nil {
			return err
		}
		return c15InitOne(k["start"], k["tip"])
	}
}

func TestC15(t *testing.T) {
	c := hx.NewCollector("C15", "exploration",
		"QCPendingTree driven synchronously through updateQcStatus / updateHighQC / updateCommit / enforceUpdateHighQC with the call shapes of smr.handleReceivedProposal (optional commit first, at most once per id), handleReceivedVoteMsg (received proposals found in the tree), ProcessConfirmBlock (optional justify first, repeatable) and ProcessBeforeMiner rollbacks, over abstract proposal trees of up to 12 nodes (competing children, chains >= 5 so that commits trigger, consecutive and gapped views, fresh and restarted trees): ALL arrival orders of every tree of <= 6 proposals (also with one duplicate for <= 5, and as proposals with commit and votes), rapid-drawn orders with interleaved votes, justifies, duplicates, dropped proposals and rollbacks above. After every step a set-of-nodes model checks: one tree below Root and one orphan forest without repeated / foreign / misplaced nodes; every accepted proposal whose ancestors down from Root have all arrived is in the tree exactly once, every other accepted descendant of Root is among the orphans exactly once; HighQC view never decreases except by a rollback; Generic/Locked/CommitQC, when set and above the committed height, are the 1st/2nd/3rd ancestor of HighQC; Root only moves, by a commit, to a descendant of the previous Root that is an ancestor of the certifying proposal; pacemaker view = running maximum. Non-trivial = an arrival order in which at least one orphan is adopted or two competing children arrive before their parent; distinct = hash of the operation trace",
		"proposal ids are unique and a proposal's view exceeds its parent's (views are block heights)",
		"accepted proposals that do not descend from the current Root (pruned by a commit, or below the committed height) need not be stored",
		"a marker whose view is not above Root's view (committed history, e.g. the initial commitQC = genesis) is not compared with HighQC's ancestors")
	defer c.Flush(t)
	// millions of tiny short-lived structures on a small live heap: collect less often
	defer debug.SetGCPercent(debug.SetGCPercent(1600))

	// --- witnesses of the findings: decide the exclusions for this tree ---
	noExclude := os.Getenv("C15_NO_EXCLUDE") == "1"
	fs := hx.LoadFindings()
	regressFixed(t, c, fs, "C15")
	for _, id := range c15FindingIDs {
		c15Exclude[id] = false
		err := runC15Trace(c15Witness(id), nil)
		if witnessVerdict(t, c, fs, id, err, c15Witness(id)) && !noExclude {
			c15Exclude[id] = true
		}
	}
	excl := map[string]bool{}
	for k, v := range c15Exclude {
		if v {
			excl[k] = true
		}
	}

	c15InitBox(t, c)

	// --- exhaustive box: every tree of <= maxN proposals, every arrival order ---
	maxN, sampleN := 6, 0
	if hx.Tier() == "quick" {
		maxN, sampleN = 5, 6 // quick: n = 6 only for every 4th tree
	}
	violated := false
	report := func(ops []c15Op, err error) {
		if violated {
			return
		}
		violated = true
		p := c.Violate("pending-tree", err.Error(), ops)
		t.Errorf("C15 enumeration: %v (replay %s)", err, p)
	}
	boxNote := ""
	if len(excl) > 0 {
		boxNote = "; an order that contains the trigger shape of an excluded finding is executed up to that trigger only"
	}
	ntSeen, hashEvery := 0, 8
	if hx.Tier() != "quick" {
		hashEvery = 256
	}
	runEnum := func(ops []c15Op, key string) {
		m, err := c15Run(ops, excl)
		if err != nil {
			report(append([]c15Op(nil), ops...), err)
			return
		}
		var labels []string
		c15Labels(m, func(l string) { labels = append(labels, "enum:"+l) })
		if m.st.excludedBy != "" {
			// only the prefix in front of the excluded trigger was executed: counted, never as a distinct non-trivial case
			c.Exclude(m.st.excludedBy)
			c.Count(key, false, append(labels, "enum:truncated-by-exclusion")...)
			return
		}
		// the distinct-non-trivial set keeps the hash of every hashEvery-th non-trivial order only (the
		// evidence file lists the hashes); the others are counted under enum:nontrivial-unhashed
		nt := c15Nontrivial(m)
		if nt {
			ntSeen++
			if ntSeen%hashEvery != 0 {
				nt = false
				labels = append(labels, "enum:nontrivial-unhashed")
			}
		}
		c.Count(key, nt, labels...)
	}
	enumN := func(n int, stride int) {
		c15EnumTrees(n, func(ti int, parents []int) {
			if violated {
				return
			}
			if stride > 1 && ti%stride != 0 {
				return
			}
			if ti/maxInt(stride, 1)%hx.Shards() != hx.Shard() {
				return
			}
			tree := c15TreeOp(parents)
			ops := make([]c15Op, 0, 2*n+2)
			xs := make([]int, n)
			for i := range xs {
				xs[i] = i + 1
			}
			var kb strings.Builder
			c15Perms(xs, func(perm []int) bool {
				kb.Reset()
				fmt.Fprintf(&kb, "%d/%d/", n, ti)
				for _, k := range perm {
					kb.WriteByte(byte('a' + k - 1))
				}
				key := kb.String()
				// variant 0: confirmed blocks only
				ops = append(ops[:0], tree)
				for _, k := range perm {
					ops = append(ops, c15Op{Op: "confirm", ID: c15ID(k)})
				}
				runEnum(ops, key+"/c")
				// variant 1: received proposals whose justify carries a commit id, each followed by its vote quorum
				ops = append(ops[:0], tree)
				for _, k := range perm {
					ops = append(ops, c15Op{Op: "prop", ID: c15ID(k), Commit: true}, c15Op{Op: "vote", ID: c15ID(k)})
				}
				runEnum(ops, key+"/pv")
				// variant 2 (n <= 5): one proposal delivered a second time at any later position
				if n <= 5 {
					for j := 0; j < n; j++ {
						for q := j + 1; q <= n; q++ {
							ops = append(ops[:0], tree)
							for i, k := range perm {
								if i == q {
									ops = append(ops, c15Op{Op: "confirm", ID: c15ID(perm[j])})
								}
								ops = append(ops, c15Op{Op: "confirm", ID: c15ID(k)})
							}
							if q == n {
								ops = append(ops, c15Op{Op: "confirm", ID: c15ID(perm[j])})
							}
							runEnum(ops, fmt.Sprintf("%s/d%d.%d", key, j, q))
						}
					}
				}
				return !violated
			})
		})
	}
	for n := 1; n <= maxN; n++ {
		enumN(n, 1)
	}
	if sampleN > 0 {
		enumN(sampleN, 4)
	}
	if hx.Tier() != "quick" {
		// thorough: trees of 7 proposals (two commits in a row become possible); all of them when the
		// run is split over >= 16 processes, every (16/shards)-th otherwise
		stride7 := maxInt(1, 16/hx.Shards())
		enumN(7, stride7)
		if !violated && stride7 == 1 {
			c.SetExhaustive("every proposal tree of 7 nodes (views = depth) x every arrival order, as confirmed blocks and as proposals with commit + vote" + boxNote)
		}
	}
	if !violated && hx.Tier() != "quick" {
		c.SetExhaustive("every proposal tree of <= 6 nodes (views = depth) x every arrival order, as confirmed blocks and as proposals with commit + vote; <= 5 nodes additionally with one duplicate at every position" + boxNote)
	} else if !violated {
		c.SetExhaustive("every proposal tree of <= 5 nodes (views = depth) x every arrival order, as confirmed blocks, as proposals with commit + vote, and with one duplicate at every position" + boxNote)
	}

	if violated {
		return // rapid refuses a *testing.T that has already failed
	}

	// --- rapid: larger trees, gapped views, restarted trees, interleaved marker operations ---
	c.Check(t, "pending-tree", hx.N(30000, 200000), func(cs *hx.Case) {
		rt := cs.RT()
		tree := c15GenTree(rt)
		m, err := c15NewMachine(tree)
		if err != nil {
			rt.Fatalf("generator produced a bad tree: %v", err)
		}
		cs.Op(tree)
		if err := m.check(tree); err != nil {
			cs.Failf("initial state: %v", err)
		}
		inorder := rapid.IntRange(0, 10).Draw(rt, "inorder")
		steps := rapid.IntRange(1, 3*len(tree.Nodes)+4).Draw(rt, "steps")
		for i := 0; i < steps; i++ {
			op, ok := c15GenOp(rt, m, inorder)
			if !ok {
				continue
			}
			if id := m.classify(op); id != "" && c15Exclude[id] {
				cs.Exclude(id)
				continue
			}
			cs.Op(op)
			if err := m.step(op); err != nil {
				cs.Failf("step %d %s: %v", len(cs.Trace)-1, c15OpString(op), err)
			}
		}
		c15Labels(m, cs.Label)
		if tree.Init == "restart" {
			cs.Label("restarted-tree")
		}
		for i := 1; i < len(tree.Nodes); i++ {
			if tree.Nodes[i].View > m.view[m.parent[i]]+1 {
				cs.Label("gapped-views")
				break
			}
		}
		if c15Nontrivial(m) {
			cs.Nontrivial()
		}
	})

	// --- pacemaker ---
	c.Check(t, "pacemaker-monotone", hx.N(2000, 20000), func(cs *hx.Case) {
		rt := cs.RT()
		n := rapid.IntRange(1, 30).Draw(rt, "n")
		views := []int64{rapid.Int64Range(-3, 1<<40).Draw(rt, "start")}
		for i := 0; i < n; i++ {
			var v int64
			if rapid.Bool().Draw(rt, "near") {
				v = views[0] + int64(rapid.IntRange(-6, 40).Draw(rt, "dv"))
			} else {
				v = rapid.Int64Range(-3, 1<<41).Draw(rt, "v")
			}
			views = append(views, v)
		}
		for _, v := range views {
			cs.Op(v)
		}
		if err := runC15Pacemaker(views); err != nil {
			cs.Failf("%v", err)
		}
		cs.Label("pacemaker")
	})
}

func maxInt(a, b int) int {
	if a > b {
		return a
	}
	return b
}
