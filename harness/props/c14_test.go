package props

// C14: quorum certificates need a quorum of distinct, valid validator signatures.
//
// Statement (necessary direction only): a proposal's / block's quorum certificate is ACCEPTED only if it
// carries valid signatures over the certified proposal id from at least T(n) = n - floor((n-1)/3) - 1
// distinct members, besides the collector, of the validator set in force for the certified view.
//
// Paths driven (all with the real CBFTCrypto, real P-256 keys of hx.Ring):
//   proposal : DefaultSaftyRules.CheckProposal(proposal, justify, validators) called like
//              Smr.handleReceivedProposal does (the proposal QC carries the leader's = collector's signature)
//   block    : the same function called like tdpos / xpoa CheckMinerMatch do (Smr.BlockToProposalNode gives a
//              proposal QC without any signer: the callee cannot know the collector)
//   smr      : Smr.handleReceivedProposal on a real CHAINED_BFT_NEW_PROPOSAL_MSG (hook VerifHandleReceivedProposal);
//              acceptance = the pacemaker is advanced with the justify QC / the proposal enters the qc tree
//   collect  : Smr.handleReceivedVoteMsg on real CHAINED_BFT_VOTE_MSGs (hook VerifHandleReceivedVoteMsg): the local
//              node is the collector; acceptance = it reaches "FULL VOTES" (advances its view / HighQC)
//   tdpos, xpoa : the plugins' CheckMinerMatch on a block whose consensus storage carries the certificate
//   vote     : DefaultSaftyRules.CheckVote on a single vote (the unit from which honest collectors build a QC)
//   threshold: DefaultSaftyRules.CalVotesThreshold
//
// The certificate descriptor is explicit (ring indices, which id was signed, which signature variant) and the
// model verdict is computed from those facts only, never from the class label.

import (
	"container/list"
	"encoding/json"
	"fmt"
	"os"
	"sort"
	"strings"
	"sync"
	"testing"

	"pgregory.net/rapid"

	"github.com/xuperchain/xupercore/bcs/consensus/tdpos"
	"github.com/xuperchain/xupercore/bcs/consensus/xpoa"
	xctx "github.com/xuperchain/xupercore/kernel/common/xcontext"
	"github.com/xuperchain/xupercore/kernel/consensus/base"
	cbftCommon "github.com/xuperchain/xupercore/kernel/consensus/base/common"
	cbft "github.com/xuperchain/xupercore/kernel/consensus/base/driver/chained-bft"
	cbftCrypto "github.com/xuperchain/xupercore/kernel/consensus/base/driver/chained-bft/crypto"
	cbftPb "github.com/xuperchain/xupercore/kernel/consensus/base/driver/chained-bft/pb"
	cctx "github.com/xuperchain/xupercore/kernel/consensus/context"
	"github.com/xuperchain/xupercore/kernel/consensus/def"
	"github.com/xuperchain/xupercore/kernel/contract"
	"github.com/xuperchain/xupercore/kernel/ledger"
	nctx "github.com/xuperchain/xupercore/kernel/network/context"
	"github.com/xuperchain/xupercore/kernel/network/p2p"
	"github.com/xuperchain/xupercore/lib/timer"
	xuperp2p "github.com/xuperchain/xupercore/protos"

	"verifharness/hx"
)

// ---------------------------------------------------------------------------------------------------------
// descriptor

// c14Entry is one signature entry of a certificate.
type c14Entry struct {
	K    string `json:"k"`             // class label, for readability only
	Addr int    `json:"addr"`          // ring index of the address the entry carries
	Key  int    `json:"key"`           // ring index of the public key the entry carries = of the private key that signed
	Msg  int    `json:"msg"`           // 0 = the certified proposal id was signed, 1 = another id
	Sig  int    `json:"sig"`           // 0 = signature #1 (CBFTCrypto.SignVoteMsg), 1 = a second, different valid signature, 2 = #1 with one bit flipped
	Pub  int    `json:"pub,omitempty"` // 1 = the same public key, its JSON text re-spaced (another serialisation of one key)
}

// c14Cert is one generated certificate plus the way it is submitted.
type c14Cert struct {
	Path      string     `json:"path"`      // proposal | block | smr | collect | vote | tdpos | xpoa
	N         int        `json:"n"`         // validator set in force for the certified view = Ring[0..N)
	Collector int        `json:"collector"` // ring index of the collector the callee is told about, -1 = callee cannot know it
	Entries   []c14Entry `json:"entries"`
	// Batch (path collect only): sizes of the consecutive groups of entries that travel in one vote message
	// (VoteMsg.Signature is a repeated field); nil = every entry is its own vote message.
	Batch []int `json:"batch,omitempty"`
	// Local (paths proposal / block / block-known / vote / smr / smr-pruned): 0 = the verifying node is an outsider key
	// (default); L > 0 = the verifying node is ring member L-1 - a validator judging a certificate that may carry an
	// entry under ITS OWN address (the statement makes no exception for entries in the verifier's name)
	Local int `json:"local,omitempty"`
}

const (
	c14OutsiderA = hx.RingSize - 2 // non-member keys (N <= 10)
	c14OutsiderB = hx.RingSize - 1
	c14MaxN      = 10
)

var (
	c14CertifiedID = []byte("c14-certified-proposal-id-000001") // 32 bytes, used as the ECDSA digest
	c14OtherID     = []byte("c14-some-other-proposal-id-00002") // 32 bytes
	c14GenesisID   = []byte("c14-genesis-proposal-id-00000000")
	c14ProposalID  = []byte("c14-the-new-proposal-id-00000003")
)

// c14Threshold is the statement's bound: n - floor((n-1)/3) - 1.
func c14Threshold(n int) int { return n - (n-1)/3 - 1 }

// c14Exclude: finding id -> certificates matching the finding's classifier are skipped.
var c14Exclude = map[string]bool{}

const (
	c14FindDup       = "C14-duplicate-signature-counted"
	c14FindCollector = "C14-collector-signature-counted"
	c14FindVoteSig   = "C14-invalid-vote-signature-accepted"
	c14FindVoteBatch = "C14-vote-extra-signatures-stored"
)

// ---------------------------------------------------------------------------------------------------------
// signatures (cached: ECDSA is the cost)

type c14SigKey struct{ Key, Msg, Sig int }

var (
	c14Mu      sync.Mutex
	c14Sigs    = map[c14SigKey][]byte{}
	c14Cryptos = map[int]*cbftCrypto.CBFTCrypto{}
	c14Facts   = map[c14Entry]bool{}
	// c14PropSigns: collector -> its signature on a proposal message (path proposal)
	c14PropSigns = map[int]*cbftPb.QuorumCertSign{}
)

func c14CryptoOf(i int) *cbftCrypto.CBFTCrypto {
	if c, ok := c14Cryptos[i]; ok {
		return c
	}
	k := hx.Ring[i]
	c := cbftCrypto.NewCBFTCrypto(&cctx.Address{Address: k.Address, PrivateKey: k.Priv, PrivateKeyStr: k.PrvJSON,
		PublicKey: &k.Priv.PublicKey, PublicKeyStr: k.PubJSON}, hx.Crypt)
	c14Cryptos[i] = c
	return c
}

func c14Msg(m int) []byte {
	if m == 0 {
		return c14CertifiedID
	}
	return c14OtherID
}

// c14Signature returns the signature bytes for (key, msg, variant); harness self-checks panic.
func c14Signature(key, msg, variant int) []byte {
	sk := c14SigKey{key, msg, variant}
	if s, ok := c14Sigs[sk]; ok {
		return s
	}
	pub := &hx.Ring[key].Priv.PublicKey
	var out []byte
	switch variant {
	case 0: // the real vote signing function
		qs, err := c14CryptoOf(key).SignVoteMsg(c14Msg(msg))
		if err != nil {
			panic(fmt.Sprintf("c14 harness: SignVoteMsg: %v", err))
		}
		out = qs.Sign
	case 1: // a second valid signature of the same key over the same id
		out = hx.DetSign(hx.Ring[key].Priv, c14Msg(msg))
		if string(out) == string(c14Signature(key, msg, 0)) {
			panic("c14 harness: second signature equals the first")
		}
	case 2: // corrupted: one bit of the s value flipped, DER structure kept
		base := c14Signature(key, msg, 0)
		out = append([]byte{}, base...)
		out[len(out)-1] ^= 0x01
	}
	ok, _ := hx.Crypt.VerifyECDSA(pub, out, c14Msg(msg))
	if (variant != 2) != ok {
		panic(fmt.Sprintf("c14 harness: signature variant %d of key %d verifies=%v", variant, key, ok))
	}
	c14Sigs[sk] = out
	return out
}

func c14SignOf(e c14Entry) *cbftPb.QuorumCertSign {
	pub := hx.Ring[e.Key].PubJSON
	if e.Pub == 1 {
		pub = strings.Replace(pub, "{", "{ ", 1) + " "
	}
	return &cbftPb.QuorumCertSign{Address: hx.Ring[e.Addr].Address, PublicKey: pub,
		Sign: c14Signature(e.Key, e.Msg, e.Sig)}
}

// c14WarmUp: before anything is judged, every verifier instance the direct paths use has verified - successfully and
// legitimately - each key's vote for ANOTHER proposal id (a sibling the node saw earlier). A verdict must not
// depend on what a verifier has seen before: the "wrongid" entries of later certificates carry exactly these
// signatures.
var c14WarmOnce sync.Once

func c14WarmUp() {
	c14WarmOnce.Do(func() {
		for _, v := range []int{c14OutsiderB, 0} {
			for k := 0; k < hx.RingSize; k++ {
				for sig := 0; sig <= 1; sig++ {
					qs := c14SignOf(c14Entry{Addr: k, Key: k, Msg: 1, Sig: sig})
					if ok, err := c14CryptoOf(v).VerifyVoteMsgSign(qs, c14OtherID); !ok || err != nil {
						panic(fmt.Sprintf("c14 harness: warm-up vote of key %d over the other id does not verify: %v %v", k, ok, err))
					}
				}
			}
		}
	})
}

// c14EntryValid is the model: the entry is a valid signature of the owner of its address over the certified id.
// Cross-checked once per entry shape against the crypto primitives (address of the public key, ECDSA verify).
func c14EntryValid(e c14Entry) bool {
	model := e.Addr == e.Key && e.Msg == 0 && (e.Sig == 0 || e.Sig == 1)
	fk := e
	fk.K = ""
	if _, ok := c14Facts[fk]; !ok {
		qs := c14SignOf(e)
		pk, err := hx.Crypt.GetEcdsaPublicKeyFromJsonStr(qs.PublicKey)
		if err != nil {
			panic(fmt.Sprintf("c14 harness: %v", err))
		}
		addr, _ := hx.Crypt.GetAddressFromPublicKey(pk)
		sigOK, _ := hx.Crypt.VerifyECDSA(pk, qs.Sign, c14CertifiedID)
		fact := addr == qs.Address && sigOK
		if fact != model {
			panic(fmt.Sprintf("c14 harness: model says valid=%v but primitives say %v for %+v", model, fact, e))
		}
		c14Facts[fk] = fact
	}
	return model
}

// c14Good counts the distinct members of Ring[0..n), other than the collector, with a valid signature over the
// certified id among the entries.
func c14Good(d c14Cert) int {
	seen := map[int]bool{}
	for _, e := range d.Entries {
		if e.Addr < 0 || e.Addr >= d.N || e.Addr == d.Collector {
			continue
		}
		if c14EntryValid(e) {
			seen[e.Addr] = true
		}
	}
	return len(seen)
}

// classifiers of the known root causes (on the generated certificate only)

// c14HasDupValid: two entries with the same member address that both verify.
func c14HasDupValid(d c14Cert) bool {
	cnt := map[int]int{}
	for _, e := range d.Entries {
		if e.Addr >= 0 && e.Addr < d.N && c14EntryValid(e) {
			cnt[e.Addr]++
			if cnt[e.Addr] > 1 {
				return true
			}
		}
	}
	return false
}

// c14HasCollectorValid: an entry of the (known, member) collector that verifies.
func c14HasCollectorValid(d c14Cert) bool {
	if d.Collector < 0 || d.Collector >= d.N {
		return false
	}
	for _, e := range d.Entries {
		if e.Addr == d.Collector && c14EntryValid(e) {
			return true
		}
	}
	return false
}

// c14Groups: the entries grouped into vote messages (path collect).
func c14Groups(d c14Cert) [][]c14Entry {
	var out [][]c14Entry
	if len(d.Batch) == 0 {
		for _, e := range d.Entries {
			out = append(out, []c14Entry{e})
		}
		return out
	}
	i := 0
	for _, g := range d.Batch {
		out = append(out, d.Entries[i:i+g])
		i += g
	}
	return out
}

// c14HasInvalidMemberVote: a vote whose (first) signature carries a member's address and that member's own public
// key but does not verify over the voted id (wrong id / corrupted).
func c14HasInvalidMemberVote(d c14Cert) bool {
	var firsts []c14Entry
	switch d.Path {
	case "vote":
		if len(d.Entries) > 0 {
			firsts = append(firsts, d.Entries[0])
		}
	case "collect":
		for _, g := range c14Groups(d) {
			firsts = append(firsts, g[0])
		}
	}
	for _, e := range firsts {
		if e.Addr < d.N && e.Addr == e.Key && !c14EntryValid(e) {
			return true
		}
	}
	return false
}

// c14HasMultiSigVote: a vote message carrying more than one signature (path collect).
func c14HasMultiSigVote(d c14Cert) bool {
	if d.Path != "collect" {
		return false
	}
	for _, g := range d.Batch {
		if g > 1 {
			return true
		}
	}
	return false
}

func c14Excluded(d c14Cert) string {
	if d.Path == "vote" || d.Path == "collect" {
		if c14Exclude[c14FindVoteSig] && c14HasInvalidMemberVote(d) {
			return c14FindVoteSig
		}
		if c14Exclude[c14FindVoteBatch] && c14HasMultiSigVote(d) {
			return c14FindVoteBatch
		}
		return ""
	}
	// CheckProposal paths: a certificate is skipped only if one of the still-active counting defects can explain
	// its acceptance, i.e. the statement demands rejection (good < need) but the member entries that verify reach
	// the threshold once repeated entries (dup) and / or the collector's own entries (collector) are counted.
	need := c14Threshold(d.N)
	if c14Good(d) >= need {
		return ""
	}
	per := map[int]int{}
	for _, e := range d.Entries {
		if e.Addr >= 0 && e.Addr < d.N && c14EntryValid(e) {
			per[e.Addr]++
		}
	}
	count := func(withRepeats, withCollector bool) int {
		n := 0
		for a, c := range per { // a sum: independent of the iteration order
			if a == d.Collector && !withCollector {
				continue
			}
			if withRepeats {
				n += c
			} else {
				n++
			}
		}
		return n
	}
	exD := c14Exclude[c14FindDup] && c14HasDupValid(d)
	exC := c14Exclude[c14FindCollector] && c14HasCollectorValid(d)
	switch {
	case exD && count(true, false) >= need:
		return c14FindDup
	case exC && count(false, true) >= need:
		return c14FindCollector
	case exD && exC && count(true, true) >= need:
		return c14FindDup
	}
	return ""
}

// ---------------------------------------------------------------------------------------------------------
// running a certificate through the code

type c14NopLog struct{}

func (c14NopLog) GetLogId() string                       { return "c14" }
func (c14NopLog) SetCommField(key string, v interface{}) {}
func (c14NopLog) SetInfoField(key string, v interface{}) {}
func (c14NopLog) Error(msg string, ctx ...interface{})   {}
func (c14NopLog) Warn(msg string, ctx ...interface{})    {}
func (c14NopLog) Info(msg string, ctx ...interface{})    {}
func (c14NopLog) Trace(msg string, ctx ...interface{})   {}
func (c14NopLog) Debug(msg string, ctx ...interface{})   {}

func c14Validators(n int) []string {
	out := make([]string, n)
	for i := 0; i < n; i++ {
		out[i] = hx.Ring[i].Address
	}
	return out
}

// c14Tree: genesis(view 0) -> certified proposal (view 1); the new proposal has view 2.
func c14Tree() *cbft.QCPendingTree {
	p1 := &cbft.ProposalNode{In: &cbft.QuorumCert{
		VoteInfo:         &cbft.VoteInfo{ProposalId: c14CertifiedID, ProposalView: 1, ParentId: c14GenesisID, ParentView: 0},
		LedgerCommitInfo: &cbft.LedgerCommitInfo{VoteInfoHash: c14CertifiedID},
	}}
	g := &cbft.ProposalNode{In: &cbft.QuorumCert{
		VoteInfo:         &cbft.VoteInfo{ProposalId: c14GenesisID, ProposalView: 0},
		LedgerCommitInfo: &cbft.LedgerCommitInfo{CommitStateId: c14GenesisID},
	}, Sons: []*cbft.ProposalNode{p1}}
	return &cbft.QCPendingTree{Genesis: g, Root: g, HighQC: g, CommitQC: g, Log: c14NopLog{},
		OrphanList: list.New(), OrphanMap: map[string]bool{}}
}

// the local node (receiver of proposals / votes) is an outsider key so that it never coincides with a signer
func c14Rules(tree *cbft.QCPendingTree) *cbft.DefaultSaftyRules {
	return &cbft.DefaultSaftyRules{Crypto: c14CryptoOf(c14OutsiderB), QcTree: tree, Log: c14NopLog{}}
}

// c14LocalKey: ring index of the verifying node of d.
func c14LocalKey(d c14Cert) int {
	if d.Local > 0 && d.Local <= hx.RingSize {
		return d.Local - 1
	}
	return c14OutsiderB
}

func c14RulesOf(tree *cbft.QCPendingTree, d c14Cert) *cbft.DefaultSaftyRules {
	return &cbft.DefaultSaftyRules{Crypto: c14CryptoOf(c14LocalKey(d)), QcTree: tree, Log: c14NopLog{}}
}

func c14Justify(d c14Cert) *cbft.QuorumCert {
	qc := &cbft.QuorumCert{
		VoteInfo:         &cbft.VoteInfo{ProposalId: c14CertifiedID, ProposalView: 1, ParentId: c14GenesisID, ParentView: 0},
		LedgerCommitInfo: &cbft.LedgerCommitInfo{VoteInfoHash: c14CertifiedID},
	}
	for _, e := range d.Entries {
		qc.SignInfos = append(qc.SignInfos, c14SignOf(e))
	}
	return qc
}

type c14Election struct{ n int }

func (e *c14Election) GetLeader(round int64) string { return "" } // no next leader: the replica sends no vote
func (e *c14Election) GetValidators(round int64) []string {
	if round == 1 {
		return c14Validators(e.n)
	}
	// any other view: a set of the same size in which the two outsider keys replace the last members (asking for
	// the set of the wrong view lets non-member entries count and shows up as an acceptance)
	out := c14Validators(e.n)
	for i, o := 0, []int{c14OutsiderA, c14OutsiderB}; i < len(o) && i < e.n; i++ {
		out[e.n-1-i] = hx.Ring[o[i]].Address
	}
	return out
}
func (e *c14Election) GetIntAddress(a string) string { return a }

type c14Pacemaker struct {
	view     int64
	advanced [][]byte
}

func (p *c14Pacemaker) GetCurrentView() int64 { return p.view }
func (p *c14Pacemaker) AdvanceView(qc cbft.QuorumCertInterface) (bool, error) {
	p.advanced = append(p.advanced, qc.GetProposalId())
	if qc.GetProposalView()+1 > p.view {
		p.view = qc.GetProposalView() + 1
	}
	return false, nil // never ask the smr to forward the message over p2p
}

func c14CheckDesc(d c14Cert) error {
	if d.N < 1 || d.N > c14MaxN {
		return fmt.Errorf("descriptor: n=%d out of range", d.N)
	}
	if d.Collector < -1 || d.Collector >= hx.RingSize {
		return fmt.Errorf("descriptor: collector=%d out of range", d.Collector)
	}
	for _, e := range d.Entries {
		if e.Addr < 0 || e.Addr >= hx.RingSize || e.Key < 0 || e.Key >= hx.RingSize || e.Msg < 0 || e.Msg > 1 || e.Sig < 0 || e.Sig > 2 {
			return fmt.Errorf("descriptor: bad entry %+v", e)
		}
	}
	if len(d.Batch) > 0 {
		sum := 0
		for _, g := range d.Batch {
			if g < 1 {
				return fmt.Errorf("descriptor: bad batch %v", d.Batch)
			}
			sum += g
		}
		if sum != len(d.Entries) || d.Path != "collect" {
			return fmt.Errorf("descriptor: batch %v does not fit %d entries of path %s", d.Batch, len(d.Entries), d.Path)
		}
	}
	return nil
}

// c14Run submits the certificate; accepted = the code accepted the certificate (the vote, for path "vote").
func c14Run(d c14Cert) (accepted bool, detail string, err error) {
	c14WarmUp()
	if err := c14CheckDesc(d); err != nil {
		return false, "", err
	}
	switch d.Path {
	case "proposal", "block", "block-known":
		tree := c14Tree()
		if d.Path == "block-known" {
			// the proposal is already a node of the local pending tree (the node heard of it through a proposal
			// message before the block arrives): the block's certificate has to be judged all the same
			known := &cbft.ProposalNode{In: &cbft.QuorumCert{
				VoteInfo:         &cbft.VoteInfo{ProposalId: c14ProposalID, ProposalView: 2, ParentId: c14CertifiedID, ParentView: 1},
				LedgerCommitInfo: &cbft.LedgerCommitInfo{VoteInfoHash: c14ProposalID},
			}}
			tree.Root.Sons[0].Sons = append(tree.Root.Sons[0].Sons, known)
		}
		rules := c14RulesOf(tree, d)
		proposal := &cbft.QuorumCert{VoteInfo: &cbft.VoteInfo{ProposalId: c14ProposalID, ProposalView: 2,
			ParentId: c14CertifiedID, ParentView: 1}}
		if d.Path == "proposal" {
			if d.Collector < 0 {
				return false, "", fmt.Errorf("descriptor: path proposal needs a collector")
			}
			// like handleReceivedProposal: SignInfos = the ProposalMsg's own signature (the leader's). Nobody verifies
			// that signature against the justify bytes, so one real signature per collector is cached here (path smr
			// signs every message for real).
			ps, ok := c14PropSigns[d.Collector]
			if !ok {
				pm, e := c14CryptoOf(d.Collector).SignProposalMsg(&cbftPb.ProposalMsg{ProposalView: 2, ProposalId: c14ProposalID, Timestamp: 1})
				if e != nil {
					return false, "", e
				}
				ps = pm.Sign
				c14PropSigns[d.Collector] = ps
			}
			proposal.SignInfos = []*cbftPb.QuorumCertSign{ps}
		} else if d.Collector >= 0 {
			return false, "", fmt.Errorf("descriptor: path %s cannot tell the callee a collector", d.Path)
		}
		e := rules.CheckProposal(proposal, c14Justify(d), c14Validators(d.N))
		if e != nil {
			return false, e.Error(), nil
		}
		return true, "CheckProposal = nil", nil
	case "smr", "smr-pruned":
		if d.Collector < 0 {
			return false, "", fmt.Errorf("descriptor: path smr needs a collector")
		}
		tree := c14Tree()
		if d.Path == "smr-pruned" {
			// the instance has run for a while: three more proposals hang below the certified one and the commit rule
			// has moved the root of the pending tree onto the certified proposal (the proposal under check forks there)
			prev, ids := tree.Root.Sons[0], [][]byte{[]byte("c14-later-proposal-0000000000001"), []byte("c14-later-proposal-0000000000002"), []byte("c14-later-proposal-0000000000003")}
			for i, id := range ids {
				nd := &cbft.ProposalNode{In: &cbft.QuorumCert{
					VoteInfo:         &cbft.VoteInfo{ProposalId: id, ProposalView: int64(2 + i), ParentId: prev.In.GetProposalId(), ParentView: int64(1 + i)},
					LedgerCommitInfo: &cbft.LedgerCommitInfo{VoteInfoHash: id},
				}}
				prev.Sons = append(prev.Sons, nd)
				prev = nd
			}
			tree.VerifUpdateCommit(ids[2])
			if string(tree.Root.In.GetProposalId()) != string(c14CertifiedID) {
				return false, "", fmt.Errorf("harness: the commit did not move the root onto the certified proposal")
			}
		}
		pm := &c14Pacemaker{view: 1}
		local := c14CryptoOf(c14LocalKey(d))
		smr := cbft.NewSmr(hx.BCName, local.Address.Address, c14NopLog{}, nil, local, pm, c14RulesOf(tree, d), &c14Election{n: d.N}, tree)
		jb, e := json.Marshal(c14Justify(d))
		if e != nil {
			return false, "", e
		}
		msg, e := c14CryptoOf(d.Collector).SignProposalMsg(&cbftPb.ProposalMsg{ProposalView: 2, ProposalId: c14ProposalID,
			Timestamp: 1, JustifyQC: jb})
		if e != nil {
			return false, "", e
		}
		net := p2p.NewMessage(xuperp2p.XuperMessage_CHAINED_BFT_NEW_PROPOSAL_MSG, msg, p2p.WithBCName(hx.BCName))
		smr.VerifHandleReceivedProposal(net)
		inTree := tree.DFSQueryNode(c14ProposalID) != nil
		if len(pm.advanced) > 0 || inTree {
			return true, fmt.Sprintf("pacemaker advanced %d time(s), proposal in qc tree = %v", len(pm.advanced), inTree), nil
		}
		return false, "proposal dropped", nil
	case "collect":
		// the local node is the collector (next leader): it has processed the proposal for the certified id and now
		// receives vote messages; accepted = it considers the proposal certified (advances its view / HighQC)
		if d.Collector < 0 {
			return false, "", fmt.Errorf("descriptor: path collect needs a collector")
		}
		g := &cbft.ProposalNode{In: &cbft.QuorumCert{
			VoteInfo:         &cbft.VoteInfo{ProposalId: c14GenesisID, ProposalView: 0},
			LedgerCommitInfo: &cbft.LedgerCommitInfo{CommitStateId: c14GenesisID},
		}}
		tree := &cbft.QCPendingTree{Genesis: g, Root: g, HighQC: g, CommitQC: g, Log: c14NopLog{},
			OrphanList: list.New(), OrphanMap: map[string]bool{}}
		pm := &c14Pacemaker{view: 1}
		local := c14CryptoOf(d.Collector)
		rules := &cbft.DefaultSaftyRules{Crypto: local, QcTree: tree, Log: c14NopLog{}}
		smr := cbft.NewSmr(hx.BCName, local.Address.Address, c14NopLog{}, nil, local, pm, rules, &c14Election{n: d.N}, tree)
		// the proposal for the certified id (first proposal after genesis: its justify is the genesis qc)
		jb, _ := json.Marshal(&cbft.QuorumCert{VoteInfo: &cbft.VoteInfo{ProposalId: c14GenesisID, ProposalView: 0}})
		pmsg, e := c14CryptoOf(c14OutsiderA).SignProposalMsg(&cbftPb.ProposalMsg{ProposalView: 1, ProposalId: c14CertifiedID,
			Timestamp: 1, JustifyQC: jb})
		if e != nil {
			return false, "", e
		}
		smr.VerifHandleReceivedProposal(p2p.NewMessage(xuperp2p.XuperMessage_CHAINED_BFT_NEW_PROPOSAL_MSG, pmsg, p2p.WithBCName(hx.BCName)))
		if tree.DFSQueryNode(c14CertifiedID) == nil {
			return false, "", fmt.Errorf("harness: the collector did not take the proposal for the certified id")
		}
		pm.advanced = nil
		vb, _ := json.Marshal(&cbft.VoteInfo{ProposalId: c14CertifiedID, ProposalView: 1, ParentId: c14GenesisID, ParentView: 0})
		lb, _ := json.Marshal(&cbft.LedgerCommitInfo{VoteInfoHash: c14CertifiedID})
		taken := 0
		for _, grp := range c14Groups(d) {
			vm := &cbftPb.VoteMsg{VoteInfo: vb, LedgerCommitInfo: lb}
			for _, en := range grp {
				vm.Signature = append(vm.Signature, c14SignOf(en))
			}
			if smr.VerifHandleReceivedVoteMsg(p2p.NewMessage(xuperp2p.XuperMessage_CHAINED_BFT_VOTE_MSG, vm, p2p.WithBCName(hx.BCName))) == nil {
				taken++
			}
		}
		high := string(tree.GetHighQC().In.GetProposalId()) == string(c14CertifiedID)
		if len(pm.advanced) > 0 || high {
			return true, fmt.Sprintf("collector reached FULL VOTES: view advanced %d time(s), HighQC is the certified proposal = %v, %d vote message(s) taken", len(pm.advanced), high, taken), nil
		}
		return false, fmt.Sprintf("no quorum, %d vote message(s) taken", taken), nil
	case "vote":
		rules := c14RulesOf(c14Tree(), d)
		e := rules.CheckVote(c14Justify(d), "c14", c14Validators(d.N))
		if e != nil {
			return false, e.Error(), nil
		}
		return true, "CheckVote = nil", nil
	}
	if f, ok := c14ExtraPaths[d.Path]; ok {
		return f(d)
	}
	return false, "", fmt.Errorf("descriptor: unknown path %q", d.Path)
}

// c14LocalPaths: paths on which the descriptor's Local field chooses the verifying node.
var c14LocalPaths = map[string]bool{"proposal": true, "block": true, "block-known": true, "smr": true, "smr-pruned": true}

// c14ExtraPaths: further submission paths (consensus plugins), registered by their own section below.
var c14ExtraPaths = map[string]func(d c14Cert) (bool, string, error){}

type c14Verdict struct {
	Accepted bool
	Good     int
	Need     int
	Detail   string
}

// c14Eval runs the certificate and applies the oracle (necessary direction only).
func c14Eval(d c14Cert) (v c14Verdict, err error) {
	defer func() {
		if r := recover(); r != nil {
			err = fmt.Errorf("panic while checking certificate: %v", r)
		}
	}()
	c14Mu.Lock()
	defer c14Mu.Unlock()
	acc, detail, e := c14Run(d)
	if e != nil {
		return v, e
	}
	v = c14Verdict{Accepted: acc, Detail: detail}
	if d.Path == "vote" {
		// a vote is accepted only if it carries a valid signature of a member over the voted id (the code looks at
		// the first signature only; the oracle does not insist on the position)
		v.Need = 1
		for _, e := range d.Entries {
			if e.Addr < d.N && c14EntryValid(e) {
				v.Good = 1
			}
		}
		if acc && v.Good < 1 {
			return v, fmt.Errorf("vote accepted (%s) although it carries no valid signature of a member of the %d validators over the voted id: %s", detail, d.N, c14Describe(d))
		}
		return v, nil
	}
	v.Good = c14Good(d)
	v.Need = c14Threshold(d.N)
	if acc && v.Good < v.Need {
		return v, fmt.Errorf("certificate accepted via %s (%s) with valid signatures over the certified id from only %d distinct members besides the collector; n=%d needs %d: %s",
			d.Path, detail, v.Good, d.N, v.Need, c14Describe(d))
	}
	return v, nil
}

// evalC14 is the replay entry point: nil = the statement held on this certificate.
func evalC14(d c14Cert) error {
	_, err := c14Eval(d)
	return err
}

func c14Describe(d c14Cert) string {
	s := fmt.Sprintf("n=%d collector=%d entries=[", d.N, d.Collector)
	for i, e := range d.Entries {
		if i > 0 {
			s += " "
		}
		s += fmt.Sprintf("%s(addr %d key %d msg %d sig %d pub %d)", e.K, e.Addr, e.Key, e.Msg, e.Sig, e.Pub)
	}
	return s + "]"
}

func init() {
	replayers["C14/qc-enumeration"] = func(raw json.RawMessage, fs *hx.FindingSet) error {
		var d c14Cert
		if err := json.Unmarshal(raw, &d); err != nil {
			return err
		}
		return evalC14(d)
	}
	replayers["C14/qc-random"] = func(raw json.RawMessage, fs *hx.FindingSet) error {
		var ds []c14Cert
		if err := json.Unmarshal(raw, &ds); err != nil {
			return err
		}
		for _, d := range ds {
			if err := evalC14(d); err != nil {
				return err
			}
		}
		return nil
	}
	replayers["C14/threshold"] = func(raw json.RawMessage, fs *hx.FindingSet) error {
		var in struct{ K, N int }
		if err := json.Unmarshal(raw, &in); err != nil {
			return err
		}
		return c14ThresholdCase(in.K, in.N)
	}
}

// ---------------------------------------------------------------------------------------------------------
// generation: class counts -> explicit certificate

// c14Counts is a multiset of entry classes.
type c14Counts struct {
	A  int `json:"valid"`        // valid signature of a further distinct member (not the collector)
	B  int `json:"repeat"`       // the same signature of a member already present, again
	B2 int `json:"repeat2"`      // a second, different valid signature of a member already present
	NM int `json:"nonmember"`    // non-member, valid signature over the certified id
	W  int `json:"wrongid"`      // member, valid signature over ANOTHER id
	X  int `json:"corrupted"`    // member, corrupted signature
	F  int `json:"foreignkey"`   // member address, public key and signature of a non-member
	M  int `json:"memberkey"`    // member address, public key and signature of ANOTHER member (one member casting a second member's vote)
	C  int `json:"collectorsig"` // the collector's own valid signature
}

func (k c14Counts) total() int   { return k.A + k.B + k.B2 + k.NM + k.W + k.X + k.F + k.M + k.C }
func (k c14Counts) useless() int { return k.total() - k.A }

// c14Variant: deterministic placement choices that the class multiset leaves open.
type c14Variant struct {
	BadOnPresent bool `json:"badOnPresent"` // W/X/F entries go to members that also have a valid entry first (else to fresh members first)
	Reverse      bool `json:"reverse"`      // entry order reversed (useless entries first)
	Batch        bool `json:"batch"`        // path collect: first valid entry + all others in ONE vote message, the last valid entry in its own
}

// c14Voters: the members that can be "a further distinct member" (all members but a known collector).
func c14Voters(n, collector int) []int {
	var out []int
	for i := 0; i < n; i++ {
		if i != collector {
			out = append(out, i)
		}
	}
	return out
}

// c14Feasible: can the class multiset be realised for (n, collector)?
func c14Feasible(n, collector int, k c14Counts) bool {
	voters := len(c14Voters(n, collector))
	if k.A > voters {
		return false
	}
	if (k.B > 0 || k.B2 > 0) && k.A == 0 {
		return false
	}
	if (k.W > 0 || k.X > 0 || k.F > 0) && voters == 0 {
		return false
	}
	if k.C > 0 && collector < 0 {
		return false
	}
	if k.M > 0 && voters < 2 {
		return false
	}
	return true
}

// c14FeasiblePath: the collector's own signature is generated only where the callee is a third party that is told
// who the collector is; on path collect the callee IS the (honest) collector, which never votes for itself.
func c14FeasiblePath(path string, k c14Counts) bool {
	return !(path == "collect" && k.C > 0)
}

func c14Build(path string, n, collector int, k c14Counts, v c14Variant) c14Cert {
	voters := c14Voters(n, collector)
	var es []c14Entry
	for i := 0; i < k.A; i++ {
		es = append(es, c14Entry{K: "valid", Addr: voters[i], Key: voters[i]})
	}
	for i := 0; i < k.B; i++ {
		m := voters[i%k.A]
		// every other repeat states the same public key in another serialisation
		es = append(es, c14Entry{K: "repeat", Addr: m, Key: m, Pub: (i + 1) % 2})
	}
	for i := 0; i < k.B2; i++ {
		m := voters[i%k.A]
		es = append(es, c14Entry{K: "repeat2", Addr: m, Key: m, Sig: 1, Pub: i % 2})
	}
	for i := 0; i < k.NM; i++ {
		o := c14OutsiderA + i%2
		es = append(es, c14Entry{K: "nonmember", Addr: o, Key: o})
	}
	// members for the bad entries
	var order []int
	if v.BadOnPresent {
		order = append(append(order, voters[:k.A]...), voters[k.A:]...)
	} else {
		order = append(append(order, voters[k.A:]...), voters[:k.A]...)
	}
	bi := 0
	next := func() int { m := order[bi%len(order)]; bi++; return m }
	for i := 0; i < k.W; i++ {
		m := next()
		es = append(es, c14Entry{K: "wrongid", Addr: m, Key: m, Msg: 1})
	}
	for i := 0; i < k.X; i++ {
		m := next()
		es = append(es, c14Entry{K: "corrupted", Addr: m, Key: m, Sig: 2})
	}
	for i := 0; i < k.F; i++ {
		es = append(es, c14Entry{K: "foreignkey", Addr: next(), Key: c14OutsiderB})
	}
	for i := 0; i < k.M; i++ {
		// the key (and signature) of the first voter - which has its own valid entry whenever A >= 1 - under
		// the address of another member
		m, key := next(), voters[0]
		if m == key {
			key = voters[1]
		}
		es = append(es, c14Entry{K: "memberkey", Addr: m, Key: key})
	}
	for i := 0; i < k.C; i++ {
		es = append(es, c14Entry{K: "collectorsig", Addr: collector, Key: collector, Sig: i % 2})
	}
	if v.Reverse {
		for i, j := 0, len(es)-1; i < j; i, j = i+1, j-1 {
			es[i], es[j] = es[j], es[i]
		}
	}
	d := c14Cert{Path: path, N: n, Collector: collector, Entries: es}
	if v.Batch && path == "collect" && len(es) >= 2 {
		// first valid entry to the front, last valid entry (of another member, if any) to the end
		first, last := -1, -1
		for i, e := range es {
			if e.K == "valid" {
				if first < 0 {
					first = i
				}
				last = i
			}
		}
		var mid []c14Entry
		for i, e := range es {
			if i != first && i != last {
				mid = append(mid, e)
			}
		}
		var re []c14Entry
		if first >= 0 {
			re = append(re, es[first])
		}
		re = append(re, mid...)
		if last >= 0 && last != first {
			re = append(re, es[last])
		}
		d.Entries = re
		d.Batch = []int{len(re) - 1, 1}
	}
	return d
}

// c14EachCounts enumerates every class multiset of size <= max (lexicographic, deterministic).
func c14EachCounts(max int, f func(k c14Counts)) {
	for a := 0; a <= max; a++ {
		for b := 0; a+b <= max; b++ {
			for b2 := 0; a+b+b2 <= max; b2++ {
				for nm := 0; a+b+b2+nm <= max; nm++ {
					for w := 0; a+b+b2+nm+w <= max; w++ {
						for x := 0; a+b+b2+nm+w+x <= max; x++ {
							for fk := 0; a+b+b2+nm+w+x+fk <= max; fk++ {
								for mk := 0; a+b+b2+nm+w+x+fk+mk <= max; mk++ {
									for c := 0; a+b+b2+nm+w+x+fk+mk+c <= max; c++ {
										f(c14Counts{A: a, B: b, B2: b2, NM: nm, W: w, X: x, F: fk, M: mk, C: c})
									}
								}
							}
						}
					}
				}
			}
		}
	}
}

// ---------------------------------------------------------------------------------------------------------
// threshold arithmetic

func c14ThresholdCase(k, n int) error {
	s := &cbft.DefaultSaftyRules{}
	got := s.CalVotesThreshold(k, n)
	if got && k < c14Threshold(n) {
		return fmt.Errorf("CalVotesThreshold(%d, %d) = true but %d validators need %d signatures besides the collector", k, n, n, c14Threshold(n))
	}
	return nil
}

// ---------------------------------------------------------------------------------------------------------
// the test

type c14Stats struct {
	pathEval  map[string]int
	pathAcc   map[string]int
	evaluated map[int]int
	accepted  map[int]int
	clean     map[int]int
	cleanAcc  map[int]int
}

func TestC14(t *testing.T) {
	c := hx.NewCollector("C14", "exploration",
		"exhaustive enumeration, per validator-set size n, of all multisets (size <= n+1) of quorum-certificate signature entries over the classes {valid signature of a further distinct member, same signature repeated, second valid signature of a member already present, non-member, member signing another id, corrupted member signature, member address with a foreign (non-member) key, member address with ANOTHER member's key and signature, the collector's own signature}, real P-256 signatures, every boundary certificate judged a second time by a verifier that IS the member under whose address the first useless entry is filed (forged vote in the verifier's own name), submitted through CheckProposal as the smr calls it (collector known), as tdpos/xpoa CheckMinerMatch call it (collector unknown), and through Smr.handleReceivedProposal; plus CheckVote on single votes, CalVotesThreshold for all n <= 10, and random multisets (size <= n+4) for larger n. Oracle: accepted => #distinct members besides the collector with a valid signature over the certified id >= n - floor((n-1)/3) - 1. Non-trivial = the multiset contains >= 1 entry that must not count and the number of distinct valid members is exactly threshold-1 (counting the useless entry would flip the verdict); distinct = hash of (n, class multiset)",
		"necessary direction only: a tree that rejects more certificates is not a violation", "view / qc-tree preconditions of CheckProposal are satisfied as in a running chain (certified proposal is in the local qc tree, views adjacent)")
	defer c.Flush(t)
	noExclude := os.Getenv("C14_NO_EXCLUDE") == "1"
	thorough := hx.Tier() == "thorough"
	failures := 0
	violated := map[string]bool{}
	fail := func(test, msg string, trace interface{}) {
		failures++
		if !violated[test] { // keep the first (= smallest) failing certificate of an ascending enumeration
			violated[test] = true
			c.Violate(test, msg, trace)
		}
		if failures <= 5 {
			t.Errorf("%s: %s", test, msg)
		}
	}

	// 0. witnesses of the known root causes: decide the exclusions of this run
	witnesses := []struct {
		id string
		d  c14Cert
	}{
		{c14FindDup, c14Cert{Path: "proposal", N: 4, Collector: 0, Entries: []c14Entry{
			{K: "valid", Addr: 1, Key: 1}, {K: "repeat", Addr: 1, Key: 1}}}},
		{c14FindCollector, c14Cert{Path: "proposal", N: 4, Collector: 0, Entries: []c14Entry{
			{K: "valid", Addr: 1, Key: 1}, {K: "collectorsig", Addr: 0, Key: 0}}}},
		{c14FindVoteSig, c14Cert{Path: "collect", N: 4, Collector: 0, Entries: []c14Entry{
			{K: "valid", Addr: 1, Key: 1}, {K: "corrupted", Addr: 2, Key: 2, Sig: 2}}}},
		{c14FindVoteBatch, c14Cert{Path: "collect", N: 5, Collector: 0, Batch: []int{2, 1}, Entries: []c14Entry{
			{K: "valid", Addr: 1, Key: 1}, {K: "nonmember", Addr: c14OutsiderA, Key: c14OutsiderA}, {K: "valid", Addr: 2, Key: 2}}}},
	}
	fs := hx.LoadFindings()
	regressFixed(t, c, fs, "C14")
	for _, w := range witnesses {
		c14Exclude[w.id] = false
		err := evalC14(w.d)
		if witnessVerdict(t, c, fs, w.id, err, w.d) && !noExclude {
			c14Exclude[w.id] = true
		}
	}

	// 1. threshold arithmetic, n = 1..10, k = 0..n+1
	for n := 1; n <= c14MaxN; n++ {
		for k := 0; k <= n+1; k++ {
			err := c14ThresholdCase(k, n)
			s := &cbft.DefaultSaftyRules{}
			labels := []string{"threshold"}
			if !s.CalVotesThreshold(k, n) && k >= c14Threshold(n) {
				labels = append(labels, "threshold-stricter-than-statement")
			}
			c.Count(map[string]int{"thr-k": k, "thr-n": n}, k == c14Threshold(n)-1, labels...)
			if err != nil {
				fail("threshold", err.Error(), map[string]int{"K": k, "N": n})
			}
		}
	}
	c.SetExhaustive("CalVotesThreshold: n=1..10, k=0..n+1")

	st := &c14Stats{map[string]int{}, map[string]int{}, map[int]int{}, map[int]int{}, map[int]int{}, map[int]int{}}
	classLabels := func(k c14Counts) []string {
		var ls []string
		add := func(n int, l string) {
			if n > 0 {
				ls = append(ls, "class:"+l)
			}
		}
		add(k.B, "repeat")
		add(k.B2, "repeat2")
		add(k.NM, "nonmember")
		add(k.W, "wrongid")
		add(k.X, "corrupted")
		add(k.F, "foreignkey")
		add(k.M, "memberkey")
		add(k.C, "collectorsig")
		return ls
	}
	// evalOne evaluates one certificate of the enumeration; returns false when the run should stop.
	evalOne := func(test string, d c14Cert, k *c14Counts) bool {
		if id := c14Excluded(d); id != "" {
			c.Exclude(id)
			return true
		}
		v, err := c14Eval(d)
		labels := []string{"path:" + d.Path}
		if v.Accepted {
			labels = append(labels, "accepted")
		} else {
			labels = append(labels, "rejected")
		}
		nontrivial := false
		var key interface{}
		if k != nil && d.Path != "vote" {
			clean := k.useless() == 0
			if clean && v.Good >= v.Need {
				st.clean[d.N]++
				if v.Accepted {
					st.cleanAcc[d.N]++
					labels = append(labels, "accepted-clean")
				} else {
					labels = append(labels, "clean-rejected")
				}
			}
			if k.useless() > 0 && v.Good == v.Need-1 {
				nontrivial = true
				labels = append(labels, "boundary")
				key = map[string]interface{}{"n": d.N, "classes": *k}
			}
			labels = append(labels, classLabels(*k)...)
		}
		st.evaluated[d.N]++
		st.pathEval[d.Path]++
		if v.Accepted {
			st.accepted[d.N]++
			st.pathAcc[d.Path]++
		}
		c.Count(key, nontrivial, labels...)
		if nontrivial || (v.Accepted && len(d.Entries) > 2) {
			c.Sample(map[string]interface{}{"cert": d, "accepted": v.Accepted, "good": v.Good, "need": v.Need})
		}
		if err != nil {
			fail(test, err.Error(), d)
			if failures >= 5 {
				return false
			}
		}
		// the same certificate judged by a VALIDATOR: the member under whose address the first entry that must not count
		// is filed (a forged vote in the verifier's own name), on the boundary where counting it flips the verdict
		if nontrivial && d.Local == 0 && c14LocalPaths[d.Path] {
			for _, e := range d.Entries {
				if e.Addr < d.N && e.Addr != d.Collector && !c14EntryValid(e) {
					d2 := d
					d2.Local = e.Addr + 1
					v2, err2 := c14Eval(d2)
					l2 := []string{"path:" + d.Path, "verifier-is-the-named-member"}
					if v2.Accepted {
						l2 = append(l2, "accepted")
					} else {
						l2 = append(l2, "rejected")
					}
					c.Count(map[string]interface{}{"n": d.N, "classes": *k, "local": d2.Local, "path": d.Path}, true, l2...)
					st.evaluated[d.N]++
					if err2 != nil {
						fail(test, err2.Error(), d2)
						if failures >= 5 {
							return false
						}
					}
					break
				}
			}
		}
		return true
	}

	// 2. exhaustive enumeration
	maxN, extra := 7, 1 // multisets of up to n+extra entries
	if thorough {
		maxN, extra = c14MaxN, 2
	}
	idx := 0
	stop := false
	for n := 1; n <= maxN && !stop; n++ {
		for _, path := range c14EnumPaths(n, thorough) {
			collector := 0
			if path == "block" || path == "block-known" {
				collector = -1
			}
			c14EachCounts(n+extra, func(k c14Counts) {
				if stop || !c14Feasible(n, collector, k) || !c14FeasiblePath(path, k) {
					return
				}
				seen := map[string]bool{}
				variants := c14EnumVariants(n, path, thorough)
				for _, v := range variants {
					d := c14Build(path, n, collector, k, v)
					b, _ := json.Marshal([]interface{}{d.Entries, d.Batch})
					if seen[string(b)] {
						continue
					}
					seen[string(b)] = true
					idx++
					if idx%hx.Shards() != hx.Shard() {
						continue
					}
					kk := k
					if !evalOne("qc-enumeration", d, &kk) {
						stop = true
						return
					}
				}
			})
		}
	}
	if thorough {
		c.SetExhaustive("certificates: n<=10, class multisets up to n+2 entries; paths proposal/block/smr/collect: 2 placements x 2 orders (collect: + 2 batched deliveries); paths tdpos/xpoa CheckMinerMatch: placements {fresh-first, canonical order} and {present-first, reversed}")
	} else {
		c.SetExhaustive("certificates: class multisets up to n+1 entries; n<=5: paths proposal/block/smr/collect, placements {fresh-first, canonical order} and {present-first, reversed}, collect + batched delivery; n<=4: paths tdpos/xpoa CheckMinerMatch, canonical placement; n=6: paths proposal/block/smr/collect, canonical placement; n=7: paths proposal/block, canonical placement")
	}

	// 3. single votes through CheckVote, n = 1..10
	for n := 1; n <= c14MaxN && !stop; n++ {
		var votes [][]c14Entry
		for m := 0; m < n; m++ {
			votes = append(votes,
				[]c14Entry{{K: "valid", Addr: m, Key: m}},
				[]c14Entry{{K: "valid2", Addr: m, Key: m, Sig: 1}},
				[]c14Entry{{K: "wrongid", Addr: m, Key: m, Msg: 1}},
				[]c14Entry{{K: "corrupted", Addr: m, Key: m, Sig: 2}},
				[]c14Entry{{K: "foreignkey", Addr: m, Key: c14OutsiderB}},
				// a bad first signature followed by a good one of another member
				[]c14Entry{{K: "corrupted", Addr: m, Key: m, Sig: 2}, {K: "valid", Addr: (m + 1) % n, Key: (m + 1) % n}},
			)
		}
		votes = append(votes,
			[]c14Entry{},
			[]c14Entry{{K: "nonmember", Addr: c14OutsiderA, Key: c14OutsiderA}},
			[]c14Entry{{K: "nonmember", Addr: c14OutsiderA, Key: c14OutsiderA}, {K: "valid", Addr: 0, Key: 0}},
		)
		for m := 0; m < n && n >= 2; m++ {
			// another member's key and signature under m's address (that member's honest vote was verified before)
			votes = append(votes, []c14Entry{{K: "memberkey", Addr: m, Key: (m + 1) % n}})
		}
		if n < c14MaxN {
			// the first key outside this validator set (a member of larger sets only)
			votes = append(votes, []c14Entry{{K: "nonmember", Addr: n, Key: n}})
		}
		for _, es := range votes {
			d := c14Cert{Path: "vote", N: n, Collector: -1, Entries: es}
			if id := c14Excluded(d); id != "" {
				c.Exclude(id)
				continue
			}
			v, err := c14Eval(d)
			bad := v.Good == 0 // no valid member signature at all: the vote must not pass
			labels := []string{"path:vote"}
			if v.Accepted {
				labels = append(labels, "vote-accepted")
			} else {
				labels = append(labels, "vote-rejected")
			}
			c.Count(map[string]interface{}{"vote-n": n, "vote": es}, bad, labels...)
			if err != nil {
				fail("qc-enumeration", err.Error(), d)
			}
		}
	}
	c.SetExhaustive("CheckVote: n=1..10, every member x {valid, second valid, wrong id, corrupted, foreign key}, non-members, empty")

	// 4. vacuity guard: some certificates must be accepted
	if !stop {
		ns := []int{}
		for n := range st.evaluated {
			ns = append(ns, n)
		}
		sort.Ints(ns)
		for _, n := range ns {
			if n >= 2 && hx.Shards() == 1 && st.accepted[n] == 0 {
				t.Errorf("vacuous: no certificate at all was accepted for n=%d (%d evaluated): the necessary-direction oracle decides nothing", n, st.evaluated[n])
			}
		}
		var ps []string
		for p := range st.pathEval {
			ps = append(ps, p)
		}
		sort.Strings(ps)
		for _, p := range ps {
			if st.pathEval[p] >= 50 && st.pathAcc[p] == 0 {
				t.Errorf("vacuous: no certificate was accepted on path %s (%d evaluated): the necessary-direction oracle decides nothing there", p, st.pathEval[p])
			}
		}
		c.Extra("accepted_per_path", st.pathAcc)
		c.Extra("evaluated_per_path", st.pathEval)
		c.Extra("accepted_per_n", st.accepted)
		c.Extra("evaluated_per_n", st.evaluated)
		c.Extra("clean_quorum_per_n", st.clean)
		c.Extra("clean_quorum_accepted_per_n", st.cleanAcc)
	}

	// 5. random multisets beyond the exhaustive box
	if failures == 0 {
		lo, hi := 8, c14MaxN
		if thorough {
			lo = 1
		}
		c.Check(t, "qc-random", hx.N(1500, 12000), func(cs *hx.Case) {
			rt := cs.RT()
			n := rapid.IntRange(lo, hi).Draw(rt, "n")
			paths := []string{"proposal", "block", "block-known", "smr", "smr-pruned", "collect", "tdpos", "xpoa", "tdpos-term", "xpoa-change", "xpoa-reorg"}
			path := rapid.SampledFrom(paths).Draw(rt, "path")
			if (path == "tdpos-term" || path == "xpoa-change" || path == "xpoa-reorg") && n < 2 {
				n = 2 // a one-member set cannot be changed into a different one of the same size
			}
			collector := 0
			if path == "block" || path == "block-known" {
				collector = -1
			}
			need := c14Threshold(n)
			voters := len(c14Voters(n, collector))
			var k c14Counts
			// bias the number of distinct valid members to the verdict boundary
			switch rapid.IntRange(0, 9).Draw(rt, "aim") {
			case 0, 1, 2, 3, 4:
				k.A = need - 1
			case 5, 6:
				k.A = need
			default:
				k.A = rapid.IntRange(0, voters).Draw(rt, "a")
			}
			if k.A < 0 {
				k.A = 0
			}
			if k.A > voters {
				k.A = voters
			}
			budget := n + 4 - k.A
			draw := func(name string, ok bool) int {
				if !ok || budget <= 0 {
					return 0
				}
				x := 0
				if rapid.IntRange(0, 2).Draw(rt, name+"?") == 0 {
					x = rapid.IntRange(1, budget).Draw(rt, name)
				}
				budget -= x
				return x
			}
			k.B = draw("repeat", k.A > 0)
			k.B2 = draw("repeat2", k.A > 0)
			k.NM = draw("nonmember", true)
			k.W = draw("wrongid", voters > 0)
			k.X = draw("corrupted", voters > 0)
			k.F = draw("foreignkey", voters > 0)
			k.M = draw("memberkey", voters > 1)
			k.C = draw("collectorsig", collector >= 0 && path != "collect")
			v := c14Variant{rapid.Bool().Draw(rt, "badOnPresent"), rapid.Bool().Draw(rt, "reverse"), false}
			if !c14Feasible(n, collector, k) || !c14FeasiblePath(path, k) {
				rt.Skip("infeasible multiset")
			}
			d := c14Build(path, n, collector, k, v)
			if rapid.Bool().Draw(rt, "shuffle") && len(d.Entries) > 1 {
				d.Entries = rapid.Permutation(d.Entries).Draw(rt, "order")
			}
			if path == "collect" && len(d.Entries) > 1 && rapid.IntRange(0, 3).Draw(rt, "batched") == 0 {
				// random grouping of the entries into vote messages
				rest := len(d.Entries)
				for rest > 0 {
					g := rapid.IntRange(1, rest).Draw(rt, "group")
					d.Batch = append(d.Batch, g)
					rest -= g
				}
			}
			if id := c14Excluded(d); id != "" {
				cs.Exclude(id)
				cs.Label("excluded")
				return
			}
			cs.Op(d)
			vd, err := c14Eval(d)
			cs.Label("path:" + d.Path)
			if vd.Accepted {
				cs.Label("accepted")
			} else {
				cs.Label("rejected")
			}
			if k.useless() == 0 && vd.Good >= vd.Need && vd.Accepted {
				cs.Label("accepted-clean")
			}
			if k.useless() > 0 && vd.Good == vd.Need-1 {
				cs.Label("boundary")
				cs.NontrivialKey(map[string]interface{}{"n": n, "classes": k})
			}
			if err != nil {
				cs.Failf("%v", err)
			}
		})
	}
}

// c14EnumPaths: the submission paths enumerated exhaustively for a validator-set size.
func c14EnumPaths(n int, thorough bool) []string {
	switch {
	case thorough && n >= 2:
		return []string{"proposal", "block", "block-known", "smr", "smr-pruned", "collect", "tdpos", "xpoa", "tdpos-term", "xpoa-change", "xpoa-reorg"}
	case thorough:
		return []string{"proposal", "block", "block-known", "smr", "smr-pruned", "collect", "tdpos", "xpoa"}
	case n >= 7:
		return []string{"proposal", "block"}
	case n >= 5:
		return []string{"proposal", "block", "block-known", "smr", "smr-pruned", "collect"}
	}
	if n >= 2 {
		return []string{"proposal", "block", "block-known", "smr", "smr-pruned", "collect", "tdpos", "xpoa", "tdpos-term", "xpoa-change", "xpoa-reorg"}
	}
	return []string{"proposal", "block", "block-known", "smr", "smr-pruned", "collect", "tdpos", "xpoa"}
}

// c14EnumVariants: the placement / order / delivery variants enumerated for (n, path).
func c14EnumVariants(n int, path string, thorough bool) []c14Variant {
	plugin := path == "tdpos" || path == "xpoa" || path == "tdpos-term" || path == "xpoa-change" || path == "xpoa-reorg"
	var vs []c14Variant
	switch {
	case thorough && !plugin:
		vs = []c14Variant{{false, false, false}, {true, false, false}, {false, true, false}, {true, true, false}}
		if path == "collect" {
			vs = append(vs, c14Variant{false, false, true}, c14Variant{true, false, true})
		}
	case thorough || (n <= 5 && !plugin):
		// both placements and both orders, but not their product
		vs = []c14Variant{{false, false, false}, {true, true, false}}
		if path == "collect" {
			vs = append(vs, c14Variant{false, false, true})
		}
	default:
		vs = []c14Variant{{false, false, false}}
		if path == "collect" {
			vs = append(vs, c14Variant{false, false, true})
		}
	}
	return vs
}

// ---------------------------------------------------------------------------------------------------------
// consensus plugins: tdpos / xpoa CheckMinerMatch on a block whose justify is the generated certificate.
// Stub ledger: blocks 0..2 (block 2 = the certified proposal); the block under check has height 3, its proposer
// (= the collector) is the validator the slot schedule wants, the validator set in force for the previous block
// is the plugin's initial set Ring[0..n).
// Path tdpos-term: blocks 0..4 (block 4 = the certified proposal, last block of term 1 so far), the block under check
// has height 5 and sits in the first slot of term 2, for which every snapshot of the stub ledger reports an election
// result that replaces validators 1 and 2 by the two outsider keys. The validator set in force for the certified
// view is still Ring[0..n): signatures of the newly elected keys are "non-member" entries and must not count.
// Path xpoa-change: the same situation for xpoa - blocks 0..6, block 3 changes the validator set (effective three
// blocks later): the proposer of block 7 comes from the new set, the certificate over block 6 is judged by the old.
// Path xpoa-reorg: the instance first judged a block on a branch A with that change, then the trunk switched to a
// branch B without it: the block of B under check and its certificate are judged by the initial set.

type c14Block struct {
	proposer string
	height   int64
	id, pre  []byte
	storage  []byte
	ts       int64
}

func (b *c14Block) GetProposer() []byte                          { return []byte(b.proposer) }
func (b *c14Block) GetHeight() int64                             { return b.height }
func (b *c14Block) GetBlockid() []byte                           { return b.id }
func (b *c14Block) GetConsensusStorage() ([]byte, error)         { return b.storage, nil }
func (b *c14Block) GetTimestamp() int64                          { return b.ts }
func (b *c14Block) SetItem(item string, value interface{}) error { return nil }
func (b *c14Block) MakeBlockId() ([]byte, error)                 { return b.id, nil }
func (b *c14Block) GetPreHash() []byte                           { return b.pre }
func (b *c14Block) GetNextHash() []byte                          { return nil }
func (b *c14Block) GetPublicKey() string                         { return "" }
func (b *c14Block) GetSign() []byte                              { return nil }
func (b *c14Block) GetTxIDs() []string                           { return nil }
func (b *c14Block) GetInTrunk() bool                             { return true }

type c14Ledger struct {
	chain []*c14Block
	conf  []byte
	snap  map[string][]byte // key suffix -> value answered by snapshots (election result / validator change)
	// snapFrom: snapshots of blocks below this height answer nothing (the change is not on the chain yet)
	snapFrom int64
}

var errC14NoBlock = fmt.Errorf("c14 stub ledger: block not found")

func (l *c14Ledger) GetConsensusConf() ([]byte, error) { return l.conf, nil }
func (l *c14Ledger) QueryBlock(id []byte) (ledger.BlockHandle, error) {
	for _, b := range l.chain {
		if string(b.id) == string(id) {
			return b, nil
		}
	}
	return nil, errC14NoBlock
}
func (l *c14Ledger) QueryBlockByHeight(h int64) (ledger.BlockHandle, error) {
	if h < 0 || h >= int64(len(l.chain)) {
		return nil, errC14NoBlock
	}
	return l.chain[h], nil
}
func (l *c14Ledger) GetTipBlock() ledger.BlockHandle { return l.chain[len(l.chain)-1] }
func (l *c14Ledger) GetTipXMSnapshotReader() (ledger.XMSnapshotReader, error) {
	return c14SnapReader{}, nil
}
func (l *c14Ledger) CreateSnapshot(blkId []byte) (ledger.XMReader, error) {
	for _, b := range l.chain {
		if string(b.id) == string(blkId) && b.height < l.snapFrom {
			return c14XMReader{}, nil
		}
	}
	return c14XMReader{l.snap}, nil
}
func (l *c14Ledger) GetTipSnapshot() (ledger.XMReader, error) { return c14XMReader{l.snap}, nil }

type c14SnapReader struct{}

func (c14SnapReader) Get(bucket string, key []byte) ([]byte, error) { return nil, nil }

type c14XMReader struct{ snap map[string][]byte }

func (r c14XMReader) Get(bucket string, key []byte) (*ledger.VersionedData, error) {
	for suffix, v := range r.snap { // suffixes are mutually exclusive: at most one matches
		if strings.HasSuffix(string(key), suffix) {
			return &ledger.VersionedData{PureData: &ledger.PureData{Bucket: bucket, Key: key, Value: v}, RefTxid: []byte("c14"), RefOffset: 0}, nil
		}
	}
	return nil, nil
}
func (c14XMReader) Select(bucket string, startKey []byte, endKey []byte) (ledger.XMIterator, error) {
	return nil, fmt.Errorf("c14 stub ledger: no iterator")
}

type c14Net struct{ account string }

func (c14Net) Start() {}
func (c14Net) Stop()  {}
func (c14Net) SendMessage(xctx.XContext, *xuperp2p.XuperMessage, ...p2p.OptionFunc) error {
	return nil
}
func (c14Net) SendMessageWithResponse(xctx.XContext, *xuperp2p.XuperMessage, ...p2p.OptionFunc) ([]*xuperp2p.XuperMessage, error) {
	return nil, nil
}
func (c14Net) NewSubscriber(xuperp2p.XuperMessage_MessageType, interface{}, ...p2p.SubscriberOption) p2p.Subscriber {
	return nil
}
func (c14Net) Register(p2p.Subscriber) error   { return nil }
func (c14Net) UnRegister(p2p.Subscriber) error { return nil }
func (c14Net) Context() *nctx.NetCtx           { return nil }
func (n c14Net) PeerInfo() xuperp2p.PeerInfo   { return xuperp2p.PeerInfo{Account: n.account} }

type c14Contracts struct{}

func (c14Contracts) NewContext(cfg *contract.ContextConfig) (contract.Context, error) {
	return nil, fmt.Errorf("c14 stub: no contracts")
}
func (c14Contracts) NewStateSandbox(cfg *contract.SandboxConfig) (contract.StateSandbox, error) {
	return nil, fmt.Errorf("c14 stub: no contracts")
}
func (c14Contracts) GetKernRegistry() contract.KernRegistry { return c14Registry{} }

type c14Registry struct{}

func (c14Registry) RegisterKernMethod(contract, method string, handler contract.KernMethod) {}
func (c14Registry) RegisterShortcut(oldmethod, contract, method string)                     {}
func (c14Registry) GetKernMethod(contract, method string) (contract.KernMethod, error) {
	return nil, fmt.Errorf("c14 stub: not registered")
}

const (
	c14TdposInitMs  = int64(1559021720000)
	c14XpoaPeriod   = int64(3000)
	c14XpoaBlockNum = int64(10)
)

type c14Plugin struct {
	impl   base.ConsensusImplInterface
	ledger *c14Ledger
	ts     int64 // timestamp (ns) of a slot that belongs to validator 0
	term   int64 // term / block position of that slot (stored in the checked block)
	bpos   int64
}

// c14TermElected: path tdpos-term - the proposer set elected for term 2. Validator 0 stays (most ballots: it is the
// producer of the checked block = the collector), validators 1 and 2 are voted out, the two outsider keys are in.
// They are NOT validators of the certified view (last block of term 1): their signatures must not count.
func c14TermElected(n int) []int {
	if n == 2 {
		return []int{0, c14OutsiderA}
	}
	out := []int{0}
	for i := 3; i < n; i++ {
		out = append(out, i)
	}
	return append(out, c14OutsiderA, c14OutsiderB)
}

var c14Plugins = map[string]*c14Plugin{}

func c14PluginOf(name string, n int) (*c14Plugin, error) {
	key := fmt.Sprintf("%s/%d", name, n)
	if p, ok := c14Plugins[key]; ok {
		return p, nil
	}
	addrs, _ := json.Marshal(c14Validators(n))
	var conf string
	var ts, ts0 int64
	certified := 2 // height of the certified block = tip of the stub ledger
	switch name {
	case "tdpos-term":
		if n < 2 {
			return nil, fmt.Errorf("descriptor: path tdpos-term needs n >= 2")
		}
		certified = 4
		fallthrough
	case "tdpos":
		conf = fmt.Sprintf(`{"timestamp":"%d000000","proposer_num":"%d","period":"3000","alternate_interval":"3000","term_interval":"6000","block_num":"20","vote_unit_price":"1","init_proposer":{"1":%s},"bft_config":{}}`,
			c14TdposInitMs, n, addrs)
		// term 1 begins at init+3000ms; init+6000ms is block position 1 of proposer 0
		ts = (c14TdposInitMs + 6000) * 1000000
		ts0 = (c14TdposInitMs + 1) * 1000000
	case "xpoa-change", "xpoa-reorg":
		if n < 2 {
			return nil, fmt.Errorf("descriptor: path %s needs n >= 2", name)
		}
		certified = 6
		fallthrough
	case "xpoa":
		conf = fmt.Sprintf(`{"period":%d,"block_num":%d,"init_proposer":{"address":%s},"bft_config":{}}`, c14XpoaPeriod, c14XpoaBlockNum, addrs)
		// a multiple of the term length: position 0, block position 1
		term := c14XpoaPeriod * int64(n) * c14XpoaBlockNum
		ts = term * 1000 * 1000000
		ts0 = ts - 3*c14XpoaPeriod*1000000
	default:
		return nil, fmt.Errorf("unknown plugin %s", name)
	}
	l := &c14Ledger{conf: []byte(conf)}
	ids := [][]byte{c14GenesisID, []byte("c14-block-at-height-one-00000001")}
	for h := 2; h < certified; h++ {
		ids = append(ids, []byte(fmt.Sprintf("c14-block-at-height-%d-0000000000%d", h, h)))
	}
	ids = append(ids, c14CertifiedID)
	for h := 0; h <= certified; h++ {
		b := &c14Block{proposer: hx.Ring[0].Address, height: int64(h), id: ids[h], storage: []byte("{}"), ts: ts0 + int64(h)}
		if h > 0 {
			b.pre = ids[h-1]
		}
		if name == "tdpos-term" && h > 0 {
			// blocks 1..4: consecutive slots of validator 0 in term 1 (init+6000ms is its block position 1)
			b.ts = ts + int64(h-1)*3000*1000000
			st, _ := json.Marshal(cbftCommon.ConsensusStorage{CurTerm: 1, CurBlockNum: int64(h)})
			b.storage = st
		}
		l.chain = append(l.chain, b)
	}
	if name == "xpoa-change" || name == "xpoa-reorg" {
		// block 3 carries the transaction that changes the validator set: snapshots of blocks >= 3 report the new
		// set. The proposer of block 7 is taken from the snapshot of block 3 (new set), the validators of the
		// certified view 6 from the snapshot of block 2 (still the initial set).
		var addrs []string
		for _, m := range c14TermElected(n) {
			addrs = append(addrs, hx.Ring[m].Address)
		}
		vb, _ := json.Marshal(map[string][]string{"address": addrs})
		l.snap = map[string][]byte{"_validates": vb}
		l.snapFrom = 3
		if name == "xpoa-reorg" {
			l.snapFrom = 2 // on branch A the change is old enough to govern the certified view as well
		}
	}
	if name == "tdpos-term" {
		// the election result every snapshot answers with: candidates = the elected set, ballots descending
		nominate := map[string]map[string]int64{}
		l.snap = map[string][]byte{}
		for i, m := range c14TermElected(n) {
			a := hx.Ring[m].Address
			nominate[a] = map[string]int64{a: 1}
			vb, _ := json.Marshal(map[string]int64{"voter": int64(1000 - i)})
			l.snap["_vote_"+a] = vb
		}
		nb, _ := json.Marshal(nominate)
		l.snap["_nominate"] = nb
	}
	local := hx.Ring[c14OutsiderB]
	cctxv := cctx.ConsensusCtx{
		BaseCtx:  xctx.BaseCtx{XLog: c14NopLog{}, Timer: timer.NewXTimer()},
		BcName:   hx.BCName,
		Address:  &cctx.Address{Address: local.Address, PrivateKey: local.Priv, PrivateKeyStr: local.PrvJSON, PublicKey: &local.Priv.PublicKey, PublicKeyStr: local.PubJSON},
		Crypto:   hx.Crypt,
		Contract: c14Contracts{},
		Ledger:   l,
		Network:  c14Net{account: local.Address},
	}
	cfg := def.ConsensusConfig{ConsensusName: name, Config: conf, StartHeight: 1, Index: 0}
	var impl base.ConsensusImplInterface
	if name == "tdpos" || name == "tdpos-term" {
		cfg.ConsensusName = "tdpos"
		impl = tdpos.NewTdposConsensus(cctxv, cfg)
	} else {
		cfg.ConsensusName = "xpoa"
		impl = xpoa.NewXpoaConsensus(cctxv, cfg)
	}
	if impl == nil {
		return nil, fmt.Errorf("harness: cannot create a %s instance for n=%d", name, n)
	}
	p := &c14Plugin{impl: impl, ledger: l, ts: ts, term: 1, bpos: 1}
	if name == "xpoa-reorg" {
		// the instance follows branch A (the chain built above, validator set changed in block 3) and judges a block on
		// it; then the trunk switches to branch B, forked off at the root, on which nothing was changed: every block
		// of B is judged by the initial set, whatever the instance learnt on A
		warm, err := cbftCommon.NewToOldQC(&cbft.QuorumCert{
			VoteInfo:         &cbft.VoteInfo{ProposalId: c14CertifiedID, ProposalView: int64(certified), ParentId: ids[certified-1], ParentView: int64(certified - 1)},
			LedgerCommitInfo: &cbft.LedgerCommitInfo{},
		})
		if err != nil {
			return nil, fmt.Errorf("harness: %v", err)
		}
		st, _ := json.Marshal(cbftCommon.ConsensusStorage{Justify: warm, CurTerm: 1, CurBlockNum: 1})
		a7 := &c14Block{proposer: hx.Ring[0].Address, height: int64(certified + 1), id: []byte("c14-branch-a-block-at-height-007"), pre: c14CertifiedID, storage: st, ts: ts}
		impl.CheckMinerMatch(&xctx.BaseCtx{XLog: c14NopLog{}, Timer: timer.NewXTimer()}, a7)
		for h := 1; h <= certified; h++ {
			b := *l.chain[h]
			if h < certified {
				b.id = []byte(fmt.Sprintf("c14-branch-b-block-at-height-00%d", h))
			}
			if h > 1 {
				b.pre = l.chain[h-1].id
			}
			nb := b
			l.chain[h] = &nb
		}
		l.snap, l.snapFrom = nil, 0
	}
	if name == "tdpos-term" {
		// the first slot of term 2 that belongs to position 0 (= validator 0, top of the ballot)
		sch := tdpos.VerifScheduleOf(impl)
		found := false
		for t := ts; t < ts+int64(n+2)*25*3000*1000000; t += 3000 * 1000000 {
			term, pos, bpos := sch.MinerScheduling(t)
			if term == 2 && pos == 0 && bpos >= 0 {
				p.ts, p.term, p.bpos, found = t, term, bpos, true
				break
			}
		}
		if !found {
			return nil, fmt.Errorf("harness: no slot of term 2 found for tdpos n=%d", n)
		}
	}
	c14Plugins[key] = p
	return p, nil
}

func c14RunPlugin(name string) func(d c14Cert) (bool, string, error) {
	return func(d c14Cert) (bool, string, error) {
		if d.Collector != 0 {
			return false, "", fmt.Errorf("descriptor: path %s fixes the collector (block proposer) to validator 0", name)
		}
		p, err := c14PluginOf(name, d.N)
		if err != nil {
			return false, "", err
		}
		// the justify of the block: the certificate over the tip block, stored the way ProcessBeforeMiner stores it
		tip := int64(len(p.ledger.chain) - 1)
		j := c14Justify(d)
		j.VoteInfo.ProposalView = tip
		j.VoteInfo.ParentId = p.ledger.chain[tip-1].id
		j.VoteInfo.ParentView = tip - 1
		old, err := cbftCommon.NewToOldQC(j)
		if err != nil {
			return false, "", err
		}
		storage, err := json.Marshal(cbftCommon.ConsensusStorage{Justify: old, CurTerm: p.term, CurBlockNum: p.bpos})
		if err != nil {
			return false, "", err
		}
		blk := &c14Block{proposer: hx.Ring[0].Address, height: tip + 1, id: c14ProposalID, pre: c14CertifiedID, storage: storage, ts: p.ts}
		ok, e := p.impl.CheckMinerMatch(&xctx.BaseCtx{XLog: c14NopLog{}, Timer: timer.NewXTimer()}, blk)
		if ok && e == nil {
			return true, name + " CheckMinerMatch = true", nil
		}
		return false, fmt.Sprintf("%s CheckMinerMatch = %v, %v", name, ok, e), nil
	}
}

func init() {
	c14ExtraPaths["tdpos"] = c14RunPlugin("tdpos")
	c14ExtraPaths["xpoa"] = c14RunPlugin("xpoa")
	c14ExtraPaths["tdpos-term"] = c14RunPlugin("tdpos-term")
	c14ExtraPaths["xpoa-change"] = c14RunPlugin("xpoa-change")
	c14ExtraPaths["xpoa-reorg"] = c14RunPlugin("xpoa-reorg")
}
