package props

// c07_test.go: C07 - transaction integrity and authorisation (nothing is spent or invoked unsigned).
//
// Every case builds, on a fresh real node, one VALID signed transaction T in one of the wire forms
// (address initiator, several signers, account initiator, account-owned input, aggregated XuperSign;
// versions 1-3; transfers and contract invocations), has it accepted by the real State.VerifyTx, and
// then enumerates deterministically
//   - every single-field mutation reachable by walking the protobuf schema of Transaction,
//   - two-field boundary shifts (v3 length-prefix injectivity),
//   - signature mutations (corrupt / remove / swap / replay / other key),
//   - signer mutations (change / add / remove, stale and re-signed by the original signers),
//   - forgeries: the original signers spend an output of somebody who never signs,
// each with the stale and with the recomputed txid. The oracle is written from the statement only.

import (
	"bytes"
	"crypto/ecdsa"
	"crypto/elliptic"
	"crypto/hmac"
	"crypto/sha256"
	"encoding/hex"
	"encoding/json"
	"fmt"
	"math/big"
	"os"
	"sort"
	"strconv"
	"strings"
	"testing"

	"github.com/golang/protobuf/proto"
	protov2 "google.golang.org/protobuf/proto"
	"google.golang.org/protobuf/reflect/protoreflect"
	"pgregory.net/rapid"

	"github.com/xuperchain/xupercore/bcs/ledger/xledger/state/utxo/txhash"
	"github.com/xuperchain/xupercore/bcs/ledger/xledger/state/xmodel"
	pb "github.com/xuperchain/xupercore/bcs/ledger/xledger/xldgpb"
	"github.com/xuperchain/xupercore/protos"

	"verifharness/hx"
)

// ---------------------------------------------------------------------------------------------
// findings protocol

const (
	c07FindXsSingle = "C07-xupersign-one-key-vouches-for-all"
	c07FindRogue    = "C07-xupersign-multisig-rogue-key"
	c07FindXsPanic  = "C07-xupersign-malformed-point-panics"
	c07FindC11      = "C11-inner-ak-node-counts" // owned by C11; the shape is never generated here
)

// c07Exclude: root causes whose trigger shape the mutator skips in this run (decided by the
// witnesses at the top of TestC07).
var c07Exclude = map[string]bool{}

// ---------------------------------------------------------------------------------------------
// plain-data descriptors (the trace of a case is [c07TraceEl{Base}, c07TraceEl{Mut}])

type c07Signer struct {
	Key  int  `json:"key"`            // ring index
	Acct bool `json:"acct,omitempty"` // listed as "<account>/<address>"
}

type c07Acct struct {
	Num     string    `json:"num"`  // 16 digits
	Rule    string    `json:"rule"` // threshold | akset
	Aks     []int     `json:"aks"`  // ring indexes of the members
	Weights []float64 `json:"weights,omitempty"`
	Accept  float64   `json:"accept,omitempty"`
	Sets    [][]int   `json:"sets,omitempty"` // akset: ring indexes per set
}

type c07Base struct {
	Form    string      `json:"form"` // ak | multi | acctinit | acctin | xsign
	Prep    []hx.NOp    `json:"prep,omitempty"`
	Acct    *c07Acct    `json:"acct,omitempty"`
	Spec    hx.TxSpec   `json:"spec"`
	Auto    bool        `json:"auto,omitempty"`   // fill Spec.Ins/Outs from the first output of Spec.From (witnesses)
	NoSelf  bool        `json:"noself,omitempty"` // the initiator's own address is not repeated in AuthRequire
	Signers []c07Signer `json:"signers,omitempty"`
	InitAks []int       `json:"initaks,omitempty"` // acctinit: the keys signing as initiator
	HD      bool        `json:"hd,omitempty"`
}

type c07Mut struct {
	Class string `json:"class"` // walk | shift | sig | xsig | signer | forge
	Path  string `json:"path,omitempty"`
	Kind  string `json:"kind"`
	Arg   int    `json:"arg,omitempty"`
	Arg2  int    `json:"arg2,omitempty"`
	Txid  string `json:"txid,omitempty"` // reporting: which txid variant violated
}

type c07TraceEl struct {
	Base    *c07Base `json:"base,omitempty"`
	Mut     *c07Mut  `json:"mut,omitempty"`
	Collide []string `json:"collide,omitempty"` // two marshalled v3 transactions (hex)
}

const c07GhostAcct = "XC0000000000000000@" + hx.BCName

func c07AcctName(a *c07Acct) string { return "XC" + a.Num + "@" + hx.BCName }

// c07AclJSON renders the ACL deterministically.
func c07AclJSON(a *c07Acct) string {
	if a.Rule == "akset" {
		var sets []string
		for i, s := range a.Sets {
			var aks []string
			for _, k := range s {
				aks = append(aks, strconv.Quote(hx.Ring[k].Address))
			}
			sets = append(sets, fmt.Sprintf(`"%d":{"aks":[%s]}`, i+1, strings.Join(aks, ",")))
		}
		return `{"pm":{"rule":2},"akSets":{"sets":{` + strings.Join(sets, ",") + `}}}`
	}
	var ws []string
	for i, k := range a.Aks {
		ws = append(ws, fmt.Sprintf(`%s:%s`, strconv.Quote(hx.Ring[k].Address), strconv.FormatFloat(a.Weights[i], 'g', -1, 64)))
	}
	sort.Strings(ws)
	return fmt.Sprintf(`{"pm":{"rule":1,"acceptValue":%s},"aksWeight":{%s}}`, strconv.FormatFloat(a.Accept, 'g', -1, 64), strings.Join(ws, ","))
}

// satisfied: do the given member keys (ring indexes) satisfy the account's rule? (reference model,
// written from the rule definitions: threshold = sum of weights >= accept; akset = one set complete)
func (a *c07Acct) satisfied(keys map[int]bool) bool {
	if a.Rule == "akset" {
		for _, s := range a.Sets {
			all := len(s) > 0
			for _, k := range s {
				if !keys[k] {
					all = false
				}
			}
			if all {
				return true
			}
		}
		return false
	}
	sum := 0.0
	for i, k := range a.Aks {
		if keys[k] {
			sum += a.Weights[i]
		}
	}
	return sum >= a.Accept
}

// ---------------------------------------------------------------------------------------------
// signing

type c07Who func(addr string) (sk, pk *hx.Key)

func c07Last(uri string) string {
	p := strings.Split(uri, "/")
	return p[len(p)-1]
}

func c07Digest(tx *pb.Transaction) []byte {
	d, err := txhash.MakeTxDigestHash(tx)
	if err != nil {
		panic(err)
	}
	return d
}

func c07ID(tx *pb.Transaction) []byte {
	d, err := txhash.MakeTransactionID(tx)
	if err != nil {
		panic(err)
	}
	return d
}

// c07PlainSign fills initiator_signs / auth_require_signs (one entry per AuthRequire entry, signed
// for the last path component) and the txid.
func c07PlainSign(tx *pb.Transaction, initKeys [][2]*hx.Key, who c07Who) {
	tx.XuperSign = nil
	tx.InitiatorSigns, tx.AuthRequireSigns = nil, nil
	d := c07Digest(tx)
	for _, k := range initKeys {
		tx.InitiatorSigns = append(tx.InitiatorSigns, &protos.SignatureInfo{PublicKey: k[1].PubJSON, Sign: hx.DetSign(k[0].Priv, d)})
	}
	for _, ar := range tx.AuthRequire {
		sk, pk := who(c07Last(ar))
		tx.AuthRequireSigns = append(tx.AuthRequireSigns, &protos.SignatureInfo{PublicKey: pk.PubJSON, Sign: hx.DetSign(sk.Priv, d)})
	}
	tx.Txid = c07ID(tx)
}

// c07AddrList: the distinct addresses verifyXuperSign expects public keys for, in its order.
func c07AddrList(tx *pb.Transaction) []string {
	seen := map[string]bool{tx.Initiator: true}
	out := []string{tx.Initiator}
	for _, ar := range tx.AuthRequire {
		a := c07Last(ar)
		if !seen[a] {
			seen[a] = true
			out = append(out, a)
		}
	}
	return out
}

func c07Nonce(sk *hx.Key, msg []byte, i int) []byte {
	mac := hmac.New(sha256.New, sk.Priv.D.Bytes())
	mac.Write(msg)
	mac.Write([]byte(fmt.Sprintf("c07ms%d", i)))
	return mac.Sum(nil)
}

// c07MultiSig: the library's multi-signature protocol (R = sum k_i G, C = sum P_i, s_i = k_i +
// H(C,R,m) x_i) with deterministic nonces. sks sign, pks are the stated public keys; omit >= 0
// leaves that participant's share out.
func c07MultiSig(sks, pks []*hx.Key, msg []byte, omit int) []byte {
	var pubs []*ecdsa.PublicKey
	for _, pk := range pks {
		pubs = append(pubs, &pk.Priv.PublicKey)
	}
	c, err := hx.Crypt.GetSharedPublicKeyForPublicKeys(pubs)
	if err != nil {
		panic(err)
	}
	var ks, ris [][]byte
	var who []*hx.Key
	for i, sk := range sks {
		if i == omit {
			continue
		}
		k := c07Nonce(sk, msg, i)
		ks = append(ks, k)
		who = append(who, sk)
		ris = append(ris, hx.Crypt.GetRiUsingRandomBytes(&sk.Priv.PublicKey, k))
	}
	r := hx.Crypt.GetRUsingAllRi(pubs[0], ris)
	var sis [][]byte
	for i, sk := range who {
		sis = append(sis, hx.Crypt.GetSiUsingKCRM(sk.Priv, ks[i], c, r, msg))
	}
	s := hx.Crypt.GetSUsingAllSi(sis)
	sig, err := hx.Crypt.GenerateMultiSignSignature(s, r)
	if err != nil {
		panic(err)
	}
	return sig
}

// c07XSign signs tx in the aggregated form.
func c07XSign(tx *pb.Transaction, who c07Who, omit int) {
	tx.InitiatorSigns, tx.AuthRequireSigns = nil, nil
	d := c07Digest(tx)
	var sks, pks []*hx.Key
	xs := &pb.XuperSignature{}
	for _, a := range c07AddrList(tx) {
		sk, pk := who(a)
		sks, pks = append(sks, sk), append(pks, pk)
		xs.PublicKeys = append(xs.PublicKeys, []byte(pk.PubJSON))
	}
	xs.Signature = c07MultiSig(sks, pks, d, omit)
	tx.XuperSign = xs
	tx.Txid = c07ID(tx)
}

type c07XuperSigJSON struct {
	SigType    string
	SigContent []byte
}

func c07PubJSON(x, y *big.Int) string {
	return fmt.Sprintf(`{"Curvname":"P-256","X":%s,"Y":%s}`, x.String(), y.String())
}

// ---------------------------------------------------------------------------------------------
// the evaluated base: node + accepted transaction

type c07Ctx struct {
	nm     *hx.NodeMachine
	b      *c07Base
	acct   string // account name of the scenario ("" if none)
	T      *pb.Transaction
	T2     *pb.Transaction // another accepted transaction of the same signers (replay source)
	digest []byte
	height int64
	signed map[int]bool // ring keys that sign T
}

func (x *c07Ctx) Close() { x.nm.Close() }

func (x *c07Ctx) uriPrefix() string {
	if x.acct != "" {
		return x.acct
	}
	return c07GhostAcct
}

// defWho: every listed address is signed for by its own ring key.
func c07DefWho(sub c07Who) c07Who {
	return func(addr string) (*hx.Key, *hx.Key) {
		if sub != nil {
			if sk, pk := sub(addr); sk != nil {
				return sk, pk
			}
		}
		k := hx.KeyOf(addr)
		if k == nil {
			k = hx.Ring[hx.RingSize-1]
		}
		return k, k
	}
}

// initKeys: who signs as initiator of tx (account initiator: the scenario's InitAks).
func (x *c07Ctx) initKeys(tx *pb.Transaction, who c07Who) [][2]*hx.Key {
	if strings.HasPrefix(tx.Initiator, "XC") && strings.Contains(tx.Initiator, "@") {
		var out [][2]*hx.Key
		for _, i := range x.b.InitAks {
			out = append(out, [2]*hx.Key{hx.Ring[i], hx.Ring[i]})
		}
		return out
	}
	sk, pk := who(tx.Initiator)
	return [][2]*hx.Key{{sk, pk}}
}

// resign signs tx the way the base's signers would (sub replaces the signer of single addresses:
// forged slots).
func (x *c07Ctx) resign(tx *pb.Transaction, sub c07Who) {
	who := c07DefWho(sub)
	if x.b.Form == "xsign" {
		c07XSign(tx, who, -1)
		return
	}
	c07PlainSign(tx, x.initKeys(tx, who), who)
}

// verify runs the verifier under test on a clone; a panic is reported as such.
func (x *c07Ctx) verify(tx *pb.Transaction) (accepted bool, why string) {
	defer func() {
		if r := recover(); r != nil {
			accepted, why = false, fmt.Sprintf("PANIC: %v", r)
		}
	}()
	ok, err := x.nm.N.State.VerifyTx(hx.CloneTx(tx))
	return ok && err == nil, fmt.Sprintf("%v/%v", ok, err)
}

func (x *c07Ctx) submit(tx *pb.Transaction) (err error) {
	defer func() {
		if r := recover(); r != nil {
			err = fmt.Errorf("PANIC: %v", r)
		}
	}()
	return x.nm.N.Chain.SubmitTx(x.nm.N.Ctx, hx.CloneTx(tx))
}

func c07Height(nm *hx.NodeMachine) int64 { return nm.LM.M.Blocks[nm.LM.M.Tip].Height }

func c07Prepare(b *c07Base, fs *hx.FindingSet) (*c07Ctx, error) {
	nm, err := hx.NewNodeMachine(hx.DefaultOpts(), fs)
	if err != nil {
		return nil, fmt.Errorf("setup: %v", err)
	}
	for i, op := range b.Prep {
		if err := nm.Apply(op); err != nil {
			nm.Close()
			return nil, fmt.Errorf("setup: prep step %d: %v", i, err)
		}
	}
	x, err := c07Finish(nm, b)
	if err != nil {
		nm.Close()
		return nil, err
	}
	return x, nil
}

// c07Finish builds T (and T2) of the scenario on the prepared node and demands acceptance.
func c07Finish(nm *hx.NodeMachine, b *c07Base) (*c07Ctx, error) {
	x := &c07Ctx{nm: nm, b: b, height: c07Height(nm), signed: map[int]bool{}}
	if b.Acct != nil {
		x.acct = c07AcctName(b.Acct)
	}
	spec := b.Spec
	if b.Auto {
		us := spendable(nm.PoolState(), hx.Ring[spec.From].Address, x.height, false)
		if len(us) == 0 {
			return nil, fmt.Errorf("setup: ring key %d owns nothing", spec.From)
		}
		u := us[0]
		spec.Ins = []hx.InRef{{Addr: spec.From, Txid: hex.EncodeToString(u.Txid), Off: u.Off, Amount: u.Amount.String()}}
		spec.Outs = []hx.OutSpec{{To: spec.From, Amount: u.Amount.String()}}
	}
	tx, pre := nm.BuildOnModel(&spec, nm.PoolState())
	if tx == nil {
		return nil, fmt.Errorf("setup: pre-execution of the base failed: %v", pre.Err)
	}
	T := hx.CloneTx(tx)
	if b.HD {
		T.HDInfo = &pb.HDInfo{HdPublicKey: []byte("hdpub"), OriginalHash: []byte("orig")}
	}
	self := hx.Ring[spec.From]
	var ar []string
	if !b.NoSelf {
		ar = append(ar, self.Address)
	}
	for _, s := range b.Signers {
		a := hx.Ring[s.Key].Address
		if s.Acct {
			a = x.uriPrefix() + "/" + a
		}
		ar = append(ar, a)
	}
	T.AuthRequire = ar
	if b.Form == "acctinit" {
		T.Initiator = x.acct
	}
	x.resign(T, nil)
	x.T = T
	x.digest = c07Digest(T)
	for _, k := range x.initKeys(T, c07DefWho(nil)) {
		x.signed[k[0].Idx] = true
	}
	for _, a := range T.AuthRequire {
		if k := hx.KeyOf(c07Last(a)); k != nil {
			x.signed[k.Idx] = true
		}
	}
	if !bytes.Equal(T.Txid, c07ID(T)) {
		return nil, fmt.Errorf("setup: txid is not the id of the content")
	}
	if ok, why := x.verify(T); !ok {
		return nil, fmt.Errorf("base transaction (form %s, v%d) is not accepted by VerifyTx: %s: %s", b.Form, T.Version, why, c07Describe(T))
	}
	T2 := hx.CloneTx(T)
	T2.Nonce += "-again"
	T2.Timestamp++
	x.resign(T2, nil)
	if ok, why := x.verify(T2); !ok {
		return nil, fmt.Errorf("second base transaction (other nonce) is not accepted by VerifyTx: %s", why)
	}
	x.T2 = T2
	return x, nil
}

func c07Describe(tx *pb.Transaction) string {
	return fmt.Sprintf("initiator=%s auth=%v nsig=%d/%d xsign=%v %s", tx.Initiator, tx.AuthRequire, len(tx.InitiatorSigns), len(tx.AuthRequireSigns), tx.XuperSign != nil, hx.DescribeTx(tx))
}

// contractInputs: the inputs the transaction declares as spent by its contract code.
func c07ContractInputs(tx *pb.Transaction) map[string]bool {
	out := map[string]bool{}
	ins, err := xmodel.ParseContractUtxoInputs(tx)
	if err != nil {
		return out
	}
	for _, i := range ins {
		out[hx.UKey(string(i.FromAddr), i.RefTxid, i.RefOffset)] = true
	}
	return out
}

// modelAuthorised: reference model of the statement's authorisation clause, for a transaction whose
// listed signatures are all genuine: every spent output is owned by a signer, by the scenario's
// account whose rule the "<account>/<member>" signers satisfy, or is declared contract-spent.
func (x *c07Ctx) modelAuthorised(tx *pb.Transaction, initAks []int) bool {
	ver := map[string]bool{}
	if x.acct != "" && tx.Initiator == x.acct {
		ks := map[int]bool{}
		for _, i := range initAks {
			ks[i] = true
			ver[hx.Ring[i].Address] = true
		}
		if !x.b.Acct.satisfied(ks) {
			return false
		}
	} else {
		ver[tx.Initiator] = true
	}
	for _, a := range tx.AuthRequire {
		ver[c07Last(a)] = true
	}
	return x.authorisedBy(tx, ver)
}

// authorisedBy: given the verified addresses, is every spent output owned by one of them, by the
// scenario's account whose rule the listed "<account>/<member>" signers satisfy, or contract-spent?
func (x *c07Ctx) authorisedBy(tx *pb.Transaction, ver map[string]bool) bool {
	members := map[int]bool{}
	for _, a := range tx.AuthRequire {
		p := strings.Split(a, "/")
		if len(p) == 2 && p[0] == x.acct && x.acct != "" && ver[p[1]] {
			if k := hx.KeyOf(p[1]); k != nil {
				members[k.Idx] = true
			}
		}
	}
	con := c07ContractInputs(tx)
	for _, in := range tx.TxInputs {
		if con[hx.UKey(string(in.FromAddr), in.RefTxid, in.RefOffset)] {
			continue
		}
		o := string(in.FromAddr)
		if ver[o] {
			continue
		}
		if x.acct != "" && o == x.acct && x.b.Acct.satisfied(members) {
			continue
		}
		return false
	}
	return true
}

// c07SlotState: what a signature slot holds - the stated public key and the key (if any) whose
// genuine signature over the transaction's digest it carries.
type c07SlotState struct{ pub, sig *hx.Key }

// modelSlots: reference model for re-arranged signature slots: the initiator (an address: slot 0
// states its key and carries its signature; an account: every slot is a genuine signature and the
// signing members satisfy the rule), then every listed signer not verified before, then the inputs.
func (x *c07Ctx) modelSlots(m *pb.Transaction, init, auth []c07SlotState) bool {
	if len(init) < 1 || len(auth) != len(m.AuthRequire) {
		return false
	}
	ver := map[string]bool{}
	if c07IsAcctName(m.Initiator) {
		ks := map[int]bool{}
		for _, s := range init {
			if s.pub == nil || s.sig != s.pub {
				return false
			}
			ver[s.pub.Address] = true
			ks[s.pub.Idx] = true
		}
		if x.acct == "" || m.Initiator != x.acct || !x.b.Acct.satisfied(ks) {
			return false
		}
	} else {
		s := init[0]
		if s.pub == nil || s.pub.Address != m.Initiator || s.sig != s.pub {
			return false
		}
		ver[m.Initiator] = true
	}
	for j, ar := range m.AuthRequire {
		a := c07Last(ar)
		if ver[a] {
			continue
		}
		s := auth[j]
		if s.pub == nil || s.pub.Address != a || s.sig != s.pub {
			return false
		}
		ver[a] = true
	}
	return x.authorisedBy(m, ver)
}

// ---------------------------------------------------------------------------------------------
// schema-walking mutator (protobuf reflection)

func c07IsText(k protoreflect.Kind) bool {
	return k == protoreflect.BytesKind || k == protoreflect.StringKind
}

func c07LeafKinds(k protoreflect.Kind, v protoreflect.Value) []string {
	switch k {
	case protoreflect.BytesKind:
		ks := []string{"flip0", "flipN", "app"}
		if len(v.Bytes()) > 1 {
			ks = append(ks, "trunc")
		}
		return ks
	case protoreflect.StringKind:
		ks := []string{"chg0", "app"}
		if len(v.String()) > 1 {
			ks = append(ks, "chgN", "trunc")
		}
		return ks
	case protoreflect.BoolKind:
		return []string{"tog"}
	case protoreflect.EnumKind:
		if v.Enum() > 0 {
			return []string{"inc", "dec"}
		}
		return []string{"inc"}
	case protoreflect.Int32Kind, protoreflect.Int64Kind, protoreflect.Sint32Kind, protoreflect.Sint64Kind,
		protoreflect.Uint32Kind, protoreflect.Uint64Kind, protoreflect.Sfixed32Kind, protoreflect.Sfixed64Kind,
		protoreflect.Fixed32Kind, protoreflect.Fixed64Kind:
		return []string{"inc", "dec"}
	}
	return nil
}

func c07Chg(c byte) byte {
	if c >= 0x20 && c < 0x7e {
		return c + 1
	}
	return 'A'
}

// c07LeafMut applies a leaf mutation kind to a scalar value.
func c07LeafMut(k protoreflect.Kind, v protoreflect.Value, kind string) (protoreflect.Value, error) {
	switch k {
	case protoreflect.BytesKind:
		b := append([]byte{}, v.Bytes()...)
		switch kind {
		case "flip0":
			b[0] ^= 1
		case "flipN":
			b[len(b)-1] ^= 0x80
		case "app":
			b = append(b, 0)
		case "trunc":
			b = b[:len(b)-1]
		default:
			return v, fmt.Errorf("bad kind %s for bytes", kind)
		}
		return protoreflect.ValueOfBytes(b), nil
	case protoreflect.StringKind:
		s := []byte(v.String())
		switch kind {
		case "chg0":
			s[0] = c07Chg(s[0])
		case "chgN":
			s[len(s)-1] = c07Chg(s[len(s)-1])
		case "app":
			s = append(s, 'x')
		case "trunc":
			s = s[:len(s)-1]
		default:
			return v, fmt.Errorf("bad kind %s for string", kind)
		}
		return protoreflect.ValueOfString(string(s)), nil
	case protoreflect.BoolKind:
		return protoreflect.ValueOfBool(!v.Bool()), nil
	case protoreflect.EnumKind:
		if kind == "dec" {
			return protoreflect.ValueOfEnum(v.Enum() - 1), nil
		}
		return protoreflect.ValueOfEnum(v.Enum() + 1), nil
	case protoreflect.Int32Kind, protoreflect.Sint32Kind, protoreflect.Sfixed32Kind:
		d := int64(1)
		if kind == "dec" {
			d = -1
		}
		return protoreflect.ValueOfInt32(int32(v.Int() + d)), nil
	case protoreflect.Int64Kind, protoreflect.Sint64Kind, protoreflect.Sfixed64Kind:
		d := int64(1)
		if kind == "dec" {
			d = -1
		}
		return protoreflect.ValueOfInt64(v.Int() + d), nil
	}
	return v, fmt.Errorf("unsupported kind %v", k)
}

func c07NonDefault(fd protoreflect.FieldDescriptor) (protoreflect.Value, bool) {
	switch fd.Kind() {
	case protoreflect.BytesKind:
		return protoreflect.ValueOfBytes([]byte{1}), true
	case protoreflect.StringKind:
		return protoreflect.ValueOfString("x"), true
	case protoreflect.BoolKind:
		return protoreflect.ValueOfBool(true), true
	case protoreflect.EnumKind:
		return protoreflect.ValueOfEnum(1), true
	case protoreflect.Int32Kind:
		return protoreflect.ValueOfInt32(1), true
	case protoreflect.Int64Kind:
		return protoreflect.ValueOfInt64(1), true
	}
	return protoreflect.Value{}, false
}

// c07FillFirst sets the first scalar field of a fresh message to a non-default value.
func c07FillFirst(m protoreflect.Message) {
	fds := m.Descriptor().Fields()
	for i := 0; i < fds.Len(); i++ {
		fd := fds.Get(i)
		if fd.IsList() || fd.IsMap() || fd.Kind() == protoreflect.MessageKind {
			continue
		}
		if v, ok := c07NonDefault(fd); ok {
			m.Set(fd, v)
			return
		}
	}
}

func c07MapKeys(mp protoreflect.Map) []string {
	var ks []string
	mp.Range(func(k protoreflect.MapKey, _ protoreflect.Value) bool { ks = append(ks, k.String()); return true })
	sort.Strings(ks)
	return ks
}

// c07WalkMuts enumerates every single-field mutation (and the two-field boundary shifts) of msg.
func c07WalkMuts(m protoreflect.Message, prefix string, out *[]c07Mut) {
	add := func(class, p, kind string, arg int) {
		*out = append(*out, c07Mut{Class: class, Path: p, Kind: kind, Arg: arg})
	}
	fds := m.Descriptor().Fields()
	for i := 0; i < fds.Len(); i++ {
		fd := fds.Get(i)
		p := prefix + string(fd.Name())
		switch {
		case fd.IsMap():
			mp := m.Get(fd).Map()
			add("walk", p, "mapadd", 0)
			if n := mp.Len(); n > 0 {
				add("walk", p, "mapdel", 0)
				add("walk", p, "mapalt", 0)
				add("walk", p, "mapren", 0)
				if n > 1 {
					add("walk", p, "mapalt", n-1)
					add("walk", p, "mapdel", n-1)
				}
				if ks := c07MapKeys(mp); len(ks[0]) > 1 {
					add("shift", p, "shiftkv", 0)
				}
			}
		case fd.IsList():
			l := m.Get(fd).List()
			n := l.Len()
			if n == 0 {
				add("walk", p, "addelem", 0)
				continue
			}
			add("walk", p, "drop", 0)
			if n > 1 {
				add("walk", p, "drop", n-1)
			}
			add("walk", p, "dup", 0)
			add("walk", p, "appcopy", 0)
			if n > 1 {
				add("walk", p, "swap", 1)
			}
			if n > 2 {
				add("walk", p, "swap", n-1)
			}
			for j := 0; j < n; j++ {
				pj := p + "#" + strconv.Itoa(j)
				if fd.Kind() == protoreflect.MessageKind {
					c07WalkMuts(l.Get(j).Message(), pj+".", out)
					continue
				}
				for _, k := range c07LeafKinds(fd.Kind(), l.Get(j)) {
					add("walk", pj, k, 0)
				}
				if c07IsText(fd.Kind()) && j+1 < n && c07ShiftOK(fd.Kind(), l.Get(j), fd.Kind()) {
					add("shift", pj, "shiftelem", 0)
				}
			}
		case fd.Kind() == protoreflect.MessageKind:
			if m.Has(fd) {
				add("walk", p, "clear", 0)
				c07WalkMuts(m.Get(fd).Message(), p+".", out)
			} else {
				add("walk", p, "setmsg", 0)
			}
		default:
			if !m.Has(fd) {
				add("walk", p, "set", 0)
			} else {
				v := m.Get(fd)
				for _, k := range c07LeafKinds(fd.Kind(), v) {
					add("walk", p, k, 0)
				}
				if fd.Kind() != protoreflect.BoolKind {
					add("walk", p, "clear", 0)
				}
			}
			// boundary shift into the next declared field when both are variable-length
			if i+1 < fds.Len() && m.Has(fd) {
				nx := fds.Get(i + 1)
				if !nx.IsList() && !nx.IsMap() && c07IsText(fd.Kind()) && c07IsText(nx.Kind()) && c07ShiftOK(fd.Kind(), m.Get(fd), nx.Kind()) {
					add("shift", p, "shiftnext", 0)
				}
			}
		}
	}
}

// c07ShiftOK: the last byte of v can move into a field of kind to (strings must stay valid text).
func c07ShiftOK(k protoreflect.Kind, v protoreflect.Value, to protoreflect.Kind) bool {
	var b []byte
	if k == protoreflect.BytesKind {
		b = v.Bytes()
	} else {
		b = []byte(v.String())
	}
	if len(b) == 0 {
		return false
	}
	last := b[len(b)-1]
	if to == protoreflect.StringKind || k == protoreflect.StringKind {
		return last < 0x80
	}
	return true
}

func c07TextBytes(k protoreflect.Kind, v protoreflect.Value) []byte {
	if k == protoreflect.BytesKind {
		return append([]byte{}, v.Bytes()...)
	}
	return []byte(v.String())
}

func c07TextValue(k protoreflect.Kind, b []byte) protoreflect.Value {
	if k == protoreflect.BytesKind {
		return protoreflect.ValueOfBytes(b)
	}
	return protoreflect.ValueOfString(string(b))
}

func c07ParseSeg(seg string) (name string, idx int, hasIdx bool) {
	if i := strings.Index(seg, "#"); i >= 0 {
		n, _ := strconv.Atoi(seg[i+1:])
		return seg[:i], n, true
	}
	return seg, 0, false
}

func c07CloneVal(fd protoreflect.FieldDescriptor, v protoreflect.Value) protoreflect.Value {
	switch fd.Kind() {
	case protoreflect.MessageKind:
		return protoreflect.ValueOfMessage(protov2.Clone(v.Message().Interface()).ProtoReflect())
	case protoreflect.BytesKind:
		return protoreflect.ValueOfBytes(append([]byte{}, v.Bytes()...))
	}
	return v
}

// c07ApplyWalk applies a walk / shift mutation to a clone of tx.
func c07ApplyWalk(tx *pb.Transaction, mut c07Mut) (*pb.Transaction, error) {
	cl := hx.CloneTx(tx)
	m := proto.MessageReflect(cl)
	segs := strings.Split(mut.Path, ".")
	for si, seg := range segs {
		name, idx, hasIdx := c07ParseSeg(seg)
		fds := m.Descriptor().Fields()
		fd := fds.ByName(protoreflect.Name(name))
		if fd == nil {
			return nil, fmt.Errorf("no field %q in %s", name, m.Descriptor().FullName())
		}
		if si < len(segs)-1 {
			if fd.IsList() {
				l := m.Mutable(fd).List()
				if idx >= l.Len() {
					return nil, fmt.Errorf("index %d out of range at %s", idx, seg)
				}
				m = l.Get(idx).Message()
			} else {
				m = m.Mutable(fd).Message()
			}
			continue
		}
		switch {
		case hasIdx: // element of a scalar list
			l := m.Mutable(fd).List()
			if idx >= l.Len() {
				return nil, fmt.Errorf("index %d out of range at %s", idx, seg)
			}
			if mut.Kind == "shiftelem" {
				a, b := c07TextBytes(fd.Kind(), l.Get(idx)), c07TextBytes(fd.Kind(), l.Get(idx+1))
				b = append([]byte{a[len(a)-1]}, b...)
				a = a[:len(a)-1]
				l.Set(idx, c07TextValue(fd.Kind(), a))
				l.Set(idx+1, c07TextValue(fd.Kind(), b))
				break
			}
			nv, err := c07LeafMut(fd.Kind(), l.Get(idx), mut.Kind)
			if err != nil {
				return nil, err
			}
			l.Set(idx, nv)
		case fd.IsMap():
			mp := m.Mutable(fd).Map()
			ks := c07MapKeys(mp)
			vd := fd.MapValue()
			key := func(s string) protoreflect.MapKey { return protoreflect.ValueOfString(s).MapKey() }
			switch mut.Kind {
			case "mapadd":
				nv, _ := c07NonDefault(vd)
				mp.Set(key("c07new"), nv)
			case "mapdel":
				mp.Clear(key(ks[mut.Arg]))
			case "mapalt":
				v := mp.Get(key(ks[mut.Arg]))
				if vd.Kind() == protoreflect.BytesKind && len(v.Bytes()) > 0 {
					nv, _ := c07LeafMut(vd.Kind(), v, "flip0")
					mp.Set(key(ks[mut.Arg]), nv)
				} else {
					nv, _ := c07NonDefault(vd)
					mp.Set(key(ks[mut.Arg]), nv)
				}
			case "mapren":
				v := c07CloneVal(vd, mp.Get(key(ks[0])))
				mp.Clear(key(ks[0]))
				mp.Set(key(ks[0]+"x"), v)
			case "shiftkv":
				k0 := ks[0]
				v := c07TextBytes(vd.Kind(), mp.Get(key(k0)))
				v = append([]byte{k0[len(k0)-1]}, v...)
				mp.Clear(key(k0))
				mp.Set(key(k0[:len(k0)-1]), c07TextValue(vd.Kind(), v))
			default:
				return nil, fmt.Errorf("bad map kind %s", mut.Kind)
			}
		case fd.IsList():
			l := m.Mutable(fd).List()
			n := l.Len()
			var vals []protoreflect.Value
			for j := 0; j < n; j++ {
				vals = append(vals, c07CloneVal(fd, l.Get(j)))
			}
			switch mut.Kind {
			case "addelem":
				if fd.Kind() == protoreflect.MessageKind {
					e := l.NewElement()
					c07FillFirst(e.Message())
					l.Append(e)
				} else {
					nv, _ := c07NonDefault(fd)
					l.Append(nv)
				}
				vals = nil
			case "drop":
				vals = append(vals[:mut.Arg:mut.Arg], vals[mut.Arg+1:]...)
			case "dup":
				vals = append(vals[:1:1], append([]protoreflect.Value{c07CloneVal(fd, vals[0])}, vals[1:]...)...)
			case "appcopy":
				vals = append(vals, c07CloneVal(fd, vals[0]))
			case "swap":
				vals[0], vals[mut.Arg] = vals[mut.Arg], vals[0]
			default:
				return nil, fmt.Errorf("bad list kind %s", mut.Kind)
			}
			if vals != nil {
				l.Truncate(0)
				for _, v := range vals {
					l.Append(v)
				}
			}
		case fd.Kind() == protoreflect.MessageKind:
			switch mut.Kind {
			case "clear":
				m.Clear(fd)
			case "setmsg":
				c07FillFirst(m.Mutable(fd).Message())
			default:
				return nil, fmt.Errorf("bad message kind %s", mut.Kind)
			}
		default:
			switch mut.Kind {
			case "clear":
				m.Clear(fd)
			case "set":
				nv, ok := c07NonDefault(fd)
				if !ok {
					return nil, fmt.Errorf("no non-default value for %s", fd.FullName())
				}
				m.Set(fd, nv)
			case "shiftnext":
				nx := fds.Get(fd.Index() + 1)
				a, b := c07TextBytes(fd.Kind(), m.Get(fd)), c07TextBytes(nx.Kind(), m.Get(nx))
				b = append([]byte{a[len(a)-1]}, b...)
				a = a[:len(a)-1]
				m.Set(fd, c07TextValue(fd.Kind(), a))
				m.Set(nx, c07TextValue(nx.Kind(), b))
			default:
				nv, err := c07LeafMut(fd.Kind(), m.Get(fd), mut.Kind)
				if err != nil {
					return nil, err
				}
				m.Set(fd, nv)
			}
		}
	}
	return cl, nil
}

// c07Scope: is the top-level field covered by the digest (statement + wire schema), a signature
// carrier (covered by the id only), or outside the statement?
func c07Scope(path string, version int32) string {
	top, _, _ := c07ParseSeg(strings.Split(path, ".")[0])
	switch top {
	case "txid":
		return "txid"
	case "blockid", "received_timestamp", "modify_block":
		return "outside"
	case "initiator_signs", "auth_require_signs", "xuper_sign":
		return "sigcarrier"
	case "HD_info":
		if version < 2 {
			return "outside"
		}
	}
	return "covered"
}

// ---------------------------------------------------------------------------------------------
// signature / signer mutations and forgeries

type c07Slot struct {
	list string
	i    int
}

func c07Slots(tx *pb.Transaction) []c07Slot {
	var out []c07Slot
	for i := range tx.InitiatorSigns {
		out = append(out, c07Slot{"initiator_signs", i})
	}
	for i := range tx.AuthRequireSigns {
		out = append(out, c07Slot{"auth_require_signs", i})
	}
	return out
}

func c07SlotPtr(tx *pb.Transaction, s c07Slot) **protos.SignatureInfo {
	if s.list == "initiator_signs" {
		return &tx.InitiatorSigns[s.i]
	}
	return &tx.AuthRequireSigns[s.i]
}

func c07KeyOfPub(pub string) *hx.Key {
	for _, k := range hx.Ring {
		if k.PubJSON == pub {
			return k
		}
	}
	return nil
}

func c07IsAcctName(s string) bool { return strings.HasPrefix(s, "XC") && strings.Contains(s, "@") }

// c07Redundant: the verifier never looks at auth_require_signs[j] because the entry's last path
// component is an address it has verified before (initiator, initiator's keys, an earlier entry).
func c07Redundant(tx *pb.Transaction, j int) bool {
	seen := map[string]bool{}
	if c07IsAcctName(tx.Initiator) {
		for _, si := range tx.InitiatorSigns {
			if k := c07KeyOfPub(si.PublicKey); k != nil {
				seen[k.Address] = true
			}
		}
	} else {
		seen[tx.Initiator] = true
	}
	for i := 0; i < j; i++ {
		seen[c07Last(tx.AuthRequire[i])] = true
	}
	return seen[c07Last(tx.AuthRequire[j])]
}

// outsider: first ring key that signs nothing in T.
func (x *c07Ctx) outsider() *hx.Key {
	for i := 0; i < hx.RingSize; i++ {
		if !x.signed[i] && i != hx.MinerKey {
			return hx.Ring[i]
		}
	}
	return nil
}

// victim: first funded ring key that signs nothing in T, and its first spendable output.
func (x *c07Ctx) victim() (*hx.Key, *hx.UTXO) {
	s := x.nm.PoolState()
	for i := 0; i < 7; i++ {
		if x.signed[i] {
			continue
		}
		if us := spendable(s, hx.Ring[i].Address, x.height, false); len(us) > 0 {
			return hx.Ring[i], us[0]
		}
	}
	return nil, nil
}

func (x *c07Ctx) attacker() *hx.Key {
	if x.b.Form == "acctinit" {
		return hx.Ring[x.b.InitAks[0]]
	}
	return hx.Ring[x.b.Spec.From]
}

func c07InputOf(u *hx.UTXO) *protos.TxInput {
	return &protos.TxInput{RefTxid: u.Txid, RefOffset: u.Off, FromAddr: []byte(u.Addr), Amount: u.Amount.Bytes(), FrozenHeight: u.Frozen}
}

// c07SpecialMuts enumerates the signature, signer and forgery mutations of the base.
func (x *c07Ctx) specialMuts() []c07Mut {
	var out []c07Mut
	T := x.T
	if x.b.Form == "xsign" {
		for _, k := range []string{"corrupt", "badpoint", "dropkey", "swapkeys", "replay", "partial", "otherkey", "remove"} {
			out = append(out, c07Mut{Class: "xsig", Kind: k})
		}
	} else {
		slots := c07Slots(T)
		for g, s := range slots {
			for _, k := range []string{"corrupt", "empty", "dropslot", "otherkey", "otherkeypub", "replay"} {
				out = append(out, c07Mut{Class: "sig", Path: s.list, Kind: k, Arg: g})
			}
			for g2 := g + 1; g2 < len(slots); g2++ {
				a, b := *c07SlotPtr(T, s), *c07SlotPtr(T, slots[g2])
				if a.PublicKey != b.PublicKey {
					out = append(out, c07Mut{Class: "sig", Path: s.list, Kind: "swapsig", Arg: g, Arg2: g2},
						c07Mut{Class: "sig", Path: s.list, Kind: "swapinfo", Arg: g, Arg2: g2})
				}
			}
		}
	}
	for j := range T.AuthRequire {
		for _, k := range []string{"sub", "sub-resign-own", "sub-resign-vpub", "del", "del-resign"} {
			out = append(out, c07Mut{Class: "signer", Path: "auth_require", Kind: k, Arg: j})
		}
	}
	for _, k := range []string{"add", "add-resign-own", "add-resign-vpub"} {
		out = append(out, c07Mut{Class: "signer", Path: "auth_require", Kind: k})
	}
	if x.b.Form == "acctinit" {
		out = append(out, c07Mut{Class: "signer", Path: "initiator_signs", Kind: "initak-outsider"})
		for i := range x.b.InitAks {
			out = append(out, c07Mut{Class: "signer", Path: "initiator_signs", Kind: "initak-del-resign", Arg: i})
		}
	}
	for _, k := range []string{"plain-add", "plain-replace", "listed-own", "listed-vpub", "xs-partial", "xs-omit", "xs-ecdsa", "xs-der", "xs-rogue", "contract-claim-norequest"} {
		out = append(out, c07Mut{Class: "forge", Kind: k})
	}
	if len(T.ContractRequests) > 0 {
		out = append(out, c07Mut{Class: "forge", Kind: "contract-claim"}, c07Mut{Class: "forge", Kind: "contract-claim-front"}, c07Mut{Class: "forge", Kind: "contract-claim-second"})
	}
	if x.acct != "" {
		for _, k := range []string{"acct-outsider", "acct-below", "acct-init-outsider"} {
			out = append(out, c07Mut{Class: "forge", Kind: k})
		}
	}
	return out
}

type c07Special struct {
	tx          *pb.Transaction
	skip        string // not applicable to this base
	staleAlso   bool   // the mutant keeps T's txid in one variant (otherwise only the recomputed id is tried)
	mustReject  bool   // the statement demands rejection (recomputed id)
	staleReject bool   // the statement demands rejection with the stale id
	note        string
}

func c07StripSigs(tx *pb.Transaction) {
	tx.InitiatorSigns, tx.AuthRequireSigns, tx.XuperSign = nil, nil, nil
}

// pureTransfer: a fresh transaction that only moves u to `to`.
func (x *c07Ctx) pureTransfer(initiator string, auth []string, u *hx.UTXO, to string, tag string) *pb.Transaction {
	return &pb.Transaction{Version: x.T.Version, Nonce: x.T.Nonce + "-" + tag, Timestamp: x.T.Timestamp, Initiator: initiator, AuthRequire: auth,
		TxInputs:  []*protos.TxInput{c07InputOf(u)},
		TxOutputs: []*protos.TxOutput{{ToAddr: []byte(to), Amount: u.Amount.Bytes()}}}
}

func c07DER(sig []byte) (r, s *big.Int) {
	// DER SEQUENCE { INTEGER r, INTEGER s } as produced by hx.DetSign
	p := sig[2:]
	rl := int(p[1])
	r = new(big.Int).SetBytes(p[2 : 2+rl])
	p = p[2+rl:]
	sl := int(p[1])
	s = new(big.Int).SetBytes(p[2 : 2+sl])
	return
}

func (x *c07Ctx) applySpecial(mut c07Mut) c07Special {
	T := x.T
	m := hx.CloneTx(T)
	res := c07Special{tx: m, staleAlso: true, mustReject: true, staleReject: true}
	other := x.outsider()
	switch mut.Class {
	case "sig":
		slots := c07Slots(m)
		if mut.Arg >= len(slots) {
			res.skip = "no such slot"
			return res
		}
		s := slots[mut.Arg]
		sp := c07SlotPtr(m, s)
		var init, auth []c07SlotState
		for _, si := range m.InitiatorSigns {
			k := c07KeyOfPub(si.PublicKey)
			init = append(init, c07SlotState{k, k})
		}
		for _, si := range m.AuthRequireSigns {
			k := c07KeyOfPub(si.PublicKey)
			auth = append(auth, c07SlotState{k, k})
		}
		state := func(t c07Slot) *c07SlotState {
			if t.list == "initiator_signs" {
				return &init[t.i]
			}
			return &auth[t.i]
		}
		st := state(s)
		switch mut.Kind {
		case "corrupt":
			(*sp).Sign[len((*sp).Sign)-1] ^= 1
			st.sig = nil
		case "empty":
			(*sp).Sign = nil
			st.sig = nil
		case "otherkey":
			(*sp).Sign = hx.DetSign(other.Priv, x.digest)
			st.sig = other
		case "otherkeypub":
			(*sp).Sign = hx.DetSign(other.Priv, x.digest)
			(*sp).PublicKey = other.PubJSON
			st.sig, st.pub = other, other
		case "replay":
			(*sp).Sign = append([]byte{}, (*c07SlotPtr(x.T2, s)).Sign...)
			st.sig = nil
		case "dropslot":
			if s.list == "initiator_signs" {
				m.InitiatorSigns = append(m.InitiatorSigns[:s.i:s.i], m.InitiatorSigns[s.i+1:]...)
				init = append(init[:s.i:s.i], init[s.i+1:]...)
			} else {
				m.AuthRequireSigns = append(m.AuthRequireSigns[:s.i:s.i], m.AuthRequireSigns[s.i+1:]...)
				auth = append(auth[:s.i:s.i], auth[s.i+1:]...)
			}
		case "swapsig", "swapinfo":
			s2 := slots[mut.Arg2]
			sp2 := c07SlotPtr(m, s2)
			st2 := state(s2)
			if mut.Kind == "swapinfo" {
				*sp, *sp2 = *sp2, *sp
				*st, *st2 = *st2, *st
			} else {
				(*sp).Sign, (*sp2).Sign = (*sp2).Sign, (*sp).Sign
				st.sig, st2.sig = st2.sig, st.sig
			}
		default:
			res.skip = "unknown kind"
			return res
		}
		// rejection is demanded exactly when, by the statement, the initiator or a listed signer
		// that is not vouched for otherwise lacks a genuine signature under its own key
		res.mustReject = !x.modelSlots(m, init, auth)
		if !res.mustReject {
			res.note = "still-signed-by-all"
		}
	case "xsig":
		if m.XuperSign == nil {
			res.skip = "not aggregated"
			return res
		}
		who := c07DefWho(nil)
		switch mut.Kind {
		case "corrupt", "badpoint":
			var xs c07XuperSigJSON
			var ms struct{ S, R []byte }
			if json.Unmarshal(m.XuperSign.Signature, &xs) != nil || json.Unmarshal(xs.SigContent, &ms) != nil {
				res.skip = "unparsable base signature"
				return res
			}
			if mut.Kind == "badpoint" {
				ms.R[len(ms.R)-1] ^= 1 // no longer a point of the curve
			} else {
				ms.S = new(big.Int).Add(new(big.Int).SetBytes(ms.S), big.NewInt(1)).Bytes()
			}
			xs.SigContent, _ = json.Marshal(ms)
			m.XuperSign.Signature, _ = json.Marshal(xs)
		case "dropkey":
			m.XuperSign.PublicKeys = m.XuperSign.PublicKeys[:len(m.XuperSign.PublicKeys)-1]
		case "swapkeys":
			pk := m.XuperSign.PublicKeys
			pk[0], pk[1] = pk[1], pk[0]
		case "replay":
			m.XuperSign.Signature = append([]byte{}, x.T2.XuperSign.Signature...)
		case "partial":
			c07XSign(m, who, len(c07AddrList(m))-1)
		case "otherkey":
			al := c07AddrList(m)
			lastAddr := al[len(al)-1]
			c07XSign(m, c07DefWho(func(a string) (*hx.Key, *hx.Key) {
				if a == lastAddr {
					return other, hx.KeyOf(a)
				}
				return nil, nil
			}), -1)
		case "remove":
			m.XuperSign = nil
		default:
			res.skip = "unknown kind"
		}
		m.Txid = T.Txid
	case "signer":
		v := other
		if v == nil {
			res.skip = "no outsider"
			return res
		}
		atk := x.attacker()
		j := mut.Arg
		subst := func(uri string) string {
			p := strings.Split(uri, "/")
			p[len(p)-1] = v.Address
			return strings.Join(p, "/")
		}
		switch mut.Kind {
		case "sub":
			m.AuthRequire[j] = subst(m.AuthRequire[j])
		case "sub-resign-own", "sub-resign-vpub":
			old := hx.KeyOf(c07Last(m.AuthRequire[j]))
			m.AuthRequire[j] = subst(m.AuthRequire[j])
			pk := old
			if mut.Kind == "sub-resign-vpub" {
				pk = v
			}
			x.resign(m, func(a string) (*hx.Key, *hx.Key) {
				if a == v.Address {
					return old, pk
				}
				return nil, nil
			})
			res.staleAlso = false
		case "add":
			m.AuthRequire = append(m.AuthRequire, v.Address)
			if m.XuperSign != nil {
				m.XuperSign.PublicKeys = append(m.XuperSign.PublicKeys, []byte(v.PubJSON))
			} else {
				m.AuthRequireSigns = append(m.AuthRequireSigns, proto.Clone(m.InitiatorSigns[0]).(*protos.SignatureInfo))
			}
		case "add-resign-own", "add-resign-vpub":
			m.AuthRequire = append(m.AuthRequire, v.Address)
			pk := atk
			if mut.Kind == "add-resign-vpub" {
				pk = v
			}
			x.resign(m, func(a string) (*hx.Key, *hx.Key) {
				if a == v.Address {
					return atk, pk
				}
				return nil, nil
			})
			res.staleAlso = false
		case "del":
			m.AuthRequire = append(m.AuthRequire[:j:j], m.AuthRequire[j+1:]...)
			if m.XuperSign == nil {
				m.AuthRequireSigns = append(m.AuthRequireSigns[:j:j], m.AuthRequireSigns[j+1:]...)
			}
		case "del-resign":
			m.AuthRequire = append(m.AuthRequire[:j:j], m.AuthRequire[j+1:]...)
			if x.b.Form == "xsign" && len(c07AddrList(m)) < 2 {
				res.skip = "aggregated form needs two keys"
				return res
			}
			x.resign(m, nil)
			res.staleAlso = false
			// every remaining signature is genuine: rejection is demanded only if the removed signer
			// was needed by the authorisation clause
			res.mustReject = !x.modelAuthorised(m, x.b.InitAks)
			if !res.mustReject {
				res.note = "still-authorised"
			}
		case "initak-outsider":
			c07PlainSign(m, [][2]*hx.Key{{v, v}}, c07DefWho(nil))
			res.staleAlso = false
			res.mustReject = !x.modelAuthorised(m, []int{v.Idx})
		case "initak-del-resign":
			var rest []int
			var ks [][2]*hx.Key
			for i, k := range x.b.InitAks {
				if i != j {
					rest = append(rest, k)
					ks = append(ks, [2]*hx.Key{hx.Ring[k], hx.Ring[k]})
				}
			}
			c07PlainSign(m, ks, c07DefWho(nil))
			res.staleAlso = false
			res.mustReject = len(rest) == 0 || !x.modelAuthorised(m, rest)
			if !res.mustReject {
				res.note = "still-authorised"
			}
		default:
			res.skip = "unknown kind"
		}
	case "forge":
		res.staleAlso = false
		atk := x.attacker()
		vk, u := x.victim()
		needVictim := !strings.HasPrefix(mut.Kind, "acct-")
		if needVictim && vk == nil {
			res.skip = "no funded outsider"
			return res
		}
		subV := func(sk, pk *hx.Key) c07Who {
			return func(a string) (*hx.Key, *hx.Key) {
				if a == vk.Address {
					return sk, pk
				}
				return nil, nil
			}
		}
		addIn := func() {
			m.TxInputs = append(m.TxInputs, c07InputOf(u))
			m.TxOutputs = append(m.TxOutputs, &protos.TxOutput{ToAddr: []byte(atk.Address), Amount: u.Amount.Bytes()})
		}
		switch mut.Kind {
		case "plain-add":
			addIn()
			x.resign(m, nil)
		case "plain-replace":
			con := c07ContractInputs(m)
			idx := -1
			for i, in := range m.TxInputs {
				if !con[hx.UKey(string(in.FromAddr), in.RefTxid, in.RefOffset)] && new(big.Int).SetBytes(in.Amount).Cmp(u.Amount) <= 0 {
					idx = i
					break
				}
			}
			if idx < 0 {
				res.skip = "no replaceable input"
				return res
			}
			delta := new(big.Int).Sub(u.Amount, new(big.Int).SetBytes(m.TxInputs[idx].Amount))
			m.TxInputs[idx] = c07InputOf(u)
			if delta.Sign() > 0 {
				m.TxOutputs = append(m.TxOutputs, &protos.TxOutput{ToAddr: []byte(atk.Address), Amount: delta.Bytes()})
			}
			x.resign(m, nil)
		case "listed-own", "listed-vpub":
			addIn()
			m.AuthRequire = append(m.AuthRequire, vk.Address)
			pk := atk
			if mut.Kind == "listed-vpub" {
				pk = vk
			}
			x.resign(m, subV(atk, pk))
		case "xs-partial", "xs-omit":
			f := x.pureTransfer(atk.Address, []string{vk.Address}, u, atk.Address, mut.Kind)
			omit := -1
			if mut.Kind == "xs-omit" {
				omit = 1
			}
			c07XSign(f, c07DefWho(subV(atk, vk)), omit)
			res.tx = f
		case "xs-ecdsa", "xs-der":
			// the initiator alone signs; the victim's (public) key is merely listed
			f := x.pureTransfer(atk.Address, []string{vk.Address}, u, atk.Address, mut.Kind)
			sig := hx.DetSign(atk.Priv, c07Digest(f))
			if mut.Kind == "xs-ecdsa" {
				r, s := c07DER(sig)
				content, _ := json.Marshal(struct{ R, S *big.Int }{r, s})
				sig, _ = json.Marshal(c07XuperSigJSON{SigType: "ECDSA", SigContent: content})
			}
			f.XuperSign = &pb.XuperSignature{PublicKeys: [][]byte{[]byte(atk.PubJSON), []byte(vk.PubJSON)}, Signature: sig}
			f.Txid = c07ID(f)
			res.tx = f
		case "xs-rogue":
			// initiator key P_a = x*G - P_v (nobody knows its private key); C = P_a + P_v = x*G
			curve := elliptic.P256()
			xs := new(big.Int).SetBytes(c07Nonce(atk, []byte("rogue"), 0))
			xs.Mod(xs, curve.Params().N)
			gx, gy := curve.ScalarBaseMult(xs.Bytes())
			ny := new(big.Int).Sub(curve.Params().P, vk.Priv.PublicKey.Y)
			ax, ay := curve.Add(gx, gy, vk.Priv.PublicKey.X, ny)
			addr, err := hx.Crypt.GetAddressFromPublicKey(&ecdsa.PublicKey{Curve: curve, X: ax, Y: ay})
			if err != nil {
				res.skip = "rogue address: " + err.Error()
				return res
			}
			f := x.pureTransfer(addr, []string{vk.Address}, u, atk.Address, mut.Kind)
			d := c07Digest(f)
			k := c07Nonce(atk, d, 7)
			rx, ry := curve.ScalarBaseMult(k)
			rb := elliptic.Marshal(curve, rx, ry)
			cb := elliptic.Marshal(curve, gx, gy)
			h := sha256.Sum256(append(append(append([]byte{}, cb...), rb...), d...))
			sv := new(big.Int).Mul(new(big.Int).SetBytes(h[:]), xs)
			sv.Add(sv, new(big.Int).SetBytes(k))
			sig, _ := hx.Crypt.GenerateMultiSignSignature(sv.Bytes(), rb)
			f.XuperSign = &pb.XuperSignature{PublicKeys: [][]byte{[]byte(c07PubJSON(ax, ay)), []byte(vk.PubJSON)}, Signature: sig}
			f.Txid = c07ID(f)
			res.tx = f
		case "contract-claim-norequest":
			// a plain transfer (no contract request at all) of the victim's output that merely DECLARES the input
			// as spent by contract code; only the attacker signs
			f := x.pureTransfer(atk.Address, []string{atk.Address}, u, atk.Address, mut.Kind)
			val, _ := xmodel.MarshalMessages([]*protos.TxInput{c07InputOf(u)})
			f.TxOutputsExt = []*protos.TxOutputExt{{Bucket: hx.TransientBucket, Key: []byte("ContractUtxo.Inputs"), Value: val}}
			c07PlainSign(f, [][2]*hx.Key{{atk, atk}}, c07DefWho(func(a string) (*hx.Key, *hx.Key) {
				if a == atk.Address {
					return atk, atk
				}
				return nil, nil
			}))
			res.tx = f
		case "contract-claim-second":
			// a contract transfer paid from two outputs of the contract: the SECOND declared input is replaced by the
			// victim's output (inputs and declaration), the contract's change grows by the difference
			claimed, _ := xmodel.ParseContractUtxoInputs(m)
			outs, _ := xmodel.ParseContractUtxoOutputs(m)
			if len(claimed) < 2 {
				res.skip = "contract transfer with fewer than two inputs"
				return res
			}
			old := claimed[1]
			delta := new(big.Int).Sub(u.Amount, new(big.Int).SetBytes(old.Amount))
			if delta.Sign() < 0 {
				res.skip = "victim output too small"
				return res
			}
			for i, in := range m.TxInputs {
				if bytes.Equal(in.RefTxid, old.RefTxid) && in.RefOffset == old.RefOffset {
					m.TxInputs[i] = c07InputOf(u)
				}
			}
			claimed[1] = c07InputOf(u)
			if delta.Sign() > 0 {
				self := string(old.FromAddr)
				grown := false
				for _, o := range outs {
					if string(o.ToAddr) == self && !grown {
						was := append([]byte{}, o.Amount...)
						o.Amount = new(big.Int).Add(new(big.Int).SetBytes(was), delta).Bytes()
						for _, to := range m.TxOutputs {
							if string(to.ToAddr) == self && bytes.Equal(to.Amount, was) && !grown {
								to.Amount = o.Amount
								grown = true
							}
						}
					}
				}
				if !grown {
					ch := &protos.TxOutput{ToAddr: []byte(self), Amount: delta.Bytes()}
					outs = append(outs, ch)
					m.TxOutputs = append(m.TxOutputs, &protos.TxOutput{ToAddr: []byte(self), Amount: delta.Bytes()})
				}
			}
			inVal, _ := xmodel.MarshalMessages(claimed)
			outVal, _ := xmodel.MarshalMessages(outs)
			for _, oe := range m.TxOutputsExt {
				if oe.Bucket == hx.TransientBucket && string(oe.Key) == "ContractUtxo.Inputs" {
					oe.Value = inVal
				}
				if oe.Bucket == hx.TransientBucket && string(oe.Key) == "ContractUtxo.Outputs" {
					oe.Value = outVal
				}
			}
			x.resign(m, nil)
		case "contract-claim", "contract-claim-front":
			if len(m.ContractRequests) == 0 {
				res.skip = "no contract"
				return res
			}
			claimed, _ := xmodel.ParseContractUtxoInputs(m)
			if mut.Kind == "contract-claim-front" {
				// the victim's output in FRONT of the contract's own declared inputs (and of the inputs)
				if len(claimed) == 0 {
					res.skip = "contract spends nothing"
					return res
				}
				m.TxInputs = append([]*protos.TxInput{c07InputOf(u)}, m.TxInputs...)
				m.TxOutputs = append(m.TxOutputs, &protos.TxOutput{ToAddr: []byte(atk.Address), Amount: u.Amount.Bytes()})
				claimed = append([]*protos.TxInput{c07InputOf(u)}, claimed...)
			} else {
				addIn()
				claimed = append(claimed, c07InputOf(u))
			}
			val, _ := xmodel.MarshalMessages(claimed)
			done := false
			for _, oe := range m.TxOutputsExt {
				if oe.Bucket == hx.TransientBucket && string(oe.Key) == "ContractUtxo.Inputs" {
					oe.Value = val
					done = true
				}
			}
			if !done {
				m.TxOutputsExt = append(m.TxOutputsExt, &protos.TxOutputExt{Bucket: hx.TransientBucket, Key: []byte("ContractUtxo.Inputs"), Value: val})
			}
			x.resign(m, nil)
		case "acct-outsider", "acct-below", "acct-init-outsider":
			if x.acct == "" {
				res.skip = "no account"
				return res
			}
			us := spendable(x.nm.PoolState(), x.acct, x.height, false)
			if len(us) == 0 {
				res.skip = "account owns nothing"
				return res
			}
			member := map[int]bool{}
			for _, k := range x.b.Acct.Aks {
				member[k] = true
			}
			var out *hx.Key
			for i := 0; i < hx.RingSize; i++ {
				if !member[i] && i != hx.MinerKey {
					out = hx.Ring[i]
					break
				}
			}
			switch mut.Kind {
			case "acct-outsider":
				f := x.pureTransfer(out.Address, []string{out.Address, x.acct + "/" + out.Address}, us[0], out.Address, mut.Kind)
				c07PlainSign(f, [][2]*hx.Key{{out, out}}, c07DefWho(nil))
				res.tx = f
			case "acct-init-outsider":
				f := x.pureTransfer(x.acct, []string{x.acct + "/" + out.Address}, us[0], out.Address, mut.Kind)
				c07PlainSign(f, [][2]*hx.Key{{out, out}}, c07DefWho(nil))
				res.tx = f
			default:
				// the largest member subset (drop one member at a time) that does not satisfy the rule
				var sub []int
				for drop := range x.b.Acct.Aks {
					ks := map[int]bool{}
					var l []int
					for i, k := range x.b.Acct.Aks {
						if i != drop {
							ks[k] = true
							l = append(l, k)
						}
					}
					if len(l) > 0 && !x.b.Acct.satisfied(ks) {
						sub = l
						break
					}
				}
				if sub == nil {
					res.skip = "every member subset satisfies the rule"
					return res
				}
				first := hx.Ring[sub[0]]
				var auth []string
				for _, k := range sub {
					auth = append(auth, x.acct+"/"+hx.Ring[k].Address)
				}
				f := x.pureTransfer(first.Address, auth, us[0], first.Address, mut.Kind)
				c07PlainSign(f, [][2]*hx.Key{{first, first}}, c07DefWho(nil))
				res.tx = f
			}
		default:
			res.skip = "unknown kind"
		}
	default:
		res.skip = "unknown class"
	}
	return res
}

// ---------------------------------------------------------------------------------------------
// oracle

type c07Res struct {
	Skip   string
	Labels []string
	Err    error
	Txid   string // variant that violated
	Cov    bool   // the mutant changes a covered field
}

// c07Classify maps a mutation to the root cause it is known to trigger (narrow: mutation kind only).
func c07Classify(mut c07Mut) string {
	if mut.Class == "xsig" && mut.Kind == "badpoint" {
		return c07FindXsPanic
	}
	if mut.Class == "forge" {
		switch mut.Kind {
		case "xs-ecdsa", "xs-der":
			return c07FindXsSingle
		case "xs-rogue":
			return c07FindRogue
		}
	}
	return ""
}

func c07Short(s string) string {
	if len(s) > 48 {
		s = s[:48]
	}
	return s
}

func c07StripIdx(path string) string {
	var out []string
	for _, seg := range strings.Split(path, ".") {
		n, _, _ := c07ParseSeg(seg)
		out = append(out, n)
	}
	return strings.Join(out, ".")
}

func c07TopField(mut c07Mut) string {
	top, _, _ := c07ParseSeg(strings.Split(mut.Path, ".")[0])
	return top
}

// c07CoveredKey: canonical rendering of everything the digest must cover.
func c07CoveredKey(tx *pb.Transaction) []byte {
	c := hx.CloneTx(tx)
	c.Txid, c.Blockid, c.ReceivedTimestamp, c.ModifyBlock = nil, nil, 0, nil
	c07StripSigs(c)
	if c.HDInfo != nil && len(c.HDInfo.HdPublicKey) == 0 && len(c.HDInfo.OriginalHash) == 0 {
		c.HDInfo = nil
	}
	b, err := protov2.MarshalOptions{Deterministic: true}.Marshal(proto.MessageV2(c))
	if err != nil {
		panic(err)
	}
	return b
}

// c07Registry: v3 digests seen in this process -> covered content (length-prefix injectivity).
type c07Registry struct {
	m   map[[32]byte][32]byte
	raw map[[32]byte][]byte
}

func c07NewRegistry() *c07Registry {
	return &c07Registry{m: map[[32]byte][32]byte{}, raw: map[[32]byte][]byte{}}
}

// note registers tx; it returns the earlier transaction (marshalled) if one with different covered
// content has the same digest.
func (r *c07Registry) note(tx *pb.Transaction) []byte {
	if r == nil || tx.Version != 3 || len(r.m) > 400000 {
		return nil
	}
	var d [32]byte
	copy(d[:], c07Digest(tx))
	ck := sha256.Sum256(c07CoveredKey(tx))
	if old, ok := r.m[d]; ok {
		if old != ck {
			return r.raw[d]
		}
		return nil
	}
	r.m[d] = ck
	if len(r.raw) < 20000 {
		b, _ := proto.Marshal(tx)
		r.raw[d] = b
	}
	return nil
}

func c07CollideCheck(a, b *pb.Transaction) error {
	if a.Version == 3 && b.Version == 3 && bytes.Equal(c07Digest(a), c07Digest(b)) && !bytes.Equal(c07CoveredKey(a), c07CoveredKey(b)) {
		return fmt.Errorf("two v3 transactions with different covered content share the signing digest %x", c07Digest(a))
	}
	return nil
}

// eval applies one mutation to the accepted base and judges the outcome by the statement.
func (x *c07Ctx) eval(mut c07Mut, reg *c07Registry, sampleSubmit bool) (res c07Res) {
	T := x.T
	form := "form:" + x.b.Form
	res.Labels = []string{form, fmt.Sprintf("v%d", T.Version), "class:" + mut.Class}
	fail := func(variant, format string, args ...interface{}) c07Res {
		res.Txid = variant
		res.Err = fmt.Errorf("%s [base: %s]", fmt.Sprintf(format, args...), c07Describe(T))
		return res
	}
	switch mut.Class {
	case "walk", "shift":
		m, err := c07ApplyWalk(T, mut)
		if err != nil {
			res.Skip = "inapplicable: " + err.Error()
			return res
		}
		if proto.Equal(m, T) {
			res.Skip = "null-reencoding"
			return res
		}
		scope := c07Scope(mut.Path, T.Version)
		res.Labels = append(res.Labels, "scope:"+scope, "field:"+c07TopField(mut), "kind:"+mut.Kind)
		switch scope {
		case "outside":
			res.Skip = "outside-statement"
			return res
		case "txid":
			// the id itself: anything but the hash of the content must be refused
			if ok, _ := x.verify(m); ok {
				return fail("stale", "txid %s: the transaction is accepted although its id is not the hash of its content", mut.Kind)
			}
			return res
		case "sigcarrier":
			if bytes.Equal(c07ID(m), T.Txid) {
				res.Skip = "null-reencoding"
				return res
			}
			if ok, _ := x.verify(m); ok {
				return fail("stale", "%s %s changes a signature carrier, yet the transaction is accepted under its old txid (the id does not cover it)", mut.Path, mut.Kind)
			}
			// with a recomputed id nothing is asserted: the carrier may be an equivalent encoding of
			// the same valid signature; the semantic signature mutations are separate (class sig)
			m.Txid = c07ID(m)
			if ok, why := x.verify(m); ok {
				res.Labels = append(res.Labels, "sigcarrier-reencoded-accepted", "sigcarrier-accepted:"+c07StripIdx(mut.Path)+"/"+mut.Kind)
			} else if strings.HasPrefix(why, "PANIC") {
				res.Labels = append(res.Labels, "sigcarrier-panic")
				if !c07Exclude[c07FindXsPanic] || c07TopField(mut) != "xuper_sign" {
					return fail("fresh", "%s %s: the verifier panics instead of rejecting: %s", mut.Path, mut.Kind, why)
				}
			}
			return res
		}
		res.Cov = true
		d := c07Digest(m)
		if mut.Class == "shift" && T.Version < 3 {
			// legacy json-stream digest: multi-field collisions are outside the statement
			if bytes.Equal(d, x.digest) {
				res.Labels = append(res.Labels, "legacy-shift-collides:"+c07StripIdx(mut.Path))
				res.Skip = "legacy-multi-field"
				return res
			}
		}
		if bytes.Equal(d, x.digest) {
			return fail("digest", "%s %s changes a covered field but the signing digest is unchanged (%x)", mut.Path, mut.Kind, d)
		}
		if old := reg.note(m); old != nil {
			o := &pb.Transaction{}
			proto.Unmarshal(old, o)
			res.Err = c07CollideCheck(o, m)
			if res.Err != nil {
				res.Txid = "collide:" + hex.EncodeToString(old)
				return res
			}
		}
		if ok, _ := x.verify(m); ok {
			return fail("stale", "%s %s changes a covered field, keeps the old signatures and txid, and is accepted", mut.Path, mut.Kind)
		}
		m.Txid = c07ID(m)
		if ok, why := x.verify(m); ok {
			return fail("fresh", "%s %s changes a covered field, keeps the old signatures (txid recomputed), and is accepted", mut.Path, mut.Kind)
		} else if strings.HasPrefix(why, "PANIC") {
			return fail("fresh", "%s %s: the verifier panics instead of rejecting: %s", mut.Path, mut.Kind, why)
		}
		if sampleSubmit && len(m.TxInputs) > 0 {
			if err := x.submit(m); err == nil {
				return fail("fresh", "%s %s: Chain.SubmitTx admits the mutant", mut.Path, mut.Kind)
			}
			res.Labels = append(res.Labels, "submit-mutant-refused")
		}
		return res
	}
	sp := x.applySpecial(mut)
	if sp.skip != "" {
		res.Skip = "inapplicable: " + sp.skip
		return res
	}
	res.Labels = append(res.Labels, "kind:"+mut.Class+"/"+mut.Kind)
	if sp.note != "" {
		res.Labels = append(res.Labels, mut.Class+"/"+mut.Kind+":"+sp.note)
	}
	m := sp.tx
	res.Cov = !bytes.Equal(c07Digest(m), x.digest)
	if sp.staleAlso {
		st := hx.CloneTx(m)
		st.Txid = T.Txid
		if bytes.Equal(c07ID(st), T.Txid) {
			res.Skip = "null-reencoding"
			return res
		}
		if sp.staleReject {
			if ok, _ := x.verify(st); ok {
				return fail("stale", "%s/%s (arg %d,%d): accepted under the old txid", mut.Class, mut.Kind, mut.Arg, mut.Arg2)
			}
		}
	}
	m.Txid = c07ID(m)
	ok, why := x.verify(m)
	if strings.HasPrefix(why, "PANIC") {
		return fail("fresh", "%s/%s: the verifier panics instead of rejecting: %s", mut.Class, mut.Kind, why)
	}
	if ok {
		if sp.mustReject {
			return fail("fresh", "%s/%s (arg %d,%d) is accepted by VerifyTx although a required signer never signed it: %s", mut.Class, mut.Kind, mut.Arg, mut.Arg2, c07Describe(m))
		}
		res.Labels = append(res.Labels, mut.Class+"/"+mut.Kind+":accepted-as-allowed")
		return res
	}
	if sp.mustReject && sampleSubmit && len(m.TxInputs) > 0 {
		if err := x.submit(m); err == nil {
			return fail("fresh", "%s/%s: Chain.SubmitTx admits the mutant", mut.Class, mut.Kind)
		}
		res.Labels = append(res.Labels, "submit-mutant-refused")
	}
	return res
}

// allMuts: the deterministic enumeration for the base.
func (x *c07Ctx) allMuts() []c07Mut {
	var out []c07Mut
	c07WalkMuts(proto.MessageReflect(x.T), "", &out)
	return append(out, x.specialMuts()...)
}

// c07Shape: the base shape descriptor of the non-triviality key.
func (x *c07Ctx) shape() string {
	T := x.T
	rule := ""
	if x.b.Acct != nil {
		rule = x.b.Acct.Rule
	}
	return fmt.Sprintf("%s/v%d/in%d/out%d/rx%d/wx%d/req%d/auth%d/init%d/%s/hd%v", x.b.Form, T.Version, len(T.TxInputs), len(T.TxOutputs),
		len(T.TxInputsExt), len(T.TxOutputsExt), len(T.ContractRequests), len(T.AuthRequire), len(T.InitiatorSigns), rule, T.HDInfo != nil)
}

func (x *c07Ctx) multiOrAcct() bool {
	return len(x.signed) >= 2 || x.b.Form == "acctinit" || x.b.Form == "acctin"
}

// c07Run: plain interpreter of a trace (replays, witnesses).
func c07Run(els []c07TraceEl, fs *hx.FindingSet) error {
	var base *c07Base
	var mut *c07Mut
	for i := range els {
		if len(els[i].Collide) == 2 {
			a, b := &pb.Transaction{}, &pb.Transaction{}
			ab, _ := hex.DecodeString(els[i].Collide[0])
			bb, _ := hex.DecodeString(els[i].Collide[1])
			if proto.Unmarshal(ab, a) != nil || proto.Unmarshal(bb, b) != nil {
				return fmt.Errorf("bad collide element")
			}
			return c07CollideCheck(a, b)
		}
		if els[i].Base != nil {
			base = els[i].Base
		}
		if els[i].Mut != nil {
			mut = els[i].Mut
		}
	}
	if base == nil {
		return fmt.Errorf("trace has no base")
	}
	x, err := c07Prepare(base, fs)
	if err != nil {
		if strings.HasPrefix(err.Error(), "setup:") || base.Form == "xsign" {
			return nil // not a statement of C07
		}
		return err
	}
	defer x.Close()
	if mut == nil {
		// no mutation recorded: the failing step was the sequence that follows the base's own submission
		if len(x.T.TxInputs) > 0 {
			x.submit(x.T)
		}
		return x.overtakingChild()
	}
	m := *mut
	m.Txid = ""
	return x.eval(m, nil, true).Err
}

func init() {
	replayers["C07/tx-mutations"] = func(raw json.RawMessage, fs *hx.FindingSet) error {
		var els []c07TraceEl
		if err := json.Unmarshal(raw, &els); err != nil {
			return err
		}
		return c07Run(els, fs)
	}
	for _, id := range []string{c07FindXsSingle, c07FindRogue, c07FindXsPanic} {
		replayers["C07/witness-"+id] = replayers["C07/tx-mutations"]
	}
}

// ---------------------------------------------------------------------------------------------
// generator

func c07Amount(s string) *big.Int {
	a, _ := new(big.Int).SetString(s, 10)
	if a == nil {
		a = big.NewInt(0)
	}
	return a
}

func c07HasIn(spec *hx.TxSpec, u *hx.UTXO) bool {
	for _, r := range spec.Ins {
		if r.Txid == hex.EncodeToString(u.Txid) && r.Off == u.Off {
			return true
		}
	}
	return false
}

// c07AddIn makes spec spend u too and pay the amount to ring key `to`.
func c07AddIn(spec *hx.TxSpec, u *hx.UTXO, to int) {
	r := hx.InRef{Addr: -1, AddrS: u.Addr, Txid: hex.EncodeToString(u.Txid), Off: u.Off, Amount: u.Amount.String(), Frozen: u.Frozen}
	if k := hx.KeyOf(u.Addr); k != nil {
		r.Addr, r.AddrS = k.Idx, ""
	}
	spec.Ins = append(spec.Ins, r)
	spec.Outs = append(spec.Outs, hx.OutSpec{To: to, Amount: u.Amount.String()})
}

type c07Gen struct {
	rt *rapid.T
	nm *hx.NodeMachine
	b  *c07Base
}

func (g *c07Gen) apply(op hx.NOp) error {
	g.b.Prep = append(g.b.Prep, op)
	return g.nm.Apply(op)
}

func (g *c07Gen) mine() error {
	if g.nm.Ptr != g.nm.LM.M.Tip {
		return nil
	}
	return g.apply(hx.NOp{Op: "mine", Label: fmt.Sprintf("b%d", len(g.nm.LM.M.Blocks)), Proposer: rapid.IntRange(0, 2).Draw(g.rt, "proposer")})
}

// payer picks inputs of ring key `from` worth at least need.
func (g *c07Gen) payer(from int, need *big.Int) ([]hx.InRef, *big.Int, bool) {
	tot := big.NewInt(0)
	var ins []hx.InRef
	for _, u := range spendable(g.nm.PoolState(), hx.Ring[from].Address, c07Height(g.nm), false) {
		ins = append(ins, hx.InRef{Addr: from, Txid: hex.EncodeToString(u.Txid), Off: u.Off, Amount: u.Amount.String()})
		tot.Add(tot, u.Amount)
		if tot.Cmp(need) >= 0 {
			return ins, tot, true
		}
	}
	return nil, nil, false
}

// newAccountSpec: the $acl.NewAccount transaction for acct paid by ring key from.
func (g *c07Gen) newAccountSpec(a *c07Acct, from int, version int32) (hx.TxSpec, bool) {
	ins, tot, ok := g.payer(from, big.NewInt(5000))
	if !ok {
		return hx.TxSpec{}, false
	}
	g.nm.Seq++
	spec := hx.TxSpec{From: from, Seq: g.nm.Seq, Version: version, Contract: "$acl", Method: "NewAccount",
		Args: map[string]string{"account_name": a.Num, "acl": c07AclJSON(a)}, Ins: ins}
	gas := int64(1000)
	if _, pre := g.nm.BuildOnModel(&spec, g.nm.PoolState()); pre != nil && pre.Err == nil && pre.GasUsed > 0 {
		gas = pre.GasUsed
	}
	spec.Outs = []hx.OutSpec{{To: -1, Amount: fmt.Sprint(gas)}, {To: from, Amount: new(big.Int).Sub(tot, big.NewInt(gas)).String()}}
	return spec, true
}

func (g *c07Gen) drawAcct(num string) *c07Acct {
	rt := g.rt
	a := &c07Acct{Num: num}
	n := rapid.IntRange(1, 3).Draw(rt, "naks")
	start := rapid.IntRange(0, 9).Draw(rt, "akstart")
	for i := 0; i < n; i++ {
		k := (start + i*3) % 10
		if k == hx.MinerKey {
			k = 8
		}
		dup := false
		for _, o := range a.Aks {
			if o == k {
				dup = true
			}
		}
		if !dup {
			a.Aks = append(a.Aks, k)
		}
	}
	if rapid.Bool().Draw(rt, "akset") {
		a.Rule = "akset"
		a.Sets = [][]int{append([]int{}, a.Aks...)}
		if len(a.Aks) > 1 && rapid.Bool().Draw(rt, "twosets") {
			a.Sets = [][]int{a.Aks[:1], a.Aks[1:]}
		}
		return a
	}
	a.Rule = "threshold"
	sum := 0.0
	for range a.Aks {
		w := float64(rapid.IntRange(1, 3).Draw(rt, "weight")) * 0.25
		a.Weights = append(a.Weights, w)
		sum += w
	}
	switch rapid.IntRange(0, 2).Draw(rt, "accept") {
	case 0:
		a.Accept = sum // everybody
	case 1:
		a.Accept = a.Weights[0] // the first member alone suffices
	default:
		a.Accept = sum / 2
	}
	return a
}

// satisfying draws a member subset that satisfies the rule (all members, or a minimal prefix).
func (g *c07Gen) satisfying(a *c07Acct) []int {
	if a.Rule == "akset" {
		s := a.Sets[rapid.IntRange(0, len(a.Sets)-1).Draw(g.rt, "whichset")]
		return append([]int{}, s...)
	}
	if rapid.Bool().Draw(g.rt, "allmembers") {
		return append([]int{}, a.Aks...)
	}
	ks := map[int]bool{}
	var out []int
	for _, k := range a.Aks {
		ks[k] = true
		out = append(out, k)
		if a.satisfied(ks) {
			break
		}
	}
	return out
}

// c07GenBase prepares the node (recording the operations) and draws the base scenario.
func c07GenBase(rt *rapid.T, nm *hx.NodeMachine) (*c07Base, error) {
	b := &c07Base{}
	g := &c07Gen{rt: rt, nm: nm, b: b}
	b.Form = rapid.SampledFrom([]string{"ak", "ak", "multi", "multi", "multi", "acctinit", "acctinit", "acctin", "acctin", "xsign", "xsign"}).Draw(rt, "form")
	version := int32(rapid.SampledFrom([]int{1, 2, 3, 3}).Draw(rt, "version"))
	cfg := defaultGenCfg()
	cfg.ContractPct = 40
	// warm-up: pending and confirmed transfers / contract writes, sometimes money for $verif
	nw := rapid.IntRange(0, 4).Draw(rt, "warm")
	for i := 0; i < nw; i++ {
		switch k := rapid.IntRange(0, 9).Draw(rt, "warmkind"); {
		case k < 2:
			if err := g.mine(); err != nil {
				return b, err
			}
		case k < 4 && len(nm.PoolState().UtxosOf(hx.VerifContract)) < 2:
			c2 := cfg
			c2.ContractPct = 0
			spec, ok := genTxSpec(rt, nm, nm.PoolState(), c2, c07Height(nm), false)
			if !ok {
				continue
			}
			tot := big.NewInt(0)
			for _, in := range spec.Ins {
				tot.Add(tot, c07Amount(in.Amount))
			}
			if tot.Cmp(big.NewInt(500)) <= 0 {
				continue
			}
			spec.Prog = []hx.Ins{{Op: "get", K: "a"}}
			spec.ConAmt = int64(rapid.IntRange(50, 300).Draw(rt, "conamt"))
			spec.Outs = []hx.OutSpec{{To: -2, ToS: hx.VerifContract, Amount: fmt.Sprint(spec.ConAmt)}, {To: spec.From, Amount: new(big.Int).Sub(tot, big.NewInt(spec.ConAmt)).String()}}
			if err := g.apply(hx.NOp{Op: "tx", Tx: &spec}); err != nil {
				return b, err
			}
		default:
			spec, ok := genTxSpec(rt, nm, nm.PoolState(), cfg, c07Height(nm), false)
			if !ok {
				continue
			}
			if err := g.apply(hx.NOp{Op: "tx", Tx: &spec}); err != nil {
				return b, err
			}
		}
	}
	// account scenarios: create the account through the real $acl contract, fund it, confirm both
	if b.Form == "acctinit" || b.Form == "acctin" || rapid.IntRange(0, 5).Draw(rt, "acctanyway") == 0 {
		a := g.drawAcct(rapid.SampledFrom([]string{"1111111111111111", "2222222222222222", "1234567890123456"}).Draw(rt, "acctnum"))
		creator := rapid.IntRange(0, 4).Draw(rt, "creator")
		acctver := int32(rapid.SampledFrom([]int{1, 2, 3}).Draw(rt, "acctver"))
		spec, ok := g.newAccountSpec(a, creator, acctver)
		for i := 1; i < 5 && !ok; i++ {
			spec, ok = g.newAccountSpec(a, (creator+i)%5, acctver)
		}
		if !ok {
			return b, fmt.Errorf("setup: creator %d cannot pay for the account", creator)
		}
		if err := g.apply(hx.NOp{Op: "tx", Tx: &spec}); err != nil {
			return b, err
		}
		if nm.LastOutcome != "admitted" {
			return b, fmt.Errorf("setup: NewAccount transaction was %s", nm.LastOutcome)
		}
		funder := rapid.IntRange(0, 4).Draw(rt, "funder")
		ins, tot, ok := g.payer(funder, big.NewInt(9000))
		for i := 1; i < 5 && !ok; i++ {
			if ins, tot, ok = g.payer((funder+i)%5, big.NewInt(9000)); ok {
				funder = (funder + i) % 5
			}
		}
		if !ok {
			return b, fmt.Errorf("setup: funder %d cannot fund the account", funder)
		}
		nm.Seq++
		name := c07AcctName(a)
		f := hx.TxSpec{From: funder, Seq: nm.Seq, Version: 3, Ins: ins, Outs: []hx.OutSpec{
			{To: -2, ToS: name, Amount: "4000"}, {To: -2, ToS: name, Amount: "2500"}, {To: -2, ToS: name, Amount: "700"},
			{To: funder, Amount: new(big.Int).Sub(tot, big.NewInt(7200)).String()}}}
		if err := g.apply(hx.NOp{Op: "tx", Tx: &f}); err != nil {
			return b, err
		}
		if err := g.mine(); err != nil {
			return b, err
		}
		b.Acct = a
	}
	// the base transaction
	s := nm.PoolState()
	h := c07Height(nm)
	spec, ok := genTxSpec(rt, nm, s, cfg, h, false)
	if !ok {
		return b, fmt.Errorf("setup: nobody can pay")
	}
	spec.Version = version
	if rapid.Bool().Draw(rt, "desc") {
		spec.Desc = fmt.Sprintf("d%d", spec.Seq)
	}
	if rapid.IntRange(0, 5).Draw(rt, "newacct") == 0 {
		// the base itself creates (another) account: kernel contract with a two-entry argument map
		a2 := g.drawAcct("9999999999999999")
		if sp, ok := g.newAccountSpec(a2, spec.From, version); ok {
			sp.Desc = spec.Desc
			spec = sp
		}
	}
	if len(spec.Prog) > 0 {
		if cu := s.UtxosOf(hx.VerifContract); len(cu) == 1 && cu[0].Frozen == 0 && rapid.Bool().Draw(rt, "contransfer") {
			amt := int64(rapid.IntRange(1, int(c07MinI64(cu[0].Amount.Int64(), 50))).Draw(rt, "xferamt"))
			spec.Prog = append(spec.Prog, hx.Ins{Op: "transfer", To: hx.Ring[rapid.IntRange(0, 5).Draw(rt, "xferto")].Address, Amt: amt})
		} else if len(cu) == 2 && cu[0].Frozen == 0 && cu[1].Frozen == 0 && rapid.Bool().Draw(rt, "contransfer2") {
			// the contract owns two outputs: an amount above the larger one needs both, whichever is selected first
			a, b := cu[0].Amount.Int64(), cu[1].Amount.Int64()
			if a < b {
				a, b = b, a
			}
			amt := int64(rapid.IntRange(int(a)+1, int(a+b)).Draw(rt, "xferamt2"))
			spec.Prog = append(spec.Prog, hx.Ins{Op: "transfer", To: hx.Ring[rapid.IntRange(0, 5).Draw(rt, "xferto")].Address, Amt: amt})
		}
	}
	b.HD = rapid.IntRange(0, 2).Draw(rt, "hd") == 0
	// 1 base in 3 has a nonce of several hundred bytes (round-7 change C07-k: a chunked string encoder that repeats the
	// first 256 bytes): the mutator changes the first and the LAST byte of every string field and appends / truncates
	if rapid.IntRange(0, 2).Draw(rt, "longnonce") == 0 {
		spec.NoncePad = rapid.SampledFrom([]int{256, 300, 700}).Draw(rt, "noncepad")
	}
	drawSigners := func(min, max int, distinct bool) {
		n := rapid.IntRange(min, max).Draw(rt, "nsigners")
		for i := 0; i < n; i++ {
			k := rapid.IntRange(0, 9).Draw(rt, "signer")
			if k == hx.MinerKey {
				k = 8
			}
			if distinct {
				for tries := 0; tries < 12; tries++ {
					clash := k == spec.From
					for _, o := range b.Signers {
						if o.Key == k {
							clash = true
						}
					}
					if !clash {
						break
					}
					k = (k + 1) % 10
					if k == hx.MinerKey {
						k = 8
					}
				}
			}
			sg := c07Signer{Key: k, Acct: rapid.IntRange(0, 3).Draw(rt, "asuri") == 0}
			b.Signers = append(b.Signers, sg)
			// sometimes the further signer's money is spent too, so that its signature is needed
			if us := spendable(s, hx.Ring[k].Address, h, false); k != spec.From && len(us) > 0 && rapid.Bool().Draw(rt, "spendsigner") {
				if u := us[rapid.IntRange(0, len(us)-1).Draw(rt, "whichu")]; !c07HasIn(&spec, u) {
					c07AddIn(&spec, u, rapid.IntRange(0, 6).Draw(rt, "payto"))
				}
			}
		}
	}
	acctIns := func() {
		us := spendable(s, c07AcctName(b.Acct), h, false)
		n := rapid.IntRange(1, minInt(2, len(us))).Draw(rt, "nacctins")
		for i := 0; i < n; i++ {
			c07AddIn(&spec, us[i], rapid.IntRange(0, 6).Draw(rt, "payto"))
		}
	}
	switch b.Form {
	case "ak":
		b.NoSelf = rapid.IntRange(0, 3).Draw(rt, "noself") == 0
	case "multi":
		b.NoSelf = rapid.IntRange(0, 3).Draw(rt, "noself") == 0
		drawSigners(1, 3, false)
	case "xsign":
		b.NoSelf = rapid.IntRange(0, 3).Draw(rt, "noself") == 0
		drawSigners(1, 3, true)
	case "acctin":
		b.NoSelf = rapid.IntRange(0, 3).Draw(rt, "noself") == 0
		acctIns()
		for _, k := range g.satisfying(b.Acct) {
			b.Signers = append(b.Signers, c07Signer{Key: k, Acct: true})
		}
		if rapid.IntRange(0, 2).Draw(rt, "extrasigner") == 0 {
			drawSigners(1, 1, false)
		}
	case "acctinit":
		b.InitAks = g.satisfying(b.Acct)
		if rapid.IntRange(0, 2).Draw(rt, "spendacct") > 0 {
			acctIns()
			for _, k := range g.satisfying(b.Acct) {
				b.Signers = append(b.Signers, c07Signer{Key: k, Acct: true})
			}
		}
		if rapid.IntRange(0, 3).Draw(rt, "extrasigner") == 0 {
			drawSigners(1, 1, false)
		}
		// the payer's own inputs need the payer among the verified keys
		for _, k := range b.InitAks {
			if k == spec.From && rapid.Bool().Draw(rt, "noself") {
				b.NoSelf = true
			}
		}
	}
	b.Spec = spec
	return b, nil
}

func c07MinI64(a, b int64) int64 {
	if a < b {
		return a
	}
	return b
}

// ---------------------------------------------------------------------------------------------
// the test

const c07RuleText = "on a fresh real node (optionally after pending / confirmed transfers and contract writes, an account created through the real $acl contract and funded) one VALID transaction T is built per case in one of the forms {address initiator, 2-4 signers as bare address or account/address URI incl. redundant entries, account initiator, account-owned input authorised by member signatures (threshold / ak-set rule), aggregated XuperSign multi-signature} x versions 1-3 x {transfer, $verif contract call with read/write sets, contract-originated transfer, $acl.NewAccount} and must be accepted by State.VerifyTx with txid = id(content) (and by Chain.SubmitTx). Then ALL mutants are enumerated: every single-field mutation reachable by protobuf reflection over Transaction and nested messages (bytes flip/append/truncate, ints +-1, bool toggle, string change/append/truncate, repeated drop/dup/swap/append-copy, map add/del/alter/rename, unset -> non-default, clear), two-field boundary shifts (v3 length-prefix injectivity) plus a process-wide digest registry, signature mutations (corrupt, empty, drop slot, sign with other key keeping / switching the stated public key, replay from another accepted transaction, swap between signers), signer mutations (substitute / add / remove, stale and re-signed by the original signers), and forgeries in which the original signers spend an output of a key or account that never signs (plain, victim listed with forged slot, aggregated forms with partial / single-key / rogue-key signatures, input declared contract-spent, account outsider / below-threshold member set). Oracle: a mutant of a covered field has a different signing digest and is rejected with the stale and with the recomputed txid; signature carriers are covered by the id; a mutant is rejected whenever a required signer did not sign it (reference model of the authorisation clause). Non-trivial = accepted base with >= 2 signing keys or an account, mutant changes a covered field; distinct = hash of (base shape, mutation path + kind)"

func TestC07(t *testing.T) {
	c := hx.NewCollector("C07", "exploration", c07RuleText,
		"deterministic ECDSA / multi-signature nonces (verification is always done by the real code)",
		"a signature carrier re-encoded so that it still is a valid signature of the same key over the same digest (trailing bytes, JSON spelling) is outside the statement: only the stale txid is asserted for carrier bytes, semantic signature changes are separate mutations",
		"multi-field collisions of the legacy v1/v2 json-stream digest are not asserted (the statement quantifies over single-field mutations)",
		"modify_block, blockid, received_timestamp are outside the statement and not mutated")
	defer c.Flush(t)
	fs := hx.LoadFindings()
	resolveSharedFindings(fs, c)
	regressFixed(t, c, fs, "C07")
	noExclude := os.Getenv("C07_NO_EXCLUDE") == "1"

	// 0. witnesses of the known root causes decide this run's exclusions
	wbase := func(v int32) *c07Base {
		return &c07Base{Form: "ak", Auto: true, Spec: hx.TxSpec{From: 0, Seq: 1, Version: v}}
	}
	xsbase := &c07Base{Form: "xsign", Auto: true, Spec: hx.TxSpec{From: 0, Seq: 1, Version: 3}, Signers: []c07Signer{{Key: 1}}}
	witnesses := []struct {
		id string
		tr []c07TraceEl
	}{
		{c07FindXsSingle, []c07TraceEl{{Base: wbase(3)}, {Mut: &c07Mut{Class: "forge", Kind: "xs-der"}}}},
		{c07FindRogue, []c07TraceEl{{Base: wbase(3)}, {Mut: &c07Mut{Class: "forge", Kind: "xs-rogue"}}}},
		{c07FindXsPanic, []c07TraceEl{{Base: xsbase}, {Mut: &c07Mut{Class: "xsig", Kind: "badpoint"}}}},
	}
	for _, w := range witnesses {
		c07Exclude[w.id] = false
		err := c07Run(w.tr, fs)
		if witnessVerdict(t, c, fs, w.id, err, w.tr) && !noExclude {
			c07Exclude[w.id] = true
		}
	}

	if t.Failed() {
		// rapid refuses to run on a failed test: the unlisted witness above is the violation to report
		t.Logf("a witness violates and is not listed as known: exploration skipped")
		return
	}
	reg := c07NewRegistry()
	caseNo := 0
	c.Check(t, "tx-mutations", hx.N(220, 3600), func(cs *hx.Case) {
		rt := cs.RT()
		nm, err := hx.NewNodeMachine(hx.DefaultOpts(), fs)
		if err != nil {
			rt.Fatalf("setup: %v", err)
		}
		defer nm.Close()
		b, err := c07GenBase(rt, nm)
		cs.Op(c07TraceEl{Base: b})
		if err != nil {
			if strings.HasPrefix(err.Error(), "setup:") {
				cs.Label("setup-skipped")
				cs.Label(c07Short(err.Error()))
				return
			}
			cs.Failf("while preparing the node: %v", err)
		}
		x, err := c07Finish(nm, b)
		if err != nil {
			if strings.HasPrefix(err.Error(), "setup:") {
				cs.Label("setup-skipped")
				cs.Label(c07Short(err.Error()))
				return
			}
			if b.Form == "xsign" {
				// a tree that refuses the aggregated form altogether (one possible answer to the
				// XuperSign findings) rejects more, which the statement allows
				cs.Label("xsign-form-refused-by-this-tree")
				return
			}
			cs.Failf("%v", err)
		}
		T := x.T
		cs.Label("base-form:" + b.Form)
		cs.Label(fmt.Sprintf("base-v%d", T.Version))
		if len(T.ContractRequests) > 0 {
			cs.Label("base-contract:" + T.ContractRequests[0].ContractName)
		} else {
			cs.Label("base-transfer")
		}
		if len(c07ContractInputs(T)) > 0 {
			cs.Label("base-contract-spent-input")
		}
		if T.HDInfo != nil {
			cs.Label("base-hdinfo")
		}
		for j := range T.AuthRequire {
			if c07Redundant(T, j) {
				cs.Label("base-redundant-auth-entry")
			}
			if strings.Contains(T.AuthRequire[j], "/") {
				cs.Label("base-uri-auth-entry")
			}
		}
		if b.Acct != nil {
			cs.Label("acct-rule:" + b.Acct.Rule)
		}
		if old := reg.note(T); old != nil {
			o := &pb.Transaction{}
			proto.Unmarshal(old, o)
			if err := c07CollideCheck(o, T); err != nil {
				nb, _ := proto.Marshal(T)
				cs.Trace = nil
				cs.Op(c07TraceEl{Collide: []string{hex.EncodeToString(old), hex.EncodeToString(nb)}})
				cs.Failf("%v", err)
			}
		}
		shape := x.shape()
		multi := x.multiOrAcct()
		if multi {
			cs.Nontrivial()
		}
		muts := x.allMuts()
		for i, mut := range muts {
			if id := c07Classify(mut); id != "" && c07Exclude[id] {
				cs.Exclude(id)
				continue
			}
			res := x.eval(mut, reg, i%7 == 3)
			if res.Skip != "" {
				c.Label("skipped:" + strings.SplitN(res.Skip, ":", 2)[0])
				for _, l := range res.Labels {
					if strings.HasPrefix(l, "legacy-") {
						c.Label(l)
					}
				}
				continue
			}
			c.Count([]string{shape, mut.Class, mut.Path, mut.Kind, fmt.Sprint(mut.Arg, mut.Arg2)}, multi && res.Cov, res.Labels...)
			if res.Err != nil {
				m := mut
				m.Txid = res.Txid
				if strings.HasPrefix(res.Txid, "collide:") {
					cur, _ := c07ApplyWalk(T, mut)
					nb, _ := proto.Marshal(cur)
					cs.Trace = nil
					cs.Op(c07TraceEl{Collide: []string{strings.TrimPrefix(res.Txid, "collide:"), hex.EncodeToString(nb)}})
				} else {
					cs.Op(c07TraceEl{Mut: &m})
				}
				cs.Failf("%v", res.Err)
			}
		}
		// replay self-check (sampled): the descriptor alone rebuilds the same transaction
		caseNo++
		if caseNo%8 == 0 {
			raw, _ := json.Marshal(b)
			b2 := &c07Base{}
			json.Unmarshal(raw, b2)
			if y, err := c07Prepare(b2, fs); err != nil {
				cs.Label("replay-selfcheck-FAILED")
			} else {
				if bytes.Equal(y.T.Txid, T.Txid) {
					cs.Label("replay-selfcheck-ok")
				} else {
					cs.Label("replay-selfcheck-MISMATCH")
				}
				y.Close()
			}
		}
		// the untouched base is admitted through the real entry point
		if len(T.TxInputs) > 0 {
			if err := x.submit(T); err != nil {
				if strings.Contains(err.Error(), "verify") || strings.Contains(err.Error(), "PANIC") {
					cs.Failf("Chain.SubmitTx refuses the base transaction that VerifyTx accepts: %v", err)
				}
				cs.Label("submit-base-refused-later")
			} else {
				cs.Label("submit-base-admitted")
			}
		}
		// a child that overtakes its parent: the child is verified and refused for lack of its input, the parent
		// arrives, then the child's id comes again - with another body. What the entry point remembers about an id
		// must never stand in for verifying the body that arrives under it.
		if err := x.overtakingChild(); err != nil {
			cs.Op(c07TraceEl{Base: b})
			cs.Failf("%v", err)
		} else {
			cs.Label("overtaking-child-sequence")
		}
	})
}

func (x *c07Ctx) overtakingChild() error {
	var k *hx.Key
	var u *hx.UTXO
	s := x.nm.PoolState()
	ki := 0
	for i := 0; i < 7 && k == nil; i++ {
		if us := spendable(s, hx.Ring[i].Address, x.height, false); len(us) > 0 {
			k, u, ki = hx.Ring[i], us[0], i
		}
	}
	if k == nil {
		return nil
	}
	thief := hx.Ring[(ki+1)%5]
	sign := func(tx *pb.Transaction) {
		c07PlainSign(tx, [][2]*hx.Key{{k, k}}, c07DefWho(nil))
		tx.Txid = c07ID(tx)
	}
	parent := x.pureTransfer(k.Address, []string{k.Address}, u, k.Address, "overtaken-parent")
	sign(parent)
	child := x.pureTransfer(k.Address, []string{k.Address}, &hx.UTXO{Addr: k.Address, Txid: parent.Txid, Off: 0, Amount: u.Amount}, k.Address, "overtaking-child")
	sign(child)
	if err := x.submit(child); err == nil {
		return fmt.Errorf("Chain.SubmitTx admits a transaction whose input does not exist yet")
	}
	if err := x.submit(parent); err != nil {
		return nil // (the parent is not admissible for an unrelated reason: nothing to show)
	}
	altered := hx.CloneTx(child)
	altered.TxOutputs[0].ToAddr = []byte(thief.Address)
	if err := x.submit(altered); err == nil {
		return fmt.Errorf("Chain.SubmitTx admits an altered body (output re-addressed to %s) under the id and signatures of a transaction it had verified and refused for lack of its input before the parent arrived", thief.Address)
	}
	altered.Txid = c07ID(altered)
	if err := x.submit(altered); err == nil {
		return fmt.Errorf("Chain.SubmitTx admits the altered child with its id recomputed (old signatures)")
	}
	return nil
}
