//go:build verif && c07wip

package props

// c07_test.go: C07 - transaction integrity and authorisation (nothing is spent or invoked unsigned).
//
// Every case builds, on a fresh real node, one VALID signed transaction T in one of the wire forms
// (address initiator, several signers, account initiator, account-owned input, aggregated XuperSign;
// versions 1-3; transfers and contract invocations), has it accepted by the real State.VerifyTx, and
// then enumerates deterministically
//   - every single-field mutation reachable by walking the protobuf schema of Transaction,
//   - two-field boundary shifts (v3 length-prefix injectivity),
//   - signature mutations (corrupt / remove / swap / replay / other key),
//   - signer mutations (change / add / remove, stale and re-signed by the original signers),
//   - forgeries: the original signers spend an output of somebody who never signs,
// each with the stale and with the recomputed txid. The oracle is written from the statement only.

import (
	"bytes"
	"crypto/ecdsa"
	"crypto/elliptic"
	"crypto/hmac"
	"crypto/sha256"
	"encoding/hex"
	"encoding/json"
	"fmt"
	"math/big"
	"os"
	"sort"
	"strconv"
	"strings"
	"testing"

	"github.com/golang/protobuf/proto"
	protov2 "google.golang.org/protobuf/proto"
	"google.golang.org/protobuf/reflect/protoreflect"
	"pgregory.net/rapid"

	"github.com/xuperchain/xupercore/bcs/ledger/xledger/state/utxo/txhash"
	"github.com/xuperchain/xupercore/bcs/ledger/xledger/state/xmodel"
	pb "github.com/xuperchain/xupercore/bcs/ledger/xledger/xldgpb"
	"github.com/xuperchain/xupercore/protos"

	"verifharness/hx"
)

// ---------------------------------------------------------------------------------------------
// findings protocol

const (
	c07FindXsSingle = "C07-xupersign-one-key-vouches-for-all"
	c07FindRogue    = "C07-xupersign-multisig-rogue-key"
	c07FindXsPanic  = "C07-xupersign-malformed-point-panics"
	c07FindC11      = "C11-inner-ak-node-counts" // owned by C11; the shape is never generated here
)

// c07Exclude: root causes whose trigger shape the mutator skips in this run (decided by the
// witnesses at the top of TestC07).
var c07Exclude = map[string]bool{}

// ---------------------------------------------------------------------------------------------
// plain-data descriptors (the trace of a case is [c07TraceEl{Base}, c07TraceEl{Mut}])

type c07Signer struct {
	Key  int  `json:"key"`            // ring index
	Acct bool `json:"acct,omitempty"` // listed as "<account>/<address>"
}

type c07Acct struct {
	Num     string    `json:"num"`  // 16 digits
	Rule    string    `json:"rule"` // threshold | akset
	Aks     []int     `json:"aks"`  // ring indexes of the members
	Weights []float64 `json:"weights,omitempty"`
	Accept  float64   `json:"accept,omitempty"`
	Sets    [][]int   `json:"sets,omitempty"` // akset: ring indexes per set
}

type c07Base struct {
	Form    string      `json:"form"` // ak | multi | acctinit | acctin | xsign
	Prep    []hx.NOp    `json:"prep,omitempty"`
	Acct    *c07Acct    `json:"acct,omitempty"`
	Spec    hx.TxSpec   `json:"spec"`
	Auto    bool        `json:"auto,omitempty"`   // fill Spec.Ins/Outs from the first output of Spec.From (witnesses)
	NoSelf  bool        `json:"noself,omitempty"` // the initiator's own address is not repeated in AuthRequire
	Signers []c07Signer `json:"signers,omitempty"`
	InitAks []int       `json:"initaks,omitempty"` // acctinit: the keys signing as initiator
	HD      bool        `json:"hd,omitempty"`
}

type c07Mut struct {
	Class string `json:"class"` // walk | shift | sig | xsig | signer | forge
	Path  string `json:"path,omitempty"`
	Kind  string `json:"kind"`
	Arg   int    `json:"arg,omitempty"`
	Arg2  int    `json:"arg2,omitempty"`
	Txid  string `json:"txid,omitempty"` // reporting: which txid variant violated
}

type c07TraceEl struct {
	Base    *c07Base `json:"base,omitempty"`
	Mut     *c07Mut  `json:"mut,omitempty"`
	Collide []string `json:"collide,omitempty"` // two marshalled v3 transactions (hex)
}

const c07GhostAcct = "XC0000000000000000@" + hx.BCName

func c07AcctName(a *c07Acct) string { return "XC" + a.Num + "@" + hx.BCName }

// c07AclJSON renders the ACL deterministically.
func c07AclJSON(a *c07Acct) string {
	if a.Rule == "akset" {
		var sets []string
		for i, s := range a.Sets {
			var aks []string
			for _, k := range s {
				aks = append(aks, strconv.Quote(hx.Ring[k].Address))
			}
			sets = append(sets, fmt.Sprintf(`"%d":{"aks":[%s]}`, i+1, strings.Join(aks, ",")))
		}
		return `{"pm":{"rule":2},"akSets":{"sets":{` + strings.Join(sets, ",") + `}}}`
	}
	var ws []string
	for i, k := range a.Aks {
		ws = append(ws, fmt.Sprintf(`%s:%s`, strconv.Quote(hx.Ring[k].Address), strconv.FormatFloat(a.Weights[i], 'g', -1, 64)))
	}
	sort.Strings(ws)
	return fmt.Sprintf(`{"pm":{"rule":1,"acceptValue":%s},"aksWeight":{%s}}`, strconv.FormatFloat(a.Accept, 'g', -1, 64), strings.Join(ws, ","))
}

// satisfied: do the given member keys (ring indexes) satisfy the account's rule? (reference model,
// written from the rule definitions: threshold = sum of weights >= accept; akset = one set complete)
func (a *c07Acct) satisfied(keys map[int]bool) bool {
	if a.Rule == "akset" {
		for _, s := range a.Sets {
			all := len(s) > 0
			for _, k := range s {
				if !keys[k] {
					all = false
				}
			}
			if all {
				return true
			}
		}
		return false
	}
	sum := 0.0
	for i, k := range a.Aks {
		if keys[k] {
			sum += a.Weights[i]
		}
	}
	return sum >= a.Accept
}

// ---------------------------------------------------------------------------------------------
// signing

type c07Who func(addr string) (sk, pk *hx.Key)

func c07Last(uri string) string {
	p := strings.Split(uri, "/")
	return p[len(p)-1]
}

func c07Digest(tx *pb.Transaction) []byte {
	d, err := txhash.MakeTxDigestHash(tx)
	if err != nil {
		panic(err)
	}
	return d
}

func c07ID(tx *pb.Transaction) []byte {
	d, err := txhash.MakeTransactionID(tx)
	if err != nil {
		panic(err)
	}
	return d
}

// c07PlainSign fills initiator_signs / auth_require_signs (one entry per AuthRequire entry, signed
// for the last path component) and the txid.
func c07PlainSign(tx *pb.Transaction, initKeys [][2]*hx.Key, who c07Who) {
	tx.XuperSign = nil
	tx.InitiatorSigns, tx.AuthRequireSigns = nil, nil
	d := c07Digest(tx)
	for _, k := range initKeys {
		tx.InitiatorSigns = append(tx.InitiatorSigns, &protos.SignatureInfo{PublicKey: k[1].PubJSON, Sign: hx.DetSign(k[0].Priv, d)})
	}
	for _, ar := range tx.AuthRequire {
		sk, pk := who(c07Last(ar))
		tx.AuthRequireSigns = append(tx.AuthRequireSigns, &protos.SignatureInfo{PublicKey: pk.PubJSON, Sign: hx.DetSign(sk.Priv, d)})
	}
	tx.Txid = c07ID(tx)
}

// c07AddrList: the distinct addresses verifyXuperSign expects public keys for, in its order.
func c07AddrList(tx *pb.Transaction) []string {
	seen := map[string]bool{tx.Initiator: true}
	out := []string{tx.Initiator}
	for _, ar := range tx.AuthRequire {
		a := c07Last(ar)
		if !seen[a] {
			seen[a] = true
			out = append(out, a)
		}
	}
	return out
}

func c07Nonce(sk *hx.Key, msg []byte, i int) []byte {
	mac := hmac.New(sha256.New, sk.Priv.D.Bytes())
	mac.Write(msg)
	mac.Write([]byte(fmt.Sprintf("c07ms%d", i)))
	return mac.Sum(nil)
}

// c07MultiSig: the library's multi-signature protocol (R = sum k_i G, C = sum P_i, s_i = k_i +
// H(C,R,m) x_i) with deterministic nonces. sks sign, pks are the stated public keys; omit >= 0
// leaves that participant's share out.
func c07MultiSig(sks, pks []*hx.Key, msg []byte, omit int) []byte {
	var pubs []*ecdsa.PublicKey
	for _, pk := range pks {
		pubs = append(pubs, &pk.Priv.PublicKey)
	}
	c, err := hx.Crypt.GetSharedPublicKeyForPublicKeys(pubs)
	if err != nil {
		panic(err)
	}
	var ks, ris [][]byte
	var who []*hx.Key
	for i, sk := range sks {
		if i == omit {
			continue
		}
		k := c07Nonce(sk, msg, i)
		ks = append(ks, k)
		who = append(who, sk)
		ris = append(ris, hx.Crypt.GetRiUsingRandomBytes(&sk.Priv.PublicKey, k))
	}
	r := hx.Crypt.GetRUsingAllRi(pubs[0], ris)
	var sis [][]byte
	for i, sk := range who {
		sis = append(sis, hx.Crypt.GetSiUsingKCRM(sk.Priv, ks[i], c, r, msg))
	}
	s := hx.Crypt.GetSUsingAllSi(sis)
	sig, err := hx.Crypt.GenerateMultiSignSignature(s, r)
	if err != nil {
		panic(err)
	}
	return sig
}

// c07XSign signs tx in the aggregated form.
func c07XSign(tx *pb.Transaction, who c07Who, omit int) {
	tx.InitiatorSigns, tx.AuthRequireSigns = nil, nil
	d := c07Digest(tx)
	var sks, pks []*hx.Key
	xs := &pb.XuperSignature{}
	for _, a := range c07AddrList(tx) {
		sk, pk := who(a)
		sks, pks = append(sks, sk), append(pks, pk)
		xs.PublicKeys = append(xs.PublicKeys, []byte(pk.PubJSON))
	}
	xs.Signature = c07MultiSig(sks, pks, d, omit)
	tx.XuperSign = xs
	tx.Txid = c07ID(tx)
}

type c07XuperSigJSON struct {
	SigType    string
	SigContent []byte
}

func c07PubJSON(x, y *big.Int) string {
	return fmt.Sprintf(`{"Curvname":"P-256","X":%s,"Y":%s}`, x.String(), y.String())
}

// ---------------------------------------------------------------------------------------------
// the evaluated base: node + accepted transaction

type c07Ctx struct {
	nm     *hx.NodeMachine
	b      *c07Base
	acct   string // account name of the scenario ("" if none)
	T      *pb.Transaction
	T2     *pb.Transaction // another accepted transaction of the same signers (replay source)
	digest []byte
	height int64
	signed map[int]bool // ring keys that sign T
}

func (x *c07Ctx) Close() { x.nm.Close() }

func (x *c07Ctx) uriPrefix() string {
	if x.acct != "" {
		return x.acct
	}
	return c07GhostAcct
}

// defWho: every listed address is signed for by its own ring key.
func c07DefWho(sub c07Who) c07Who {
	return func(addr string) (*hx.Key, *hx.Key) {
		if sub != nil {
			if sk, pk := sub(addr); sk != nil {
				return sk, pk
			}
		}
		k := hx.KeyOf(addr)
		if k == nil {
			k = hx.Ring[hx.RingSize-1]
		}
		return k, k
	}
}

// initKeys: who signs as initiator of tx (account initiator: the scenario's InitAks).
func (x *c07Ctx) initKeys(tx *pb.Transaction, who c07Who) [][2]*hx.Key {
	if strings.HasPrefix(tx.Initiator, "XC") && strings.Contains(tx.Initiator, "@") {
		var out [][2]*hx.Key
		for _, i := range x.b.InitAks {
			out = append(out, [2]*hx.Key{hx.Ring[i], hx.Ring[i]})
		}
		return out
	}
	sk, pk := who(tx.Initiator)
	return [][2]*hx.Key{{sk, pk}}
}

// resign signs tx the way the base's signers would (sub replaces the signer of single addresses:
// forged slots).
func (x *c07Ctx) resign(tx *pb.Transaction, sub c07Who) {
	who := c07DefWho(sub)
	if x.b.Form == "xsign" {
		c07XSign(tx, who, -1)
		return
	}
	c07PlainSign(tx, x.initKeys(tx, who), who)
}

// verify runs the verifier under test on a clone; a panic is reported as such.
func (x *c07Ctx) verify(tx *pb.Transaction) (accepted bool, why string) {
	defer func() {
		if r := recover(); r != nil {
			accepted, why = false, fmt.Sprintf("PANIC: %v", r)
		}
	}()
	ok, err := x.nm.N.State.VerifyTx(hx.CloneTx(tx))
	return ok && err == nil, fmt.Sprintf("%v/%v", ok, err)
}

func (x *c07Ctx) submit(tx *pb.Transaction) (err error) {
	defer func() {
		if r := recover(); r != nil {
			err = fmt.Errorf("PANIC: %v", r)
		}
	}()
	return x.nm.N.Chain.SubmitTx(x.nm.N.Ctx, hx.CloneTx(tx))
}

func c07Height(nm *hx.NodeMachine) int64 { return nm.LM.M.Blocks[nm.LM.M.Tip].Height }

func c07Prepare(b *c07Base, fs *hx.FindingSet) (*c07Ctx, error) {
	nm, err := hx.NewNodeMachine(hx.DefaultOpts(), fs)
	if err != nil {
		return nil, fmt.Errorf("setup: %v", err)
	}
	for i, op := range b.Prep {
		if err := nm.Apply(op); err != nil {
			nm.Close()
			return nil, fmt.Errorf("setup: prep step %d: %v", i, err)
		}
	}
	x, err := c07Finish(nm, b)
	if err != nil {
		nm.Close()
		return nil, err
	}
	return x, nil
}

// c07Finish builds T (and T2) of the scenario on the prepared node and demands acceptance.
func c07Finish(nm *hx.NodeMachine, b *c07Base) (*c07Ctx, error) {
	x := &c07Ctx{nm: nm, b: b, height: c07Height(nm), signed: map[int]bool{}}
	if b.Acct != nil {
		x.acct = c07AcctName(b.Acct)
	}
	spec := b.Spec
	if b.Auto {
		us := spendable(nm.PoolState(), hx.Ring[spec.From].Address, x.height, false)
		if len(us) == 0 {
			return nil, fmt.Errorf("setup: ring key %d owns nothing", spec.From)
		}
		u := us[0]
		spec.Ins = []hx.InRef{{Addr: spec.From, Txid: hex.EncodeToString(u.Txid), Off: u.Off, Amount: u.Amount.String()}}
		spec.Outs = []hx.OutSpec{{To: spec.From, Amount: u.Amount.String()}}
	}
	tx, pre := nm.BuildOnModel(&spec, nm.PoolState())
	if tx == nil {
		return nil, fmt.Errorf("setup: pre-execution of the base failed: %v", pre.Err)
	}
	T := hx.CloneTx(tx)
	if b.HD {
		T.HDInfo = &pb.HDInfo{HdPublicKey: []byte("hdpub"), OriginalHash: []byte("orig")}
	}
	self := hx.Ring[spec.From]
	var ar []string
	if !b.NoSelf {
		ar = append(ar, self.Address)
	}
	for _, s := range b.Signers {
		a := hx.Ring[s.Key].Address
		if s.Acct {
			a = x.uriPrefix() + "/" + a
		}
		ar = append(ar, a)
	}
	T.AuthRequire = ar
	if b.Form == "acctinit" {
		T.Initiator = x.acct
	}
	x.resign(T, nil)
	x.T = T
	x.digest = c07Digest(T)
	for _, k := range x.initKeys(T, c07DefWho(nil)) {
		x.signed[k[0].Idx] = true
	}
	for _, a := range T.AuthRequire {
		if k := hx.KeyOf(c07Last(a)); k != nil {
			x.signed[k.Idx] = true
		}
	}
	if !bytes.Equal(T.Txid, c07ID(T)) {
		return nil, fmt.Errorf("setup: txid is not the id of the content")
	}
	if ok, why := x.verify(T); !ok {
		return nil, fmt.Errorf("base transaction (form %s, v%d) is not accepted by VerifyTx: %s: %s", b.Form, T.Version, why, c07Describe(T))
	}
	T2 := hx.CloneTx(T)
	T2.Nonce += "-again"
	T2.Timestamp++
	x.resign(T2, nil)
	if ok, why := x.verify(T2); !ok {
		return nil, fmt.Errorf("second base transaction (other nonce) is not accepted by VerifyTx: %s", why)
	}
	x.T2 = T2
	return x, nil
}

func c07Describe(tx *pb.Transaction) string {
	return fmt.Sprintf("initiator=%s auth=%v nsig=%d/%d xsign=%v %s", tx.Initiator, tx.AuthRequire, len(tx.InitiatorSigns), len(tx.AuthRequireSigns), tx.XuperSign != nil, hx.DescribeTx(tx))
}

// contractInputs: the inputs the transaction declares as spent by its contract code.
func c07ContractInputs(tx *pb.Transaction) map[string]bool {
	out := map[string]bool{}
	ins, err := xmodel.ParseContractUtxoInputs(tx)
	if err != nil {
		return out
	}
	for _, i := range ins {
		out[hx.UKey(string(i.FromAddr), i.RefTxid, i.RefOffset)] = true
	}
	return out
}

// modelAuthorised: reference model of the statement's authorisation clause, for a transaction whose
// listed signatures are all genuine: every spent output is owned by a signer, by the scenario's
// account whose rule the "<account>/<member>" signers satisfy, or is declared contract-spent.
func (x *c07Ctx) modelAuthorised(tx *pb.Transaction, initAks []int) bool {
	ver := map[string]bool{}
	if x.acct != "" && tx.Initiator == x.acct {
		ks := map[int]bool{}
		for _, i := range initAks {
			ks[i] = true
			ver[hx.Ring[i].Address] = true
		}
		if !x.b.Acct.satisfied(ks) {
			return false
		}
	} else {
		ver[tx.Initiator] = true
	}
	members := map[int]bool{}
	for _, a := range tx.AuthRequire {
		p := strings.Split(a, "/")
		ver[p[len(p)-1]] = true
		if len(p) == 2 && p[0] == x.acct && x.acct != "" {
			if k := hx.KeyOf(p[1]); k != nil {
				members[k.Idx] = true
			}
		}
	}
	con := c07ContractInputs(tx)
	for _, in := range tx.TxInputs {
		if con[hx.UKey(string(in.FromAddr), in.RefTxid, in.RefOffset)] {
			continue
		}
		o := string(in.FromAddr)
		if ver[o] {
			continue
		}
		if x.acct != "" && o == x.acct && x.b.Acct.satisfied(members) {
			continue
		}
		return false
	}
	return true
}

// ---------------------------------------------------------------------------------------------
// schema-walking mutator (protobuf reflection)

func c07IsText(k protoreflect.Kind) bool {
	return k == protoreflect.BytesKind || k == protoreflect.StringKind
}

func c07LeafKinds(k protoreflect.Kind, v protoreflect.Value) []string {
	switch k {
	case protoreflect.BytesKind:
		ks := []string{"flip0", "flipN", "app"}
		if len(v.Bytes()) > 1 {
			ks = append(ks, "trunc")
		}
		return ks
	case protoreflect.StringKind:
		ks := []string{"chg0", "app"}
		if len(v.String()) > 1 {
			ks = append(ks, "chgN", "trunc")
		}
		return ks
	case protoreflect.BoolKind:
		return []string{"tog"}
	case protoreflect.EnumKind:
		if v.Enum() > 0 {
			return []string{"inc", "dec"}
		}
		return []string{"inc"}
	case protoreflect.Int32Kind, protoreflect.Int64Kind, protoreflect.Sint32Kind, protoreflect.Sint64Kind,
		protoreflect.Uint32Kind, protoreflect.Uint64Kind, protoreflect.Sfixed32Kind, protoreflect.Sfixed64Kind,
		protoreflect.Fixed32Kind, protoreflect.Fixed64Kind:
		return []string{"inc", "dec"}
	}
	return nil
}

func c07Chg(c byte) byte {
	if c >= 0x20 && c < 0x7e {
		return c + 1
	}
	return 'A'
}

// c07LeafMut applies a leaf mutation kind to a scalar value.
func c07LeafMut(k protoreflect.Kind, v protoreflect.Value, kind string) (protoreflect.Value, error) {
	switch k {
	case protoreflect.BytesKind:
		b := append([]byte{}, v.Bytes()...)
		switch kind {
		case "flip0":
			b[0] ^= 1
		case "flipN":
			b[len(b)-1] ^= 0x80
		case "app":
			b = append(b, 0)
		case "trunc":
			b = b[:len(b)-1]
		default:
			return v, fmt.Errorf("bad kind %s for bytes", kind)
		}
		return protoreflect.ValueOfBytes(b), nil
	case protoreflect.StringKind:
		s := []byte(v.String())
		switch kind {
		case "chg0":
			s[0] = c07Chg(s[0])
		case "chgN":
			s[len(s)-1] = c07Chg(s[len(s)-1])
		case "app":
			s = append(s, 'x')
		case "trunc":
			s = s[:len(s)-1]
		default:
			return v, fmt.Errorf("bad kind %s for string", kind)
		}
		return protoreflect.ValueOfString(string(s)), nil
	case protoreflect.BoolKind:
		return protoreflect.ValueOfBool(!v.Bool()), nil
	case protoreflect.EnumKind:
		if kind == "dec" {
			return protoreflect.ValueOfEnum(v.Enum() - 1), nil
		}
		return protoreflect.ValueOfEnum(v.Enum() + 1), nil
	case protoreflect.Int32Kind, protoreflect.Sint32Kind, protoreflect.Sfixed32Kind:
		d := int64(1)
		if kind == "dec" {
			d = -1
		}
		return protoreflect.ValueOfInt32(int32(v.Int() + d)), nil
	case protoreflect.Int64Kind, protoreflect.Sint64Kind, protoreflect.Sfixed64Kind:
		d := int64(1)
		if kind == "dec" {
			d = -1
		}
		return protoreflect.ValueOfInt64(v.Int() + d), nil
	}
	return v, fmt.Errorf("unsupported kind %v", k)
}

func c07NonDefault(fd protoreflect.FieldDescriptor) (protoreflect.Value, bool) {
	switch fd.Kind() {
	case protoreflect.BytesKind:
		return protoreflect.ValueOfBytes([]byte{1}), true
	case protoreflect.StringKind:
		return protoreflect.ValueOfString("x"), true
	case protoreflect.BoolKind:
		return protoreflect.ValueOfBool(true), true
	case protoreflect.EnumKind:
		return protoreflect.ValueOfEnum(1), true
	case protoreflect.Int32Kind:
		return protoreflect.ValueOfInt32(1), true
	case protoreflect.Int64Kind:
		return protoreflect.ValueOfInt64(1), true
	}
	return protoreflect.Value{}, false
}

// c07FillFirst sets the first scalar field of a fresh message to a non-default value.
func c07FillFirst(m protoreflect.Message) {
	fds := m.Descriptor().Fields()
	for i := 0; i < fds.Len(); i++ {
		fd := fds.Get(i)
		if fd.IsList() || fd.IsMap() || fd.Kind() == protoreflect.MessageKind {
			continue
		}
		if v, ok := c07NonDefault(fd); ok {
			m.Set(fd, v)
			return
		}
	}
}

func c07MapKeys(mp protoreflect.Map) []string {
	var ks []string
	mp.Range(func(k protoreflect.MapKey, _ protoreflect.Value) bool { ks = append(ks, k.String()); return true })
	sort.Strings(ks)
	return ks
}

// c07WalkMuts enumerates every single-field mutation (and the two-field boundary shifts) of msg.
func c07WalkMuts(m protoreflect.Message, prefix string, out *[]c07Mut) {
	add := func(class, p, kind string, arg int) {
		*out = append(*out, c07Mut{Class: class, Path: p, Kind: kind, Arg: arg})
	}
	fds := m.Descriptor().Fields()
	for i := 0; i < fds.Len(); i++ {
		fd := fds.Get(i)
		p := prefix + string(fd.Name())
		switch {
		case fd.IsMap():
			mp := m.Get(fd).Map()
			add("walk", p, "mapadd", 0)
			if n := mp.Len(); n > 0 {
				add("walk", p, "mapdel", 0)
				add("walk", p, "mapalt", 0)
				add("walk", p, "mapren", 0)
				if n > 1 {
					add("walk", p, "mapalt", n-1)
					add("walk", p, "mapdel", n-1)
				}
				if ks := c07MapKeys(mp); len(ks[0]) > 1 {
					add("shift", p, "shiftkv", 0)
				}
			}
		case fd.IsList():
			l := m.Get(fd).List()
			n := l.Len()
			if n == 0 {
				add("walk", p, "addelem", 0)
				continue
			}
			add("walk", p, "drop", 0)
			if n > 1 {
				add("walk", p, "drop", n-1)
			}
			add("walk", p, "dup", 0)
			add("walk", p, "appcopy", 0)
			if n > 1 {
				add("walk", p, "swap", 1)
			}
			if n > 2 {
				add("walk", p, "swap", n-1)
			}
			for j := 0; j < n; j++ {
				pj := p + "#" + strconv.Itoa(j)
				if fd.Kind() == protoreflect.MessageKind {
					c07WalkMuts(l.Get(j).Message(), pj+".", out)
					continue
				}
				for _, k := range c07LeafKinds(fd.Kind(), l.Get(j)) {
					add("walk", pj, k, 0)
				}
				if c07IsText(fd.Kind()) && j+1 < n && c07ShiftOK(fd.Kind(), l.Get(j), fd.Kind()) {
					add("shift", pj, "shiftelem", 0)
				}
			}
		case fd.Kind() == protoreflect.MessageKind:
			if m.Has(fd) {
				add("walk", p, "clear", 0)
				c07WalkMuts(m.Get(fd).Message(), p+".", out)
			} else {
				add("walk", p, "setmsg", 0)
			}
		default:
			if !m.Has(fd) {
				add("walk", p, "set", 0)
			} else {
				v := m.Get(fd)
				for _, k := range c07LeafKinds(fd.Kind(), v) {
					add("walk", p, k, 0)
				}
				if fd.Kind() != protoreflect.BoolKind {
					add("walk", p, "clear", 0)
				}
			}
			// boundary shift into the next declared field when both are variable-length
			if i+1 < fds.Len() && m.Has(fd) {
				nx := fds.Get(i + 1)
				if !nx.IsList() && !nx.IsMap() && c07IsText(fd.Kind()) && c07IsText(nx.Kind()) && c07ShiftOK(fd.Kind(), m.Get(fd), nx.Kind()) {
					add("shift", p, "shiftnext", 0)
				}
			}
		}
	}
}

// c07ShiftOK: the last byte of v can move into a field of kind to (strings must stay valid text).
func c07ShiftOK(k protoreflect.Kind, v protoreflect.Value, to protoreflect.Kind) bool {
	var b []byte
	if k == protoreflect.BytesKind {
		b = v.Bytes()
	} else {
		b = []byte(v.String())
	}
	if len(b) == 0 {
		return false
	}
	last := b[len(b)-1]
	if to == protoreflect.StringKind || k == protoreflect.StringKind {
		return last < 0x80
	}
	return true
}

func c07TextBytes(k protoreflect.Kind, v protoreflect.Value) []byte {
	if k == protoreflect.BytesKind {
		return append([]byte{}, v.Bytes()...)
	}
	return []byte(v.String())
}

func c07TextValue(k protoreflect.Kind, b []byte) protoreflect.Value {
	if k == protoreflect.BytesKind {
		return protoreflect.ValueOfBytes(b)
	}
	return protoreflect.ValueOfString(string(b))
}

func c07ParseSeg(seg string) (name string, idx int, hasIdx bool) {
	if i := strings.Index(seg, "#"); i >= 0 {
		n, _ := strconv.Atoi(seg[i+1:])
		return seg[:i], n, true
	}
	return seg, 0, false
}

func c07CloneVal(fd protoreflect.FieldDescriptor, v protoreflect.Value) protoreflect.Value {
	switch fd.Kind() {
	case protoreflect.MessageKind:
		return protoreflect.ValueOfMessage(protov2.Clone(v.Message().Interface()).ProtoReflect())
	case protoreflect.BytesKind:
		return protoreflect.ValueOfBytes(append([]byte{}, v.Bytes()...))
	}
	return v
}

// c07ApplyWalk applies a walk / shift mutation to a clone of tx.
func c07ApplyWalk(tx *pb.Transaction, mut c07Mut) (*pb.Transaction, error) {
	cl := hx.CloneTx(tx)
	m := proto.MessageReflect(cl)
	segs := strings.Split(mut.Path, ".")
	for si, seg := range segs {
		name, idx, hasIdx := c07ParseSeg(seg)
		fds := m.Descriptor().Fields()
		fd := fds.ByName(protoreflect.Name(name))
		if fd == nil {
			return nil, fmt.Errorf("no field %q in %s", name, m.Descriptor().FullName())
		}
		if si < len(segs)-1 {
			if fd.IsList() {
				l := m.Mutable(fd).List()
				if idx >= l.Len() {
					return nil, fmt.Errorf("index %d out of range at %s", idx, seg)
				}
				m = l.Get(idx).Message()
			} else {
				m = m.Mutable(fd).Message()
			}
			continue
		}
		switch {
		case hasIdx: // element of a scalar list
			l := m.Mutable(fd).List()
			if idx >= l.Len() {
				return nil, fmt.Errorf("index %d out of range at %s", idx, seg)
			}
			if mut.Kind == "shiftelem" {
				a, b := c07TextBytes(fd.Kind(), l.Get(idx)), c07TextBytes(fd.Kind(), l.Get(idx+1))
				b = append([]byte{a[len(a)-1]}, b...)
				a = a[:len(a)-1]
				l.Set(idx, c07TextValue(fd.Kind(), a))
				l.Set(idx+1, c07TextValue(fd.Kind(), b))
				break
			}
			nv, err := c07LeafMut(fd.Kind(), l.Get(idx), mut.Kind)
			if err != nil {
				return nil, err
			}
			l.Set(idx, nv)
		case fd.IsMap():
			mp := m.Mutable(fd).Map()
			ks := c07MapKeys(mp)
			vd := fd.MapValue()
			key := func(s string) protoreflect.MapKey { return protoreflect.ValueOfString(s).MapKey() }
			switch mut.Kind {
			case "mapadd":
				nv, _ := c07NonDefault(vd)
				mp.Set(key("c07new"), nv)
			case "mapdel":
				mp.Clear(key(ks[mut.Arg]))
			case "mapalt":
				v := mp.Get(key(ks[mut.Arg]))
				if vd.Kind() == protoreflect.BytesKind && len(v.Bytes()) > 0 {
					nv, _ := c07LeafMut(vd.Kind(), v, "flip0")
					mp.Set(key(ks[mut.Arg]), nv)
				} else {
					nv, _ := c07NonDefault(vd)
					mp.Set(key(ks[mut.Arg]), nv)
				}
			case "mapren":
				v := c07CloneVal(vd, mp.Get(key(ks[0])))
				mp.Clear(key(ks[0]))
				mp.Set(key(ks[0]+"x"), v)
			case "shiftkv":
				k0 := ks[0]
				v := c07TextBytes(vd.Kind(), mp.Get(key(k0)))
				v = append([]byte{k0[len(k0)-1]}, v...)
				mp.Clear(key(k0))
				mp.Set(key(k0[:len(k0)-1]), c07TextValue(vd.Kind(), v))
			default:
				return nil, fmt.Errorf("bad map kind %s", mut.Kind)
			}
		case fd.IsList():
			l := m.Mutable(fd).List()
			n := l.Len()
			var vals []protoreflect.Value
			for j := 0; j < n; j++ {
				vals = append(vals, c07CloneVal(fd, l.Get(j)))
			}
			switch mut.Kind {
			case "addelem":
				if fd.Kind() == protoreflect.MessageKind {
					e := l.NewElement()
					c07FillFirst(e.Message())
					l.Append(e)
				} else {
					nv, _ := c07NonDefault(fd)
					l.Append(nv)
				}
				vals = nil
			case "drop":
				vals = append(vals[:mut.Arg:mut.Arg], vals[mut.Arg+1:]...)
			case "dup":
				vals = append(vals[:1:1], append([]protoreflect.Value{c07CloneVal(fd, vals[0])}, vals[1:]...)...)
			case "appcopy":
				vals = append(vals, c07CloneVal(fd, vals[0]))
			case "swap":
				vals[0], vals[mut.Arg] = vals[mut.Arg], vals[0]
			default:
				return nil, fmt.Errorf("bad list kind %s", mut.Kind)
			}
			if vals != nil {
				l.Truncate(0)
				for _, v := range vals {
					l.Append(v)
				}
			}
		case fd.Kind() == protoreflect.MessageKind:
			switch mut.Kind {
			case "clear":
				m.Clear(fd)
			case "setmsg":
				c07FillFirst(m.Mutable(fd).Message())
			default:
				return nil, fmt.Errorf("bad message kind %s", mut.Kind)
			}
		default:
			switch mut.Kind {
			case "clear":
				m.Clear(fd)
			case "set":
				nv, ok := c07NonDefault(fd)
				if !ok {
					return nil, fmt.Errorf("no non-default value for %s", fd.FullName())
				}
				m.Set(fd, nv)
			case "shiftnext":
				nx := fds.Get(fd.Index() + 1)
				a, b := c07TextBytes(fd.Kind(), m.Get(fd)), c07TextBytes(nx.Kind(), m.Get(nx))
				b = append([]byte{a[len(a)-1]}, b...)
				a = a[:len(a)-1]
				m.Set(fd, c07TextValue(fd.Kind(), a))
				m.Set(nx, c07TextValue(nx.Kind(), b))
			default:
				nv, err := c07LeafMut(fd.Kind(), m.Get(fd), mut.Kind)
				if err != nil {
					return nil, err
				}
				m.Set(fd, nv)
			}
		}
	}
	return cl, nil
}

// c07Scope: is the top-level field covered by the digest (statement + wire schema), a signature
// carrier (covered by the id only), or outside the statement?
func c07Scope(path string, version int32) string {
	top, _, _ := c07ParseSeg(strings.Split(path, ".")[0])
	switch top {
	case "txid", "blockid", "received_timestamp", "modify_block":
		return "outside"
	case "initiator_signs", "auth_require_signs", "xuper_sign":
		return "sigcarrier"
	case "HD_info":
		if version < 2 {
			return "outside"
		}
	}
	return "covered"
}
