//go:build verif && c11wip

package props

// c11_test.go: C11 - access-control evaluation is sound, monotone and counts each signer once;
// a rule change must satisfy the owning account's rule in force on the confirmed chain.
//
// Part 1 (acl-evaluator): the real evaluator (aclu.IdentifyAccount / aclu.CheckContractMethodPerm)
// over a stub ACL manager, exhaustively over a small box of rules x ordered signer lists, against a
// reference evaluator written from the statement; metamorphic relations on the code alone.
// Part 2 (acl-pipeline): a real node; accounts created through the $acl kernel contract, rule
// changes (SetAccountAcl / SetMethodAcl) signed by generated signer sets, submitted through
// State.VerifyTx / DoTx, interleaved with blocks and with pending (unconfirmed) rule changes.

import (
	"encoding/hex"
	"encoding/json"
	"fmt"
	"os"
	"sort"
	"strings"
	"testing"

	"pgregory.net/rapid"

	"github.com/xuperchain/xupercore/bcs/ledger/xledger/state/utxo/txhash"
	pb "github.com/xuperchain/xupercore/bcs/ledger/xledger/xldgpb"
	aclu "github.com/xuperchain/xupercore/kernel/permission/acl/utils"
	"github.com/xuperchain/xupercore/protos"

	"verifharness/hx"
)

// ---------------------------------------------------------------------------------------------
// plain descriptors (JSON-able, symbolic names)
// ---------------------------------------------------------------------------------------------

// Symbolic names: A, B, C, D, E = ring keys 1..5 (access keys); acc, X2, other = accounts;
// "method" = the contract method whose rule is evaluated. A signer URI is a "/"-joined path of
// symbols, e.g. "acc/X2/A".

type c11Member struct {
	Name string `json:"name"`
	W    int    `json:"w"` // weight in tenths
}

// c11Rule is one access rule. Kind: "none" (no rule stored), "threshold", "aksets".
type c11Rule struct {
	Kind   string      `json:"kind"`
	M      []c11Member `json:"m,omitempty"`      // threshold: members with weights (tenths)
	Accept int         `json:"accept,omitempty"` // threshold: accept value (tenths)
	Sets   [][]string  `json:"sets,omitempty"`   // aksets: listed key sets
}

// c11Case is one evaluator case: the rule of Root ("acc" or "method") evaluated for the signer
// list Signers, with the rules of every account involved in Rules. Rel/Other describe a
// metamorphic relation on the code alone: "same-set" (Other has the same set of URIs: permutation /
// duplication), "superset" (Other contains every URI of Signers: monotonicity).
type c11Case struct {
	Root    string             `json:"root"`
	Rules   map[string]c11Rule `json:"rules"`
	Signers []string           `json:"signers"`
	Rel     string             `json:"rel,omitempty"`
	Other   []string           `json:"other,omitempty"`
}

const (
	c11MethodContract = "counter"
	c11MethodName     = "inc"
)

var c11Accounts = map[string]string{
	"acc":   "XC1111111111111111@" + hx.BCName,
	"X2":    "XC2222222222222222@" + hx.BCName,
	"other": "XC3333333333333333@" + hx.BCName,
}

var c11AccountNumber = map[string]string{"acc": "1111111111111111", "X2": "2222222222222222", "other": "3333333333333333"}

// c11Real maps a symbol to the real name used on chain.
func c11Real(sym string) string {
	if a, ok := c11Accounts[sym]; ok {
		return a
	}
	if len(sym) == 1 && sym[0] >= 'A' && sym[0] <= 'E' {
		return hx.Ring[1+int(sym[0]-'A')].Address
	}
	if sym == "P" {
		return hx.Ring[0].Address
	}
	return sym
}

func c11KeyOfSym(sym string) *hx.Key {
	if len(sym) == 1 && sym[0] >= 'A' && sym[0] <= 'E' {
		return hx.Ring[1+int(sym[0]-'A')]
	}
	if sym == "P" {
		return hx.Ring[0]
	}
	return nil
}

func c11RealURI(uri string) string {
	parts := strings.Split(uri, "/")
	for i, p := range parts {
		parts[i] = c11Real(p)
	}
	return strings.Join(parts, "/")
}

func c11RealURIs(uris []string) []string {
	out := make([]string, len(uris))
	for i, u := range uris {
		out[i] = c11RealURI(u)
	}
	return out
}

// c11IsAccountSym: does the symbol name an account (as opposed to an access key)?
func c11IsAccountSym(sym string) bool {
	_, ok := c11Accounts[sym]
	return ok
}

func (r c11Rule) members() []string {
	var out []string
	seen := map[string]bool{}
	for _, m := range r.M {
		if !seen[m.Name] {
			seen[m.Name] = true
			out = append(out, m.Name)
		}
	}
	for _, s := range r.Sets {
		for _, k := range s {
			if !seen[k] {
				seen[k] = true
				out = append(out, k)
			}
		}
	}
	return out
}

func (r c11Rule) hasMember(name string) bool {
	for _, m := range r.M {
		if m.Name == name {
			return true
		}
	}
	for _, s := range r.Sets {
		for _, k := range s {
			if k == name {
				return true
			}
		}
	}
	return false
}

func (r c11Rule) nonNegative() bool {
	for _, m := range r.M {
		if m.W < 0 {
			return false
		}
	}
	return true
}

// c11ACL renders the rule as the protos.Acl the chain stores (nil = no rule).
func c11ACL(r c11Rule) *protos.Acl {
	switch r.Kind {
	case "threshold":
		a := &protos.Acl{Pm: &protos.PermissionModel{Rule: protos.PermissionRule_SIGN_THRESHOLD, AcceptValue: float64(r.Accept) / 10},
			AksWeight: map[string]float64{}}
		for _, m := range r.M {
			a.AksWeight[c11Real(m.Name)] = float64(m.W) / 10
		}
		return a
	case "aksets":
		a := &protos.Acl{Pm: &protos.PermissionModel{Rule: protos.PermissionRule_SIGN_AKSET}, AkSets: &protos.AkSets{Sets: map[string]*protos.AkSet{}}}
		for i, s := range r.Sets {
			set := &protos.AkSet{}
			for _, k := range s {
				set.Aks = append(set.Aks, c11Real(k))
			}
			a.AkSets.Sets[fmt.Sprint(i+1)] = set
		}
		return a
	}
	return nil
}

// ---------------------------------------------------------------------------------------------
// reference evaluator (written from the statement)
// ---------------------------------------------------------------------------------------------

// c11RefSatisfied: is the rule of owner satisfied by the verified signers presented below owner?
// tails holds, for every signer URI whose path leads through owner, the path components after
// owner. The signer of a URI is its LAST component (the only name whose signature is verified).
//   - an access key K that is a member counts iff some URI presents K directly below owner (tail == [K]);
//   - an account X that is a member counts iff some URI leads through X and X's own rule is
//     satisfied by what is presented below X;
//   - a key in the middle of a path, a non-member, a path through a non-member: nothing;
//   - every member counts once; no stored rule: everyone passes.
func c11RefSatisfied(rules map[string]c11Rule, owner string, tails [][]string, depth int) bool {
	r, ok := rules[owner]
	if !ok || r.Kind == "none" {
		return true
	}
	switch r.Kind {
	case "threshold":
		sum := 0
		for i, m := range r.M {
			first := true
			for _, prev := range r.M[:i] {
				first = first && prev.Name != m.Name
			}
			if first && c11RefCounts(rules, m.Name, tails, depth) {
				sum += m.W
			}
		}
		return sum >= r.Accept
	case "aksets":
		for _, s := range r.Sets {
			all := len(s) > 0
			for _, k := range s {
				all = all && c11RefCounts(rules, k, tails, depth)
			}
			if all {
				return true
			}
		}
	}
	return false
}

// c11RefCounts: does member m of the rule of the current owner count, given what is presented below
// the owner?
func c11RefCounts(rules map[string]c11Rule, m string, tails [][]string, depth int) bool {
	if c11IsAccountSym(m) {
		var below [][]string
		for _, t := range tails {
			if len(t) >= 2 && t[0] == m {
				below = append(below, t[1:])
			}
		}
		return len(below) > 0 && depth < 6 && c11RefSatisfied(rules, m, below, depth+1)
	}
	for _, t := range tails {
		if len(t) == 1 && t[0] == m {
			return true
		}
	}
	return false
}

var c11SplitCache = map[string][]string{}

// c11Split splits a URI into its path components (cached; single-threaded use only).
func c11Split(u string) []string {
	if p, ok := c11SplitCache[u]; ok {
		return p
	}
	p := strings.Split(u, "/")
	c11SplitCache[u] = p
	return p
}

// c11Tails: the path components below root of every URI that leads through root. An account rule
// only sees URIs that start at the account itself; a method rule sees every URI from its first
// component.
func c11Tails(root string, uris []string) [][]string {
	tails := make([][]string, 0, len(uris))
	for _, u := range uris {
		parts := c11Split(u)
		if root == "method" {
			tails = append(tails, parts)
		} else if len(parts) >= 2 && parts[0] == root {
			tails = append(tails, parts[1:])
		}
	}
	return tails
}

func c11Ref(rules map[string]c11Rule, root string, uris []string) bool {
	return c11RefSatisfied(rules, root, c11Tails(root, uris), 0)
}

// ---------------------------------------------------------------------------------------------
// the code under test over a stub ACL manager
// ---------------------------------------------------------------------------------------------

type c11Stub struct {
	acc    map[string]*protos.Acl
	method *protos.Acl
}

func (s *c11Stub) GetAccountACL(name string) (*protos.Acl, error) { return s.acc[name], nil }
func (s *c11Stub) GetContractMethodACL(contract, method string) (*protos.Acl, error) {
	if contract == c11MethodContract && method == c11MethodName {
		return s.method, nil
	}
	return nil, nil
}
func (s *c11Stub) GetAccountAddresses(name string) ([]string, error) { return nil, nil }

func c11NewStub(rules map[string]c11Rule) *c11Stub {
	s := &c11Stub{acc: map[string]*protos.Acl{}}
	for _, sym := range []string{"acc", "X2", "other"} {
		if r, ok := rules[sym]; ok {
			if a := c11ACL(r); a != nil {
				s.acc[c11Real(sym)] = a
			}
		}
	}
	if r, ok := rules["method"]; ok {
		s.method = c11ACL(r)
	}
	return s
}

// c11Code runs the real evaluator; an error counts as "not satisfied".
func c11Code(stub *c11Stub, root string, realURIs []string) (bool, error) {
	if root == "method" {
		ok, err := aclu.CheckContractMethodPerm(stub, realURIs, c11MethodContract, c11MethodName)
		return ok && err == nil, err
	}
	ok, err := aclu.IdentifyAccount(stub, c11Real(root), realURIs)
	return ok && err == nil, err
}

// ---------------------------------------------------------------------------------------------
// findings: trigger-shape classifiers
// ---------------------------------------------------------------------------------------------

const c11InnerAK = "C11-inner-ak-node-counts"

// c11Exclude: finding id -> its trigger shape is excluded from enumeration / generators.
var c11Exclude = map[string]bool{}

// c11InnerAKShape (finding C11-inner-ak-node-counts): some URI that leads through root has, in a
// NON-FINAL position, an access key (not an account) that is a member of the rule of the account
// (method) preceding it on the path, and that key is not also presented as a signer at exactly that
// place by another URI of the list.
func c11InnerAKShape(rules map[string]c11Rule, root string, uris []string) bool {
	have := map[string]bool{}
	for _, u := range uris {
		have[u] = true
	}
	for _, u := range uris {
		parts := strings.Split(u, "/")
		start, parent := 0, root
		if root != "method" {
			if len(parts) < 2 || parts[0] != root {
				continue
			}
			start = 1
		}
		for i := start; i < len(parts)-1; i++ {
			pr, ok := rules[parent]
			if !ok || pr.Kind == "none" {
				break // no rule: everyone passes anyway
			}
			if !pr.hasMember(parts[i]) {
				break // a non-member's subtree contributes nothing
			}
			if !c11IsAccountSym(parts[i]) {
				if !have[strings.Join(parts[:i+1], "/")] {
					return true
				}
				break
			}
			parent = parts[i]
		}
	}
	return false
}

// ---------------------------------------------------------------------------------------------
// single-case oracle (used by the enumeration on failure, by witnesses and by the replayer)
// ---------------------------------------------------------------------------------------------

func c11SameSet(a, b []string) bool {
	sa, sb := map[string]bool{}, map[string]bool{}
	for _, x := range a {
		sa[x] = true
	}
	for _, x := range b {
		sb[x] = true
	}
	if len(sa) != len(sb) {
		return false
	}
	for x := range sa {
		if !sb[x] {
			return false
		}
	}
	return true
}

func c11Subset(a, b []string) bool {
	sb := map[string]bool{}
	for _, x := range b {
		sb[x] = true
	}
	for _, x := range a {
		if !sb[x] {
			return false
		}
	}
	return true
}

// c11CheckURIs: preconditions every real caller respects - non-empty components, last component an
// access key (verifySignatures verifies exactly that name's signature).
func c11CheckURIs(uris []string) error {
	for _, u := range uris {
		parts := strings.Split(u, "/")
		for _, p := range parts {
			if p == "" {
				return fmt.Errorf("bad case: empty component in URI %q", u)
			}
		}
		if c11IsAccountSym(parts[len(parts)-1]) {
			return fmt.Errorf("bad case: URI %q does not end in an access key", u)
		}
	}
	return nil
}

func evalC11(cs c11Case) error {
	if err := c11CheckURIs(cs.Signers); err != nil {
		return err
	}
	if err := c11CheckURIs(cs.Other); err != nil {
		return err
	}
	if cs.Root != "method" && !c11IsAccountSym(cs.Root) {
		return fmt.Errorf("bad case: root %q", cs.Root)
	}
	stub := c11NewStub(cs.Rules)
	got, cerr := c11Code(stub, cs.Root, c11RealURIs(cs.Signers))
	switch cs.Rel {
	case "":
		want := c11Ref(cs.Rules, cs.Root, cs.Signers)
		if got != want {
			return fmt.Errorf("rule of %s %s evaluated for signers %v: code says satisfied=%v (err=%v), the statement says %v",
				cs.Root, c11RuleText(cs.Rules, cs.Root), cs.Signers, got, cerr, want)
		}
	case "same-set":
		if !c11SameSet(cs.Signers, cs.Other) {
			return fmt.Errorf("bad case: same-set relation on different URI sets")
		}
		got2, cerr2 := c11Code(stub, cs.Root, c11RealURIs(cs.Other))
		if got != got2 {
			return fmt.Errorf("rule of %s %s: signer lists %v and %v name the same set of signers but evaluate to %v (err=%v) and %v (err=%v)",
				cs.Root, c11RuleText(cs.Rules, cs.Root), cs.Signers, cs.Other, got, cerr, got2, cerr2)
		}
	case "superset":
		if !c11Subset(cs.Signers, cs.Other) {
			return fmt.Errorf("bad case: superset relation does not hold")
		}
		for _, sym := range []string{"method", "acc", "X2", "other"} {
			if r, ok := cs.Rules[sym]; ok && !r.nonNegative() {
				return nil // monotonicity is only claimed for non-negative weights
			}
		}
		got2, cerr2 := c11Code(stub, cs.Root, c11RealURIs(cs.Other))
		if got && !got2 {
			return fmt.Errorf("rule of %s %s: satisfied by %v but not by the larger list %v (err=%v)",
				cs.Root, c11RuleText(cs.Rules, cs.Root), cs.Signers, cs.Other, cerr2)
		}
	default:
		return fmt.Errorf("bad case: relation %q", cs.Rel)
	}
	return nil
}

func c11RuleText(rules map[string]c11Rule, root string) string {
	m := map[string]c11Rule{}
	for _, sym := range []string{"method", "acc", "X2", "other"} {
		if r, ok := rules[sym]; ok {
			m[sym] = r
		}
	}
	b, _ := json.Marshal(m)
	return string(b)
}

// ---------------------------------------------------------------------------------------------
// Part 1: exhaustive enumeration
// ---------------------------------------------------------------------------------------------

// c11URIs is the signer universe of the box.
var c11URIs = []string{"acc/A", "acc/B", "acc/C", "acc/D", "acc/X2/A", "acc/X2/D", "other/A", "A", "acc/A/B", "acc/D/A", "X2/A"}

// c11FloatSafe: the code sums float64 weights in signer order; the statement is about the numbers.
// A rule is only enumerated if, for every subset of its members in every summation order, the
// float comparison agrees with exact arithmetic (otherwise a rounding artefact, not an access
// control defect, would be reported).
func c11FloatSafe(r c11Rule) bool {
	if r.Kind != "threshold" {
		return true
	}
	n := len(r.M)
	idx := make([]int, 0, n)
	var rec func(used int, fsum float64, isum int, cnt int) bool
	rec = func(used int, fsum float64, isum int, cnt int) bool {
		if (fsum >= float64(r.Accept)/10) != (isum >= r.Accept) {
			return false
		}
		for i := 0; i < n; i++ {
			if used&(1<<uint(i)) != 0 {
				continue
			}
			if !rec(used|1<<uint(i), fsum+float64(r.M[i].W)/10, isum+r.M[i].W, cnt+1) {
				return false
			}
		}
		return true
	}
	_ = idx
	return rec(0, 0, 0, 0)
}

// c11Lists enumerates every ordered list of URI indices of length <= maxLen and, for each, the
// index of its canonical representative (sorted, duplicates removed).
type c11ListBox struct {
	n       int
	maxLen  int
	lists   [][]int
	offset  []int // offset[len] = index of the first list of that length
	canon   []int
	isCanon []bool
	nt      []bool // non-trivial by the rule: duplicate, foreign-account path or nested path
	dup     []bool
}

func c11BuildLists(n, maxLen int) *c11ListBox {
	b := &c11ListBox{n: n, maxLen: maxLen}
	pow := 1
	for l := 0; l <= maxLen; l++ {
		b.offset = append(b.offset, len(b.lists))
		for code := 0; code < pow; code++ {
			lst := make([]int, l)
			c := code
			for i := l - 1; i >= 0; i-- {
				lst[i] = c % n
				c /= n
			}
			b.lists = append(b.lists, lst)
		}
		pow *= n
	}
	b.canon = make([]int, len(b.lists))
	b.isCanon = make([]bool, len(b.lists))
	b.nt = make([]bool, len(b.lists))
	b.dup = make([]bool, len(b.lists))
	for i, lst := range b.lists {
		s := append([]int{}, lst...)
		sort.Ints(s)
		var d []int
		for j, x := range s {
			if j == 0 || x != s[j-1] {
				d = append(d, x)
			}
		}
		b.canon[i] = b.index(d)
		b.isCanon[i] = b.canon[i] == i
		b.dup[i] = len(d) < len(lst)
		nt := b.dup[i]
		for _, x := range lst {
			u := c11URIs[x]
			if strings.Count(u, "/") >= 2 || strings.HasPrefix(u, "other/") || strings.HasPrefix(u, "X2/") {
				nt = true
			}
		}
		b.nt[i] = nt
	}
	return b
}

func (b *c11ListBox) index(lst []int) int {
	code := 0
	for _, x := range lst {
		code = code*b.n + x
	}
	return b.offset[len(lst)] + code
}

// c11Env is one point of the rule box: the rules of every account involved + which root is evaluated.
type c11Env struct {
	Root  string
	Rules map[string]c11Rule
	Class string
}

func c11Tenths(ws []int, k int, f func(w []int)) {
	w := make([]int, k)
	var rec func(i int)
	rec = func(i int) {
		if i == k {
			f(w)
			return
		}
		for _, x := range ws {
			w[i] = x
			rec(i + 1)
		}
	}
	rec(0)
}

func c11Subsets(names []string, maxSize int, f func(sub []string)) {
	n := len(names)
	for mask := 0; mask < 1<<uint(n); mask++ {
		var sub []string
		for i := 0; i < n; i++ {
			if mask&(1<<uint(i)) != 0 {
				sub = append(sub, names[i])
			}
		}
		if len(sub) <= maxSize {
			f(sub)
		}
	}
}

// c11X2Variants: the nested account's own rule (depth 2).
func c11X2Variants(thorough bool) []c11Rule {
	v := []c11Rule{
		{Kind: "none"},
		{Kind: "threshold", M: []c11Member{{"A", 10}}, Accept: 10},
		{Kind: "threshold", M: []c11Member{{"A", 6}, {"D", 6}}, Accept: 10},
	}
	if thorough {
		v = append(v, c11Rule{Kind: "aksets", Sets: [][]string{{"A"}, {"D"}}},
			c11Rule{Kind: "aksets", Sets: [][]string{{"A", "D"}}},
			c11Rule{Kind: "threshold", M: []c11Member{{"D", 10}}, Accept: 10},
			c11Rule{Kind: "threshold", M: []c11Member{{"A", 4}, {"D", 6}}, Accept: 5})
	}
	return v
}

// c11KeySetRules: every rule with <= 2 non-empty key sets over names (plus the rule with no set).
func c11KeySetRules(names []string) []c11Rule {
	var subs [][]string
	c11Subsets(names, len(names), func(sub []string) {
		if len(sub) > 0 {
			subs = append(subs, append([]string{}, sub...))
		}
	})
	out := []c11Rule{{Kind: "aksets", Sets: [][]string{}}}
	for i := range subs {
		out = append(out, c11Rule{Kind: "aksets", Sets: [][]string{subs[i]}})
		for j := i + 1; j < len(subs); j++ {
			out = append(out, c11Rule{Kind: "aksets", Sets: [][]string{subs[i], subs[j]}})
		}
	}
	return out
}

// c11Envs enumerates the rule box of the tier.
func c11Envs(thorough bool) (envs []c11Env, box string) {
	weights := []int{0, 4, 6, 10}
	weights3 := []int{4, 6, 10} // quick: weight 0 only in rules of <= 2 members
	accepts := []int{5, 10, 15, 20}
	if thorough {
		weights = []int{0, 3, 4, 6, 7, 10, -4}
		weights3 = weights
	}
	x2v := c11X2Variants(thorough)
	add := func(root string, class string, rules map[string]c11Rule) {
		envs = append(envs, c11Env{Root: root, Rules: rules, Class: class})
	}
	withX2 := func(root, class string, r c11Rule, extra map[string]c11Rule) {
		mk := func(x2 *c11Rule) map[string]c11Rule {
			m := map[string]c11Rule{root: r}
			for k, v := range extra {
				m[k] = v
			}
			if x2 != nil {
				m["X2"] = *x2
			}
			return m
		}
		if r.hasMember("X2") || (extra != nil && extra["acc"].hasMember("X2")) {
			for i := range x2v {
				add(root, class+"+nested", mk(&x2v[i]))
			}
		} else {
			add(root, class, mk(&x2v[1]))
		}
	}
	// account rules
	add("acc", "account-no-rule", map[string]c11Rule{"X2": x2v[1]})
	c11Subsets([]string{"A", "B", "C", "X2"}, 3, func(sub []string) {
		ws := weights
		if len(sub) == 3 {
			ws = weights3
		}
		c11Tenths(ws, len(sub), func(w []int) {
			for _, acc := range accepts {
				r := c11Rule{Kind: "threshold", Accept: acc}
				for i, nme := range sub {
					r.M = append(r.M, c11Member{nme, w[i]})
				}
				withX2("acc", "account-threshold", r, nil)
			}
		})
	})
	for _, r := range c11KeySetRules([]string{"A", "B", "C"}) {
		withX2("acc", "account-keysets", r, nil)
	}
	// method rules: members among the keys A, B and the account acc (with its own rule; acc may in
	// turn contain X2: depth 2 below the account)
	accV := []c11Rule{
		{Kind: "none"},
		{Kind: "threshold", M: []c11Member{{"A", 10}}, Accept: 10},
		{Kind: "threshold", M: []c11Member{{"A", 6}, {"B", 6}}, Accept: 10},
		{Kind: "aksets", Sets: [][]string{{"A", "B"}}},
		{Kind: "threshold", M: []c11Member{{"X2", 10}, {"C", 4}}, Accept: 10},
	}
	add("method", "method-no-rule", map[string]c11Rule{"acc": accV[1], "X2": x2v[1]})
	mweights := []int{4, 6, 10}
	if thorough {
		mweights = []int{0, 4, 6, 10}
	}
	c11Subsets([]string{"A", "B", "acc"}, 3, func(sub []string) {
		c11Tenths(mweights, len(sub), func(w []int) {
			for _, acc := range accepts {
				r := c11Rule{Kind: "threshold", Accept: acc}
				hasAcc := false
				for i, nme := range sub {
					r.M = append(r.M, c11Member{nme, w[i]})
					hasAcc = hasAcc || nme == "acc"
				}
				if !hasAcc {
					withX2("method", "method-threshold", r, map[string]c11Rule{"acc": accV[1]})
					continue
				}
				for i := range accV {
					withX2("method", "method-threshold+account-member", r, map[string]c11Rule{"acc": accV[i]})
				}
			}
		})
	})
	for _, r := range c11KeySetRules([]string{"A", "B"}) {
		withX2("method", "method-keysets", r, map[string]c11Rule{"acc": accV[1]})
	}
	box = fmt.Sprintf("account rules: no rule; threshold over <= 3 members of {A,B,C,X2} with weights %v/10 (3 members: %v/10) and accept value in %v/10; <= 2 non-empty key sets over {A,B,C}; nested account X2 with %d own rules (none, threshold, key sets); "+
		"method rules: no rule; threshold over members of {A,B,acc} with weights %v/10, acc with 5 own rules (one containing X2); <= 2 key sets over {A,B}", weights, weights3, accepts, len(x2v), mweights)
	return envs, box
}

type c11EvalStats struct {
	pairs, ntPairs, excluded, floatSkipped int
	satisfied                              int
	byClass                                map[string]int
	relSame, relMono                       int
}

// c11Enumerate runs part 1. It returns the number of violations reported.
func c11Enumerate(t *testing.T, c *hx.Collector) int {
	thorough := hx.Tier() == "thorough"
	maxLen := 3
	if thorough {
		maxLen = 4
	}
	lb := c11BuildLists(len(c11URIs), maxLen)
	envs, box := c11Envs(thorough)
	realURI := c11RealURIs(c11URIs)
	st := &c11EvalStats{byClass: map[string]int{}}
	violations := 0
	report := func(cs c11Case, err error) {
		violations++
		if violations <= 3 {
			c.Violate("acl-evaluator", err.Error(), cs)
			t.Errorf("acl-evaluator: %v", err)
		}
	}
	verdict := make([]bool, len(lb.lists))
	skip := make([]bool, len(lb.lists))
	trig := make([]bool, len(c11URIs))
	buf := make([]string, 0, maxLen)
	sbuf := make([]string, 0, maxLen)
	symList := func(lst []int) []string {
		out := make([]string, len(lst))
		for i, x := range lst {
			out[i] = c11URIs[x]
		}
		return out
	}
	ntKeys := 0
	for ei, env := range envs {
		if ei%hx.Shards() != hx.Shard() {
			continue
		}
		if violations > 3 {
			break
		}
		safe := true
		for _, sym := range []string{"method", "acc", "X2"} {
			if r, ok := env.Rules[sym]; ok && !c11FloatSafe(r) {
				safe = false
			}
		}
		if !safe {
			st.floatSkipped++
			continue
		}
		nonNeg := true
		for _, sym := range []string{"method", "acc", "X2"} {
			if r, ok := env.Rules[sym]; ok && !r.nonNegative() {
				nonNeg = false
			}
		}
		stub := c11NewStub(env.Rules)
		anyTrig := false
		for u := range c11URIs {
			trig[u] = c11InnerAKShape(env.Rules, env.Root, c11URIs[u:u+1])
			anyTrig = anyTrig || trig[u]
		}
		for li, lst := range lb.lists {
			buf = buf[:0]
			sbuf = sbuf[:0]
			for _, x := range lst {
				buf = append(buf, realURI[x])
				sbuf = append(sbuf, c11URIs[x])
			}
			skip[li] = false
			maybe := false
			if anyTrig {
				for _, x := range lst {
					maybe = maybe || trig[x]
				}
			}
			if maybe && c11Exclude[c11InnerAK] && c11InnerAKShape(env.Rules, env.Root, sbuf) {
				skip[li] = true
				st.excluded++
				continue
			}
			got, _ := c11Code(stub, env.Root, buf)
			verdict[li] = got
			want := c11Ref(env.Rules, env.Root, sbuf)
			st.pairs++
			if got {
				st.satisfied++
			}
			if lb.nt[li] {
				st.ntPairs++
				if (ei*7919+li)%97 == 0 && ntKeys < 40000 {
					ntKeys++
					c.NontrivialKey([]int{ei, li, 0})
				}
			}
			if got != want {
				cs := c11Case{Root: env.Root, Rules: env.Rules, Signers: symList(lst)}
				report(cs, evalC11(cs))
				if violations > 3 {
					break
				}
			}
		}
		st.byClass[env.Class] += len(lb.lists)
		// metamorphic relations on the code alone
		for li, lst := range lb.lists {
			if skip[li] || violations > 3 {
				continue
			}
			ci := lb.canon[li]
			if ci != li && !skip[ci] {
				st.relSame++
				if verdict[li] != verdict[ci] {
					cs := c11Case{Root: env.Root, Rules: env.Rules, Signers: symList(lst), Rel: "same-set", Other: symList(lb.lists[ci])}
					report(cs, evalC11(cs))
				}
			}
			if !lb.isCanon[li] || len(lst) >= maxLen || !nonNeg {
				continue
			}
			for u := 0; u < lb.n; u++ {
				in := false
				for _, x := range lst {
					in = in || x == u
				}
				if in {
					continue
				}
				bigger := append(append([]int{}, lst...), u)
				bi := lb.canon[lb.index(bigger)]
				if skip[bi] {
					continue
				}
				st.relMono++
				if verdict[li] && !verdict[bi] {
					cs := c11Case{Root: env.Root, Rules: env.Rules, Signers: symList(lst), Rel: "superset", Other: symList(lb.lists[bi])}
					report(cs, evalC11(cs))
				}
			}
		}
	}
	c.CountN(st.pairs, "evaluator:rule-x-signer-list")
	c.CountN(st.relSame, "evaluator:same-signer-set-relation")
	c.CountN(st.relMono, "evaluator:superset-relation")
	for _, k := range c16SortedKeysC11(st.byClass) {
		for i := 0; i < st.byClass[k]/len(lb.lists); i++ {
			c.Label("rules:" + k)
		}
	}
	for i := 0; i < st.floatSkipped; i++ {
		c.Label("rules-skipped:float-rounding-ambiguous")
	}
	for i := 0; i < st.excluded && i < 100000; i++ {
		c.Exclude(c11InnerAK)
	}
	c.Extra("evaluator", map[string]interface{}{"pairs": st.pairs, "nontrivial_pairs": st.ntPairs, "nontrivial_keys_registered": ntKeys,
		"satisfied": st.satisfied, "excluded_pairs": st.excluded, "rules_skipped_float": st.floatSkipped, "rule_points": len(envs), "signer_lists": len(lb.lists)})
	if violations == 0 {
		shardNote := ""
		if hx.Shards() > 1 {
			shardNote = fmt.Sprintf(" (rule points split over %d shards)", hx.Shards())
		}
		c.SetExhaustive(fmt.Sprintf("acl-evaluator: every ordered signer list of length <= %d over %v x {%s}%s", maxLen, c11URIs, box, shardNote))
	}
	c.Sample(map[string]interface{}{"test": "acl-evaluator", "case": c11Case{Root: "acc",
		Rules:   map[string]c11Rule{"acc": {Kind: "threshold", M: []c11Member{{"A", 6}, {"X2", 4}}, Accept: 10}, "X2": {Kind: "threshold", M: []c11Member{{"A", 10}}, Accept: 10}},
		Signers: []string{"acc/X2/A", "acc/A", "acc/A"}}})
	return violations
}

func c16SortedKeysC11(m map[string]int) []string {
	ks := make([]string, 0, len(m))
	for k := range m {
		ks = append(ks, k)
	}
	sort.Strings(ks)
	return ks
}

// ---------------------------------------------------------------------------------------------
// witnesses
// ---------------------------------------------------------------------------------------------

// c11WitnessInnerAK: rule {A:1, accept 1}; B alone signs as "acc/A/B". Only B's signature is ever
// verified, A contributes nothing: not satisfied.
func c11WitnessInnerAK() (c11Case, error) {
	cs := c11Case{Root: "acc", Rules: map[string]c11Rule{"acc": {Kind: "threshold", M: []c11Member{{"A", 10}}, Accept: 10}}, Signers: []string{"acc/A/B"}}
	return cs, evalC11(cs)
}

func init() {
	replayers["C11/acl-evaluator"] = func(raw json.RawMessage, fs *hx.FindingSet) error {
		var cs c11Case
		if err := json.Unmarshal(raw, &cs); err != nil {
			return err
		}
		return evalC11(cs)
	}
	replayers["C11/witness-"+c11InnerAK] = replayers["C11/acl-evaluator"]
}

func TestC11(t *testing.T) {
	c := hx.NewCollector("C11", "exploration",
		"(1) acl-evaluator: the real IdentifyAccount / CheckContractMethodPerm over a stub ACL manager, exhaustively over rules x ordered signer lists, compared with a reference evaluator written from the statement (signer = last URI component; counts only through a path that starts at the evaluated account and walks real membership edges; each member once); on the code alone: same verdict for every list with the same set of URIs (permutation, duplication), no acceptance lost by adding a URI (non-negative weights). Non-trivial = signer list with a duplicate, a foreign-account path or a nested path. (2) acl-pipeline: real node, accounts created through $acl.NewAccount, rule changes SetAccountAcl / SetMethodAcl signed by generated signer sets through State.VerifyTx / DoTx, interleaved with blocks and pending rule changes; accepted iff the reference evaluator is satisfied under the owning account's rule as of the confirmed chain. Non-trivial = rule change whose signers satisfy exactly one of {confirmed rule, pending rule}, or with a foreign-account / key-in-the-middle URI",
		"every signer URI ends in an access key whose signature was verified (verifySignatures checks exactly the last component)",
		"weights are multiples of 0.1 whose float64 sums compare like the exact numbers in every summation order (rules where rounding decides are skipped and counted)",
		"a listed key set is non-empty (the code documents that an empty set never validates)",
		"no stored rule means everyone passes (documented behaviour)")
	defer c.Flush(t)
	fs := hx.LoadFindings()
	regressFixed(t, c, fs, "C11")
	noExclude := os.Getenv("C11_NO_EXCLUDE") == "1"
	{
		cs, err := c11WitnessInnerAK()
		if witnessVerdict(t, c, fs, c11InnerAK, err, cs) && !noExclude {
			c11Exclude[c11InnerAK] = true
		}
	}
	if c11Enumerate(t, c) > 0 {
		return
	}
	_ = rapid.Bool
	_ = hex.EncodeToString
	_ = txhash.MakeTxDigestHash
	var _ *pb.Transaction
}
