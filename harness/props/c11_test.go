package props

// c11_test.go: C11 - access-control evaluation is sound, monotone and counts each signer once;
// a rule change must satisfy the owning account's rule in force on the confirmed chain.
//
// Part 1 (acl-evaluator): the real evaluator (aclu.IdentifyAccount / aclu.CheckContractMethodPerm)
// over a stub ACL manager, exhaustively over a small box of rules x ordered signer lists, against a
// reference evaluator written from the statement; metamorphic relations on the code alone.
// Part 2 (acl-pipeline): a real node; accounts created through the $acl kernel contract, rule
// changes (SetAccountAcl / SetMethodAcl) signed by generated signer sets, submitted through
// State.VerifyTx / DoTx, interleaved with blocks and with pending (unconfirmed) rule changes.

import (
	"encoding/hex"
	"encoding/json"
	"fmt"
	"os"
	"runtime/debug"
	"sort"
	"strings"
	"testing"

	"pgregory.net/rapid"

	"github.com/xuperchain/xupercore/bcs/ledger/xledger/state/utxo/txhash"
	pb "github.com/xuperchain/xupercore/bcs/ledger/xledger/xldgpb"
	aclu "github.com/xuperchain/xupercore/kernel/permission/acl/utils"
	"github.com/xuperchain/xupercore/protos"

	"verifharness/hx"
)

// ---------------------------------------------------------------------------------------------
// plain descriptors (JSON-able, symbolic names)
// ---------------------------------------------------------------------------------------------

// Symbolic names: A, B, C, D, E = ring keys 1..5 (access keys); acc, X2, other = accounts;
// "method" = the contract method whose rule is evaluated. A signer URI is a "/"-joined path of
// symbols, e.g. "acc/X2/A".

type c11Member struct {
	Name string `json:"name"`
	W    int    `json:"w"` // weight in tenths
}

// c11Rule is one access rule. Kind: "none" (no rule stored), "threshold", "aksets".
type c11Rule struct {
	Kind   string      `json:"kind"`
	M      []c11Member `json:"m,omitempty"`      // threshold: members with weights (tenths)
	Accept int         `json:"accept,omitempty"` // threshold: accept value (tenths)
	Sets   [][]string  `json:"sets,omitempty"`   // aksets: listed key sets
	Den    int         `json:"den,omitempty"`    // threshold: denominator of weights and accept value (0 = tenths)
}

func (r c11Rule) den() float64 {
	if r.Den > 0 {
		return float64(r.Den)
	}
	return 10
}

// c11Case is one evaluator case: the rule of Root ("acc" or "method") evaluated for the signer
// list Signers, with the rules of every account involved in Rules. Rel/Other describe a
// metamorphic relation on the code alone: "same-set" (Other has the same set of URIs: permutation /
// duplication), "superset" (Other contains every URI of Signers: monotonicity).
type c11Case struct {
	Root    string             `json:"root"`
	Rules   map[string]c11Rule `json:"rules"`
	Signers []string           `json:"signers"`
	Rel     string             `json:"rel,omitempty"`
	Other   []string           `json:"other,omitempty"`
}

const (
	c11MethodContract = "counter"
	// c11MethodContract2: a second contract whose contract->account mapping (owner acc) is written AFTER the setup
	// block by a pending transaction (step deploy2): until a block confirms it, the contract has no owner on the
	// confirmed chain and nobody can change its method rules (change kind "method2")
	c11MethodContract2 = "counter2"
	c11MethodName      = "inc"
)

var c11Accounts = map[string]string{
	"acc":   "XC1111111111111111@" + hx.BCName,
	"X2":    "XC2222222222222222@" + hx.BCName,
	"other": "XC3333333333333333@" + hx.BCName,
}

var c11AccountNumber = map[string]string{"acc": "1111111111111111", "X2": "2222222222222222", "other": "3333333333333333"}

// c11Real maps a symbol to the real name used on chain.
func c11Real(sym string) string {
	if a, ok := c11Accounts[sym]; ok {
		return a
	}
	if len(sym) == 1 && sym[0] >= 'A' && sym[0] <= 'E' {
		return hx.Ring[1+int(sym[0]-'A')].Address
	}
	if sym == "P" {
		return hx.Ring[0].Address
	}
	return sym
}

func c11KeyOfSym(sym string) *hx.Key {
	if len(sym) == 1 && sym[0] >= 'A' && sym[0] <= 'E' {
		return hx.Ring[1+int(sym[0]-'A')]
	}
	if sym == "P" {
		return hx.Ring[0]
	}
	return nil
}

func c11RealURI(uri string) string {
	parts := strings.Split(uri, "/")
	for i, p := range parts {
		parts[i] = c11Real(p)
	}
	return strings.Join(parts, "/")
}

func c11RealURIs(uris []string) []string {
	out := make([]string, len(uris))
	for i, u := range uris {
		out[i] = c11RealURI(u)
	}
	return out
}

// c11IsAccountSym: does the symbol name an account (as opposed to an access key)?
func c11IsAccountSym(sym string) bool {
	_, ok := c11Accounts[sym]
	return ok
}

func (r c11Rule) hasMember(name string) bool {
	for _, m := range r.M {
		if m.Name == name {
			return true
		}
	}
	for _, s := range r.Sets {
		for _, k := range s {
			if k == name {
				return true
			}
		}
	}
	return false
}

func (r c11Rule) nonNegative() bool {
	for _, m := range r.M {
		if m.W < 0 {
			return false
		}
	}
	return true
}

// c11ACL renders the rule as the protos.Acl the chain stores (nil = no rule).
func c11ACL(r c11Rule) *protos.Acl {
	switch r.Kind {
	case "threshold":
		a := &protos.Acl{Pm: &protos.PermissionModel{Rule: protos.PermissionRule_SIGN_THRESHOLD, AcceptValue: float64(r.Accept) / r.den()},
			AksWeight: map[string]float64{}}
		for _, m := range r.M {
			a.AksWeight[c11Real(m.Name)] = float64(m.W) / r.den()
		}
		return a
	case "aksets":
		a := &protos.Acl{Pm: &protos.PermissionModel{Rule: protos.PermissionRule_SIGN_AKSET}, AkSets: &protos.AkSets{Sets: map[string]*protos.AkSet{}}}
		for i, s := range r.Sets {
			set := &protos.AkSet{}
			for _, k := range s {
				set.Aks = append(set.Aks, c11Real(k))
			}
			a.AkSets.Sets[fmt.Sprint(i+1)] = set
		}
		return a
	}
	return nil
}

// ---------------------------------------------------------------------------------------------
// reference evaluator (written from the statement)
// ---------------------------------------------------------------------------------------------

// c11RefSatisfied: is the rule of owner satisfied by the verified signers presented below owner?
// tails holds, for every signer URI whose path leads through owner, the path components after
// owner. The signer of a URI is its LAST component (the only name whose signature is verified).
//   - an access key K that is a member counts iff some URI presents K directly below owner (tail == [K]);
//   - an account X that is a member counts iff some URI leads through X and X's own rule is
//     satisfied by what is presented below X;
//   - a key in the middle of a path, a non-member, a path through a non-member: nothing;
//   - every member counts once; no stored rule: everyone passes.
func c11RefSatisfied(rules map[string]c11Rule, owner string, tails [][]string, depth int) bool {
	r, ok := rules[owner]
	if !ok || r.Kind == "none" {
		return true
	}
	switch r.Kind {
	case "threshold":
		sum := 0
		for i, m := range r.M {
			first := true
			for _, prev := range r.M[:i] {
				first = first && prev.Name != m.Name
			}
			if first && c11RefCounts(rules, m.Name, tails, depth) {
				sum += m.W
			}
		}
		return sum >= r.Accept
	case "aksets":
		for _, s := range r.Sets {
			all := len(s) > 0
			for _, k := range s {
				all = all && c11RefCounts(rules, k, tails, depth)
			}
			if all {
				return true
			}
		}
	}
	return false
}

// c11RefCounts: does member m of the rule of the current owner count, given what is presented below
// the owner?
func c11RefCounts(rules map[string]c11Rule, m string, tails [][]string, depth int) bool {
	if c11IsAccountSym(m) {
		var below [][]string
		for _, t := range tails {
			if len(t) >= 2 && t[0] == m {
				below = append(below, t[1:])
			}
		}
		return len(below) > 0 && depth < 6 && c11RefSatisfied(rules, m, below, depth+1)
	}
	for _, t := range tails {
		if len(t) == 1 && t[0] == m {
			return true
		}
	}
	return false
}

var c11SplitCache = map[string][]string{}

// c11Split splits a URI into its path components (cached; single-threaded use only).
func c11Split(u string) []string {
	if p, ok := c11SplitCache[u]; ok {
		return p
	}
	p := strings.Split(u, "/")
	c11SplitCache[u] = p
	return p
}

// c11Tails: the path components below root of every URI that leads through root. An account rule
// only sees URIs that start at the account itself; a method rule sees every URI from its first
// component.
func c11Tails(root string, uris []string) [][]string {
	tails := make([][]string, 0, len(uris))
	for _, u := range uris {
		parts := c11Split(u)
		if root == "method" {
			tails = append(tails, parts)
		} else if len(parts) >= 2 && parts[0] == root {
			tails = append(tails, parts[1:])
		}
	}
	return tails
}

func c11Ref(rules map[string]c11Rule, root string, uris []string) bool {
	return c11RefSatisfied(rules, root, c11Tails(root, uris), 0)
}

// ---------------------------------------------------------------------------------------------
// the code under test over a stub ACL manager
// ---------------------------------------------------------------------------------------------

type c11Stub struct {
	acc    map[string]*protos.Acl
	method *protos.Acl
}

func (s *c11Stub) GetAccountACL(name string) (*protos.Acl, error) { return s.acc[name], nil }
func (s *c11Stub) GetContractMethodACL(contract, method string) (*protos.Acl, error) {
	if contract == c11MethodContract && method == c11MethodName {
		return s.method, nil
	}
	return nil, nil
}
func (s *c11Stub) GetAccountAddresses(name string) ([]string, error) { return nil, nil }

func c11NewStub(rules map[string]c11Rule) *c11Stub {
	s := &c11Stub{acc: map[string]*protos.Acl{}}
	for _, sym := range []string{"acc", "X2", "other"} {
		if r, ok := rules[sym]; ok {
			if a := c11ACL(r); a != nil {
				s.acc[c11Real(sym)] = a
			}
		}
	}
	if r, ok := rules["method"]; ok {
		s.method = c11ACL(r)
	}
	return s
}

// c11Code runs the real evaluator; an error counts as "not satisfied".
func c11Code(stub *c11Stub, root string, realURIs []string) (bool, error) {
	if root == "method" {
		ok, err := aclu.CheckContractMethodPerm(stub, realURIs, c11MethodContract, c11MethodName)
		return ok && err == nil, err
	}
	ok, err := aclu.IdentifyAccount(stub, c11Real(root), realURIs)
	return ok && err == nil, err
}

// ---------------------------------------------------------------------------------------------
// findings: trigger-shape classifiers
// ---------------------------------------------------------------------------------------------

const c11InnerAK = "C11-inner-ak-node-counts"

// c11Exclude: finding id -> its trigger shape is excluded from enumeration / generators.
var c11Exclude = map[string]bool{}

// c11InnerAKShape (finding C11-inner-ak-node-counts): some URI that leads through root has, in a
// NON-FINAL position, an access key (not an account) that is a member of the rule of the account
// (method) preceding it on the path, and that key is not also presented as a signer at exactly that
// place by another URI of the list.
func c11InnerAKShape(rules map[string]c11Rule, root string, uris []string) bool {
	have := map[string]bool{}
	for _, u := range uris {
		have[u] = true
	}
	for _, u := range uris {
		parts := strings.Split(u, "/")
		start, parent := 0, root
		if root != "method" {
			if len(parts) < 2 || parts[0] != root {
				continue
			}
			start = 1
		}
		for i := start; i < len(parts)-1; i++ {
			pr, ok := rules[parent]
			if !ok || pr.Kind == "none" {
				break // no rule: everyone passes anyway
			}
			if !pr.hasMember(parts[i]) {
				break // a non-member's subtree contributes nothing
			}
			if !c11IsAccountSym(parts[i]) {
				if !have[strings.Join(parts[:i+1], "/")] {
					return true
				}
				break
			}
			parent = parts[i]
		}
	}
	return false
}

// ---------------------------------------------------------------------------------------------
// single-case oracle (used by the enumeration on failure, by witnesses and by the replayer)
// ---------------------------------------------------------------------------------------------

func c11SameSet(a, b []string) bool {
	sa, sb := map[string]bool{}, map[string]bool{}
	for _, x := range a {
		sa[x] = true
	}
	for _, x := range b {
		sb[x] = true
	}
	if len(sa) != len(sb) {
		return false
	}
	for x := range sa {
		if !sb[x] {
			return false
		}
	}
	return true
}

func c11Subset(a, b []string) bool {
	sb := map[string]bool{}
	for _, x := range b {
		sb[x] = true
	}
	for _, x := range a {
		if !sb[x] {
			return false
		}
	}
	return true
}

// c11CheckURIs: preconditions every real caller respects - non-empty components, last component an
// access key (verifySignatures verifies exactly that name's signature).
func c11CheckURIs(uris []string) error {
	for _, u := range uris {
		parts := strings.Split(u, "/")
		for _, p := range parts {
			if p == "" {
				return fmt.Errorf("bad case: empty component in URI %q", u)
			}
		}
		if c11IsAccountSym(parts[len(parts)-1]) {
			return fmt.Errorf("bad case: URI %q does not end in an access key", u)
		}
	}
	return nil
}

func evalC11(cs c11Case) error {
	if err := c11CheckURIs(cs.Signers); err != nil {
		return err
	}
	if err := c11CheckURIs(cs.Other); err != nil {
		return err
	}
	if cs.Root != "method" && !c11IsAccountSym(cs.Root) {
		return fmt.Errorf("bad case: root %q", cs.Root)
	}
	stub := c11NewStub(cs.Rules)
	got, cerr := c11Code(stub, cs.Root, c11RealURIs(cs.Signers))
	switch cs.Rel {
	case "":
		want := c11Ref(cs.Rules, cs.Root, cs.Signers)
		if got != want {
			return fmt.Errorf("rule of %s %s evaluated for signers %v: code says satisfied=%v (err=%v), the statement says %v",
				cs.Root, c11RuleText(cs.Rules, cs.Root), cs.Signers, got, cerr, want)
		}
	case "same-set":
		if !c11SameSet(cs.Signers, cs.Other) {
			return fmt.Errorf("bad case: same-set relation on different URI sets")
		}
		got2, cerr2 := c11Code(stub, cs.Root, c11RealURIs(cs.Other))
		if got != got2 {
			return fmt.Errorf("rule of %s %s: signer lists %v and %v name the same set of signers but evaluate to %v (err=%v) and %v (err=%v)",
				cs.Root, c11RuleText(cs.Rules, cs.Root), cs.Signers, cs.Other, got, cerr, got2, cerr2)
		}
	case "superset":
		if !c11Subset(cs.Signers, cs.Other) {
			return fmt.Errorf("bad case: superset relation does not hold")
		}
		for _, sym := range []string{"method", "acc", "X2", "other"} {
			if r, ok := cs.Rules[sym]; ok && !r.nonNegative() {
				return nil // monotonicity is only claimed for non-negative weights
			}
		}
		got2, cerr2 := c11Code(stub, cs.Root, c11RealURIs(cs.Other))
		if got && !got2 {
			return fmt.Errorf("rule of %s %s: satisfied by %v but not by the larger list %v (err=%v)",
				cs.Root, c11RuleText(cs.Rules, cs.Root), cs.Signers, cs.Other, cerr2)
		}
	default:
		return fmt.Errorf("bad case: relation %q", cs.Rel)
	}
	return nil
}

func c11RuleText(rules map[string]c11Rule, root string) string {
	m := map[string]c11Rule{}
	for _, sym := range []string{"method", "acc", "X2", "other"} {
		if r, ok := rules[sym]; ok {
			m[sym] = r
		}
	}
	b, _ := json.Marshal(m)
	return string(b)
}

// ---------------------------------------------------------------------------------------------
// Part 1: exhaustive enumeration
// ---------------------------------------------------------------------------------------------

// c11URIs is the signer universe of the box.
var c11URIs = []string{"acc/A", "acc/B", "acc/C", "acc/D", "acc/X2/A", "acc/X2/D", "other/A", "A", "acc/A/B", "acc/D/A", "X2/A"}

// c11FloatSafe: the code sums float64 weights in signer order; the statement is about the numbers.
// A rule is only enumerated if, for every subset of its members in every summation order, the
// float comparison agrees with exact arithmetic (otherwise a rounding artefact, not an access
// control defect, would be reported).
func c11FloatSafe(r c11Rule) bool {
	if r.Kind != "threshold" {
		return true
	}
	n := len(r.M)
	var rec func(used int, fsum float64, isum int, cnt int) bool
	rec = func(used int, fsum float64, isum int, cnt int) bool {
		if (fsum >= float64(r.Accept)/r.den()) != (isum >= r.Accept) {
			return false
		}
		for i := 0; i < n; i++ {
			if used&(1<<uint(i)) != 0 {
				continue
			}
			if !rec(used|1<<uint(i), fsum+float64(r.M[i].W)/r.den(), isum+r.M[i].W, cnt+1) {
				return false
			}
		}
		return true
	}
	return rec(0, 0, 0, 0)
}

// c11Lists enumerates every ordered list of URI indices of length <= maxLen and, for each, the
// index of its canonical representative (sorted, duplicates removed).
type c11ListBox struct {
	n       int
	maxLen  int
	lists   [][]int
	offset  []int // offset[len] = index of the first list of that length
	canon   []int
	isCanon []bool
	nt      []bool // non-trivial by the rule: duplicate, foreign-account path or nested path
	dup     []bool
}

func c11BuildLists(n, maxLen int) *c11ListBox {
	b := &c11ListBox{n: n, maxLen: maxLen}
	pow := 1
	for l := 0; l <= maxLen; l++ {
		b.offset = append(b.offset, len(b.lists))
		for code := 0; code < pow; code++ {
			lst := make([]int, l)
			c := code
			for i := l - 1; i >= 0; i-- {
				lst[i] = c % n
				c /= n
			}
			b.lists = append(b.lists, lst)
		}
		pow *= n
	}
	b.canon = make([]int, len(b.lists))
	b.isCanon = make([]bool, len(b.lists))
	b.nt = make([]bool, len(b.lists))
	b.dup = make([]bool, len(b.lists))
	for i, lst := range b.lists {
		s := append([]int{}, lst...)
		sort.Ints(s)
		var d []int
		for j, x := range s {
			if j == 0 || x != s[j-1] {
				d = append(d, x)
			}
		}
		b.canon[i] = b.index(d)
		b.isCanon[i] = b.canon[i] == i
		b.dup[i] = len(d) < len(lst)
		nt := b.dup[i]
		for _, x := range lst {
			u := c11URIs[x]
			if strings.Count(u, "/") >= 2 || strings.HasPrefix(u, "other/") || strings.HasPrefix(u, "X2/") {
				nt = true
			}
		}
		b.nt[i] = nt
	}
	return b
}

func (b *c11ListBox) index(lst []int) int {
	code := 0
	for _, x := range lst {
		code = code*b.n + x
	}
	return b.offset[len(lst)] + code
}

// c11Env is one point of the rule box: the rules of every account involved + which root is evaluated.
type c11Env struct {
	Root  string
	Rules map[string]c11Rule
	Class string
}

func c11Tenths(ws []int, k int, f func(w []int)) {
	w := make([]int, k)
	var rec func(i int)
	rec = func(i int) {
		if i == k {
			f(w)
			return
		}
		for _, x := range ws {
			w[i] = x
			rec(i + 1)
		}
	}
	rec(0)
}

func c11Subsets(names []string, maxSize int, f func(sub []string)) {
	n := len(names)
	for mask := 0; mask < 1<<uint(n); mask++ {
		var sub []string
		for i := 0; i < n; i++ {
			if mask&(1<<uint(i)) != 0 {
				sub = append(sub, names[i])
			}
		}
		if len(sub) <= maxSize {
			f(sub)
		}
	}
}

// c11X2Variants: the nested account's own rule (depth 2).
func c11X2Variants(thorough bool) []c11Rule {
	v := []c11Rule{
		{Kind: "none"},
		{Kind: "threshold", M: []c11Member{{"A", 10}}, Accept: 10},
		{Kind: "threshold", M: []c11Member{{"A", 6}, {"D", 6}}, Accept: 10},
	}
	if thorough {
		v = append(v, c11Rule{Kind: "aksets", Sets: [][]string{{"A"}, {"D"}}},
			c11Rule{Kind: "aksets", Sets: [][]string{{"A", "D"}}},
			c11Rule{Kind: "threshold", M: []c11Member{{"D", 10}}, Accept: 10},
			c11Rule{Kind: "threshold", M: []c11Member{{"A", 4}, {"D", 6}}, Accept: 5})
	}
	return v
}

// c11KeySetRules: every rule with <= 2 non-empty key sets over names (plus the rule with no set).
func c11KeySetRules(names []string) []c11Rule {
	var subs [][]string
	c11Subsets(names, len(names), func(sub []string) {
		if len(sub) > 0 {
			subs = append(subs, append([]string{}, sub...))
		}
	})
	out := []c11Rule{{Kind: "aksets", Sets: [][]string{}}}
	for i := range subs {
		out = append(out, c11Rule{Kind: "aksets", Sets: [][]string{subs[i]}})
		for j := i + 1; j < len(subs); j++ {
			out = append(out, c11Rule{Kind: "aksets", Sets: [][]string{subs[i], subs[j]}})
		}
	}
	return out
}

// c11Envs enumerates the rule box of the tier.
func c11Envs(thorough bool) (envs []c11Env, box string) {
	weights := []int{0, 4, 6, 10}
	weights3 := []int{4, 6, 10} // quick: weight 0 only in rules of <= 2 members
	accepts := []int{5, 10, 15, 20}
	if thorough {
		weights = []int{0, 3, 4, 6, 7, 10, -4}
		weights3 = weights
	}
	x2v := c11X2Variants(thorough)
	add := func(root string, class string, rules map[string]c11Rule) {
		envs = append(envs, c11Env{Root: root, Rules: rules, Class: class})
	}
	withX2 := func(root, class string, r c11Rule, extra map[string]c11Rule) {
		mk := func(x2 *c11Rule) map[string]c11Rule {
			m := map[string]c11Rule{root: r}
			for k, v := range extra {
				m[k] = v
			}
			if x2 != nil {
				m["X2"] = *x2
			}
			return m
		}
		if r.hasMember("X2") || (extra != nil && extra["acc"].hasMember("X2")) {
			for i := range x2v {
				add(root, class+"+nested", mk(&x2v[i]))
			}
		} else {
			add(root, class, mk(&x2v[1]))
		}
	}
	// account rules
	add("acc", "account-no-rule", map[string]c11Rule{"X2": x2v[1]})
	c11Subsets([]string{"A", "B", "C", "X2"}, 3, func(sub []string) {
		ws := weights
		if len(sub) == 3 {
			ws = weights3
		}
		c11Tenths(ws, len(sub), func(w []int) {
			for _, acc := range accepts {
				r := c11Rule{Kind: "threshold", Accept: acc}
				for i, nme := range sub {
					r.M = append(r.M, c11Member{nme, w[i]})
				}
				withX2("acc", "account-threshold", r, nil)
			}
		})
	})
	if !thorough {
		// quick: negative weights ("arbitrary weights") in a box of their own - rules of 2 and 3 plain keys, where a
		// prefix of the signer list can reach the threshold that the whole member set misses
		c11Subsets([]string{"A", "B", "C"}, 3, func(sub []string) {
			if len(sub) < 2 {
				return
			}
			c11Tenths([]int{-10, -4, 6, 10}, len(sub), func(w []int) {
				neg := false
				for _, x := range w {
					neg = neg || x < 0
				}
				if !neg {
					return
				}
				for _, acc := range []int{5, 10} {
					r := c11Rule{Kind: "threshold", Accept: acc}
					for i, nme := range sub {
						r.M = append(r.M, c11Member{nme, w[i]})
					}
					withX2("acc", "account-threshold-negative-weight", r, nil)
				}
			})
		})
	}
	// fine-grained weights (thousandths): member sets that miss the accept value by a few thousandths must be refused
	// (both tiers; rules whose float sums are not exact in every order are left out by c11FloatSafe as everywhere)
	c11Subsets([]string{"A", "B", "C"}, 3, func(sub []string) {
		if len(sub) < 2 {
			return
		}
		c11Tenths([]int{4, 333, 334, 996}, len(sub), func(w []int) {
			for _, acc := range []int{667, 670, 1000} {
				r := c11Rule{Kind: "threshold", Accept: acc, Den: 1000}
				for i, nme := range sub {
					r.M = append(r.M, c11Member{nme, w[i]})
				}
				withX2("acc", "account-threshold-thousandths", r, nil)
			}
		})
	})
	for _, r := range c11KeySetRules([]string{"A", "B", "C"}) {
		withX2("acc", "account-keysets", r, nil)
	}
	// method rules: members among the keys A, B and the account acc (with its own rule; acc may in
	// turn contain X2: depth 2 below the account)
	accV := []c11Rule{
		{Kind: "none"},
		{Kind: "threshold", M: []c11Member{{"A", 10}}, Accept: 10},
		{Kind: "threshold", M: []c11Member{{"A", 6}, {"B", 6}}, Accept: 10},
		{Kind: "aksets", Sets: [][]string{{"A", "B"}}},
		{Kind: "threshold", M: []c11Member{{"X2", 10}, {"C", 4}}, Accept: 10},
	}
	add("method", "method-no-rule", map[string]c11Rule{"acc": accV[1], "X2": x2v[1]})
	mweights := []int{4, 6, 10}
	if thorough {
		mweights = []int{0, 4, 6, 10}
	}
	c11Subsets([]string{"A", "B", "acc"}, 3, func(sub []string) {
		c11Tenths(mweights, len(sub), func(w []int) {
			for _, acc := range accepts {
				r := c11Rule{Kind: "threshold", Accept: acc}
				hasAcc := false
				for i, nme := range sub {
					r.M = append(r.M, c11Member{nme, w[i]})
					hasAcc = hasAcc || nme == "acc"
				}
				if !hasAcc {
					withX2("method", "method-threshold", r, map[string]c11Rule{"acc": accV[1]})
					continue
				}
				for i := range accV {
					withX2("method", "method-threshold+account-member", r, map[string]c11Rule{"acc": accV[i]})
				}
			}
		})
	})
	for _, r := range c11KeySetRules([]string{"A", "B"}) {
		withX2("method", "method-keysets", r, map[string]c11Rule{"acc": accV[1]})
	}
	box = fmt.Sprintf("account rules: no rule; threshold over <= 3 members of {A,B,C,X2} with weights %v/10 (3 members: %v/10) and accept value in %v/10 (quick: plus 2-3 keys of {A,B,C} with weights {-10,-4,6,10}/10, at least one negative, accept 5 or 10), plus 2-3 keys of {A,B,C} with weights {4,333,334,996}/1000 and accept value in {667,670,1000}/1000; <= 2 non-empty key sets over {A,B,C}; nested account X2 with %d own rules (none, threshold, key sets); "+
		"method rules: no rule; threshold over members of {A,B,acc} with weights %v/10, acc with 5 own rules (one containing X2); <= 2 key sets over {A,B}", weights, weights3, accepts, len(x2v), mweights)
	return envs, box
}

type c11EvalStats struct {
	pairs, ntPairs, excluded, floatSkipped int
	satisfied                              int
	byClass                                map[string]int
	relSame, relMono                       int
}

// c11Enumerate runs part 1. It returns the number of violations reported.
func c11Enumerate(t *testing.T, c *hx.Collector) int {
	thorough := hx.Tier() == "thorough"
	maxLen := 3
	if thorough {
		maxLen = 4
	}
	lb := c11BuildLists(len(c11URIs), maxLen)
	envs, box := c11Envs(thorough)
	realURI := c11RealURIs(c11URIs)
	st := &c11EvalStats{byClass: map[string]int{}}
	violations := 0
	report := func(cs c11Case, err error) {
		violations++
		if violations <= 3 {
			c.Violate("acl-evaluator", err.Error(), cs)
			t.Errorf("acl-evaluator: %v", err)
		}
	}
	verdict := make([]bool, len(lb.lists))
	skip := make([]bool, len(lb.lists))
	trig := make([]bool, len(c11URIs))
	buf := make([]string, 0, maxLen)
	sbuf := make([]string, 0, maxLen)
	symList := func(lst []int) []string {
		out := make([]string, len(lst))
		for i, x := range lst {
			out[i] = c11URIs[x]
		}
		return out
	}
	ntKeys := 0
	for ei, env := range envs {
		if ei%hx.Shards() != hx.Shard() {
			continue
		}
		if violations > 3 {
			break
		}
		safe := true
		for _, sym := range []string{"method", "acc", "X2"} {
			if r, ok := env.Rules[sym]; ok && !c11FloatSafe(r) {
				safe = false
			}
		}
		if !safe {
			st.floatSkipped++
			continue
		}
		nonNeg := true
		for _, sym := range []string{"method", "acc", "X2"} {
			if r, ok := env.Rules[sym]; ok && !r.nonNegative() {
				nonNeg = false
			}
		}
		stub := c11NewStub(env.Rules)
		anyTrig := false
		for u := range c11URIs {
			trig[u] = c11InnerAKShape(env.Rules, env.Root, c11URIs[u:u+1])
			anyTrig = anyTrig || trig[u]
		}
		for li, lst := range lb.lists {
			buf = buf[:0]
			sbuf = sbuf[:0]
			for _, x := range lst {
				buf = append(buf, realURI[x])
				sbuf = append(sbuf, c11URIs[x])
			}
			skip[li] = false
			maybe := false
			if anyTrig {
				for _, x := range lst {
					maybe = maybe || trig[x]
				}
			}
			if maybe && c11Exclude[c11InnerAK] && c11InnerAKShape(env.Rules, env.Root, sbuf) {
				skip[li] = true
				st.excluded++
				continue
			}
			got, _ := c11Code(stub, env.Root, buf)
			verdict[li] = got
			want := c11Ref(env.Rules, env.Root, sbuf)
			st.pairs++
			if got {
				st.satisfied++
			}
			if lb.nt[li] {
				st.ntPairs++
				if (ei*7919+li)%97 == 0 && ntKeys < 40000 {
					ntKeys++
					c.NontrivialKey([]int{ei, li, 0})
				}
			}
			if got != want {
				cs := c11Case{Root: env.Root, Rules: env.Rules, Signers: symList(lst)}
				report(cs, evalC11(cs))
				if violations > 3 {
					break
				}
			}
		}
		st.byClass[env.Class] += len(lb.lists)
		// metamorphic relations on the code alone
		for li, lst := range lb.lists {
			if skip[li] || violations > 3 {
				continue
			}
			ci := lb.canon[li]
			if ci != li && !skip[ci] {
				st.relSame++
				if verdict[li] != verdict[ci] {
					cs := c11Case{Root: env.Root, Rules: env.Rules, Signers: symList(lst), Rel: "same-set", Other: symList(lb.lists[ci])}
					report(cs, evalC11(cs))
				}
			}
			if !lb.isCanon[li] || len(lst) >= maxLen || !nonNeg {
				continue
			}
			for u := 0; u < lb.n; u++ {
				in := false
				for _, x := range lst {
					in = in || x == u
				}
				if in {
					continue
				}
				bigger := append(append([]int{}, lst...), u)
				bi := lb.canon[lb.index(bigger)]
				if skip[bi] {
					continue
				}
				st.relMono++
				if verdict[li] && !verdict[bi] {
					cs := c11Case{Root: env.Root, Rules: env.Rules, Signers: symList(lst), Rel: "superset", Other: symList(lb.lists[bi])}
					report(cs, evalC11(cs))
				}
			}
		}
	}
	c.CountN(st.pairs, "evaluator:rule-x-signer-list")
	c.CountN(st.relSame, "evaluator:same-signer-set-relation")
	c.CountN(st.relMono, "evaluator:superset-relation")
	for _, k := range c11SortedKeys(st.byClass) {
		for i := 0; i < st.byClass[k]/len(lb.lists); i++ {
			c.Label("rules:" + k)
		}
	}
	for i := 0; i < st.floatSkipped; i++ {
		c.Label("rules-skipped:float-rounding-ambiguous")
	}
	for i := 0; i < st.excluded && i < 100000; i++ {
		c.Exclude(c11InnerAK)
	}
	c.Extra("evaluator", map[string]interface{}{"pairs": st.pairs, "nontrivial_pairs": st.ntPairs, "nontrivial_keys_registered": ntKeys,
		"satisfied": st.satisfied, "excluded_pairs": st.excluded, "rules_skipped_float": st.floatSkipped, "rule_points": len(envs), "signer_lists": len(lb.lists)})
	if violations == 0 {
		shardNote := ""
		if hx.Shards() > 1 {
			shardNote = fmt.Sprintf(" (rule points split over %d shards)", hx.Shards())
		}
		c.SetExhaustive(fmt.Sprintf("acl-evaluator: every ordered signer list of length <= %d over %v x {%s}%s", maxLen, c11URIs, box, shardNote))
	}
	c.Sample(map[string]interface{}{"test": "acl-evaluator", "case": c11Case{Root: "acc",
		Rules:   map[string]c11Rule{"acc": {Kind: "threshold", M: []c11Member{{"A", 6}, {"X2", 4}}, Accept: 10}, "X2": {Kind: "threshold", M: []c11Member{{"A", 10}}, Accept: 10}},
		Signers: []string{"acc/X2/A", "acc/A", "acc/A"}}})
	return violations
}

func c11SortedKeys(m map[string]int) []string {
	ks := make([]string, 0, len(m))
	for k := range m {
		ks = append(ks, k)
	}
	sort.Strings(ks)
	return ks
}

// ---------------------------------------------------------------------------------------------
// Part 2: who may change a rule (real node)
// ---------------------------------------------------------------------------------------------

// c11Auth is one AuthRequire entry: the URI and the key that signs for it (Key != last component of
// URI: a forged entry - the name stays unverified).
type c11Auth struct {
	URI string `json:"uri"`
	Key string `json:"key"`
}

// c11PStep is one step of the pipeline machine.
//
//	setup : contract->account mapping, accounts acc and X2 created through $acl.NewAccount, one block
//	change: SetAccountAcl(Target) / SetMethodAcl(counter.inc, owned by acc; kind method2: counter2.inc) with rule Rule, signed by Auth
//	deploy2: pending transaction writing the mapping counter2 -> acc, signed by Auth
//	spend : a transfer out of account Target's own funds (back to itself), signed by Auth
//	mine  : the node's own block; walk: State.Walk to block Target index; sync: walk to the ledger tip
type c11PStep struct {
	Op     string    `json:"op"`
	Kind   string    `json:"kind,omitempty"`   // change: "account" | "method"
	Target string    `json:"target,omitempty"` // change: account symbol
	Rule   *c11Rule  `json:"rule,omitempty"`
	Rule2  *c11Rule  `json:"rule2,omitempty"` // setup: rule of X2
	Auth   []c11Auth `json:"auth,omitempty"`
	Block  int       `json:"block,omitempty"` // walk target (model block index)
}

// c11Guard: what an admitted guarded transaction needed (for re-admission after a walk).
type c11Guard struct {
	owner    string
	verified []string
	what     string
}

type c11Pipe struct {
	guards  map[string]c11Guard // txid -> requirement of a guarded transaction that was admitted
	nm      *hx.NodeMachine
	byJSON  map[string]c11Rule // ACL JSON as stored on chain -> descriptor
	base    int                // index of the setup block (never undone)
	stat    map[string]int
	ntSteps int
	lastMsg string
}

func c11RuleJSON(r c11Rule) string {
	b, _ := json.Marshal(c11ACL(r))
	return string(b)
}

// rulesAt reads the account rules out of a MODEL state (the harness' own bookkeeping of the chain).
func (p *c11Pipe) rulesAt(s *hx.MState) (map[string]c11Rule, error) {
	out := map[string]c11Rule{}
	for _, sym := range []string{"acc", "X2", "other"} {
		kv := s.KV[hx.RawKey(aclu.GetAccountBucket(), c11Real(sym))]
		if kv == nil || kv.Deleted() {
			continue
		}
		r, ok := p.byJSON[string(kv.Value)]
		if !ok {
			return nil, fmt.Errorf("harness: unknown rule text %q stored for %s", kv.Value, sym)
		}
		out[sym] = r
	}
	return out, nil
}

func (p *c11Pipe) confirmedRules() (map[string]c11Rule, error) {
	return p.rulesAt(p.nm.States[p.nm.Ptr])
}
func (p *c11Pipe) pendingRules() (map[string]c11Rule, error) { return p.rulesAt(p.nm.PoolState()) }

func c11NoteKeys(nm *hx.NodeMachine, tx *pb.Transaction) {
	for _, o := range tx.TxOutputsExt {
		if o.Bucket != hx.TransientBucket {
			nm.KeyUniv[hx.RawKey(o.Bucket, string(o.Key))] = true
		}
	}
	for _, i := range tx.TxInputsExt {
		nm.KeyUniv[hx.RawKey(i.Bucket, string(i.Key))] = true
	}
}

// c11Spec completes a contract-call spec of payer P (ring 0) on model state s: one input of P, the
// fee output the pre-execution asks for, change back to P.
func (p *c11Pipe) c11Spec(s *hx.MState, contract, method string, args map[string]string, prog []hx.Ins) (*hx.TxSpec, error) {
	nm := p.nm
	nm.Seq++
	spec := &hx.TxSpec{From: 0, Seq: nm.Seq, Version: 3, Contract: contract, Method: method, Args: args, Prog: prog}
	_, pre := nm.BuildOnModel(spec, s)
	if pre == nil || pre.Err != nil {
		var e error
		if pre != nil {
			e = pre.Err
		}
		return nil, fmt.Errorf("pre-execution failed: %v", e)
	}
	gas := pre.GasUsed
	for _, u := range s.UtxosOf(hx.Ring[0].Address) {
		if u.Frozen != 0 || !u.Amount.IsInt64() || u.Amount.Int64() < gas+1 {
			continue
		}
		spec.Ins = []hx.InRef{{Addr: 0, Txid: hex.EncodeToString(u.Txid), Off: u.Off, Amount: u.Amount.String()}}
		if gas > 0 {
			spec.Outs = append(spec.Outs, hx.OutSpec{To: -1, Amount: fmt.Sprint(gas)})
		}
		spec.Outs = append(spec.Outs, hx.OutSpec{To: 0, Amount: fmt.Sprint(u.Amount.Int64() - gas)})
		return spec, nil
	}
	return nil, fmt.Errorf("harness: payer has no output >= %d", gas+1)
}

// c11BuildTx assembles the transaction of spec on model state s and signs it for the AuthRequire
// list auth (entry i signed by auth[i].Key), initiator = ring key spec.From.
func c11BuildTx(nm *hx.NodeMachine, spec *hx.TxSpec, s *hx.MState, auth []c11Auth) (*pb.Transaction, error) {
	tx, pre := nm.BuildOnModel(spec, s)
	if tx == nil {
		var e error
		if pre != nil {
			e = pre.Err
		}
		return nil, fmt.Errorf("pre-execution failed: %v", e)
	}
	tx.AuthRequire = []string{}
	for _, a := range auth {
		tx.AuthRequire = append(tx.AuthRequire, c11RealURI(a.URI))
	}
	digest, err := txhash.MakeTxDigestHash(tx)
	if err != nil {
		return nil, err
	}
	ik := hx.Ring[spec.From]
	tx.InitiatorSigns = []*protos.SignatureInfo{{PublicKey: ik.PubJSON, Sign: hx.DetSign(ik.Priv, digest)}}
	tx.AuthRequireSigns = []*protos.SignatureInfo{}
	for _, a := range auth {
		k := c11KeyOfSym(a.Key)
		if k == nil {
			return nil, fmt.Errorf("bad step: signing key %q", a.Key)
		}
		tx.AuthRequireSigns = append(tx.AuthRequireSigns, &protos.SignatureInfo{PublicKey: k.PubJSON, Sign: hx.DetSign(k.Priv, digest)})
	}
	tx.Txid, err = txhash.MakeTransactionID(tx)
	return tx, err
}

func c11LastComp(uri string) string {
	parts := c11Split(uri)
	return parts[len(parts)-1]
}

// c11ForeignOrMiddle: does the list contain a URI of another account's path or a key in the middle?
func c11ForeignOrMiddle(owner string, uris []string) bool {
	for _, u := range uris {
		parts := c11Split(u)
		if len(parts) >= 2 && parts[0] != owner && c11IsAccountSym(parts[0]) {
			return true
		}
		for _, q := range parts[:len(parts)-1] {
			if !c11IsAccountSym(q) {
				return true
			}
		}
	}
	return false
}

// checkReadmitted: a walk rolls the whole pool back and re-admits it on the new confirmed block; a guarded transaction
// that is pending afterwards must be authorised by the owner's rule in force THERE (the branch walked to may lack the
// rule change that authorised it).
func (p *c11Pipe) checkReadmitted(after string) error {
	cr, err := p.confirmedRules()
	if err != nil {
		return err
	}
	for _, tx := range p.nm.Pool {
		g, ok := p.guards[string(tx.Txid)]
		if !ok {
			continue
		}
		p.stat["guarded-tx-pending-across-walk"]++
		if !c11Ref(cr, g.owner, g.verified) {
			return fmt.Errorf("after %s the pool still holds (re-admitted) a %s although the verified signers %v do not satisfy the rule of %s on the confirmed chain now: %s",
				after, g.what, g.verified, g.owner, c11RuleText(cr, ""))
		}
	}
	return nil
}

func (p *c11Pipe) checkNode() error {
	if err := p.nm.CheckState(); err != nil {
		return err
	}
	return p.nm.LM.CheckInvariant()
}

// apply executes one step; a returned error is an oracle failure.
func (p *c11Pipe) apply(st c11PStep) error {
	nm := p.nm
	m := nm.LM.M
	p.lastMsg = ""
	switch st.Op {
	case "setup":
		if st.Rule == nil || st.Rule2 == nil {
			return fmt.Errorf("bad step: setup without rules")
		}
		// contract -> owning account mapping (written while acc has no rule yet: everyone passes)
		spec, err := p.c11Spec(nm.PoolState(), "", "", nil, []hx.Ins{{Op: "put", B: aclu.GetContract2AccountBucket(), K: c11MethodContract, V: c11Real("acc")}})
		if err != nil {
			return err
		}
		if err := p.applyTxOp(spec); err != nil {
			return err
		}
		for _, a := range []struct {
			sym string
			r   c11Rule
		}{{"acc", *st.Rule}, {"X2", *st.Rule2}} {
			js := c11RuleJSON(a.r)
			p.byJSON[js] = a.r
			spec, err := p.c11Spec(nm.PoolState(), "$acl", "NewAccount", map[string]string{"account_name": c11AccountNumber[a.sym], "acl": js}, nil)
			if err != nil {
				return err
			}
			if err := p.applyTxOp(spec); err != nil {
				return err
			}
		}
		for _, sym := range []string{"acc", "X2"} {
			// funds owned by the account itself (for spend steps)
			s := nm.PoolState()
			var in *hx.UTXO
			for _, u := range s.UtxosOf(hx.Ring[0].Address) {
				if u.Frozen == 0 && u.Amount.IsInt64() && u.Amount.Int64() > 5000 {
					in = u
					break
				}
			}
			if in == nil {
				return fmt.Errorf("harness: payer cannot fund %s", sym)
			}
			nm.Seq++
			spec := &hx.TxSpec{From: 0, Seq: nm.Seq, Version: 3,
				Ins:  []hx.InRef{{Addr: 0, Txid: hex.EncodeToString(in.Txid), Off: in.Off, Amount: in.Amount.String()}},
				Outs: []hx.OutSpec{{To: -2, ToS: c11Real(sym), Amount: "5000"}, {To: 0, Amount: fmt.Sprint(in.Amount.Int64() - 5000)}}}
			if err := p.applyTxOp(spec); err != nil {
				return err
			}
		}
		if err := nm.Apply(hx.NOp{Op: "mine", Label: fmt.Sprintf("b%d", len(m.Blocks))}); err != nil {
			return err
		}
		p.base = nm.Ptr
		cr, err := p.confirmedRules()
		if err != nil {
			return err
		}
		if len(cr) != 2 {
			return fmt.Errorf("harness: setup block did not create both accounts: %v", cr)
		}
		return p.checkNode()
	case "mine":
		if nm.Ptr != m.Tip {
			p.stat["mine-skipped"]++
			return nil
		}
		npend := len(nm.Pool)
		if err := nm.Apply(hx.NOp{Op: "mine", Label: fmt.Sprintf("b%d", len(m.Blocks))}); err != nil {
			return err
		}
		p.stat["mine"]++
		if npend > 0 {
			p.stat["mine-confirms-rule-change"]++
		}
		return p.checkNode()
	case "sync":
		if err := nm.Apply(hx.NOp{Op: "sync"}); err != nil {
			return err
		}
		if nm.LastOutcome != "skipped" {
			if err := p.checkReadmitted("the walk to the ledger tip"); err != nil {
				return err
			}
		}
		return p.checkNode()
	case "walk":
		if st.Block < p.base || st.Block >= len(m.Blocks) || !m.OnMain(st.Block) {
			return nil
		}
		if err := nm.Apply(hx.NOp{Op: "walk", Target: st.Block}); err != nil {
			return err
		}
		if nm.LastUndo > 0 {
			p.stat["walk-back"]++
		}
		if nm.LastOutcome != "skipped" {
			if err := p.checkReadmitted(fmt.Sprintf("the walk to block %d", st.Block)); err != nil {
				return err
			}
		}
		return p.checkNode()
	case "change", "spend":
		return p.change(st)
	case "deploy2":
		// a pending transaction writes counter2 -> acc (the write needs acc's confirmed rule: Auth); not judged
		s := nm.PoolState()
		spec, err := p.c11Spec(s, "", "", nil, []hx.Ins{{Op: "put", B: aclu.GetContract2AccountBucket(), K: c11MethodContract2, V: c11Real("acc")}})
		if err != nil {
			return fmt.Errorf("harness: %v", err)
		}
		tx, err := c11BuildTx(nm, spec, s, st.Auth)
		if err != nil {
			return fmt.Errorf("harness: %v", err)
		}
		if merr := s.Check(tx, m.Blocks[m.Tip].Height); merr != nil {
			return fmt.Errorf("harness: generated transaction is not current on the model: %v", merr)
		}
		sub := hx.CloneTx(tx)
		if ok, verr := nm.N.State.VerifyTx(sub); !ok || verr != nil {
			p.stat["deploy2-refused"]++
			return p.checkNode()
		}
		if derr := nm.N.State.DoTx(sub); derr != nil {
			return fmt.Errorf("DoTx refuses (%v) the verified mapping transaction", derr)
		}
		nm.Pool = append(nm.Pool, tx)
		c11NoteKeys(nm, tx)
		p.stat["deploy2-pending"]++
		return p.checkNode()
	}
	return fmt.Errorf("bad step: op %q", st.Op)
}

func (p *c11Pipe) applyTxOp(spec *hx.TxSpec) error {
	nm := p.nm
	if err := nm.Apply(hx.NOp{Op: "tx", Tx: spec}); err != nil {
		return err
	}
	if nm.LastOutcome != "admitted" {
		return fmt.Errorf("harness: setup transaction %s.%s not admitted (%s)", spec.Contract, spec.Method, nm.LastOutcome)
	}
	c11NoteKeys(nm, nm.Pool[len(nm.Pool)-1])
	return nil
}

// c11ChangeView is what the oracle of a change step sees (also used by the generator).
type c11ChangeView struct {
	owner       string
	confirmed   map[string]c11Rule
	pending     map[string]c11Rule
	verified    []string // URIs whose last component is a verified signer
	allVerified bool
	want        bool // statement: the change is authorised
	wantPending bool // what the pending (unconfirmed) rules would say
	hasPending  bool // the owner's (or a nested member's) rule has an unconfirmed change
	unowned     bool // kind method2: the contract->account mapping is not on the confirmed chain
	pendingMap  bool // kind method2: ... but a pending transaction writes it
}

func (p *c11Pipe) view(st c11PStep) (*c11ChangeView, error) {
	v := &c11ChangeView{owner: st.Target}
	if st.Op == "spend" {
		// the owner of the funds is the account itself
	} else if st.Kind == "method" {
		v.owner = "acc" // counter is owned by acc (setup)
	} else if st.Kind == "method2" {
		v.owner = "acc" // counter2 is owned by acc once step deploy2 is confirmed
		mk := hx.RawKey(aclu.GetContract2AccountBucket(), c11MethodContract2)
		if kv := p.nm.States[p.nm.Ptr].KV[mk]; kv == nil || kv.Deleted() {
			v.unowned = true
			if kv := p.nm.PoolState().KV[mk]; kv != nil && !kv.Deleted() {
				v.pendingMap = true
			}
		}
	} else if st.Kind != "account" {
		return nil, fmt.Errorf("bad step: change kind %q", st.Kind)
	}
	if st.Target != "acc" && st.Target != "X2" {
		return nil, fmt.Errorf("bad step: target %q", st.Target)
	}
	var err error
	if v.confirmed, err = p.confirmedRules(); err != nil {
		return nil, err
	}
	if v.pending, err = p.pendingRules(); err != nil {
		return nil, err
	}
	// verified signers: the initiator and every name with a valid signature in the transaction
	names := map[string]bool{"P": true}
	var all []string
	for _, a := range st.Auth {
		all = append(all, a.URI)
		if c11LastComp(a.URI) == a.Key {
			names[a.Key] = true
		}
	}
	if err := c11CheckURIs(all); err != nil {
		return nil, err
	}
	for _, u := range all {
		if names[c11LastComp(u)] {
			v.verified = append(v.verified, u)
		}
	}
	// a transaction carrying any invalid signature may be refused whatever the rule says; if it is
	// accepted nevertheless, only names with a valid signature somewhere in it may have counted
	v.allVerified = true
	for _, a := range st.Auth {
		if c11LastComp(a.URI) != a.Key {
			v.allVerified = false
		}
	}
	v.want = c11Ref(v.confirmed, v.owner, v.verified)
	v.wantPending = c11Ref(v.pending, v.owner, v.verified)
	if v.unowned {
		// no owning account on the confirmed chain: no rule in force there can be satisfied
		v.want = false
		v.wantPending = v.wantPending && v.pendingMap
	}
	v.hasPending = c11RuleText(v.confirmed, "") != c11RuleText(v.pending, "")
	return v, nil
}

func (p *c11Pipe) change(st c11PStep) error {
	nm := p.nm
	if st.Op == "change" && st.Rule == nil {
		return fmt.Errorf("bad step: change without rule")
	}
	v, err := p.view(st)
	if err != nil {
		return err
	}
	if _, exists := v.confirmed[st.Target]; !exists {
		return fmt.Errorf("bad step: account %s does not exist on the confirmed chain", st.Target)
	}
	s := nm.PoolState()
	var spec *hx.TxSpec
	kind := st.Kind
	if st.Op == "spend" {
		kind = "spend"
		us := s.UtxosOf(c11Real(st.Target))
		if len(us) == 0 {
			p.stat["spend-skipped-no-funds"]++
			return nil
		}
		u := us[0]
		nm.Seq++
		spec = &hx.TxSpec{From: 0, Seq: nm.Seq, Version: 3,
			Ins:  []hx.InRef{{Addr: -1, AddrS: c11Real(st.Target), Txid: hex.EncodeToString(u.Txid), Off: u.Off, Amount: u.Amount.String(), Frozen: u.Frozen}},
			Outs: []hx.OutSpec{{To: -2, ToS: c11Real(st.Target), Amount: u.Amount.String()}}}
	} else {
		js := c11RuleJSON(*st.Rule)
		p.byJSON[js] = *st.Rule
		if st.Kind == "account" {
			spec, err = p.c11Spec(s, "$acl", "SetAccountAcl", map[string]string{"account_name": c11Real(st.Target), "acl": js}, nil)
		} else if st.Kind == "method2" {
			spec, err = p.c11Spec(s, "$acl", "SetMethodAcl", map[string]string{"contract_name": c11MethodContract2, "method_name": c11MethodName, "acl": js}, nil)
		} else {
			spec, err = p.c11Spec(s, "$acl", "SetMethodAcl", map[string]string{"contract_name": c11MethodContract, "method_name": c11MethodName, "acl": js}, nil)
		}
		if err != nil {
			return fmt.Errorf("harness: %v", err)
		}
	}
	tx, err := c11BuildTx(nm, spec, s, st.Auth)
	if err != nil {
		return fmt.Errorf("harness: %v", err)
	}
	if merr := s.Check(tx, nm.LM.M.Blocks[nm.LM.M.Tip].Height); merr != nil {
		return fmt.Errorf("harness: generated transaction is not current on the model: %v", merr)
	}
	sub := hx.CloneTx(tx)
	ok, verr := nm.N.State.VerifyTx(sub)
	accepted := ok && verr == nil
	what := fmt.Sprintf("%s rule change of %s", st.Kind, st.Target)
	if st.Op == "spend" {
		what = fmt.Sprintf("transfer out of the funds of %s", st.Target)
	}
	what += fmt.Sprintf(" signed by %s; rule of owner %s on the confirmed chain %s (pending state: %s)",
		c11AuthText(st.Auth), v.owner, c11RuleText(v.confirmed, ""), c11RuleText(v.pending, ""))
	if accepted && v.unowned {
		return fmt.Errorf("VerifyTx ACCEPTS a %s although contract %s has no owning account on the confirmed chain (mapping written by a pending transaction: %v)", what, c11MethodContract2, v.pendingMap)
	}
	if accepted && !v.want {
		return fmt.Errorf("VerifyTx ACCEPTS a %s although the verified signers %v do not satisfy the owner's confirmed rule", what, v.verified)
	}
	if !accepted && v.want && v.allVerified {
		return fmt.Errorf("VerifyTx REFUSES (%v) a %s although the verified signers satisfy the owner's confirmed rule", verr, what)
	}
	if accepted {
		if derr := nm.N.State.DoTx(sub); derr != nil {
			return fmt.Errorf("DoTx refuses (%v) a verified %s", derr, what)
		}
		nm.Pool = append(nm.Pool, tx)
		c11NoteKeys(nm, tx)
		p.guards[string(tx.Txid)] = c11Guard{owner: v.owner, verified: v.verified, what: what}
		p.stat[st.Op+"-accepted"]++
	} else {
		p.stat[st.Op+"-refused"]++
		if verr != nil && v.allVerified && verr.Error() != "ACL not enough" {
			p.stat["refused-with-other-error"]++
		}
	}
	p.stat["guarded:"+kind]++
	if !v.allVerified {
		p.stat["forged-entry"]++
	}
	nt := false
	if v.unowned && v.pendingMap {
		p.stat["method-rule-change-while-owner-mapping-pending"]++
		if v.wantPending {
			nt = true
		}
	}
	if v.hasPending {
		p.stat["guarded-tx-while-rule-change-pending"]++
		if v.want != v.wantPending {
			p.stat["confirmed-and-pending-rule-disagree"]++
			nt = true
		}
	}
	if c11ForeignOrMiddle(v.owner, v.verified) {
		p.stat["foreign-or-middle-uri"]++
		nt = true
	}
	if nt {
		p.ntSteps++
	}
	return p.checkNode()
}

func c11AuthText(auth []c11Auth) string {
	var ss []string
	for _, a := range auth {
		if c11LastComp(a.URI) == a.Key {
			ss = append(ss, a.URI)
		} else {
			ss = append(ss, a.URI+"(signed by "+a.Key+")")
		}
	}
	return "[" + strings.Join(ss, " ") + "]"
}

func c11NewPipe(fs *hx.FindingSet) (*c11Pipe, error) {
	nm, err := hx.NewNodeMachine(hx.DefaultOpts(), fs)
	if err != nil {
		return nil, err
	}
	nm.AddrUniv = append(nm.AddrUniv, c11Real("acc"), c11Real("X2"))
	return &c11Pipe{nm: nm, byJSON: map[string]c11Rule{}, stat: map[string]int{}, guards: map[string]c11Guard{}}, nil
}

// c11RunPipelineTrace replays a recorded pipeline history.
func c11RunPipelineTrace(steps []c11PStep, fs *hx.FindingSet) error {
	p, err := c11NewPipe(fs)
	if err != nil {
		return err
	}
	defer p.nm.Close()
	for i, st := range steps {
		if err := p.apply(st); err != nil {
			b, _ := json.Marshal(st)
			return fmt.Errorf("step %d %s: %v", i, b, err)
		}
	}
	return nil
}

// ---- generators ----

var c11Keys = []string{"A", "B", "C", "D"}

// c11DrawRule draws a rule for target (only acc may name X2 as a member). Rules that validACL
// refuses (no member / no set) and float-ambiguous rules are not drawn.
func c11DrawRule(rt *rapid.T, target string, label string) c11Rule {
	names := append([]string{}, c11Keys...)
	if target == "acc" {
		names = append(names, "X2")
	}
	for try := 0; ; try++ {
		var r c11Rule
		if rapid.IntRange(0, 9).Draw(rt, label+"kind") < 7 {
			r.Kind = "threshold"
			n := rapid.IntRange(1, 3).Draw(rt, label+"nmem")
			perm := rapid.Permutation(names).Draw(rt, label+"members")
			for _, nme := range perm[:n] {
				r.M = append(r.M, c11Member{nme, rapid.SampledFrom([]int{4, 6, 10, 10, 0}).Draw(rt, label+"w")})
			}
			sort.Slice(r.M, func(i, j int) bool { return r.M[i].Name < r.M[j].Name })
			r.Accept = rapid.SampledFrom([]int{5, 10, 10, 15, 20}).Draw(rt, label+"accept")
		} else {
			r.Kind = "aksets"
			ns := rapid.IntRange(1, 2).Draw(rt, label+"nsets")
			for i := 0; i < ns; i++ {
				k := rapid.IntRange(1, 2).Draw(rt, label+"setsize")
				perm := rapid.Permutation(c11Keys).Draw(rt, label+"set")
				set := append([]string{}, perm[:k]...)
				sort.Strings(set)
				r.Sets = append(r.Sets, set)
			}
		}
		if c11FloatSafe(r) || try > 20 {
			return r
		}
	}
}

// c11Candidates: the URIs a signer set for owner is drawn from.
func c11Candidates(owner string) (useful, junk []string) {
	nested := "X2"
	if owner == "X2" {
		nested = "acc"
	}
	for _, k := range c11Keys {
		useful = append(useful, owner+"/"+k)
	}
	for _, k := range c11Keys {
		if owner == "acc" {
			useful = append(useful, owner+"/"+nested+"/"+k)
		} else {
			junk = append(junk, owner+"/"+nested+"/"+k)
		}
		junk = append(junk, nested+"/"+k, "other/"+k, k)
		for _, k2 := range c11Keys {
			if k2 != k {
				junk = append(junk, owner+"/"+k+"/"+k2)
			}
		}
	}
	return useful, junk
}

// c11SatisfyingSets lists the minimal-ish subsets (size <= 3) of useful URIs that satisfy owner's rule.
func c11SatisfyingSets(rules map[string]c11Rule, owner string, useful []string) [][]string {
	var out [][]string
	n := len(useful)
	for mask := 1; mask < 1<<uint(n); mask++ {
		var sub []string
		for i := 0; i < n; i++ {
			if mask&(1<<uint(i)) != 0 {
				sub = append(sub, useful[i])
			}
		}
		if len(sub) <= 3 && c11Ref(rules, owner, sub) {
			out = append(out, sub)
		}
	}
	return out
}

func c11GenChange(rt *rapid.T, p *c11Pipe) (c11PStep, error) {
	st := c11PStep{Op: "change", Kind: "account", Target: "acc"}
	switch rapid.IntRange(0, 11).Draw(rt, "what") {
	case 0, 1:
		st.Target = "X2"
	case 2, 3:
		st.Kind = "method"
	case 4, 5:
		st = c11PStep{Op: "spend", Target: rapid.SampledFrom([]string{"acc", "acc", "X2"}).Draw(rt, "spender")}
	case 6, 7:
		st.Kind = "method2"
	}
	if st.Op == "change" {
		r := c11DrawRule(rt, map[bool]string{true: "acc", false: "X2"}[st.Target == "acc" && st.Kind == "account"], "new")
		st.Rule = &r
	}
	v, err := p.view(st)
	if err != nil {
		return st, err
	}
	useful, junk := c11Candidates(v.owner)
	var uris []string
	pick := func(sets [][]string, label string) bool {
		if len(sets) == 0 {
			return false
		}
		uris = append(uris, sets[rapid.IntRange(0, len(sets)-1).Draw(rt, label)]...)
		return true
	}
	mode := rapid.IntRange(0, 9).Draw(rt, "signers")
	switch {
	case mode < 3: // satisfies the confirmed rule
		pick(c11SatisfyingSets(v.confirmed, v.owner, useful), "satc")
	case mode < 6 && v.hasPending: // satisfies the pending rule
		pick(c11SatisfyingSets(v.pending, v.owner, useful), "satp")
	case mode < 8: // a satisfying set with one signer dropped or moved to a foreign / middle path
		if pick(c11SatisfyingSets(v.confirmed, v.owner, useful), "satd") && len(uris) > 0 {
			i := rapid.IntRange(0, len(uris)-1).Draw(rt, "victim")
			k := c11LastComp(uris[i])
			switch rapid.IntRange(0, 3).Draw(rt, "twist") {
			case 0:
				uris = append(uris[:i:i], uris[i+1:]...)
			case 1:
				uris[i] = "other/" + k
			case 2:
				other := rapid.SampledFrom(c11Keys).Draw(rt, "attacker")
				if other != k {
					uris[i] = uris[i] + "/" + other // the member in the middle, somebody else signs
				}
			default:
				uris[i] = k
			}
		}
	default:
		n := rapid.IntRange(0, 3).Draw(rt, "nrand")
		for i := 0; i < n; i++ {
			uris = append(uris, rapid.SampledFrom(useful).Draw(rt, "ru"))
		}
	}
	// noise: junk URIs, duplicates, order
	for rapid.IntRange(0, 9).Draw(rt, "junk") < 3 && len(uris) < 5 {
		uris = append(uris, rapid.SampledFrom(junk).Draw(rt, "ju"))
	}
	if len(uris) > 0 && rapid.IntRange(0, 9).Draw(rt, "dup") < 2 {
		uris = append(uris, uris[rapid.IntRange(0, len(uris)-1).Draw(rt, "dupi")])
	}
	if len(uris) > 1 {
		uris = rapid.Permutation(uris).Draw(rt, "order")
	}
	for _, u := range uris {
		a := c11Auth{URI: u, Key: c11LastComp(u)}
		if rapid.IntRange(0, 49).Draw(rt, "forge") == 17 {
			a.Key = rapid.SampledFrom(append([]string{"E"}, c11Keys...)).Draw(rt, "forger")
		}
		st.Auth = append(st.Auth, a)
	}
	return st, nil
}

func c11RunPipelineCase(cs *hx.Case, fs *hx.FindingSet) {
	rt := cs.RT()
	p, err := c11NewPipe(fs)
	if err != nil {
		rt.Fatalf("setup: %v", err)
	}
	defer p.nm.Close()
	step := 0
	exec := func(st c11PStep) {
		cs.Op(st)
		if err := p.apply(st); err != nil {
			b, _ := json.Marshal(st)
			cs.Failf("step %d %s: %v", step, b, err)
		}
		step++
	}
	r1 := c11DrawRule(rt, "acc", "acc0")
	r2 := c11DrawRule(rt, "X2", "x20")
	exec(c11PStep{Op: "setup", Rule: &r1, Rule2: &r2})
	n := rapid.IntRange(4, 16).Draw(rt, "steps")
	for i := 0; i < n; i++ {
		m := p.nm.LM.M
		k := rapid.IntRange(0, 99).Draw(rt, "op")
		// a guarded transaction is pending: walks (which re-admit the pool under another confirmed rule) get more weight
		for _, ptx := range p.nm.Pool {
			if _, ok := p.guards[string(ptx.Txid)]; ok && k >= 50 && k < 68 && p.nm.Ptr >= p.base {
				k = 90
				break
			}
		}
		switch {
		case k < 68:
			if p.nm.Ptr < p.base {
				exec(c11PStep{Op: "sync"})
				continue
			}
			st, err := c11GenChange(rt, p)
			if err != nil {
				rt.Fatalf("generator: %v", err)
			}
			if st.Kind == "method2" {
				if kv := p.nm.PoolState().KV[hx.RawKey(aclu.GetContract2AccountBucket(), c11MethodContract2)]; kv == nil || kv.Deleted() {
					// first the (pending) mapping counter2 -> acc, signed so that acc's confirmed rule is satisfied
					cr, cerr := p.confirmedRules()
					if cerr != nil {
						rt.Fatalf("generator: %v", cerr)
					}
					useful, _ := c11Candidates("acc")
					sets := c11SatisfyingSets(cr, "acc", useful)
					if len(sets) == 0 {
						continue
					}
					d := c11PStep{Op: "deploy2"}
					for _, u := range sets[rapid.IntRange(0, len(sets)-1).Draw(rt, "deployers")] {
						d.Auth = append(d.Auth, c11Auth{URI: u, Key: c11LastComp(u)})
					}
					exec(d)
					continue
				}
			}
			if c11Exclude[c11InnerAK] {
				v, _ := p.view(st)
				if v != nil && (c11InnerAKShape(v.confirmed, v.owner, v.verified)) {
					cs.Exclude(c11InnerAK)
					continue
				}
			}
			exec(st)
		case k < 88:
			if p.nm.Ptr != m.Tip {
				exec(c11PStep{Op: "sync"})
			} else {
				exec(c11PStep{Op: "mine"})
			}
		case k < 94:
			main := m.MainChain()
			var cands []int
			for _, b := range main {
				if b >= p.base && b != p.nm.Ptr {
					cands = append(cands, b)
				}
			}
			if len(cands) == 0 {
				exec(c11PStep{Op: "mine"})
			} else {
				exec(c11PStep{Op: "walk", Block: cands[rapid.IntRange(0, len(cands)-1).Draw(rt, "walkto")]})
			}
		default:
			exec(c11PStep{Op: "sync"})
		}
	}
	for _, k := range c11SortedKeys(p.stat) {
		if p.stat[k] > 0 {
			cs.Label(k)
		}
	}
	if p.ntSteps > 0 {
		cs.Nontrivial()
	}
}

// ---------------------------------------------------------------------------------------------
// witnesses
// ---------------------------------------------------------------------------------------------

// c11WitnessInnerAK: rule {A:1, accept 1}; B alone signs as "acc/A/B". Only B's signature is ever
// verified, A contributes nothing: not satisfied.
func c11WitnessInnerAK() (c11Case, error) {
	cs := c11Case{Root: "acc", Rules: map[string]c11Rule{"acc": {Kind: "threshold", M: []c11Member{{"A", 10}}, Accept: 10}}, Signers: []string{"acc/A/B"}}
	return cs, evalC11(cs)
}

func init() {
	replayers["C11/acl-evaluator"] = func(raw json.RawMessage, fs *hx.FindingSet) error {
		var cs c11Case
		if err := json.Unmarshal(raw, &cs); err != nil {
			return err
		}
		return evalC11(cs)
	}
	replayers["C11/witness-"+c11InnerAK] = replayers["C11/acl-evaluator"]
	replayers["C11/acl-pipeline"] = func(raw json.RawMessage, fs *hx.FindingSet) error {
		var steps []c11PStep
		if err := json.Unmarshal(raw, &steps); err != nil {
			return err
		}
		return c11RunPipelineTrace(steps, fs)
	}
}

func TestC11(t *testing.T) {
	c := hx.NewCollector("C11", "exploration",
		"(1) acl-evaluator: the real IdentifyAccount / CheckContractMethodPerm over a stub ACL manager, exhaustively over rules x ordered signer lists, compared with a reference evaluator written from the statement (signer = last URI component; counts only through a path that starts at the evaluated account and walks real membership edges; each member once); on the code alone: same verdict for every list with the same set of URIs (permutation, duplication), no acceptance lost by adding a URI (non-negative weights). Non-trivial = signer list with a duplicate, a foreign-account path or a nested path. (2) acl-pipeline: real node, accounts created through $acl.NewAccount, rule changes SetAccountAcl / SetMethodAcl (and transfers out of an account's own funds) signed by generated signer sets through State.VerifyTx / DoTx, interleaved with own blocks, walks back to an earlier block and forward again, pending rule changes, and method-rule changes of a second contract whose contract->account mapping is only written by a pending transaction (no owner on the confirmed chain: must be refused until a block confirms the mapping); accepted iff the reference evaluator is satisfied under the owning account's rule as of the confirmed chain (rules taken from the reference model's state at the node's confirmed block). Non-trivial = guarded transaction whose signers satisfy exactly one of {confirmed rule, pending rule}, or with a foreign-account / key-in-the-middle URI; distinct = hash of the trace",
		"every signer URI ends in an access key whose signature was verified (verifySignatures checks exactly the last component)",
		"weights are multiples of 0.1 whose float64 sums compare like the exact numbers in every summation order (rules where rounding decides are skipped and counted)",
		"a listed key set is non-empty (the code documents that an empty set never validates)",
		"no stored rule means everyone passes (documented behaviour)")
	defer c.Flush(t)
	fs := hx.LoadFindings()
	regressFixed(t, c, fs, "C11")
	noExclude := os.Getenv("C11_NO_EXCLUDE") == "1"
	{
		cs, err := c11WitnessInnerAK()
		if witnessVerdict(t, c, fs, c11InnerAK, err, cs) && !noExclude {
			c11Exclude[c11InnerAK] = true
		}
	}
	defer debug.SetGCPercent(debug.SetGCPercent(400))
	part := os.Getenv("C11_PART") // development aid: "1" / "2" run one part only
	if part != "2" && c11Enumerate(t, c) > 0 {
		return
	}
	if part != "2" && !t.Failed() {
		c11RunWide(t, c)
	}
	if part == "1" {
		return
	}
	if t.Failed() {
		// rapid refuses a *testing.T that has already failed (an unlisted witness was reported above)
		t.Logf("acl-pipeline not run: a violation was already reported")
		return
	}
	c.Check(t, "acl-pipeline", hx.N(800, 14000), func(cs *hx.Case) {
		c11RunPipelineCase(cs, fs)
	})
}
