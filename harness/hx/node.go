package hx

// node.go: a complete node core assembled in-process on the verifmem storage engine, the way
// kernel/engines/xuperos/chain.go:initChainCtx assembles it (ledger, state, contract manager with
// the xkernel driver only, ACL / govern-token / proposal / timer managers).

import (
	"bytes"
	"encoding/json"
	"fmt"
	"math/big"
	"os"
	"path/filepath"
	"sync"
	"sync/atomic"
	"time"

	ledgerpkg "github.com/xuperchain/xupercore/bcs/ledger/xledger/ledger"
	"github.com/xuperchain/xupercore/bcs/ledger/xledger/state"
	sctxpkg "github.com/xuperchain/xupercore/bcs/ledger/xledger/state/context"
	txn "github.com/xuperchain/xupercore/bcs/ledger/xledger/tx"
	pb "github.com/xuperchain/xupercore/bcs/ledger/xledger/xldgpb"
	"github.com/xuperchain/xupercore/kernel/common/xaddress"
	xconf "github.com/xuperchain/xupercore/kernel/common/xconfig"
	"github.com/xuperchain/xupercore/kernel/contract"
	_ "github.com/xuperchain/xupercore/kernel/contract/kernel"
	_ "github.com/xuperchain/xupercore/kernel/contract/manager"
	governToken "github.com/xuperchain/xupercore/kernel/contract/proposal/govern_token"
	"github.com/xuperchain/xupercore/kernel/contract/proposal/propose"
	timerTask "github.com/xuperchain/xupercore/kernel/contract/proposal/timer"
	"github.com/xuperchain/xupercore/kernel/engines/xuperos"
	"github.com/xuperchain/xupercore/kernel/engines/xuperos/agent"
	"github.com/xuperchain/xupercore/kernel/engines/xuperos/common"
	engconf "github.com/xuperchain/xupercore/kernel/engines/xuperos/config"
	"github.com/xuperchain/xupercore/kernel/engines/xuperos/miner"
	"github.com/xuperchain/xupercore/kernel/permission/acl"
	actx "github.com/xuperchain/xupercore/kernel/permission/acl/context"
	"github.com/xuperchain/xupercore/lib/logs"
	"github.com/xuperchain/xupercore/lib/timer"
)

const BCName = "xuper"

var (
	confOnce sync.Once
	baseConf *xconf.EnvConf
	caseSeq  int64
)

// BaseConf prepares (once per process) a root directory with conf files and initialises logging.
func BaseConf() *xconf.EnvConf {
	confOnce.Do(func() {
		root := filepath.Join(OutDir(), fmt.Sprintf("root-%d", os.Getpid()))
		os.MkdirAll(filepath.Join(root, "conf"), 0755)
		os.WriteFile(filepath.Join(root, "conf", "ledger.yaml"),
			[]byte("kvEngineType: verifmem\nstorageType: single\nutxo:\n  cachesize: 1000\n  tmplockSeconds: 60\n"), 0644)
		level := "error"
		if l := os.Getenv("VERIF_LOGLEVEL"); l != "" {
			level = l // debugging aid: the node's own log under <out>/root-<pid>/logs
		}
		os.WriteFile(filepath.Join(root, "conf", "log.yaml"),
			[]byte("module: verif\nfilename: verif\nfmt: logfmt\nconsole: false\nlevel: "+level+"\n"), 0644)
		econf := xconf.GetDefEnvConf()
		econf.RootPath = root
		logs.InitLog(econf.GenConfFilePath(econf.LogConf), econf.GenDirAbsPath(econf.LogDir))
		baseConf = econf
	})
	return baseConf
}

// NodeOpts are the genesis-level options of a generated node.
type NodeOpts struct {
	Window       int64   // irreversibleslidewindow
	NoFee        bool    // genesis nofee
	Award        int64   // block award
	Quota        int64   // predistribution per ring address
	QuotaStr     string  // if set: decimal predistribution (amounts beyond 64 bit)
	DecayGap     int64   // award_decay.height_gap (0: the default, practically no decay)
	DecayRatio   float64 // award_decay.ratio
	PredistN     int     // number of ring addresses funded at genesis
	MaxBlockSize int     // MB
	// GenesisFault > 0: the n-th storage write of the FIRST play of the root block fails; the play is then repeated
	GenesisFault int   `json:",omitempty"`
	NewAccGas    int64 // new_account_resource_amount
	NoLog        bool  // do not keep a write log (replicas)
	GasPrice     [4]int64
	// UtxoCache > 0: capacity of the state machine's output / balance / previous-key caches (ledger.yaml utxo.cachesize,
	// default 1000 - never reached by a generated history); 1-4 makes every history run at and beyond capacity
	UtxoCache int `json:",omitempty"`
}

// DefaultOpts gives a small chain funded for the first 5 ring keys.
func DefaultOpts() NodeOpts {
	return NodeOpts{Window: 0, Award: 1000, Quota: 1000000, PredistN: 5, MaxBlockSize: 16, NewAccGas: 1000,
		GasPrice: [4]int64{1000, 1000000, 1, 1}}
}

// GenesisJSON renders the genesis configuration.
func (o NodeOpts) GenesisJSON() []byte {
	type pd struct {
		Address string `json:"address"`
		Quota   string `json:"quota"`
	}
	pds := []pd{}
	for i := 0; i < o.PredistN; i++ {
		q := fmt.Sprint(o.Quota)
		if o.QuotaStr != "" {
			q = o.QuotaStr
		}
		pds = append(pds, pd{Ring[i].Address, q})
	}
	g := map[string]interface{}{
		"version":         "1",
		"predistribution": pds,
		"maxblocksize":    fmt.Sprint(o.MaxBlockSize),
		"award":           fmt.Sprint(o.Award),
		"decimals":        "8",
		"award_decay":     o.awardDecay(),
		"gas_price": map[string]interface{}{"cpu_rate": o.GasPrice[0], "mem_rate": o.GasPrice[1],
			"disk_rate": o.GasPrice[2], "xfee_rate": o.GasPrice[3]},
		"new_account_resource_amount": o.NewAccGas,
		"irreversibleslidewindow":     fmt.Sprint(o.Window),
		"nofee":                       o.NoFee,
		"genesis_consensus": map[string]interface{}{"name": "single",
			"config": map[string]interface{}{"miner": Ring[0].Address, "period": 3000}},
	}
	b, _ := json.Marshal(g)
	return b
}

func (o NodeOpts) awardDecay() map[string]interface{} {
	if o.DecayGap > 0 {
		return map[string]interface{}{"height_gap": o.DecayGap, "ratio": o.DecayRatio}
	}
	return map[string]interface{}{"height_gap": 31536000, "ratio": 1}
}

// FreshAward is CalcAward(height) as a node without any history computes it (a new GenesisBlock
// object built from the genesis configuration).
func (n *Node) FreshAward(height int64) *big.Int {
	gb, err := ledgerpkg.NewGenesisBlock(n.Genesis)
	if err != nil {
		return big.NewInt(-1)
	}
	return gb.CalcAward(height)
}

// Node is one in-process node core.
type Node struct {
	Name     string
	Opts     NodeOpts
	Conf     *xconf.EnvConf
	World    *World
	Ledger   *ledgerpkg.Ledger
	State    *state.State
	Contract contract.Manager
	Ctx      *common.ChainCtx
	Chain    *xuperos.Chain // real PreExec / SubmitTx (verif hook constructor)
	Miner    *miner.Miner   // real packBlock (verif hook)
	Net      *SyncNet       // scripted peer network behind EngCtx.Net (block synchronisation path)
	Cons     *SyncConsensus // scripted consensus behind Ctx.Consensus
	Genesis  []byte
	// GenesisFaultFired: the injected write error of NodeOpts.GenesisFault hit the first play of the root block
	GenesisFaultFired bool
	Root              *pb.InternalBlock
	closed            bool
}

func worldDir(conf *xconf.EnvConf) string {
	return filepath.Join(conf.GenDataAbsPath(conf.ChainDir), BCName)
}

// NewNode creates a fresh chain (genesis confirmed and played).
func NewNode(opts NodeOpts) (*Node, error) {
	base := BaseConf()
	conf := *base
	conf.ChainDir = fmt.Sprintf("chain-%d", atomic.AddInt64(&caseSeq, 1))
	n := &Node{Name: conf.ChainDir, Opts: opts, Conf: &conf, Genesis: opts.GenesisJSON()}
	n.World = GetWorld(worldDir(&conf))
	if opts.NoLog {
		n.World.SetLogging(false)
	}
	lctx, err := ledgerpkg.NewLedgerCtx(&conf, BCName)
	if err != nil {
		return nil, err
	}
	leg, err := ledgerpkg.CreateLedger(lctx, n.Genesis)
	if err != nil {
		return nil, err
	}
	n.Ledger = leg
	rootTx, err := txn.GenerateRootTx(n.Genesis)
	if err != nil {
		return nil, err
	}
	blk, err := leg.FormatRootBlock([]*pb.Transaction{rootTx})
	if err != nil {
		return nil, err
	}
	if st := leg.ConfirmBlock(blk, true); !st.Succ {
		return nil, fmt.Errorf("confirm root block failed: %v", st.Error)
	}
	n.Root = blk
	if err := n.openState(); err != nil {
		return nil, err
	}
	if opts.GenesisFault > 0 {
		// the very first play of the root block hits a storage write error (the n-th write from its start) and is
		// retried on the same State object, as a node whose disk hiccups during initialisation does
		n.World.FailNthWrite(opts.GenesisFault)
		perr := n.State.Play(blk.Blockid)
		WaitAsync()
		if pending := n.World.Disarm(); !pending {
			n.GenesisFaultFired = true
		}
		if perr == nil && bytes.Equal(n.State.GetLatestBlockid(), blk.Blockid) {
			return n, nil
		}
	}
	if err := n.State.Play(blk.Blockid); err != nil {
		return nil, fmt.Errorf("play root: %v", err)
	}
	return n, nil
}

// OpenNodeOn opens ledger + state on an existing world directory (reopen / crash image).
func OpenNodeOn(conf *xconf.EnvConf, opts NodeOpts) (*Node, error) {
	n := &Node{Name: conf.ChainDir, Opts: opts, Conf: conf, Genesis: opts.GenesisJSON()}
	n.World = GetWorld(worldDir(conf))
	lctx, err := ledgerpkg.NewLedgerCtx(conf, BCName)
	if err != nil {
		return nil, err
	}
	leg, err := ledgerpkg.OpenLedger(lctx)
	if err != nil {
		return nil, fmt.Errorf("open ledger: %v", err)
	}
	n.Ledger = leg
	if err := n.openState(); err != nil {
		leg.Close()
		return nil, err
	}
	if len(leg.GetMeta().RootBlockid) > 0 {
		n.Root, _ = leg.QueryBlock(leg.GetMeta().RootBlockid)
	}
	return n, nil
}

func (n *Node) openState() error {
	sctx, err := sctxpkg.NewStateCtx(n.Conf, BCName, n.Ledger, Crypt)
	if err != nil {
		return err
	}
	if n.Opts.UtxoCache > 0 {
		cfgCopy := *sctx.LedgerCfg
		cfgCopy.Utxo.CacheSize = n.Opts.UtxoCache
		sctx.LedgerCfg = &cfgCopy
	}
	st, err := state.NewState(sctx)
	if err != nil {
		return fmt.Errorf("new state: %v", err)
	}
	n.State = st
	log, _ := logs.NewLogger("", "verif")
	cctx := &common.ChainCtx{}
	cctx.XLog = log
	cctx.Timer = timer.NewXTimer()
	cctx.BCName = BCName
	cctx.EngCtx = &common.EngineCtx{EnvCfg: n.Conf, EngCfg: engconf.GetDefEngineConf()}
	cctx.EngCtx.XLog = log
	cctx.EngCtx.Timer = timer.NewXTimer()
	cctx.Ledger = n.Ledger
	cctx.State = st
	cctx.Crypto = Crypt
	n.Ctx = cctx
	mg, err := contract.CreateManager("default", &contract.ManagerConfig{
		BCName: BCName, Basedir: filepath.Join(n.Conf.GenDataAbsPath(n.Conf.ChainDir), BCName),
		Core: agent.NewChainCoreAgent(cctx), XMReader: st.CreateXMReader(),
		Config: &contract.ContractConfig{Xkernel: contract.XkernelConfig{Enable: true, Driver: "default"}},
	})
	if err != nil {
		return fmt.Errorf("contract manager: %v", err)
	}
	n.Contract = mg
	cctx.Contract = mg
	st.SetContractMG(mg)
	legAgent := agent.NewLedgerAgent(cctx)
	ac, err := actx.NewAclCtx(BCName, legAgent, mg)
	if err != nil {
		return err
	}
	aclm, err := acl.NewACLManager(ac)
	if err != nil {
		return fmt.Errorf("acl manager: %v", err)
	}
	cctx.Acl = aclm
	st.SetAclMG(aclm)
	gctx, err := governToken.NewGovCtx(BCName, legAgent, mg)
	if err != nil {
		return err
	}
	gov, err := governToken.NewGovManager(gctx)
	if err != nil {
		return fmt.Errorf("gov manager: %v", err)
	}
	cctx.GovernToken = gov
	st.SetGovernTokenMG(gov)
	pctx, err := propose.NewProposeCtx(BCName, legAgent, mg)
	if err != nil {
		return err
	}
	prop, err := propose.NewProposeManager(pctx)
	if err != nil {
		return fmt.Errorf("propose manager: %v", err)
	}
	cctx.Proposal = prop
	st.SetProposalMG(prop)
	tctx, err := timerTask.NewTimerTaskCtx(BCName, legAgent, mg)
	if err != nil {
		return err
	}
	tm, err := timerTask.NewTimerTaskManager(tctx)
	if err != nil {
		return fmt.Errorf("timer manager: %v", err)
	}
	cctx.TimerTask = tm
	st.SetTimerTaskMG(tm)
	RegisterVerifContracts(mg)
	mk := Ring[MinerKey]
	cctx.Address = &xaddress.Address{Address: mk.Address, PrivateKey: mk.Priv, PrivateKeyStr: mk.PrvJSON, PublicKey: &mk.Priv.PublicKey, PublicKeyStr: mk.PubJSON}
	n.Chain = xuperos.VerifNewChain(cctx)
	// the collaborators of Miner.ProcBlock / trySyncBlock: a scripted peer network and a scripted consensus
	n.Net = NewSyncNet()
	n.Cons = NewSyncConsensus()
	cctx.EngCtx.Net = n.Net
	cctx.Consensus = n.Cons
	n.Miner = miner.NewMiner(cctx)
	return nil
}

// MinerKey is the ring index of the node's own miner address (never used as a payer by generators).
const MinerKey = 7

// Close closes both databases (the world's storages stay, so the node can be reopened).
func (n *Node) Close() {
	if n.closed {
		return
	}
	n.closed = true
	WaitAsync()
	n.State.Close()
	n.Ledger.Close()
}

// Reopen closes and reopens ledger and state on the same storages.
func (n *Node) Reopen() error {
	n.Close()
	nn, err := OpenNodeOn(n.Conf, n.Opts)
	if err != nil {
		return err
	}
	root := n.Root
	*n = *nn
	if n.Root == nil {
		n.Root = root
	}
	return nil
}

// Destroy closes the node and drops its storages.
func (n *Node) Destroy() {
	n.Close()
	DropWorld(worldDir(n.Conf))
}

// MinerStartSync runs the node's REAL miner loop (Miner.Start) until it has brought the state machine in line with the
// ledger and asks the consensus for its turn (first CompeteMaster call of the stub consensus), then stops it. This is
// what a restarted node does before anything else.
func (n *Node) MinerStartSync(wait time.Duration) error {
	if n.Miner == nil || n.Cons == nil {
		return fmt.Errorf("harness: node without miner")
	}
	ch := make(chan struct{}, 1)
	n.Cons.OnCompete = ch
	go n.Miner.Start()
	var err error
	select {
	case <-ch:
	case <-time.After(wait):
		err = fmt.Errorf("the miner loop did not get past its start-up synchronisation within %v", wait)
	}
	n.Miner.Stop()
	n.Cons.OnCompete = nil
	return err
}

// OpenImage opens a second node on the disk image made of the first k records of the write log.
func (n *Node) OpenImage(k int) (*Node, error) {
	conf := *n.Conf
	conf.ChainDir = fmt.Sprintf("%s-img-%d", n.Conf.ChainDir, atomic.AddInt64(&caseSeq, 1))
	if _, err := n.World.ImageAt(k, worldDir(&conf)); err != nil {
		return nil, err
	}
	return OpenNodeOn(&conf, n.Opts)
}

// LedgerOnly is a ledger without state machine (ledger-level machines, 10x cheaper).
type LedgerOnly struct {
	Conf   *xconf.EnvConf
	World  *World
	Ledger *ledgerpkg.Ledger
	Root   *pb.InternalBlock
}

// NewLedgerOnly creates a ledger with a confirmed genesis block.
func NewLedgerOnly(opts NodeOpts) (*LedgerOnly, error) {
	base := BaseConf()
	conf := *base
	conf.ChainDir = fmt.Sprintf("lchain-%d", atomic.AddInt64(&caseSeq, 1))
	lo := &LedgerOnly{Conf: &conf}
	lo.World = GetWorld(worldDir(&conf))
	lctx, err := ledgerpkg.NewLedgerCtx(&conf, BCName)
	if err != nil {
		return nil, err
	}
	gen := opts.GenesisJSON()
	leg, err := ledgerpkg.CreateLedger(lctx, gen)
	if err != nil {
		return nil, err
	}
	lo.Ledger = leg
	rootTx, err := txn.GenerateRootTx(gen)
	if err != nil {
		return nil, err
	}
	blk, err := leg.FormatRootBlock([]*pb.Transaction{rootTx})
	if err != nil {
		return nil, err
	}
	if st := leg.ConfirmBlock(blk, true); !st.Succ {
		return nil, fmt.Errorf("confirm root block failed: %v", st.Error)
	}
	lo.Root = blk
	return lo, nil
}

// Reopen closes and reopens the ledger on the same storage.
func (lo *LedgerOnly) Reopen() error {
	lo.Ledger.Close()
	lctx, err := ledgerpkg.NewLedgerCtx(lo.Conf, BCName)
	if err != nil {
		return err
	}
	leg, err := ledgerpkg.OpenLedger(lctx)
	if err != nil {
		return err
	}
	lo.Ledger = leg
	return nil
}

// OpenImage opens a second ledger on the image of the first k write-log records.
func (lo *LedgerOnly) OpenImage(k int) (*LedgerOnly, error) {
	conf := *lo.Conf
	conf.ChainDir = fmt.Sprintf("%s-img-%d", lo.Conf.ChainDir, atomic.AddInt64(&caseSeq, 1))
	if _, err := lo.World.ImageAt(k, worldDir(&conf)); err != nil {
		return nil, err
	}
	lctx, err := ledgerpkg.NewLedgerCtx(&conf, BCName)
	if err != nil {
		return nil, err
	}
	leg, err := ledgerpkg.OpenLedger(lctx)
	if err != nil {
		return nil, err
	}
	return &LedgerOnly{Conf: &conf, World: GetWorld(worldDir(&conf)), Ledger: leg, Root: lo.Root}, nil
}

// Destroy closes the ledger and drops its storage.
func (lo *LedgerOnly) Destroy() {
	lo.Ledger.Close()
	DropWorld(worldDir(lo.Conf))
}
