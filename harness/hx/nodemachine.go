package hx

// nodemachine.go: the node-level state machine shared by C01, C02, C03, C05, C06, C17, C18:
// operations as plain data, executed against a real node (ledger + state + contracts) and against
// the reference model; oracles compare every state observable with the model after every step.

import (
	"bytes"
	"crypto/sha256"
	"encoding/hex"
	"errors"
	"fmt"
	"math/big"
	"os"
	"sort"
	"strings"
	"time"

	"github.com/golang/protobuf/proto"

	ledgerpkg "github.com/xuperchain/xupercore/bcs/ledger/xledger/ledger"
	"github.com/xuperchain/xupercore/bcs/ledger/xledger/state/utxo"
	"github.com/xuperchain/xupercore/bcs/ledger/xledger/state/utxo/txhash"
	pb "github.com/xuperchain/xupercore/bcs/ledger/xledger/xldgpb"
	"github.com/xuperchain/xupercore/protos"
)

// NOp is one operation of the node machine.
type NOp struct {
	Op       string   `json:"op"` // tx | mine | peer | sync | walk | play | reopen | truncate
	Tx       *TxSpec  `json:"tx,omitempty"`
	Label    string   `json:"label,omitempty"`
	Parent   int      `json:"parent,omitempty"`
	Txs      []TxSpec `json:"txs,omitempty"`
	Pool     []string `json:"pool,omitempty"` // peer: txids (hex) of pool transactions to include
	Proposer int      `json:"proposer,omitempty"`
	TwoCB    bool     `json:"twocb,omitempty"`
	Target   int      `json:"target,omitempty"`
	Prune    bool     `json:"prune,omitempty"`
	Expect   string   `json:"expect,omitempty"`   // informational: what the generator intended
	BuildAt  *int     `json:"buildat,omitempty"`  // tx: assemble against the state after this block (stale candidates)
	AwardAdd int64    `json:"awardadd,omitempty"` // peer: award = CalcAward(height) + AwardAdd (adversarial)
	// CBIn (peer, adversarial): the award transaction (right award in output 0) also cites somebody's unspent output
	// as an input; 2 = and pays its amount to the proposer in a second output
	// 3 = the award transaction carries an unrequested key write (TxInputsExt / TxOutputsExt on $verif/a)
	// 4 = the award transaction has a second output (accepted by HEAD's award rule, which reads output 0 only: a VALID
	// block whose award mints two outputs - both count into the total and are undone with the block)
	// 6 / 7 = the award output itself / a further output of the award transaction is addressed to the fee placeholder "$"
	CBIn int `json:"cbin,omitempty"`
	// TxMut (peer, adversarial): the first generated transaction of the block is changed after it was built:
	// "autogen" (plain transfer only: Autogen flag set, signatures removed), "nosig" (signatures removed),
	// "othersig" (signed by another key whose public key is stated), txid recomputed each time
	TxMut string `json:"txmut,omitempty"`
	// TreeLeaf (peer, adversarial): the block's body, merkle root, id and signature are untouched, but the merkle tree
	// it carries (from whose leaves the ledger rebuilds the body on every later read) names other transactions:
	// 1 = the last leaf is an id nobody knows, 2 = the last two leaves are swapped, 3 = the last leaf is the id of the
	// parent's award transaction. The block must be refused (it is not what its root commits to)
	TreeLeaf int `json:"treeleaf,omitempty"`
	// PresetNext (peer): the block arrives with a NextHash already filled in (a field outside id and signature that the
	// ledger maintains itself); the block is otherwise genuine and valid
	PresetNext bool `json:"presetnext,omitempty"`
	// PoolMut (peer, adversarial): the first pending transaction the block includes (op.Pool) is carried with an altered
	// body - first output paid to somebody else - under its ORIGINAL txid and signatures
	PoolMut bool `json:"poolmut,omitempty"`
	// PoolForce (peer, adversarial): the listed pending transactions are carried even when they are no longer valid
	// after the block's other transactions (a pending transaction whose read set the block itself has made stale)
	PoolForce bool     `json:"poolforce,omitempty"`
	Old       []string `json:"old,omitempty"`   // peer: txids (hex) of already confirmed transactions to re-include
	TxsAt     *int     `json:"txsat,omitempty"` // peer: assemble the block's transactions against the state after this block (adversarial)
}

// NodeMachine couples a real node with the reference model.
type NodeMachine struct {
	N        *Node
	LM       *LedgerMachine
	FS       *FindingSet
	BlockTxs map[int][]*pb.Transaction // pristine transactions per model block
	States   map[int]*MState           // state after each (state-valid) block
	Valid    map[int]bool              // block is state-valid (replays on its parent's state)
	WhyNot   map[int]string            // why the model considers a stored block invalid
	Ptr      int                       // model's state pointer (block index)
	Pool     []*pb.Transaction         // admitted, in admission order
	Seq      int
	Window   int64
	Irrev    int64
	IrrevBlk int             // model index of the block applied at the irreversible height (-1: none yet)
	KeyUniv  map[string]bool // raw keys ever written or read by generated programs
	AddrUniv []string
	// statistics for non-triviality rules / labels
	Stat map[string]int
	// Unauth: ids of generated transactions that are NOT properly authorised (signature removed / foreign key /
	// flag mutants): a block re-using one of them is invalid although the model state would admit its effects
	Unauth map[string]bool
	// Altered: stored copies (by pointer) of transactions a block carried with an altered body under the original id
	Altered map[*pb.Transaction]bool
	// walkFn, when set, performs the state walk of the current operation instead of State.Walk (the truncate op goes
	// through the miner's real truncateForMiner, which walks and then truncates the ledger)
	walkFn func(target []byte, prune bool) error
	// CheckFresh: compare with a freshly replayed node after walks and at the end
	Specs       map[string]TxSpec // every spec submitted through a "tx" op, by txid
	LastOutcome string
	LastUndo    int // number of blocks the last walk had to undo
}

// NewNodeMachine creates node + model. The genesis block is played.
func NewNodeMachine(opts NodeOpts, fs *FindingSet) (*NodeMachine, error) {
	n, err := NewNode(opts)
	if err != nil {
		return nil, err
	}
	nm := &NodeMachine{N: n, FS: fs, BlockTxs: map[int][]*pb.Transaction{}, States: map[int]*MState{}, Valid: map[int]bool{}, WhyNot: map[int]string{},
		Seq: 100, IrrevBlk: -1, Window: opts.Window, KeyUniv: map[string]bool{}, Stat: map[string]int{}, Specs: map[string]TxSpec{}, Unauth: map[string]bool{}, Altered: map[*pb.Transaction]bool{}}
	nm.LM = NewLedgerMachineOn(func() *ledgerpkg.Ledger { return nm.N.Ledger }, n.Root, fs)
	s := NewMState()
	root := CloneTxs(n.Root.Transactions)
	for _, tx := range root {
		s.Apply(tx, "")
	}
	nm.BlockTxs[0] = root
	nm.States[0] = s
	nm.Valid[0] = true
	for i := 0; i < RingSize; i++ {
		nm.AddrUniv = append(nm.AddrUniv, Ring[i].Address)
	}
	nm.AddrUniv = append(nm.AddrUniv, VerifContract, VerifContract2)
	return nm, nil
}

func (nm *NodeMachine) Close() { nm.N.Destroy() }

// PoolState is the model state the next pool submission sees.
func (nm *NodeMachine) PoolState() *MState {
	s := nm.States[nm.Ptr].Clone()
	for _, tx := range nm.Pool {
		s.Apply(tx, "")
	}
	return s
}

func (nm *NodeMachine) ledgerHeight() int64 { return nm.LM.M.Blocks[nm.LM.M.Tip].Height }

func (nm *NodeMachine) noteKeys(prog []Ins, self string) {
	for _, in := range prog {
		b := in.B
		if b == "" {
			b = self
		}
		for _, k := range []string{in.K, in.K2, in.V} {
			if k != "" && (in.Op == "get" || in.Op == "put" || in.Op == "del" || in.Op == "putfrom" || (in.Op == "scan" && k == in.V)) {
				nm.KeyUniv[RawKey(b, k)] = true
			}
		}
		if in.Op == "putfrom" {
			nm.KeyUniv[RawKey(b, in.K2)] = true
		}
		if in.Op == "call" {
			nm.noteKeys(in.Prog, VerifContract2)
		}
	}
}

// buildOn assembles the transaction of spec against model state s. live=true pre-executes the
// program over the node's live XMReader (pool submissions), otherwise over the model reader.
func (nm *NodeMachine) buildOn(spec *TxSpec, s *MState, live bool) (*pb.Transaction, *PreExecResult) {
	var pre *PreExecResult
	if spec.IsContract() {
		cname := spec.Contract
		if cname == "" {
			cname = VerifContract
		}
		nm.noteKeys(spec.Prog, cname)
		xr := s.Reader()
		if live {
			xr = nm.N.State.CreateXMReader()
		}
		pre = PreExecOn(nm.N.Contract, spec, xr, &modelUtxoReader{s: s, height: nm.ledgerHeight()}, nm.N.State.GetMeta().GetGasPrice())
		if pre.Err != nil {
			return nil, pre
		}
	}
	return BuildTx(spec, pre), pre
}

// BuildOnModel assembles spec's transaction against a model state (generator look-ahead).
func (nm *NodeMachine) BuildOnModel(spec *TxSpec, s *MState) (*pb.Transaction, *PreExecResult) {
	return nm.buildOn(spec, s, false)
}

// Apply executes one operation on node and model and checks the operation's own result.
func (nm *NodeMachine) Apply(op NOp) error {
	n := nm.N
	m := nm.LM.M
	nm.LastOutcome = ""
	switch op.Op {
	case "tx":
		s := nm.PoolState()
		var tx *pb.Transaction
		var pre *PreExecResult
		if op.BuildAt != nil && *op.BuildAt >= 0 && *op.BuildAt < len(m.Blocks) && nm.States[*op.BuildAt] != nil {
			tx, pre = nm.buildOn(op.Tx, nm.States[*op.BuildAt], false)
			nm.Stat["tx-built-on-old-state"]++
		} else {
			tx, pre = nm.buildOn(op.Tx, s, true)
		}
		if tx != nil {
			nm.Specs[hex.EncodeToString(tx.Txid)] = *op.Tx
		}
		if tx == nil {
			nm.LastOutcome = "preexec-failed"
			nm.Stat["preexec-failed"]++
			_ = pre
			return nil
		}
		want := s.Check(tx, nm.ledgerHeight())
		if want == nil && tx.Coinbase {
			want = fmt.Errorf("coinbase transaction submitted to the pool")
		}
		if want == nil && len(tx.TxInputs) == 0 && !nm.N.Opts.NoFee {
			want = fmt.Errorf("no inputs") // Chain.SubmitTx refuses it; the state layer need not
			nm.LastOutcome = "skipped"
			return nil
		}
		sub := CloneTx(tx)
		ok, verr := n.State.VerifyTx(sub)
		var derr error
		accepted := false
		if ok && verr == nil {
			derr = n.State.DoTx(sub)
			accepted = derr == nil
		}
		if want == nil && !accepted {
			return fmt.Errorf("transaction %s refused (verify=%v/%v dotx=%v) although the model finds every input current: %s", Hex8(tx.Txid), ok, verr, derr, DescribeTx(tx))
		}
		if want != nil && accepted {
			return fmt.Errorf("transaction %s admitted although the model refuses it (%v): %s", Hex8(tx.Txid), want, DescribeTx(tx))
		}
		if accepted {
			nm.Pool = append(nm.Pool, tx)
			nm.LastOutcome = "admitted"
			nm.Stat["tx-admitted"]++
		} else {
			nm.LastOutcome = "refused"
			nm.Stat["tx-refused"]++
			if errors.Is(want, ErrStale) {
				nm.Stat["tx-refused-stale"]++
			}
		}
	case "txbatch":
		// several candidates assembled against the same pending state are all verified first and
		// only then applied one after the other (what concurrent clients do): DoTx must judge each
		// against the state the earlier ones left
		s0 := nm.PoolState()
		var built []*pb.Transaction
		for i := range op.Txs {
			tx, _ := nm.buildOn(&op.Txs[i], s0, true)
			if tx == nil {
				continue
			}
			sub := CloneTx(tx)
			ok, verr := n.State.VerifyTx(sub)
			want := s0.Check(tx, nm.ledgerHeight())
			if (ok && verr == nil) != (want == nil) {
				return fmt.Errorf("VerifyTx(%s)=%v/%v, model verdict on the pending state: %v", Hex8(tx.Txid), ok, verr, want)
			}
			if ok && verr == nil {
				built = append(built, tx)
			}
		}
		for _, tx := range built {
			want := nm.PoolState().Check(tx, nm.ledgerHeight())
			derr := n.State.DoTx(CloneTx(tx))
			if want == nil && derr != nil {
				return fmt.Errorf("DoTx(%s) refused (%v) although every input is current: %s", Hex8(tx.Txid), derr, DescribeTx(tx))
			}
			if want != nil && derr == nil {
				return fmt.Errorf("DoTx(%s) admitted a verified transaction whose inputs are no longer current (%v): %s", Hex8(tx.Txid), want, DescribeTx(tx))
			}
			if derr == nil {
				nm.Pool = append(nm.Pool, tx)
				nm.Stat["tx-admitted"]++
			} else {
				nm.Stat["tx-refused"]++
				nm.Stat["batch-tx-refused-at-dotx"]++
				if errors.Is(want, ErrStale) {
					nm.Stat["tx-refused-stale"]++
				}
			}
		}
	case "mine":
		if nm.Ptr != m.Tip {
			nm.LastOutcome = "skipped"
			return nil // the miner always walks to the ledger tip first; generator emits sync before
		}
		parent := nm.Ptr
		height := m.Blocks[parent].Height + 1
		nm.LM.Ts++
		prop := Ring[op.Proposer]
		pooltxs, err := n.State.GetUnconfirmedTx(false)
		if err != nil {
			return fmt.Errorf("GetUnconfirmedTx: %v", err)
		}
		if err := nm.samePoolSet(pooltxs); err != nil {
			return err
		}
		if a, f := n.Ledger.GenesisBlock.CalcAward(height), n.FreshAward(height); a.Cmp(f) != 0 {
			return fmt.Errorf("CalcAward(%d)=%s on the running node, %s on a node without history", height, a, f)
		}
		txs := []*pb.Transaction{AwardTx(prop.Address, n.Ledger.GenesisBlock.CalcAward(height), "award-"+op.Label, nm.LM.Ts)}
		if auto, err := n.State.GetTimerTx(height); err == nil && auto != nil && len(auto.TxOutputsExt) > 0 {
			txs = append(txs, auto)
		}
		txs = append(txs, pooltxs...)
		blk, err := n.Ledger.FormatMinerBlock(txs, []byte(prop.Address), prop.Priv, nm.LM.Ts, 0, 0, n.State.GetLatestBlockid(), 0, n.State.GetTotal(), nil, nil, height)
		if err != nil {
			return fmt.Errorf("FormatMinerBlock: %v", err)
		}
		pristine := CloneTxs(txs)
		stored, err := nm.LM.ConfirmPrepared(op.Label, parent, blk, false)
		if err != nil {
			return err
		}
		if !stored {
			return fmt.Errorf("own block %s was not stored", op.Label)
		}
		idx := len(m.Blocks) - 1
		ns := nm.States[parent].Clone()
		for _, tx := range pristine {
			ns.Apply(tx, prop.Address)
		}
		nm.BlockTxs[idx] = pristine
		nm.States[idx] = ns
		nm.Valid[idx] = true
		if err := n.State.PlayForMiner(blk.Blockid); err != nil {
			return fmt.Errorf("PlayForMiner(%s): %v", op.Label, err)
		}
		nm.Ptr = idx
		nm.Pool = nil
		nm.applied(idx)
		nm.Stat["mine"]++
		if len(pristine) > 1 {
			nm.Stat["mine-with-pool"]++
		}
	case "minereal":
		// the node's own block through the real Miner.packBlock (award, timer tx, pool order)
		if nm.Ptr != m.Tip {
			nm.LastOutcome = "skipped"
			return nil
		}
		parent := nm.Ptr
		height := m.Blocks[parent].Height + 1
		nm.LM.Ts++
		if err := nm.CheckPoolGraph(); err != nil {
			return err
		}
		for i := 0; i < 3; i++ { // map iteration order differs from call to call
			order, err := n.State.GetUnconfirmedTx(false)
			if err != nil {
				return fmt.Errorf("GetUnconfirmedTx: %v", err)
			}
			if err := nm.samePoolSet(order); err != nil {
				return err
			}
			if err := orderApplies(nm.States[parent], order, nm.ledgerHeight()); err != nil {
				return fmt.Errorf("the order yielded by the pool is not executable: %v", err)
			}
		}
		blk, err := n.Miner.VerifPackBlock(n.Ctx, height, time.Unix(0, nm.LM.Ts*1000000), nil)
		if err != nil {
			return fmt.Errorf("packBlock: %v", err)
		}
		if ok, _ := n.Ledger.VerifyBlock(blk, ""); !ok {
			return fmt.Errorf("VerifyBlock refuses the block the node packed")
		}
		ncb := 0
		for i, tx := range blk.Transactions {
			if !n.Ledger.IsValidTx(i, tx, blk) {
				return fmt.Errorf("IsValidTx refuses transaction %d of the block the node packed", i)
			}
			if tx.Coinbase {
				ncb++
				if i != 0 {
					return fmt.Errorf("coinbase at position %d of the packed block", i)
				}
			}
			if tx.Autogen && i != 1 {
				return fmt.Errorf("timer transaction at position %d of the packed block", i)
			}
		}
		if ncb != 1 {
			return fmt.Errorf("packed block has %d coinbase transactions", ncb)
		}
		if aw := new(big.Int).SetBytes(blk.Transactions[0].TxOutputs[0].Amount); aw.Cmp(n.FreshAward(height)) != 0 {
			return fmt.Errorf("packed block awards %s, a node without history computes CalcAward(%d)=%s (IsValidTx there rejects the block)", aw, height, n.FreshAward(height))
		}
		pristine := CloneTxs(blk.Transactions)
		var general []*pb.Transaction
		for _, tx := range pristine {
			if !tx.Coinbase && !tx.Autogen {
				general = append(general, tx)
			}
		}
		// the body is a sub-list of the pool (all of it unless the size limit cut it)
		pending := map[string]bool{}
		for _, t := range nm.Pool {
			pending[string(t.Txid)] = true
		}
		packed := map[string]bool{}
		for _, t := range general {
			if !pending[string(t.Txid)] || packed[string(t.Txid)] {
				return fmt.Errorf("packed block carries %s which is not pending (or twice)", Hex8(t.Txid))
			}
			packed[string(t.Txid)] = true
		}
		if len(general) < len(nm.Pool) {
			nm.Stat["minereal-cut-by-size-limit"]++
			var size int
			for _, t := range nm.Pool {
				size += proto.Size(t)
			}
			if lim, _ := n.State.MaxTxSizePerBlock(); size <= lim {
				return fmt.Errorf("packed block carries %d of %d pending transactions although all of them (%d bytes) fit the limit %d", len(general), len(nm.Pool), size, lim)
			}
		}
		prop := Ring[MinerKey]
		ns := nm.States[parent].Clone()
		for i, tx := range pristine {
			if !tx.Coinbase && !tx.Autogen {
				if err := ns.Check(tx, nm.ledgerHeight()); err != nil {
					return fmt.Errorf("packed block %s: transaction %d (%s) is not executable after its predecessors: %v", op.Label, i, Hex8(tx.Txid), err)
				}
			}
			if tx.Autogen {
				nm.Stat["timer-tx-in-block"]++
			}
			ns.Apply(tx, prop.Address)
		}
		stored, err := nm.LM.ConfirmPrepared(op.Label, parent, blk, false)
		if err != nil {
			return err
		}
		if !stored {
			return fmt.Errorf("own block %s was not stored", op.Label)
		}
		idx := len(m.Blocks) - 1
		nm.BlockTxs[idx] = pristine
		nm.States[idx] = ns
		nm.Valid[idx] = true
		if err := n.State.PlayForMiner(blk.Blockid); err != nil {
			return fmt.Errorf("PlayForMiner(%s): %v", op.Label, err)
		}
		nm.Ptr = idx
		oldPool := nm.Pool
		nm.applied(idx)
		if err := nm.adoptPool(oldPool, pristine, "own block"); err != nil {
			return err
		}
		if len(nm.Pool) != len(oldPool)-len(general) {
			return fmt.Errorf("after the own block %d transactions are pending, expected the %d that were not packed", len(nm.Pool), len(oldPool)-len(general))
		}
		nm.Stat["minereal"]++
		if len(general) > 1 {
			nm.Stat["minereal-pool>=2"]++
		}
	case "peer":
		parent := op.Parent
		nm.LM.Ts++
		prop := Ring[op.Proposer]
		var preHash []byte
		height := int64(7)
		var s *MState
		valid := true
		whyNot := "parent is not a valid stored block"
		if parent >= 0 && parent < len(m.Blocks) {
			preHash, height = m.Blocks[parent].ID, m.Blocks[parent].Height+1
			if nm.States[parent] != nil {
				s = nm.States[parent].Clone()
			}
		} else {
			preHash = bytes.Repeat([]byte{0xEE}, 32)
			parent = -1
		}
		if s == nil {
			s = NewMState()
			valid = false
		}
		award := n.Ledger.GenesisBlock.CalcAward(height)
		if op.AwardAdd != 0 {
			award = new(big.Int).Add(award, big.NewInt(op.AwardAdd))
		}
		txs := []*pb.Transaction{AwardTx(prop.Address, award, "award-"+op.Label, nm.LM.Ts)}
		if op.CBIn > 0 {
			var victim *UTXO
			// prefer an output worth exactly the award: the forged award transaction then "balances"
			for pass := 0; pass < 2 && victim == nil; pass++ {
				for k := 1; k <= 5 && victim == nil; k++ {
					for _, u := range s.UtxosOf(Ring[(op.Proposer+k)%5].Address) {
						if u.Frozen == 0 && u.Amount.Sign() > 0 && (pass == 1 || u.Amount.Cmp(award) == 0) {
							victim = u
							break
						}
					}
				}
			}
			if op.CBIn == 4 {
				// a second output: the block mints more than the configured award (no input, no write)
				cb := txs[0]
				cb.TxOutputs = append(cb.TxOutputs, &protos.TxOutput{ToAddr: []byte(prop.Address), Amount: big.NewInt(123456).Bytes()})
				cb.Txid, _ = txhash.MakeTransactionID(cb)
				// Ledger.IsValidTx (the award rule) looks at output 0 only: HEAD accepts the block, and then every output counts
				// into the total supply and has to be undone / replayed like any other (C01, C02). If the award rule refuses
				// it (below), the block is simply never stored.
				nm.Stat["peer-coinbase-extra-output"]++
			}
			if op.CBIn == 6 || op.CBIn == 7 {
				// an award output addressed to the fee placeholder "$" (6: the award itself, 7: a further output): the
				// output loop of doTxInternal skips it (nothing is counted into the total), payFee credits it to the proposer
				cb := txs[0]
				if op.CBIn == 6 {
					cb.TxOutputs[0].ToAddr = []byte("$")
				} else {
					cb.TxOutputs = append(cb.TxOutputs, &protos.TxOutput{ToAddr: []byte("$"), Amount: big.NewInt(777).Bytes()})
				}
				cb.Txid, _ = txhash.MakeTransactionID(cb)
				valid = false
				whyNot = "the award transaction pays an output to the fee placeholder (credited to the proposer without being counted in the total supply)"
				nm.Stat["peer-coinbase-fee-placeholder-output"]++
				victim = nil
			}
			if op.CBIn == 3 {
				cb := txs[0]
				key := RawKey(VerifContract, "a")
				in := &protos.TxInputExt{Bucket: VerifContract, Key: []byte("a")}
				if kv := s.KV[key]; kv != nil {
					in.RefTxid, in.RefOffset = kv.Txid, kv.Off
				}
				cb.TxInputsExt = []*protos.TxInputExt{in}
				cb.TxOutputsExt = []*protos.TxOutputExt{{Bucket: VerifContract, Key: []byte("a"), Value: []byte("minted")}}
				cb.Txid, _ = txhash.MakeTransactionID(cb)
				nm.KeyUniv[key] = true
				valid = false
				whyNot = "the award transaction carries a key write that no verified request produced"
				nm.Stat["peer-coinbase-with-write"]++
				victim = nil
			}
			if victim != nil && op.CBIn <= 2 {
				cb := txs[0]
				cb.TxInputs = []*protos.TxInput{{RefTxid: victim.Txid, RefOffset: victim.Off, FromAddr: []byte(victim.Addr), Amount: victim.Amount.Bytes()}}
				if op.CBIn == 2 {
					cb.TxOutputs = append(cb.TxOutputs, &protos.TxOutput{ToAddr: []byte(prop.Address), Amount: victim.Amount.Bytes()})
				}
				cb.Txid, _ = txhash.MakeTransactionID(cb)
				valid = false
				whyNot = "the award transaction cites an input (supply changes only by the award; nothing is spent unsigned)"
				nm.Stat["peer-coinbase-with-input"]++
			}
		}
		s.Apply(txs[0], prop.Address)
		if op.TwoCB {
			txs = append(txs, AwardTx(prop.Address, award, "award2-"+op.Label, nm.LM.Ts))
		}
		if op.CBIn == 5 {
			// a forged "timer" transaction: autogen flag and a read / write set that no due timer task produces
			key := RawKey(VerifContract, "a")
			in := &protos.TxInputExt{Bucket: VerifContract, Key: []byte("a")}
			if kv := s.KV[key]; kv != nil {
				in.RefTxid, in.RefOffset = kv.Txid, kv.Off
			}
			ft := &pb.Transaction{Version: 3, Autogen: true, Nonce: "forged-timer-" + op.Label, Timestamp: nm.LM.Ts,
				TxInputsExt:  []*protos.TxInputExt{in},
				TxOutputsExt: []*protos.TxOutputExt{{Bucket: VerifContract, Key: []byte("a"), Value: []byte("forged")}}}
			ft.Txid, _ = txhash.MakeTransactionID(ft)
			txs = append(txs, ft)
			nm.KeyUniv[key] = true
			valid = false
			whyNot = "the block carries an autogen transaction whose read / write set no due timer task produces"
			nm.Stat["peer-forged-timer-tx"]++
		}
		// transactions re-used from other blocks come first (generated ones may build on them)
		for _, idHex := range op.Old {
			for _, btxs := range nm.blockTxsSorted() {
				for _, otx := range btxs {
					if hex.EncodeToString(otx.Txid) == idHex && !otx.Coinbase {
						if cerr := s.Check(otx, height); cerr != nil {
							valid = false
							whyNot = fmt.Sprintf("re-included transaction %s: %v", Hex8(otx.Txid), cerr)
						} else if nm.Altered[otx] {
							valid = false
							whyNot = fmt.Sprintf("re-included copy of transaction %s has an altered body under the original id", Hex8(otx.Txid))
						} else if nm.Unauth[string(otx.Txid)] {
							valid = false
							whyNot = fmt.Sprintf("re-included transaction %s is not authorised by its initiator", Hex8(otx.Txid))
						} else {
							nm.Stat["peer-shares-tx-with-other-branch"]++
						}
						s.Apply(otx, prop.Address)
						txs = append(txs, CloneTx(otx))
						idHex = ""
					}
				}
			}
		}
		buildState := s
		if op.TxsAt != nil && *op.TxsAt >= 0 && *op.TxsAt < len(m.Blocks) && nm.States[*op.TxsAt] != nil {
			buildState = nm.States[*op.TxsAt].Clone()
		}
		for i := range op.Txs {
			tx, _ := nm.buildOn(&op.Txs[i], buildState, false)
			if tx == nil {
				continue
			}
			if i == 0 && op.TxMut != "" {
				mutated := true
				switch {
				case op.TxMut == "autogen" && len(tx.ContractRequests) == 0 && len(tx.TxOutputsExt) == 0 && len(tx.TxInputsExt) == 0:
					tx.Autogen = true
					tx.InitiatorSigns, tx.AuthRequireSigns = nil, nil
				case op.TxMut == "nosig":
					tx.InitiatorSigns, tx.AuthRequireSigns = nil, nil
				case op.TxMut == "marked":
					// a correctly signed transfer that pays out more than it cites, flagged as "modified by the
					// regulator" (ModifyBlock is ledger-local metadata that neither id nor signature covers)
					if len(tx.TxOutputs) == 0 || len(tx.ContractRequests) > 0 {
						mutated = false
						break
					}
					a := new(big.Int).SetBytes(tx.TxOutputs[0].Amount)
					tx.TxOutputs[0].Amount = a.Add(a, big.NewInt(1000000)).Bytes()
					SignTx(tx, Ring[op.Txs[i].From])
					tx.ModifyBlock = &pb.ModifyBlock{Marked: true, EffectiveHeight: height, EffectiveTxid: "00"}
				case op.TxMut == "dropread":
					// a written (or deleted) key is taken out of the read set: undo could not restore its previous version
					mutated = false
					// deletions first (undoing a blind delete wipes the key instead of restoring it)
					outs := append([]*protos.TxOutputExt{}, tx.TxOutputsExt...)
					sort.SliceStable(outs, func(a, b int) bool {
						return string(outs[a].Value) == DelFlag && string(outs[b].Value) != DelFlag
					})
					for _, oe := range outs {
						if oe.Bucket == TransientBucket || mutated {
							continue
						}
						for j, ie := range tx.TxInputsExt {
							if ie.Bucket == oe.Bucket && bytes.Equal(ie.Key, oe.Key) {
								tx.TxInputsExt = append(tx.TxInputsExt[:j:j], tx.TxInputsExt[j+1:]...)
								mutated = true
								break
							}
						}
					}
					if mutated {
						SignTx(tx, Ring[op.Txs[i].From])
					}
				case op.TxMut == "othersig":
					SignTx(tx, Ring[(op.Txs[i].From+1)%5])
				default:
					mutated = false
				}
				if mutated {
					tx.Txid, _ = txhash.MakeTransactionID(tx)
					nm.Unauth[string(tx.Txid)] = true
					valid = false
					whyNot = fmt.Sprintf("transaction %s is not signed by its initiator / does not balance / writes a key it does not read (%s)", Hex8(tx.Txid), op.TxMut)
					nm.Stat["peer-unsigned-tx:"+op.TxMut]++
				}
			}
			if buildState != s {
				buildState.Apply(tx, prop.Address)
			}
			if err := s.Check(tx, height); err != nil {
				valid = false
				whyNot = fmt.Sprintf("generated transaction %s: %v", Hex8(tx.Txid), err)
			}
			s.Apply(tx, prop.Address)
			txs = append(txs, tx)
		}
		poolMutDone := false
		alteredAt := -1
		for _, idHex := range op.Pool {
			for _, ptx := range nm.Pool {
				if hex.EncodeToString(ptx.Txid) != idHex && idHex != "*" {
					continue
				}
				if e := s.Check(ptx, height); e != nil {
					if op.PoolForce {
						if valid {
							valid = false
							whyNot = fmt.Sprintf("pending transaction %s is not valid after the block's other transactions: %v", Hex8(ptx.Txid), e)
						}
						txs = append(txs, CloneTx(ptx))
						nm.Stat["peer-stale-pending-tx-forced"]++
					}
					continue
				}
				{
					s.Apply(ptx, prop.Address)
					cp := CloneTx(ptx)
					if op.PoolMut && !poolMutDone && len(cp.TxOutputs) > 0 && string(cp.TxOutputs[0].ToAddr) != FeeAddr {
						thief := Ring[(op.Proposer+1)%5].Address
						if string(cp.TxOutputs[0].ToAddr) == thief {
							thief = Ring[(op.Proposer+2)%5].Address
						}
						cp.TxOutputs[0].ToAddr = []byte(thief)
						poolMutDone = true
						alteredAt = len(txs)
						valid = false
						whyNot = fmt.Sprintf("the block carries pending transaction %s with an altered body under its original id", Hex8(cp.Txid))
						nm.Stat["peer-altered-copy-of-pending-tx"]++
					}
					txs = append(txs, cp)
				}
			}
		}
		blk, err := MakeBlock(n.Ledger, prop, preHash, height, nm.LM.Ts, txs)
		if err != nil {
			return err
		}
		// what miner.ProcBlock / batchConfirmBlock do before the ledger sees a pushed block
		for i, tx := range blk.Transactions {
			if !n.Ledger.IsValidTx(i, tx, blk) {
				if op.AwardAdd == 0 && op.CBIn == 4 && i == 0 {
					nm.LastOutcome = "forbidden"
					nm.Stat["peer-forbidden-extra-award-output"]++
					return nil
				}
				if op.AwardAdd == 0 {
					return fmt.Errorf("IsValidTx refuses transaction %d of block %s whose award is CalcAward(height)", i, op.Label)
				}
				nm.LastOutcome = "forbidden"
				nm.Stat["peer-forbidden-bad-award"]++
				return nil
			}
		}
		if op.AwardAdd != 0 {
			return fmt.Errorf("IsValidTx accepts block %s whose award differs from CalcAward(%d) by %d", op.Label, height, op.AwardAdd)
		}
		if op.TreeLeaf > 0 && len(blk.Transactions) >= 2 && len(blk.MerkleTree) >= len(blk.Transactions) {
			nt := len(blk.Transactions)
			tree := append([][]byte{}, blk.MerkleTree...)
			switch op.TreeLeaf {
			case 1:
				h := sha256.Sum256(append([]byte("nobody-knows-"), tree[nt-1]...))
				tree[nt-1] = h[:]
			case 2:
				tree[nt-1], tree[nt-2] = tree[nt-2], tree[nt-1]
			default:
				if parent >= 0 && len(nm.BlockTxs[parent]) > 0 {
					tree[nt-1] = nm.BlockTxs[parent][0].Txid
				}
			}
			blk.MerkleTree = tree
			if ok, _ := n.Ledger.VerifyBlock(blk, ""); ok {
				return fmt.Errorf("VerifyBlock accepts block %s whose carried merkle tree names other transactions than its body (the ledger rebuilds the body from these leaves)", op.Label)
			}
			nm.LastOutcome = "forbidden"
			nm.Stat["peer-forbidden-tree-leaves"]++
			return nil
		}
		if ok, _ := n.Ledger.VerifyBlock(blk, ""); !ok {
			if alteredAt >= 0 {
				// a body that does not hash to the id it is filed under: refused before the ledger stores anything
				nm.LastOutcome = "forbidden"
				nm.Stat["peer-forbidden-altered-copy"]++
				return nil
			}
			return fmt.Errorf("VerifyBlock refuses block %s formatted by the node", op.Label)
		}
		if op.PresetNext {
			h := sha256.Sum256(append([]byte("no-such-successor-"), blk.Blockid...))
			blk.NextHash = h[:]
			nm.Stat["peer-preset-nexthash"]++
		}
		if os.Getenv("VERIF_SELFCHECK") != "" {
			for i, tx := range txs {
				if id, _ := txhash.MakeTransactionID(tx); !bytes.Equal(id, tx.Txid) && i != alteredAt && tx.Version > 0 {
					fmt.Printf("SELFCHECK block %s tx %d: id %x content hashes to %x (txmut=%q)\n", op.Label, i, tx.Txid, id, op.TxMut)
				}
			}
		}
		pristine := CloneTxs(txs)
		if alteredAt >= 0 && alteredAt < len(pristine) {
			nm.Altered[pristine[alteredAt]] = true
		}
		stored, err := nm.LM.ConfirmPrepared(op.Label, parent, blk, op.TwoCB)
		if err != nil {
			return err
		}
		if stored {
			idx := len(m.Blocks) - 1
			nm.BlockTxs[idx] = pristine
			if valid && parent >= 0 && nm.Valid[parent] {
				nm.States[idx] = s
				nm.Valid[idx] = true
			} else {
				nm.WhyNot[idx] = whyNot
			}
			nm.Stat["peer-stored"]++
		}
	case "sync":
		return nm.walk(m.Tip, false)
	case "walk":
		return nm.walk(op.Target, op.Prune)
	case "play":
		t := op.Target
		if t < 0 || t >= len(m.Blocks) || !m.Blocks[t].Stored || m.Blocks[t].Parent != nm.Ptr {
			nm.LastOutcome = "skipped"
			return nil
		}
		oldPool := nm.Pool
		err := n.State.PlayAndRepost(m.Blocks[t].ID, false, false)
		if nm.Valid[t] && err != nil {
			// The block is valid on its parent's chain state, but the node judges it on top of its
			// pending transactions: a pending overwrite of a key the block merely reads makes the
			// play fail. No listed property promises that such a play succeeds; it must only leave
			// no trace (the next CheckState compares everything with the unchanged model).
			if s := nm.PoolState(); blockAppliesOn(s, nm.BlockTxs[t], nm.ledgerHeight()) {
				return fmt.Errorf("PlayAndRepost(%s) failed: %v although the block applies on the chain state and on the pending state", m.Blocks[t].Label, err)
			}
			nm.LastOutcome = "failed"
			nm.Stat["play-valid-block-refused-because-of-pool"]++
			return nm.adoptPool(oldPool, nil, "failed play")
		}
		if nm.Valid[t] {
			nm.Ptr = t
			nm.applied(t)
			if err := nm.adoptPool(oldPool, nm.BlockTxs[t], "play"); err != nil {
				return err
			}
			nm.Stat["play"]++
			if len(oldPool) > 0 {
				nm.Stat["play-with-pending"]++
				for _, bt := range nm.BlockTxs[t] {
					for _, pt := range oldPool {
						if bytes.Equal(bt.Txid, pt.Txid) {
							nm.Stat["play-confirming-pending"]++
						}
					}
				}
			}
		} else {
			if err == nil {
				return fmt.Errorf("PlayAndRepost(%s) succeeded although the block is not valid on its parent's state (%s; %d transactions pending before the play: %s)", m.Blocks[t].Label, nm.WhyNot[t], len(oldPool), txList(oldPool))
			}
			nm.LastOutcome = "failed"
			nm.Stat["play-failed"]++
			if err := nm.adoptPool(oldPool, nil, "failed play"); err != nil {
				return err
			}
		}
	case "reopen":
		if err := n.Reopen(); err != nil {
			return fmt.Errorf("reopen failed: %v", err)
		}
		nm.Stat["reopen"]++
	case "truncate":
		t := op.Target
		if t < 0 || t >= len(m.Blocks) || !m.Blocks[t].Stored || !m.OnMain(t) {
			nm.LastOutcome = "skipped"
			return nil
		}
		// the real Miner.truncateForMiner: Walk(target, false), then Ledger.Truncate(target) (the ledger model's own
		// Truncate call below then finds the ledger already cut at the target)
		nm.walkFn = func(id []byte, prune bool) error {
			return n.Miner.VerifTruncateForMiner(n.Ctx, id)
		}
		err := nm.walk(t, false)
		nm.walkFn = nil
		if err != nil {
			return err
		}
		if nm.LastOutcome == "failed" {
			return nil // miner.truncateForMiner gives up when the walk fails
		}
		if err := nm.LM.Apply(LOp{Op: "truncate", Target: t}); err != nil {
			return err
		}
		nm.Stat["truncate"]++
	default:
		return fmt.Errorf("unknown node op %q", op.Op)
	}
	return nil
}

// DeepKeyHistory: some key has, along the pointer's chain, >= 3 versions including a delete.
func (nm *NodeMachine) DeepKeyHistory() bool {
	m := nm.LM.M
	vers := map[string]map[string]bool{}
	dels := map[string]bool{}
	for j := nm.Ptr; j >= 0; j = m.Blocks[j].Parent {
		for _, tx := range nm.BlockTxs[j] {
			for off, oe := range tx.TxOutputsExt {
				if oe.Bucket == TransientBucket {
					continue
				}
				rk := RawKey(oe.Bucket, string(oe.Key))
				if vers[rk] == nil {
					vers[rk] = map[string]bool{}
				}
				vers[rk][fmt.Sprintf("%x_%d", tx.Txid, off)] = true
				if string(oe.Value) == DelFlag {
					dels[rk] = true
				}
			}
		}
	}
	for rk, v := range vers {
		if len(v) >= 3 && dels[rk] {
			return true
		}
	}
	return false
}

// PendingTimerFor: does a pending transaction register a timer task for the given height? (trigger
// shape of finding C13-timer-tx-sees-pending-task)
func (nm *NodeMachine) PendingTimerFor(height int64) bool {
	for _, tx := range nm.Pool {
		for _, r := range tx.ContractRequests {
			if r.ContractName == "$timer_task" && r.MethodName == "Add" && string(r.Args["block_height"]) == fmt.Sprint(height) {
				return true
			}
		}
	}
	return false
}

// TimerConflictsWithPool: would the timer transaction of the given height (computed, as packBlock
// does, over the live state incl. pending transactions) read or write a key that a pending
// transaction reads or writes? (second trigger shape of finding C13-timer-tx-sees-pending-task)
func (nm *NodeMachine) TimerConflictsWithPool(height int64) bool {
	if len(nm.Pool) == 0 {
		return false
	}
	auto, err := nm.N.State.GetTimerTx(height)
	if err != nil || auto == nil || len(auto.TxOutputsExt) == 0 {
		return false
	}
	keys := map[string]bool{}
	for _, i := range auto.TxInputsExt {
		keys[RawKey(i.Bucket, string(i.Key))] = true
	}
	for _, o := range auto.TxOutputsExt {
		keys[RawKey(o.Bucket, string(o.Key))] = true
	}
	for _, tx := range nm.Pool {
		for _, i := range tx.TxInputsExt {
			if keys[RawKey(i.Bucket, string(i.Key))] {
				return true
			}
		}
		for _, o := range tx.TxOutputsExt {
			if keys[RawKey(o.Bucket, string(o.Key))] {
				return true
			}
		}
	}
	return false
}

// orderApplies: do the transactions apply validly on base in exactly this order?
func orderApplies(base *MState, txs []*pb.Transaction, h int64) error {
	s := base.Clone()
	for i, tx := range txs {
		if err := s.Check(tx, h); err != nil {
			return fmt.Errorf("position %d (%s): %v; order %s", i, Hex8(tx.Txid), err, txList(txs))
		}
		s.Apply(tx, "")
	}
	return nil
}

// MustPrecede lists the ordered pairs (a, b) of pending transactions for which the model requires a
// before b: b consumes an output or a key version produced by a, or a merely read a key version
// that b overwrites.
func (nm *NodeMachine) MustPrecede() (pairs [][2]*pb.Transaction, anti int) {
	writes := func(tx *pb.Transaction, bucket string, key []byte) bool {
		for _, o := range tx.TxOutputsExt {
			if o.Bucket == bucket && bytes.Equal(o.Key, key) {
				return true
			}
		}
		return false
	}
	for _, a := range nm.Pool {
		for _, b := range nm.Pool {
			if a == b {
				continue
			}
			need := false
			for _, ti := range b.TxInputs {
				if bytes.Equal(ti.RefTxid, a.Txid) {
					need = true
				}
			}
			for _, ie := range b.TxInputsExt {
				if bytes.Equal(ie.RefTxid, a.Txid) {
					need = true
				}
			}
			isAnti := false
			for _, ia := range a.TxInputsExt {
				if writes(a, ia.Bucket, ia.Key) {
					continue
				}
				for _, ib := range b.TxInputsExt {
					if ib.Bucket == ia.Bucket && bytes.Equal(ib.Key, ia.Key) && bytes.Equal(ib.RefTxid, ia.RefTxid) && ib.RefOffset == ia.RefOffset && writes(b, ib.Bucket, ib.Key) {
						isAnti = true
					}
				}
			}
			if isAnti {
				anti++
			}
			if need || isAnti {
				pairs = append(pairs, [2]*pb.Transaction{a, b})
			}
		}
	}
	return pairs, anti
}

// CheckPoolGraph (C13): in the dependency graph the pool builds there must be a path a -> b for
// every pair the model orders; then no map iteration order lets the topological sort emit b first.
func (nm *NodeMachine) CheckPoolGraph() error {
	_, graph, err := nm.N.State.VerifSortUnconfirmedTx()
	if err != nil {
		return fmt.Errorf("SortUnconfirmedTx: %v", err)
	}
	pairs, anti := nm.MustPrecede()
	if anti > 0 {
		nm.Stat["pool-with-anti-dependency"]++
	}
	if len(pairs) >= 3 {
		nm.Stat["pool-with>=3-ordered-pairs"]++
	}
	for _, p := range pairs {
		seen := map[string]bool{}
		stack := []string{string(p[0].Txid)}
		found := false
		for len(stack) > 0 && !found {
			x := stack[len(stack)-1]
			stack = stack[:len(stack)-1]
			if seen[x] {
				continue
			}
			seen[x] = true
			for _, y := range graph[x] {
				if y == string(p[1].Txid) {
					found = true
					break
				}
				stack = append(stack, y)
			}
		}
		if !found {
			return fmt.Errorf("pool dependency graph has no path %s -> %s although the model requires that order (%s before %s)", Hex8(p[0].Txid), Hex8(p[1].Txid), DescribeTx(p[0]), DescribeTx(p[1]))
		}
	}
	return nil
}

// blockTxsSorted returns the per-block transaction lists in block-index order.
func (nm *NodeMachine) blockTxsSorted() [][]*pb.Transaction {
	idx := make([]int, 0, len(nm.BlockTxs))
	for i := range nm.BlockTxs {
		idx = append(idx, i)
	}
	sort.Ints(idx)
	out := make([][]*pb.Transaction, 0, len(idx))
	for _, i := range idx {
		out = append(out, nm.BlockTxs[i])
	}
	return out
}

// CheckSnapshots (C18): with the state pointer on the ledger's main chain, a snapshot at every
// ancestor block B of the pointer returns for every key what the model has at B.
func (nm *NodeMachine) CheckSnapshots() (int, error) {
	m := nm.LM.M
	if !m.OnMain(nm.Ptr) {
		return 0, nil
	}
	n := 0
	for j := nm.Ptr; j >= 0; j = m.Blocks[j].Parent {
		b := m.Blocks[j]
		snap, err := nm.N.State.CreateSnapshot(b.ID)
		if err != nil {
			return n, fmt.Errorf("CreateSnapshot(%s): %v", b.Label, err)
		}
		rd, err := nm.N.State.CreateXMSnapshotReader(b.ID)
		if err != nil {
			return n, fmt.Errorf("CreateXMSnapshotReader(%s): %v", b.Label, err)
		}
		for _, rk := range nm.rawKeys() {
			i := strings.Index(rk, "/")
			bucket, key := rk[:i], rk[i+1:]
			want := nm.States[j].KV[rk]
			vd, err := snap.Get(bucket, []byte(key))
			if err != nil {
				return n, fmt.Errorf("snapshot(%s).Get(%s): %v", b.Label, rk, err)
			}
			gotVer := ""
			if vd.RefTxid != nil {
				gotVer = fmt.Sprintf("%x_%d", vd.RefTxid, vd.RefOffset)
			}
			var wantVal []byte
			if want != nil {
				wantVal = want.Value
			}
			if gotVer != want.Version() || !bytes.Equal(vd.GetPureData().GetValue(), wantVal) {
				return n, fmt.Errorf("snapshot at %s (height %d, pointer %s, %d pending): key %s = %q@%s, model at that block %q@%s", b.Label, b.Height, m.Blocks[nm.Ptr].Label, len(nm.Pool), rk, vd.GetPureData().GetValue(), gotVer, wantVal, want.Version())
			}
			v2, err := rd.Get(bucket, []byte(key))
			if err != nil || !bytes.Equal(v2, wantVal) {
				return n, fmt.Errorf("snapshot reader at %s: key %s = %q/%v, model %q", b.Label, rk, v2, err, wantVal)
			}
			n++
		}
	}
	// tip snapshot never exposes pending writes
	tip, err := nm.N.State.GetTipXMSnapshotReader()
	if err != nil {
		return n, fmt.Errorf("GetTipXMSnapshotReader: %v", err)
	}
	for _, rk := range nm.rawKeys() {
		i := strings.Index(rk, "/")
		want := nm.States[nm.Ptr].KV[rk]
		var wantVal []byte
		if want != nil {
			wantVal = want.Value
		}
		v, err := tip.Get(rk[:i], []byte(rk[i+1:]))
		if err != nil || !bytes.Equal(v, wantVal) {
			return n, fmt.Errorf("tip snapshot: key %s = %q/%v, model at the pointer (without pending) %q", rk, v, err, wantVal)
		}
		n++
	}
	return n, nil
}

// blockAppliesOn: do the block's non-pending transactions apply validly, in order, on state s?
func blockAppliesOn(s *MState, txs []*pb.Transaction, h int64) bool {
	s = s.Clone()
	for _, tx := range txs {
		if tx.Coinbase {
			continue
		}
		if s.Check(tx, h) != nil {
			return false
		}
		s.Apply(tx, "")
	}
	return true
}

// applied records that block idx was applied (irreversible-height model, C17).
func (nm *NodeMachine) applied(idx int) {
	if nm.Window > 0 {
		if h := nm.LM.M.Blocks[idx].Height - nm.Window; h > nm.Irrev {
			nm.Irrev = h
			nm.IrrevBlk = nm.LM.M.ancestorAt(idx, h)
		}
	}
}

func (nm *NodeMachine) walk(target int, prune bool) error {
	n := nm.N
	m := nm.LM.M
	if target < 0 || target >= len(m.Blocks) || !m.Blocks[target].Stored {
		nm.LastOutcome = "skipped"
		return nil
	}
	lca := m.LCA(nm.Ptr, target)
	var undo, todo []int
	for j := nm.Ptr; j != lca; j = m.Blocks[j].Parent {
		undo = append(undo, j)
	}
	for j := target; j != lca; j = m.Blocks[j].Parent {
		todo = append(todo, j)
	}
	// model the walk
	ptr := nm.Ptr
	irrev := nm.Irrev
	expectOK := true
	why := ""
	crossed := false
	for _, b := range undo {
		if !prune && m.Blocks[b].Height <= irrev {
			expectOK, why = false, fmt.Sprintf("undo of %s (height %d) is at or below the irreversible height %d", m.Blocks[b].Label, m.Blocks[b].Height, irrev)
			crossed = true
			break
		}
		ptr = m.Blocks[b].Parent
		if prune && nm.Window > 0 {
			irrev = m.Blocks[b].Height - nm.Window
			if irrev < 0 {
				irrev = 0
			}
		}
	}
	var appliedBlocks []int
	if expectOK {
		for i := len(todo) - 1; i >= 0; i-- {
			b := todo[i]
			if !nm.Valid[b] {
				expectOK, why = false, fmt.Sprintf("block %s is not valid on its parent's state: %s", m.Blocks[b].Label, nm.WhyNot[b])
				break
			}
			ptr = b
			appliedBlocks = append(appliedBlocks, b)
			if nm.Window > 0 {
				if h := m.Blocks[b].Height - nm.Window; h > irrev {
					irrev = h
				}
			}
		}
	}
	oldPool := nm.Pool
	nm.LastUndo = len(undo)
	var err error
	if nm.walkFn != nil {
		err = nm.walkFn(m.Blocks[target].ID, prune)
	} else {
		err = n.State.Walk(m.Blocks[target].ID, prune)
	}
	WaitAsync()
	if (err == nil) != expectOK {
		return fmt.Errorf("Walk(%s -> %s, prune=%v) returned %v; model expects success=%v (%s)", m.Blocks[nm.Ptr].Label, m.Blocks[target].Label, prune, err, expectOK, why)
	}
	if len(undo) > 0 {
		nm.Stat["walk-undo"]++
		if len(undo) >= 2 && len(todo) > 0 {
			nm.Stat["walk-crossfork-undo2"]++
		}
	}
	if crossed {
		nm.Stat["walk-refused-irreversible"]++
	}
	nm.Ptr = ptr
	if irrev != nm.Irrev || prune {
		nm.IrrevBlk = -1
		if irrev > 0 {
			nm.IrrevBlk = m.ancestorAt(ptr, irrev)
		}
	}
	nm.Irrev = irrev
	if err != nil {
		nm.LastOutcome = "failed"
		nm.Stat["walk-failed"]++
	} else {
		nm.Stat["walk"]++
	}
	return nm.adoptPool(oldPool, nil, "walk")
}

// adoptPool reads the node's pool after an operation that may legitimately drop pool transactions
// (walk, block play), checks that it is a subset of the old pool, that no transaction of the
// played block stayed pending, and that it applies validly (in some order) on the new block state;
// then adopts it as the model's pool.
func (nm *NodeMachine) adoptPool(old []*pb.Transaction, blockTxs []*pb.Transaction, what string) error {
	cur, err := nm.N.State.GetUnconfirmedTx(false)
	if err != nil {
		return fmt.Errorf("GetUnconfirmedTx after %s: %v", what, err)
	}
	oldByID := map[string]*pb.Transaction{}
	for _, t := range old {
		oldByID[string(t.Txid)] = t
	}
	inBlock := map[string]bool{}
	for _, t := range blockTxs {
		inBlock[string(t.Txid)] = true
	}
	var kept []*pb.Transaction
	keptSet := map[string]bool{}
	for _, t := range cur {
		o, ok := oldByID[string(t.Txid)]
		if !ok {
			return fmt.Errorf("after %s the pool holds transaction %s that was not pending before", what, Hex8(t.Txid))
		}
		if inBlock[string(t.Txid)] {
			return fmt.Errorf("after %s transaction %s of the played block is still pending", what, Hex8(t.Txid))
		}
		if keptSet[string(t.Txid)] {
			return fmt.Errorf("after %s the pool lists %s twice", what, Hex8(t.Txid))
		}
		keptSet[string(t.Txid)] = true
		kept = append(kept, o)
	}
	// keep the old admission order among the kept ones, then search a valid order
	var ordered []*pb.Transaction
	for _, t := range old {
		if keptSet[string(t.Txid)] {
			ordered = append(ordered, t)
		}
	}
	order, ok := validOrder(nm.States[nm.Ptr], ordered, nm.ledgerHeight())
	if !ok {
		return fmt.Errorf("after %s the pool %s cannot be applied in any order on the state at %s", what, txList(ordered), nm.LM.M.Blocks[nm.Ptr].Label)
	}
	if len(order) < len(old) {
		nm.Stat["pool-dropped"] += len(old) - len(order)
	}
	nm.Pool = order
	return nil
}

// validOrder searches an order in which all transactions apply validly on base (small sets).
func validOrder(base *MState, txs []*pb.Transaction, h int64) ([]*pb.Transaction, bool) {
	if len(txs) == 0 {
		return nil, true
	}
	var rec func(s *MState, rest []*pb.Transaction, acc []*pb.Transaction, budget *int) ([]*pb.Transaction, bool)
	rec = func(s *MState, rest []*pb.Transaction, acc []*pb.Transaction, budget *int) ([]*pb.Transaction, bool) {
		if len(rest) == 0 {
			return acc, true
		}
		for i, t := range rest {
			*budget--
			if *budget < 0 {
				return nil, false
			}
			if s.Check(t, h) != nil {
				continue
			}
			ns := s.Clone()
			ns.Apply(t, "")
			nr := append(append([]*pb.Transaction{}, rest[:i]...), rest[i+1:]...)
			if r, ok := rec(ns, nr, append(append([]*pb.Transaction{}, acc...), t), budget); ok {
				return r, true
			}
		}
		return nil, false
	}
	budget := 20000
	return rec(base, txs, nil, &budget)
}

func txList(txs []*pb.Transaction) string {
	var ss []string
	for _, t := range txs {
		ss = append(ss, Hex8(t.Txid))
	}
	return "[" + strings.Join(ss, " ") + "]"
}

func (nm *NodeMachine) samePoolSet(got []*pb.Transaction) error {
	want := map[string]bool{}
	for _, t := range nm.Pool {
		want[string(t.Txid)] = true
	}
	seen := map[string]bool{}
	for _, t := range got {
		if !want[string(t.Txid)] {
			return fmt.Errorf("pool yields transaction %s the model does not have pending", Hex8(t.Txid))
		}
		if seen[string(t.Txid)] {
			return fmt.Errorf("pool yields transaction %s twice", Hex8(t.Txid))
		}
		seen[string(t.Txid)] = true
	}
	if len(seen) != len(want) {
		return fmt.Errorf("pool yields %d transactions, model has %d pending (%s)", len(seen), len(want), txList(nm.Pool))
	}
	return nil
}

// DescribeTx renders a transaction for messages.
func DescribeTx(tx *pb.Transaction) string {
	var sb strings.Builder
	fmt.Fprintf(&sb, "v%d in[", tx.Version)
	for _, i := range tx.TxInputs {
		fmt.Fprintf(&sb, "%s:%s_%d=%s ", shortAddr(string(i.FromAddr)), Hex8(i.RefTxid), i.RefOffset, new(big.Int).SetBytes(i.Amount))
	}
	sb.WriteString("] out[")
	for _, o := range tx.TxOutputs {
		fmt.Fprintf(&sb, "%s=%s/f%d ", shortAddr(string(o.ToAddr)), new(big.Int).SetBytes(o.Amount), o.FrozenHeight)
	}
	sb.WriteString("] r[")
	for _, i := range tx.TxInputsExt {
		fmt.Fprintf(&sb, "%s/%s@%s_%d ", i.Bucket, i.Key, Hex8(i.RefTxid), i.RefOffset)
	}
	sb.WriteString("] w[")
	for _, o := range tx.TxOutputsExt {
		fmt.Fprintf(&sb, "%s/%s=%q ", o.Bucket, o.Key, o.Value)
	}
	sb.WriteString("]")
	return sb.String()
}

func shortAddr(a string) string {
	if k := KeyOf(a); k != nil {
		return fmt.Sprintf("K%d", k.Idx)
	}
	return a
}

// ---- observation of the state machine ----

// ObserveState dumps the state-machine observables of a node over the given universes.
func ObserveState(n *Node, addrs []string, rawKeys []string) map[string]string {
	o := map[string]string{}
	st := n.State
	o["pointer"] = fmt.Sprintf("%x", st.GetLatestBlockid())
	o["total"] = st.GetTotal().String()
	meta := st.GetMeta()
	o["meta"] = fmt.Sprintf("maxblk=%d irrev=%d window=%d newacc=%d gas=%v", meta.MaxBlockSize, meta.IrreversibleBlockHeight, meta.IrreversibleSlideWindow, meta.NewAccountResourceAmount, meta.GasPrice)
	for _, a := range addrs {
		if b, err := st.GetBalance(a); err != nil {
			o["bal/"+shortAddr(a)] = "err:" + err.Error()
		} else {
			o["bal/"+shortAddr(a)] = b.String()
		}
		if d, err := st.GetBalanceDetail(a); err == nil {
			o["baldetail/"+shortAddr(a)] = fmt.Sprintf("frozen=%s unfrozen=%s", d[0].Balance, d[1].Balance)
		}
	}
	it := st.GetLDB().NewIteratorWithPrefix([]byte(pb.UTXOTablePrefix))
	for it.Next() {
		item := &utxo.UtxoItem{}
		if err := item.Loads(it.Value()); err != nil {
			o["U/"+string(it.Key())] = "corrupt"
			continue
		}
		o["U/"+string(it.Key()[1:])] = fmt.Sprintf("%s/f%d", item.Amount, item.FrozenHeight)
	}
	it.Release()
	xr := st.CreateXMReader()
	for _, rk := range rawKeys {
		i := strings.Index(rk, "/")
		b, k := rk[:i], rk[i+1:]
		vd, err := xr.Get(b, []byte(k))
		if err != nil {
			o["kv/"+rk] = "err:" + err.Error()
			continue
		}
		ver := ""
		if vd.RefTxid != nil {
			ver = fmt.Sprintf("%x_%d", vd.RefTxid, vd.RefOffset)
		}
		o["kv/"+rk] = fmt.Sprintf("%q@%s", vd.GetPureData().GetValue(), ver)
	}
	// live table scan (every live key, whatever the universe)
	it = st.GetLDB().NewIteratorWithPrefix([]byte(pb.ExtUtxoTablePrefix))
	for it.Next() {
		o["ZU/"+string(it.Key()[2:])] = string(it.Value())
	}
	it.Release()
	return o
}

// ExpectedObs renders the same observables from a model state.
func ExpectedObs(s *MState, ptrID []byte, addrs []string, rawKeys []string, ledgerHeight int64) map[string]string {
	o := map[string]string{}
	o["pointer"] = fmt.Sprintf("%x", ptrID)
	o["total"] = s.Total.String()
	for _, a := range addrs {
		o["bal/"+shortAddr(a)] = s.Balance(a).String()
		fr, un := big.NewInt(0), big.NewInt(0)
		for _, u := range s.UtxosOf(a) {
			if u.Frozen <= ledgerHeight && u.Frozen != -1 {
				un.Add(un, u.Amount)
			} else {
				fr.Add(fr, u.Amount)
			}
		}
		o["baldetail/"+shortAddr(a)] = fmt.Sprintf("frozen=%s unfrozen=%s", fr, un)
	}
	for k, u := range s.U {
		o["U/"+k] = fmt.Sprintf("%s/f%d", u.Amount, u.Frozen)
	}
	for _, rk := range rawKeys {
		k := s.KV[rk]
		if k == nil {
			o["kv/"+rk] = fmt.Sprintf("%q@", []byte(nil))
		} else {
			o["kv/"+rk] = fmt.Sprintf("%q@%s", k.Value, k.Version())
		}
	}
	for rk, k := range s.KV {
		if !k.Deleted() {
			o["ZU/"+rk] = k.Version()
		}
	}
	return o
}

func (nm *NodeMachine) rawKeys() []string {
	ks := make([]string, 0, len(nm.KeyUniv))
	for k := range nm.KeyUniv {
		ks = append(ks, k)
	}
	sort.Strings(ks)
	return ks
}

// CheckState compares every state observable of the live node with the model (C01 oracle a, C02).
func (nm *NodeMachine) CheckState() error {
	if os.Getenv("VERIF_SELFCHECK") != "" {
		for bi, btxs := range nm.BlockTxs {
			for _, tx := range btxs {
				if lt, err := nm.N.Ledger.QueryTransaction(tx.Txid); err == nil && !nm.Altered[tx] {
					if id, _ := txhash.MakeTransactionID(lt); !bytes.Equal(id, lt.Txid) && lt.Version > 0 {
						fmt.Printf("SELFCHECK ledger copy of tx %x (block idx %d) hashes to %x\nLEDGER %v\nORIG   %v\n", lt.Txid, bi, id, lt, tx)
					}
				}
			}
		}
	}
	s := nm.PoolState()
	m := nm.LM.M
	want := ExpectedObs(s, m.Blocks[nm.Ptr].ID, nm.AddrUniv, nm.rawKeys(), nm.ledgerHeight())
	got := ObserveState(nm.N, nm.AddrUniv, nm.rawKeys())
	delete(got, "meta")
	if d := DiffObs(want, got); d != "" {
		return fmt.Errorf("state observables differ from the model at %s with %d pending (model -> node): %s", m.Blocks[nm.Ptr].Label, len(nm.Pool), d)
	}
	// pool content
	cur, err := nm.N.State.GetUnconfirmedTx(false)
	if err != nil {
		return fmt.Errorf("GetUnconfirmedTx: %v", err)
	}
	if err := nm.samePoolSet(cur); err != nil {
		return err
	}
	for _, t := range nm.Pool {
		if has, _ := nm.N.State.HasTx(t.Txid); !has {
			return fmt.Errorf("HasTx(%s)=false for a pending transaction", Hex8(t.Txid))
		}
	}
	// conservation (C02): sum of U + pending fee outputs == total == sum of coinbase outputs on the chain
	sum := s.SumU()
	for _, t := range nm.Pool {
		for _, o := range t.TxOutputs {
			if string(o.ToAddr) == FeeAddr {
				sum.Add(sum, new(big.Int).SetBytes(o.Amount))
			}
		}
	}
	if sum.Cmp(s.Total) != 0 {
		return fmt.Errorf("model bug or conservation broken: sum(U)+pending fees=%s total=%s", sum, s.Total)
	}
	if err := nm.CheckSelectUtxos(); err != nil {
		return err
	}
	// irreversible height (C17)
	if nm.Window > 0 && nm.Irrev > 0 && nm.IrrevBlk >= 0 {
		if a := m.ancestorAt(nm.Ptr, nm.Irrev); a != nm.IrrevBlk {
			return fmt.Errorf("the state machine is on a chain that excludes %s, the block applied at the irreversible height %d (its ancestor at that height is %s)", m.Blocks[nm.IrrevBlk].Label, nm.Irrev, lab(m, a))
		}
	}
	meta := nm.N.State.GetMeta()
	if meta.IrreversibleBlockHeight != nm.Irrev || meta.IrreversibleSlideWindow != nm.Window {
		return fmt.Errorf("irreversible height=%d window=%d, model height=%d window=%d", meta.IrreversibleBlockHeight, meta.IrreversibleSlideWindow, nm.Irrev, nm.Window)
	}
	return nil
}

// CheckFreshReplay plays genesis..pointer on a fresh node and compares it with the model state at
// the pointer and - when nothing is pending - with the live node (C01 oracle b).
func (nm *NodeMachine) CheckFreshReplay() error {
	m := nm.LM.M
	opts := nm.N.Opts
	opts.NoLog = true
	fresh, err := NewNode(opts)
	if err != nil {
		return fmt.Errorf("fresh node: %v", err)
	}
	defer fresh.Destroy()
	var path []int
	for j := nm.Ptr; j > 0; j = m.Blocks[j].Parent {
		path = append(path, j)
	}
	for i := len(path) - 1; i >= 0; i-- {
		b := m.Blocks[path[i]]
		blk := CloneBlock(b.Block)
		if st := fresh.Ledger.ConfirmBlock(blk, false); !st.Succ {
			return fmt.Errorf("fresh replay: ConfirmBlock(%s) failed: %v", b.Label, st.Error)
		}
		if err := fresh.State.PlayAndRepost(b.ID, false, false); err != nil {
			return fmt.Errorf("fresh replay: play of %s failed: %v", b.Label, err)
		}
	}
	h := m.Blocks[nm.Ptr].Height
	want := ExpectedObs(nm.States[nm.Ptr], m.Blocks[nm.Ptr].ID, nm.AddrUniv, nm.rawKeys(), h)
	got := ObserveState(fresh, nm.AddrUniv, nm.rawKeys())
	freshMeta := got["meta"]
	delete(got, "meta")
	// balance detail depends on the ledger height of the observed node: recompute for the fresh one
	if d := DiffObs(want, got); d != "" {
		return fmt.Errorf("fresh replay of genesis..%s differs from the model (model -> fresh): %s", m.Blocks[nm.Ptr].Label, d)
	}
	if len(nm.Pool) == 0 && nm.ledgerHeight() == h {
		live := ObserveState(nm.N, nm.AddrUniv, nm.rawKeys())
		liveMeta := live["meta"]
		delete(live, "meta")
		if d := DiffObs(got, live); d != "" {
			return fmt.Errorf("live node at %s differs from a fresh replay (fresh -> live): %s", m.Blocks[nm.Ptr].Label, d)
		}
		if nm.Window == 0 && freshMeta != liveMeta {
			return fmt.Errorf("chain-governed parameters differ: fresh %s, live %s", freshMeta, liveMeta)
		}
	}
	return nil
}

// ---- C05 / C06: faults, images, snapshots of the model ----

// CheckImage (C05 oracle b): a second node opened on the disk image of everything written so far
// answers every ledger and state query like the live node, holds the same pool, and SelectUtxos on
// the live node only returns outputs that exist, unfrozen and once.
func (nm *NodeMachine) CheckImage() error {
	n := nm.N
	img, err := n.OpenImage(n.World.LogLen())
	if err != nil {
		return fmt.Errorf("a node cannot be opened on the current disk image: %v", err)
	}
	defer img.Destroy()
	if d := DiffObs(ObserveLedger(img.Ledger, nm.LM.M), ObserveLedger(n.Ledger, nm.LM.M)); d != "" {
		return fmt.Errorf("running ledger differs from a ledger reopened on the same data (reopened -> running): %s", d)
	}
	if d := DiffObs(ObserveState(img, nm.AddrUniv, nm.rawKeys()), ObserveState(n, nm.AddrUniv, nm.rawKeys())); d != "" {
		return fmt.Errorf("running state machine differs from one reopened on the same data (reopened -> running): %s", d)
	}
	ip, err := img.State.GetUnconfirmedTx(false)
	if err != nil {
		return fmt.Errorf("reopened node: GetUnconfirmedTx: %v", err)
	}
	lp, err := n.State.GetUnconfirmedTx(false)
	if err != nil {
		return fmt.Errorf("GetUnconfirmedTx: %v", err)
	}
	if a, b := txSet(ip), txSet(lp); a != b {
		return fmt.Errorf("pool of the running node %s differs from the reopened one %s", b, a)
	}
	return nm.CheckSelectUtxos()
}

// CheckSelectUtxos: SelectUtxos (as every client calls it before assembling a transaction) returns
// only outputs that exist, unfrozen, each once, with the right amounts, and finds enough whenever
// the unfrozen outputs suffice. The selection order is the code's choice.
func (nm *NodeMachine) CheckSelectUtxos() error {
	n := nm.N
	s := nm.PoolState()
	h := nm.ledgerHeight()
	for i := 0; i < 8; i++ {
		addr := Ring[i].Address
		avail := big.NewInt(0)
		for _, u := range s.UtxosOf(addr) {
			if u.Frozen <= h && u.Frozen != -1 {
				avail.Add(avail, u.Amount)
			}
		}
		if avail.Sign() == 0 {
			continue
		}
		ins, _, total, err := n.State.SelectUtxos(addr, avail, false, false)
		if err != nil {
			return fmt.Errorf("SelectUtxos(%s, %s) fails although the unfrozen outputs sum to that amount: %v", shortAddr(addr), avail, err)
		}
		seen := map[string]bool{}
		sum := big.NewInt(0)
		for _, in := range ins {
			k := UKey(string(in.FromAddr), in.RefTxid, in.RefOffset)
			u := s.U[k]
			if u == nil || seen[k] || u.Frozen > h || u.Frozen == -1 || !bytes.Equal(u.Amount.Bytes(), in.Amount) {
				return fmt.Errorf("SelectUtxos(%s) returns %s which is spent, frozen, repeated or of another amount", shortAddr(addr), k)
			}
			seen[k] = true
			sum.Add(sum, u.Amount)
		}
		if sum.Cmp(total) != 0 || total.Cmp(avail) < 0 {
			return fmt.Errorf("SelectUtxos(%s): total %s, sum of returned %s, needed %s", shortAddr(addr), total, sum, avail)
		}
		// one more than everything must not be found
		if _, _, _, err := n.State.SelectUtxos(addr, new(big.Int).Add(avail, big.NewInt(1)), false, false); err == nil {
			return fmt.Errorf("SelectUtxos(%s) finds %s+1 although the unfrozen outputs only sum to %s", shortAddr(addr), avail, avail)
		}
	}
	return nil
}

func txSet(txs []*pb.Transaction) string {
	var ss []string
	for _, t := range txs {
		ss = append(ss, Hex8(t.Txid))
	}
	sort.Strings(ss)
	return "[" + strings.Join(ss, " ") + "]"
}

// ApplyWithFault arms "the nth storage write from now fails", executes op, and - if the fault fired -
// reconciles the model with what the node persisted (the faulted operation's own result is
// undefined; everything observable afterwards must still be consistent: CheckState / CheckImage).
func (nm *NodeMachine) ApplyWithFault(op NOp, nth int) (fired bool, err error) {
	return nm.applyWithFault(op, nth, false)
}

// ApplyWithReadFault: as ApplyWithFault, but the nth point READ (Get / Has) from now returns an I/O error.
func (nm *NodeMachine) ApplyWithReadFault(op NOp, nth int) (fired bool, err error) {
	return nm.applyWithFault(op, nth, true)
}

func (nm *NodeMachine) applyWithFault(op NOp, nth int, read bool) (fired bool, err error) {
	if read {
		nm.N.World.FailNthRead(nth)
	} else {
		nm.N.World.FailNthWrite(nth)
	}
	err = nm.Apply(op)
	WaitAsync()
	fired = !nm.N.World.Disarm()
	if !fired {
		return false, err
	}
	nm.Stat["fault-fired"]++
	if read {
		nm.Stat["read-fault-fired"]++
		nm.Stat["read-fault-in-"+op.Op]++
	} else {
		nm.Stat["fault-in-"+op.Op]++
	}
	return true, nm.reconcile()
}

// reconcile rebuilds the model's volatile part (stored flags, tip, pointer, pool) from the node.
func (nm *NodeMachine) reconcile() error {
	m := nm.LM.M
	leg := nm.N.Ledger
	for _, b := range m.Blocks {
		b.Stored = leg.ExistBlock(b.ID)
	}
	tip, ok := m.ByID[string(leg.GetMeta().TipBlockid)]
	if !ok || !m.Blocks[tip].Stored {
		return fmt.Errorf("after an injected write error the ledger tip %x is not a stored block the model knows", leg.GetMeta().TipBlockid)
	}
	m.Tip = tip
	ptr, ok := m.ByID[string(nm.N.State.GetLatestBlockid())]
	if !ok || !m.Blocks[ptr].Stored || nm.States[ptr] == nil {
		return fmt.Errorf("after an injected write error the state pointer %x is not a stored valid block", nm.N.State.GetLatestBlockid())
	}
	nm.Ptr = ptr
	nm.Irrev = nm.N.State.GetMeta().IrreversibleBlockHeight
	nm.IrrevBlk = -1
	return nm.adoptPool(nm.Pool, nil, "an injected write error")
}

// Snap is the model's volatile part at one moment (C06).
type Snap struct {
	LogLen int
	Stored []bool
	Tip    int
	Ptr    int
	Pool   []*pb.Transaction
	Irrev  int64
	Op     string
}

// TakeSnap records the current model next to the current write-log length.
func (nm *NodeMachine) TakeSnap(op string) Snap {
	s := Snap{LogLen: nm.N.World.LogLen(), Tip: nm.LM.M.Tip, Ptr: nm.Ptr, Irrev: nm.Irrev, Op: op}
	for _, b := range nm.LM.M.Blocks {
		s.Stored = append(s.Stored, b.Stored)
	}
	s.Pool = append(s.Pool, nm.Pool...)
	return s
}

// modelAt returns a copy of the ledger model with the stored flags / tip of a snapshot.
func (nm *NodeMachine) modelAt(s Snap) *LedgerModel {
	src := nm.LM.M
	m := &LedgerModel{ByID: src.ByID, TxIDs: src.TxIDs, TxOrd: src.TxOrd, Tip: s.Tip}
	for i, b := range src.Blocks {
		c := *b
		c.Stored = i < len(s.Stored) && s.Stored[i]
		m.Blocks = append(m.Blocks, &c)
	}
	return m
}

// CheckCrashImage (C06): open ledger + state on the image made of the first k storage writes and
// check it against the snapshots before / after the operation that was in flight.
func (nm *NodeMachine) CheckCrashImage(k int, before, after Snap) error {
	img, err := nm.N.OpenImage(k)
	if err != nil {
		return fmt.Errorf("ledger / state cannot be opened: %v", err)
	}
	defer img.Destroy()
	src := nm.LM.M
	// ledger: one batch per operation, so it equals the model before or after the in-flight operation
	var lm *LedgerModel
	eb := CheckLedgerAgainstModel(img.Ledger, nm.modelAt(before), nm.FS)
	if eb == nil {
		lm = nm.modelAt(before)
	} else {
		ea := CheckLedgerAgainstModel(img.Ledger, nm.modelAt(after), nm.FS)
		if ea != nil {
			return fmt.Errorf("ledger matches neither the model before the in-flight operation (%v) nor after it (%v)", eb, ea)
		}
		lm = nm.modelAt(after)
	}
	// state: pointer names a stored valid block; content = model at that block + persisted pool
	ptr, ok := src.ByID[string(img.State.GetLatestBlockid())]
	if !ok || !lm.Blocks[ptr].Stored {
		return fmt.Errorf("state pointer %x names a block the reopened ledger does not have", img.State.GetLatestBlockid())
	}
	if nm.States[ptr] == nil {
		return fmt.Errorf("state pointer names block %s which is not valid on its parent's state", src.Blocks[ptr].Label)
	}
	pool, err := img.State.GetUnconfirmedTx(false)
	if err != nil {
		return fmt.Errorf("GetUnconfirmedTx: %v", err)
	}
	known := map[string]*pb.Transaction{}
	for _, t := range before.Pool {
		known[string(t.Txid)] = t
	}
	for _, t := range after.Pool {
		known[string(t.Txid)] = t
	}
	var mine []*pb.Transaction
	for _, t := range pool {
		o, ok := known[string(t.Txid)]
		if !ok {
			return fmt.Errorf("persisted pool holds transaction %s that was pending neither before nor after the in-flight operation", Hex8(t.Txid))
		}
		mine = append(mine, o)
	}
	h := lm.Blocks[lm.Tip].Height
	order, ok := validOrder(nm.States[ptr], mine, h)
	if !ok {
		return fmt.Errorf("persisted pool %s does not apply on the state at %s: effects of some pending transaction are missing", txList(mine), src.Blocks[ptr].Label)
	}
	s := nm.States[ptr].Clone()
	for _, t := range order {
		s.Apply(t, "")
	}
	want := ExpectedObs(s, src.Blocks[ptr].ID, nm.AddrUniv, nm.rawKeys(), h)
	got := ObserveState(img, nm.AddrUniv, nm.rawKeys())
	delete(got, "meta")
	if d := DiffObs(want, got); d != "" {
		return fmt.Errorf("state at %s with %d pending differs from the model (model -> reopened): %s", src.Blocks[ptr].Label, len(order), d)
	}
	sum := s.SumU()
	for _, t := range order {
		for _, o := range t.TxOutputs {
			if string(o.ToAddr) == FeeAddr {
				sum.Add(sum, new(big.Int).SetBytes(o.Amount))
			}
		}
	}
	if sum.Cmp(img.State.GetTotal()) != 0 {
		return fmt.Errorf("conservation broken after restart: sum(U)+pending fees=%s, GetTotal=%s", sum, img.State.GetTotal())
	}
	// irreversible height (slide window > 0): what the image persists is a value of a consistent moment - never below
	// the value before the in-flight operation (explicit pruning aside), never above the value after it, and never
	// ahead of the blocks the persisted state has applied (max(before, height(pointer) - window))
	if nm.Window > 0 && before.Irrev <= after.Irrev && !strings.HasPrefix(after.Op, "truncate") && !strings.Contains(after.Op, "prune") {
		got := img.State.GetMeta().IrreversibleBlockHeight
		cap := before.Irrev
		if hp := src.Blocks[ptr].Height - nm.Window; hp > cap {
			cap = hp
		}
		if cap > after.Irrev {
			cap = after.Irrev
		}
		if got < before.Irrev || got > cap {
			return fmt.Errorf("persisted irreversible height is %d with the state at %s (height %d, window %d): it was %d before the in-flight operation and is %d after it - a consistent moment has a value in [%d, %d]",
				got, src.Blocks[ptr].Label, src.Blocks[ptr].Height, nm.Window, before.Irrev, after.Irrev, before.Irrev, cap)
		}
	}
	// synchronising the state to the ledger tip reaches the state of an uninterrupted run
	tip := lm.Tip
	expectOK := true
	lca := src.LCA(ptr, tip)
	irrev := img.State.GetMeta().IrreversibleBlockHeight
	for j := ptr; j != lca; j = src.Blocks[j].Parent {
		if src.Blocks[j].Height <= irrev {
			expectOK = false
		}
	}
	for j := tip; j != lca; j = src.Blocks[j].Parent {
		if !nm.Valid[j] {
			expectOK = false
		}
	}
	var werr error
	if expectOK && img.Miner != nil && img.Cons != nil {
		// the restarted node's own procedure: the start of the real miner loop (a plain Walk on HEAD)
		werr = img.MinerStartSync(20 * time.Second) // generous: only a start-up that never gets there waits this long
		if werr == nil && !bytes.Equal(img.State.GetLatestBlockid(), src.Blocks[tip].ID) {
			werr = fmt.Errorf("the miner loop asks for its turn while the state machine is not at the ledger tip")
		}
	} else {
		werr = img.State.Walk(src.Blocks[tip].ID, false)
	}
	WaitAsync()
	if (werr == nil) != expectOK {
		return fmt.Errorf("after restart the synchronisation (%s -> ledger tip %s) returned %v, an uninterrupted run expects success=%v", src.Blocks[ptr].Label, src.Blocks[tip].Label, werr, expectOK)
	}
	if werr == nil {
		pool2, err := img.State.GetUnconfirmedTx(false)
		if err != nil {
			return err
		}
		var mine2 []*pb.Transaction
		for _, t := range pool2 {
			o, ok := known[string(t.Txid)]
			if !ok {
				return fmt.Errorf("after the restart walk the pool holds an unknown transaction %s", Hex8(t.Txid))
			}
			mine2 = append(mine2, o)
		}
		order2, ok := validOrder(nm.States[tip], mine2, h)
		if !ok {
			return fmt.Errorf("after the restart walk the pool %s does not apply on the state at the tip", txList(mine2))
		}
		s2 := nm.States[tip].Clone()
		for _, t := range order2 {
			s2.Apply(t, "")
		}
		want := ExpectedObs(s2, src.Blocks[tip].ID, nm.AddrUniv, nm.rawKeys(), h)
		got := ObserveState(img, nm.AddrUniv, nm.rawKeys())
		delete(got, "meta")
		if d := DiffObs(want, got); d != "" {
			return fmt.Errorf("after restart + walk to the tip %s the state differs from the model (model -> node): %s", src.Blocks[tip].Label, d)
		}
	}
	return nil
}

// ---- C09: the real Chain.PreExec -> client assembly -> SubmitTx pipeline ----

// RealPreExec calls the real Chain.PreExec for the contract invocation of spec against live state.
func (nm *NodeMachine) RealPreExec(spec *TxSpec) (*protos.InvokeResponse, error) {
	cname := spec.Contract
	if cname == "" {
		cname = VerifContract
	}
	nm.noteKeys(spec.Prog, cname)
	method := "Run"
	args := EncodeProg(spec.Prog)
	if spec.Method != "" {
		method = spec.Method
		args = map[string][]byte{}
		for k, v := range spec.Args {
			args[k] = []byte(v)
		}
	}
	req := &protos.InvokeRequest{ModuleName: "xkernel", ContractName: cname, MethodName: method, Args: args}
	if spec.ConAmt > 0 {
		req.Amount = fmt.Sprint(spec.ConAmt)
	}
	initiator := Ring[spec.From].Address
	return nm.N.Chain.PreExec(nm.N.Ctx, []*protos.InvokeRequest{req}, initiator, []string{initiator})
}

// AssembleFromResponse builds the transaction the way a client does from an InvokeResponse: read /
// write set, requests with the returned limits, contract utxo inputs / outputs, and a "$" output
// paying the gas used (taken from the payer's last output). It returns nil if the change cannot
// cover the gas.
func AssembleFromResponse(spec *TxSpec, resp *protos.InvokeResponse) *pb.Transaction {
	k := Ring[spec.From]
	v := spec.Version
	if v == 0 {
		v = 3
	}
	tx := &pb.Transaction{Version: v, Nonce: NonceOf(spec), Timestamp: int64(spec.Seq), Initiator: k.Address,
		AuthRequire: []string{k.Address}, Desc: descOf(spec)}
	for _, r := range spec.Ins {
		id, _ := hex.DecodeString(r.Txid)
		a, _ := new(big.Int).SetString(r.Amount, 10)
		tx.TxInputs = append(tx.TxInputs, &protos.TxInput{RefTxid: id, RefOffset: r.Off, FromAddr: []byte(r.addr()), Amount: a.Bytes(), FrozenHeight: r.Frozen})
	}
	for _, o := range spec.Outs {
		tx.TxOutputs = append(tx.TxOutputs, &protos.TxOutput{ToAddr: []byte(o.addr()), Amount: o.amountBytes(), FrozenHeight: o.Frozen})
	}
	if resp.GasUsed > 0 {
		last := tx.TxOutputs[len(tx.TxOutputs)-1]
		rest := new(big.Int).Sub(new(big.Int).SetBytes(last.Amount), big.NewInt(resp.GasUsed))
		if rest.Sign() < 0 || string(last.ToAddr) == FeeAddr {
			return nil
		}
		last.Amount = rest.Bytes()
		tx.TxOutputs = append(tx.TxOutputs, &protos.TxOutput{ToAddr: []byte(FeeAddr), Amount: big.NewInt(resp.GasUsed).Bytes()})
	}
	tx.ContractRequests = resp.Requests
	tx.TxInputsExt = resp.Inputs
	tx.TxOutputsExt = resp.Outputs
	tx.TxInputs = append(tx.TxInputs, resp.UtxoInputs...)
	tx.TxOutputs = append(tx.TxOutputs, resp.UtxoOutputs...)
	SignTx(tx, k)
	return tx
}

// TryMutant submits a (re-signed) mutant the way Chain.SubmitTx does and reports whether it was
// admitted; a refused mutant must leave no trace (checked by the caller with CheckState).
func (nm *NodeMachine) TryMutant(tx *pb.Transaction) (admitted bool, why string) {
	sub := CloneTx(tx)
	ok, err := nm.N.State.VerifyTx(sub)
	if !ok || err != nil {
		return false, fmt.Sprintf("VerifyTx: %v/%v", ok, err)
	}
	if err := nm.N.State.DoTx(sub); err != nil {
		return false, fmt.Sprintf("DoTx: %v", err)
	}
	return true, ""
}

// SubmitReal submits tx through the real Chain.SubmitTx and keeps the model in sync.
func (nm *NodeMachine) SubmitReal(tx *pb.Transaction) error {
	want := nm.PoolState().Check(tx, nm.ledgerHeight())
	err := nm.N.Chain.SubmitTx(nm.N.Ctx, CloneTx(tx))
	if want == nil && err != nil {
		return fmt.Errorf("SubmitTx refuses the pre-executed transaction although every input is current: %v (%s)", err, DescribeTx(tx))
	}
	if want != nil && err == nil {
		return fmt.Errorf("SubmitTx admits a transaction the model refuses (%v): %s", want, DescribeTx(tx))
	}
	if err == nil {
		nm.Pool = append(nm.Pool, tx)
		nm.Stat["tx-admitted"]++
	}
	return nil
}
