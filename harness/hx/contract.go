package hx

// contract.go: harness kernel contracts "$verif" / "$verif2". The method "Run" interprets a tiny
// program carried in the request argument "prog" (JSON), so that the verifier re-executes exactly
// the same program through the real sandbox -> bridge -> kernel-VM path.

import (
	"encoding/json"
	"errors"
	"fmt"
	"math/big"
	"sort"
	"strings"

	"github.com/xuperchain/xupercore/kernel/contract"
	"github.com/xuperchain/xupercore/protos"
)

const (
	VerifContract  = "$verif"
	VerifContract2 = "$verif2"
)

// Ins is one instruction of a contract program.
type Ins struct {
	Op   string `json:"op"`
	B    string `json:"b,omitempty"`  // bucket
	K    string `json:"k,omitempty"`  // key (scan: start key)
	V    string `json:"v,omitempty"`  // value (scan: result key)
	K2   string `json:"k2,omitempty"` // putfrom: source key; scan: end key
	N    int    `json:"n,omitempty"`  // scan: stop after n (0 = all); fee: xfee amount
	To   string `json:"to,omitempty"`
	Amt  int64  `json:"amt,omitempty"`
	Nil1 bool   `json:"nil1,omitempty"` // scan: start key nil
	Nil2 bool   `json:"nil2,omitempty"` // scan: end key nil
	Prog []Ins  `json:"prog,omitempty"` // call: nested program for $verif2
}

// EncodeProg renders a program as request arguments.
func EncodeProg(prog []Ins) map[string][]byte {
	b, _ := json.Marshal(prog)
	return map[string][]byte{"prog": b}
}

func runProg(ctx contract.KContext, self string) (*contract.Response, error) {
	var prog []Ins
	if err := json.Unmarshal(ctx.Args()["prog"], &prog); err != nil {
		return nil, fmt.Errorf("bad program: %v", err)
	}
	var out []string
	for _, in := range prog {
		b := in.B
		if b == "" {
			b = self
		}
		switch in.Op {
		case "get":
			v, err := ctx.Get(b, []byte(in.K))
			if err != nil {
				out = append(out, "get:"+in.K+":!")
			} else {
				out = append(out, "get:"+in.K+":"+string(v))
			}
		case "put":
			if err := ctx.Put(b, []byte(in.K), []byte(in.V)); err != nil {
				return nil, err
			}
		case "putfrom":
			v, err := ctx.Get(b, []byte(in.K2))
			nv := in.V + "<"
			if err == nil {
				nv += string(v)
			} else {
				nv += "!"
			}
			if len(nv) > 40 {
				nv = nv[:40]
			}
			if err := ctx.Put(b, []byte(in.K), []byte(nv)); err != nil {
				return nil, err
			}
		case "del":
			if err := ctx.Del(b, []byte(in.K)); err != nil {
				return nil, err
			}
		case "scan":
			var s, e []byte
			if !in.Nil1 {
				s = []byte(in.K)
			}
			if !in.Nil2 {
				e = []byte(in.K2)
			}
			it, err := ctx.Select(b, s, e)
			if err != nil {
				return nil, err
			}
			var keys []string
			for it.Next() {
				keys = append(keys, string(it.Key())+"="+string(it.Value()))
				if in.N > 0 && len(keys) >= in.N {
					break
				}
			}
			if it.Error() != nil {
				it.Close()
				return nil, it.Error()
			}
			it.Close()
			res := strings.Join(keys, ",")
			out = append(out, "scan:"+res)
			if in.V != "" {
				if len(res) > 60 {
					res = res[:60]
				}
				if err := ctx.Put(b, []byte(in.V), []byte("s:"+res)); err != nil {
					return nil, err
				}
			}
		case "transfer":
			if err := ctx.Transfer(self, in.To, big.NewInt(in.Amt)); err != nil {
				return nil, err
			}
		case "call":
			resp, err := ctx.Call("xkernel", VerifContract2, "Run", EncodeProg(in.Prog))
			if err != nil {
				return nil, err
			}
			out = append(out, "call:"+string(resp.Body))
		case "fee":
			ctx.AddResourceUsed(contract.Limits{XFee: int64(in.N)})
		case "emit":
			ctx.AddEvent(&protos.ContractEvent{Contract: self, Name: in.K, Body: []byte(in.V)})
		case "fail":
			return nil, errors.New("program failed on purpose")
		case "status":
			return &contract.Response{Status: in.N, Message: "status " + fmt.Sprint(in.N)}, nil
		default:
			return nil, fmt.Errorf("unknown op %q", in.Op)
		}
	}
	return &contract.Response{Status: 200, Body: []byte(strings.Join(out, ";"))}, nil
}

// RegisterVerifContracts installs the harness contracts into a contract manager.
func RegisterVerifContracts(mg contract.Manager) {
	reg := mg.GetKernRegistry()
	reg.RegisterKernMethod(VerifContract, "Run", func(ctx contract.KContext) (*contract.Response, error) {
		return runProg(ctx, VerifContract)
	})
	reg.RegisterKernMethod(VerifContract2, "Run", func(ctx contract.KContext) (*contract.Response, error) {
		return runProg(ctx, VerifContract2)
	})
	// Tick is the target of generated timer tasks: it appends its argument to the key "tick".
	reg.RegisterKernMethod(VerifContract, "Tick", func(ctx contract.KContext) (*contract.Response, error) {
		old, _ := ctx.Get(VerifContract, []byte("tick"))
		nv := append(append([]byte{}, old...), ctx.Args()["args"]...)
		if len(nv) > 48 {
			nv = nv[len(nv)-48:]
		}
		if err := ctx.Put(VerifContract, []byte("tick"), nv); err != nil {
			return nil, err
		}
		return &contract.Response{Status: 200}, nil
	})
}

// sortedKeys is a helper for deterministic iteration.
func sortedKeys(m map[string]string) []string {
	ks := make([]string, 0, len(m))
	for k := range m {
		ks = append(ks, k)
	}
	sort.Strings(ks)
	return ks
}
