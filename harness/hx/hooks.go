package hx

import "github.com/xuperchain/xupercore/lib/verifhook"

// WaitAsync joins the background work bracketed by the verif hooks (Walk's pool re-submission).
func WaitAsync() { verifhook.WaitAsync() }
