package hx

// sched.go: a cooperative deterministic scheduler for interleaving checks (C12).
//
// Every request runs in its own goroutine ("thread"); exactly one thread runs at a time. At every
// yield point of the code under test (Sched.Yield, installed by the caller as the verifhook yield
// function) the running thread parks and hands control back to Run, which asks the caller's pick
// function which runnable thread advances to its next yield point (or to completion). The executed
// schedule (thread index + reported point per step) is recorded and replayable.
//
// Blocking locks: Sched.BeforeLock (installed as the verifhook before-lock function) keeps a thread
// from blocking inside the Go runtime while another, parked thread holds the lock: it parks until
// probe() says the lock is free. A thread whose probe failed is not offered again until some other
// thread has made progress; when every unfinished thread waits like that, nobody can ever move:
// that is a deadlock and Run reports it.
//
// The file has no dependency on the code under test.

import (
	"fmt"
	"runtime"
	"runtime/debug"
	"sync/atomic"
	"time"
)

// SchedStep is one executed scheduling step: thread T ran until it reported P
// ("y:<point>" parked at a yield point, "b:<lock>" parked waiting for a lock, "done", "panic").
type SchedStep struct {
	T int    `json:"t"`
	P string `json:"p"`
}

const (
	repYield = iota
	repBlocked
	repDone
	repPanic
)

type schedReport struct {
	kind  int
	point string
}

type schedThread struct {
	id      int
	goid    atomic.Uint64
	resume  chan struct{}
	report  chan schedReport
	done    bool
	waiting bool // last report was a failed lock probe and nobody has made progress since
	last    SchedStep
	panicV  string
}

// Sched is one scheduling session (one case).
type Sched struct {
	threads []*schedThread
	cur     atomic.Pointer[schedThread]
	Steps   []SchedStep
	// Wedge is the wall-clock safety limit for one step (harness problem, never a verdict).
	Wedge time.Duration
}

// SchedResult is the outcome of Run.
type SchedResult struct {
	Deadlock      bool     // every unfinished thread waits for a lock that cannot become free
	Waiting       []string // Deadlock: what each unfinished thread waits for
	Wedged        bool     // a step did not come back within Wedge (inconclusive: harness wedged)
	OverBudget    bool     // more than maxSteps steps were needed (the rest ran lowest-thread-first)
	NoTermination bool     // a thread ran alone for the hard step cap without finishing
	Panics        []string // per thread: "" or the recovered panic with stack
}

// NewSched creates an empty session.
func NewSched() *Sched { return &Sched{Wedge: 45 * time.Second} }

func curGoid() uint64 {
	var buf [64]byte
	n := runtime.Stack(buf[:], false)
	// "goroutine 123 [running]:..."
	var id uint64
	for i := len("goroutine "); i < n; i++ {
		c := buf[i]
		if c < '0' || c > '9' {
			break
		}
		id = id*10 + uint64(c-'0')
	}
	return id
}

// Spawn registers a thread; it starts running when Run first picks it. Returns the thread index.
func (s *Sched) Spawn(f func()) int {
	t := &schedThread{id: len(s.threads), resume: make(chan struct{}), report: make(chan schedReport)}
	s.threads = append(s.threads, t)
	go func() {
		<-t.resume
		t.goid.Store(curGoid())
		defer func() {
			if r := recover(); r != nil {
				t.panicV = fmt.Sprintf("%v\n%s", r, debug.Stack())
				t.report <- schedReport{repPanic, "panic"}
				return
			}
			t.report <- schedReport{repDone, "done"}
		}()
		f()
	}()
	return t.id
}

// mine returns the running thread if the caller is that thread's goroutine (anything else - a
// background goroutine of the code under test - passes through the hooks untouched).
func (s *Sched) mine() *schedThread {
	t := s.cur.Load()
	if t == nil || t.goid.Load() != curGoid() {
		return nil
	}
	return t
}

// Yield parks the running thread at a named point until it is picked again.
func (s *Sched) Yield(point string) {
	t := s.mine()
	if t == nil {
		return
	}
	t.report <- schedReport{repYield, point}
	<-t.resume
}

// BeforeLock parks the running thread until probe() reports that the lock can be taken.
func (s *Sched) BeforeLock(name string, probe func() bool) {
	t := s.mine()
	if t == nil {
		return
	}
	for !probe() {
		t.report <- schedReport{repBlocked, name}
		<-t.resume
	}
}

// N is the number of spawned threads.
func (s *Sched) N() int { return len(s.threads) }

// Done tells whether thread i has finished.
func (s *Sched) Done(i int) bool { return s.threads[i].done }

// Last is the last report of thread i ("" if it has not run yet).
func (s *Sched) Last(i int) string { return s.threads[i].last.P }

// Schedule returns the executed schedule as a list of thread indexes.
func (s *Sched) Schedule() []int {
	out := make([]int, len(s.Steps))
	for i, st := range s.Steps {
		out[i] = st.T
	}
	return out
}

// Run drives the threads until all have finished. pick receives the runnable thread indexes
// (ascending, never empty) and returns one of them (anything else selects the lowest). After
// maxSteps steps pick is no longer consulted: the lowest runnable thread runs (drain).
func (s *Sched) Run(pick func(runnable []int) int, maxSteps int) SchedResult {
	res := SchedResult{Panics: make([]string, len(s.threads))}
	timer := time.NewTimer(s.Wedge)
	defer timer.Stop()
	hardCap := maxSteps + 20000
	runnable := make([]int, 0, len(s.threads))
	for {
		runnable = runnable[:0]
		unfinished := 0
		for _, t := range s.threads {
			if t.done {
				continue
			}
			unfinished++
			if !t.waiting {
				runnable = append(runnable, t.id)
			}
		}
		if unfinished == 0 {
			break
		}
		if len(runnable) == 0 {
			res.Deadlock = true
			for _, t := range s.threads {
				if !t.done {
					res.Waiting = append(res.Waiting, fmt.Sprintf("T%d waits for %s", t.id, t.last.P))
				}
			}
			break
		}
		choice := runnable[0]
		if len(s.Steps) < maxSteps {
			c := pick(runnable)
			for _, r := range runnable {
				if r == c {
					choice = c
				}
			}
		} else {
			res.OverBudget = true
			if len(s.Steps) >= hardCap {
				res.NoTermination = true
				break
			}
		}
		t := s.threads[choice]
		s.cur.Store(t)
		if !timer.Stop() {
			select {
			case <-timer.C:
			default:
			}
		}
		timer.Reset(s.Wedge)
		t.resume <- struct{}{}
		var r schedReport
		select {
		case r = <-t.report:
		case <-timer.C:
			res.Wedged = true
			s.cur.Store(nil)
			return res
		}
		s.cur.Store(nil)
		step := SchedStep{T: t.id}
		switch r.kind {
		case repYield:
			step.P = "y:" + r.point
		case repBlocked:
			step.P = "b:" + r.point
		case repDone:
			step.P = "done"
			t.done = true
		case repPanic:
			step.P = "panic"
			t.done = true
			res.Panics[t.id] = t.panicV
		}
		t.last = step
		s.Steps = append(s.Steps, step)
		if r.kind == repBlocked {
			t.waiting = true
		} else {
			// progress: everybody who waits for a lock may probe again
			for _, o := range s.threads {
				o.waiting = false
			}
		}
	}
	return res
}

// FormatSteps renders the executed schedule for messages: "T1:y:trylock.key T0:done ...".
func FormatSteps(steps []SchedStep) string {
	b := make([]byte, 0, len(steps)*16)
	for i, st := range steps {
		if i > 0 {
			b = append(b, ' ')
		}
		b = append(b, fmt.Sprintf("T%d:%s", st.T, st.P)...)
	}
	return string(b)
}
