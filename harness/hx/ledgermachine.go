package hx

// ledgermachine.go: ledger-only state machine (C04, and the ledger half of C05/C06):
// operations as plain data, a reference model of the block tree written from the property
// statement, and the invariant that compares every ledger query with the model.

import (
	"bytes"
	"fmt"
	"math/big"
	"sort"

	ledgerpkg "github.com/xuperchain/xupercore/bcs/ledger/xledger/ledger"
	pb "github.com/xuperchain/xupercore/bcs/ledger/xledger/xldgpb"
)

// LOp is one operation of the ledger machine.
type LOp struct {
	Op     string   `json:"op"`               // confirm | resubmit | truncate | reopen | failwrite
	Label  string   `json:"label,omitempty"`  // confirm: label of the new block
	Parent int      `json:"parent,omitempty"` // confirm: index of the parent in the model (-1: unknown parent)
	Txs    []string `json:"txs,omitempty"`    // confirm: labels of the non-coinbase transactions
	Kind   string   `json:"kind,omitempty"`   // confirm: ok | twocb
	Target int      `json:"target,omitempty"` // truncate / resubmit: block index
	Nth    int      `json:"nth,omitempty"`    // failwrite: fail the n-th write from now
}

// MBlock is a block of the reference model.
type MBlock struct {
	Idx    int
	Label  string
	ID     []byte
	Parent int // -1 for genesis
	Height int64
	TxIDs  [][]byte // all transactions incl. coinbase, in order
	Stored bool
	Block  *pb.InternalBlock // pristine copy (never handed to the ledger)
}

// LedgerModel is the reference model of the block tree.
type LedgerModel struct {
	Blocks []*MBlock
	Tip    int
	ByID   map[string]int
	// TxLabels: every transaction label ever used -> txid
	TxIDs map[string][]byte
	TxOrd []string
}

func (m *LedgerModel) OnMain(i int) bool {
	for j := m.Tip; j >= 0; j = m.Blocks[j].Parent {
		if j == i {
			return true
		}
	}
	return false
}

// MainChain returns genesis..tip.
func (m *LedgerModel) MainChain() []int {
	var rev []int
	for j := m.Tip; j >= 0; j = m.Blocks[j].Parent {
		rev = append(rev, j)
	}
	for l, r := 0, len(rev)-1; l < r; l, r = l+1, r-1 {
		rev[l], rev[r] = rev[r], rev[l]
	}
	return rev
}

func (m *LedgerModel) ancestorAt(i int, h int64) int {
	for i >= 0 && m.Blocks[i].Height > h {
		i = m.Blocks[i].Parent
	}
	return i
}

// LCA is the lowest common ancestor.
func (m *LedgerModel) LCA(a, b int) int {
	ha, hb := m.Blocks[a].Height, m.Blocks[b].Height
	if ha > hb {
		a = m.ancestorAt(a, hb)
	} else if hb > ha {
		b = m.ancestorAt(b, ha)
	}
	for a != b {
		a, b = m.Blocks[a].Parent, m.Blocks[b].Parent
	}
	return a
}

// Stored lists the indexes of stored blocks.
func (m *LedgerModel) StoredIdx() []int {
	var out []int
	for _, b := range m.Blocks {
		if b.Stored {
			out = append(out, b.Idx)
		}
	}
	return out
}

// Leaves are stored blocks without stored children.
func (m *LedgerModel) Leaves() []int {
	hasChild := map[int]bool{}
	for _, b := range m.Blocks {
		if b.Stored && b.Parent >= 0 {
			hasChild[b.Parent] = true
		}
	}
	var out []int
	for _, b := range m.Blocks {
		if b.Stored && !hasChild[b.Idx] {
			out = append(out, b.Idx)
		}
	}
	return out
}

func (m *LedgerModel) containsTx(i int, txid []byte) bool {
	for _, t := range m.Blocks[i].TxIDs {
		if bytes.Equal(t, txid) {
			return true
		}
	}
	return false
}

// LedgerMachine couples a real ledger with the model.
type LedgerMachine struct {
	L        *LedgerOnly              // set for the ledger-only machine
	Leg      func() *ledgerpkg.Ledger // current ledger instance
	M        *LedgerModel
	Ts       int64
	Findings *FindingSet
	// statistics for non-triviality rules
	Reorgs, SharedMoved, Truncs, Rejected, Reopens int
	// ExcludedSteps counts generator/oracle exclusions due to listed findings
	CheckEvery int
}

// NewLedgerMachine creates ledger + model with genesis.
func NewLedgerMachine(fs *FindingSet) (*LedgerMachine, error) {
	lo, err := NewLedgerOnly(DefaultOpts())
	if err != nil {
		return nil, err
	}
	m := &LedgerModel{ByID: map[string]int{}, TxIDs: map[string][]byte{}}
	g := &MBlock{Idx: 0, Label: "g", ID: lo.Root.Blockid, Parent: -1, Height: 0, Stored: true, Block: CloneBlock(lo.Root)}
	for _, t := range lo.Root.Transactions {
		g.TxIDs = append(g.TxIDs, t.Txid)
	}
	m.Blocks = append(m.Blocks, g)
	m.ByID[string(g.ID)] = 0
	lm := &LedgerMachine{L: lo, M: m, Ts: 1000, Findings: fs}
	lm.Leg = func() *ledgerpkg.Ledger { return lm.L.Ledger }
	return lm, nil
}

// NewLedgerMachineOn couples the model with the ledger of an existing node (genesis = root).
func NewLedgerMachineOn(leg func() *ledgerpkg.Ledger, root *pb.InternalBlock, fs *FindingSet) *LedgerMachine {
	m := &LedgerModel{ByID: map[string]int{}, TxIDs: map[string][]byte{}}
	g := &MBlock{Idx: 0, Label: "g", ID: root.Blockid, Parent: -1, Height: 0, Stored: true, Block: CloneBlock(root)}
	for _, t := range root.Transactions {
		g.TxIDs = append(g.TxIDs, t.Txid)
	}
	m.Blocks = append(m.Blocks, g)
	m.ByID[string(g.ID)] = 0
	return &LedgerMachine{Leg: leg, M: m, Ts: 1000, Findings: fs}
}

func (lm *LedgerMachine) Close() {
	if lm.L != nil {
		lm.L.Destroy()
	}
}

func (lm *LedgerMachine) txByLabel(label string) *pb.Transaction {
	tx := DummyTx(label)
	if _, ok := lm.M.TxIDs[label]; !ok {
		lm.M.TxIDs[label] = tx.Txid
		lm.M.TxOrd = append(lm.M.TxOrd, label)
	}
	return tx
}

// Apply executes one operation on ledger and model and checks the operation's own result.
func (lm *LedgerMachine) Apply(op LOp) error {
	m := lm.M
	leg := lm.Leg()
	switch op.Op {
	case "confirm":
		lm.Ts++
		var preHash []byte
		var height int64
		if op.Parent >= 0 {
			p := m.Blocks[op.Parent]
			preHash, height = p.ID, p.Height+1
		} else {
			preHash, height = bytes.Repeat([]byte{0xEE}, 32), 7
		}
		txs := []*pb.Transaction{AwardTx(Ring[0].Address, big.NewInt(1000), "award-"+op.Label, lm.Ts)}
		if op.Kind == "twocb" {
			txs = append(txs, AwardTx(Ring[0].Address, big.NewInt(1000), "award2-"+op.Label, lm.Ts))
		}
		for _, l := range op.Txs {
			txs = append(txs, lm.txByLabel(l))
		}
		blk, err := MakeBlock(leg, Ring[0], preHash, height, lm.Ts, txs)
		if err != nil {
			return err
		}
		_, err = lm.ConfirmPrepared(op.Label, op.Parent, blk, op.Kind == "twocb")
		return err
	case "resubmit":
		// caller-level duplicate: miner.trySyncBlock / downloadMissBlock skip blocks the ledger has
		b := m.Blocks[op.Target]
		if leg.ExistBlock(b.ID) != b.Stored {
			return fmt.Errorf("ExistBlock(%s)=%v, model stored=%v", b.Label, !b.Stored, b.Stored)
		}
	case "truncate":
		t := m.Blocks[op.Target]
		if !t.Stored || !m.OnMain(op.Target) {
			return fmt.Errorf("generator bug: truncate target not on main chain")
		}
		if err := leg.Truncate(t.ID); err != nil {
			return fmt.Errorf("Truncate(%s) failed: %v", t.Label, err)
		}
		for _, b := range m.Blocks {
			if b.Height > t.Height {
				b.Stored = false
			}
		}
		m.Tip = op.Target
		lm.Truncs++
	case "reopen":
		if err := lm.L.Reopen(); err != nil {
			return fmt.Errorf("reopen failed: %v", err)
		}
		lm.Reopens++
	default:
		return fmt.Errorf("unknown ledger op %q", op.Op)
	}
	return nil
}

// ConfirmPrepared submits a prepared block to the ledger and checks the outcome against the model.
// parent is the model index of the parent (-1: unknown). It returns whether the block was stored.
func (lm *LedgerMachine) ConfirmPrepared(label string, parent int, blk *pb.InternalBlock, twoCoinbase bool) (bool, error) {
	m := lm.M
	leg := lm.Leg()
	if _, dup := m.ByID[string(blk.Blockid)]; dup {
		return false, nil // identical block generated twice: nothing to do
	}
	height := int64(7)
	if parent >= 0 {
		height = m.Blocks[parent].Height + 1
	}
	mb := &MBlock{Idx: len(m.Blocks), Label: label, ID: blk.Blockid, Parent: parent, Height: height, Block: CloneBlock(blk)}
	for _, t := range blk.Transactions {
		mb.TxIDs = append(mb.TxIDs, t.Txid)
	}
	// expectation from the model
	expectOK := true
	why := ""
	oldTip := m.Tip
	extends := parent == oldTip
	switches := false
	if parent < 0 || !m.Blocks[parent].Stored {
		expectOK, why = false, "parent not stored"
	} else if twoCoinbase {
		expectOK, why = false, "two coinbase transactions"
	} else {
		switches = !extends && height > m.Blocks[oldTip].Height
		if extends || switches {
			// duplicated transaction at or below the fork point on the main chain
			fork := oldTip
			if switches {
				fork = m.LCA(oldTip, parent)
			}
			for j := fork; j >= 0 && expectOK; j = m.Blocks[j].Parent {
				for _, t := range mb.TxIDs {
					if m.containsTx(j, t) {
						expectOK, why = false, "transaction duplicated on the main chain at or below the fork point"
						break
					}
				}
			}
		}
	}
	mb.Stored = false
	m.Blocks = append(m.Blocks, mb)
	m.ByID[string(mb.ID)] = mb.Idx
	before := lm.observe()
	st := leg.ConfirmBlock(CloneBlock(blk), false)
	if st.Succ != expectOK {
		return st.Succ, fmt.Errorf("ConfirmBlock(%s on %s) Succ=%v err=%v, model expects %v (%s)", label, lm.label(parent), st.Succ, st.Error, expectOK, why)
	}
	if !st.Succ {
		lm.Rejected++
		if why == "transaction duplicated on the main chain at or below the fork point" && st.Error != ledgerpkg.ErrTxDuplicated {
			return false, fmt.Errorf("ConfirmBlock(%s): expected ErrTxDuplicated, got %v", label, st.Error)
		}
		after := lm.observe()
		if d := DiffObs(before, after); d != "" {
			return false, fmt.Errorf("rejected block %s (%s) changed observable ledger state: %s", label, why, d)
		}
		return false, nil
	}
	mb.Stored = true
	if extends || switches {
		if switches {
			lm.Reorgs++
			// a shared transaction changes its block?
			fork := m.LCA(oldTip, parent)
			oldTx := map[string]bool{}
			for j := oldTip; j != fork; j = m.Blocks[j].Parent {
				for _, t := range m.Blocks[j].TxIDs {
					oldTx[string(t)] = true
				}
			}
			for j := mb.Idx; j != fork; j = m.Blocks[j].Parent {
				for _, t := range m.Blocks[j].TxIDs {
					if oldTx[string(t)] {
						lm.SharedMoved++
					}
				}
			}
		}
		m.Tip = mb.Idx
	}
	if st.TrunkSwitch != switches {
		return true, fmt.Errorf("ConfirmBlock(%s): TrunkSwitch=%v, model %v", label, st.TrunkSwitch, switches)
	}
	if st.Orphan != (!extends && !switches) {
		return true, fmt.Errorf("ConfirmBlock(%s): Orphan=%v, model %v", label, st.Orphan, !extends && !switches)
	}
	if st.Split != !extends {
		return true, fmt.Errorf("ConfirmBlock(%s): Split=%v, model %v", label, st.Split, !extends)
	}
	return true, nil
}

func (lm *LedgerMachine) label(i int) string {
	if i < 0 {
		return "<unknown>"
	}
	return lm.M.Blocks[i].Label
}

// observe dumps every ledger query over the known universe (for before/after comparisons).
func (lm *LedgerMachine) observe() map[string]string {
	return ObserveLedger(lm.Leg(), lm.M)
}

// ObserveLedger dumps the answers of every ledger query over the universe known to the model.
func ObserveLedger(leg *ledgerpkg.Ledger, m *LedgerModel) map[string]string {
	o := map[string]string{}
	meta := leg.GetMeta()
	o["meta"] = fmt.Sprintf("root=%x tip=%x h=%d", meta.RootBlockid, meta.TipBlockid, meta.TrunkHeight)
	var maxH int64
	for _, b := range m.Blocks {
		if b.Height > maxH {
			maxH = b.Height
		}
		k := "blk/" + b.Label
		o[k+"/exist"] = fmt.Sprint(leg.ExistBlock(b.ID))
		if qb, err := leg.QueryBlock(b.ID); err != nil {
			o[k+"/query"] = "err:" + err.Error()
		} else {
			ids := ""
			for _, t := range qb.Transactions {
				ids += Hex8(t.Txid) + ","
			}
			o[k+"/query"] = fmt.Sprintf("h=%d pre=%x trunk=%v next=%x txs=%s", qb.Height, qb.PreHash, qb.InTrunk, qb.NextHash, ids)
		}
		if qh, err := leg.QueryBlockHeader(b.ID); err != nil {
			o[k+"/header"] = "err:" + err.Error()
		} else {
			o[k+"/header"] = fmt.Sprintf("h=%d pre=%x trunk=%v next=%x", qh.Height, qh.PreHash, qh.InTrunk, qh.NextHash)
		}
	}
	for h := int64(0); h <= maxH+1; h++ {
		if qb, err := leg.QueryBlockByHeight(h); err != nil {
			o[fmt.Sprintf("height/%d", h)] = "err:" + err.Error()
		} else {
			o[fmt.Sprintf("height/%d", h)] = fmt.Sprintf("%x", qb.Blockid)
		}
	}
	for _, l := range m.TxOrd {
		id := m.TxIDs[l]
		k := "tx/" + l
		has, _ := leg.HasTransaction(id)
		o[k+"/has"] = fmt.Sprint(has)
		o[k+"/intrunk"] = fmt.Sprint(leg.IsTxInTrunk(id))
		if tx, err := leg.QueryTransaction(id); err != nil {
			o[k+"/blockid"] = "err:" + err.Error()
		} else {
			o[k+"/blockid"] = fmt.Sprintf("%x", tx.Blockid)
		}
		if qb, err := leg.QueryBlockByTxid(id); err != nil {
			o[k+"/byTxid"] = "err:" + err.Error()
		} else {
			o[k+"/byTxid"] = fmt.Sprintf("%x trunk=%v", qb.Blockid, qb.InTrunk)
		}
	}
	if bi, err := leg.GetBranchInfo([]byte{}, -1); err == nil {
		ss := make([]string, 0, len(bi))
		for _, s := range bi {
			ss = append(ss, fmt.Sprintf("%x", s))
		}
		sort.Strings(ss)
		o["branches"] = fmt.Sprint(ss)
	} else {
		o["branches"] = "err:" + err.Error()
	}
	return o
}

// DiffObs renders the differences between two observation maps ("" if equal).
func DiffObs(a, b map[string]string) string {
	keys := map[string]bool{}
	for k := range a {
		keys[k] = true
	}
	for k := range b {
		keys[k] = true
	}
	ks := make([]string, 0, len(keys))
	for k := range keys {
		ks = append(ks, k)
	}
	sort.Strings(ks)
	out := ""
	n := 0
	for _, k := range ks {
		if a[k] != b[k] {
			n++
			if n <= 6 {
				out += fmt.Sprintf("[%s: %q -> %q] ", k, a[k], b[k])
			}
		}
	}
	if n > 6 {
		out += fmt.Sprintf("(+%d more)", n-6)
	}
	return out
}

// CheckInvariant compares every query of the C04 statement with the model.
func (lm *LedgerMachine) CheckInvariant() error {
	return CheckLedgerAgainstModel(lm.Leg(), lm.M, lm.Findings)
}

// CheckLedgerAgainstModel is the C04 oracle, usable on any ledger instance (live, reopened, image).
func CheckLedgerAgainstModel(leg *ledgerpkg.Ledger, m *LedgerModel, fs *FindingSet) error {
	meta := leg.GetMeta()
	tip := m.Blocks[m.Tip]
	if !bytes.Equal(meta.RootBlockid, m.Blocks[0].ID) {
		return fmt.Errorf("meta root %x != genesis", meta.RootBlockid)
	}
	if !bytes.Equal(meta.TipBlockid, tip.ID) || meta.TrunkHeight != tip.Height {
		return fmt.Errorf("meta tip=%s/%d, model tip=%s/%d", nameOf(m, meta.TipBlockid), meta.TrunkHeight, tip.Label, tip.Height)
	}
	main := m.MainChain()
	onMain := map[int]bool{}
	next := map[int]int{}
	for k, i := range main {
		onMain[i] = true
		if k+1 < len(main) {
			next[i] = main[k+1]
		}
	}
	var maxH int64
	for _, b := range m.Blocks {
		if b.Height > maxH {
			maxH = b.Height
		}
		ex := leg.ExistBlock(b.ID)
		if ex != b.Stored {
			if b.Stored || !fs.Active("C04-truncate-leaves-stub") || b.Height <= tip.Height {
				return fmt.Errorf("ExistBlock(%s)=%v, model stored=%v (height %d, tip height %d)", b.Label, ex, b.Stored, b.Height, tip.Height)
			}
		}
		if b.Stored && b.Height > tip.Height {
			return fmt.Errorf("model bug: stored block above tip")
		}
		for _, q := range []struct {
			name string
			f    func([]byte) (*pb.InternalBlock, error)
			body bool
		}{{"QueryBlock", leg.QueryBlock, true}, {"QueryBlockHeader", leg.QueryBlockHeader, false}} {
			qb, err := q.f(b.ID)
			if !b.Stored {
				if err == nil && !(fs.Active("C04-truncate-leaves-stub") && ex) {
					return fmt.Errorf("%s(%s) succeeds for a block the model does not store", q.name, b.Label)
				}
				continue
			}
			if err != nil {
				return fmt.Errorf("%s(%s): %v", q.name, b.Label, err)
			}
			if qb.Height != b.Height || !bytes.Equal(qb.PreHash, parentID(m, b)) {
				return fmt.Errorf("%s(%s): height=%d prehash=%x, model height=%d parent=%s", q.name, b.Label, qb.Height, qb.PreHash, b.Height, lab(m, b.Parent))
			}
			if qb.InTrunk != onMain[b.Idx] {
				return fmt.Errorf("%s(%s).InTrunk=%v, model on main chain=%v", q.name, b.Label, qb.InTrunk, onMain[b.Idx])
			}
			var wantNext []byte
			if n, ok := next[b.Idx]; ok {
				wantNext = m.Blocks[n].ID
			}
			if !bytes.Equal(qb.NextHash, wantNext) {
				return fmt.Errorf("%s(%s).NextHash=%s, model main-chain child=%s", q.name, b.Label, nameOf(m, qb.NextHash), nameOf(m, wantNext))
			}
			if q.body {
				if len(qb.Transactions) != len(b.TxIDs) {
					return fmt.Errorf("%s(%s) has %d transactions, model %d", q.name, b.Label, len(qb.Transactions), len(b.TxIDs))
				}
				for k, t := range qb.Transactions {
					if !bytes.Equal(t.Txid, b.TxIDs[k]) {
						return fmt.Errorf("%s(%s) transaction %d differs", q.name, b.Label, k)
					}
				}
			}
		}
	}
	for h := int64(0); h <= maxH+1; h++ {
		qb, err := leg.QueryBlockByHeight(h)
		if h <= tip.Height {
			want := m.Blocks[main[h]]
			if err != nil {
				return fmt.Errorf("QueryBlockByHeight(%d): %v, model %s", h, err, want.Label)
			}
			if !bytes.Equal(qb.Blockid, want.ID) {
				return fmt.Errorf("QueryBlockByHeight(%d)=%s, model %s", h, nameOf(m, qb.Blockid), want.Label)
			}
		} else if err == nil {
			return fmt.Errorf("QueryBlockByHeight(%d)=%s above trunk height %d", h, nameOf(m, qb.Blockid), tip.Height)
		}
	}
	// transactions
	allTx := map[string][]byte{}
	ord := []string{}
	for _, l := range m.TxOrd {
		allTx[l] = m.TxIDs[l]
		ord = append(ord, l)
	}
	seenTx := map[string]bool{}
	for _, l := range ord {
		seenTx[string(allTx[l])] = true
	}
	for _, b := range m.Blocks {
		// every transaction of every block (a transaction may sit in blocks of several branches)
		for k, id := range b.TxIDs {
			if seenTx[string(id)] {
				continue
			}
			seenTx[string(id)] = true
			l := fmt.Sprintf("tx%d:%s", k, b.Label)
			allTx[l] = id
			ord = append(ord, l)
		}
	}
	for _, l := range ord {
		id := allTx[l]
		var mainHolders []int
		for _, i := range main {
			if m.containsTx(i, id) {
				mainHolders = append(mainHolders, i)
			}
		}
		inTrunk := leg.IsTxInTrunk(id)
		if inTrunk != (len(mainHolders) > 0) {
			return fmt.Errorf("IsTxInTrunk(%s)=%v, model: %d main-chain blocks contain it", l, inTrunk, len(mainHolders))
		}
		if len(mainHolders) == 1 {
			want := m.Blocks[mainHolders[0]]
			tx, err := leg.QueryTransaction(id)
			if err != nil {
				return fmt.Errorf("QueryTransaction(%s): %v, model: in main-chain block %s", l, err, want.Label)
			}
			if !bytes.Equal(tx.Blockid, want.ID) {
				return fmt.Errorf("QueryTransaction(%s).Blockid=%s, model main-chain block %s", l, nameOf(m, tx.Blockid), want.Label)
			}
			qb, err := leg.QueryBlockByTxid(id)
			if err != nil || !bytes.Equal(qb.Blockid, want.ID) {
				return fmt.Errorf("QueryBlockByTxid(%s)=%v/%v, model %s", l, qb, err, want.Label)
			}
		}
	}
	// branch tips
	leaves := m.Leaves()
	for _, i := range main {
		b := m.Blocks[i]
		got, err := leg.GetBranchInfo(b.ID, b.Height)
		if err != nil {
			return fmt.Errorf("GetBranchInfo(%s): %v", b.Label, err)
		}
		gs := []string{}
		for _, g := range got {
			gs = append(gs, nameOf(m, []byte(g)))
		}
		sort.Strings(gs)
		ws := []string{}
		for _, l := range leaves {
			if m.Blocks[l].Height > b.Height && l != i {
				ws = append(ws, m.Blocks[l].Label)
			}
		}
		sort.Strings(ws)
		if fmt.Sprint(gs) != fmt.Sprint(ws) {
			if fs.Active("C04-truncate-leaves-stub") && fs.Flag("truncated") {
				continue
			}
			return fmt.Errorf("GetBranchInfo(%s,%d)=%v, model leaves above: %v", b.Label, b.Height, gs, ws)
		}
	}
	return nil
}

// CheckPaths compares FindUndoAndTodoBlocks for a pair with the model's LCA paths.
func (lm *LedgerMachine) CheckPaths(a, b int) error {
	m := lm.M
	undo, todo, err := lm.Leg().FindUndoAndTodoBlocks(m.Blocks[a].ID, m.Blocks[b].ID)
	if err != nil {
		return fmt.Errorf("FindUndoAndTodoBlocks(%s,%s): %v", m.Blocks[a].Label, m.Blocks[b].Label, err)
	}
	l := m.LCA(a, b)
	var wu, wt []string
	for j := a; j != l; j = m.Blocks[j].Parent {
		wu = append(wu, m.Blocks[j].Label)
	}
	for j := b; j != l; j = m.Blocks[j].Parent {
		wt = append(wt, m.Blocks[j].Label)
	}
	var gu, gt []string
	for _, x := range undo {
		gu = append(gu, nameOf(m, x.Blockid))
	}
	for _, x := range todo {
		gt = append(gt, nameOf(m, x.Blockid))
	}
	if fmt.Sprint(gu) != fmt.Sprint(wu) || fmt.Sprint(gt) != fmt.Sprint(wt) {
		return fmt.Errorf("FindUndoAndTodoBlocks(%s,%s) undo=%v todo=%v, model undo=%v todo=%v (newest first)", m.Blocks[a].Label, m.Blocks[b].Label, gu, gt, wu, wt)
	}
	return nil
}

func parentID(m *LedgerModel, b *MBlock) []byte {
	if b.Parent < 0 {
		return nil
	}
	return m.Blocks[b.Parent].ID
}

func lab(m *LedgerModel, i int) string {
	if i < 0 {
		return "-"
	}
	return m.Blocks[i].Label
}

func nameOf(m *LedgerModel, id []byte) string {
	if len(id) == 0 {
		return "<none>"
	}
	if i, ok := m.ByID[string(id)]; ok {
		return m.Blocks[i].Label
	}
	return fmt.Sprintf("?%x", id[:4])
}

// RunLedgerTrace replays a recorded operation list (no rapid) and returns the first oracle failure.
func RunLedgerTrace(ops []LOp, fs *FindingSet) error {
	lm, err := NewLedgerMachine(fs)
	if err != nil {
		return err
	}
	defer lm.Close()
	for i, op := range ops {
		if err := lm.Apply(op); err != nil {
			return fmt.Errorf("step %d %+v: %v", i, op, err)
		}
		if err := lm.CheckInvariant(); err != nil {
			return fmt.Errorf("after step %d %+v: %v", i, op, err)
		}
		st := lm.M.StoredIdx()
		for _, a := range st {
			if err := lm.CheckPaths(a, lm.M.Tip); err != nil {
				return err
			}
			if err := lm.CheckPaths(lm.M.Tip, a); err != nil {
				return err
			}
		}
	}
	return nil
}

// SideDupOwnAncestor reports whether op is a block that repeats a transaction of one of its own
// ancestors without being caught by the ledger's ErrTxDuplicated rule (which only looks at
// main-chain holders at or below the fork point, and only for a block that is itself in trunk):
// the trigger shape of finding C04-dup-tx-own-branch.
func (lm *LedgerMachine) SideDupOwnAncestor(op LOp) bool {
	m := lm.M
	if op.Op != "confirm" || op.Parent < 0 || op.Kind != "ok" || !m.Blocks[op.Parent].Stored {
		return false
	}
	extends := op.Parent == m.Tip
	switches := !extends && m.Blocks[op.Parent].Height+1 > m.Blocks[m.Tip].Height
	fork := -1
	if extends {
		fork = m.Tip
	} else if switches {
		fork = m.LCA(m.Tip, op.Parent)
	}
	ownDup := false
	for _, l := range op.Txs {
		id := DummyTx(l).Txid
		for j := op.Parent; j >= 0; j = m.Blocks[j].Parent {
			if m.containsTx(j, id) {
				ownDup = true
				if fork >= 0 && m.Blocks[j].Height <= m.Blocks[fork].Height {
					return false // the ledger rejects this block as duplicated: nothing to exclude
				}
			}
		}
	}
	return ownDup
}
